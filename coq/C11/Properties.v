(* C11/Properties.v -- the pinned statements of property C11 and their assumptions.
   Nothing else lives here: each statement is re-stated in full with [Check ... : ...]
   so that it cannot be quietly weakened in Proofs.v. *)
From Sophia.C11 Require Import Model Proofs ModelErr ProofsErr ModelSeq ProofsSeq.

Section Pins.
Variable T : Type.
Variable eqb : T -> T -> bool.
Hypothesis eqb_spec : forall x y, eqb x y = true <-> x = y.

(* 1. union graph: content and queries *)
Check (union_content T : forall d, union_triples T d = map qt d).
Check (union_query_is_filter T : forall d sm pm om,
  union_matching T d sm pm om = filter (triple_matches T sm pm om) (union_triples T d)).
(* 2. partial union graph *)
Check (punion_content T : forall d m,
  punion_triples T d m = map qt (filter (fun q => m (qg q)) d)).
Check (punion_query_is_filter T : forall d m sm pm om,
  punion_matching T d m sm pm om = filter (triple_matches T sm pm om) (punion_triples T d m)).
(* 3. one graph of a dataset *)
Check (dg_member T eqb eqb_spec : forall d g t, In t (dg_triples T eqb d g) <-> In (mkQ t g) d).
Check (dg_query_is_filter T eqb : forall d g sm pm om,
  dg_matching T eqb d g sm pm om = filter (triple_matches T sm pm om) (dg_triples T eqb d g)).
Check (dg_nodup T eqb eqb_spec : forall d g, NoDup d -> NoDup (dg_triples T eqb d g)).
(* 4. mutation through a view *)
Check (dg_insert_is_direct T eqb : forall d g t, dg_insert T eqb d g t = ds_insert T eqb d (mkQ t g)).
Check (dg_remove_is_direct T eqb : forall d g t, dg_remove T eqb d g t = ds_remove T eqb d (mkQ t g)).
Check (dg_insert_effect T eqb eqb_spec : forall d g t d' b,
  dg_insert T eqb d g t = (d', b) ->
  b = negb (existsb (triple_eqb T eqb t) (dg_triples T eqb d g))
  /\ (forall t', In t' (dg_triples T eqb d' g) <-> In t' (dg_triples T eqb d g) \/ t' = t)
  /\ (forall g', g' <> g -> dg_triples T eqb d' g' = dg_triples T eqb d g')
  /\ (NoDup d -> NoDup d')).
Check (dg_remove_effect T eqb eqb_spec : forall d g t d' b,
  dg_remove T eqb d g t = (d', b) ->
  b = existsb (triple_eqb T eqb t) (dg_triples T eqb d g)
  /\ (forall t', In t' (dg_triples T eqb d' g) <-> In t' (dg_triples T eqb d g) /\ t' <> t)
  /\ (forall g', g' <> g -> dg_triples T eqb d' g' = dg_triples T eqb d g')
  /\ (NoDup d -> NoDup d')).
(* 4b. bulk mutation through a view touches the viewed graph only *)
Check (dg_remove_matching_effect T eqb eqb_spec : forall d g sm pm om,
  let d' := fst (dg_remove_matching T eqb d g sm pm om) in
  (forall t, In t (dg_triples T eqb d' g) <->
             In t (dg_triples T eqb d g) /\ triple_matches T sm pm om t = false)
  /\ (forall g', g' <> g -> dg_triples T eqb d' g' = dg_triples T eqb d g')
  /\ (NoDup d -> NoDup d')).
Check (dg_retain_matching_effect T eqb eqb_spec : forall d g sm pm om,
  let d' := dg_retain_matching T eqb d g sm pm om in
  (forall t, In t (dg_triples T eqb d' g) <->
             In t (dg_triples T eqb d g) /\ triple_matches T sm pm om t = true)
  /\ (forall g', g' <> g -> dg_triples T eqb d' g' = dg_triples T eqb d g')
  /\ (NoDup d -> NoDup d')).
(* 5. graph as dataset *)
Check (gad_content T : forall g, gad_quads T g = map (fun t => mkQ t None) g).
Check (gad_query_is_filter T : forall g sm pm om gm,
  gad_quads_matching T g sm pm om gm =
  filter (fun q => triple_matches T sm pm om (qt q) && gm (qg q)) (gad_quads T g)).
Check (gad_contains_spec T eqb eqb_spec : forall g q,
  gad_contains T eqb g q = true <-> In q (gad_quads T g)).
Check (gad_insert_effect T eqb eqb_spec : forall g q g' r,
  gad_insert T eqb g q = (g', r) ->
  match qg q with
  | None => r = GadOk (negb (gad_contains T eqb g q))
            /\ (forall x, In x (gad_quads T g') <-> In x (gad_quads T g) \/ x = q)
            /\ (NoDup g -> NoDup g')
  | Some _ => r = GadOnlyDefaultGraph /\ g' = g
  end).
Check (gad_remove_effect T eqb eqb_spec : forall g q g' r,
  gad_remove T eqb g q = (g', r) ->
  r = GadOk (gad_contains T eqb g q)
  /\ (forall x, In x (gad_quads T g') <-> In x (gad_quads T g) /\ x <> q)
  /\ (NoDup g -> NoDup g')).
End Pins.

(* 6. every reachable state / whole histories *)
Check (reachable_nodup : forall pl ops, NoDup (final pl [] ops)).
Check (history_devirt : forall pl d ops, run pl d ops = run pl d (map devirt ops)).

(* 7. the widened alphabet: views of views, provided methods through views, bulk mutations, bag stores *)
Check (hop_matching_is_filter : forall d h sm pm om,
  hop_matching d h sm pm om = filter (triple_matches N sm pm om) (hop_triples d h)).
Check (gad_hop_collapse : forall l : list tt,
  hop_triples (gad_quads N l) HUnion = l
  /\ hop_triples (gad_quads N l) (HGraph None) = l
  /\ (forall g, hop_triples (gad_quads N l) (HGraph (Some g)) = [])
  /\ (forall m, hop_triples (gad_quads N l) (HPUnion m) = if gdesc_g m None then l else [])).
Check (gobs_contains_member : forall pl d h t,
  gobs_eval pl d h (GOContains t) = OFlag (gr_contains N N.eqb (hop_triples d h) t)).
Check (dobs_contains_member : forall pl d q,
  dobs_eval pl d (DOContains q) = OFlag (ds_contains N N.eqb d q)).
Check (translate_ok : forall pl d o,
  xstep SSet pl d (translate o) = (fst (step pl d o), XO (snd (step pl d o)))).
Check (hrun_old_is_run : forall pl d ops, hrun SSet pl d (map HOld ops) = map XO (run pl d ops)).
Check (x_insert_lands : forall sk d gs t,
  match lands gs with
  | Some g => x_insert sk d gs t = (fst (s_insert sk d (mkQ t g)), XO (OFlag (snd (s_insert sk d (mkQ t g)))))
              /\ x_remove sk d gs t = (fst (s_remove sk d (mkQ t g)), XO (OFlag (snd (s_remove sk d (mkQ t g)))))
  | None => x_insert sk d gs t = (d, XOnlyDefault) /\ x_remove sk d gs t = (d, XO (OFlag false))
  end).
Check (lands_spec : forall g rest, lands (g :: rest) = if forallb is_default rest then Some g else None).
Check (x_insert_set_direct : forall d g t,
  x_insert SSet d [g] t = (fst (dg_insert N N.eqb d g t), XO (OFlag (snd (dg_insert N N.eqb d g t))))
  /\ x_remove SSet d [g] t = (fst (dg_remove N N.eqb d g t), XO (OFlag (snd (dg_remove N N.eqb d g t))))).
Check (x_insert_all_is_fold : forall sk g l d n,
  x_insert_all sk d (map (fun t => ([g], t)) l) n =
  let r := fold_left (fun acc t => let '(d', b) := s_insert sk (fst acc) (mkQ t g) in
                                   (d', if b then snd acc + 1 else snd acc)) l (d, n) in
  (fst r, XO (OCount (snd r)))).
Check (x_remove_all_is_fold : forall sk g l d n,
  x_remove_all sk d (map (fun t => ([g], t)) l) n =
  let r := fold_left (fun acc t => let '(d', b) := s_remove sk (fst acc) (mkQ t g) in
                                   (d', if b then snd acc + 1 else snd acc)) l (d, n) in
  (fst r, XO (OCount (snd r)))).
Check (x_insert_all_stops : forall sk d gs t rest n,
  lands gs = None -> x_insert_all sk d ((gs, t) :: rest) n = (d, XOnlyDefault)).
Check (bag_insert_view : forall d g t g',
  hop_triples (fst (s_insert SBagAll d (mkQ t g))) (HGraph g') =
  hop_triples d (HGraph g') ++ (if gname_eqb N N.eqb g g' then [t] else [])
  /\ hop_triples (fst (s_insert SBagAll d (mkQ t g))) HUnion = hop_triples d HUnion ++ [t]
  /\ snd (s_insert SBagAll d (mkQ t g)) = true).
Check (bag_remove_view : forall d g t g',
  hop_triples (fst (s_remove SBagAll d (mkQ t g))) (HGraph g') =
  (if gname_eqb N N.eqb g g' then filter (fun x => negb (triple_eqb N N.eqb t x)) (hop_triples d (HGraph g'))
   else hop_triples d (HGraph g'))
  /\ snd (s_remove SBagAll d (mkQ t g)) = true).
Check (bagone_remove_view : forall d g t g',
  hop_triples (fst (s_remove SBagOne d (mkQ t g))) (HGraph g') =
  (if gname_eqb N N.eqb g g' then fst (remove_first_t t (hop_triples d (HGraph g'))) else hop_triples d (HGraph g'))
  /\ snd (s_remove SBagOne d (mkQ t g)) = gr_contains N N.eqb (hop_triples d (HGraph g)) t).
Check (xd_remove_matching_effect : forall d sm pm om gm,
  let d' := fst (xd_remove_matching SSet d sm pm om gm) in
  (forall q, In q d' <-> In q d /\ (triple_matches N sm pm om (qt q) && gm (qg q)) = false)
  /\ (NoDup d -> NoDup d')).
Check (xd_retain_matching_effect : forall d sm pm om gm,
  let d' := xd_retain_matching SSet d sm pm om gm in
  (forall q, In q d' <-> In q d /\ (triple_matches N sm pm om (qt q) && gm (qg q)) = true)
  /\ (NoDup d -> NoDup d')).
Check (hreachable_nodup : forall pl init ops,
  NoDup (hfinal pl (fold_left (fun d q => fst (s_insert SSet d q)) init []) ops)).

(* 8. error paths: a bulk mutation whose source fails, a store whose insert / remove fails at its (k+1)-th call *)
Check (erun_embeds : forall sk pl ops d, erun sk pl (d, None) (map EH ops) = map EX (hrun sk pl d ops)).
Check (ecase_embeds : forall sk pl init ops obs,
  ecase_ok sk pl init (map EH ops) (map EX obs) = xcase_ok sk pl init ops obs).
Check (e_insert_all_none : forall sk items d n,
  e_insert_all sk (d, None) items n =
  ((fst (x_insert_all sk d items n), None), EX (snd (x_insert_all sk d items n)))).
Check (e_remove_all_none : forall sk items d n,
  e_remove_all sk (d, None) items n =
  ((fst (x_remove_all sk d items n), None), EX (snd (x_remove_all sk d items n)))).
Check (failed_source_insert_all : forall sk pl d items k,
  estep sk pl (d, None) (EInsAllF items k) =
  let r := x_insert_all sk d (firstn (N.to_nat k) items) 0 in
  ((fst r, None), match snd r with XO (OCount _) => ESrcErr | x => EX x end)).
Check (failed_source_remove_all : forall sk pl d items k,
  estep sk pl (d, None) (ERemAllF items k) =
  let r := x_remove_all sk d (firstn (N.to_nat k) items) 0 in
  ((fst r, None), match snd r with XO (OCount _) => ESrcErr | x => EX x end)).
Check (insert_all_keeps : forall sk items (st : estate) n x,
  In x (fst st) -> In x (fst (fst (e_insert_all sk st items n)))).
Check (insert_all_only_adds : forall sk items (st : estate) n x,
  In x (fst (fst (e_insert_all sk st items n))) ->
  In x (fst st) \/ exists gs, In (gs, qt x) items /\ lands gs = Some (qg x)).
Check (failed_insert_all_keeps : forall sk pl (st : estate) items k x,
  In x (fst st) -> In x (fst (fst (estep sk pl st (EInsAllF items k))))).
Check (failed_insert_all_only_adds : forall sk pl (st : estate) items k x,
  In x (fst (fst (estep sk pl st (EInsAllF items k)))) ->
  In x (fst st) \/ exists gs, In (gs, qt x) items /\ lands gs = Some (qg x)).
Check (remove_all_only_removes : forall sk items (st : estate) n x,
  (In x (fst (fst (e_remove_all sk st items n))) -> In x (fst st))
  /\ (In x (fst st) -> (forall gs, In (gs, qt x) items -> lands gs <> Some (qg x)) ->
      In x (fst (fst (e_remove_all sk st items n))))).
Check (failed_remove_all_only_removes : forall sk pl (st : estate) items k x,
  (In x (fst (fst (estep sk pl st (ERemAllF items k)))) -> In x (fst st))
  /\ (In x (fst st) -> (forall gs, In (gs, qt x) items -> lands gs <> Some (qg x)) ->
      In x (fst (fst (estep sk pl st (ERemAllF items k)))))).
Check (budget_stops_insert_all : forall sk s items k d n,
  Forall (fun it => lands (fst it) <> None) items -> (k < length items)%nat ->
  e_insert_all sk (d, Some (N.of_nat k, s)) items n =
  ((fst (x_insert_all sk d (firstn k items) n), if s then Some (0, true) else None), ESinkErr)).
Check (partial_removal_effect : forall d k s x removed (st' : estate),
  e_partial SSet (d, Some (k, s)) x removed = (st', ESinkErr) ->
  exists v, victims d x = Some v
  /\ (forall q, In q (fst st') <-> In q d /\ ~ In q removed)
  /\ (forall q, In q removed -> In q v) /\ NoDup removed
  /\ N.of_nat (length removed) = k /\ (k < N.of_nat (length v))%N
  /\ snd st' = (if s then Some (0, true) else None)
  /\ (NoDup d -> NoDup (fst st'))).
Check (view_victims_in_graph : forall d g sm pm om v,
  (victims d (XRemMatching g sm pm om) = Some v \/ victims d (XRetMatching g sm pm om) = Some v) ->
  forall q, In q v -> qg q = g /\ In q d).

(* ---------- read errors in the MIDDLE of an enumeration (ModelSeq.v): every view relays the store's
   sequence of Ok / Err items one for one ---------- *)
Check (@filter_ok_oks : forall A (f : A -> bool) (l : list (item A)), oks (filter_ok f l) = filter f (oks l)).
Check (@filter_ok_errs : forall A (f : A -> bool) (l : list (item A)), errs (filter_ok f l) = errs l).
Check (@map_ok_oks : forall A B (f : A -> B) (l : list (item A)), oks (map_ok f l) = map f (oks l)).
Check (@map_ok_errs : forall A B (f : A -> B) (l : list (item A)), errs (map_ok f l) = errs l).
Check (@flat_map_ok_oks : forall A B (f : A -> list B) (l : list (item A)), oks (flat_map_ok f l) = flat_map f (oks l)).
Check (@flat_map_ok_errs : forall A B (f : A -> list B) (l : list (item A)), errs (flat_map_ok f l) = errs l).
Check (store_view_errs : forall own h sm pm om,
  errs (f_triples_matching (FRoot false own) h sm pm om) = errs own).
Check (store_view_oks : forall own h sm pm om,
  oks (f_triples_matching (FRoot false own) h sm pm om) = hop_matching (oks own) h sm pm om).
Check (store_view_triples_oks : forall own h, oks (f_triples (FRoot false own) h) = hop_triples (oks own) h).
Check (store_view_app : forall a b h sm pm om,
  f_triples_matching (FRoot false (a ++ b)) h sm pm om
  = f_triples_matching (FRoot false a) h sm pm om ++ f_triples_matching (FRoot false b) h sm pm om).
Check (store_view_err : forall c h sm pm om, f_triples_matching (FRoot false [IErr c]) h sm pm om = [IErr c]).
Check (store_view_ok : forall q h sm pm om,
  f_triples_matching (FRoot false [IOk q]) h sm pm om
  = if triple_matches N sm pm om (qt q) && hop_g h (qg q) then [IOk (qt q)] else []).
Check (view_continues_after_error : forall a c b h sm pm om,
  f_triples_matching (FRoot false (a ++ IErr c :: b)) h sm pm om
  = f_triples_matching (FRoot false a) h sm pm om ++ IErr c :: f_triples_matching (FRoot false b) h sm pm om).
Check (nothing_lost : forall own h sm pm om q,
  In (IOk q) own -> triple_matches N sm pm om (qt q) = true -> hop_g h (qg q) = true ->
  In (IOk (qt q)) (f_triples_matching (FRoot false own) h sm pm om)).
Check (nothing_invented : forall own h sm pm om t,
  In (IOk t) (f_triples_matching (FRoot false own) h sm pm om) ->
  exists q, In (IOk q) own /\ qt q = t /\ triple_matches N sm pm om t = true /\ hop_g h (qg q) = true).
Check (seq_matching_is_filter : forall v h sm pm om,
  f_triples_matching v h sm pm om = filter_ok (triple_matches N sm pm om) (f_triples v h)).
Check (seq_quads_matching_default : forall v sm pm om gm,
  is_adapter v = true -> gm None = false -> f_quads_matching v sm pm om gm = []).
Check (view_oks : forall v sm pm om gm, root_default v ->
  oks (f_quads_matching v sm pm om gm) = ds_quads_matching N (view_ds v) sm pm om gm).
Check (seq_path_oks : forall gs own p h sm pm om,
  root_default (FRoot gs own) ->
  oks (f_triples_matching (mk_view (FRoot gs own) p) h sm pm om) = hop_matching (path_quads (oks own) p) h sm pm om).
Check (seq_path_quads_oks : forall gs own p sm pm om gm,
  root_default (FRoot gs own) ->
  oks (f_quads_matching (mk_view (FRoot gs own) p) sm pm om gm) = ds_quads_matching N (path_quads (oks own) p) sm pm om gm).
Check (with_plan_oks : forall pl l i, oks (with_plan_from pl i l) = l).
Check (with_plan_nil : forall l i, with_plan_from [] i l = map IOk l).
Check (srun_embeds : forall sk gs pl ops st p, srun sk gs pl (st, p) (map SE ops) = map SX (erun sk pl st ops)).
Check (scase_embeds : forall sk gs pl init ops obs,
  scase_ok sk gs pl init (map SE ops) (map SX obs) = ecase_ok sk pl init ops obs).
Check (sseq_keeps_state : forall sk gs pl st own x, fst (sstep sk gs pl st (SSeq own x)) = st).

(* non-vacuity: a store with two unreadable records, seen through a partial union, through one graph, through a
   view of a view; a plan that puts the errors there; a view that stopped at the first error would differ *)
Definition ex_own : list (item tq) :=
  [IOk (mkQ (mkT 1 3 1) None); IErr 20; IOk (mkQ (mkT 2 3 1) (Some 12)); IOk (mkQ (mkT 4 3 1) (Some 13)); IErr 21;
   IOk (mkQ (mkT 5 3 1) (Some 12))].
Example ex_punion_relays :
  f_triples (FRoot false ex_own) (HPUnion (GOneOf [None; Some 12]))
  = [IOk (mkT 1 3 1); IErr 20; IOk (mkT 2 3 1); IErr 21; IOk (mkT 5 3 1)].
Proof. reflexivity. Qed.
Example ex_graph_relays :
  f_triples_matching (FRoot false ex_own) (HGraph (Some 12)) (mdesc_t MAny) (mdesc_t (MOneOf [3])) (mdesc_t MAny)
  = [IErr 20; IOk (mkT 2 3 1); IErr 21; IOk (mkT 5 3 1)].
Proof. reflexivity. Qed.
Example ex_view_of_view :
  seq_eval false [] ex_own (XGObs [HPUnion (GOneOf [Some 12])] (HGraph None) GOAll)
  = QT [IErr 20; IOk (mkT 2 3 1); IErr 21; IOk (mkT 5 3 1)]
  /\ seq_eval false [] ex_own (XGObs [HPUnion (GOneOf [Some 12])] (HGraph (Some 1)) GOAll) = QT []
  /\ seq_eval false [] ex_own (XGObs [] (HGraph (Some 12)) (GOContains (mkT 5 3 1))) = QErr 20
  /\ seq_eval false [] ex_own (XGObs [] HUnion (GOContains (mkT 1 3 1))) = QFlag true.
Proof. repeat split; reflexivity. Qed.
Example ex_plan : with_plan [(1, 20); (3, 21)] (oks ex_own) = ex_own
  /\ own_ok (oks ex_own) [(1, 20); (3, 21)] ex_own = true
  /\ own_ok (oks ex_own) [(1, 20)] ex_own = false.
Proof. repeat split; vm_compute; reflexivity. Qed.
Example ex_truncated_differs :
  qout_eqb (seq_eval false [] ex_own (XGObs [] (HPUnion (GOneOf [None; Some 12])) GOAll)) (QT [IOk (mkT 1 3 1); IErr 20]) = false.
Proof. vm_compute. reflexivity. Qed.

Print Assumptions union_content.
Print Assumptions union_query_is_filter.
Print Assumptions punion_content.
Print Assumptions punion_query_is_filter.
Print Assumptions dg_member.
Print Assumptions dg_query_is_filter.
Print Assumptions dg_nodup.
Print Assumptions dg_insert_is_direct.
Print Assumptions dg_remove_is_direct.
Print Assumptions dg_insert_effect.
Print Assumptions dg_remove_effect.
Print Assumptions dg_remove_matching_effect.
Print Assumptions dg_retain_matching_effect.
Print Assumptions gad_content.
Print Assumptions gad_query_is_filter.
Print Assumptions gad_contains_spec.
Print Assumptions gad_insert_effect.
Print Assumptions gad_remove_effect.
Print Assumptions reachable_nodup.
Print Assumptions history_devirt.
Print Assumptions hop_matching_is_filter.
Print Assumptions gad_hop_collapse.
Print Assumptions gobs_contains_member.
Print Assumptions dobs_contains_member.
Print Assumptions translate_ok.
Print Assumptions hrun_old_is_run.
Print Assumptions x_insert_lands.
Print Assumptions lands_spec.
Print Assumptions x_insert_set_direct.
Print Assumptions x_insert_all_is_fold.
Print Assumptions x_remove_all_is_fold.
Print Assumptions x_insert_all_stops.
Print Assumptions bag_insert_view.
Print Assumptions bag_remove_view.
Print Assumptions bagone_remove_view.
Print Assumptions xd_remove_matching_effect.
Print Assumptions xd_retain_matching_effect.
Print Assumptions hreachable_nodup.
Print Assumptions erun_embeds.
Print Assumptions ecase_embeds.
Print Assumptions e_insert_all_none.
Print Assumptions e_remove_all_none.
Print Assumptions failed_source_insert_all.
Print Assumptions failed_source_remove_all.
Print Assumptions insert_all_keeps.
Print Assumptions insert_all_only_adds.
Print Assumptions failed_insert_all_keeps.
Print Assumptions failed_insert_all_only_adds.
Print Assumptions remove_all_only_removes.
Print Assumptions failed_remove_all_only_removes.
Print Assumptions budget_stops_insert_all.
Print Assumptions partial_removal_effect.
Print Assumptions view_victims_in_graph.
Print Assumptions filter_ok_oks.
Print Assumptions filter_ok_errs.
Print Assumptions map_ok_oks.
Print Assumptions map_ok_errs.
Print Assumptions flat_map_ok_oks.
Print Assumptions flat_map_ok_errs.
Print Assumptions store_view_errs.
Print Assumptions store_view_oks.
Print Assumptions store_view_triples_oks.
Print Assumptions store_view_app.
Print Assumptions store_view_err.
Print Assumptions store_view_ok.
Print Assumptions view_continues_after_error.
Print Assumptions nothing_lost.
Print Assumptions nothing_invented.
Print Assumptions seq_matching_is_filter.
Print Assumptions seq_quads_matching_default.
Print Assumptions view_oks.
Print Assumptions seq_path_oks.
Print Assumptions seq_path_quads_oks.
Print Assumptions with_plan_oks.
Print Assumptions with_plan_nil.
Print Assumptions srun_embeds.
Print Assumptions scase_embeds.
Print Assumptions sseq_keeps_state.
