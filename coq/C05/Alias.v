(* C05/Alias.v -- input datasets whose blank node labels come from the name spaces RDFC-1.0 uses
   itself: the canonical identifiers c14n0 .. c14n(n-1) (a canonical document that was read back,
   then relabelled / edited / merged / produced with the other hash function), the temporary
   identifiers b0, b1, ..., the place holders a and z of the first-degree hash, and near misses of
   those.  The shape of the labels says nothing about how they were assigned: the canonical document
   of the relabelled dataset is the one of the original dataset.
   A relabelling is an association list (old label, new label); labels not listed are kept.
   Definitions and the harness-facing checker only (theorems: AliasProofs.v). *)
From Sophia.C05 Require Export Model Entry.
From Sophia.C05 Require Import Ties Relabel.

(* ---------- a relabelling given as a table ---------- *)
Definition lbl_apply (m : list (str * str)) (b : str) : str :=
  match bt_get m b with Some x => x | None => b end.
Definition relabel_input (m : list (str * str)) (d : list quad) : list quad :=
  map (rename_q (lbl_apply m)) d.
(* decidable: the relabelling identifies no two labels of the list *)
Definition injective_on (f : str -> str) (l : list str) : bool :=
  forallb (fun x => forallb (fun y => implb (str_eqb (f x) (f y)) (str_eqb x y)) l) l.

(* ---------- labels that look canonical ---------- *)
Definition canon_names (n : nat) : list str := map c14n_id (seq 0 n).
Fixpoint dedup_str (l : list str) : list str :=
  match l with
  | [] => []
  | x :: r => if mem x r then dedup_str r else x :: dedup_str r
  end.
Definition labels_of (d : list quad) : list str := dedup_str (bnodes d).
(* the n blank node labels of the dataset are exactly c14n0 .. c14n(n-1) *)
Definition canonical_shaped (d : list quad) : bool :=
  let ls := labels_of d in forallb (fun c => mem c ls) (canon_names (length ls)).

(* ---------- harness-facing checker ----------
   d: a dataset (the quads in the order the implementation saw them; the recorded table covers its
   run); m: a relabelling; shaped: whether the harness made the new labels exactly c14n0..c14n(n-1);
   (code2, bytes2, idmap2): what the implementation returned for the relabelled dataset.
   Checked: (1) implementation = model on the relabelled dataset; (2) the model's and the harness's
   view of the label shape agree; (3) when the model's run on d meets no top-level tie and the
   relabelling is injective, the document of the relabelled dataset is the model's document of d
   (AliasProofs.alias_invariant: this holds for the model; an implementation that trusts the shape
   of the labels fails here or in (1)). *)
Definition alias_ok (repaired : bool) (tbl : list (str * str)) (df1000 plimit : N) (d : list quad)
           (m : list (str * str)) (shaped : bool)
           (code2 : N) (bytes2 : str) (idmap2 : list (str * str)) : bool :=
  let H := tbl_H tbl in
  let v := mkVar repaired repaired in
  let d2 := relabel_input m d in
  impl_ok repaired tbl df1000 plimit d2 code2 bytes2 idmap2
  && Bool.eqb (canonical_shaped d2) shaped
  && (if repaired && injective_on (lbl_apply m) (bnodes d)
         && negb (top_ties H v (fuel_for d) (Some df1000) (Some plimit) d)
      then match normalize_with H v (fuel_for d) (Some df1000) (Some plimit) d with
           | Ok (b1, _) => (code2 =? 0) && str_eqb b1 bytes2
           | Err _ => true
           end
      else true).
