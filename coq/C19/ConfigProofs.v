(* C19/ConfigProofs.v -- every configuration reachable through new()/add() maps namespaces that end
   with "/" to existing directories; refusals leave nothing behind; a file that is returned is exactly
   the one the IRI designates under the FIRST registered namespace that prefixes it. *)
From Sophia.C19 Require Import Model Proofs Config.

(* ---------- strip_prefix is "starts_with + slice" ---------- *)
Lemma strip_prefix_spec ns : forall iri sub, strip_prefix ns iri = Some sub <-> iri = ns ++ sub.
Proof.
  induction ns as [|x ns IH]; intros iri sub; simpl.
  - split; intros H; [inversion H; reflexivity | subst; reflexivity].
  - destruct iri as [|y iri]; [split; intros H; discriminate|].
    destruct (N.eqb_spec x y) as [->|Hne].
    + rewrite IH. split; intros H; [subst; reflexivity | inversion H; reflexivity].
    + split; intros H; [discriminate | inversion H; congruence].
Qed.

(* ---------- check ---------- *)
Lemma dir_of_text_is_dir fs t p : dir_of_text fs t = Some p -> is_directory fs p = true.
Proof.
  unfold dir_of_text. destruct (os_walk fs [] (components t)) as [q|]; [|discriminate].
  destruct (is_directory fs q) eqn:E; [|discriminate]. intros H; inversion H; subst; exact E.
Qed.

Theorem check_accepts fs ns t c :
  check fs ns t = inr c <->
  ends_with_slash ns = true /\ is_abs t = true /\ exists p, dir_of_text fs t = Some p /\ c = (ns, p).
Proof.
  unfold check. destruct (ends_with_slash ns); simpl.
  - destruct (is_abs t); simpl.
    + destruct (dir_of_text fs t) as [p|].
      * split; [intros H; inversion H; subst; repeat split; eauto |].
        intros (_ & _ & q & Hq & ->). inversion Hq; reflexivity.
      * split; [discriminate | intros (_ & _ & q & Hq & _); discriminate].
    + split; [discriminate | intros (_ & H & _); discriminate].
  - split; [discriminate | intros (H & _); discriminate].
Qed.

Theorem check_refusals fs ns t :
  (check fs ns t = inl IriMustEndWithSlash <-> ends_with_slash ns = false) /\
  (check fs ns t = inl PathMustBeAbsolute <-> ends_with_slash ns = true /\ is_abs t = false) /\
  (check fs ns t = inl PathMustBeDirectory <->
     ends_with_slash ns = true /\ is_abs t = true /\ dir_of_text fs t = None).
Proof.
  unfold check. destruct (ends_with_slash ns); simpl; destruct (is_abs t); simpl;
    destruct (dir_of_text fs t); repeat split; try discriminate; try tauto;
    intros H; try discriminate; try (destruct H as (? & ? & ?); discriminate);
    try (destruct H; discriminate).
Qed.

Lemma check_wf fs ns t c : check fs ns t = inr c -> wf_cache fs c.
Proof.
  intros H. apply check_accepts in H as (H1 & _ & p & Hp & ->).
  split; simpl; [exact H1 | eapply dir_of_text_is_dir; eauto].
Qed.

(* ---------- add ---------- *)
Theorem add_refused_unchanged fs cs ns t e :
  snd (add fs cs ns t) = Some e -> fst (add fs cs ns t) = cs /\ check fs ns t = inl e.
Proof.
  unfold add. destruct (check fs ns t) as [e'|c]; simpl; intros H; [|discriminate].
  inversion H; subst. split; reflexivity.
Qed.

Theorem add_accepted fs cs ns t :
  snd (add fs cs ns t) = None ->
  exists c, check fs ns t = inr c /\ fst (add fs cs ns t) = cs ++ [c] /\ wf_cache fs c.
Proof.
  unfold add. destruct (check fs ns t) as [e'|c] eqn:E; simpl; intros H; [discriminate|].
  exists c. repeat split; try reflexivity. simpl. eapply check_wf; eauto.
  eapply check_wf; eauto.
Qed.

Lemma add_wf fs cs ns t :
  Forall (wf_cache fs) cs -> Forall (wf_cache fs) (fst (add fs cs ns t)).
Proof.
  intros H. unfold add. destruct (check fs ns t) as [e|c] eqn:E; simpl; [exact H|].
  apply Forall_app. split; [exact H|]. constructor; [|constructor]. eapply check_wf; eauto.
Qed.

(* every configuration reachable by any sequence of add() calls, accepted or refused *)
Theorem run_adds_wf fs ops : forall init,
  Forall (wf_cache fs) init -> Forall (wf_cache fs) (run_adds fs init ops).
Proof.
  unfold run_adds. induction ops as [|[ns t] ops IH]; intros init H; simpl; [exact H|].
  apply IH. apply add_wf. exact H.
Qed.

(* earlier mappings are never removed, replaced or reordered *)
Theorem run_adds_extends fs ops : forall init, exists added, run_adds fs init ops = init ++ added.
Proof.
  unfold run_adds. induction ops as [|[ns t] ops IH]; intros init; simpl.
  - exists []. rewrite app_nil_r. reflexivity.
  - unfold add at 2. destruct (check fs ns t) as [e|c]; simpl.
    + apply IH.
    + destruct (IH (init ++ [c])) as [a Ha]. exists (c :: a). rewrite Ha, <- app_assoc. reflexivity.
Qed.

(* ---------- new ---------- *)
Theorem new_loader_spec fs l : forall cs,
  new_loader fs l = inr cs <-> Forall2 (fun op c => check fs (fst op) (snd op) = inr c) l cs.
Proof.
  induction l as [|[ns t] l IH]; intros cs; simpl.
  - split; intros H; [inversion H; constructor | inversion H; reflexivity].
  - destruct (check fs ns t) as [e|c] eqn:E.
    + split; [discriminate | intros H; inversion H; subst; simpl in *; congruence].
    + destruct (new_loader fs l) as [e|cs'] eqn:E2.
      * split; [discriminate|]. intros H; inversion H; subst.
        match goal with X : Forall2 _ l _ |- _ => apply IH in X; discriminate end.
      * split.
        -- intros H; inversion H; subst. constructor; [exact E | apply IH; reflexivity].
        -- intros H; inversion H; subst. simpl in *.
           match goal with X : Forall2 _ l _ |- _ => apply IH in X; inversion X; subst end.
           congruence.
Qed.

(* a refused new() reports the refusal of the FIRST offending mapping *)
Theorem new_loader_first_error fs l e :
  new_loader fs l = inl e ->
  exists pre op post, l = pre ++ op :: post /\ check fs (fst op) (snd op) = inl e
    /\ Forall (fun op' => exists c, check fs (fst op') (snd op') = inr c) pre.
Proof.
  induction l as [|[ns t] l IH]; simpl; [discriminate|].
  destruct (check fs ns t) as [e'|c] eqn:E.
  - intros H; inversion H; subst. exists [], (ns, t), l. repeat split; auto.
  - destruct (new_loader fs l) as [e'|cs'] eqn:E2; [|discriminate].
    intros H; inversion H; subst. destruct (IH eq_refl) as (pre & op & post & -> & Hc & Hp).
    exists ((ns, t) :: pre), op, post. repeat split; auto. constructor; [eexists; exact E | exact Hp].
Qed.

Theorem new_loader_wf fs l cs : new_loader fs l = inr cs -> Forall (wf_cache fs) cs.
Proof.
  intros H. apply new_loader_spec in H. induction H as [|op c l cs Hc _ IH]; constructor; auto.
  eapply check_wf; eauto.
Qed.

(* new(l) and add()ing the mappings of l one by one give the same loader *)
Theorem new_equals_adds fs l cs : new_loader fs l = inr cs -> run_adds fs [] l = cs.
Proof.
  intros H. apply new_loader_spec in H.
  assert (G : forall init, run_adds fs init l = init ++ cs).
  { induction H as [|op c l cs Hc _ IH]; intros init; unfold run_adds in *; simpl.
    - rewrite app_nil_r; reflexivity.
    - unfold add at 2. rewrite Hc. simpl. rewrite IH, <- app_assoc. reflexivity. }
  apply (G []).
Qed.

(* ---------- which file is returned ---------- *)
Lemma resolve_safe_normals cs : forall base,
  forallb comp_safe cs = true -> resolve base cs = base ++ normals cs.
Proof.
  induction cs as [|c cs IH]; intros base H; simpl in *; [rewrite app_nil_r; reflexivity|].
  apply andb_true_iff in H as [Hc H]. destruct c; simpl in Hc; try discriminate.
  - apply IH; exact H.
  - rewrite IH by exact H. rewrite <- app_assoc. reflexivity.
Qed.

Lemma walk_found fs todo : forall done md,
  walk fs done todo md = RFound -> lookup fs (done ++ todo) = Some true.
Proof.
  induction todo as [|s r IH]; intros done md; simpl.
  - rewrite app_nil_r. destruct (lookup fs done) as [[|]|]; try discriminate; auto.
    destruct done; discriminate.
  - intros H.
    assert (G : walk fs (done ++ [s]) r md = RFound).
    { destruct done as [|d0 done'].
      - exact H.
      - destruct (lookup fs (d0 :: done')) as [[|]|]; try discriminate; exact H. }
    apply IH in G. rewrite <- app_assoc in G. exact G.
Qed.

(* the first registered namespace that prefixes the IRI is the one used *)
Theorem find_cache_first caches iri dir sub :
  find_cache caches iri = Some (dir, sub) ->
  exists pre ns post, caches = pre ++ (ns, dir) :: post /\ iri = ns ++ sub
    /\ Forall (fun c => forall s, iri <> fst c ++ s) pre.
Proof.
  induction caches as [|[ns d] r IH]; simpl; [discriminate|].
  destruct (strip_prefix ns iri) as [s|] eqn:E.
  - intros H; inversion H; subst. exists [], ns, r. repeat split; auto. apply strip_prefix_spec; exact E.
  - intros H. destruct (IH H) as (pre & ns' & post & -> & Hi & Hp).
    exists ((ns, d) :: pre), ns', post. repeat split; auto. constructor; [|exact Hp].
    simpl. intros s Hs. apply strip_prefix_spec in Hs. congruence.
Qed.

Section Exact.
Variable fs : fsys.
Variable exts : list str.
Variable caches : list cache.

Lemma get1_found_exact iri o p ct nf :
  get1 fs true caches iri = (o, Found p ct, nf) ->
  exists dir sub, find_cache caches iri = Some (dir, sub)
    /\ forallb comp_safe (components sub) = true
    /\ p = dir ++ normals (components sub) /\ lookup fs p = Some true /\ ct = ctype iri.
Proof.
  unfold get1. destruct (find_cache caches iri) as [[dir sub]|]; [|intros H; inversion H].
  simpl. destruct (forallb comp_safe (components sub)) eqn:Hs; simpl; [|intros H; inversion H].
  destruct (walk fs [] (resolve dir (components sub)) (trailing_dir sub)) eqn:W;
    intros H; inversion H; subst.
  exists dir, sub. repeat split; auto.
  - apply resolve_safe_normals; exact Hs.
  - apply walk_found in W. simpl in W. exact W.
Qed.

(* Functional statement: a successful get returns the regular file whose path is the mapped directory
   of the first registered namespace prefixing the (fragment-stripped, possibly extension-completed)
   IRI, followed by the non-dot segments of the remainder -- no other file. *)
Theorem get_found_exact iri0 p ct :
  snd (get fs exts true caches iri0) = Found p ct ->
  let iri := hd [] (split_on c_hash iri0) in
  exists e dir sub, (e = [] \/ In e exts) /\ find_cache caches (iri ++ e) = Some (dir, sub)
    /\ forallb comp_safe (components sub) = true
    /\ p = dir ++ normals (components sub) /\ lookup fs p = Some true /\ ct = ctype (iri ++ e).
Proof.
  intros H iri. unfold get in H. fold iri in H.
  destruct (get1 fs true caches iri) as [[o res] nf] eqn:E1.
  destruct (nf && no_ext iri).
  - clear E1. revert o H. induction exts as [|e es IH]; intros o H; simpl in H; [discriminate|].
    destruct (get1 fs true caches (iri ++ e)) as [[o2 r2] n2] eqn:E2.
    destruct r2; simpl in H;
      try (destruct (IH _ H) as (e' & dir & sub & [->|Hin] & R); [exists [], dir, sub; split; [left; reflexivity | exact R]
                                                               | exists e', dir, sub; split; [right; right; exact Hin | exact R]]).
    inversion H; subst. apply get1_found_exact in E2 as (dir & sub & R).
    exists e, dir, sub. split; [right; left; reflexivity | exact R].
  - simpl in H. subst res. apply get1_found_exact in E1 as (dir & sub & R).
    exists [], dir, sub. rewrite app_nil_r. split; [left; reflexivity | exact R].
Qed.
End Exact.

(* ---------- the fragment never matters ---------- *)
Lemma split_on_hd_nohash iri : existsb (N.eqb c_hash) iri = false -> hd [] (split_on c_hash iri) = iri.
Proof.
  induction iri as [|x iri IH]; cbn [split_on existsb hd]; [reflexivity|].
  intros H. apply orb_false_iff in H as [Hx H]. rewrite N.eqb_sym in Hx. rewrite Hx.
  specialize (IH H). destruct (split_on c_hash iri) as [|p ps]; cbn [hd] in *; congruence.
Qed.
Lemma split_on_hd_app iri frag :
  existsb (N.eqb c_hash) iri = false -> hd [] (split_on c_hash (iri ++ c_hash :: frag)) = iri.
Proof.
  induction iri as [|x iri IH]; cbn [split_on existsb hd app].
  - rewrite N.eqb_refl. reflexivity.
  - intros H. apply orb_false_iff in H as [Hx H]. rewrite N.eqb_sym in Hx. rewrite Hx.
    specialize (IH H). destruct (split_on c_hash (iri ++ c_hash :: frag)) as [|p ps]; cbn [hd] in *; congruence.
Qed.
Theorem fragment_irrelevant fs exts caches iri frag :
  existsb (N.eqb c_hash) iri = false ->
  get fs exts true caches (iri ++ c_hash :: frag) = get fs exts true caches iri.
Proof.
  intros H. unfold get. rewrite split_on_hd_app, split_on_hd_nohash by exact H. reflexivity.
Qed.

(* ---------- composition: any loader obtainable through new()/add() is confined ---------- *)
Theorem reachable_get_confined fs exts init ops iri0 p :
  In p (fst (get fs exts true (run_adds fs init ops) iri0)) ->
  confined_any exts (run_adds fs init ops) (hd [] (split_on c_hash iri0)) p.
Proof. apply get_confined. Qed.

(* non-vacuity: a refused add between two accepted ones; "/r/missing/../ns" is lexically /r/ns but
   does not resolve, "/r/ns/../ns" does *)
Definition cx_fs : fsys := [([[114]], false); ([[114]; [110;115]], false); ([[114]; [110;115]; [120]], true); ([[115]], true)].
Definition cx_ns : str := [104;58;47;47;101;47;110;115;47].                      (* "h://e/ns/" *)
Definition t_ok : str := [47;114;47;110;115].                                     (* "/r/ns" *)
Definition t_dotdot_ok : str := [47;114;47;110;115;47;46;46;47;110;115].         (* "/r/ns/../ns" *)
Definition t_dotdot_missing : str := [47;114;47;109;47;46;46;47;110;115].        (* "/r/m/../ns" *)
Definition t_file : str := [47;115].                                              (* "/s" : a file *)
Definition t_rel : str := [114;47;110;115].                                       (* "r/ns" *)
Example config_examples :
  check cx_fs cx_ns t_ok = inr (cx_ns, [[114]; [110;115]]) /\
  check cx_fs cx_ns t_dotdot_ok = inr (cx_ns, [[114]; [110;115]]) /\
  check cx_fs cx_ns t_dotdot_missing = inl PathMustBeDirectory /\
  check cx_fs cx_ns t_file = inl PathMustBeDirectory /\
  check cx_fs cx_ns t_rel = inl PathMustBeAbsolute /\
  check cx_fs (removelast cx_ns) t_ok = inl IriMustEndWithSlash /\
  (* the slash test comes first, the absolute test second *)
  check cx_fs (removelast cx_ns) t_rel = inl IriMustEndWithSlash /\
  run_adds cx_fs [] [(cx_ns, t_file); (cx_ns, t_ok); (cx_ns, t_rel)] = [(cx_ns, [[114]; [110;115]])] /\
  add_results cx_fs [] [(cx_ns, t_file); (cx_ns, t_ok); (cx_ns, t_rel)]
    = [Some PathMustBeDirectory; None; Some PathMustBeAbsolute] /\
  new_loader cx_fs [(cx_ns, t_ok); (cx_ns, t_rel); (cx_ns, t_file)] = inl PathMustBeAbsolute /\
  snd (get cx_fs [] true (run_adds cx_fs [] [(cx_ns, t_ok)]) (cx_ns ++ [46;47;120;35;102]))
    = Found [[114]; [110;115]; [120]] 0.
Proof. vm_compute. repeat split; reflexivity. Qed.
