//! C18: RDF/XML serialisation (sophia_xml::serializer::RdfXmlSerializer over rio_xml's formatter)
//! round-trips through sophia_xml::parser::RdfXmlParser (rio_xml's parser) and through an
//! independent strict reference reader (XML 1.0 + Namespaces + the RDF/XML rules for the
//! vocabulary the formatter uses), against the Coq model C18/Model.v.
use sophia_api::prelude::*;
use sophia_api::serializer::{Stringifier, TripleSerializer};
use sophia_api::source::TripleSource;
use sophia_api::term::SimpleTerm;
use sophia_inmem::graph::FastGraph;
use sophia_isomorphism::isomorphic_graphs;
use sophia_xml::serializer::{RdfXmlConfig, RdfXmlSerializer};
use rio_api::model as rm;
use sophia_api::quad::Spog;
use sophia_api::source::{IntoSource, StreamError};
use sophia_api::term::TermKind;
use sophia_inmem::dataset::{FastDataset, LightDataset};
use sophia_inmem::graph::LightGraph;
use sophia_iri::Iri;
use sophia_rio::model::Trusted;
use sophia_xml::parser::RdfXmlParser;
use std::collections::{BTreeSet, HashMap, HashSet};
use std::convert::Infallible;
use std::io::{self, Write};
use std::panic::{AssertUnwindSafe, catch_unwind};
use std::sync::atomic::{AtomicBool, Ordering};
use verif_harness::*;

type T3 = [ST; 3];
static QUIET: AtomicBool = AtomicBool::new(false);
fn quiet<R>(f: impl FnOnce() -> R) -> std::thread::Result<R> {
    QUIET.store(true, Ordering::SeqCst); let r = catch_unwind(AssertUnwindSafe(f)); QUIET.store(false, Ordering::SeqCst); r
}

// ---------------------------------------------------------------------------------------------
// character classes (XML 1.0 fifth edition), written independently of the Coq model
// ---------------------------------------------------------------------------------------------
fn is_xml_char(c: char) -> bool { matches!(c, '\t' | '\n' | '\r' | '\u{20}'..='\u{D7FF}' | '\u{E000}'..='\u{FFFD}' | '\u{10000}'..='\u{10FFFF}') }
fn is_name_start(c: char) -> bool {
    matches!(c, ':' | 'A'..='Z' | '_' | 'a'..='z' | '\u{C0}'..='\u{D6}' | '\u{D8}'..='\u{F6}' | '\u{F8}'..='\u{2FF}' | '\u{370}'..='\u{37D}' | '\u{37F}'..='\u{1FFF}'
        | '\u{200C}'..='\u{200D}' | '\u{2070}'..='\u{218F}' | '\u{2C00}'..='\u{2FEF}' | '\u{3001}'..='\u{D7FF}' | '\u{F900}'..='\u{FDCF}' | '\u{FDF0}'..='\u{FFFD}' | '\u{10000}'..='\u{EFFFF}')
}
fn is_name_char(c: char) -> bool { is_name_start(c) || matches!(c, '-' | '.' | '0'..='9' | '\u{B7}' | '\u{300}'..='\u{36F}' | '\u{203F}'..='\u{2040}') }
fn is_ncname(s: &str) -> bool { let mut it = s.chars(); match it.next() { Some(c) if is_name_start(c) && c != ':' => it.all(|c| is_name_char(c) && c != ':'), _ => false } }
fn is_xml_ws(c: char) -> bool { matches!(c, ' ' | '\t' | '\n' | '\r') }
/// the longest NCName suffix of an IRI ("" if none): what a QName local part can be
fn ncname_suffix(iri: &str) -> &str {
    let mut best = "";
    for (i, _) in iri.char_indices() { if is_ncname(&iri[i..]) { best = &iri[i..]; break; } }
    best
}
const RESERVED: [&str; 12] = ["about", "aboutEach", "aboutEachPrefix", "bagID", "datatype", "ID", "li", "nodeID", "parseType", "RDF", "resource", "Description"];

// ---------------------------------------------------------------------------------------------
// reference reader: a strict XML 1.0 + Namespaces parser for elements / attributes / character
// data / references (no DTD, comments, PIs, CDATA: Err("unsupported ...")), then the RDF/XML
// rules for rdf:RDF > rdf:Description(rdf:about|rdf:nodeID) > property elements
// ---------------------------------------------------------------------------------------------
#[derive(Debug)]
enum Node { Elem(Elem), Text(String) }
#[derive(Debug)]
struct Elem { ns: String, local: String, attrs: Vec<(String, String, String)>, children: Vec<Node> }
struct Px<'a> { s: &'a [char], i: usize }
const XML_NS: &str = "http://www.w3.org/XML/1998/namespace";
impl<'a> Px<'a> {
    fn peek(&self) -> Option<char> { self.s.get(self.i).copied() }
    fn starts(&self, t: &str) -> bool { let t: Vec<char> = t.chars().collect(); self.s[self.i..].starts_with(&t) }
    fn skip_ws(&mut self) -> bool { let st = self.i; while self.peek().map_or(false, is_xml_ws) { self.i += 1; } self.i > st }
    fn name(&mut self) -> Result<String, String> {
        let st = self.i;
        match self.peek() { Some(c) if is_name_start(c) => self.i += 1, _ => return Err("name expected".into()) }
        while self.peek().map_or(false, is_name_char) { self.i += 1; }
        Ok(self.s[st..self.i].iter().collect())
    }
    fn reference(&mut self) -> Result<char, String> { // after '&'
        let st = self.i;
        while let Some(c) = self.peek() { if c == ';' { break; } if c == '&' || c == '<' { return Err("unterminated reference".into()); } self.i += 1; }
        if self.peek() != Some(';') { return Err("unterminated reference".into()); }
        let name: String = self.s[st..self.i].iter().collect(); self.i += 1;
        let c = match name.as_str() {
            "lt" => '<', "gt" => '>', "amp" => '&', "apos" => '\'', "quot" => '"',
            n if n.starts_with("#x") => { let h = &n[2..]; if h.is_empty() || !h.chars().all(|c| c.is_ascii_hexdigit()) { return Err("bad char ref".into()); } u32::from_str_radix(h, 16).ok().and_then(char::from_u32).ok_or("bad char ref")? }
            n if n.starts_with('#') => { let d = &n[1..]; if d.is_empty() || !d.chars().all(|c| c.is_ascii_digit()) { return Err("bad char ref".into()); } d.parse::<u32>().ok().and_then(char::from_u32).ok_or("bad char ref")? }
            _ => return Err(format!("unknown entity {name}")),
        };
        if name.starts_with('#') && !is_xml_char(c) { return Err("char ref to a non-Char".into()); }
        Ok(c)
    }
    fn attr_value(&mut self) -> Result<String, String> {
        let q = match self.peek() { Some(c @ ('"' | '\'')) => c, _ => return Err("quote expected".into()) }; self.i += 1;
        let mut out = String::new();
        loop {
            match self.peek() {
                None => return Err("unterminated attribute".into()),
                Some(c) if c == q => { self.i += 1; return Ok(out); }
                Some('<') => return Err("< in attribute value".into()),
                Some('&') => { self.i += 1; out.push(self.reference()?); }
                Some(c) if is_xml_ws(c) => { self.i += 1; out.push(' '); } // 3.3.3 (input is already 2.11-normalised)
                Some(c) => { self.i += 1; out.push(c); }
            }
        }
    }
    fn element(&mut self, scope: &HashMap<String, String>) -> Result<Elem, String> {
        if self.peek() != Some('<') { return Err("< expected".into()); } self.i += 1;
        let qn = self.name()?;
        let mut raw: Vec<(String, String)> = vec![];
        let empty;
        loop {
            let ws = self.skip_ws();
            if self.starts("/>") { self.i += 2; empty = true; break; }
            if self.peek() == Some('>') { self.i += 1; empty = false; break; }
            if !ws { return Err("whitespace expected before attribute".into()); }
            let an = self.name()?; self.skip_ws();
            if self.peek() != Some('=') { return Err("= expected".into()); } self.i += 1; self.skip_ws();
            let v = self.attr_value()?;
            if raw.iter().any(|(k, _)| *k == an) { return Err("duplicate attribute".into()); }
            raw.push((an, v));
        }
        let mut scope = scope.clone();
        for (k, v) in &raw {
            if k == "xmlns" { scope.insert(String::new(), v.clone()); }
            else if let Some(p) = k.strip_prefix("xmlns:") { if !is_ncname(p) || v.is_empty() || p == "xmlns" { return Err("bad namespace declaration".into()); } scope.insert(p.to_string(), v.clone()); }
        }
        let split = |qn: &str, is_attr: bool| -> Result<(String, String), String> {
            match qn.split_once(':') {
                Some((p, l)) => { if !is_ncname(p) || !is_ncname(l) { return Err(format!("{qn:?} is not a QName")); }
                    if p == "xml" { return Ok((XML_NS.into(), l.into())); }
                    scope.get(p).cloned().map(|ns| (ns, l.to_string())).ok_or(format!("unbound prefix {p}")) }
                None => { if !is_ncname(qn) { return Err(format!("{qn:?} is not a QName")); }
                    Ok((if is_attr { String::new() } else { scope.get("").cloned().unwrap_or_default() }, qn.to_string())) }
            }
        };
        let (ns, local) = split(&qn, false)?;
        let mut attrs = vec![];
        for (k, v) in &raw { if k == "xmlns" || k.starts_with("xmlns:") { continue; } let (a, l) = split(k, true)?; attrs.push((a, l, v.clone())); }
        let mut children = vec![];
        if !empty {
            let mut text = String::new();
            loop {
                match self.peek() {
                    None => return Err("unexpected end of document".into()),
                    Some('<') => {
                        if self.starts("</") { break; }
                        if self.starts("<!") || self.starts("<?") { return Err("unsupported markup".into()); }
                        if !text.is_empty() { children.push(Node::Text(std::mem::take(&mut text))); }
                        children.push(Node::Elem(self.element(&scope)?));
                    }
                    Some('&') => { self.i += 1; text.push(self.reference()?); }
                    Some(_) => { if self.starts("]]>") { return Err("]]> in character data".into()); } text.push(self.peek().unwrap()); self.i += 1; }
                }
            }
            if !text.is_empty() { children.push(Node::Text(text)); }
            self.i += 2; let en = self.name()?; if en != qn { return Err("mismatched end tag".into()); } self.skip_ws();
            if self.peek() != Some('>') { return Err("> expected".into()); } self.i += 1;
        }
        Ok(Elem { ns, local, attrs, children })
    }
}
fn ref_parse_xml(doc: &str) -> Result<Elem, String> {
    if let Some(c) = doc.chars().find(|c| !is_xml_char(*c)) { return Err(format!("U+{:04X} is not an XML Char", c as u32)); }
    let norm = doc.replace("\r\n", "\n").replace('\r', "\n");
    let chars: Vec<char> = norm.chars().collect();
    let mut p = Px { s: &chars, i: 0 };
    if p.starts("<?xml") { while !p.starts("?>") { if p.peek().is_none() { return Err("unterminated declaration".into()); } p.i += 1; } p.i += 2; }
    p.skip_ws();
    let root = p.element(&HashMap::new())?;
    p.skip_ws();
    if p.peek().is_some() { return Err("content after the root element".into()); }
    Ok(root)
}
fn ref_read(doc: &str) -> Result<Vec<T3>, String> {
    let root = ref_parse_xml(doc)?;
    if root.ns != RDF || root.local != "RDF" { return Err("root is not rdf:RDF".into()); }
    let mut out = vec![];
    for n in &root.children {
        let d = match n { Node::Text(t) => { if t.chars().all(is_xml_ws) { continue } else { return Err("text in rdf:RDF".into()) } } Node::Elem(e) => e };
        if d.ns != RDF || d.local != "Description" { return Err("unsupported node element".into()); }
        let about = d.attrs.iter().find(|a| a.0 == RDF && a.1 == "about"); let nid = d.attrs.iter().find(|a| a.0 == RDF && a.1 == "nodeID");
        let subj = match (about, nid) { (Some(a), None) => iri(&a.2), (None, Some(b)) => { if !is_ncname(&b.2) { return Err("rdf:nodeID is not an NCName".into()); } bnode(&b.2) } _ => return Err("unsupported subject".into()) };
        for (ns, l, v) in &d.attrs { // property attributes (used by the reader stream only)
            if ns == RDF && (l == "about" || l == "nodeID") { continue; }
            if ns.is_empty() || ns == RDF || ns == XML_NS { return Err("unsupported node element attribute".into()); }
            out.push([subj.clone(), iri(&format!("{ns}{l}")), lit_dt(v, &format!("{XSD}string"))]);
        }
        let mut li = 0u64;
        for pn in &d.children {
            let pe = match pn { Node::Text(t) => { if t.chars().all(is_xml_ws) { continue } else { return Err("text in node element".into()) } } Node::Elem(e) => e };
            if pe.ns.is_empty() { return Err("property element without namespace".into()); }
            let mut piri = format!("{}{}", pe.ns, pe.local);
            if piri == format!("{RDF}li") { li += 1; piri = format!("{RDF}_{li}"); }
            else if pe.ns == RDF && RESERVED.contains(&pe.local.as_str()) { return Err(format!("{piri} is not a property element name")); }
            let (mut res, mut nid, mut lang, mut dt) = (None, None, None, None);
            for (a, l, v) in &pe.attrs {
                match (a.as_str(), l.as_str()) { (RDF, "resource") => res = Some(v), (RDF, "nodeID") => nid = Some(v), (XML_NS, "lang") => lang = Some(v.to_ascii_lowercase()), (RDF, "datatype") => dt = Some(v), _ => return Err("unsupported property attribute".into()) }
            }
            let mut text = String::new();
            for c in &pe.children { match c { Node::Text(t) => text.push_str(t), Node::Elem(_) => return Err("unsupported nested node element".into()) } }
            let obj = match (res, nid) {
                (Some(_), Some(_)) => return Err("both rdf:resource and rdf:nodeID".into()),
                (Some(r), None) => { if !text.is_empty() { return Err("content in an empty property element".into()); } iri(r) }
                (None, Some(b)) => { if !text.is_empty() { return Err("content in an empty property element".into()); } if !is_ncname(b) { return Err("rdf:nodeID is not an NCName".into()); } bnode(b) }
                (None, None) => match (dt, &lang) { (Some(d), _) => lit_dt(&text, d), (None, Some(l)) => lit_lang(&text, l), (None, None) => lit_dt(&text, &format!("{XSD}string")) },
            };
            out.push([subj.clone(), iri(&piri), obj]);
        }
    }
    Ok(out)
}

/// An independent LEXICAL check of the bytes written, next to the reference reader above (it shares only the character
/// classes with it): every character is in the Char production (XML 1.0 [2]); every start tag / end tag / empty element
/// tag carries a QName (Namespaces in XML [7]: NCName, or NCName ':' NCName -- so `prop:` and `:x` and `a:b:c` and `1a`
/// are refused), every attribute name is a QName, attribute values are quoted and hold no `<`.  None = no objection.
fn lexical_findings(doc: &str) -> Option<String> {
    if let Some((n, c)) = doc.chars().enumerate().find(|(_, c)| !is_xml_char(*c)) { return Some(format!("character {n} of the document, U+{:04X}, is outside the Char production of XML 1.0", c as u32)); }
    let qname_problem = |n: &str| -> Option<String> { let parts: Vec<&str> = n.split(':').collect(); if parts.len() > 2 || parts.iter().any(|p| !is_ncname(p)) { Some(format!("{n:?} is not a QName")) } else { None } };
    let cs: Vec<char> = doc.chars().collect(); let n = cs.len(); let mut i = 0;
    while i < n {
        if cs[i] != '<' { i += 1; continue; }
        i += 1;
        if i >= n { return Some("the document ends inside a tag".into()); }
        if cs[i] == '?' { while i + 1 < n && !(cs[i] == '?' && cs[i + 1] == '>') { i += 1; } i += 2; continue; }
        if cs[i] == '!' { while i < n && cs[i] != '>' { i += 1; } i += 1; continue; }
        let end_tag = cs[i] == '/'; if end_tag { i += 1; }
        let st = i; while i < n && !is_xml_ws(cs[i]) && cs[i] != '>' && cs[i] != '/' { i += 1; }
        let name: String = cs[st..i].iter().collect();
        if let Some(p) = qname_problem(&name) { return Some(format!("the {} name {p}", if end_tag { "end tag" } else { "element" })); }
        loop {
            while i < n && is_xml_ws(cs[i]) { i += 1; }
            if i >= n { return Some(format!("the tag <{name} is not closed")); }
            if cs[i] == '>' { i += 1; break; }
            if cs[i] == '/' { i += 1; continue; }
            if end_tag { return Some(format!("the end tag </{name} has attributes")); }
            let st = i; while i < n && cs[i] != '=' && !is_xml_ws(cs[i]) && cs[i] != '>' && cs[i] != '/' { i += 1; }
            let an: String = cs[st..i].iter().collect();
            if let Some(p) = qname_problem(&an) { return Some(format!("the attribute name {p} (element {name})")); }
            while i < n && is_xml_ws(cs[i]) { i += 1; }
            if i >= n || cs[i] != '=' { return Some(format!("attribute {an} of {name} has no value")); } i += 1;
            while i < n && is_xml_ws(cs[i]) { i += 1; }
            let q = match cs.get(i) { Some(c @ ('"' | '\'')) => *c, _ => return Some(format!("the value of attribute {an} of {name} is not quoted")) }; i += 1;
            while i < n && cs[i] != q { if cs[i] == '<' { return Some(format!("`<` in the value of attribute {an} of {name}")); } i += 1; }
            if i >= n { return Some(format!("the value of attribute {an} of {name} is not closed")); } i += 1;
        }
    }
    None
}

// ---------------------------------------------------------------------------------------------
// the implementation under test
// ---------------------------------------------------------------------------------------------
enum Ser { Doc(String), Err(String), Panic }
fn serialize(g: &Vec<T3>, ind: usize) -> Ser {
    match quiet(|| { let mut ser = RdfXmlSerializer::new_stringifier_with_config(RdfXmlConfig::new().with_indentation(ind)); ser.serialize_triples(g.triples()).map(|s| s.to_string()).map_err(|e| e.to_string()) }) {
        Ok(Ok(d)) => Ser::Doc(d), Ok(Err(e)) => Ser::Err(e), Err(_) => Ser::Panic,
    }
}
fn rio_read(doc: &str) -> Result<Vec<T3>, String> {
    match quiet(|| { let r: Result<Vec<T3>, _> = sophia_xml::parser::parse_str(doc).collect_triples(); r.map_err(|e| e.to_string()) }) { Ok(r) => r, Err(_) => Err("PANIC".into()) }
}
fn representable(t: &T3) -> bool {
    matches!(t[0], SimpleTerm::Iri(_) | SimpleTerm::BlankNode(_)) && matches!(t[1], SimpleTerm::Iri(_))
        && matches!(t[2], SimpleTerm::Iri(_) | SimpleTerm::BlankNode(_) | SimpleTerm::LiteralDatatype(..) | SimpleTerm::LiteralLanguage(..))
}
fn has_quoted(t: &T3) -> bool { t.iter().any(|x| matches!(x, SimpleTerm::Triple(_))) }
fn iso(a: &[T3], b: &[T3]) -> bool {
    let ga: FastGraph = a.iter().cloned().collect_triples_from(); let gb: FastGraph = b.iter().cloned().collect_triples_from();
    isomorphic_graphs(&ga, &gb).unwrap_or(false)
}
trait CollectFrom { fn collect_triples_from(self) -> FastGraph; }
impl<I: Iterator<Item = T3>> CollectFrom for I { fn collect_triples_from(self) -> FastGraph { let mut g = FastGraph::new(); for t in self { MutableGraph::insert(&mut g, &t[0], &t[1], &t[2]).unwrap(); } g } }
fn lex_of(t: &ST) -> Option<String> { match t { SimpleTerm::LiteralDatatype(l, _) | SimpleTerm::LiteralLanguage(l, _) => Some(l.to_string()), _ => None } }
fn bcp47_simple(tag: &str) -> bool { // the tags the generator treats as well-formed: language 2-3 or 5-8 letters or x-..., subtags of 2-8 alphanumerics, singletons followed by a subtag
    let subs: Vec<&str> = tag.split('-').collect();
    if subs[0].eq_ignore_ascii_case("x") { return subs.len() > 1 && subs[1..].iter().all(|s| (1..=8).contains(&s.len())); }
    if !((2..=3).contains(&subs[0].len()) || (5..=8).contains(&subs[0].len())) || !subs[0].chars().all(|c| c.is_ascii_alphabetic()) { return false; }
    let mut i = 1; while i < subs.len() { let s = subs[i]; if s.len() == 1 { if i + 1 >= subs.len() || !(2..=8).contains(&subs[i + 1].len()) { return false; } } else if !(2..=8).contains(&s.len()) { return false; } i += 1; }
    true
}

// ---------------------------------------------------------------------------------------------
// every public way of driving the serializer (and the parser)
//   feeds    : serialize_triples on every kind of triple source, serialize_graph on every kind of graph
//              container (Vec, slice, references, sets, in-memory graphs, dataset views)
//   writers  : the stringifier (to_string / as_str / as_utf8), Vec, &mut Vec, BufWriter, Cursor, writers with
//              short writes / interruptions / a byte limit
//   configs  : every way of building an RdfXmlConfig / RdfXmlSerializer
//   calls    : several calls on one serializer
// Each run records the sequence of triples it FED (observed independently by listing the container), and is
// judged by the same round-trip oracle as the baseline.
// ---------------------------------------------------------------------------------------------
type DetHash = std::hash::BuildHasherDefault<std::collections::hash_map::DefaultHasher>;
#[derive(Clone, Copy, PartialEq, Debug)]
enum EK { Source, Sink }
type FeedRes = (Vec<T3>, Result<(), (EK, String)>);
fn se<T, A, B>(r: Result<T, StreamError<A, B>>) -> Result<(), (EK, String)> where A: std::error::Error + Send + Sync + 'static, B: std::error::Error + Send + Sync + 'static {
    match r { Ok(_) => Ok(()), Err(e) => { let txt = e.to_string(); Err((match e { StreamError::SourceError(_) => EK::Source, StreamError::SinkError(_) => EK::Sink }, txt)) } }
}
fn st3<T: Triple>(t: T) -> T3 { [t.s().into_term(), t.p().into_term(), t.o().into_term()] }
fn listing<G: Graph>(g: &G) -> Vec<T3> { g.triples().map(|t| st3(t.ok().expect("infallible listing"))).collect() }
fn exact(a: &[T3], b: &[T3]) -> bool { format!("{a:?}") == format!("{b:?}") }
/// the set of triples under Term::eq (language tags compared case-insensitively)
fn set_key(a: &[T3]) -> BTreeSet<String> {
    fn low(t: &ST) -> ST { match t { SimpleTerm::LiteralLanguage(l, tag) => lit_lang(l, &tag.as_str().to_ascii_lowercase()), SimpleTerm::Triple(x) => triple(low(&x[0]), low(&x[1]), low(&x[2])), _ => t.clone() } }
    a.iter().map(|t| format!("{:?}", [low(&t[0]), low(&t[1]), low(&t[2])])).collect()
}
fn gname(i: usize) -> Option<ST> { match i { 0 => None, 1 => Some(iri("http://e/g1")), 2 => Some(iri("http://e/g2")), _ => Some(bnode("g3")) } }
fn noise(i: usize) -> T3 { [iri("http://e/noise"), iri("http://e/np"), lit_dt(&format!("noise {i}"), &format!("{XSD}string"))] }

/// the containers of one graph
struct Aux {
    fast: Option<FastGraph>, light: Option<LightGraph>, bset: BTreeSet<T3>, hset: HashSet<T3, DetHash>,
    ds_named: Vec<Spog<ST>>,           // g in <g1>; noise in the default graph and in <g2>
    ds_default: Option<FastDataset>,   // g in the default graph; noise in <g2>
    ds_spread: Vec<Spog<ST>>,          // g spread over the default graph, <g1>, <g2>, _:g3 (in order)
    ds_partial: Option<LightDataset>,  // g spread over <g1> and _:g3; noise in the default graph and <g2>
}
impl Aux {
    fn new(g: &Vec<T3>) -> Aux {
        let mut fast = Some(FastGraph::new()); let mut light = Some(LightGraph::new());
        let mut ds_default = Some(FastDataset::new()); let mut ds_partial = Some(LightDataset::new());
        let mut ds_named: Vec<Spog<ST>> = vec![(noise(0), None)]; let mut ds_spread = vec![];
        for (i, t) in g.iter().enumerate() {
            if let Some(f) = &mut fast { if MutableGraph::insert(f, &t[0], &t[1], &t[2]).is_err() { fast = None; } }
            if let Some(f) = &mut light { if MutableGraph::insert(f, &t[0], &t[1], &t[2]).is_err() { light = None; } }
            if let Some(d) = &mut ds_default { if MutableDataset::insert(d, &t[0], &t[1], &t[2], None::<&ST>).is_err() { ds_default = None; } }
            if let Some(d) = &mut ds_partial { let n = gname(if i % 2 == 0 { 1 } else { 3 }); if MutableDataset::insert(d, &t[0], &t[1], &t[2], n.as_ref()).is_err() { ds_partial = None; } }
            ds_named.push((t.clone(), gname(1)));
            if i % 2 == 1 { ds_named.push((noise(i), gname(2))); }
            ds_spread.push((t.clone(), gname(i % 4)));
        }
        if let Some(d) = &mut ds_default { let n = noise(1); let _ = MutableDataset::insert(d, &n[0], &n[1], &n[2], gname(2).as_ref()); }
        if let Some(d) = &mut ds_partial { for (i, gn) in [(2, gname(0)), (3, gname(2))] { let n = noise(i); let _ = MutableDataset::insert(d, &n[0], &n[1], &n[2], gn.as_ref()); } }
        Aux { fast, light, bset: g.iter().cloned().collect(), hset: g.iter().cloned().collect(), ds_named, ds_default, ds_spread, ds_partial }
    }
}
// Rio's model for the strictly representable, quoted-triple-free part of a graph
fn rio_lit<'a>(t: &'a ST) -> Option<rm::Literal<'a>> {
    match t {
        // (Trusted's contract: a datatype is an IRI; a relative reference there is not something Rio's model can hold)
        SimpleTerm::LiteralDatatype(_, d) if !has_scheme(d.as_str()) => None,
        SimpleTerm::LiteralDatatype(l, d) => Some(if d.as_str() == format!("{XSD}string") { rm::Literal::Simple { value: l } } else { rm::Literal::Typed { value: l, datatype: rm::NamedNode { iri: d.as_str() } } }),
        SimpleTerm::LiteralLanguage(l, tag) => Some(rm::Literal::LanguageTaggedString { value: l, language: tag.as_str() }), _ => None }
}
fn rio_subject<'a>(t: &'a ST) -> Option<rm::Subject<'a>> { match t { SimpleTerm::Iri(i) => Some(rm::Subject::NamedNode(rm::NamedNode { iri: i.as_str() })), SimpleTerm::BlankNode(b) => Some(rm::Subject::BlankNode(rm::BlankNode { id: b.as_str() })), _ => None } }
fn rio_pred<'a>(t: &'a ST) -> Option<rm::NamedNode<'a>> { match t { SimpleTerm::Iri(i) => Some(rm::NamedNode { iri: i.as_str() }), _ => None } }
fn rio_object<'a>(t: &'a ST) -> Option<rm::Term<'a>> { match t { SimpleTerm::Iri(i) => Some(rm::Term::NamedNode(rm::NamedNode { iri: i.as_str() })), SimpleTerm::BlankNode(b) => Some(rm::Term::BlankNode(rm::BlankNode { id: b.as_str() })), x => Some(rm::Term::Literal(rio_lit(x)?)) } }
fn rio_triple<'a>(t: &'a T3) -> Option<rm::Triple<'a>> { Some(rm::Triple { subject: rio_subject(&t[0])?, predicate: rio_pred(&t[1])?, object: rio_object(&t[2])? }) }
fn rio_gterm<'a>(t: &'a ST) -> Option<rm::GeneralizedTerm<'a>> {
    Some(match t { SimpleTerm::Iri(i) => rm::GeneralizedTerm::NamedNode(rm::NamedNode { iri: i.as_str() }), SimpleTerm::BlankNode(b) => rm::GeneralizedTerm::BlankNode(rm::BlankNode { id: b.as_str() }),
        SimpleTerm::Variable(v) => rm::GeneralizedTerm::Variable(rm::Variable { name: v.as_str() }), SimpleTerm::Triple(_) => return None, x => rm::GeneralizedTerm::Literal(rio_lit(x)?) })
}
fn quoted_of(x: &ST) -> Option<&T3> { if let SimpleTerm::Triple(q) = x { Some(&**q) } else { None } }
/// which triples of g Rio's strict / generalized model can hold (quoted triples one level deep), with the
/// quoted triples collected first so that they can be referenced: (index in g, inner index per position)
fn rio_gtriple<'a>(q: &'a T3) -> Option<[rm::GeneralizedTerm<'a>; 3]> { Some([rio_gterm(&q[0])?, rio_gterm(&q[1])?, rio_gterm(&q[2])?]) }
fn star_plan<'a, X>(g: &'a [T3], positions: &[usize], conv: &dyn Fn(&'a T3) -> Option<X>, flat_ok: &dyn Fn(&ST, usize) -> bool) -> (Vec<X>, Vec<(usize, [Option<usize>; 3])>) {
    let mut inner = vec![]; let mut plan = vec![];
    'next: for (i, t) in g.iter().enumerate() {
        let mut idx = [None, None, None];
        for pos in 0..3 { match quoted_of(&t[pos]) { Some(q) => { if !positions.contains(&pos) { continue 'next; } match conv(q) { Some(x) => { inner.push(x); idx[pos] = Some(inner.len() - 1); } None => continue 'next } } None => if !flat_ok(&t[pos], pos) { continue 'next; } } }
        plan.push((i, idx));
    }
    (inner, plan)
}

const FEEDS: [(usize, &str); 33] = [
    (0, "serialize_triples(vec.triples())"), (1, "serialize_triples(&mut vec.triples())"), (2, "serialize_triples(iterator of owned triples .into_source())"),
    (3, "serialize_triples(iterator of Ok([&term; 3]))"), (4, "serialize_triples(slice.triples())"), (5, "serialize_triples(vec.triples().filter_triples(|_| true))"),
    (6, "serialize_triples(vec.triples().map_triples(rebuild))"), (7, "serialize_triples(vec.triples().filter_triples(every other triple))"),
    (8, "serialize_triples(FastGraph.triples())"), (9, "serialize_triples(LightGraph.triples())"), (10, "serialize_triples(BTreeSet.triples())"), (11, "serialize_triples(HashSet.triples())"),
    (12, "serialize_triples(source of Trusted<rio Triple>)"), (13, "serialize_triples(source of [Trusted<rio GeneralizedTerm>; 3])"), (14, "serialize_triples(RDF/XML parser over the baseline document)"),
    (15, "serialize_triples(dataset.quads().to_triples())"), (16, "serialize_triples(vec.triples().filter_map_triples(Some))"),
    (20, "serialize_graph(&Vec)"), (21, "serialize_graph(&&Vec)"), (22, "serialize_graph(&&[T])"), (23, "serialize_graph(&&mut Vec)"),
    (24, "serialize_graph(&FastGraph)"), (25, "serialize_graph(&LightGraph)"), (26, "serialize_graph(&BTreeSet)"), (27, "serialize_graph(&HashSet)"),
    (28, "serialize_graph(&vec_dataset.graph(Some(name)))"), (29, "serialize_graph(&FastDataset.graph(None))"), (30, "serialize_graph(&vec_dataset.union_graph())"),
    (31, "serialize_graph(&LightDataset.partial_union_graph([names]))"), (32, "serialize_graph(&vec.as_dataset().union_graph())"), (33, "serialize_graph(&vec_dataset.into_union_graph())"),
    (34, "serialize_graph(&vec.into_dataset().graph(None))"), (35, "serialize_graph(&&FastGraph)"),
];
/// feeds whose sequence of triples is by construction `g` itself, or a listing of the same set
fn feed_name(k: usize) -> &'static str { FEEDS.iter().find(|f| f.0 == k).map_or("?", |f| f.1) }
fn feed<W: Write>(ser: &mut RdfXmlSerializer<W>, k: usize, g: &Vec<T3>, aux: &Aux, base_doc: Option<&str>) -> Option<FeedRes> {
    Some(match k {
        0 => (g.clone(), se(ser.serialize_triples(g.triples()))),
        1 => { let mut it = g.triples(); (g.clone(), se(ser.serialize_triples(&mut it))) }
        2 => (g.clone(), se(ser.serialize_triples(g.iter().cloned().into_source()))),
        3 => (g.clone(), se(ser.serialize_triples(g.iter().map(|t| Ok::<_, Infallible>([&t[0], &t[1], &t[2]]))))),
        4 => (g.clone(), se(ser.serialize_triples(g[..].triples()))),
        5 => (g.clone(), se(ser.serialize_triples(g.triples().filter_triples(|_| true)))),
        6 => (g.clone(), se(ser.serialize_triples(g.triples().map_triples(|t| st3(t))))),
        7 => { let mut i = 0usize; let fed: Vec<T3> = g.iter().step_by(2).cloned().collect(); (fed, se(ser.serialize_triples(g.triples().filter_triples(move |_| { i += 1; i % 2 == 1 })))) }
        8 => { let c = aux.fast.as_ref()?; (listing(c), se(ser.serialize_triples(c.triples()))) }
        9 => { let c = aux.light.as_ref()?; (listing(c), se(ser.serialize_triples(c.triples()))) }
        10 => (listing(&aux.bset), se(ser.serialize_triples(aux.bset.triples()))),
        11 => (listing(&aux.hset), se(ser.serialize_triples(aux.hset.triples()))),
        12 => { let (inner, plan) = star_plan(g, &[0, 2], &rio_triple, &|x, pos| match pos { 0 => rio_subject(x).is_some(), 1 => rio_pred(x).is_some(), _ => rio_object(x).is_some() });
                let fed: Vec<T3> = plan.iter().map(|p| g[p.0].clone()).collect();
                let rt: Vec<rm::Triple> = plan.iter().map(|(i, idx)| { let t = &g[*i]; rm::Triple { subject: match idx[0] { Some(k) => rm::Subject::Triple(&inner[k]), None => rio_subject(&t[0]).unwrap() }, predicate: rio_pred(&t[1]).unwrap(), object: match idx[2] { Some(k) => rm::Term::Triple(&inner[k]), None => rio_object(&t[2]).unwrap() } } }).collect();
                let r = se(ser.serialize_triples(rt.iter().map(|t| Ok::<_, Infallible>(Trusted(*t))))); (fed, r) }
        13 => { let (inner, plan) = star_plan(g, &[0, 1, 2], &rio_gtriple, &|x, _| rio_gterm(x).is_some());
                let fed: Vec<T3> = plan.iter().map(|p| g[p.0].clone()).collect();
                let gt: Vec<[rm::GeneralizedTerm; 3]> = plan.iter().map(|(i, idx)| { let t = &g[*i]; [0, 1, 2].map(|pos| match idx[pos] { Some(k) => rm::GeneralizedTerm::Triple(&inner[k]), None => rio_gterm(&t[pos]).unwrap() }) }).collect();
                let r = se(ser.serialize_triples(gt.iter().map(|t| Ok::<_, Infallible>([Trusted(t[0]), Trusted(t[1]), Trusted(t[2])])))); (fed, r) }
        14 => { let d = base_doc?; let fed: Vec<T3> = sophia_xml::parser::parse_str(d).collect_triples().ok()?; (fed, se(ser.serialize_triples(sophia_xml::parser::parse_str(d)))) }
        15 => (aux.ds_spread.iter().map(|q| q.0.clone()).collect(), se(ser.serialize_triples(aux.ds_spread.quads().to_triples()))),
        16 => (g.clone(), se(ser.serialize_triples(g.triples().filter_map_triples(Some)))),
        20 => (listing(g), se(ser.serialize_graph(g))),
        21 => { let r = &g; (listing(&r), se(ser.serialize_graph(&r))) }
        22 => { let r = &g[..]; (listing(&r), se(ser.serialize_graph(&r))) }
        23 => { let mut c = g.clone(); let r = &mut c; let l = listing(&r); (l, se(ser.serialize_graph(&r))) }
        24 => { let c = aux.fast.as_ref()?; (listing(c), se(ser.serialize_graph(c))) }
        25 => { let c = aux.light.as_ref()?; (listing(c), se(ser.serialize_graph(c))) }
        26 => (listing(&aux.bset), se(ser.serialize_graph(&aux.bset))),
        27 => (listing(&aux.hset), se(ser.serialize_graph(&aux.hset))),
        28 => { let v = aux.ds_named.graph(gname(1)); (listing(&v), se(ser.serialize_graph(&v))) }
        29 => { let d = aux.ds_default.as_ref()?; let v = d.graph(None::<ST>); (listing(&v), se(ser.serialize_graph(&v))) }
        30 => { let v = aux.ds_spread.union_graph(); (listing(&v), se(ser.serialize_graph(&v))) }
        31 => { let d = aux.ds_partial.as_ref()?; let (n1, n3) = (gname(1), gname(3)); let v = d.partial_union_graph([n1.as_ref(), n3.as_ref()]); (listing(&v), se(ser.serialize_graph(&v))) }
        32 => { let d = g.as_dataset(); let v = d.union_graph(); (listing(&v), se(ser.serialize_graph(&v))) }
        33 => { let v = aux.ds_spread.clone().into_union_graph(); (listing(&v), se(ser.serialize_graph(&v))) }
        34 => { let d = g.clone().into_dataset(); let v = d.graph(None::<ST>); (listing(&v), se(ser.serialize_graph(&v))) }
        35 => { let c = aux.fast.as_ref()?; let r = &c; (listing(&r), se(ser.serialize_graph(&r))) }
        _ => return None,
    })
}
/// every way of building the configuration
fn cfg_variant(ind: usize, v: usize) -> RdfXmlConfig {
    match v % 5 { 0 => RdfXmlConfig::new().with_indentation(ind), 1 => RdfXmlConfig::default().with_indentation(ind), 2 => RdfXmlConfig::new().with_indentation(ind + 3).with_indentation(ind),
        3 => { let c = RdfXmlConfig::new().with_indentation(ind); let d = c.clone(); drop(c); d } _ => if ind == 0 { RdfXmlConfig::default() } else { RdfXmlConfig::new().with_indentation(0).with_indentation(ind) } }
}
struct Run { name: String, ind: usize, fed: Vec<T3>, out: Ser }
fn out_of(r: Result<(), (EK, String)>, bytes: &[u8], notes: &mut Vec<String>, name: &str) -> Ser {
    match r { Err((_, e)) => Ser::Err(e), Ok(()) => match std::str::from_utf8(bytes) { Ok(s) => Ser::Doc(s.to_string()), Err(_) => { notes.push(format!("{name}: the bytes written are not UTF-8")); Ser::Doc(String::from_utf8_lossy(bytes).to_string()) } } }
}
/// through the Stringifier (RdfXmlSerializer<Vec<u8>>), built in every possible way
fn via_stringifier(ind: usize, v: usize, k: usize, g: &Vec<T3>, aux: &Aux, base_doc: Option<&str>, notes: &mut Vec<String>) -> Option<Run> {
    let name = format!("{} on a stringifier (construction {})", feed_name(k), v % 5);
    let mut n2 = vec![];
    let r = quiet(|| {
        let cfg = cfg_variant(ind, v);
        if cfg.indentation() != ind { n2.push(format!("RdfXmlConfig::indentation() = {} after with_indentation({ind}) (construction {})", cfg.indentation(), v % 5)); }
        let mut ser = match (v / 5) % 2 { 0 => RdfXmlSerializer::new_stringifier_with_config(cfg), _ => if ind == 0 && v % 2 == 0 { if v % 4 == 0 { RdfXmlSerializer::new_stringifier() } else { RdfXmlSerializer::new(Vec::new()) } } else { RdfXmlSerializer::new_with_config(Vec::new(), cfg) } };
        if ser.config().indentation() != ind { n2.push(format!("serializer.config().indentation() = {} instead of {ind}", ser.config().indentation())); }
        let (fed, r) = feed(&mut ser, k, g, aux, base_doc)?;
        let s = Stringifier::to_string(&ser);
        if ser.as_str() != s || ser.as_utf8() != s.as_bytes() { n2.push(format!("{name}: to_string / as_str / as_utf8 disagree")); }
        Some((fed, match r { Ok(()) => Ser::Doc(s), Err((_, e)) => Ser::Err(e) }))
    });
    notes.extend(n2);
    match r { Ok(Some((fed, out))) => Some(Run { name, ind, fed, out }), Ok(None) => None, Err(_) => Some(Run { name, ind, fed: g.clone(), out: Ser::Panic }) }
}
/// writers with short writes, interruptions, a byte limit
struct Trickle<'a> { inner: &'a mut Vec<u8>, step: usize }
impl Write for Trickle<'_> { fn write(&mut self, b: &[u8]) -> io::Result<usize> { let n = b.len().min(self.step); self.inner.extend_from_slice(&b[..n]); Ok(n) } fn flush(&mut self) -> io::Result<()> { Ok(()) } }
struct Hiccup<'a> { inner: &'a mut Vec<u8>, calls: usize }
impl Write for Hiccup<'_> { fn write(&mut self, b: &[u8]) -> io::Result<usize> { self.calls += 1; if self.calls % 3 == 0 { return Err(io::Error::new(io::ErrorKind::Interrupted, "interrupted")); } let n = b.len().min(4); self.inner.extend_from_slice(&b[..n]); Ok(n) } fn flush(&mut self) -> io::Result<()> { Ok(()) } }
struct Limited<'a> { inner: &'a mut Vec<u8>, left: usize, zero: bool }
impl Write for Limited<'_> { fn write(&mut self, b: &[u8]) -> io::Result<usize> { if self.left == 0 && !b.is_empty() { return if self.zero { Ok(0) } else { Err(io::Error::new(io::ErrorKind::Other, "device full")) }; } let n = b.len().min(self.left); self.left -= n; self.inner.extend_from_slice(&b[..n]); Ok(n) } fn flush(&mut self) -> io::Result<()> { Ok(()) } }
const WRITERS: [&str; 7] = ["RdfXmlSerializer<&mut Vec<u8>>", "a BufWriter of capacity 5", "a Cursor", "a writer taking 1..3 bytes per call", "a writer that is interrupted every third call", "a boxed writer", "RdfXmlSerializer::new(Vec) moved in"];
fn via_writer(wk: usize, ind: usize, v: usize, k: usize, g: &Vec<T3>, aux: &Aux, base_doc: Option<&str>, notes: &mut Vec<String>) -> Option<Run> {
    let name = format!("{} writing to {}", feed_name(k), WRITERS[wk]);
    let mut n2 = vec![];
    let r = quiet(|| {
        let cfg = cfg_variant(ind, v); let mut buf: Vec<u8> = vec![];
        let (fed, r) = match wk {
            0 => { let mut ser = RdfXmlSerializer::new_with_config(&mut buf, cfg); feed(&mut ser, k, g, aux, base_doc)? }
            1 => { let mut w = io::BufWriter::with_capacity(5, &mut buf); let fr = { let dw: &mut dyn Write = &mut w; let mut ser = RdfXmlSerializer::new_with_config(dw, cfg); feed(&mut ser, k, g, aux, base_doc)? }; if w.flush().is_err() { n2.push(format!("{name}: flush failed")); } drop(w); fr }
            2 => { let mut w = io::Cursor::new(&mut buf); let dw: &mut dyn Write = &mut w; let mut ser = RdfXmlSerializer::new_with_config(dw, cfg); feed(&mut ser, k, g, aux, base_doc)? }
            3 => { let mut w = Trickle { inner: &mut buf, step: 1 + (v + ind) % 3 }; let dw: &mut dyn Write = &mut w; let mut ser = RdfXmlSerializer::new_with_config(dw, cfg); feed(&mut ser, k, g, aux, base_doc)? }
            4 => { let mut w = Hiccup { inner: &mut buf, calls: 0 }; let dw: &mut dyn Write = &mut w; let mut ser = RdfXmlSerializer::new_with_config(dw, cfg); feed(&mut ser, k, g, aux, base_doc)? }
            5 => { let w: Box<dyn Write + '_> = Box::new(Trickle { inner: &mut buf, step: 64 }); let mut ser = RdfXmlSerializer::new_with_config(w, cfg); feed(&mut ser, k, g, aux, base_doc)? }
            _ => { let mut ser = if ind == 0 { RdfXmlSerializer::new(Vec::new()) } else { RdfXmlSerializer::new_with_config(Vec::new(), cfg) }; let fr = feed(&mut ser, k, g, aux, base_doc)?; buf = ser.as_utf8().to_vec(); fr }
        };
        let out = out_of(r, &buf, &mut n2, &name);
        Some((fed, out))
    });
    notes.extend(n2);
    match r { Ok(Some((fed, out))) => Some(Run { name, ind, fed, out }), Ok(None) => None, Err(_) => Some(Run { name, ind, fed: g.clone(), out: Ser::Panic }) }
}
/// a writer that accepts `limit` bytes: Ok iff the whole document fits, and what was accepted is a prefix of it
fn via_limited(ind: usize, k: usize, limit: usize, zero: bool, g: &Vec<T3>, aux: &Aux) -> Option<(bool, Vec<u8>)> {
    quiet(|| { let mut buf = vec![]; let ok = { let mut w = Limited { inner: &mut buf, left: limit, zero }; let dw: &mut dyn Write = &mut w; let mut ser = RdfXmlSerializer::new_with_config(dw, RdfXmlConfig::new().with_indentation(ind)); feed(&mut ser, k, g, aux, None)?.1.is_ok() }; Some((ok, buf)) }).ok().flatten()
}
/// several calls on ONE stringifier: (feed, graph) in turn; the bytes appended by each call and its outcome
fn via_calls(ind: usize, calls: &[(usize, &Vec<T3>, &Aux)]) -> Option<(Vec<(Vec<T3>, Ser)>, String)> {
    quiet(|| {
        let mut ser = RdfXmlSerializer::new_stringifier_with_config(RdfXmlConfig::new().with_indentation(ind)); let mut out = vec![];
        for (k, g, aux) in calls { let before = ser.as_utf8().len(); let (fed, r) = feed(&mut ser, *k, g, aux, None)?; let seg = String::from_utf8_lossy(&ser.as_utf8()[before..]).to_string(); out.push((fed, match r { Ok(()) => Ser::Doc(seg), Err((_, e)) => Ser::Err(e) })); }
        // chaining through the returned `&mut Self`
        Some((out, Stringifier::to_string(&ser)))
    }).ok().flatten()
}
/// `a.serialize_x(..)?.serialize_y(..)?` on one stringifier, through the returned reference
fn via_chain(ind: usize, g: &Vec<T3>, g2: &Vec<T3>) -> Option<Result<String, String>> {
    quiet(|| { let mut ser = RdfXmlSerializer::new_stringifier_with_config(RdfXmlConfig::new().with_indentation(ind));
        let r = (|| -> Result<String, String> { Ok(ser.serialize_graph(g).map_err(|e| e.to_string())?.serialize_triples(g2.triples()).map_err(|e| e.to_string())?.serialize_graph(&&g[..]).map_err(|e| e.to_string())?.to_string()) })(); r }).ok()
}

// the parser, driven in every public way; `p0` = parse_str(doc).collect_triples::<Vec<_>>()
fn rebuild<T: Term>(t: T) -> Option<ST> {
    // every accessor that does not belong to the term's kind answers None, every predicate agrees with kind()
    let have = [t.iri().is_some(), t.bnode_id().is_some(), t.lexical_form().is_some(), t.datatype().is_some(), t.variable().is_some(), t.triple().is_some()];
    let k = t.kind();
    let want = match k { TermKind::Iri => [true, false, false, false, false, false], TermKind::BlankNode => [false, true, false, false, false, false], TermKind::Literal => [false, false, true, true, false, false], TermKind::Variable => [false, false, false, false, true, false], TermKind::Triple => [false, false, false, false, false, true] };
    if have != want || (t.language_tag().is_some() && k != TermKind::Literal) { return None; }
    if [t.is_iri(), t.is_blank_node(), t.is_literal(), t.is_variable(), t.is_triple()] != [k == TermKind::Iri, k == TermKind::BlankNode, k == TermKind::Literal, k == TermKind::Variable, k == TermKind::Triple] { return None; }
    Some(match k {
        TermKind::Iri => iri(t.iri()?.as_str()),
        TermKind::BlankNode => bnode(t.bnode_id()?.as_str()),
        TermKind::Literal => { let lex = t.lexical_form()?.to_string(); let dt = t.datatype()?;
            match t.language_tag() { Some(tag) => { if dt.as_str() != format!("{RDF}langString") { return None; } lit_lang(&lex, tag.as_str()) } None => lit_dt(&lex, dt.as_str()) } }
        TermKind::Variable => var(t.variable()?.as_str()),
        TermKind::Triple => { let [s, p, o] = t.triple()?; triple(rebuild(s)?, rebuild(p)?, rebuild(o)?) }
    })
}
fn parser_paths(doc: &str, p0: &Result<Vec<T3>, String>, salt: usize, nb: bool) -> Vec<String> {
    let mut fails = vec![];
    let mut cmp = |name: &str, r: Result<Vec<T3>, String>, as_set: bool| {
        let same = match (p0, &r) { (Ok(a), Ok(b)) => if as_set { set_key(a) == set_key(b) } else { exact(a, b) }, (Err(_), Err(_)) => true, _ => false };
        if !same { fails.push(format!("{name} gives {r:?} where parse_str(..).collect_triples::<Vec<_>>() gives {p0:?}")); }
    };
    let q = |f: &mut dyn FnMut() -> Result<Vec<T3>, String>| -> Result<Vec<T3>, String> { match quiet(|| f()) { Ok(r) => r, Err(_) => Err("PANIC".into()) } };
    cmp("parse_bufread(bytes)", q(&mut || sophia_xml::parser::parse_bufread(doc.as_bytes()).collect_triples::<Vec<T3>>().map_err(|e| e.to_string())), false);
    cmp("RdfXmlParser::default().parse_str", q(&mut || RdfXmlParser::default().parse_str(doc).collect_triples::<Vec<T3>>().map_err(|e| e.to_string())), false);
    cmp("RdfXmlParser { base: None }.parse(BufReader of capacity 3)", q(&mut || RdfXmlParser { base: None }.parse(io::BufReader::with_capacity(3 + salt % 5, doc.as_bytes())).collect_triples::<Vec<T3>>().map_err(|e| e.to_string())), false);
    // (a document with relative references reads differently under a base: judged against the resolved graph by the caller)
    if !nb { cmp("RdfXmlParser { base: Some(..) }.parse_str (absolute IRIs only)", q(&mut || RdfXmlParser { base: Some(Iri::new_unchecked("http://base.example/dir/file?q#f".to_string())) }.parse_str(doc).collect_triples::<Vec<T3>>().map_err(|e| e.to_string())), false); }
    cmp("collect_triples::<FastGraph>", q(&mut || sophia_xml::parser::parse_str(doc).collect_triples::<FastGraph>().map(|g| listing(&g)).map_err(|e| e.to_string())), true);
    cmp("collect_triples::<LightGraph>", q(&mut || sophia_xml::parser::parse_str(doc).collect_triples::<LightGraph>().map(|g| listing(&g)).map_err(|e| e.to_string())), true);
    cmp("collect_triples::<HashSet<[SimpleTerm; 3]>>", q(&mut || sophia_xml::parser::parse_str(doc).collect_triples::<HashSet<T3>>().map(|g| listing(&g)).map_err(|e| e.to_string())), true);
    cmp("add_to_graph(&mut Vec)", q(&mut || { let mut v: Vec<T3> = vec![]; let n = sophia_xml::parser::parse_str(doc).add_to_graph(&mut v).map_err(|e| e.to_string())?; if n != v.len() { return Err(format!("add_to_graph returned {n} for {} triples", v.len())); } Ok(v) }), false);
    cmp("for_each_triple + Term accessors (kind/iri/bnode_id/lexical_form/datatype/language_tag) on s(), p(), o()", q(&mut || { let mut v = vec![]; let mut bad = false; sophia_xml::parser::parse_str(doc).for_each_triple(|t| { match (rebuild(t.s()), rebuild(t.p()), rebuild(t.o())) { (Some(s), Some(p), Some(o)) => v.push([s, p, o]), _ => bad = true } }).map_err(|e| e.to_string())?; if bad { Err("inconsistent Term accessors".into()) } else { Ok(v) } }), false);
    cmp("for_each_triple + to_spo()", q(&mut || { let mut v = vec![]; let mut bad = false; sophia_xml::parser::parse_str(doc).for_each_triple(|t| { let [s, p, o] = t.to_spo(); match (rebuild(s), rebuild(p), rebuild(o)) { (Some(s), Some(p), Some(o)) => v.push([s, p, o]), _ => bad = true } }).map_err(|e| e.to_string())?; if bad { Err("inconsistent Term accessors".into()) } else { Ok(v) } }), false);
    cmp("for_each_triple + to_s()/to_p()/to_o()", q(&mut || { let mut v: Vec<T3> = vec![]; sophia_xml::parser::parse_str(doc).for_each_triple(|t| { v.push([t.to_s().into_term(), t.to_p().into_term(), t.to_o().into_term()]) }).map_err(|e| e.to_string())?; Ok(v) }), false);
    cmp("try_for_some_triple, one step at a time", q(&mut || { let mut v: Vec<T3> = vec![]; let mut src = sophia_xml::parser::parse_str(doc); loop { match src.try_for_some_triple(|t| -> Result<(), Infallible> { v.push(st3(t)); Ok(()) }) { Ok(true) => {} Ok(false) => break, Err(e) => return Err(e.to_string()) } if v.len() > 10_000 { return Err("does not end".into()); } } Ok(v) }), false);
    cmp("filter_triples(|_| true).map_triples(..).collect_triples", q(&mut || sophia_xml::parser::parse_str(doc).filter_triples(|_| true).map_triples(|t| st3(t)).collect_triples::<Vec<T3>>().map_err(|e| e.to_string())), false);
    // a failing consumer: the error it raised comes back as the sink error, after exactly `stop` triples
    if let Ok(a) = p0 { if !a.is_empty() {
        let stop = salt % (a.len() + 1); let mut n = 0u64;
        let r = quiet(|| sophia_xml::parser::parse_str(doc).try_for_each_triple(|_| { if n as usize == stop { Err(MyErr(n)) } else { n += 1; Ok(()) } }));
        let good = match &r { Ok(Ok(())) => stop == a.len(), Ok(Err(StreamError::SinkError(e))) => stop < a.len() && *e == MyErr(stop as u64), _ => false };
        if !good { fails.push(format!("a consumer failing at triple {stop} of {}: try_for_each_triple returned {:?}", a.len(), r.map(|x| x.map_err(|e| e.to_string())).unwrap_or(Err("PANIC".into())))); }
    } }
    fails
}
/// the Rio-side adapter: a Rio term wrapped in Trusted is the sophia term
fn trusted_adapter_fails(t: &ST) -> Vec<String> {
    let mut fails = vec![];
    let want = format!("{t:?}");
    fn chk<X: Term + Copy>(x: X, want: &str, what: &str, fails: &mut Vec<String>) {
        let a = rebuild(x).map(|r| format!("{r:?}")); let b = format!("{:?}", x.into_term::<ST>()); let c = rebuild(x.borrow_term()).map(|r| format!("{r:?}"));
        if a.as_deref() != Some(want) || b != want || c.as_deref() != Some(want) { fails.push(format!("{what}: accessors give {a:?}, into_term gives {b}, expected {want}")); }
    }
    match t {
        SimpleTerm::Iri(i) => { let n = rm::NamedNode { iri: i.as_str() }; chk(Trusted(n), &want, "Trusted<NamedNode>", &mut fails); chk(Trusted(rm::Term::NamedNode(n)), &want, "Trusted<Term>", &mut fails); chk(Trusted(rm::GeneralizedTerm::NamedNode(n)), &want, "Trusted<GeneralizedTerm>", &mut fails); chk(Trusted(rm::GraphName::NamedNode(n)), &want, "Trusted<GraphName>", &mut fails); }
        SimpleTerm::BlankNode(b) => { let n = rm::BlankNode { id: b.as_str() }; chk(Trusted(n), &want, "Trusted<BlankNode>", &mut fails); chk(Trusted(rm::Term::BlankNode(n)), &want, "Trusted<Term>", &mut fails); chk(Trusted(rm::GeneralizedTerm::BlankNode(n)), &want, "Trusted<GeneralizedTerm>", &mut fails); chk(Trusted(rm::GraphName::BlankNode(n)), &want, "Trusted<GraphName>", &mut fails); }
        SimpleTerm::Variable(v) => { let n = rm::Variable { name: v.as_str() }; chk(Trusted(n), &want, "Trusted<Variable>", &mut fails); chk(Trusted(rm::GeneralizedTerm::Variable(n)), &want, "Trusted<GeneralizedTerm>", &mut fails); }
        SimpleTerm::Triple(q) => {
            if let Some(rt) = rio_triple(q) { chk(Trusted(rm::Term::Triple(&rt)), &want, "Trusted<Term> (quoted triple)", &mut fails); }
            if let (Some(a), Some(b), Some(c)) = (rio_gterm(&q[0]), rio_gterm(&q[1]), rio_gterm(&q[2])) { let arr = [a, b, c]; chk(Trusted(rm::GeneralizedTerm::Triple(&arr)), &want, "Trusted<GeneralizedTerm> (quoted triple)", &mut fails); }
        }
        x => if let Some(l) = rio_lit(x) { chk(Trusted(l), &want, "Trusted<Literal>", &mut fails); chk(Trusted(rm::Term::Literal(l)), &want, "Trusted<Term>", &mut fails); chk(Trusted(rm::GeneralizedTerm::Literal(l)), &want, "Trusted<GeneralizedTerm>", &mut fails); }
    }
    fails
}

// ---------------------------------------------------------------------------------------------
// Coq printing
// ---------------------------------------------------------------------------------------------
fn c_t3(t: &T3) -> String { format!("({}, {}, {})", coq_term(&t[0]), coq_term(&t[1]), coq_term(&t[2])) }
fn c_graph(g: &[T3]) -> String { coq_list(g.iter().map(c_t3)) }
fn c_parse(r: &Result<Vec<T3>, String>) -> String { match r { Ok(g) => format!("(Some {})", c_graph(g)), Err(_) => "None".into() } }
fn c_optstr(r: &Option<String>) -> String { match r { Some(s) => format!("(Some {})", coq_str(s)), None => "None".into() } }

// ---------------------------------------------------------------------------------------------
// generation
// ---------------------------------------------------------------------------------------------
#[derive(Clone, Copy, PartialEq, Debug)]
enum Flavour { Clean, WsOnly, BnodeDigit, ReservedPred, NoSplitPred, IllegalChar, Cr, BadLang, Generalised, Quoted, IriShapes, Relative, NsPred, Combo, Matrix }
const SUBJECTS: [&str; 7] = ["http://e/s", "http://e/s?a=1&b='2'", "http://example.org/ns#x", "urn:x:y", "http://e/\u{e9}", "http://e/\u{1F600}/p", "http://e/t"];
const BNODES: [&str; 11] = ["b", "b1", "a-b", "b.c", "_x", "__x", "_1", "_0a", "\u{e9}t", "riog00000001", "\u{10000}a"];
const BAD_BNODES: [&str; 4] = ["0", "0a", "1.2", "9_"];
const PREDS: [&str; 24] = ["http://example.org/ns/temp\u{b0}C", "http://e/2\u{d7}two", "http://e/a\u{f7}b", "http://e/\u{d7}", "http://e/p", "http://e/q", "http://example.org/ns#name", "http://e/a%20b", "http://e/1a", "http://e/-a", "http://e/.a", "http://e/a.b", "http://e/a-", "urn:x:y",
    "http://e/a:b", "http://e/\u{e9}", "http://e/\u{b7}a", "http://e/\u{10000}", "http://e/p?x=1&y='2'z", "http://www.w3.org/1999/02/22-rdf-syntax-ns#type", "http://www.w3.org/1999/02/22-rdf-syntax-ns#_1",
    "http://www.w3.org/1999/02/22-rdf-syntax-ns#value", "http://e/xmlns", "http://e/x\u{300}y\u{203f}"];
const NOSPLIT_PREDS: [&str; 7] = ["http://e/", "http://e/123", "urn:1", "http://e/ns#", "http://e/p?x=1", "http://e/p?x=1&y='2'", "http://e/-1."];
const DATATYPES: [&str; 12] = ["http://www.w3.org/2001/XMLSchema#String", "http://www.w3.org/2001/XMLSchema#STRING", "http://www.w3.org/2001/xmlschema#string", "HTTP://www.w3.org/2001/XMLSchema#string", "http://www.w3.org/2001/XMLSchema#strin", "http://www.w3.org/2001/XMLSchema#strings", "http://www.w3.org/2001/XMLSchema#integer", "http://www.w3.org/1999/02/22-rdf-syntax-ns#XMLLiteral", "http://www.w3.org/1999/02/22-rdf-syntax-ns#HTML", "http://e/dt?a&b'", "http://www.w3.org/2001/XMLSchema#token", "urn:dt"];
const LANGS: [&str; 7] = ["en", "EN-us", "fr-BE", "de-Latn-DE-1996", "x-private", "zh-Hant", "en-a-bbb"];
const BAD_LANGS: [&str; 4] = ["e", "abcdefghi", "en-a", "a1"];
const PIECES: [&str; 40] = ["<", ">", "&", "\"", "'", " ", " ", "  ", "\t", "\n", "\n", "a", "b", "Z", "0", ";", "#", "x", "]", "]]>", "&amp;", "&#32;", "&lt;", "<b>", "</b>", "<!--", "\u{e9}", "\u{1F600}", "\u{10FFFF}", "\u{FFFD}", "\u{D7FF}", "\u{E000}", "\u{85}", "\u{2028}", "\u{A0}", "=", "/", "?", "-", "."];
const ILLEGAL: [&str; 9] = ["\u{0}", "\u{1}", "\u{8}", "\u{B}", "\u{C}", "\u{E}", "\u{1F}", "\u{FFFE}", "\u{FFFF}"];
const WS: [&str; 3] = [" ", "\t", "\n"];
fn gen_text(r: &mut Rng) -> String {
    let mut s = String::new();
    if r.chance(1, 4) { for _ in 0..r.range(1, 3) { s.push_str(r.ps(&WS)); } }                    // leading whitespace / newlines
    loop { for _ in 0..r.below(8) { s.push_str(r.ps(&PIECES)); } if !s.chars().all(is_xml_ws) || s.is_empty() { break; } }
    if r.chance(1, 4) && !s.is_empty() { for _ in 0..r.range(1, 3) { s.push_str(r.ps(&WS)); } }  // trailing
    s
}
fn gen_pred(r: &mut Rng) -> String {
    if r.chance(2, 3) { return r.ps(&PREDS).to_string(); }
    // random path: the split point falls wherever the last non-NCName character is
    const PC: [&str; 34] = ["a", "b", "Z", "_", "1", "9", "-", ".", ":", "%41", "/", "#", "\u{e9}", "\u{b7}", "\u{300}", "\u{203f}", "~", "!", "$", "(", ")", "*", "+", ",", "=", "@", "&", "'", ";", "\u{10000}", "\u{b0}", "\u{d7}", "\u{f7}", "\u{2190}"];
    let mut s = String::from("http://e/"); let mut frag = false;
    for _ in 0..r.range(1, 7) { let p = r.ps(&PC); if p == "#" { if frag { continue; } frag = true; } s.push_str(p); }
    if ncname_suffix(&s).is_empty() { s.push('k'); }
    s
}
// ---------------------------------------------------------------------------------------------
// predicates as NAMESPACE x REMAINDER: every namespace that some layer treats specially (rdf:, rdfs:, xsd:, the rdf
// namespace without its '#', the xmlns namespace) and ordinary ones, each with every kind of remainder: none, no XML
// local name (digits, '-', '.', a trailing '#'), the names RDF/XML reserves and their near misses, ordinary names,
// names that only start late ("1a"), non-ASCII names, a ':' inside.  What must happen is decided by the oracle from the
// XML grammar alone (classify / the reference reader / lexical_findings), never by the way the serializer decides.
// ---------------------------------------------------------------------------------------------
const NS_SPECIAL: [&str; 8] = ["http://www.w3.org/1999/02/22-rdf-syntax-ns#", "http://www.w3.org/2000/01/rdf-schema#", "http://www.w3.org/2001/XMLSchema#", "http://www.w3.org/1999/02/22-rdf-syntax-ns", "http://e/ns#", "http://e/", "urn:x:", "http://e/p?x="];
const REMAINDERS: [&str; 44] = ["", "1", "42", "-x", ".", "1-2", "a#", "-", "#", "a:1", "a/", "\u{b7}", "\u{300}", "type", "_1", "_", "_0", "value", "first", "x1", "1a", "-a", "a.b", "a:b", "%41", "\u{e9}", "\u{b7}a", "\u{300}x", "\u{10000}",
    "li", "lix", "li1", "LI", "Description", "about", "ID", "RDF", "nodeID", "resource", "datatype", "parseType", "bagID", "aboutEach", "aboutEachPrefix"];
/// the remainders every namespace is combined with in the directed matrix (the rdf: namespace gets all of REMAINDERS)
const REMAINDERS_SHORT: [&str; 14] = ["", "1", "-x", ".", "a#", "a:1", "type", "x1", "1a", "\u{e9}", "%41", "li", "Description", "ID"];
fn valid_iri(p: &str) -> bool { sophia_iri::IriRef::new(p).is_ok() && has_scheme(p) }
fn gen_ns_pred(r: &mut Rng) -> String {
    loop {
        let ns = if r.chance(1, 2) { NS_SPECIAL[0] } else { r.ps(&NS_SPECIAL) };
        let mut rem = r.ps(&REMAINDERS).to_string();
        if r.chance(1, 6) { const RC: [&str; 12] = ["1", "9", "-", ".", "_", "a", "Z", "\u{b7}", "li", "ID", "#", ":"]; rem.clear(); for _ in 0..r.range(0, 4) { rem.push_str(r.ps(&RC)); } }
        let p = format!("{ns}{rem}");
        if valid_iri(&p) { return p; }
    }
}
/// the predicates of the directed matrix (valid IRIs only), in a fixed order
fn matrix_preds() -> Vec<String> {
    let mut v = vec![];
    for (k, ns) in NS_SPECIAL.iter().enumerate() { let rems: &[&str] = if k == 0 { &REMAINDERS } else { &REMAINDERS_SHORT }; for rem in rems { let p = format!("{ns}{rem}"); if valid_iri(&p) && !v.iter().any(|x: &String| *x == p) { v.push(p); } } }
    v
}
/// blank node labels that are not XML names as they are (a serializer has to rename or refuse them), and their neighbours
const ODD_BNODES: [&str; 10] = ["0", "0a", "1.2", "9_", "1", "42x", "_", "_b", "__x", "_1"];
const MATRIX_SUBJECTS: [(bool, &str); 9] = [(false, "http://e/s"), (false, "http://e/s?a=1&b='2'"), (true, "b1"), (true, "1"), (true, "42x"), (true, "_"), (true, "_b"), (true, "__x"), (true, "\u{e9}t")];
fn matrix_subject(k: usize) -> ST { let (b, x) = MATRIX_SUBJECTS[k % MATRIX_SUBJECTS.len()]; if b { bnode(x) } else { iri(x) } }
/// every kind of object: nodes (blank node labels that need renaming included), literals of the three kinds with legal
/// text, with text outside the Char production (C0 controls, U+FFFE, U+FFFF), and the two recorded reader deviations
fn matrix_objects() -> Vec<ST> {
    let xs = format!("{XSD}string");
    vec![iri("http://e/o"), bnode("b1"), bnode("7"), bnode("_x"), lit_dt("plain <&> \"text\"", &xs), lit_dt("\u{1}", &xs), lit_lang("x\u{FFFE}", "en"), lit_dt("a\u{0}b", &format!("{XSD}token")),
        lit_dt("1", &format!("{XSD}integer")), lit_lang("chat", "fr-BE"), lit_dt(" ", &xs), lit_lang("a\rb", "en"), lit_dt("<b>\u{B}</b>", &format!("{RDF}XMLLiteral")), lit_dt("abc\u{FFFF}", &xs), lit_lang("\u{1F}y", "de-Latn-DE-1996"), lit_dt("\u{D7FF}\u{E000}\u{FFFD}\u{10000}\u{10FFFF}", &xs)]
}
/// a literal of a random kind whose text holds one character outside the Char production
fn gen_illegal_lit(r: &mut Rng) -> ST {
    let t = format!("{}{}{}", gen_text(r), r.ps(&ILLEGAL), gen_text(r));
    match r.below(4) { 0 | 1 => lit_dt(&t, &format!("{XSD}string")), 2 => lit_lang(&t, r.ps(&LANGS)), _ => lit_dt(&t, r.ps(&DATATYPES)) }
}
fn gen_node(r: &mut Rng) -> ST { if r.chance(2, 3) { iri(r.ps(&SUBJECTS)) } else { bnode(r.ps(&BNODES)) } }
fn gen_lit(r: &mut Rng) -> ST {
    let t = gen_text(r);
    match r.below(4) { 0 | 1 => lit_dt(&t, &format!("{XSD}string")), 2 => lit_lang(&t, r.ps(&LANGS)), _ => lit_dt(&t, r.ps(&DATATYPES)) }
}
fn gen_obj(r: &mut Rng) -> ST { if r.chance(3, 5) { gen_lit(r) } else { gen_node(r) } }

// ---------------------------------------------------------------------------------------------
// IRIs of every RFC 3986 / RFC 3987 SHAPE: scheme ":" hier-part [ "?" query ] [ "#" fragment ] built from its
// components (every kind of scheme, authority, path, query, fragment), and relative references of every kind
// (network-path, absolute-path, path-noscheme with and without dot segments, empty path, query / fragment only).
// Written from the RFCs, independently of sophia_iri, oxiri and the Coq grammar (C09/Rfc3987.v), which all get
// compared with it.
// ---------------------------------------------------------------------------------------------
#[derive(Clone, Debug, Default, PartialEq)]
struct Parts { scheme: Option<String>, auth: Option<String>, path: String, query: Option<String>, frag: Option<String> }
impl Parts {
    /// RFC 3986 5.3
    fn text(&self) -> String {
        let mut s = String::new();
        if let Some(x) = &self.scheme { s.push_str(x); s.push(':'); }
        if let Some(x) = &self.auth { s.push_str("//"); s.push_str(x); }
        s.push_str(&self.path);
        if let Some(x) = &self.query { s.push('?'); s.push_str(x); }
        if let Some(x) = &self.frag { s.push('#'); s.push_str(x); }
        s
    }
}
/// RFC 3986 3.1: scheme = ALPHA *( ALPHA / DIGIT / "+" / "-" / "." )
fn is_scheme(s: &str) -> bool { let mut it = s.chars(); matches!(it.next(), Some(c) if c.is_ascii_alphabetic()) && it.all(|c| c.is_ascii_alphanumeric() || matches!(c, '+' | '-' | '.')) }
/// RFC 3986 appendix B (with the scheme of 3.1)
fn split_ref(s: &str) -> Parts {
    let (s1, frag) = match s.split_once('#') { Some((a, f)) => (a, Some(f.to_string())), None => (s, None) };
    let (s2, query) = match s1.split_once('?') { Some((a, q)) => (a, Some(q.to_string())), None => (s1, None) };
    let (scheme, s3) = match s2.split_once(':') { Some((a, rest)) if is_scheme(a) => (Some(a.to_string()), rest), _ => (None, s2) };
    let (auth, path) = match s3.strip_prefix("//") { Some(r) => { let e = r.find('/').unwrap_or(r.len()); (Some(r[..e].to_string()), r[e..].to_string()) } None => (None, s3.to_string()) };
    Parts { scheme, auth, path, query, frag }
}
fn has_scheme(s: &str) -> bool { split_ref(s).scheme.is_some() }
/// RFC 3986 5.2.4, the string algorithm as written
fn remove_dot_segments(path: &str) -> String {
    let mut inp = path.to_string(); let mut out = String::new();
    let pop = |out: &mut String| { match out.rfind('/') { Some(i) => out.truncate(i), None => out.clear() } };
    while !inp.is_empty() {
        if let Some(r) = inp.strip_prefix("../") { inp = r.to_string(); }
        else if let Some(r) = inp.strip_prefix("./") { inp = r.to_string(); }
        else if let Some(r) = inp.strip_prefix("/./") { inp = format!("/{r}"); }
        else if inp == "/." { inp = "/".into(); }
        else if let Some(r) = inp.strip_prefix("/../") { inp = format!("/{r}"); pop(&mut out); }
        else if inp == "/.." { inp = "/".into(); pop(&mut out); }
        else if inp == "." || inp == ".." { inp.clear(); }
        else { let start = if inp.starts_with('/') { 1 } else { 0 }; let e = inp[start..].find('/').map_or(inp.len(), |i| i + start); out.push_str(&inp[..e]); inp = inp[e..].to_string(); }
    }
    out
}
/// RFC 3986 5.2.2 (strict) with 5.2.3
fn rfc_resolve(base: &str, r: &str) -> String {
    let b = split_ref(base); let r = split_ref(r);
    let t = if r.scheme.is_some() { Parts { path: remove_dot_segments(&r.path), ..r } }
        else if r.auth.is_some() { Parts { scheme: b.scheme, path: remove_dot_segments(&r.path), ..r } }
        else if r.path.is_empty() { Parts { scheme: b.scheme, auth: b.auth, path: b.path, query: r.query.or(b.query), frag: r.frag } }
        else if r.path.starts_with('/') { Parts { scheme: b.scheme, auth: b.auth, path: remove_dot_segments(&r.path), query: r.query, frag: r.frag } }
        else { let merged = if b.auth.is_some() && b.path.is_empty() { format!("/{}", r.path) } else { match b.path.rfind('/') { Some(i) => format!("{}{}", &b.path[..=i], r.path), None => r.path.clone() } };
            Parts { scheme: b.scheme, auth: b.auth, path: remove_dot_segments(&merged), query: r.query, frag: r.frag } };
    t.text()
}
/// what reading `i` from rdf:about / rdf:resource / rdf:datatype under `base` must give: an IRI is itself (character
/// for character: RDF compares IRIs as strings), a relative reference is resolved (RDF/XML 5.3, RFC 3986 5.2)
fn under_base(base: &str, i: &str) -> String { if has_scheme(i) { i.to_string() } else { rfc_resolve(base, i) } }
const BASES: [&str; 3] = ["http://base.example/dir/file?q#f", "http://a/b/c/d;p?q", "file:///base/dir/"];

const SCHEMES: [&str; 32] = ["http", "https", "urn", "tag", "mailto", "file", "a", "Z", "HTTP", "hTtP", "h2", "coap+tcp", "svn+ssh", "z39.50s", "view-source", "x-dt", "a1+b-c.d", "x.", "x-", "x+", "A-", "ni", "did", "jar", "ldap", "tel", "news", "xmlns", "xml", "rdf", "git+https", "ms-settings"];
const USERINFOS: [&str; 8] = ["u", "u:pw", "u:", ":", "a%40b", "\u{e9}", "a!$&'()*+,;=", ""];
const HOSTS: [&str; 15] = ["h", "example.org", "EXAMPLE.org", "127.0.0.1", "[::1]", "[2001:db8::7]", "[::ffff:192.0.2.1]", "[v7.a:b]", "\u{e9}.example", "xn--bcher-kva.example", "h%41", "a!$&'()*+,;=b", "", "1.2.3", "a-b.c_d~e"];
const PORTS: [&str; 6] = ["", ":", ":80", ":8080", ":0", ":65536"];
const ABS_PATHS: [&str; 34] = ["", "/", "/a", "/a/b", "/a/", "/a/b.c", "/a%20b", "/%C3%A9", "/%e9", "/\u{e9}", "/\u{65e5}\u{672c}", "/\u{1F600}", "/a:b", "/a@b", "/a;p=1", "/a,b", "/a!$&'()*+,;=b", "/~u", "/-", "/.a", "/a.", "/a//b", "//", "/./a", "/a/../b", "/a/.", "/a/..", "/..", "/.", "/a/./b/../c", "/1", "/_", "/a_b-c.d", "/ns/name"];
const ROOTLESS: [&str; 16] = ["a", "a:b", "a:b:c", "x@y", "a/b", "a/b/", "1", "uuid:6e8bc430-9c3a-11d9-9669-0800200c9a66", "example.org,2024:x", "+1-816-555-1212", "a%20b", "\u{e9}", "a;b=c", "isbn:0451450523", "int", "a/../b"];
const QUERIES: [&str; 12] = ["", "q", "a=1&b=2", "a=1&b='2'", "/?", "a/b", "%3F", "\u{e9}", "\u{E000}", "\u{F0000}", "q:@!$()*+,;=", "objectClass?one"];
const FRAGS: [&str; 10] = ["", "f", "a/b?c", "\u{e9}", "%23", "x:y@z", "!$&'()*+,;=", "1", "-a", "name"];
/// path-noscheme (first segment non-empty, without ':'), with and without dot segments
const REL_PATHS: [&str; 28] = ["a", "a.b", ".", "..", "./a", "../a", "../../a", "../..", "./", "../", "a/b", "a/./b", "a/../b", "a/b:c", "./a:b", "1", "-a", "*", "a@b", "\u{e9}", "%41", "a;x=1", "..a", "a..", ".a", "...", "../../../../a", "a/"];
/// dot-free paths for network-path references ("//authority path")
const NET_PATHS: [&str; 8] = ["", "/", "/a", "/a/b", "/a/", "/\u{e9}", "/a%20b", "/a:b@c"];
fn gen_scheme(r: &mut Rng) -> String {
    if r.chance(3, 4) { return r.ps(&SCHEMES).to_string(); }
    const SC: &[u8] = b"abzABZ019+-."; let mut s = String::new(); s.push(*r.pick(&SC[..6]) as char); for _ in 0..r.below(6) { s.push(*r.pick(SC) as char); } s
}
fn gen_authority(r: &mut Rng) -> String {
    let mut a = String::new();
    if r.chance(1, 3) { a.push_str(r.ps(&USERINFOS)); a.push('@'); }
    a.push_str(r.ps(&HOSTS)); if r.chance(1, 3) { a.push_str(r.ps(&PORTS)); }
    a
}
fn gen_abs_parts(r: &mut Rng) -> Parts {
    let scheme = Some(gen_scheme(r));
    let (auth, path) = match r.below(10) {
        0..=5 => (Some(gen_authority(r)), r.ps(&ABS_PATHS).to_string()),
        6 | 7 => (None, r.ps(&ROOTLESS).to_string()),
        8 => (None, loop { let p = r.ps(&ABS_PATHS); if !p.starts_with("//") && !p.is_empty() { break p.to_string(); } }),
        _ => (None, String::new()),
    };
    Parts { scheme, auth, path, query: if r.chance(1, 3) { Some(r.ps(&QUERIES).to_string()) } else { None }, frag: if r.chance(1, 3) { Some(r.ps(&FRAGS).to_string()) } else { None } }
}
fn gen_rel_parts(r: &mut Rng) -> Parts {
    let (auth, path) = match r.below(8) {
        0 => (Some(gen_authority(r)), r.ps(&NET_PATHS).to_string()),
        1 | 2 => (None, loop { let p = r.ps(&ABS_PATHS); if !p.starts_with("//") && !p.is_empty() { break p.to_string(); } }),
        3..=5 => (None, r.ps(&REL_PATHS).to_string()),
        _ => (None, String::new()),
    };
    Parts { scheme: None, auth, path, query: if r.chance(1, 3) { Some(r.ps(&QUERIES).to_string()) } else { None }, frag: if r.chance(1, 3) { Some(r.ps(&FRAGS).to_string()) } else { None } }
}
/// the catalogues every run goes through (directed stream): IRIs, then relative references
const ABS_SHAPES: [&str; 70] = ["coap+tcp://example.org/sensors/temp", "svn+ssh://u@h/repo/trunk", "z39.50s://h/db", "view-source:http://e/ns#p", "x-dt:int", "a:b", "Z:b", "HTTP://E/X", "hTtP://e/x", "h2:x", "a1+b-c.d:x", "x.:y", "x-:y", "x+:y",
    "urn:a:b", "urn:uuid:6e8bc430-9c3a-11d9-9669-0800200c9a66", "urn:oasis:names:specification:docbook:dtd:xml:4.1.2", "mailto:x@y", "mailto:a.b@example.org?subject=hi%20there", "tag:example.org,2024:x", "news:comp.infosystems.www.servers.unix", "tel:+1-816-555-1212",
    "did:example:123456789abcdefghi", "ni:///sha-256;UyaQV-Ev4rdLoHyJJWCi11OHfrYv9E1aGQAlMO2X_-Q", "jar:file:///a.jar!/b", "file:///x", "file:///c:/dir/f.txt", "x:/a/b", "x:", "x:?q", "x:#f", "x:a/../b",
    "http://h", "http://h/", "http://h?q", "http://h#f", "http://h/?q#f", "http://u@h/p", "http://u:pw@h:8080/p", "http://@h/p", "http://h:80/p", "http://h:/p", "http://h:80", "http://[::1]/p", "http://[::1]", "http://[2001:db8::7]:8080/p?q#f", "http://[v7.a:b]/p", "http://127.0.0.1/p",
    "ldap://[2001:db8::7]/c=GB?objectClass?one", "telnet://192.0.2.16:80/", "http://h/a%20b/%C3%A9", "http://h/%7Euser", "http://\u{e9}.example/\u{fc}/\u{f1}", "http://h/\u{65e5}\u{672c}\u{8a9e}#\u{65ad}\u{7247}", "http://h/\u{1F600}?\u{1F600}#\u{1F600}", "http://h/p?\u{E000}",
    "http://h/a/./b/../c", "http://h/..", "http://h/a//b", "http://h//", "http://h/a;p=1,2", "http://h/a!$&'()*+,;=:@b", "http://a!$&'()*+,;=b/p", "http://h/p?a=1&b='2'&c=/?", "http://h/p#a/b?c", "http://h/p?#", "http://h/p#", "http://h/p?", "git+https://h/r.git", "ms-settings:display"];
const REL_SHAPES: [&str; 40] = ["", "#", "#f", "?q", "?", "?q#f", "p", "p/q", "./p", "../p", "../../p", "../../../../p", "/p", "/", "/p/../q", "//h/p", "//h", "//u@h:80/p?q#f", "//[::1]/p", ".", "..", "./", "../", "p?q#f", "p#f", "\u{e9}", "%41", "a/b:c", "./a:b", "p;x=1", "1a", "-a", "*", "a@b", "g?y/./x", "g#s/../x", "..g", "g.", ".g", "a/./b/../c"];
/// a predicate made from an IRI shape: the same IRI when it already ends with an XML local name, else with the
/// shortest addition (in its last component) that gives it one
fn predify(i: &str) -> String {
    if !ncname_suffix(i).is_empty() { return i.to_string(); }
    let mut p = split_ref(i);
    if let Some(f) = &mut p.frag { f.push('k'); } else if let Some(q) = &mut p.query { q.push('k'); } else if !p.path.is_empty() { p.path.push('k'); } else if p.auth.is_some() { p.path = "/k".into(); } else { p.path = "k".into(); }
    p.text()
}
/// what Rio's formatter needs to write a property element: a character that can not be in a local name (or ':')
/// followed somewhere by one that can start it
fn splittable(p: &str) -> bool { p.char_indices().rev().find(|(_, c)| !is_name_char(*c) || *c == ':').is_some_and(|(i, _)| p[i..].chars().any(|c| is_name_start(c) && c != ':')) }
/// an IRI (or relative reference) of a random shape that sophia's own IriRef accepts (an assumption of the property)
fn gen_shape(r: &mut Rng, relative: bool, rejected: &mut u64) -> String {
    loop {
        let p = if relative { gen_rel_parts(r) } else { gen_abs_parts(r) }; let s = p.text();
        assert!(split_ref(&s) == p && has_scheme(&s) != relative, "harness: {s:?} does not split into the components it was built from ({p:?})");
        if sophia_iri::IriRef::new(s.as_str()).is_ok() { return s; }
        *rejected += 1;
    }
}
/// the directed stream: the first cases of every run go through the two catalogues, two shapes per case, each shape as
/// subject, as predicate (see predify), as object and as datatype
fn shape_triples(x: &str, subj: &str, out: &mut Vec<T3>) {
    if sophia_iri::IriRef::new(x).is_err() { return; }   // (counted once, in main)
    let (s0, p0, p1) = (iri(subj), iri("http://e/p"), iri("http://e/q")); let xs = format!("{XSD}string");
    out.push([iri(x), p0.clone(), lit_dt("as subject", &xs)]);
    let p = predify(x); if has_scheme(x) || splittable(&p) { out.push([s0.clone(), iri(&p), lit_dt("as predicate", &xs)]); }
    out.push([s0.clone(), p0, iri(x)]);
    out.push([s0, p1, lit_dt("1", x)]);
}
fn directed_case(idx: usize) -> Option<(Flavour, Vec<T3>)> {
    let (na, nr) = (ABS_SHAPES.len() / 2, REL_SHAPES.len() / 2);
    let (fl, a, b) = if idx < na { (Flavour::IriShapes, ABS_SHAPES[2 * idx], ABS_SHAPES[2 * idx + 1]) } else if idx < na + nr { let j = idx - na; (Flavour::Relative, REL_SHAPES[2 * j], REL_SHAPES[2 * j + 1]) } else { return None };
    let mut g = vec![]; shape_triples(a, "http://e/s", &mut g); shape_triples(b, "http://e/t", &mut g); Some((fl, g))
}
fn shape_tags(i: &str) -> Vec<&'static str> {
    let p = split_ref(i); let mut t = vec![];
    match &p.scheme { None => t.push("relative-reference"), Some(s) => { let mut plain = true;
        if s.len() == 1 { t.push("scheme:one-letter"); plain = false; } if s.contains(['+', '-', '.']) { t.push("scheme:with + - ."); plain = false; }
        if s.chars().any(|c| c.is_ascii_digit()) { t.push("scheme:with digit"); plain = false; } if s.chars().any(|c| c.is_ascii_uppercase()) { t.push("scheme:upper case"); plain = false; }
        if plain { t.push("scheme:lower-case letters"); } } }
    match &p.auth { None => t.push("authority:none"), Some(a) if a.is_empty() => t.push("authority:empty"), Some(a) => {
        let host = match a.rsplit_once('@') { Some((_, h)) => { t.push("authority:userinfo"); h } None => a.as_str() };
        if host.starts_with('[') { t.push("authority:ip-literal"); if host.contains("]:") { t.push("authority:port"); } } else { if host.contains(':') { t.push("authority:port"); } t.push("authority:name"); } } }
    if p.path.is_empty() { t.push("path:empty"); } else { t.push(if p.path.starts_with('/') { "path:absolute" } else { "path:rootless" }); if p.path.split('/').any(|x| x == "." || x == "..") { t.push("path:dot-segments"); } }
    if p.query.is_some() { t.push("query"); } if p.frag.is_some() { t.push("fragment"); }
    if !i.is_ascii() { t.push("non-ascii"); } if i.contains('%') { t.push("pct-encoded"); }
    t
}
fn iris_of(g: &[T3]) -> Vec<String> {
    fn go(t: &ST, out: &mut Vec<String>) { match t { SimpleTerm::Iri(i) => out.push(i.as_str().to_string()), SimpleTerm::LiteralDatatype(_, d) => out.push(d.as_str().to_string()), SimpleTerm::Triple(q) => for x in q.iter() { go(x, out) }, _ => {} } }
    let mut out = vec![]; for t in g { for x in t { go(x, &mut out); } } out
}
/// does some rdf:about / rdf:resource / rdf:datatype of the triples hold a relative reference (a reader needs a base)?
fn needs_base(expected: &[T3]) -> bool {
    expected.iter().any(|t| matches!(&t[0], SimpleTerm::Iri(i) if !has_scheme(i.as_str())) || matches!(&t[2], SimpleTerm::Iri(i) if !has_scheme(i.as_str()))
        || matches!(&t[2], SimpleTerm::LiteralDatatype(_, d) if !has_scheme(d.as_str())))
}
/// the triples a reader with base `base` must return for `expected` (the predicate is an element name: never resolved)
fn expected_under(base: &str, expected: &[T3]) -> Vec<T3> {
    let n = |t: &ST| -> ST { match t { SimpleTerm::Iri(i) => iri(&under_base(base, i.as_str())), SimpleTerm::LiteralDatatype(l, d) => lit_dt(l, &under_base(base, d.as_str())), x => x.clone() } };
    expected.iter().map(|t| [n(&t[0]), t[1].clone(), n(&t[2])]).collect()
}
fn rio_read_base(doc: &str, base: &str) -> Result<Vec<T3>, String> {
    match quiet(|| { let r: Result<Vec<T3>, _> = RdfXmlParser { base: Some(Iri::new_unchecked(base.to_string())) }.parse_str(doc).collect_triples(); r.map_err(|e| e.to_string()) }) { Ok(r) => r, Err(_) => Err("PANIC".into()) }
}

/// the triples RDF/XML can express, and whether the graph is in the class where success without loss is promised
/// (an RDF graph: every IRI is absolute; relative references are generalized input)
fn classify(fed: &[T3]) -> (Vec<T3>, bool) {
    let expected: Vec<T3> = fed.iter().filter(|t| representable(t)).cloned().collect();
    let quoted = fed.iter().any(has_quoted);
    let text_legal = expected.iter().all(|t| lex_of(&t[2]).map_or(true, |l| l.chars().all(is_xml_char)));
    let preds_ok = expected.iter().all(|t| { let p = t[1].iri().unwrap(); let p = p.as_str(); !ncname_suffix(p).is_empty() && !RESERVED.iter().any(|l| p == format!("{RDF}{l}")) });
    let all_abs = iris_of(&expected).iter().all(|i| has_scheme(i));
    (expected, !quoted && text_legal && preds_ok && all_abs)
}
type Parses = (Result<Vec<T3>, String>, Result<Vec<T3>, String>);
fn parses<'a>(cache: &'a mut HashMap<String, Parses>, d: &str) -> &'a Parses { if !cache.contains_key(d) { cache.insert(d.to_string(), (rio_read(d), ref_read(d))); } &cache[d] }
/// the reader WITH a base on a document whose rdf:about / rdf:resource / rdf:datatype hold relative references
fn base_finding(d: &str, base: &str, expected: &[T3], known_ws: Option<&[T3]>, bad_tag: bool) -> Option<(&'static str, String)> {
    let want = expected_under(base, expected);
    match rio_read_base(d, base) {
        Err(e) => if bad_tag { None } else { Some(("rio-base-rejects", format!("RdfXmlParser with base <{base}> rejects the serialiser's output: {e}; document {d:?}"))) },
        Ok(back) => if iso(&want, &back) || known_ws.is_some_and(|w| iso(&expected_under(base, w), &back)) { None } else { Some(("rio-base-differs", format!("RdfXmlParser with base <{base}> reads back a different graph: read {back:?}, expected {want:?}; document {d:?}"))) },
    }
}
/// the round-trip oracle on one outcome: (kind of finding, detail).
/// `known` = apply the three recorded third-party deviations EXACTLY instead of reporting them again (they are reported,
/// under their own heads, by the baseline run of the flavours that contain them): rio_xml's reader returns "" for a
/// whitespace-only literal and rejects tags that are not BCP47; a conformant XML reader turns CR / CR LF into LF.
fn judge(out: &Ser, fed: &[T3], known: bool, base: &str, cache: &mut HashMap<String, Parses>) -> Vec<(&'static str, String)> {
    let (expected, in_class) = classify(fed); let mut f = vec![];
    let relit = |t: &T3, h: &dyn Fn(&str) -> String| -> T3 { let o = match &t[2] { SimpleTerm::LiteralDatatype(l, d) => lit_dt(&h(l), d.as_str()), SimpleTerm::LiteralLanguage(l, tag) => lit_lang(&h(l), tag.as_str()), x => x.clone() }; [t[0].clone(), t[1].clone(), o] };
    let exp_ws: Vec<T3> = expected.iter().map(|t| relit(t, &|l| if l.chars().all(is_xml_ws) { String::new() } else { l.to_string() })).collect();
    let exp_cr: Vec<T3> = expected.iter().map(|t| relit(t, &|l| l.replace("\r\n", "\n").replace('\r', "\n"))).collect();
    let bad_tag = expected.iter().any(|t| matches!(&t[2], SimpleTerm::LiteralLanguage(_, tag) if !bcp47_simple(tag.as_str())));
    match out {
        Ser::Panic => f.push(("panic", "the serializer panicked".to_string())),
        Ser::Err(e) => if in_class { f.push(("failed-in-class", format!("serialisation failed inside the guaranteed class: {e}"))); },
        Ser::Doc(d) => { if let Some(l) = lexical_findings(d) { f.push(("not-xml", format!("the bytes written are not well-formed XML with qualified names: {l}; document {d:?}"))); }
            let (pr, rr) = parses(cache, d);
            match rr { Err(e) => f.push(("not-xml", format!("the document is not a well-formed namespace-conformant RDF/XML document: reference reader: {e}; document {d:?}"))),
                Ok(back) => if !iso(&expected, back) && !(known && iso(&exp_cr, back)) { f.push(("ref-differs", format!("the document does not denote the graph (reference XML reader): read {back:?}, expected {expected:?}; document {d:?}"))); } }
            let nb = needs_base(&expected);
            match pr { Err(e) => if !(known && bad_tag) && !nb { f.push(("rio-rejects", format!("RdfXmlParser rejects the serialiser's output: {e}; document {d:?}"))) },
                Ok(back) => if !iso(&expected, back) && !(known && iso(&exp_ws, back)) { f.push(("rio-differs", format!("RdfXmlParser reads back a different graph: read {back:?}, expected {expected:?}; document {d:?}"))); } }
            // relative references: the document must read back under a base
            if nb { if let Some(x) = base_finding(d, base, &expected, if known { Some(&exp_ws) } else { None }, known && bad_tag) { f.push(x); } } }
    }
    f
}
fn same_out(a: &Ser, b: &Ser) -> bool { match (a, b) { (Ser::Doc(x), Ser::Doc(y)) => x == y, (Ser::Err(x), Ser::Err(y)) => x == y, _ => false } }
fn show(s: &Ser) -> String { match s { Ser::Doc(d) => format!("the document {d:?}"), Ser::Err(e) => format!("the error {e:?}"), Ser::Panic => "a panic".into() } }
fn c_obs(s: &Ser, with_doc: bool) -> String {
    match s { Ser::Doc(d) => if with_doc { format!("(ObsDoc {})", coq_str(d)) } else { "ObsSomeDoc".into() }, Ser::Err(e) if e.contains("named or blank subject") => "ObsErrSubj".into(), Ser::Err(e) if e.contains("named, blank or literal object") => "ObsErrObj".into(), Ser::Err(e) if e.contains("RDF/XML can not express") => "ObsErrInput".into(), _ => "ObsOther".into() }
}

/// the Coq obligations of one (small) graph at one indentation: outcome (exact bytes when `with_doc`), the independent
/// statement of what must be refused and the lexical well-formedness of the bytes (out_ok = ser_ok && refuse_ok && wf_ok),
/// and both parses against the model readers
fn coq_small(cg: &str, guard: bool, g: &[T3], ind: usize, with_doc: bool, out: &Ser, ps: Option<&Parses>) -> Vec<String> {
    let expected: Vec<T3> = g.iter().filter(|t| representable(t)).cloned().collect();
    let node_out = |x: &ST| -> ST { match x { SimpleTerm::BlankNode(b) if guard && b.as_str().starts_with(|c: char| c.is_ascii_digit() || c == '_') => bnode(&format!("_{}", b.as_str())), _ => x.clone() } };
    let std_parse: Vec<String> = expected.iter().map(|t| { let mut t = [node_out(&t[0]), t[1].clone(), node_out(&t[2])]; if let SimpleTerm::LiteralLanguage(l, tag) = &t[2] { t[2] = lit_lang(l, &tag.as_str().to_ascii_lowercase()); } c_t3(&t) }).collect();
    let mut parts = vec![format!("out_ok {cg} {ind} g {}", c_obs(out, with_doc))];
    if let (Ser::Doc(_), Some((pr, rr))) = (out, ps) {
        for (strict, x) in [(false, pr), (true, rr)] {
            parts.push(match x { Ok(b) if b.iter().map(c_t3).collect::<Vec<_>>() == std_parse => format!("parse_std {cg} {} {ind} g", coq_bool(strict)), _ => format!("parse_ok {cg} {} {ind} g {}", coq_bool(strict), c_parse(x)) });
        }
    }
    parts
}

fn main() {
    let a = parse_args();
    let default_hook = std::panic::take_hook();
    std::panic::set_hook(Box::new(move |info| { if !QUIET.load(Ordering::SeqCst) { default_hook(info) } }));
    let mut sum = Summary::default();
    sum.rule = "case = (A, 5 of 6) a graph of 0..5 triples (subjects IRI/blank with repeated and interleaved subjects; predicates from a list of namespace split points plus random paths; objects IRI/blank/literal with text over markup characters, whitespace runs, leading/trailing newlines, TAB, entity look-alikes, ]]>, non-BMP and boundary code points; language tags; datatypes incl. rdf:XMLLiteral), \
of one flavour: clean, or (except Combo) exactly one kind of input outside a class (whitespace-only literal, blank node label starting with a digit, reserved rdf: name as predicate, predicate without NCName suffix, non-XML character, CR, non-BCP47 tag, generalised triple, quoted triple), serialised with every indentation 0..8 (and one of 9..64) through serialize_triples(vec.triples()) on a stringifier, and -- at indentation 0 and two random ones -- through EVERY other public entry point: \
serialize_triples on 17 kinds of source (iterators, adapters, slice, set containers, in-memory graphs, Rio triples in Trusted, the RDF/XML parser, dataset quads), serialize_graph on 16 kinds of graph (Vec, references, slice, HashSet, BTreeSet, FastGraph, LightGraph, dataset views: graph(name), union, partial union, as_dataset), \
every way of building the config / serializer, 7 kinds of writer (short writes, interruptions, buffered), a writer with a byte limit, four calls on one serializer, chaining; each judged by the same round-trip oracle and compared with the baseline; the parser driven in 14 ways on every document; \
(A', directed, the first 55 cases of every run) the catalogue of 70 IRIs of every RFC 3986/3987 shape (schemes with + - . digits, upper case, one letter; no authority, empty authority, userinfo, port, empty port, IPv6 / IPvFuture literal; empty, rootless, absolute paths, dot segments, percent escapes, non-ASCII; query only, fragment only) and of 40 relative references of every kind, two per case, each as subject, predicate, object and datatype, through the same machinery as A; \
the flavours IriShapes (3 of 25 graphs of A: two thirds of the IRIs of every position built from random components) and Relative (2 of 25: one to three relative references in addition -- generalized input: the serializer may refuse, else the document must read back verbatim through the reference reader and, under a base, resolved per RFC 3986 5.2); \
(A'', directed, one case per predicate of the matrix, after A') every predicate NAMESPACE x REMAINDER (rdf:, rdfs:, xsd:, the rdf namespace without '#', ordinary ones; remainders: none, no XML local name, reserved names and near misses, late-starting, non-ASCII, with ':') with each of 16 kinds of object (nodes, blank node labels that need renaming, literals of the three kinds with legal text and with text outside the Char production, the recorded reader deviations) and 9 kinds of subject rotating, as one-triple graphs, then behind / between expressible triples; the flavours NsPred (2 of 30: such predicates in random graphs, through every entry point) and Combo (3 of 30: two or three out-of-class ingredients at once, mostly in ONE triple: renamed blank node subject / object, non-Char literal of any kind, reserved / unsplittable / special-namespace predicate, generalised or quoted triple); every document is also checked LEXICALLY (Char production, every tag and attribute name a QName) independently of the reference reader, and in Coq (wf_ok), and the model states separately which graphs must be refused (refuse_ok); (B, 1 of 6) a raw element text and a raw attribute value (references, stray ampersands, CR/LF/TAB, non-XML characters) fed to the real parser and to the reference reader; \
non-trivial = A: at least one representable triple and (a literal with a character that needs escaping or whitespace at an end, or a predicate not ending in a plain ASCII name after '/' or '#'), B: the raw string contains '&' or whitespace; distinct = distinct inputs".into();
    // Which serializer is under test?  The proposed repair (build/proposed/C18.diff) refuses text outside XML's Char
    // production; the Coq model has both variants (guard = true / false) and the cases are checked against the one present.
    let guard = matches!(serialize(&vec![[iri("http://e/s"), iri("http://e/p"), lit_dt("\u{1}", &format!("{XSD}string"))]], 0), Ser::Err(_));
    sum.extra.push(("serializer_has_repair".into(), guard.to_string()));
    let cg = coq_bool(guard);
    let base = Rng::new(a.seed);
    let n_directed = ABS_SHAPES.len() / 2 + REL_SHAPES.len() / 2; let mpreds = matrix_preds(); let mobjs = matrix_objects();
    sum.extra.push(("matrix_predicates".into(), mpreds.len().to_string()));
    let mut cases = vec![]; let mut seen = std::collections::HashSet::new();
    let range: Vec<usize> = match a.only { Some(i) => vec![i], None => (0..a.n).collect() };
    let verbose = a.only.is_some();
    for idx in range {
        let mut r = base.fork(idx as u64);
        sum.evaluations += 1;
        let directed = directed_case(idx);
        if idx >= n_directed && idx < n_directed + mpreds.len() {
            // ---------------- stream A'': the directed matrix predicate x subject x object ----------------
            // one predicate per case (every namespace x remainder), with EVERY kind of object, the kind of subject
            // rotating, as one-triple graphs (an error in one triple can not hide the next); then the triple behind and
            // between expressible ones.  Each graph: indentation 0 and one of 1..8, the full round-trip oracle (judge),
            // the lexical check of the bytes, and the Coq model (outcome, bytes, both parses, what must be refused).
            let j = idx - n_directed; let p = iri(&mpreds[j]); let base_iri: &str = BASES[idx % BASES.len()]; let xs = format!("{XSD}string");
            let mut graphs: Vec<Vec<T3>> = vec![];
            for (oi, o) in mobjs.iter().enumerate() { graphs.push(vec![[matrix_subject(j + oi), p.clone(), o.clone()]]); }
            let focus = |k: usize| -> T3 { [matrix_subject(j + k), p.clone(), mobjs[(j + k) % mobjs.len()].clone()] };
            let clean: T3 = [iri("http://e/t"), iri("http://e/q"), lit_dt("ok", &xs)];
            let t1 = focus(3); graphs.push(vec![[t1[0].clone(), iri("http://e/q"), lit_dt("ok", &xs)], t1]);
            graphs.push(vec![clean.clone(), focus(5), clean.clone()]);
            graphs.push(vec![focus(1), focus(2)]);
            let mut cache: HashMap<String, Parses> = HashMap::new(); let mut parts: Vec<String> = vec![]; let mut mf: Vec<String> = vec![];
            for (gi, g) in graphs.iter().enumerate() {
                let k = 1 + (j + gi) % 8;
                let outs: Vec<(usize, Ser)> = [0usize, k].iter().map(|&ind| (ind, serialize(g, ind))).collect();
                for (ind, out) in &outs { for (_, d) in judge(out, g, true, base_iri, &mut cache) { mf.push(format!("indentation {ind}: {d}; graph {g:?}")); } }
                let same = |a: &Result<Vec<T3>, String>, b: &Result<Vec<T3>, String>| match (a, b) { (Ok(x), Ok(y)) => exact(x, y), (Err(_), Err(_)) => true, _ => false };
                match (&outs[0].1, &outs[1].1) {
                    (Ser::Doc(d0), Ser::Doc(dk)) => { let p0 = parses(&mut cache, d0).clone(); let pk = parses(&mut cache, dk).clone();
                        if !same(&p0.0, &pk.0) || !same(&p0.1, &pk.1) { mf.push(format!("RDF/XML indentation changes the parsed result: indentation 0 gives {:?} / {:?}, indentation {k} gives {:?} / {:?}; graph {g:?}", p0.0, p0.1, pk.0, pk.1)); } }
                    (Ser::Err(_), Ser::Err(_)) => {}
                    (a0, ak) => if !matches!(a0, Ser::Panic) && !matches!(ak, Ser::Panic) { mf.push(format!("RDF/XML indentation changes the outcome: indentation 0 gives {}, indentation {k} gives {}; graph {g:?}", show(a0), show(ak))); }
                }
                let mut gp = vec![];
                for (ind, out) in &outs { let ps = match out { Ser::Doc(d) => Some(parses(&mut cache, d).clone()), _ => None }; gp.extend(coq_small(cg, guard, g, *ind, (*ind == 0) == ((j + gi) % 2 == 0), out, ps.as_ref())); }
                parts.push(format!("(let g := {} in {})", c_graph(g), gp.join(" && ")));
                sum.bump("matrix:graphs"); sum.bump(match &outs[0].1 { Ser::Doc(_) => "matrix:written", Ser::Err(_) => "matrix:refused", Ser::Panic => "matrix:panic" });
                if verbose { println!("CASE {idx} (matrix) graph {gi}: {g:?}"); for (ind, out) in &outs { println!(" [{ind}] {}", show(out)); } }
            }
            if verbose { for f in &mf { println!(" ORACLE (matrix): {f}"); } }
            if let Some(f) = mf.first() { let extra = mf.len() - 1; sum.bump("oracle:failing-case");
                sum.oracle_failures.push((idx.to_string(), format!("RDF/XML round trip: directed matrix, predicate <{}>: {f}{}", mpreds[j], if extra > 0 { format!(" (+{extra} more findings of this case over subjects, objects and indentations)") } else { String::new() }))); }
            sum.bump("stream:matrix"); sum.bump("flavour:Matrix");
            if seen.insert(format!("M{}", mpreds[j])) { sum.distinct_nontrivial += 1; }   // (every case holds the literal `plain <&> "text"`)
            if sum.samples.len() < 6 && j % 40 == 1 { sum.samples.push(format!("case {idx}: directed matrix, predicate <{}>, {} graphs", mpreds[j], graphs.len())); }
            cases.push((idx, parts.join(" && ")));
            continue;
        }
        if directed.is_none() && r.chance(1, 6) {
            // ---------------- stream B: the readers on raw text / attribute values ----------------
            const RP: [&str; 34] = ["&", "&", ";", "#", "#x", "lt", "gt", "amp", "apos", "quot", "&lt;", "&gt;", "&amp;", "&apos;", "&quot;", "&#32;", "&#x20;", "&#10;", "&#13;", "&#9;", "&#x1F600;", "&#0;", "&#1;", "&#xD800;", "&#x110000;", "&#65534;",
                "a", "1", " ", "\n", "\r", "\t", "\u{e9}", "\u{1}"];
            const RP2: [&str; 8] = ["&#4294967296;", "&#+32;", "&#x;", "&#;", "&#xZ;", "&#00065;", "&#X41;", "&&"];
            let mut raw = String::new();
            if r.chance(1, 8) { for _ in 0..r.range(1, 4) { raw.push_str(r.ps(&[" ", "\n", "\t", "\r"])); } }     // whitespace-only
            else { for _ in 0..r.below(7) { raw.push_str(if r.chance(1, 8) { r.ps(&RP2) } else { r.ps(&RP) }); } }
            let tdoc = format!("<?xml version=\"1.0\" encoding=\"UTF-8\"?><rdf:RDF xmlns:rdf=\"{RDF}\"><rdf:Description rdf:about=\"http://e/s\"><p xmlns=\"http://e/\">{raw}</p></rdf:Description></rdf:RDF>");
            let adoc = format!("<?xml version=\"1.0\" encoding=\"UTF-8\"?><rdf:RDF xmlns:rdf=\"{RDF}\" xmlns:e=\"http://e/\"><rdf:Description rdf:about=\"http://e/s\" e:p=\"{raw}\"/></rdf:RDF>");
            let one = |r: Result<Vec<T3>, String>| -> Option<String> { r.ok().and_then(|g| if g.len() == 1 { lex_of(&g[0][2]) } else { None }) };
            let (t_rio, t_ref) = (one(rio_read(&tdoc)), one(ref_read(&tdoc)));
            let (a_rio, a_ref) = (one(rio_read(&adoc)), one(ref_read(&adoc)));
            if verbose { println!("CASE {idx} (readers): raw={raw:?}\n text: rio={t_rio:?} ref={t_ref:?}\n attr: rio={a_rio:?} ref={a_ref:?}"); }
            // oracle for the readers: where both succeed on CR-free, Char-only, non-whitespace-only input they agree
            if let (Some(x), Some(y)) = (&t_rio, &t_ref) { if x != y && !raw.contains('\r') && !raw.chars().all(is_xml_ws) { sum.oracle_failures.push((idx.to_string(), format!("RDF/XML reader disagreement: element text {raw:?} is read as {x:?} by RdfXmlParser and as {y:?} by the reference XML reader"))); } }
            if !raw.is_empty() && raw.chars().all(is_xml_ws) && t_rio.as_deref() != Some("") { sum.oracle_failures.push((idx.to_string(), format!("RDF/XML reader: whitespace-only element text {raw:?} read as {t_rio:?} (expected the known behaviour \"\")"))); }
            if seen.insert(format!("B{raw}")) && (raw.contains('&') || raw.chars().any(is_xml_ws)) { sum.distinct_nontrivial += 1; }
            sum.bump("stream:readers"); sum.bump(if t_rio.is_some() { "readers:text-accepted" } else { "readers:text-rejected" });
            if sum.samples.len() < 2 { sum.samples.push(format!("case {idx}: raw text {raw:?} => RdfXmlParser {t_rio:?}, reference reader {t_ref:?}")); }
            cases.push((idx, format!("text_ok {r} {} && xtext_ok {r} {} && attr_ok {r} {} && xattr_ok {r} {}", c_optstr(&t_rio), c_optstr(&t_ref), c_optstr(&a_rio), c_optstr(&a_ref), r = coq_str(&raw))));
            continue;
        }
        // ---------------- stream A: graphs ----------------
        let flavour = match &directed { Some((f, _)) => *f, None => match r.below(30) { 0..=10 => Flavour::Clean, 11 => Flavour::WsOnly, 12 => Flavour::BnodeDigit, 13 => Flavour::ReservedPred, 14 => Flavour::NoSplitPred, 15 => Flavour::IllegalChar, 16 => Flavour::Cr, 17 => Flavour::BadLang, 18 => Flavour::Generalised, 19 => Flavour::Quoted, 20..=22 => Flavour::IriShapes, 23 | 24 => Flavour::Relative, 25 | 26 => Flavour::NsPred, _ => Flavour::Combo } };
        let shapes = matches!(flavour, Flavour::IriShapes | Flavour::Relative);
        let base_iri: &str = BASES[idx % BASES.len()];
        let mut rejected = 0u64;
        let n = if directed.is_some() { 0 } else if r.chance(1, 25) { 0 } else { r.range(1, 5) };
        let mut g: Vec<T3> = match &directed { Some((_, g)) => g.clone(), None => vec![] };
        let mut prev_s: Option<ST> = None;
        for _ in 0..n {
            // the flavours IriShapes / Relative draw two thirds of the IRIs of every position from the shape generator
            let s = match &prev_s { Some(p) if r.chance(1, 2) => p.clone(), _ => if shapes && r.chance(2, 3) { iri(&gen_shape(&mut r, false, &mut rejected)) } else { gen_node(&mut r) } };
            prev_s = Some(s.clone());
            let p = if shapes && r.chance(2, 3) { let x = gen_shape(&mut r, false, &mut rejected); iri(&if r.chance(7, 8) { predify(&x) } else { x }) } else { iri(&gen_pred(&mut r)) };
            let o = if shapes && r.chance(2, 3) { if r.chance(1, 2) { iri(&gen_shape(&mut r, false, &mut rejected)) } else { let t = gen_text(&mut r); lit_dt(&t, &gen_shape(&mut r, false, &mut rejected)) } } else { gen_obj(&mut r) };
            g.push([s, p, o]);
        }
        if directed.is_none() && r.chance(1, 12) && !g.is_empty() { let d = g[r.below(g.len())].clone(); g.push(d); } // duplicate triple
        // inject the flavour's single out-of-class ingredient
        let k = if g.is_empty() { 0 } else { r.below(g.len()) };
        let some_s = iri("http://e/s"); let some_p = iri("http://e/p");
        if g.is_empty() && flavour != Flavour::Clean { g.push([some_s.clone(), some_p.clone(), some_s.clone()]); }
        match flavour {
            Flavour::Clean | Flavour::IriShapes | Flavour::Matrix => {}
            // a predicate of a special namespace with any remainder (in class or not: the oracle decides)
            Flavour::NsPred => { for _ in 0..r.range(1, 2) { let k = r.below(g.len()); g[k][1] = iri(&gen_ns_pred(&mut r)); } }
            // two or three out-of-class ingredients at once, more often than not in ONE triple: whichever check the
            // serializer makes first must not switch the others off (none of them touches the recorded reader deviations)
            Flavour::Combo => { for _ in 0..r.range(2, 3) { let k = if r.chance(2, 3) { k } else { r.below(g.len()) };
                match r.below(9) {
                    0 | 1 => g[k][0] = bnode(r.ps(&ODD_BNODES)),
                    2 => g[k][2] = bnode(r.ps(&ODD_BNODES)),
                    3 | 4 => g[k][2] = gen_illegal_lit(&mut r),
                    5 => g[k][1] = iri(&gen_ns_pred(&mut r)),
                    6 => g[k][1] = iri(&format!("{RDF}{}", r.ps(&RESERVED))),
                    7 => g[k][1] = iri(r.ps(&NOSPLIT_PREDS)),
                    _ => { let q = triple(some_s.clone(), some_p.clone(), lit_dt("x", &format!("{XSD}string"))); let t: T3 = if r.chance(1, 2) { [var("v"), some_p.clone(), some_s.clone()] } else if r.chance(1, 2) { [q, some_p.clone(), some_s.clone()] } else { [some_s.clone(), some_p.clone(), q] }; let at = r.range(k, g.len()); g.insert(at, t); }
                } } }
            // relative references (generalized input) in one to three places: subject, object, datatype, predicate
            Flavour::Relative => if directed.is_none() { for _ in 0..r.range(1, 3) { let k = r.below(g.len()); let x = gen_shape(&mut r, true, &mut rejected);
                match r.below(7) { 0 | 1 => g[k][0] = iri(&x), 2 | 3 => g[k][2] = iri(&x), 4 | 5 => { let t = gen_text(&mut r); g[k][2] = lit_dt(&t, &x) } _ => g[k][1] = iri(&predify(&x)) } } }
            Flavour::WsOnly => { let mut w = String::new(); for _ in 0..r.range(1, 3) { w.push_str(r.ps(&WS)); } g[k][2] = if r.chance(1, 3) { lit_lang(&w, "en") } else if r.chance(1, 2) { lit_dt(&w, r.ps(&DATATYPES)) } else { lit_dt(&w, &format!("{XSD}string")) }; }
            Flavour::BnodeDigit => { let l = r.ps(&BAD_BNODES); let b = bnode(l); if r.chance(1, 2) { g[k][0] = b } else { g[k][2] = b }
                // the label a renaming scheme would choose for it (underscore prefix) is present as well: they must stay two nodes
                if r.chance(1, 2) { let twin = bnode(&format!("_{l}")); let t: T3 = if r.chance(1, 2) { [twin, some_p.clone(), lit_dt("twin", &format!("{XSD}string"))] } else { [some_s.clone(), iri("http://e/q"), twin] }; g.push(t); } }
            Flavour::ReservedPred => { g[k][1] = iri(&format!("{RDF}{}", r.ps(&RESERVED))); }
            Flavour::NoSplitPred => { g[k][1] = iri(r.ps(&NOSPLIT_PREDS)); }
            Flavour::IllegalChar => { g[k][2] = gen_illegal_lit(&mut r);
                // ... in a triple whose subject needs renaming, or next to one, half of the time
                if r.chance(1, 2) { let k2 = if r.chance(2, 3) { k } else { r.below(g.len()) }; g[k2][0] = bnode(r.ps(&ODD_BNODES)); } }
            Flavour::Cr => { let t = format!("a{}{}b", gen_text(&mut r), r.ps(&["\r", "\r\n", "\r\r", "\n\r"])); g[k][2] = if r.chance(1, 2) { lit_dt(&t, &format!("{XSD}string")) } else { lit_lang(&t, "en") }; }
            Flavour::BadLang => { g[k][2] = lit_lang("x y", r.ps(&BAD_LANGS)); }
            Flavour::Generalised => { let t: T3 = match r.below(4) { 0 => [lit_dt("1", &format!("{XSD}string")), some_p.clone(), some_s.clone()], 1 => [some_s.clone(), bnode("b"), some_s.clone()], 2 => [some_s.clone(), some_p.clone(), var("v")], _ => [var("v"), some_p.clone(), lit_lang("x", "en")] }; let at = r.below(g.len() + 1); g.insert(at, t); }
            Flavour::Quoted => { let q = triple(some_s.clone(), some_p.clone(), if r.chance(1, 4) { var("v") } else { lit_dt("x", &format!("{XSD}string")) }); let t: T3 = if r.chance(1, 2) { [q, some_p.clone(), some_s.clone()] } else { [some_s.clone(), some_p.clone(), q] }; let at = r.below(g.len() + 1); g.insert(at, t); }
        }
        let expected: Vec<T3> = g.iter().filter(|t| representable(t)).cloned().collect();
        // the class in which the property promises success without loss
        let quoted = g.iter().any(has_quoted);
        let text_legal = expected.iter().all(|t| lex_of(&t[2]).map_or(true, |l| l.chars().all(is_xml_char)));
        let preds_ok = expected.iter().all(|t| { let p = t[1].iri().unwrap(); let p = p.as_str(); !ncname_suffix(p).is_empty() && !RESERVED.iter().any(|l| p == format!("{RDF}{l}")) });
        let all_abs = iris_of(&expected).iter().all(|i| has_scheme(i));   // an RDF graph; relative references are generalized input
        let in_class = !quoted && text_legal && preds_ok && all_abs;
        let nb = needs_base(&expected);
        let what = if shapes { format!("flavour {flavour:?}{}, graph {g:?}", if directed.is_some() { " (directed: the catalogue of IRI shapes)" } else { "" }) } else { format!("flavour {flavour:?}, graph {g:?}") };
        let describe = |k: &str, detail: String| -> String {
            let head = match flavour {
                Flavour::WsOnly => "RDF/XML whitespace-only literal", Flavour::BnodeDigit => "RDF/XML blank node label that is not an NCName",
                Flavour::ReservedPred => "RDF/XML reserved rdf: name used as predicate", Flavour::NoSplitPred => "RDF/XML predicate without NCName local part",
                Flavour::IllegalChar => "RDF/XML character outside the XML Char production", Flavour::Cr => "RDF/XML carriage return in a literal",
                Flavour::BadLang => "RDF/XML language tag that is not well-formed BCP47", _ => "RDF/XML round trip",
            };
            format!("{head}: {k}: {detail}; {what}")
        };
        // run every indentation
        let mut fails: Vec<String> = vec![];
        let mut runs: Vec<(Ser, Option<Result<Vec<T3>, String>>, Option<Result<Vec<T3>, String>>)> = vec![];
        let mut base_runs: Vec<Option<Result<Vec<T3>, String>>> = vec![];   // the reader WITH a base, when some rdf:about / rdf:resource / rdf:datatype is a relative reference
        for ind in 0..=8usize {
            let s = serialize(&g, ind);
            let (pr, rr) = match &s { Ser::Doc(d) => (Some(rio_read(d)), Some(ref_read(d))), _ => (None, None) };
            base_runs.push(match &s { Ser::Doc(d) if nb => Some(rio_read_base(d, base_iri)), _ => None });
            runs.push((s, pr, rr));
        }
        for (ind, (s, pr, rr)) in runs.iter().enumerate() {
            match s {
                Ser::Panic => fails.push(describe("panic", format!("serialize_triples panicked (indentation {ind})"))),
                Ser::Err(e) => { if in_class { fails.push(describe("serialisation failed inside the guaranteed class", format!("indentation {ind}: {e}"))); } }
                Ser::Doc(d) => {
                    if let Some(l) = lexical_findings(d) { fails.push(describe("the bytes written are not well-formed XML with qualified names", format!("indentation {ind}: {l}; document {d:?}"))); }
                    match rr.as_ref().unwrap() {
                        Err(e) => fails.push(describe("the document is not a well-formed namespace-conformant RDF/XML document", format!("indentation {ind}: reference reader: {e}; document {d:?}"))),
                        Ok(back) => if !iso(&expected, back) { fails.push(describe("the document does not denote the graph (reference XML reader)", format!("indentation {ind}: read {back:?}, expected {expected:?}; document {d:?}"))); }
                    }
                    match pr.as_ref().unwrap() {
                        Err(e) => if !nb { fails.push(describe("RdfXmlParser rejects the serialiser's output", format!("indentation {ind}: {e}; document {d:?}"))) },
                        Ok(back) => if !iso(&expected, back) { fails.push(describe("RdfXmlParser reads back a different graph", format!("indentation {ind}: read {back:?}, expected {expected:?}; document {d:?}"))); }
                    }
                    // a document with relative references must read back under a base: resolved per RFC 3986 5.2, IRIs untouched
                    if let Some(pb) = &base_runs[ind] { let want = expected_under(base_iri, &expected);
                        match pb { Err(e) => fails.push(describe("RdfXmlParser with a base rejects the serialiser's output", format!("indentation {ind}, base <{base_iri}>: {e}; document {d:?}"))),
                            Ok(back) => if !iso(&want, back) { fails.push(describe("RdfXmlParser with a base reads back a different graph", format!("indentation {ind}, base <{base_iri}>: read {back:?}, expected {want:?}; document {d:?}"))); } }
                        if let Some(Some(b0)) = base_runs.first() { let same = match (b0, pb) { (Ok(x), Ok(y)) => exact(x, y), (Err(_), Err(_)) => true, _ => false };
                            if !same { fails.push(format!("RDF/XML indentation changes the parsed result (reader with base <{base_iri}>): indentation 0 gives {b0:?}, indentation {ind} gives {pb:?}; {what}")); } } }
                    // indentation must not change the outcome
                    if let (Ser::Doc(_), Some(p0)) = (&runs[0].0, &runs[0].1) {
                        let same = match (p0, pr.as_ref().unwrap()) { (Ok(x), Ok(y)) => x.len() == y.len() && x.iter().zip(y).all(|(u, v)| (0..3).all(|i| Term::eq(&u[i], &v[i]))), (Err(_), Err(_)) => true, _ => false };
                        if !same { fails.push(format!("RDF/XML indentation changes the parsed result: indentation 0 gives {p0:?}, indentation {ind} gives {:?}; {what}", pr.as_ref().unwrap())); }
                    } else { fails.push(format!("RDF/XML indentation changes the outcome: indentation 0 failed, indentation {ind} succeeded; {what}")); }
                }
            }
            if !matches!(s, Ser::Doc(_)) && matches!(runs[0].0, Ser::Doc(_)) { fails.push(format!("RDF/XML indentation changes the outcome: indentation 0 succeeded, indentation {ind} failed; {what}")); }
        }
        // ---------------- every other public way of driving the serializer and the parser ----------------
        let k1 = r.range(1, 8);   // the second indentation whose exact bytes go to Coq (drawn here, used below as well)
        let mut rp = r.fork(0xC18);
        let path_inds: Vec<usize> = { let k2 = rp.range(1, 8); let mut v = vec![0usize, k1]; if k2 != k1 { v.push(k2); } v };
        let mut cache: HashMap<String, Parses> = HashMap::new();
        for (s, pr, rr) in &runs { if let (Ser::Doc(d), Some(pr), Some(rr)) = (s, pr, rr) { cache.insert(d.clone(), (pr.clone(), rr.clone())); } }
        let aux = Aux::new(&g); let g2: Vec<T3> = g.iter().rev().cloned().collect(); let aux2 = Aux::new(&g2);
        let good: Vec<T3> = vec![[some_s.clone(), some_p.clone(), lit_dt("ok", &format!("{XSD}string"))], [bnode("7up"), some_p.clone(), some_s.clone()]]; let aux_good = Aux::new(&good);
        let gset = set_key(&g);
        let mut path_fails: Vec<String> = vec![];
        let mut coq_alt: Vec<(usize, Vec<T3>, Ser)> = vec![];      // (indentation, fed, outcome) of stringifier runs whose order differs from g
        let mut coq_calls: Vec<(usize, Vec<Vec<T3>>, Option<String>)> = vec![];
        let mut coq_limited: Vec<(usize, usize, bool)> = vec![];
        let mut n_runs = 0u64;
        for t in g.iter().flat_map(|t| t.iter()) { for f in trusted_adapter_fails(t) { path_fails.push(format!("sophia_rio::model::Trusted adapter: {f}")); } }
        for &ind in &path_inds {
            let base = &runs[ind].0;
            let base_doc = match base { Ser::Doc(d) => Some(d.as_str()), _ => None };
            let mut all: Vec<Run> = vec![]; let mut notes: Vec<String> = vec![];
            for (fi, (k, _)) in FEEDS.iter().enumerate() { if let Some(run) = via_stringifier(ind, idx + fi + ind, *k, &g, &aux, base_doc, &mut notes) { if !exact(&run.fed, &g) { coq_alt.push((ind, run.fed.clone(), match &run.out { Ser::Doc(d) => Ser::Doc(d.clone()), Ser::Err(e) => Ser::Err(e.clone()), Ser::Panic => Ser::Panic })); } all.push(run); } }
            for wk in 0..WRITERS.len() { for k in [0usize, 20, FEEDS[rp.below(FEEDS.len())].0] { if let Some(run) = via_writer(wk, ind, rp.below(10), k, &g, &aux, base_doc, &mut notes) { all.push(run); } } }
            // several calls on one serializer
            let pickk = |rp: &mut Rng| -> usize { loop { let k = FEEDS[rp.below(FEEDS.len())].0; if k != 14 { return k; } } };
            let calls = [(pickk(&mut rp), &g, &aux), (pickk(&mut rp), &g2, &aux2), (pickk(&mut rp), &good, &aux_good), (pickk(&mut rp), &g, &aux)];
            match via_calls(ind, &calls) {
                None => notes.push(format!("several calls on one serializer panicked ({:?})", calls.iter().map(|c| feed_name(c.0)).collect::<Vec<_>>())),
                Some((segs, total)) => {
                    let all_ok = segs.iter().all(|s| matches!(s.1, Ser::Doc(_)));
                    if all_ok && total != segs.iter().map(|s| match &s.1 { Ser::Doc(d) => d.as_str(), _ => "" }).collect::<String>() { notes.push("the stringifier's content is not the concatenation of what the calls appended".into()); }
                    coq_calls.push((ind, segs.iter().map(|s| s.0.clone()).collect(), if all_ok { Some(total) } else { None }));
                    for (ci, (fed, out)) in segs.into_iter().enumerate() { all.push(Run { name: format!("call {} of 4 on one stringifier: {}", ci + 1, feed_name(calls[ci].0)), ind, fed, out }); }
                }
            }
            let fresh2 = serialize(&g2, ind);
            match (via_chain(ind, &g, &g2), base, &fresh2) {
                (Some(Ok(t)), Ser::Doc(d1), Ser::Doc(d2)) => if t != format!("{d1}{d2}{d1}") { notes.push(format!("ser.serialize_graph(g)?.serialize_triples(g2)?.serialize_graph(g)? wrote {t:?}, not the three documents {d1:?} {d2:?} {d1:?}")); },
                (Some(Err(_)), Ser::Err(_), _) | (Some(Err(_)), _, Ser::Err(_)) => {}
                (x, _, _) => notes.push(format!("ser.serialize_graph(g)?.serialize_triples(g2)?.serialize_graph(g)? gives {x:?} whereas single calls give {} and {}", show(base), show(&fresh2))),
            }
            // a writer with a byte limit
            let len = base_doc.map_or(40, |d| d.len()); let limit = rp.below(len + 3); let zero = rp.chance(1, 3);
            for k in [0usize, 20, 24] {
                match via_limited(ind, k, limit, zero, &g, &aux) {
                    None => if k != 24 || aux.fast.is_some() { notes.push(format!("{} panicked on a writer limited to {limit} bytes", feed_name(k))); },
                    Some((ok, bytes)) => {
                        if k != 24 { let want = base_doc.is_some() && limit >= len; if ok != want { notes.push(format!("{} on a writer that accepts {limit} bytes returned {}, the document has {} bytes ({})", feed_name(k), if ok { "Ok" } else { "an error" }, len, show(base))); }
                            if let Some(d) = base_doc { if !d.as_bytes().starts_with(&bytes) { notes.push(format!("{} on a writer that accepts {limit} bytes wrote {:?}, not a prefix of {d:?}", feed_name(k), String::from_utf8_lossy(&bytes))); } }
                            if k == 0 { coq_limited.push((ind, limit, ok)); } }
                        else if ok && base_doc.is_none() { notes.push(format!("{} on a limited writer returned Ok although {}", feed_name(k), show(base))); }
                    }
                }
            }
            // the oracle on every run
            let mut by_fed: HashMap<String, (String, Ser)> = HashMap::new();
            for run in all { n_runs += 1;
                let Run { name, fed, out, .. } = run;
                if exact(&fed, &g) { if !same_out(&out, base) { path_fails.push(format!("{name}, indentation {ind}, gives {} whereas serialize_triples(vec.triples()) on a stringifier gives {}", show(&out), show(base))); } continue; }
                for (_, detail) in judge(&out, &fed, true, base_iri, &mut cache) { path_fails.push(format!("{name}, indentation {ind}: {detail}; fed {fed:?}")); }
                if set_key(&fed) == gset && matches!(out, Ser::Doc(_)) != matches!(base, Ser::Doc(_)) { path_fails.push(format!("{name}, indentation {ind}, gives {} whereas serialize_triples(vec.triples()) gives {} for the same set of triples", show(&out), show(base))); }
                let key = format!("{fed:?}");
                match by_fed.get(&key) { Some((n0, o0)) => if !same_out(o0, &out) { path_fails.push(format!("{name}, indentation {ind}, gives {} whereas {n0} gives {} for the same sequence of triples {fed:?}", show(&out), show(o0))); }, None => { by_fed.insert(key, (name, out)); } }
            }
            for n in notes { path_fails.push(format!("indentation {ind}: {n}")); }
            // the parser, driven in every way, on the baseline document
            if let (Ser::Doc(d), Some(pr)) = (&runs[ind].0, &runs[ind].1) { for f in parser_paths(d, pr, idx + ind, nb) { path_fails.push(format!("parser entry points disagree on the document written with indentation {ind}: {f}; document {d:?}")); } }
        }
        // an indentation beyond 8
        let kbig = 9 + rp.below(56); let big = serialize(&g, kbig);
        match (&big, &runs[0].0, &runs[0].1, &runs[0].2) {
            (Ser::Doc(d), Ser::Doc(_), Some(p0), Some(r0)) => { let (pb, rb) = parses(&mut cache, d); let eq = |a: &Result<Vec<T3>, String>, b: &Result<Vec<T3>, String>| match (a, b) { (Ok(x), Ok(y)) => exact(x, y), (Err(_), Err(_)) => true, _ => false };
                if !eq(pb, p0) || !eq(rb, r0) { path_fails.push(format!("indentation {kbig} changes the parsed result: {pb:?} / {rb:?} instead of {p0:?} / {r0:?}; document {d:?}")); } }
            (Ser::Err(_), Ser::Err(_), _, _) => {}
            _ => path_fails.push(format!("indentation {kbig} changes the outcome: {} instead of {}", show(&big), show(&runs[0].0))),
        }
        sum.bump_by("paths:runs", n_runs);
        if let Some(f) = path_fails.first() { let extra = path_fails.len() - 1; sum.bump("oracle:failing-case-entry-points");
            sum.oracle_failures.push((idx.to_string(), if extra > 0 { format!("RDF/XML entry points: {f} (+{extra} more findings of this case over entry points and indentations); {what}") } else { format!("RDF/XML entry points: {f}; {what}") })); }
        if verbose { for f in &path_fails { println!(" ORACLE (entry points): {f}"); } }
        if let Some(f) = fails.first() { let extra = fails.len() - 1; sum.oracle_failures.push((idx.to_string(), if extra > 0 { format!("{f} (+{extra} more findings of this case over indentations 0..8)") } else { f.clone() })); }
        // distribution
        sum.bump(&format!("flavour:{flavour:?}"));
        sum.bump(match &runs[0].0 { Ser::Doc(_) => "serialise:ok", Ser::Err(_) => "serialise:error", Ser::Panic => "serialise:panic" });
        if let Some(Ok(_)) = &runs[0].1 { sum.bump("rio-reparse:ok"); } else if let Some(Err(_)) = &runs[0].1 { sum.bump("rio-reparse:error"); }
        if !fails.is_empty() { sum.bump("oracle:failing-case"); }
        for t in &expected { match &t[2] { SimpleTerm::LiteralLanguage(..) => sum.bump("object:lang-literal"), SimpleTerm::LiteralDatatype(..) => sum.bump("object:literal"), SimpleTerm::BlankNode(_) => sum.bump("object:blank"), _ => sum.bump("object:iri") } if matches!(t[0], SimpleTerm::BlankNode(_)) { sum.bump("subject:blank"); } }
        let nontrivial = !expected.is_empty() && expected.iter().any(|t| lex_of(&t[2]).map_or(false, |l| l.contains(['<', '>', '&', '"', '\'', '\r']) || l.starts_with(is_xml_ws) || l.ends_with(is_xml_ws))
            || { let p = t[1].iri().unwrap(); let p = p.as_str().to_string(); let loc = ncname_suffix(&p); loc.is_empty() || !loc.is_ascii() || !matches!(p[..p.len() - loc.len()].chars().last(), Some('/' | '#')) });
        if seen.insert(format!("A{g:?}")) && nontrivial { sum.distinct_nontrivial += 1; }
        if sum.samples.len() < 6 && nontrivial && matches!(flavour, Flavour::Clean | Flavour::WsOnly) { if let Ser::Doc(d) = &runs[2].0 { sum.samples.push(format!("case {idx}: {what} => indentation 2: {d:?}")); } }
        if verbose { println!("CASE {idx}: {what}\n in_class={in_class} expected={expected:?}"); for (ind, (s, pr, rr)) in runs.iter().enumerate() { match s { Ser::Doc(d) => println!(" [{ind}] doc={d:?}\n      rio={pr:?}\n      ref={rr:?}"), Ser::Err(e) => println!(" [{ind}] error {e}"), Ser::Panic => println!(" [{ind}] PANIC") } } for f in &fails { println!(" ORACLE: {f}"); } }
        // Coq: the exact document for one indentation (0 on even cases, a random 1..8 on odd ones),
        // the outcome and both parses for both
        let rio_modelled = flavour != Flavour::BadLang; // oxilangtag's validation is not modelled
        let node_out = |x: &ST| -> ST { match x { SimpleTerm::BlankNode(b) if guard && b.as_str().starts_with(|c: char| c.is_ascii_digit() || c == '_') => bnode(&format!("_{}", b.as_str())), _ => x.clone() } };
        let lower_tag = |t: &T3| -> T3 { let mut t = [node_out(&t[0]), t[1].clone(), node_out(&t[2])]; if let SimpleTerm::LiteralLanguage(l, tag) = &t[2] { t[2] = lit_lang(l, &tag.as_str().to_ascii_lowercase()); } t };
        let std_parse: Vec<String> = expected.iter().map(|t| c_t3(&lower_tag(t))).collect();
        let c_obs_parse = |strict: bool, ind: usize, pr: &Result<Vec<T3>, String>| -> String {
            match pr { Ok(b) if b.iter().map(c_t3).collect::<Vec<_>>() == std_parse => format!("parse_std {cg} {} {ind} g", coq_bool(strict)), _ => format!("parse_ok {cg} {} {ind} g {}", coq_bool(strict), c_parse(pr)) }
        };
        let mut parts = vec![];
        for ind in [0usize, k1] {
            let (s, pr, rr) = &runs[ind];
            let with_doc = (ind == 0) == (idx % 2 == 0);
            let obs = c_obs(s, with_doc);
            parts.push(format!("out_ok {cg} {ind} g {obs}"));   // = ser_ok && refuse_ok && wf_ok (C18/Refuse.v)
            if let (Some(pr), Some(rr)) = (pr, rr) {
                // IriShapes / Relative: the reader without a base also demands an IRI (RFC 3987 grammar, in Coq) wherever it resolves
                if shapes { parts.push(match pr { Ok(b) if b.iter().map(c_t3).collect::<Vec<_>>() == std_parse => format!("nobase_std {cg} {ind} g"), _ => format!("nobase_ok {cg} {ind} g {}", c_parse(pr)) }); }
                else if rio_modelled { parts.push(c_obs_parse(false, ind, pr)); }
                parts.push(c_obs_parse(true, ind, rr));
                if let Some(pb) = &base_runs[ind] { parts.push(format!("base_ok {cg} {ind} {} g {}", coq_str(base_iri), c_parse(pb))); }
            }
            // the other entry points: every distinct sequence of triples that was fed, against the model on THAT sequence;
            // when it lists the same set as g (set containers, views), the model also checks that it is such a listing
            let mut seen_fed: HashSet<String> = HashSet::new(); let mut docs = 0;
            for (i2, fed, out) in &coq_alt { if *i2 != ind || !seen_fed.insert(format!("{fed:?}")) { continue; }
                let wd = with_doc && docs < 3; if wd { docs += 1; }
                let nodup = set_key(fed).len() == fed.len();
                if set_key(fed) == gset && nodup { parts.push(format!("path_ok CSet {cg} {ind} g {} {}", c_graph(fed), c_obs(out, wd))); } else { parts.push(format!("out_ok {cg} {ind} {} {}", c_graph(fed), c_obs(out, wd))); } }
            if with_doc { for (i2, feds, total) in &coq_calls { if *i2 == ind { parts.push(format!("calls_ok {cg} {ind} {} {}", coq_list(feds.iter().map(|f| c_graph(f))), c_optstr(total))); } } }
            for (i2, limit, ok) in &coq_limited { if *i2 == ind { parts.push(format!("limited_ok {cg} {ind} g {limit} {}", coq_bool(*ok))); } }
        }
        if idx % 4 == 0 { parts.push(format!("out_ok {cg} {kbig} g {}", c_obs(&big, true))); }
        if shapes {
            // every IRI of the case against the RFC 3987 grammar: absolute or not, as the harness built it; the harness's
            // RFC 3986 resolution of every relative reference against the specification of 5.2 in Coq
            let all: BTreeSet<String> = iris_of(&g).into_iter().collect();
            parts.push(format!("iris_ok {}", coq_list(all.iter().map(|i| format!("({}, {})", coq_str(i), coq_bool(has_scheme(i)))))));
            let rel: Vec<&String> = all.iter().filter(|i| !has_scheme(i)).collect();
            if !rel.is_empty() { parts.push(format!("resolved_ok {} {}", coq_str(base_iri), coq_list(rel.iter().map(|i| format!("({}, {})", coq_str(i), coq_str(&rfc_resolve(base_iri, i))))))); }
            for i in &all { for t in shape_tags(i) { sum.bump(&format!("iri-shape:{t}")); } if sophia_iri::Iri::new(i.as_str()).is_ok() != has_scheme(i) { sum.bump("iri-shape:sophia_iri::Iri::new disagrees with the RFC 3986 scheme rule"); } }
            sum.bump_by("iri-shape:generated but refused by sophia_iri::IriRef::new (not used)", rejected);
            if nb { sum.bump("relative:needs-base"); }
        }
        cases.push((idx, format!("let g := {} in {}", c_graph(&g), parts.join(" && "))));
    }
    if a.only.is_none() {
        let header = "From Sophia.C18 Require Import Model Paths Iris Refuse.\n";
        let bad: Vec<&str> = ABS_SHAPES.iter().chain(REL_SHAPES.iter()).copied().filter(|x| sophia_iri::IriRef::new(*x).is_err()).collect();
        sum.extra.push(("catalogue_shapes_refused_by_IriRef_new".into(), format!("{bad:?}")));
        sum.shards = write_shards(&a.out, header, &cases, a.shards);
        sum.extra.push(("coq_cases".into(), cases.len().to_string()));
        std::fs::write(format!("{}/summary.json", a.out), sum.to_json()).unwrap();
    }
    println!("c18: {} cases, {} distinct non-trivial, {} oracle failures", sum.evaluations, sum.distinct_nontrivial, sum.oracle_failures.len());
}
