(* C01/Sets.v -- specification of the sorted-list model of BTreeSet<[I;k]> (membership,
   sortedness, range = filter), the lexicographic order of index tuples, and the term index. *)
From Coq Require Import Permutation.
From Sophia.C01 Require Import Model.

(* ---------- small list facts ---------- *)
Lemma filter_filter {A} (f g : A -> bool) l :
  filter f (filter g l) = filter (fun x => g x && f x) l.
Proof.
  induction l as [|x l IH]; simpl; auto.
  destruct (g x); simpl; [destruct (f x); simpl; congruence | auto].
Qed.
Lemma filter_all {A} (f : A -> bool) l : (forall x, In x l -> f x = true) -> filter f l = l.
Proof.
  induction l as [|x l IH]; simpl; intros H; auto.
  rewrite (H x) by auto. f_equal. apply IH. auto.
Qed.
Lemma filter_none {A} (f : A -> bool) l : (forall x, In x l -> f x = false) -> filter f l = [].
Proof.
  induction l as [|x l IH]; simpl; intros H; auto.
  rewrite (H x) by auto. apply IH. auto.
Qed.
Lemma filter_ext_in' {A} (f g : A -> bool) l : (forall x, In x l -> f x = g x) -> filter f l = filter g l.
Proof.
  induction l as [|x l IH]; simpl; intros H; auto.
  rewrite (H x) by auto. destruct (g x); [f_equal|]; apply IH; auto.
Qed.
Lemma filter_map_comm {A B} (f : A -> B) (p : B -> bool) l :
  filter p (map f l) = map f (filter (fun x => p (f x)) l).
Proof. induction l as [|x l IH]; simpl; auto. destruct (p (f x)); simpl; congruence. Qed.
Lemma Permutation_filter {A} (f : A -> bool) l l' :
  Permutation l l' -> Permutation (filter f l) (filter f l').
Proof.
  induction 1; simpl; auto.
  - destruct (f x); auto.
  - destruct (f x), (f y); auto. apply perm_swap.
  - eapply perm_trans; eauto.
Qed.
Lemma Permutation_flat_map' {A B} (f : A -> list B) l l' :
  Permutation l l' -> Permutation (flat_map f l) (flat_map f l').
Proof.
  induction 1; simpl; auto.
  - apply Permutation_app_head; auto.
  - rewrite !app_assoc. apply Permutation_app_tail. apply Permutation_app_comm.
  - eapply perm_trans; eauto.
Qed.

(* ================================================================================== *)
Section SortedSetSpec.
Variable A : Type.
Variable key : A -> list N.
Hypothesis key_inj : forall x y, key x = key y -> x = y.

Notation cmp := (cmp A key).
Notation leb := (leb A key).
Notation set_insert := (set_insert A key).
Notation set_remove := (set_remove A key).
Notation set_contains := (set_contains A key).
Notation set_range := (set_range A key).
Notation between := (between A key).

Lemma cmp_eq x y : cmp x y = Eq <-> x = y.
Proof. unfold Model.cmp. rewrite str_cmp_eq. split; [apply key_inj | congruence]. Qed.
Lemma cmp_refl x : cmp x x = Eq.
Proof. apply cmp_eq; reflexivity. Qed.
Lemma cmp_antisym x y : cmp y x = CompOpp (cmp x y).
Proof. apply str_cmp_antisym. Qed.
Lemma cmp_lt_trans x y z : cmp x y = Lt -> cmp y z = Lt -> cmp x z = Lt.
Proof. apply str_cmp_lt_trans. Qed.
Lemma cmp_gt_lt x y : cmp x y = Gt -> cmp y x = Lt.
Proof. intros H. rewrite cmp_antisym, H. reflexivity. Qed.
Lemma cmp_lt_irrefl x : cmp x x <> Lt.
Proof. rewrite cmp_refl. discriminate. Qed.

(* strictly sorted (hence duplicate-free): the shape of a BTreeSet's iteration order *)
Fixpoint ssorted (l : list A) : Prop :=
  match l with
  | [] => True
  | x :: l' => (forall y, In y l' -> cmp x y = Lt) /\ ssorted l'
  end.

Lemma ssorted_nodup l : ssorted l -> NoDup l.
Proof.
  induction l as [|x l IH]; simpl; intros H; constructor.
  - intros Hin. destruct H as [H _]. apply (cmp_lt_irrefl x). auto.
  - apply IH. tauto.
Qed.

Lemma ssorted_filter f l : ssorted l -> ssorted (filter f l).
Proof.
  induction l as [|x l IH]; simpl; auto. intros [H1 H2].
  destruct (f x); simpl; auto. split; auto.
  intros y Hy. apply filter_In in Hy. apply H1. tauto.
Qed.

(* ---- insert ---- *)
Lemma set_insert_in x l y : In y (fst (set_insert x l)) <-> y = x \/ In y l.
Proof.
  induction l as [|z l IH]; simpl.
  - intuition.
  - destruct (cmp x z) eqn:E.
    + apply cmp_eq in E. subst z. simpl. intuition.
    + simpl. intuition.
    + destruct (set_insert x l) as [r b] eqn:E2. simpl in *. rewrite IH. intuition.
Qed.

Lemma set_insert_sorted x l : ssorted l -> ssorted (fst (set_insert x l)).
Proof.
  induction l as [|z l IH]; simpl.
  - intros _. split; auto. intros y [].
  - intros [H1 H2]. destruct (cmp x z) eqn:E.
    + simpl. auto.
    + simpl. split; auto. intros y [<-|Hy]; auto. eapply cmp_lt_trans; eauto.
    + destruct (set_insert x l) as [r b] eqn:E2. simpl in *. split; auto.
      intros y Hy. pose proof (set_insert_in x l y) as Hi. rewrite E2 in Hi. simpl in Hi.
      apply Hi in Hy. destruct Hy as [->|Hy]; auto. apply cmp_gt_lt; auto.
Qed.

Lemma set_insert_false x l : snd (set_insert x l) = false -> fst (set_insert x l) = l /\ In x l.
Proof.
  induction l as [|z l IH]; simpl; try discriminate.
  destruct (cmp x z) eqn:E; simpl; try discriminate.
  - apply cmp_eq in E. subst. auto.
  - destruct (set_insert x l) as [r b]. simpl in *. intros Hb. destruct (IH Hb) as [-> ?]. auto.
Qed.

Lemma set_insert_true_perm x l : snd (set_insert x l) = true -> Permutation (fst (set_insert x l)) (x :: l).
Proof.
  induction l as [|z l IH]; simpl; auto.
  destruct (cmp x z) eqn:E; simpl; try discriminate; auto.
  destruct (set_insert x l) as [r b]. simpl in *. intros Hb.
  eapply perm_trans; [apply perm_skip, IH, Hb | apply perm_swap].
Qed.

Lemma set_insert_true_notin x l : ssorted l -> snd (set_insert x l) = true -> ~ In x l.
Proof.
  induction l as [|z l IH]; simpl; auto.
  intros [H1 H2]. destruct (cmp x z) eqn:E; simpl; try discriminate.
  - intros _ [->|Hin]; [rewrite cmp_refl in E; discriminate|].
    apply H1 in Hin. rewrite cmp_antisym, E in Hin. discriminate.
  - destruct (set_insert x l) as [r b]. simpl in *. intros Hb [->|Hin].
    + rewrite cmp_refl in E; discriminate.
    + exact (IH H2 Hb Hin).
Qed.

Lemma set_insert_flag x l : ssorted l -> (snd (set_insert x l) = true <-> ~ In x l).
Proof.
  intros Hs. split; [apply set_insert_true_notin; auto|].
  intros Hn. destruct (snd (set_insert x l)) eqn:E; auto.
  apply set_insert_false in E. tauto.
Qed.

(* ---- remove ---- *)
Lemma set_remove_false x l : snd (set_remove x l) = false -> fst (set_remove x l) = l.
Proof.
  induction l as [|z l IH]; simpl; auto.
  destruct (cmp x z) eqn:E; simpl; try discriminate; auto.
  destruct (set_remove x l) as [r b]. simpl in *. intros Hb. rewrite IH; auto.
Qed.

Lemma set_remove_true_perm x l : snd (set_remove x l) = true -> Permutation l (x :: fst (set_remove x l)).
Proof.
  induction l as [|z l IH]; simpl; try discriminate.
  destruct (cmp x z) eqn:E; simpl; try discriminate.
  - apply cmp_eq in E. subst. auto.
  - destruct (set_remove x l) as [r b]. simpl in *. intros Hb.
    eapply perm_trans; [apply perm_skip, IH, Hb | apply perm_swap].
Qed.

Lemma set_remove_false_notin x l : ssorted l -> snd (set_remove x l) = false -> ~ In x l.
Proof.
  induction l as [|z l IH]; simpl; auto.
  intros [H1 H2]. destruct (cmp x z) eqn:E; simpl; try discriminate.
  - intros _ [->|Hin]; [rewrite cmp_refl in E; discriminate|].
    apply H1 in Hin. rewrite cmp_antisym, E in Hin. discriminate.
  - destruct (set_remove x l) as [r b]. simpl in *. intros Hb [->|Hin].
    + rewrite cmp_refl in E; discriminate.
    + exact (IH H2 Hb Hin).
Qed.

Lemma set_remove_flag x l : ssorted l -> (snd (set_remove x l) = true <-> In x l).
Proof.
  intros Hs. split.
  - intros H. apply set_remove_true_perm in H. eapply Permutation_in; [apply Permutation_sym, H|]. left; auto.
  - intros Hin. destruct (snd (set_remove x l)) eqn:E; auto.
    exfalso. eapply set_remove_false_notin; eauto.
Qed.

Lemma set_remove_incl x l y : In y (fst (set_remove x l)) -> In y l.
Proof.
  induction l as [|z l IH]; simpl; auto.
  destruct (cmp x z) eqn:E; simpl; auto.
  destruct (set_remove x l) as [r b]. simpl in *. intuition.
Qed.

Lemma set_remove_sorted x l : ssorted l -> ssorted (fst (set_remove x l)).
Proof.
  induction l as [|z l IH]; simpl; auto.
  intros [H1 H2]. destruct (cmp x z) eqn:E; simpl; auto.
  destruct (set_remove x l) as [r b] eqn:E2. simpl in *. split; auto.
  intros y Hy. apply H1. pose proof (set_remove_incl x l y) as Hi. rewrite E2 in Hi. auto.
Qed.

Lemma set_remove_notin x l : ssorted l -> ~ In x (fst (set_remove x l)).
Proof.
  intros Hs Hin. destruct (snd (set_remove x l)) eqn:E.
  - pose proof (set_remove_true_perm x l E) as P.
    pose proof (ssorted_nodup l Hs) as Hn.
    eapply Permutation_NoDup in Hn; [|exact P]. inversion Hn; auto.
  - pose proof (set_remove_false x l E) as Hf. rewrite Hf in Hin.
    eapply set_remove_false_notin; eauto.
Qed.

(* ---- contains ---- *)
Lemma set_contains_spec x l : ssorted l -> (set_contains x l = true <-> In x l).
Proof.
  induction l as [|z l IH]; simpl.
  - intros _. split; [discriminate | tauto].
  - intros [H1 H2]. destruct (cmp x z) eqn:E.
    + apply cmp_eq in E. subst. tauto.
    + split; [discriminate|]. intros [->|Hin]; [rewrite cmp_refl in E; discriminate|].
      apply H1 in Hin. rewrite cmp_antisym, E in Hin. discriminate.
    + rewrite IH by auto. split; auto. intros [->|Hin]; auto. rewrite cmp_refl in E; discriminate.
Qed.

(* ---- range ---- *)
Lemma leb_lt_trans a b c : leb a b = true -> cmp b c = Lt -> leb a c = true.
Proof.
  unfold Model.leb. destruct (cmp a b) eqn:E; try discriminate; intros _ H.
  - apply cmp_eq in E. subst. rewrite H. auto.
  - rewrite (cmp_lt_trans _ _ _ E H). auto.
Qed.
Lemma nleb_lt_trans b c hi : leb b hi = false -> cmp b c = Lt -> leb c hi = false.
Proof.
  unfold Model.leb. destruct (cmp b hi) eqn:E; try discriminate; intros _ H.
  apply cmp_gt_lt in E. pose proof (cmp_lt_trans _ _ _ E H) as H2.
  rewrite cmp_antisym, H2. reflexivity.
Qed.

Lemma drop_below_filter lo l : ssorted l -> drop_below A key lo l = filter (leb lo) l.
Proof.
  induction l as [|y l IH]; simpl; auto. intros [H1 H2].
  destruct (leb lo y) eqn:E.
  - f_equal. symmetry. apply filter_all. intros z Hz. eapply leb_lt_trans; eauto.
  - auto.
Qed.
Lemma take_upto_filter hi l : ssorted l -> take_upto A key hi l = filter (fun x => leb x hi) l.
Proof.
  induction l as [|y l IH]; simpl; auto. intros [H1 H2].
  destruct (leb y hi) eqn:E.
  - f_equal. auto.
  - symmetry. apply filter_none. intros z Hz. eapply nleb_lt_trans; eauto.
Qed.

Theorem set_range_filter lo hi l : ssorted l -> set_range lo hi l = filter (between lo hi) l.
Proof.
  intros Hs. unfold Model.set_range. rewrite drop_below_filter by auto.
  rewrite take_upto_filter by (apply ssorted_filter; auto).
  rewrite filter_filter. reflexivity.
Qed.

(* ---- the same facts in the form used by the store proofs ---- *)
Lemma set_insert_eq x l l' b : ssorted l -> set_insert x l = (l', b) ->
  ssorted l' /\ (forall y, In y l' <-> y = x \/ In y l) /\ (b = true <-> ~ In x l)
  /\ (b = false -> l' = l) /\ (b = true -> Permutation l' (x :: l)).
Proof.
  intros Hs E.
  pose proof (set_insert_sorted x l Hs) as H1. pose proof (set_insert_in x l) as H2.
  pose proof (set_insert_flag x l Hs) as H3. pose proof (set_insert_false x l) as H4.
  pose proof (set_insert_true_perm x l) as H5. rewrite E in *. simpl in *.
  split; [exact H1|]. split; [exact H2|]. split; [exact H3|]. split; [|exact H5].
  intros Hb. apply H4 in Hb. tauto.
Qed.
Lemma set_remove_eq x l l' b : ssorted l -> set_remove x l = (l', b) ->
  ssorted l' /\ incl l' l /\ (b = true <-> In x l) /\ (b = false -> l' = l)
  /\ (b = true -> Permutation l (x :: l')) /\ ~ In x l'.
Proof.
  intros Hs E.
  pose proof (set_remove_sorted x l Hs) as H1. pose proof (set_remove_incl x l) as H2.
  pose proof (set_remove_flag x l Hs) as H3. pose proof (set_remove_false x l) as H4.
  pose proof (set_remove_true_perm x l) as H5. pose proof (set_remove_notin x l Hs) as H6.
  rewrite E in *. simpl in *.
  split; [exact H1|]. split; [intros y Hy; auto|]. split; [exact H3|]. split; [exact H4|].
  split; [exact H5 | exact H6].
Qed.

(* ---- a secondary index follows the primary one ---- *)
Section Secondary.
Variable perm : A -> A.
Hypothesis perm_inj : forall x y, perm x = perm y -> x = y.

Definition image_of (sec prim : list A) : Prop := ssorted sec /\ Permutation sec (map perm prim).

Lemma image_insert prim sec x :
  ssorted prim -> image_of sec prim -> snd (set_insert x prim) = true ->
  image_of (fst (set_insert (perm x) sec)) (fst (set_insert x prim)).
Proof.
  intros Hp [Hs HP] Hb. split; [apply set_insert_sorted; auto|].
  assert (Hn : ~ In (perm x) sec).
  { intros Hin. eapply Permutation_in in Hin; [|exact HP]. apply in_map_iff in Hin.
    destruct Hin as (y & Hy & Hin). apply perm_inj in Hy. subst.
    exact (set_insert_true_notin x prim Hp Hb Hin). }
  apply set_insert_flag in Hn; auto.
  eapply perm_trans; [apply set_insert_true_perm; auto|].
  eapply perm_trans; [apply perm_skip, HP|].
  change (perm x :: map perm prim) with (map perm (x :: prim)).
  apply Permutation_map, Permutation_sym, set_insert_true_perm; auto.
Qed.

Lemma image_remove prim sec x :
  ssorted prim -> image_of sec prim -> snd (set_remove x prim) = true ->
  image_of (fst (set_remove (perm x) sec)) (fst (set_remove x prim)).
Proof.
  intros Hp [Hs HP] Hb. split; [apply set_remove_sorted; auto|].
  pose proof (set_remove_true_perm x prim Hb) as P1.
  assert (Hin : In (perm x) sec).
  { eapply Permutation_in; [apply Permutation_sym, HP|]. apply in_map.
    eapply Permutation_in; [apply Permutation_sym, P1|]. left; auto. }
  apply set_remove_flag in Hin; auto.
  pose proof (set_remove_true_perm (perm x) sec Hin) as P2.
  apply Permutation_cons_inv with (a := perm x).
  eapply perm_trans; [apply Permutation_sym, P2|].
  eapply perm_trans; [exact HP|].
  change (perm x :: map perm (fst (set_remove x prim))) with (map perm (x :: fst (set_remove x prim))).
  apply Permutation_map; auto.
Qed.
Lemma image_insert_eq prim prim' sec x :
  ssorted prim -> image_of sec prim -> set_insert x prim = (prim', true) ->
  image_of (fst (set_insert (perm x) sec)) prim'.
Proof.
  intros Hp Hi E. pose proof (image_insert prim sec x Hp Hi) as H. rewrite E in H. simpl in H. auto.
Qed.
Lemma image_remove_eq prim prim' sec x :
  ssorted prim -> image_of sec prim -> set_remove x prim = (prim', true) ->
  image_of (fst (set_remove (perm x) sec)) prim'.
Proof.
  intros Hp Hi E. pose proof (image_remove prim sec x Hp Hi) as H. rewrite E in H. simpl in H. auto.
Qed.
End Secondary.

End SortedSetSpec.

Arguments ssorted {A} key l.
Arguments image_of {A} key perm sec prim.

(* ================================================================================== *)
(* lexicographic order on lists and on 3-/4-tuples of indices                           *)
(* ================================================================================== *)
Definition lleb (l m : list N) : bool := match str_cmp l m with Gt => false | _ => true end.

Lemma lleb_cons x l y m : lleb (x :: l) (y :: m) = (x <? y) || ((x =? y) && lleb l m).
Proof.
  unfold lleb. simpl. destruct (N.compare_spec x y) as [E|E|E].
  - subst. rewrite N.ltb_irrefl, N.eqb_refl. reflexivity.
  - apply N.ltb_lt in E. rewrite E. reflexivity.
  - assert (H1 : (x <? y) = false) by (apply N.ltb_ge; lia).
    assert (H2 : (x =? y) = false) by (apply N.eqb_neq; lia).
    rewrite H1, H2. reflexivity.
Qed.
Lemma lleb_nil : lleb [] [] = true.
Proof. reflexivity. Qed.

Lemma key3_inj x y : key3 x = key3 y -> x = y.
Proof. destruct x as [[a b] c], y as [[a' b'] c']. simpl. congruence. Qed.
Lemma key4_inj x y : key4 x = key4 y -> x = y.
Proof. destruct x as [[[a b] c] d], y as [[[a' b'] c'] d']. simpl. congruence. Qed.

Ltac cmpN x y :=
  let E := fresh "E" in
  destruct (N.compare_spec x y) as [E|E|E];
  [ subst; rewrite ?N.eqb_refl, ?N.ltb_irrefl
  | let H1 := fresh in let H2 := fresh in let H3 := fresh in let H4 := fresh in
    assert (H1 : (x <? y) = true) by (apply N.ltb_lt; lia);
    assert (H2 : (y <? x) = false) by (apply N.ltb_ge; lia);
    assert (H3 : (x =? y) = false) by (apply N.eqb_neq; lia);
    assert (H4 : (y =? x) = false) by (apply N.eqb_neq; lia);
    rewrite ?H1, ?H2, ?H3, ?H4
  | let H1 := fresh in let H2 := fresh in let H3 := fresh in let H4 := fresh in
    assert (H1 : (x <? y) = false) by (apply N.ltb_ge; lia);
    assert (H2 : (y <? x) = true) by (apply N.ltb_lt; lia);
    assert (H3 : (x =? y) = false) by (apply N.eqb_neq; lia);
    assert (H4 : (y =? x) = false) by (apply N.eqb_neq; lia);
    rewrite ?H1, ?H2, ?H3, ?H4 ];
  cbn [andb orb negb].

Lemma leb_lleb A (key : A -> list N) x y : leb A key x y = lleb (key x) (key y).
Proof. reflexivity. Qed.
Ltac unfold_btw :=
  unfold between; rewrite !leb_lleb; unfold key3, key4; rewrite ?lleb_cons, ?lleb_nil.

Lemma zero_ltb_or x : (0 <? x) || (0 =? x) = true.
Proof. destruct x; reflexivity. Qed.

(* 4-tuples: range [c.., ZERO..] ..= [c.., MAX..] selects exactly the rows with that prefix,
   PROVIDED the remaining components do not exceed MAX *)
Lemma btw4_3 max a0 b0 c0 a b c d : d <= max ->
  between t4 key4 (a0, b0, c0, 0) (a0, b0, c0, max) (a, b, c, d) = (a =? a0) && (b =? b0) && (c =? c0).
Proof.
  intros Hd. unfold_btw. cmpN a a0; auto. cmpN b b0; auto. cmpN c c0; auto.
  rewrite !andb_true_r. rewrite zero_ltb_or. simpl.
  destruct (N.ltb_spec d max); simpl; auto. apply N.eqb_eq. lia.
Qed.
Lemma btw4_2 max a0 b0 a b c d : c <= max -> d <= max ->
  between t4 key4 (a0, b0, 0, 0) (a0, b0, max, max) (a, b, c, d) = (a =? a0) && (b =? b0).
Proof.
  intros Hc Hd. unfold_btw. cmpN a a0; auto. cmpN b b0; auto.
  rewrite !andb_true_r.
  assert (H1 : (0 <? c) || (0 =? c) && ((0 <? d) || (0 =? d)) = true).
  { rewrite zero_ltb_or, andb_true_r. apply zero_ltb_or. }
  rewrite H1. simpl.
  destruct (N.ltb_spec c max); simpl; auto.
  assert (c = max) by lia. subst. rewrite N.eqb_refl. simpl.
  destruct (N.ltb_spec d max); simpl; auto. apply N.eqb_eq. lia.
Qed.
Lemma btw4_1 max a0 a b c d : b <= max -> c <= max -> d <= max ->
  between t4 key4 (a0, 0, 0, 0) (a0, max, max, max) (a, b, c, d) = (a =? a0).
Proof.
  intros Hb Hc Hd. unfold_btw. cmpN a a0; auto.
  rewrite !andb_true_r.
  assert (H1 : (0 <? b) || (0 =? b) && ((0 <? c) || (0 =? c) && ((0 <? d) || (0 =? d))) = true).
  { rewrite (zero_ltb_or d), andb_true_r, (zero_ltb_or c), andb_true_r. apply zero_ltb_or. }
  rewrite H1. simpl.
  destruct (N.ltb_spec b max); simpl; auto.
  assert (b = max) by lia. subst. rewrite N.eqb_refl. simpl.
  destruct (N.ltb_spec c max); simpl; auto.
  assert (c = max) by lia. subst. rewrite N.eqb_refl. simpl.
  destruct (N.ltb_spec d max); simpl; auto. apply N.eqb_eq. lia.
Qed.
(* the odd upper bound [g, MAX, MAX, ZERO] of GenericLightDataset: complete only because a
   subject index is never MAX *)
Lemma btw4_1odd max a0 a b c d : b < max ->
  between t4 key4 (a0, 0, 0, 0) (a0, max, max, 0) (a, b, c, d) = (a =? a0).
Proof.
  intros Hb. unfold_btw. cmpN a a0; auto.
  rewrite !andb_true_r.
  assert (H1 : (0 <? b) || (0 =? b) && ((0 <? c) || (0 =? c) && ((0 <? d) || (0 =? d))) = true).
  { rewrite (zero_ltb_or d), andb_true_r, (zero_ltb_or c), andb_true_r. apply zero_ltb_or. }
  rewrite H1. simpl.
  apply N.ltb_lt in Hb. rewrite Hb. reflexivity.
Qed.
Lemma btw3_2 max a0 b0 a b c : c <= max ->
  between t3 key3 (a0, b0, 0) (a0, b0, max) (a, b, c) = (a =? a0) && (b =? b0).
Proof.
  intros Hc. unfold_btw. cmpN a a0; auto. cmpN b b0; auto.
  rewrite !andb_true_r. rewrite zero_ltb_or. simpl.
  destruct (N.ltb_spec c max); simpl; auto. apply N.eqb_eq. lia.
Qed.
Lemma btw3_1 max a0 a b c : b <= max -> c <= max ->
  between t3 key3 (a0, 0, 0) (a0, max, max) (a, b, c) = (a =? a0).
Proof.
  intros Hb Hc. unfold_btw. cmpN a a0; auto.
  rewrite !andb_true_r.
  assert (H1 : (0 <? b) || (0 =? b) && ((0 <? c) || (0 =? c)) = true).
  { rewrite zero_ltb_or, andb_true_r. apply zero_ltb_or. }
  rewrite H1. simpl.
  destruct (N.ltb_spec b max); simpl; auto.
  assert (b = max) by lia. subst. rewrite N.eqb_refl. simpl.
  destruct (N.ltb_spec c max); simpl; auto. apply N.eqb_eq. lia.
Qed.

(* ================================================================================== *)
(* the term index                                                                        *)
(* ================================================================================== *)
(* t2i and i2t are mutually inverse on 0..n-1, and n <= MAX *)
Definition TInv (max : N) (ti : tindex) : Prop :=
  (forall t i, get_index ti t = Some i <-> (i < tlen ti /\ get_term ti i = t)) /\ tlen ti <= max.

Lemma tinv_empty max : TInv max ti_empty.
Proof.
  split; [|unfold tlen; simpl; lia].
  intros t i. unfold get_index, tlen. simpl. split; [discriminate | lia].
Qed.

Lemma assoc_cons_other t t0 i l : t0 <> t -> assoc t ((t0, i) :: l) = assoc t l.
Proof. intros H. simpl. destruct (N.eqb_spec t0 t); congruence. Qed.

Lemma get_term_app_lt l t i : i < N.of_nat (length l) -> nth (N.to_nat i) (l ++ [t]) 0 = nth (N.to_nat i) l 0.
Proof. intros H. apply app_nth1. lia. Qed.
Lemma get_term_app_eq l t : nth (N.to_nat (N.of_nat (length l))) (l ++ [t]) 0 = t.
Proof. rewrite Nat2N.id. rewrite app_nth2 by lia. rewrite Nat.sub_diag. reflexivity. Qed.

Lemma get_index_inj max ti t t' i : TInv max ti -> get_index ti t = Some i -> get_index ti t' = Some i -> t = t'.
Proof. intros [H _] H1 H2. apply H in H1, H2. destruct H1, H2. congruence. Qed.
Lemma get_term_inj max ti i j : TInv max ti -> i < tlen ti -> j < tlen ti -> get_term ti i = get_term ti j -> i = j.
Proof.
  intros [H _] Hi Hj E.
  assert (H1 : get_index ti (get_term ti i) = Some i) by (apply H; auto).
  assert (H2 : get_index ti (get_term ti i) = Some j) by (apply H; auto).
  congruence.
Qed.

Lemma memN_in t l : memN t l = true <-> In t l.
Proof.
  unfold memN. rewrite existsb_exists. split.
  - intros (x & Hx & E). apply N.eqb_eq in E. subst. auto.
  - intros H. exists t. split; auto. apply N.eqb_refl.
Qed.

Lemma tinv_mem max ti t : TInv max ti -> (memN t (i2t ti) = true <-> get_index ti t <> None).
Proof.
  intros [H _]. rewrite memN_in. split.
  - intros Hin. apply (In_nth _ _ 0) in Hin. destruct Hin as (k & Hk & E).
    assert (Hx : get_index ti t = Some (N.of_nat k)).
    { apply H. unfold tlen, get_term. rewrite Nat2N.id. split; [lia | auto]. }
    congruence.
  - destruct (get_index ti t) as [i|] eqn:E; [|congruence]. intros _.
    apply H in E. destruct E as [Hi <-]. unfold get_term. apply nth_In. unfold tlen in Hi. lia.
Qed.

(* ensure_index: what it does to the index, and that it is the specification's [intern] *)
Lemma ensure_index_spec max ti t ti' r :
  TInv max ti -> ensure_index max ti t = (ti', r) ->
  TInv max ti'
  /\ (forall i, i < tlen ti -> get_term ti' i = get_term ti i)
  /\ tlen ti <= tlen ti'
  /\ (forall t0 i0, get_index ti t0 = Some i0 -> get_index ti' t0 = Some i0)
  /\ match r with
     | Some i => get_index ti' t = Some i /\ intern (Some max) (i2t ti) t = Some (i2t ti')
     | None => ti' = ti /\ intern (Some max) (i2t ti) t = None
     end.
Proof.
  intros HI E. unfold ensure_index in E.
  pose proof (tinv_mem max ti t HI) as Hm.
  fold (get_index ti t) in E.
  destruct (get_index ti t) as [i|] eqn:Eg.
  - inversion E; subst. split; [exact HI|]. split; [auto|]. split; [lia|]. split; [auto|].
    split; [exact Eg|].
    unfold intern. assert (M : memN t (i2t ti') = true) by (apply Hm; congruence).
    rewrite M. reflexivity.
  - assert (Mf : memN t (i2t ti) = false).
    { destruct Hm as [Hm1 _]. destruct (memN t (i2t ti)); auto. exfalso. apply Hm1; auto. }
    destruct (max <=? tlen ti) eqn:Ec.
    + inversion E; subst. split; [exact HI|]. split; [auto|]. split; [lia|]. split; [auto|].
      split; [reflexivity|].
      unfold intern. rewrite Mf. fold (tlen ti'). rewrite Ec. reflexivity.
    + inversion E; subst; clear E. apply N.leb_gt in Ec. destruct HI as [HB HL].
      set (ti' := mkTI ((t, tlen ti) :: t2i ti) (i2t ti ++ [t])).
      assert (Hlen : tlen ti' = tlen ti + 1).
      { unfold tlen, ti'. simpl. rewrite app_length. simpl. lia. }
      assert (Hold : forall i, i < tlen ti -> get_term ti' i = get_term ti i).
      { intros i Hi. unfold get_term, ti'. simpl. apply get_term_app_lt. exact Hi. }
      assert (Hnew : get_term ti' (tlen ti) = t).
      { unfold get_term, tlen, ti'. simpl. apply get_term_app_eq. }
      assert (Hgi : forall t0, get_index ti' t0 = if N.eqb t t0 then Some (tlen ti) else get_index ti t0).
      { intros t0. reflexivity. }
      assert (Hi2t : i2t ti' = i2t ti ++ [t]) by reflexivity.
      clearbody ti'.
      split; [split|].
      * intros t0 i0. rewrite Hgi, Hlen. destruct (N.eqb_spec t t0) as [<-|Hne].
        -- split.
           ++ intros H; injection H as <-. split; [lia | exact Hnew].
           ++ intros [Hi Ht]. destruct (N.eq_dec i0 (tlen ti)) as [->|Hne]; auto.
              assert (Hi' : i0 < tlen ti) by lia. rewrite Hold in Ht by auto.
              assert (Hg : get_index ti t = Some i0) by (apply HB; auto). congruence.
        -- split.
           ++ intros H. apply HB in H. destruct H as [Hi Ht]. split; [lia|]. rewrite Hold; auto.
           ++ intros [Hi Ht]. destruct (N.eq_dec i0 (tlen ti)) as [->|Hne2].
              ** rewrite Hnew in Ht. congruence.
              ** assert (Hi' : i0 < tlen ti) by lia. rewrite Hold in Ht by auto. apply HB; auto.
      * rewrite Hlen. lia.
      * split; [exact Hold|]. split; [lia|]. split.
        -- intros t0 i0 H. rewrite Hgi. destruct (N.eqb_spec t t0) as [<-|Hne2]; [congruence|]. exact H.
        -- split.
           ++ rewrite Hgi, N.eqb_refl. reflexivity.
           ++ unfold intern. rewrite Mf. fold (tlen ti).
              assert (Hc : (max <=? tlen ti) = false) by (apply N.leb_gt; lia).
              rewrite Hc, Hi2t. reflexivity.
Qed.
