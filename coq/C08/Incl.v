(* C08/Incl.v -- whatever the back-ends' token rules accept, the toolkit's validators accept:
   language inclusions between the hand-transcribed token rules (Tokens.v) and the validator
   regular expressions RE-GENERATED from the source (gen/LabelSrc.v), decided by `ka`. *)
From RelationAlgebra Require Import lattice monoid kleene kat_tac lang.
From Coq Require Import NArith.
From Sophia.C08 Require Import Regex Tokens Eval Lang.
From Sophia.gen Require Import LabelSrc.

Section s.
  Context `{L : monoid.laws} `{Hl : BKA ≪ l} (n : ob X) (f : N -> X n n).
  Lemma label_ka : eval n f (abstract (Alt rio_bnode_label bnode_id_regex)) ≡ eval n f (abstract bnode_id_regex).
  Proof. vm_compute. ka. Qed.
  Lemma label_eq_ka : eval n f (abstract rio_bnode_label) ≡ eval n f (abstract bnode_id_regex).
  Proof. vm_compute. ka. Qed.
  Lemma label_w3c_ka : eval n f (abstract (Alt bnode_id_regex w3c_bnode_label)) ≡ eval n f (abstract w3c_bnode_label).
  Proof. vm_compute. ka. Qed.
  Lemma langtag_ka : eval n f (abstract (Alt rio_langtag lang_tag_regex)) ≡ eval n f (abstract lang_tag_regex).
  Proof. vm_compute. ka. Qed.
  Lemma varname_ka : eval n f (abstract sparql_varname) ≡ eval n f (abstract varname_regex).
  Proof. vm_compute. ka. Qed.
End s.

Lemma incl_of_alt (r s : rex cclass) :
  (forall w, matchb (Alt r s) w = matchb s w) -> forall w, matchb r w = true -> matchb s w = true.
Proof.
  intros H w Hr. rewrite <- H, matchb_alt, Hr. reflexivity.
Qed.

(* every blank node label Rio hands over is accepted by BnodeId's validator (indeed the two
   languages are equal) *)
Theorem rio_label_accepted : forall w, matchb rio_bnode_label w = true -> matchb bnode_id_regex w = true.
Proof.
  apply incl_of_alt. apply ka_to_matchb; [vm_compute; reflexivity | vm_compute; reflexivity | intro f; apply label_ka].
Qed.
Theorem rio_label_is_bnode_id : forall w, matchb rio_bnode_label w = matchb bnode_id_regex w.
Proof.
  apply ka_to_matchb; [vm_compute; reflexivity | vm_compute; reflexivity | intro f; apply label_eq_ka].
Qed.
(* the validator never accepts more than the W3C grammar *)
Theorem bnode_id_within_w3c : forall w, matchb bnode_id_regex w = true -> matchb w3c_bnode_label w = true.
Proof.
  apply incl_of_alt. apply ka_to_matchb; [vm_compute; reflexivity | vm_compute; reflexivity | intro f; apply label_w3c_ka].
Qed.
(* every language tag Rio hands over is accepted by LanguageTag's validator *)
Theorem rio_langtag_accepted : forall w, matchb rio_langtag w = true -> matchb lang_tag_regex w = true.
Proof.
  apply incl_of_alt. apply ka_to_matchb; [vm_compute; reflexivity | vm_compute; reflexivity | intro f; apply langtag_ka].
Qed.
(* VarName's validator is exactly SPARQL's VARNAME *)
Theorem varname_is_sparql : forall w, matchb sparql_varname w = matchb varname_regex w.
Proof.
  apply ka_to_matchb; [vm_compute; reflexivity | vm_compute; reflexivity | intro f; apply varname_ka].
Qed.

