//! Shared by c05.rs and c06.rs: dataset generator, recording hash function, driver of the real
//! sophia_c14n crate, and an INDEPENDENT transcription of W3C RDFC-1.0 (sections 4.4-4.8 and the
//! canonical N-Quads form) used as property oracle.
#![allow(dead_code)]
use sophia_api::dataset::{MutableDataset, SetDataset};
use sophia_api::prelude::*;
use sophia_api::quad::Spog;
use sophia_api::term::{SimpleTerm, TermKind};
use sophia_c14n::C14nError;
use sophia_c14n::hash::{HashFunction, Sha256, Sha384};
use sophia_c14n::rdfc10::{normalize_with, relabel_with};
use sophia_inmem::dataset::{FastDataset, LightDataset};
use std::cell::RefCell;
use std::collections::{BTreeMap, BTreeSet, HashSet};
use verif_harness::*;

pub type Q = Spog<ST>;

// ---------------------------------------------------------------- recording hash function
thread_local! {
    /// every (concatenated input, digest) pair seen since the last `take_table`
    static TABLE: RefCell<BTreeMap<Vec<u8>, Vec<u8>>> = RefCell::new(BTreeMap::new());
}
pub struct Rec<I: HashFunction> {
    inner: I,
    buf: Vec<u8>,
}
impl<I: HashFunction> HashFunction for Rec<I> {
    type Output = I::Output;
    fn initialize() -> Self {
        Rec { inner: I::initialize(), buf: vec![] }
    }
    fn update(&mut self, data: impl AsRef<[u8]>) {
        self.buf.extend_from_slice(data.as_ref());
        self.inner.update(data);
    }
    fn finalize(self) -> Self::Output {
        let out = self.inner.finalize();
        TABLE.with(|t| t.borrow_mut().insert(self.buf, out.as_ref().to_vec()));
        out
    }
}
pub fn take_table() -> BTreeMap<Vec<u8>, Vec<u8>> {
    TABLE.with(|t| std::mem::take(&mut *t.borrow_mut()))
}
pub fn hex(b: &[u8]) -> String {
    b.iter().map(|x| format!("{x:02x}")).collect()
}
/// the table as a Coq association list (input code points, hexadecimal digest code points)
pub fn coq_table(t: &BTreeMap<Vec<u8>, Vec<u8>>) -> String {
    coq_list(t.iter().map(|(k, v)| format!("({}, {})", coq_str(std::str::from_utf8(k).expect("hash input is a string")), coq_str(&hex(v)))))
}

// ---------------------------------------------------------------- terms
pub fn to_st<T: Term>(t: T) -> ST {
    match t.kind() {
        TermKind::Iri => iri(t.iri().unwrap().as_str()),
        TermKind::BlankNode => bnode(t.bnode_id().unwrap().as_str()),
        TermKind::Literal => match t.language_tag() {
            Some(tag) => lit_lang(&t.lexical_form().unwrap(), tag.as_str()),
            None => lit_dt(&t.lexical_form().unwrap(), t.datatype().unwrap().as_str()),
        },
        TermKind::Variable => var(t.variable().unwrap().as_str()),
        TermKind::Triple => {
            let [s, p, o] = t.triple().unwrap();
            triple(to_st(s), to_st(p), to_st(o))
        }
    }
}
pub fn c_quad(q: &Q) -> String {
    format!("({}, {}, {}, {})", coq_term(&q.0[0]), coq_term(&q.0[1]), coq_term(&q.0[2]), coq_opt(q.1.as_ref().map(|g| coq_term(g))))
}
pub fn c_quads(d: &[Q]) -> String {
    coq_list(d.iter().map(c_quad))
}
pub fn show_t(t: &ST) -> String {
    match t {
        SimpleTerm::Iri(i) => format!("<{}>", i.as_str()),
        SimpleTerm::BlankNode(b) => format!("_:{}", b.as_str()),
        SimpleTerm::LiteralDatatype(l, dt) => format!("{:?}^^<{}>", &l[..], dt.as_str()),
        SimpleTerm::LiteralLanguage(l, tag) => format!("{:?}@{}", &l[..], tag.as_str()),
        SimpleTerm::Triple(tr) => format!("<< {} {} {} >>", show_t(&tr[0]), show_t(&tr[1]), show_t(&tr[2])),
        SimpleTerm::Variable(v) => format!("?{}", v.as_str()),
    }
}
pub fn show_q(q: &Q) -> String {
    format!("{} {} {} {}.", show_t(&q.0[0]), show_t(&q.0[1]), show_t(&q.0[2]), q.1.as_ref().map(|g| show_t(g) + " ").unwrap_or_default())
}
pub fn show_d(d: &[Q]) -> String {
    d.iter().map(show_q).collect::<Vec<_>>().join(" ")
}
pub fn blabel(t: &ST) -> Option<String> {
    match t {
        SimpleTerm::BlankNode(b) => Some(b.as_str().to_string()),
        _ => None,
    }
}
/// blank node labels of the components of a quad, in s, p, o, g order, with repetitions
pub fn q_blanks(q: &Q) -> Vec<String> {
    q.0.iter().chain(q.1.iter()).filter_map(blabel).collect()
}
pub fn d_blanks(d: &[Q]) -> BTreeSet<String> {
    d.iter().flat_map(q_blanks).collect()
}
pub fn rename_t(t: &ST, f: &dyn Fn(&str) -> String) -> ST {
    match t {
        SimpleTerm::BlankNode(b) => bnode(&f(b.as_str())),
        _ => t.clone(),
    }
}
pub fn rename_q(q: &Q, f: &dyn Fn(&str) -> String) -> Q {
    ([rename_t(&q.0[0], f), rename_t(&q.0[1], f), rename_t(&q.0[2], f)], q.1.as_ref().map(|g| rename_t(g, f)))
}
pub fn shuffle<T>(v: &mut Vec<T>, r: &mut Rng) {
    for i in (1..v.len()).rev() {
        let j = r.below(i + 1);
        v.swap(i, j);
    }
}
pub fn dedup(v: &[Q]) -> Vec<Q> {
    let mut out: Vec<Q> = vec![];
    for q in v {
        if !out.iter().any(|x| Quad::eq(x, (q.0.each_ref(), q.1.as_ref()))) {
            out.push(q.clone())
        }
    }
    out
}
pub fn is_supported(d: &[Q]) -> bool {
    d.iter().all(|q| !q.0[1].is_blank_node() && q.0.iter().chain(q.1.iter()).all(|t| !t.is_triple() && !t.is_variable()))
}

// ---------------------------------------------------------------- generator
const P: &str = "http://e/p";
const PQ: &str = "http://e/q";
fn b(i: usize) -> ST {
    bnode(&format!("e{i}"))
}
fn e(s: ST, p: &str, o: ST) -> Q {
    ([s, iri(p), o], None)
}
fn eg(s: ST, p: &str, o: ST, g: ST) -> Q {
    ([s, iri(p), o], Some(g))
}
/// literals exercising every escape-relevant character of canonical N-Quads
pub fn gen_literal(r: &mut Rng) -> ST {
    let specials: Vec<char> = vec!['"', '\\', '\n', '\r', '\t', '\u{8}', '\u{c}', '\u{7f}', '\u{0}', '\u{1}', '\u{b}', '\u{e}', '\u{1f}', ' ', '\u{80}', '\u{e9}', '\u{20ac}', '\u{1f600}', '\u{fffe}', 'u', '<', '>', '.', '@', '^', '_', ':', 'a'];
    let n = r.below(5);
    let mut s = String::new();
    for _ in 0..n {
        if r.chance(1, 12) {
            s.push(char::from_u32(r.below(0x20) as u32).unwrap());
        } else {
            s.push(*r.pick(&specials));
        }
    }
    match r.below(6) {
        0 | 1 => lit_dt(&s, &format!("{XSD}string")),
        2 => lit_lang(&s, r.ps(&["en", "EN", "fr-BE"])),
        3 => lit_dt(&s, &format!("{XSD}integer")),
        4 => lit_dt(&s, "http://e/dt"),
        _ => lit_dt(&s, &format!("{RDF}langString")),
    }
}
fn ground(r: &mut Rng) -> ST {
    match r.below(4) {
        0 => iri("http://e/a"),
        1 => iri("http://e/b"),
        2 => lit_dt("lit", &format!("{XSD}string")),
        _ => gen_literal(r),
    }
}
pub const SHAPES: [&str; 13] = ["cycle", "clique", "components", "star", "bipartite", "blank-graph", "twice-in-quad", "three-blank-quad", "row28-witness", "literals", "random", "unsupported", "path-tree"];
/// a dataset of one of the shapes; at most 6 blank nodes
pub fn gen_dataset(r: &mut Rng, shape: usize, big: bool) -> Vec<Q> {
    let mut v: Vec<Q> = vec![];
    match SHAPES[shape] {
        "cycle" => {
            let n = r.range(2, 6);
            for i in 0..n {
                v.push(e(b(i), P, b((i + 1) % n)));
            }
            if r.chance(1, 3) && n < 6 {
                v.push(e(b(r.below(n)), PQ, b(n)));
            }
            if r.chance(1, 4) {
                v.push(e(b(r.below(n)), PQ, ground(r)));
            }
        }
        "clique" => {
            let n = r.range(2, if big { 5 } else { 4 });
            let g = if r.chance(1, 3) { Some(bnode("g")) } else { None };
            for i in 0..n {
                for j in 0..n {
                    if i != j {
                        v.push(([b(i), iri(P), b(j)], g.clone()));
                    }
                }
            }
        }
        "components" => {
            let k = r.range(2, 3);
            let cyc = r.chance(1, 2);
            for c in 0..2 {
                for i in 0..k {
                    if cyc || i + 1 < k {
                        v.push(e(b(c * k + i), P, b(c * k + (i + 1) % k)));
                    }
                }
            }
            if r.chance(1, 3) {
                v.push(e(iri("http://e/a"), PQ, b(0)));
            }
        }
        "star" => {
            let k = r.range(2, if big { 5 } else { 4 });
            for i in 1..=k {
                if r.chance(1, 2) {
                    v.push(e(b(0), P, b(i)));
                } else {
                    v.push(e(b(i), P, b(0)));
                }
            }
            if r.chance(1, 3) {
                v.push(e(b(1), PQ, ground(r)));
            }
        }
        "bipartite" => {
            let (m, n) = (r.range(1, 3), r.range(1, 3));
            for i in 0..m {
                for j in 0..n {
                    v.push(e(b(i), P, b(m + j)));
                }
            }
        }
        "blank-graph" => {
            let n = r.range(1, 4);
            for i in 0..n {
                let g = bnode(&format!("g{}", r.below(2)));
                match r.below(3) {
                    0 => v.push(eg(b(i), P, b((i + 1) % n), g)),
                    1 => v.push(eg(iri("http://e/a"), P, b(i), g)),
                    _ => v.push(eg(b(i), P, ground(r), g)),
                }
            }
        }
        "twice-in-quad" => {
            // DESIGN.md section 4 row 27: one blank node in two positions of the same quad
            let n = r.range(1, 4);
            for _ in 0..r.range(1, 3) {
                let x = b(r.below(n));
                match r.below(4) {
                    0 => v.push(e(x.clone(), P, x)),
                    1 => v.push(eg(x.clone(), P, b(r.below(n)), x)),
                    2 => v.push(eg(b(r.below(n)), P, x.clone(), x)),
                    _ => v.push(eg(x.clone(), P, x.clone(), x)),
                }
            }
            for _ in 0..r.below(3) {
                v.push(e(b(r.below(n)), r.ps(&[P, PQ]), b(r.below(n + 1))));
            }
        }
        "three-blank-quad" => {
            let n = r.range(3, 5);
            for _ in 0..r.range(1, 3) {
                v.push(eg(b(r.below(n)), P, b(r.below(n)), b(r.below(n))));
            }
            for _ in 0..r.below(3) {
                v.push(e(b(r.below(n)), r.ps(&[P, PQ]), if r.chance(1, 2) { b(r.below(n)) } else { ground(r) }));
            }
        }
        "row28-witness" => {
            // DESIGN.md section 4 row 28, possibly decorated
            v.push(e(b(4), P, lit_dt("lit", &format!("{XSD}string"))));
            v.push(eg(b(4), P, b(6), b(3)));
            v.push(eg(b(5), P, b(3), b(6)));
            if r.chance(1, 3) {
                v.push(e(b(5), PQ, ground(r)));
            }
        }
        "literals" => {
            for _ in 0..r.range(1, 4) {
                let s = if r.chance(1, 2) { b(r.below(2)) } else { iri(r.ps(&["http://e/a", "http://e/a9", "http://e/b"])) };
                let o = if r.chance(1, 4) { b(r.below(2)) } else { gen_literal(r) };
                let g = match r.below(4) {
                    0 => Some(iri("http://e/g")),
                    1 => Some(b(r.below(2))),
                    _ => None,
                };
                v.push(([s, iri(r.ps(&[P, PQ])), o], g));
            }
        }
        "random" => {
            let n = r.range(1, 5);
            for _ in 0..r.range(1, 6) {
                let s = if r.chance(4, 5) { b(r.below(n)) } else { iri("http://e/a") };
                let o = if r.chance(3, 4) { b(r.below(n)) } else { ground(r) };
                let g = match r.below(6) {
                    0 => Some(iri("http://e/g")),
                    1 => Some(b(r.below(n))),
                    _ => None,
                };
                v.push(([s, iri(r.ps(&[P, PQ])), o], g));
            }
        }
        "unsupported" => {
            let n = r.range(1, 3);
            for _ in 0..r.range(1, 3) {
                v.push(e(b(r.below(n)), P, b(r.below(n))));
            }
            let bad: Q = match r.below(6) {
                0 => ([b(0), bnode("pred"), b(1)], None),
                1 => ([var("v"), iri(P), b(0)], None),
                2 => ([b(0), iri(P), triple(b(0), iri(P), b(1))], None),
                3 => ([b(0), iri(P), b(1)], Some(var("g"))),
                4 => ([triple(iri("http://e/a"), iri(P), b(1)), bnode("pred"), b(1)], None),
                _ => ([b(0), var("p"), b(1)], None),
            };
            let k = r.below(v.len() + 1);
            v.insert(k, bad);
        }
        _ => {
            // paths and small trees: asymmetric structures resolved by first-degree hashes or one recursion
            let n = r.range(2, 6);
            for i in 1..n {
                let parent = r.below(i);
                v.push(e(b(parent), r.ps(&[P, P, PQ]), b(i)));
            }
        }
    }
    dedup(&v)
}

// ---------------------------------------------------------------- running the real crate
#[derive(Clone, Debug)]
pub struct Outcome {
    /// 0 = Ok, 1 = unsupported: blank predicate, 2 = unsupported: variable / quoted triple,
    /// 3 = toxic: too many recursions, 4 = toxic: too many permutations, 5 = panic, 9 = other
    pub code: u64,
    pub bytes: String,
    pub idmap: Vec<(String, String)>,
    /// relabelled quads, in the order returned by relabel_with
    pub quads: Vec<Q>,
    pub msg: String,
}
fn quiet_catch<R>(f: impl FnOnce() -> R) -> Result<R, String> {
    let prev = std::panic::take_hook();
    std::panic::set_hook(Box::new(|_| {}));
    let r = std::panic::catch_unwind(std::panic::AssertUnwindSafe(f));
    std::panic::set_hook(prev);
    r.map_err(|e| e.downcast_ref::<String>().cloned().or_else(|| e.downcast_ref::<&str>().map(|s| s.to_string())).unwrap_or_else(|| "panic".into()))
}
fn classify<E: std::error::Error + Send + Sync + 'static>(e: &C14nError<E>) -> (u64, String) {
    match e {
        C14nError::Unsupported(m) if m.contains("blank node as predicate") => (1, m.clone()),
        C14nError::Unsupported(m) => (2, m.clone()),
        C14nError::ToxicGraph(m) if m.contains("too many recursions") => (3, m.clone()),
        C14nError::ToxicGraph(m) if m.contains("Too many permutations") => (4, m.clone()),
        other => (9, format!("{other}")),
    }
}
fn run_on<H: HashFunction, D: SetDataset>(d: &D, df: f32, pl: usize) -> (Vec<Q>, Outcome) {
    let order: Vec<Q> = d.quads().map(|q| { let q = q.unwrap(); ([to_st(q.s()), to_st(q.p()), to_st(q.o())], q.g().map(to_st)) }).collect();
    let res = quiet_catch(|| {
        let mut out = Vec::<u8>::new();
        let r1 = normalize_with::<H, D, _>(d, &mut out, df, pl).map_err(|e| classify(&e));
        let r2 = relabel_with::<H, D>(d, df, pl).map_err(|e| classify(&e)).map(|(qs, map)| {
            let qs: Vec<Q> = qs.iter().map(|q| ([to_st(&q.0[0]), to_st(&q.0[1]), to_st(&q.0[2])], q.1.as_ref().map(to_st))).collect();
            let map: Vec<(String, String)> = map.iter().map(|(k, v)| (k.to_string(), v.as_str().to_string())).collect();
            (qs, map)
        });
        (out, r1, r2)
    });
    let o = match res {
        Err(p) => Outcome { code: 5, bytes: String::new(), idmap: vec![], quads: vec![], msg: format!("panic: {p}") },
        Ok((out, Ok(()), Ok((qs, map)))) => Outcome { code: 0, bytes: String::from_utf8(out).expect("utf8 output"), idmap: map, quads: qs, msg: String::new() },
        Ok((_, Err((c1, m1)), Err((c2, _)))) if c1 == c2 => Outcome { code: c1, bytes: String::new(), idmap: vec![], quads: vec![], msg: m1 },
        Ok((_, r1, r2)) => Outcome { code: 9, bytes: String::new(), idmap: vec![], quads: vec![], msg: format!("normalize_with and relabel_with disagree: {:?} vs {:?}", r1.err(), r2.map(|_| ()).err()) },
    };
    (order, o)
}
pub const STORES: [&str; 4] = ["HashSet", "BTreeSet", "FastDataset", "LightDataset"];
/// canonicalise `quads` held in the store `store` with hash `sha384?`; returns the order in which
/// the store enumerates its quads (what the algorithm sees) and the outcome
pub fn run_impl(quads: &[Q], store: usize, sha384: bool, df: f32, pl: usize) -> (Vec<Q>, Outcome) {
    macro_rules! mk { ($ty:ty) => {{ let mut d = <$ty>::default(); for q in quads { MutableDataset::insert_quad(&mut d, q.clone()).unwrap(); } d }}; }
    macro_rules! go { ($d:expr) => { if sha384 { run_on::<Rec<Sha384>, _>(&$d, df, pl) } else { run_on::<Rec<Sha256>, _>(&$d, df, pl) } }; }
    match store {
        0 => go!(mk!(HashSet<Q>)),
        1 => go!(mk!(BTreeSet<Q>)),
        2 => go!(mk!(FastDataset)),
        _ => go!(mk!(LightDataset)),
    }
}

// ---------------------------------------------------------------- RDFC-1.0 from the W3C text
// Independent transcription of https://www.w3.org/TR/rdf-canon/ sections 4.4 (canonicalization
// algorithm), 4.5 (issue identifier), 4.6 (hash first degree quads), 4.7 (hash related blank
// node), 4.8 (hash n-degree quads) and of the canonical N-Quads form.  Plain strings, no sophia
// code except the hash function.  Orders the text leaves open: blank nodes are visited in label
// order, permutations in lexicographic order of positions, ties of step 5.3 keep list order.
#[derive(Clone)]
pub struct SIssuer {
    prefix: String,
    map: BTreeMap<String, String>,
    order: Vec<String>,
}
impl SIssuer {
    fn new(prefix: &str) -> Self {
        SIssuer { prefix: prefix.into(), map: BTreeMap::new(), order: vec![] }
    }
    /// 4.5 Issue Identifier
    fn issue(&mut self, existing: &str) -> String {
        if let Some(x) = self.map.get(existing) {
            return x.clone();
        }
        let id = format!("{}{}", self.prefix, self.order.len());
        self.map.insert(existing.to_string(), id.clone());
        self.order.push(existing.to_string());
        id
    }
}
pub struct SpecOut {
    pub bytes: String,
    pub idmap: BTreeMap<String, String>,
    pub max_depth: usize,
    pub max_list: usize,
    /// pairs of blank nodes whose hash-n-degree results were equal in step 5.3
    pub ties: Vec<(String, String)>,
}
fn spec_escape(s: &str) -> String {
    let mut o = String::new();
    for c in s.chars() {
        match c as u32 {
            0x08 => o.push_str("\\b"),
            0x09 => o.push_str("\\t"),
            0x0A => o.push_str("\\n"),
            0x0C => o.push_str("\\f"),
            0x0D => o.push_str("\\r"),
            0x22 => o.push_str("\\\""),
            0x5C => o.push_str("\\\\"),
            x @ (0x00..=0x07 | 0x0B | 0x0E..=0x1F | 0x7F) => o.push_str(&format!("\\u{:04X}", x)),
            _ => o.push(c),
        }
    }
    o
}
fn spec_term(t: &ST) -> String {
    match t {
        SimpleTerm::Iri(i) => format!("<{}>", i.as_str()),
        SimpleTerm::BlankNode(b) => format!("_:{}", b.as_str()),
        SimpleTerm::LiteralLanguage(l, tag) => format!("\"{}\"@{}", spec_escape(l), tag.as_str()),
        SimpleTerm::LiteralDatatype(l, dt) if dt.as_str() == "http://www.w3.org/2001/XMLSchema#string" => format!("\"{}\"", spec_escape(l)),
        SimpleTerm::LiteralDatatype(l, dt) => format!("\"{}\"^^<{}>", spec_escape(l), dt.as_str()),
        _ => unreachable!("unsupported terms are rejected first"),
    }
}
fn spec_line(q: &Q, blank: &dyn Fn(&str) -> String) -> String {
    let mut o = String::new();
    for t in q.0.iter().chain(q.1.iter()) {
        match blabel(t) {
            Some(l) => o.push_str(&blank(&l)),
            None => o.push_str(&spec_term(t)),
        }
        o.push(' ');
    }
    o.push_str(".\n");
    o
}
struct Spec<'a> {
    quads: &'a [Q],
    b2q: BTreeMap<String, Vec<usize>>,
    canonical: SIssuer,
    hash: &'a dyn Fn(&str) -> String,
    max_depth: usize,
    max_list: usize,
}
fn lex_perms(n: usize) -> Vec<Vec<usize>> {
    fn go(n: usize, cur: &mut Vec<usize>, out: &mut Vec<Vec<usize>>) {
        if cur.len() == n {
            out.push(cur.clone());
            return;
        }
        for i in 0..n {
            if !cur.contains(&i) {
                cur.push(i);
                go(n, cur, out);
                cur.pop();
            }
        }
    }
    let mut out = vec![];
    go(n, &mut vec![], &mut out);
    out
}
impl Spec<'_> {
    /// 4.6
    fn hash_first_degree(&self, reference: &str) -> String {
        let mut nquads: Vec<String> = self.b2q[reference].iter().map(|&i| spec_line(&self.quads[i], &|l| if l == reference { "_:a".into() } else { "_:z".into() })).collect();
        nquads.sort();
        (self.hash)(&nquads.concat())
    }
    /// 4.7
    fn hash_related(&self, related: &str, quad: &Q, issuer: &SIssuer, position: char) -> String {
        let mut input = String::new();
        input.push(position);
        if position != 'g' {
            input.push('<');
            input.push_str(match &quad.0[1] { SimpleTerm::Iri(i) => i.as_str(), _ => unreachable!() });
            input.push('>');
        }
        if let Some(c) = self.canonical.map.get(related) {
            input.push_str("_:");
            input.push_str(c);
        } else if let Some(t) = issuer.map.get(related) {
            input.push_str("_:");
            input.push_str(t);
        } else {
            input.push_str(&self.hash_first_degree(related));
        }
        (self.hash)(&input)
    }
    /// 4.8; the issuer is passed and replaced "by reference"
    fn hash_n_degree(&mut self, identifier: &str, issuer: &mut SIssuer, depth: usize) -> String {
        self.max_depth = self.max_depth.max(depth);
        let mut hn: BTreeMap<String, Vec<String>> = BTreeMap::new();
        for &qi in &self.b2q[identifier].clone() {
            let quad = &self.quads[qi];
            let comps = [(Some(&quad.0[0]), 's'), (Some(&quad.0[2]), 'o'), (quad.1.as_ref(), 'g')];
            for (c, pos) in comps {
                if let Some(l) = c.and_then(blabel) {
                    if l != identifier {
                        let h = self.hash_related(&l, quad, issuer, pos);
                        hn.entry(h).or_default().push(l);
                    }
                }
            }
        }
        let mut data_to_hash = String::new();
        for (related_hash, blank_node_list) in hn {
            data_to_hash.push_str(&related_hash);
            let mut chosen_path = String::new();
            let mut chosen_issuer: Option<SIssuer> = None;
            self.max_list = self.max_list.max(blank_node_list.len());
            'perm: for perm in lex_perms(blank_node_list.len()) {
                let p: Vec<&String> = perm.iter().map(|&i| &blank_node_list[i]).collect();
                let mut issuer_copy = issuer.clone();
                let mut path = String::new();
                let mut recursion_list: Vec<String> = vec![];
                for related in p {
                    if let Some(c) = self.canonical.map.get(related) {
                        path.push_str("_:");
                        path.push_str(c);
                    } else {
                        if !issuer_copy.map.contains_key(related) {
                            recursion_list.push(related.clone());
                        }
                        path.push_str("_:");
                        path.push_str(&issuer_copy.issue(related));
                    }
                    if !chosen_path.is_empty() && path.len() >= chosen_path.len() && path > chosen_path {
                        continue 'perm;
                    }
                }
                for related in recursion_list {
                    let result = self.hash_n_degree(&related, &mut issuer_copy, depth + 1);
                    path.push_str("_:");
                    path.push_str(&issuer_copy.issue(&related));
                    path.push('<');
                    path.push_str(&result);
                    path.push('>');
                    if !chosen_path.is_empty() && path.len() >= chosen_path.len() && path > chosen_path {
                        continue 'perm;
                    }
                }
                if chosen_path.is_empty() || path < chosen_path {
                    chosen_path = path;
                    chosen_issuer = Some(issuer_copy);
                }
            }
            data_to_hash.push_str(&chosen_path);
            *issuer = chosen_issuer.expect("a non-empty list has a permutation");
        }
        (self.hash)(&data_to_hash)
    }
}
/// 4.4; Err = input outside RDFC-1.0 (generalized RDF)
pub fn spec_rdfc10(quads: &[Q], hash: &dyn Fn(&str) -> String) -> Result<SpecOut, String> {
    for q in quads {
        if !matches!(q.0[1], SimpleTerm::Iri(_)) {
            return Err("predicate is not an IRI".into());
        }
        if q.0.iter().chain(q.1.iter()).any(|t| t.is_triple() || t.is_variable()) {
            return Err("quoted triple or variable".into());
        }
    }
    let mut sp = Spec { quads, b2q: BTreeMap::new(), canonical: SIssuer::new("c14n"), hash, max_depth: 0, max_list: 0 };
    // step 2: one reference per blank node of the quad
    for (i, q) in quads.iter().enumerate() {
        let bs: BTreeSet<String> = q_blanks(q).into_iter().collect();
        for l in bs {
            sp.b2q.entry(l).or_default().push(i);
        }
    }
    // step 3
    let mut h2b: BTreeMap<String, Vec<String>> = BTreeMap::new();
    for n in sp.b2q.keys() {
        h2b.entry(sp.hash_first_degree(n)).or_default().push(n.clone());
    }
    // step 4
    let mut rest: Vec<(String, Vec<String>)> = vec![];
    for (h, ids) in h2b {
        if ids.len() > 1 {
            rest.push((h, ids));
        } else {
            sp.canonical.issue(&ids[0]);
        }
    }
    // step 5
    let mut ties = vec![];
    for (_, ids) in rest {
        let mut hash_path_list: Vec<(String, SIssuer, String)> = vec![];
        for n in ids {
            if sp.canonical.map.contains_key(&n) {
                continue; // 5.2.1
            }
            let mut temporary = SIssuer::new("b");
            temporary.issue(&n);
            let h = sp.hash_n_degree(&n, &mut temporary, 0);
            hash_path_list.push((h, temporary, n));
        }
        hash_path_list.sort_by(|a, b| a.0.cmp(&b.0));
        for w in hash_path_list.windows(2) {
            if w[0].0 == w[1].0 {
                ties.push((w[0].2.clone(), w[1].2.clone()));
            }
        }
        for (_, issuer, _) in hash_path_list {
            for existing in issuer.order {
                sp.canonical.issue(&existing);
            }
        }
    }
    // serialisation: relabel, sort the lines in code point order
    let canon = sp.canonical.map.clone();
    let mut lines: Vec<String> = quads.iter().map(|q| spec_line(q, &|l| format!("_:{}", canon[l]))).collect();
    lines.sort();
    lines.dedup();
    Ok(SpecOut { bytes: lines.concat(), idmap: canon, max_depth: sp.max_depth, max_list: sp.max_list, ties })
}
pub fn hash_with<H: HashFunction>(s: &str) -> String {
    let mut h = H::initialize();
    h.update(s.as_bytes());
    hex(h.finalize().as_ref())
}
pub fn spec_run(quads: &[Q], sha384: bool) -> Result<SpecOut, String> {
    if sha384 { spec_rdfc10(quads, &hash_with::<Rec<Sha384>>) } else { spec_rdfc10(quads, &hash_with::<Rec<Sha256>>) }
}

/// is there an automorphism of the dataset (a permutation of its blank node labels mapping the
/// set of quads onto itself) sending x to y?  brute force; datasets have at most 6 blank nodes
pub fn automorphic(d: &[Q], x: &str, y: &str) -> bool {
    let labels: Vec<String> = d_blanks(d).into_iter().collect();
    let set: HashSet<String> = d.iter().map(show_q).collect();
    let xi = labels.iter().position(|l| l == x).unwrap();
    let yi = labels.iter().position(|l| l == y).unwrap();
    for perm in lex_perms(labels.len()) {
        if perm[xi] != yi {
            continue;
        }
        let f = |l: &str| labels[perm[labels.iter().position(|k| k == l).unwrap()]].clone();
        if d.iter().all(|q| set.contains(&show_q(&rename_q(q, &f)))) {
            return true;
        }
    }
    false
}
