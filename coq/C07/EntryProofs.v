(* C07/EntryProofs.v -- the entry points: error propagation of isomorphic_datasets (an error
   of d1 wins and is a SourceError, d2 is then not even read; otherwise the first error of d2
   is a SinkError; otherwise the answer of the pure algorithm), and isomorphic_graphs = the
   dataset entry point on default-graph statements, with the theorems of the dataset level
   transported to graphs. *)
From Sophia.C02 Require Import Model Proofs.
From Sophia.C07 Require Import Model Keys Isort Proofs LoopModel LoopProofs EntryModel.
From Coq Require Import Permutation.

(* ---------- specification-level view of a fallible enumeration ---------- *)
Fixpoint first_error {A E} (d : list (res A E)) : option E :=
  match d with [] => None | RErr e :: _ => Some e | ROk _ :: r => first_error r end.
Fixpoint oks {A E} (d : list (res A E)) : list A :=
  match d with [] => [] | RErr _ :: r => oks r | ROk a :: r => a :: oks r end.
Fixpoint before_error {A E} (d : list (res A E)) : nat :=
  match d with [] => O | RErr _ :: _ => O | ROk _ :: r => S (before_error r) end.

Lemma prepare_spec {A E} (d : list (res A E)) :
  prepare d = match first_error d with Some e => RErr e | None => ROk (oks d) end.
Proof.
  induction d as [|[a|e] r IH]; simpl; auto. rewrite IH. destruct (first_error r); reflexivity.
Qed.
Lemma pulls_spec {A E} (d : list (res A E)) :
  pulls d = match first_error d with Some _ => S (before_error d) | None => length d end.
Proof.
  induction d as [|[a|e] r IH]; simpl; auto. rewrite IH. destruct (first_error r); reflexivity.
Qed.

Lemma first_error_oks {A E} (l : list A) : first_error (map (@ROk A E) l) = None.
Proof. induction l; simpl; auto. Qed.
Lemma oks_oks {A E} (l : list A) : oks (map (@ROk A E) l) = l.
Proof. induction l; simpl; congruence. Qed.
Lemma first_error_app {A E} (l : list A) (e : E) r :
  first_error (map (@ROk A E) l ++ RErr e :: r) = Some e.
Proof. induction l; simpl; auto. Qed.
Lemma before_error_app {A E} (l : list A) (e : E) r :
  before_error (map (@ROk A E) l ++ RErr e :: r) = length l.
Proof. induction l; simpl; auto. Qed.

(* every enumeration is error-free or has a first error *)
Lemma res_split {A E} (d : list (res A E)) :
  (exists l, d = map (@ROk A E) l) \/ (exists l e r, d = map (@ROk A E) l ++ RErr e :: r).
Proof.
  induction d as [|[a|e] r IH].
  - left. exists []. reflexivity.
  - destruct IH as [[l ->]|[l [e [r' ->]]]].
    + left. exists (a :: l). reflexivity.
    + right. exists (a :: l), e, r'. reflexivity.
  - right. exists [], e, r. reflexivity.
Qed.

Section Entry.
Variable Hv : vquad -> N.
Variable teq : term -> term -> bool.
Variable tcmp : term -> term -> comparison.
Variable fuel : nat.
Context {E1 E2 : Type}.

(* complete characterisation, for all inputs *)
Theorem iso_datasets_res_spec (d1 : list (res quad E1)) (d2 : list (res quad E2)) :
  iso_datasets_res Hv teq tcmp fuel d1 d2 =
  match first_error d1 with
  | Some e => RErr (SourceError e)
  | None => match first_error d2 with
            | Some e => RErr (SinkError e)
            | None => ROk (isomorphic Hv teq tcmp fuel (oks d1) (oks d2))
            end
  end.
Proof.
  unfold iso_datasets_res. rewrite !prepare_spec.
  destruct (first_error d1); [reflexivity|]. destruct (first_error d2); reflexivity.
Qed.

(* an error of d1 is reported as SourceError whatever d2 is (even if d2 fails too), and d2
   is not read at all; d1 is read up to and including its first error *)
Theorem iso_res_source_error (l : list quad) (e : E1) r (d2 : list (res quad E2)) :
  iso_datasets_res Hv teq tcmp fuel (map ROk l ++ RErr e :: r) d2 = RErr (SourceError e)
  /\ iso_datasets_pulls (map ROk l ++ RErr e :: r) d2 = (S (length l), O).
Proof.
  split.
  - rewrite iso_datasets_res_spec, first_error_app. reflexivity.
  - unfold iso_datasets_pulls. rewrite prepare_spec, pulls_spec, first_error_app, before_error_app. reflexivity.
Qed.
(* otherwise the first error of d2 is reported as SinkError *)
Theorem iso_res_sink_error (l1 l2 : list quad) (e : E2) r :
  iso_datasets_res Hv teq tcmp fuel (map (@ROk quad E1) l1) (map ROk l2 ++ RErr e :: r) = RErr (SinkError e)
  /\ iso_datasets_pulls (map (@ROk quad E1) l1) (map ROk l2 ++ RErr e :: r) = (length l1, S (length l2)).
Proof.
  split.
  - rewrite iso_datasets_res_spec, first_error_oks, first_error_app. reflexivity.
  - unfold iso_datasets_pulls. rewrite prepare_spec, !pulls_spec, first_error_oks, first_error_app, before_error_app.
    rewrite map_length. reflexivity.
Qed.
(* otherwise the answer of the pure algorithm *)
Theorem iso_res_pure (l1 l2 : list quad) :
  iso_datasets_res Hv teq tcmp fuel (map (@ROk quad E1) l1) (map (@ROk quad E2) l2)
  = ROk (isomorphic Hv teq tcmp fuel l1 l2)
  /\ iso_datasets_pulls (map (@ROk quad E1) l1) (map (@ROk quad E2) l2) = (length l1, length l2).
Proof.
  split.
  - rewrite iso_datasets_res_spec, !first_error_oks, !oks_oks. reflexivity.
  - unfold iso_datasets_pulls. rewrite prepare_spec, !pulls_spec, !first_error_oks, !map_length. reflexivity.
Qed.

(* ---------- graphs ---------- *)
Lemma as_dataset_oks {E} (t : list trip) : as_dataset (map (@ROk trip E) t) = map ROk (map into_quad t).
Proof. unfold as_dataset. rewrite !map_map. reflexivity. Qed.
Lemma as_dataset_app {E} (t : list trip) (e : E) r :
  as_dataset (map ROk t ++ RErr e :: r) = map ROk (map into_quad t) ++ RErr e :: as_dataset r.
Proof. unfold as_dataset. rewrite map_app, !map_map. reflexivity. Qed.

(* the graph entry point is the dataset entry point on the statements (s, p, o, default graph) *)
Theorem iso_graphs_as_datasets (t1 t2 : list trip) :
  iso_graphs_res Hv teq tcmp fuel (map (@ROk trip E1) t1) (map (@ROk trip E2) t2)
  = iso_datasets_res Hv teq tcmp fuel (map (@ROk quad E1) (map into_quad t1)) (map (@ROk quad E2) (map into_quad t2)).
Proof. unfold iso_graphs_res. rewrite !as_dataset_oks. reflexivity. Qed.

Lemma into_quad_triple_of q : qg q = None -> into_quad (triple_of q) = q.
Proof. destruct q as [s p o g]. simpl. intros ->. reflexivity. Qed.
Lemma map_into_quad_triple_of d : Forall (fun q => qg q = None) d -> map into_quad (map triple_of d) = d.
Proof. induction 1 as [|q d Hq _ IH]; cbn [map]; [reflexivity|]. rewrite into_quad_triple_of, IH by assumption. reflexivity. Qed.

(* ... conversely: on datasets whose statements are all in the default graph, comparing them
   as datasets or comparing their triples as graphs is the same *)
Theorem iso_graphs_eq_datasets_on_default_graph (d1 d2 : list quad) :
  Forall (fun q => qg q = None) d1 -> Forall (fun q => qg q = None) d2 ->
  iso_graphs_res Hv teq tcmp fuel (map (@ROk trip E1) (map triple_of d1)) (map (@ROk trip E2) (map triple_of d2))
  = iso_datasets_res Hv teq tcmp fuel (map (@ROk quad E1) d1) (map (@ROk quad E2) d2).
Proof.
  intros H1 H2. rewrite iso_graphs_as_datasets, !map_into_quad_triple_of by assumption. reflexivity.
Qed.

(* errors of graphs: same priority *)
Theorem iso_graphs_source_error (t : list trip) (e : E1) r (g2 : list (res trip E2)) :
  iso_graphs_res Hv teq tcmp fuel (map ROk t ++ RErr e :: r) g2 = RErr (SourceError e)
  /\ iso_graphs_pulls (map ROk t ++ RErr e :: r) g2 = (S (length t), O).
Proof.
  unfold iso_graphs_res, iso_graphs_pulls. rewrite as_dataset_app.
  destruct (iso_res_source_error (map into_quad t) e (as_dataset r) (as_dataset g2)) as [H1 H2].
  rewrite H1, H2, map_length. auto.
Qed.
Theorem iso_graphs_sink_error (t1 t2 : list trip) (e : E2) r :
  iso_graphs_res Hv teq tcmp fuel (map (@ROk trip E1) t1) (map ROk t2 ++ RErr e :: r) = RErr (SinkError e)
  /\ iso_graphs_pulls (map (@ROk trip E1) t1) (map ROk t2 ++ RErr e :: r) = (length t1, S (length t2)).
Proof.
  unfold iso_graphs_res, iso_graphs_pulls. rewrite as_dataset_app, as_dataset_oks.
  destruct (iso_res_sink_error (map into_quad t1) (map into_quad t2) e (as_dataset r)) as [H1 H2].
  rewrite H1, H2, !map_length. auto.
Qed.
End Entry.

(* ---------- the dataset-level theorems, at the entry points ---------- *)
Definition rename_trip (pi : str -> str) (t : trip) : trip :=
  let '(s, p, o) := t in (rename_t pi s, rename_t pi p, rename_t pi o).
Lemma into_quad_rename pi t : into_quad (rename_trip pi t) = rename_q pi (into_quad t).
Proof. destruct t as [[s p] o]. reflexivity. Qed.
Definition wf_trip (t : trip) : Prop := let '(s, p, o) := t in wf s /\ wf p /\ wf o.
Definition bnodes_trip (t : trip) : list str := let '(s, p, o) := t in bnodes_t s ++ bnodes_t p ++ bnodes_t o.
Lemma wfq_into_quad t : wf_trip t -> wfq (into_quad t).
Proof. destruct t as [[s p] o]. intros (A & B & C). repeat split; assumption. Qed.
Lemma bnodes_into_quad t : bnodes_q (into_quad t) = bnodes_trip t.
Proof. destruct t as [[s p] o]. unfold bnodes_q. simpl. rewrite app_nil_r. reflexivity. Qed.
Lemma bnodes_graph t : flat_map bnodes_q (map into_quad t) = flat_map bnodes_trip t.
Proof. induction t as [|x t IH]; simpl; [reflexivity|]. rewrite bnodes_into_quad, IH. reflexivity. Qed.

Section Datasets.
Variable Hv : vquad -> N.
Context {E1 E2 : Type}.

(* no false negative at the dataset entry point: a renamed, reordered, error-free copy is never
   answered Ok(false) nor an error; with the termination condition it is answered Ok(true) *)
Theorem entry_no_false_negative pi (d1 d2 : list quad) fuel :
  Forall wfq d1 -> Permutation d2 (map (rename_q pi) d1) -> inj_on pi (flat_map bnodes_q d1) ->
  exists r, iso_datasets_res Hv iso_eqb iso_cmp fuel (map (@ROk quad E1) d1) (map (@ROk quad E2) d2) = ROk r
            /\ r <> Some false.
Proof.
  intros W Hp Hi. eexists. split; [apply iso_res_pure|]. apply (iso_no_false_negative Hv pi); assumption.
Qed.
Theorem entry_true_on_copies pi (d1 d2 : list quad) fuel :
  Forall wfq d1 -> Permutation d2 (map (rename_q pi) d1) -> inj_on pi (flat_map bnodes_q d1) ->
  loop_mono Hv d1 = true -> (enough_fuel d1 <= fuel)%nat ->
  iso_datasets_res Hv iso_eqb iso_cmp fuel (map (@ROk quad E1) d1) (map (@ROk quad E2) d2) = ROk (Some true).
Proof.
  intros W Hp Hi M Hf. rewrite (proj1 (iso_res_pure Hv iso_eqb iso_cmp fuel d1 d2)).
  f_equal. apply (iso_true_on_copies Hv pi); assumption.
Qed.

(* the same for graphs *)
Theorem graph_no_false_negative pi (t1 t2 : list trip) fuel :
  Forall wf_trip t1 -> Permutation t2 (map (rename_trip pi) t1) -> inj_on pi (flat_map bnodes_trip t1) ->
  exists r, iso_graphs_res Hv iso_eqb iso_cmp fuel (map (@ROk trip E1) t1) (map (@ROk trip E2) t2) = ROk r
            /\ r <> Some false.
Proof.
  intros W Hp Hi. rewrite iso_graphs_as_datasets. apply (entry_no_false_negative pi).
  - rewrite Forall_map. eapply Forall_impl; [|exact W]. apply wfq_into_quad.
  - eapply perm_trans; [apply Permutation_map; exact Hp|]. rewrite !map_map.
    rewrite (map_ext _ (fun x => rename_q pi (into_quad x))) by apply into_quad_rename. apply Permutation_refl.
  - rewrite bnodes_graph. exact Hi.
Qed.
Theorem graph_true_on_copies pi (t1 t2 : list trip) fuel :
  Forall wf_trip t1 -> Permutation t2 (map (rename_trip pi) t1) -> inj_on pi (flat_map bnodes_trip t1) ->
  loop_mono Hv (map into_quad t1) = true -> (enough_fuel (map into_quad t1) <= fuel)%nat ->
  iso_graphs_res Hv iso_eqb iso_cmp fuel (map (@ROk trip E1) t1) (map (@ROk trip E2) t2) = ROk (Some true).
Proof.
  intros W Hp Hi M Hf. rewrite iso_graphs_as_datasets. apply (entry_true_on_copies pi); auto.
  - rewrite Forall_map. eapply Forall_impl; [|exact W]. apply wfq_into_quad.
  - eapply perm_trans; [apply Permutation_map; exact Hp|]. rewrite !map_map.
    rewrite (map_ext _ (fun x => rename_q pi (into_quad x))) by apply into_quad_rename. apply Permutation_refl.
  - rewrite bnodes_graph. exact Hi.
Qed.
End Datasets.

(* symmetry at the entry points holds for the ANSWERS (error-free arguments); with errors the
   two arguments are deliberately not symmetric (d1 is read first) *)
Theorem graph_symmetric Hv fuel {E1 E2 : Type} (t1 t2 : list trip) :
  iso_graphs_res Hv iso_eqb iso_cmp fuel (map (@ROk trip E1) t1) (map (@ROk trip E2) t2)
  = ROk (isomorphic Hv iso_eqb iso_cmp fuel (map into_quad t2) (map into_quad t1)).
Proof.
  rewrite iso_graphs_as_datasets, (proj1 (iso_res_pure Hv iso_eqb iso_cmp fuel _ _)).
  rewrite iso_symmetric. reflexivity.
Qed.

(* non-vacuity: both arguments fail -> the error of the first one; a graph and its copy *)
Example both_fail :
  iso_datasets_res Hfnv iso_eqb iso_cmp 8 [ROk (ex_q [97]); RErr 1; RErr 2] [RErr 3; ROk (ex_q [98])]
  = RErr (SourceError 1)
  /\ iso_datasets_pulls [ROk (ex_q [97]); RErr 1; RErr 2] [RErr 3; ROk (ex_q [98])] = (2%nat, 0%nat)
  /\ iso_datasets_res Hfnv iso_eqb iso_cmp 8 [@ROk quad N (ex_q [97])] [ROk (ex_q [98]); RErr 3]
     = RErr (SinkError 3).
Proof. repeat split. Qed.
Example graph_copy :
  let t1 := [(Bnode [97], Iri [112], Bnode [98]); (Bnode [98], Iri [112], Bnode [97])] in
  let t2 := [(Bnode [120], Iri [112], Bnode [121]); (Bnode [121], Iri [112], Bnode [120])] in
  loop_mono Hfnv (map into_quad t1) = true
  /\ iso_graphs_res Hfnv iso_eqb iso_cmp (enough_fuel (map into_quad t1))
       (map (@ROk trip N) t1) (map (@ROk trip N) t2) = ROk (Some true).
Proof. split; vm_compute; reflexivity. Qed.
