(* C12/Labels.v -- blank node labels: what the fourth directed stream of the C12 harness adds to the model.
   Definitions only.

   1. The identifier WRITTEN for a blank node (jsonld/src/util_traits.rs, TermJsonLdUtil::as_id:
      `format!("_:{}", self.bnode_id().unwrap().as_str())`): "_:" followed by the label, every character as it is.
   2. The labels sophia accepts (api/src/term/bnode_id.rs, the regular expression BNODE_ID, transcribed by hand:
      (PN_CHARS_U | [0-9]) (PN_CHARS | '.' PN_CHARS)*  -- the whole string).
   3. The blank node identifiers the json-ld crate accepts when the document is READ back (rdf-types 0.15.4,
      src/blankid.rs, fn check: "_:" (digit | pn_char_u) pn_char*, where pn_char_u also has ':' and NO character
      class has '.').  json-ld-core's Id::from_string tries an IRI first (a string that starts with '_' has no
      scheme), then this check; what fails both is not a blank node.
   4. NOT what the code does: writers that "clean" the label. *)
From Sophia.Common Require Import Prelude.
From Sophia.C12 Require Import Wide.

(* ---------- 1. the writer ---------- *)
Definition bnode_written (l : str) : str := 95 :: 58 :: l.
(* the label a blank node identifier carries (JSON-LD 1.1: a blank node identifier is a string that starts with "_:") *)
Definition label_of (s : str) : option str :=
  match s with
  | a :: b :: l => if (a =? 95) && (b =? 58) then Some l else None
  | _ => None
  end.

(* ---------- 2. BnodeId ---------- *)
Definition pn_chars_base (c : N) : bool :=
  in_rng 65 90 c || in_rng 97 122 c || in_rng 192 214 c || in_rng 216 246 c || in_rng 248 767 c
  || in_rng 880 893 c || in_rng 895 8191 c || in_rng 8204 8205 c || in_rng 8304 8591 c
  || in_rng 11264 12271 c || in_rng 12289 55295 c || in_rng 63744 64975 c || in_rng 65008 65533 c
  || in_rng 65536 983039 c.
Definition pn_chars_u (c : N) : bool := pn_chars_base c || (c =? 95).
Definition pn_chars (c : N) : bool :=
  pn_chars_u c || (c =? 45) || in_rng 48 57 c || (c =? 183) || in_rng 768 879 c || in_rng 8255 8256 c.
(* (PN_CHARS | '.' PN_CHARS)* : '.' is not in PN_CHARS, so the choice is decided by the character *)
Fixpoint label_tail (s : str) : bool :=
  match s with
  | [] => true
  | c :: r =>
    if c =? 46 then match r with d :: r' => pn_chars d && label_tail r' | [] => false end
    else pn_chars c && label_tail r
  end.
Definition bnode_id_ok (s : str) : bool :=
  match s with
  | c :: r => (pn_chars_u c || in_rng 48 57 c) && label_tail r
  | [] => false
  end.
Definition has_dot (s : str) : bool := existsb (N.eqb 46) s.

(* ---------- 3. the reader's blank node identifiers (rdf-types) ---------- *)
Definition rdf_pn_char_u (c : N) : bool := pn_chars_base c || (c =? 95) || (c =? 58).
Definition rdf_pn_char (c : N) : bool :=
  rdf_pn_char_u c || (c =? 45) || in_rng 48 57 c || (c =? 183) || in_rng 768 879 c || in_rng 8255 8256 c.
Definition rdf_blank_ok (s : str) : bool :=
  match s with
  | a :: b :: c :: r => (a =? 95) && (b =? 58) && (in_rng 48 57 c || rdf_pn_char_u c) && forallb rdf_pn_char r
  | _ => false
  end.
(* the identifier of a label is read back as a blank node *)
Definition read_as_blank (l : str) : bool := rdf_blank_ok (bnode_written l).

(* ---------- 4. NOT what the code does ---------- *)
(* keeping [A-Za-z0-9_-] and writing '_' for every other character *)
Definition safe_char (c : N) : bool := in_rng 97 122 c || in_rng 65 90 c || in_rng 48 57 c || (c =? 95) || (c =? 45).
Definition clean1 (c : N) : N := if safe_char c then c else 95.
Definition bnode_written_clean (l : str) : str := 95 :: 58 :: map clean1 l.
(* dropping the characters that are not safe *)
Definition bnode_written_drop (l : str) : str := 95 :: 58 :: filter safe_char l.
(* folding the case *)
Definition bnode_written_lower (l : str) : str := 95 :: 58 :: lower l.
(* keeping the first n characters *)
Definition bnode_written_cut (n : nat) (l : str) : str := 95 :: 58 :: firstn n l.

(* ---------- harness-facing ---------- *)
Fixpoint nodup_str (l : list str) : bool :=
  match l with
  | [] => true
  | x :: r => negb (existsb (str_eqb x) r) && nodup_str r
  end.
(* `input`: the labels of the blank nodes of the (expressible quads of the) datasets, each once; `observed`: the strings of blank
   form the documents have in identifier position, each once.  Every one of them is the identifier the model writes for a label
   of the input; when `all` is set (nothing was compacted away) every label has its identifier in the documents, and there
   are as many identifiers as labels *)
Definition labels_ok (all : bool) (input observed : list str) : bool :=
  nodup_str input && nodup_str observed
  && forallb (fun s => existsb (str_eqb s) (map bnode_written input)) observed
  && (if all then forallb (fun l => existsb (str_eqb (bnode_written l)) observed) input
                  && (N.of_nat (length observed) =? N.of_nat (length input))
      else true).
(* one string: `valid` = BnodeId::new accepts it; `kept` = (for a label) the parser reads "_:" + label back as a blank node *)
Definition label_ok (l : str) (valid kept : bool) : bool :=
  Bool.eqb (bnode_id_ok l) valid && (if valid then Bool.eqb (read_as_blank l) kept else true).
