(* C04/RegenDepth.v -- the nesting bound of the pretty writer ([ ] property lists deeper than this continue with
   labels) is RE-GENERATED from turtle/src/serializer/_pretty.rs (const MAX_DEPTH) and tied to the bound used by the
   cut-and-re-scan model of Deep.v. *)
From Sophia.Common Require Import Prelude.
From Sophia.C04 Require Import Deep.
From Sophia.gen Require Consts.

Theorem max_depth_regenerated :
  Consts.pretty_max_depth_found = true -> Consts.pretty_max_depth = max_depth.
Proof. intros Hf. first [ (vm_compute in Hf; discriminate Hf) | (vm_compute; reflexivity) ]. Qed.

Print Assumptions max_depth_regenerated.
