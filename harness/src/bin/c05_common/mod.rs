//! Shared by c05.rs and c06.rs: dataset generator, recording hash function, driver of the real
//! sophia_c14n crate, and an INDEPENDENT transcription of W3C RDFC-1.0 (sections 4.4-4.8 and the
//! canonical N-Quads form) used as property oracle.
#![allow(dead_code)]
use sophia_api::dataset::{MutableDataset, SetDataset};
use sophia_api::prelude::*;
use sophia_api::quad::Spog;
use sophia_api::term::{SimpleTerm, TermKind};
use sophia_c14n::C14nError;
use sophia_c14n::hash::{HashFunction, Sha256, Sha384};
use sophia_c14n::rdfc10::{normalize_with, relabel_with};
use sophia_inmem::dataset::{FastDataset, LightDataset};
use std::cell::RefCell;
use std::collections::{BTreeMap, BTreeSet, HashSet};
use verif_harness::*;

pub type Q = Spog<ST>;

// ---------------------------------------------------------------- recording hash function
thread_local! {
    /// every (concatenated input, digest) pair seen since the last `take_table`
    static TABLE: RefCell<BTreeMap<Vec<u8>, Vec<u8>>> = RefCell::new(BTreeMap::new());
}
pub struct Rec<I: HashFunction> {
    inner: I,
    buf: Vec<u8>,
}
impl<I: HashFunction> HashFunction for Rec<I> {
    type Output = I::Output;
    fn initialize() -> Self {
        Rec { inner: I::initialize(), buf: vec![] }
    }
    fn update(&mut self, data: impl AsRef<[u8]>) {
        self.buf.extend_from_slice(data.as_ref());
        self.inner.update(data);
    }
    fn finalize(self) -> Self::Output {
        let out = self.inner.finalize();
        TABLE.with(|t| t.borrow_mut().insert(self.buf, out.as_ref().to_vec()));
        out
    }
}
pub fn take_table() -> BTreeMap<Vec<u8>, Vec<u8>> {
    TABLE.with(|t| std::mem::take(&mut *t.borrow_mut()))
}
pub fn hex(b: &[u8]) -> String {
    b.iter().map(|x| format!("{x:02x}")).collect()
}
/// the table as a Coq association list (input code points, hexadecimal digest code points)
pub fn coq_table(t: &BTreeMap<Vec<u8>, Vec<u8>>) -> String {
    coq_list(t.iter().map(|(k, v)| format!("({}, {})", pstr(std::str::from_utf8(k).expect("hash input is a string")), pstr(&hex(v)))))
}

// ---------------------------------------------------------------- terms
pub fn to_st<T: Term>(t: T) -> ST {
    match t.kind() {
        TermKind::Iri => iri(t.iri().unwrap().as_str()),
        TermKind::BlankNode => bnode(t.bnode_id().unwrap().as_str()),
        TermKind::Literal => match t.language_tag() {
            Some(tag) => lit_lang(&t.lexical_form().unwrap(), tag.as_str()),
            None => lit_dt(&t.lexical_form().unwrap(), t.datatype().unwrap().as_str()),
        },
        TermKind::Variable => var(t.variable().unwrap().as_str()),
        TermKind::Triple => {
            let [s, p, o] = t.triple().unwrap();
            triple(to_st(s), to_st(p), to_st(o))
        }
    }
}
/// a string packed three code points per 63-bit integer literal (Model.v `U`), 0x1FFFFF = padding
pub fn pstr(s: &str) -> String {
    let cps: Vec<u64> = s.chars().map(|c| c as u64).collect();
    let mut ws = vec![];
    for ch in cps.chunks(3) {
        let g = |i: usize| ch.get(i).copied().unwrap_or(0x1F_FFFF);
        ws.push((g(0) | (g(1) << 21) | (g(2) << 42)).to_string());
    }
    format!("(U [{}]%uint63)", ws.join(";"))
}
pub fn c_term(t: &ST) -> String {
    match t {
        SimpleTerm::Iri(i) => format!("(Iri {})", pstr(i.as_str())),
        SimpleTerm::BlankNode(b) => format!("(Bnode {})", pstr(b.as_str())),
        SimpleTerm::LiteralDatatype(l, dt) => format!("(LitDt {} {})", pstr(l), pstr(dt.as_str())),
        SimpleTerm::LiteralLanguage(l, tag) => format!("(LitLang {} {})", pstr(l), pstr(tag.as_str())),
        SimpleTerm::Triple(tr) => format!("(Triple {} {} {})", c_term(&tr[0]), c_term(&tr[1]), c_term(&tr[2])),
        SimpleTerm::Variable(v) => format!("(Var {})", pstr(v.as_str())),
    }
}
pub fn c_quad(q: &Q) -> String {
    format!("({}, {}, {}, {})", c_term(&q.0[0]), c_term(&q.0[1]), c_term(&q.0[2]), coq_opt(q.1.as_ref().map(|g| c_term(g))))
}
pub fn c_quads(d: &[Q]) -> String {
    coq_list(d.iter().map(c_quad))
}
pub fn show_t(t: &ST) -> String {
    match t {
        SimpleTerm::Iri(i) => format!("<{}>", i.as_str()),
        SimpleTerm::BlankNode(b) => format!("_:{}", b.as_str()),
        SimpleTerm::LiteralDatatype(l, dt) => format!("{:?}^^<{}>", &l[..], dt.as_str()),
        SimpleTerm::LiteralLanguage(l, tag) => format!("{:?}@{}", &l[..], tag.as_str()),
        SimpleTerm::Triple(tr) => format!("<< {} {} {} >>", show_t(&tr[0]), show_t(&tr[1]), show_t(&tr[2])),
        SimpleTerm::Variable(v) => format!("?{}", v.as_str()),
    }
}
pub fn show_q(q: &Q) -> String {
    format!("{} {} {} {}.", show_t(&q.0[0]), show_t(&q.0[1]), show_t(&q.0[2]), q.1.as_ref().map(|g| show_t(g) + " ").unwrap_or_default())
}
pub fn show_d(d: &[Q]) -> String {
    d.iter().map(show_q).collect::<Vec<_>>().join(" ")
}
pub fn blabel(t: &ST) -> Option<String> {
    match t {
        SimpleTerm::BlankNode(b) => Some(b.as_str().to_string()),
        _ => None,
    }
}
/// blank node labels of the components of a quad, in s, p, o, g order, with repetitions
pub fn q_blanks(q: &Q) -> Vec<String> {
    q.0.iter().chain(q.1.iter()).filter_map(blabel).collect()
}
pub fn d_blanks(d: &[Q]) -> BTreeSet<String> {
    d.iter().flat_map(q_blanks).collect()
}
pub fn rename_t(t: &ST, f: &dyn Fn(&str) -> String) -> ST {
    match t {
        SimpleTerm::BlankNode(b) => bnode(&f(b.as_str())),
        _ => t.clone(),
    }
}
pub fn rename_q(q: &Q, f: &dyn Fn(&str) -> String) -> Q {
    ([rename_t(&q.0[0], f), rename_t(&q.0[1], f), rename_t(&q.0[2], f)], q.1.as_ref().map(|g| rename_t(g, f)))
}
pub fn shuffle<T>(v: &mut Vec<T>, r: &mut Rng) {
    for i in (1..v.len()).rev() {
        let j = r.below(i + 1);
        v.swap(i, j);
    }
}
pub fn dedup(v: &[Q]) -> Vec<Q> {
    let mut out: Vec<Q> = vec![];
    for q in v {
        if !out.iter().any(|x| Quad::eq(x, (q.0.each_ref(), q.1.as_ref()))) {
            out.push(q.clone())
        }
    }
    out
}
pub fn is_supported(d: &[Q]) -> bool {
    d.iter().all(|q| !q.0[1].is_blank_node() && q.0.iter().chain(q.1.iter()).all(|t| !t.is_triple() && !t.is_variable()))
}

// ---------------------------------------------------------------- generator
const P: &str = "http://e/p";
const PQ: &str = "http://e/q";
fn b(i: usize) -> ST {
    bnode(&format!("e{i}"))
}
fn e(s: ST, p: &str, o: ST) -> Q {
    ([s, iri(p), o], None)
}
fn eg(s: ST, p: &str, o: ST, g: ST) -> Q {
    ([s, iri(p), o], Some(g))
}
/// literals exercising every escape-relevant character of canonical N-Quads
pub fn gen_literal(r: &mut Rng) -> ST {
    let specials: Vec<char> = vec!['"', '\\', '\n', '\r', '\t', '\u{8}', '\u{c}', '\u{7f}', '\u{0}', '\u{1}', '\u{b}', '\u{e}', '\u{1f}', ' ', '\u{80}', '\u{e9}', '\u{20ac}', '\u{1f600}', '\u{fffe}', 'u', '<', '>', '.', '@', '^', '_', ':', 'a'];
    let n = r.below(5);
    let mut s = String::new();
    for _ in 0..n {
        if r.chance(1, 12) {
            s.push(char::from_u32(r.below(0x20) as u32).unwrap());
        } else {
            s.push(*r.pick(&specials));
        }
    }
    match r.below(5) {
        0 | 1 => lit_dt(&s, &format!("{XSD}string")),
        2 => lit_lang(&s, r.ps(&["en", "EN", "fr-BE"])),
        3 => lit_dt(&s, &format!("{XSD}integer")),
        _ => lit_dt(&s, "http://e/dt"),
    }
}
fn ground(r: &mut Rng) -> ST {
    match r.below(4) {
        0 => iri("http://e/a"),
        1 => iri("http://e/b"),
        2 => lit_dt("lit", &format!("{XSD}string")),
        _ => gen_literal(r),
    }
}
pub const SHAPES: [&str; 15] = ["cycle", "clique", "components", "star", "bipartite", "blank-graph", "twice-in-quad", "three-blank-quad", "row28-witness", "literals", "random", "unsupported", "path-tree", "b9-b10", "b9-b10-witness"];
/// a dataset of one of the shapes; at most 6 blank nodes
pub fn gen_dataset(r: &mut Rng, shape: usize, big: bool) -> Vec<Q> {
    let mut v: Vec<Q> = vec![];
    match SHAPES[shape] {
        "cycle" => {
            let n = r.range(2, 6);
            for i in 0..n {
                v.push(e(b(i), P, b((i + 1) % n)));
            }
            if r.chance(1, 3) && n < 6 {
                v.push(e(b(r.below(n)), PQ, b(n)));
            }
            if r.chance(1, 4) {
                v.push(e(b(r.below(n)), PQ, ground(r)));
            }
        }
        "clique" => {
            let n = r.range(2, if big { 5 } else { 4 });
            let g = if r.chance(1, 3) { Some(bnode("g")) } else { None };
            for i in 0..n {
                for j in 0..n {
                    if i != j {
                        v.push(([b(i), iri(P), b(j)], g.clone()));
                    }
                }
            }
        }
        "components" => {
            let k = r.range(2, 3);
            let cyc = r.chance(1, 2);
            for c in 0..2 {
                for i in 0..k {
                    if cyc || i + 1 < k {
                        v.push(e(b(c * k + i), P, b(c * k + (i + 1) % k)));
                    }
                }
            }
            if r.chance(1, 3) {
                v.push(e(iri("http://e/a"), PQ, b(0)));
            }
        }
        "star" => {
            let k = r.range(2, if big { 5 } else { 4 });
            for i in 1..=k {
                if r.chance(1, 2) {
                    v.push(e(b(0), P, b(i)));
                } else {
                    v.push(e(b(i), P, b(0)));
                }
            }
            if r.chance(1, 3) {
                v.push(e(b(1), PQ, ground(r)));
            }
        }
        "bipartite" => {
            let (m, n) = (r.range(1, 3), r.range(1, 3));
            for i in 0..m {
                for j in 0..n {
                    v.push(e(b(i), P, b(m + j)));
                }
            }
        }
        "blank-graph" => {
            let n = r.range(1, 4);
            for i in 0..n {
                let g = bnode(&format!("g{}", r.below(2)));
                match r.below(3) {
                    0 => v.push(eg(b(i), P, b((i + 1) % n), g)),
                    1 => v.push(eg(iri("http://e/a"), P, b(i), g)),
                    _ => v.push(eg(b(i), P, ground(r), g)),
                }
            }
        }
        "twice-in-quad" => {
            // DESIGN.md section 4 row 27: one blank node in two positions of the same quad
            let n = r.range(1, 4);
            for _ in 0..r.range(1, 3) {
                let x = b(r.below(n));
                match r.below(4) {
                    0 => v.push(e(x.clone(), P, x)),
                    1 => v.push(eg(x.clone(), P, b(r.below(n)), x)),
                    2 => v.push(eg(b(r.below(n)), P, x.clone(), x)),
                    _ => v.push(eg(x.clone(), P, x.clone(), x)),
                }
            }
            for _ in 0..r.below(3) {
                v.push(e(b(r.below(n)), r.ps(&[P, PQ]), b(r.below(n + 1))));
            }
        }
        "three-blank-quad" => {
            let n = r.range(3, 5);
            for _ in 0..r.range(1, 3) {
                v.push(eg(b(r.below(n)), P, b(r.below(n)), b(r.below(n))));
            }
            for _ in 0..r.below(3) {
                v.push(e(b(r.below(n)), r.ps(&[P, PQ]), if r.chance(1, 2) { b(r.below(n)) } else { ground(r) }));
            }
        }
        "row28-witness" => {
            // DESIGN.md section 4 row 28, possibly decorated
            v.push(e(b(4), P, lit_dt("lit", &format!("{XSD}string"))));
            v.push(eg(b(4), P, b(6), b(3)));
            v.push(eg(b(5), P, b(3), b(6)));
            if r.chance(1, 3) {
                v.push(e(b(5), PQ, ground(r)));
            }
        }
        "literals" => {
            for _ in 0..r.range(1, 4) {
                let s = if r.chance(1, 2) { b(r.below(2)) } else { iri(r.ps(&["http://e/a", "http://e/a9", "http://e/b"])) };
                let o = if r.chance(1, 4) { b(r.below(2)) } else { gen_literal(r) };
                let g = match r.below(4) {
                    0 => Some(iri("http://e/g")),
                    1 => Some(b(r.below(2))),
                    _ => None,
                };
                v.push(([s, iri(r.ps(&[P, PQ])), o], g));
            }
        }
        "random" => {
            let n = r.range(1, 5);
            for _ in 0..r.range(1, 6) {
                let s = if r.chance(4, 5) { b(r.below(n)) } else { iri("http://e/a") };
                let o = if r.chance(3, 4) { b(r.below(n)) } else { ground(r) };
                let g = match r.below(6) {
                    0 => Some(iri("http://e/g")),
                    1 => Some(b(r.below(n))),
                    _ => None,
                };
                v.push(([s, iri(r.ps(&[P, PQ])), o], g));
            }
        }
        "unsupported" => {
            let n = r.range(1, 3);
            for _ in 0..r.range(1, 3) {
                v.push(e(b(r.below(n)), P, b(r.below(n))));
            }
            let bad: Q = match r.below(7) {
                6 => {
                    // generalized RDF: a literal as predicate (outside the property; no quad mentioning a node twice,
                    // so that the outcome is the same before and after the repairs)
                    v.retain(|q| { let bl = q_blanks(q); bl.iter().collect::<BTreeSet<_>>().len() == bl.len() });
                    v.push(([b(0), lit_dt("p", &format!("{XSD}string")), b(1)], None));
                    ([b(1), lit_dt("p", &format!("{XSD}string")), b(0)], None)
                }
                0 => ([b(0), bnode("pred"), b(1)], None),
                1 => ([var("v"), iri(P), b(0)], None),
                2 => ([b(0), iri(P), triple(b(0), iri(P), b(1))], None),
                3 => ([b(0), iri(P), b(1)], Some(var("g"))),
                4 => ([triple(iri("http://e/a"), iri(P), b(1)), bnode("pred"), b(1)], None),
                _ => ([b(0), var("p"), b(1)], None),
            };
            let k = r.below(v.len() + 1);
            v.insert(k, bad);
        }
        "b9-b10" | "b9-b10-witness" => {
            // ten or more temporary identifiers, and a related-node list in which one node occurs twice:
            // permutations then give paths of different lengths (_:b9 vs _:b10).  A chain a0..a(L-1) ends in
            // n = a(L-1); n p x g1 . n p x g2 . n p yi g1 . m p yi g2 .  (x and the yi share a first-degree
            // hash; x is related to n twice); everything duplicated so that no first-degree hash is unique
            let witness = SHAPES[shape] == "b9-b10-witness";
            let mut l = r.range(5, 10);
            let mut ny = r.range(1, 3);
            let mut pc = r.ps(&[P, PQ, "http://e/r", "http://e/s", "http://e/t"]);
            let mut pg = r.ps(&[P, PQ, "http://e/r", "http://e/u"]);
            let mut copies = r.range(1, 2);
            if witness {
                // with SHA-256 the code before the repair of smaller_path canonicalises this dataset
                // differently from RDFC-1.0
                (l, ny, pc, pg, copies) = (9, 2, PQ, "http://e/u", 2);
            }
            for c in 0..copies {
                let nd = |i: usize| bnode(&format!("c{c}n{i}"));
                for i in 0..l - 1 {
                    v.push(e(nd(i), pc, nd(i + 1)));
                }
                let n = nd(l - 1);
                let m = nd(100);
                let x = nd(200);
                v.push(eg(n.clone(), pg, x.clone(), iri("http://e/g1")));
                v.push(eg(n.clone(), pg, x.clone(), iri("http://e/g2")));
                for k in 0..ny {
                    let y = nd(300 + k);
                    v.push(eg(n.clone(), pg, y.clone(), iri("http://e/g1")));
                    v.push(eg(m.clone(), pg, y.clone(), iri("http://e/g2")));
                }
            }
        }
        _ => {
            // paths and small trees: asymmetric structures resolved by first-degree hashes or one recursion
            let n = r.range(2, 6);
            for i in 1..n {
                let parent = r.below(i);
                v.push(e(b(parent), r.ps(&[P, P, PQ]), b(i)));
            }
        }
    }
    // one spelling per language-tagged literal inside one dataset: the in-memory stores intern terms modulo
    // Term::eq (tags compared case-insensitively) and keep the first spelling they see, so a dataset holding
    // "x"@en and "x"@EN would be a different dataset (tags are compared literally by C05) after each insertion order
    let mut spelling: Vec<(String, String, ST)> = vec![];
    let mut norm = |t: &ST| -> ST {
        if let sophia_api::term::SimpleTerm::LiteralLanguage(l, tag) = t {
            let key = (l.to_string(), tag.as_str().to_ascii_lowercase());
            if let Some(x) = spelling.iter().find(|x| x.0 == key.0 && x.1 == key.1) { return x.2.clone(); }
            spelling.push((key.0, key.1, t.clone()));
        }
        t.clone()
    };
    let v: Vec<Q> = v.iter().map(|q| ([norm(&q.0[0]), norm(&q.0[1]), norm(&q.0[2])], q.1.as_ref().map(|g| norm(g)))).collect();
    dedup(&v)
}

// ---------------------------------------------------------------- running the real crate
#[derive(Clone, Debug)]
pub struct Outcome {
    /// 0 = Ok, 1 = unsupported: blank predicate, 2 = unsupported: variable / quoted triple,
    /// 3 = toxic: too many recursions, 4 = toxic: too many permutations, 5 = panic, 9 = other
    pub code: u64,
    pub bytes: String,
    pub idmap: Vec<(String, String)>,
    /// relabelled quads, in the order returned by relabel_with
    pub quads: Vec<Q>,
    pub msg: String,
}
fn quiet_catch<R>(f: impl FnOnce() -> R) -> Result<R, String> {
    let prev = std::panic::take_hook();
    std::panic::set_hook(Box::new(|_| {}));
    let r = std::panic::catch_unwind(std::panic::AssertUnwindSafe(f));
    std::panic::set_hook(prev);
    r.map_err(|e| e.downcast_ref::<String>().cloned().or_else(|| e.downcast_ref::<&str>().map(|s| s.to_string())).unwrap_or_else(|| "panic".into()))
}
fn classify<E: std::error::Error + Send + Sync + 'static>(e: &C14nError<E>) -> (u64, String) {
    match e {
        C14nError::Unsupported(m) if m.contains("blank node as predicate") => (1, m.clone()),
        C14nError::Unsupported(m) => (2, m.clone()),
        C14nError::ToxicGraph(m) if m.contains("too many recursions") => (3, m.clone()),
        C14nError::ToxicGraph(m) if m.contains("Too many permutations") => (4, m.clone()),
        other => (9, format!("{other}")),
    }
}
fn run_on<H: HashFunction, D: SetDataset>(d: &D, df: f32, pl: usize) -> (Vec<Q>, Outcome) {
    let order: Vec<Q> = d.quads().map(|q| { let q = q.unwrap(); ([to_st(q.s()), to_st(q.p()), to_st(q.o())], q.g().map(to_st)) }).collect();
    let res = quiet_catch(|| {
        let mut out = Vec::<u8>::new();
        let r1 = normalize_with::<H, D, _>(d, &mut out, df, pl).map_err(|e| classify(&e));
        let r2 = relabel_with::<H, D>(d, df, pl).map_err(|e| classify(&e)).map(|(qs, map)| {
            let qs: Vec<Q> = qs.iter().map(|q| ([to_st(&q.0[0]), to_st(&q.0[1]), to_st(&q.0[2])], q.1.as_ref().map(to_st))).collect();
            let map: Vec<(String, String)> = map.iter().map(|(k, v)| (k.to_string(), v.as_str().to_string())).collect();
            (qs, map)
        });
        (out, r1, r2)
    });
    let o = match res {
        Err(p) => Outcome { code: 5, bytes: String::new(), idmap: vec![], quads: vec![], msg: format!("panic: {p}") },
        Ok((out, Ok(()), Ok((qs, map)))) => Outcome { code: 0, bytes: String::from_utf8(out).expect("utf8 output"), idmap: map, quads: qs, msg: String::new() },
        Ok((_, Err((c1, m1)), Err((c2, _)))) if c1 == c2 => Outcome { code: c1, bytes: String::new(), idmap: vec![], quads: vec![], msg: m1 },
        Ok((_, r1, r2)) => Outcome { code: 9, bytes: String::new(), idmap: vec![], quads: vec![], msg: format!("normalize_with and relabel_with disagree: {:?} vs {:?}", r1.err(), r2.map(|_| ()).err()) },
    };
    (order, o)
}
pub const STORES: [&str; 4] = ["HashSet", "BTreeSet", "FastDataset", "LightDataset"];
/// canonicalise `quads` held in the store `store` with hash `sha384?`; returns the order in which
/// the store enumerates its quads (what the algorithm sees) and the outcome
pub fn run_impl(quads: &[Q], store: usize, sha384: bool, df: f32, pl: usize) -> (Vec<Q>, Outcome) {
    macro_rules! mk { ($ty:ty) => {{ let mut d = <$ty>::default(); for q in quads { MutableDataset::insert_quad(&mut d, q.clone()).unwrap(); } d }}; }
    macro_rules! go { ($d:expr) => { if sha384 { run_on::<Rec<Sha384>, _>(&$d, df, pl) } else { run_on::<Rec<Sha256>, _>(&$d, df, pl) } }; }
    match store {
        0 => go!(mk!(HashSet<Q>)),
        1 => go!(mk!(BTreeSet<Q>)),
        2 => go!(mk!(FastDataset)),
        _ => go!(mk!(LightDataset)),
    }
}

// ---------------------------------------------------------------- RDFC-1.0 from the W3C text
// Independent transcription of https://www.w3.org/TR/rdf-canon/ sections 4.4 (canonicalization
// algorithm), 4.5 (issue identifier), 4.6 (hash first degree quads), 4.7 (hash related blank
// node), 4.8 (hash n-degree quads) and of the canonical N-Quads form.  Plain strings, no sophia
// code except the hash function.  Orders the text leaves open: blank nodes are visited in label
// order, permutations in the order of Heap's algorithm as sophia runs it, ties of step 5.3 keep list order.
#[derive(Clone)]
pub struct SIssuer {
    prefix: String,
    map: BTreeMap<String, String>,
    order: Vec<String>,
}
impl SIssuer {
    fn new(prefix: &str) -> Self {
        SIssuer { prefix: prefix.into(), map: BTreeMap::new(), order: vec![] }
    }
    /// 4.5 Issue Identifier
    fn issue(&mut self, existing: &str) -> String {
        if let Some(x) = self.map.get(existing) {
            return x.clone();
        }
        let id = format!("{}{}", self.prefix, self.order.len());
        self.map.insert(existing.to_string(), id.clone());
        self.order.push(existing.to_string());
        id
    }
}
pub struct SpecOut {
    pub bytes: String,
    pub idmap: BTreeMap<String, String>,
    pub max_depth: usize,
    pub max_list: usize,
    /// pairs of blank nodes whose hash-n-degree results were equal in step 5.3
    pub ties: Vec<(String, String)>,
}
fn spec_escape(s: &str) -> String {
    let mut o = String::new();
    for c in s.chars() {
        match c as u32 {
            0x08 => o.push_str("\\b"),
            0x09 => o.push_str("\\t"),
            0x0A => o.push_str("\\n"),
            0x0C => o.push_str("\\f"),
            0x0D => o.push_str("\\r"),
            0x22 => o.push_str("\\\""),
            0x5C => o.push_str("\\\\"),
            x @ (0x00..=0x07 | 0x0B | 0x0E..=0x1F | 0x7F) => o.push_str(&format!("\\u{:04X}", x)),
            _ => o.push(c),
        }
    }
    o
}
fn spec_term(t: &ST) -> String {
    match t {
        SimpleTerm::Iri(i) => format!("<{}>", i.as_str()),
        SimpleTerm::BlankNode(b) => format!("_:{}", b.as_str()),
        SimpleTerm::LiteralLanguage(l, tag) => format!("\"{}\"@{}", spec_escape(l), tag.as_str()),
        SimpleTerm::LiteralDatatype(l, dt) if dt.as_str() == "http://www.w3.org/2001/XMLSchema#string" => format!("\"{}\"", spec_escape(l)),
        SimpleTerm::LiteralDatatype(l, dt) => format!("\"{}\"^^<{}>", spec_escape(l), dt.as_str()),
        _ => unreachable!("unsupported terms are rejected first"),
    }
}
fn spec_line(q: &Q, blank: &dyn Fn(&str) -> String) -> String {
    let mut o = String::new();
    for t in q.0.iter().chain(q.1.iter()) {
        match blabel(t) {
            Some(l) => o.push_str(&blank(&l)),
            None => o.push_str(&spec_term(t)),
        }
        o.push(' ');
    }
    o.push_str(".\n");
    o
}
struct Spec<'a> {
    quads: &'a [Q],
    b2q: BTreeMap<String, Vec<usize>>,
    canonical: SIssuer,
    hash: &'a dyn Fn(&str) -> String,
    max_depth: usize,
    max_list: usize,
}
fn lex_perms(n: usize) -> Vec<Vec<usize>> {
    fn go(n: usize, cur: &mut Vec<usize>, out: &mut Vec<Vec<usize>>) {
        if cur.len() == n {
            out.push(cur.clone());
            return;
        }
        for i in 0..n {
            if !cur.contains(&i) {
                cur.push(i);
                go(n, cur, out);
                cur.pop();
            }
        }
    }
    let mut out = vec![];
    go(n, &mut vec![], &mut out);
    out
}
/// the enumeration order of "each permutation" is left open by the specification; to compare issued
/// identifiers exactly the transcription takes the order sophia uses (Heap's algorithm with a swap after
/// every recursive call, as in c14n/src/_permutations.rs), re-implemented here on positions
fn heap_order_perms(n: usize) -> Vec<Vec<usize>> {
    fn go(a: &mut Vec<usize>, size: usize, out: &mut Vec<Vec<usize>>) {
        if size == 1 {
            out.push(a.clone());
            return;
        }
        for i in 0..size {
            go(a, size - 1, out);
            if size % 2 == 1 { a.swap(0, size - 1) } else { a.swap(i, size - 1) }
        }
    }
    let mut out = vec![];
    if n > 0 {
        go(&mut (0..n).collect(), n, &mut out);
    }
    out
}
impl Spec<'_> {
    /// 4.6
    fn hash_first_degree(&self, reference: &str) -> String {
        let mut nquads: Vec<String> = self.b2q[reference].iter().map(|&i| spec_line(&self.quads[i], &|l| if l == reference { "_:a".into() } else { "_:z".into() })).collect();
        nquads.sort();
        (self.hash)(&nquads.concat())
    }
    /// 4.7
    fn hash_related(&self, related: &str, quad: &Q, issuer: &SIssuer, position: char) -> String {
        let mut input = String::new();
        input.push(position);
        if position != 'g' {
            input.push('<');
            input.push_str(match &quad.0[1] { SimpleTerm::Iri(i) => i.as_str(), _ => unreachable!() });
            input.push('>');
        }
        if let Some(c) = self.canonical.map.get(related) {
            input.push_str("_:");
            input.push_str(c);
        } else if let Some(t) = issuer.map.get(related) {
            input.push_str("_:");
            input.push_str(t);
        } else {
            input.push_str(&self.hash_first_degree(related));
        }
        (self.hash)(&input)
    }
    /// 4.8; the issuer is passed and replaced "by reference"
    fn hash_n_degree(&mut self, identifier: &str, issuer: &mut SIssuer, depth: usize) -> String {
        self.max_depth = self.max_depth.max(depth);
        let mut hn: BTreeMap<String, Vec<String>> = BTreeMap::new();
        for &qi in &self.b2q[identifier].clone() {
            let quad = &self.quads[qi];
            let comps = [(Some(&quad.0[0]), 's'), (Some(&quad.0[2]), 'o'), (quad.1.as_ref(), 'g')];
            for (c, pos) in comps {
                if let Some(l) = c.and_then(blabel) {
                    if l != identifier {
                        let h = self.hash_related(&l, quad, issuer, pos);
                        hn.entry(h).or_default().push(l);
                    }
                }
            }
        }
        let mut data_to_hash = String::new();
        for (related_hash, blank_node_list) in hn {
            data_to_hash.push_str(&related_hash);
            let mut chosen_path = String::new();
            let mut chosen_issuer: Option<SIssuer> = None;
            self.max_list = self.max_list.max(blank_node_list.len());
            'perm: for perm in heap_order_perms(blank_node_list.len()) {
                let p: Vec<&String> = perm.iter().map(|&i| &blank_node_list[i]).collect();
                let mut issuer_copy = issuer.clone();
                let mut path = String::new();
                let mut recursion_list: Vec<String> = vec![];
                for related in p {
                    if let Some(c) = self.canonical.map.get(related) {
                        path.push_str("_:");
                        path.push_str(c);
                    } else {
                        if !issuer_copy.map.contains_key(related) {
                            recursion_list.push(related.clone());
                        }
                        path.push_str("_:");
                        path.push_str(&issuer_copy.issue(related));
                    }
                    if !chosen_path.is_empty() && path.len() >= chosen_path.len() && path > chosen_path {
                        continue 'perm;
                    }
                }
                for related in recursion_list {
                    let result = self.hash_n_degree(&related, &mut issuer_copy, depth + 1);
                    path.push_str("_:");
                    path.push_str(&issuer_copy.issue(&related));
                    path.push('<');
                    path.push_str(&result);
                    path.push('>');
                    if !chosen_path.is_empty() && path.len() >= chosen_path.len() && path > chosen_path {
                        continue 'perm;
                    }
                }
                if chosen_path.is_empty() || path < chosen_path {
                    chosen_path = path;
                    chosen_issuer = Some(issuer_copy);
                }
            }
            data_to_hash.push_str(&chosen_path);
            *issuer = chosen_issuer.expect("a non-empty list has a permutation");
        }
        (self.hash)(&data_to_hash)
    }
}
/// 4.4; Err = input outside RDFC-1.0 (generalized RDF)
pub fn spec_rdfc10(quads: &[Q], hash: &dyn Fn(&str) -> String) -> Result<SpecOut, String> {
    for q in quads {
        if !matches!(q.0[1], SimpleTerm::Iri(_)) {
            return Err("predicate is not an IRI".into());
        }
        if q.0.iter().chain(q.1.iter()).any(|t| t.is_triple() || t.is_variable()) {
            return Err("quoted triple or variable".into());
        }
    }
    let mut sp = Spec { quads, b2q: BTreeMap::new(), canonical: SIssuer::new("c14n"), hash, max_depth: 0, max_list: 0 };
    // step 2: one reference per blank node of the quad
    for (i, q) in quads.iter().enumerate() {
        let bs: BTreeSet<String> = q_blanks(q).into_iter().collect();
        for l in bs {
            sp.b2q.entry(l).or_default().push(i);
        }
    }
    // step 3
    let mut h2b: BTreeMap<String, Vec<String>> = BTreeMap::new();
    for n in sp.b2q.keys() {
        h2b.entry(sp.hash_first_degree(n)).or_default().push(n.clone());
    }
    // step 4
    let mut rest: Vec<(String, Vec<String>)> = vec![];
    for (h, ids) in h2b {
        if ids.len() > 1 {
            rest.push((h, ids));
        } else {
            sp.canonical.issue(&ids[0]);
        }
    }
    // step 5
    let mut ties = vec![];
    for (_, ids) in rest {
        let mut hash_path_list: Vec<(String, SIssuer, String)> = vec![];
        for n in ids {
            if sp.canonical.map.contains_key(&n) {
                continue; // 5.2.1
            }
            let mut temporary = SIssuer::new("b");
            temporary.issue(&n);
            let h = sp.hash_n_degree(&n, &mut temporary, 0);
            hash_path_list.push((h, temporary, n));
        }
        hash_path_list.sort_by(|a, b| a.0.cmp(&b.0));
        for w in hash_path_list.windows(2) {
            if w[0].0 == w[1].0 {
                ties.push((w[0].2.clone(), w[1].2.clone()));
            }
        }
        for (_, issuer, _) in hash_path_list {
            for existing in issuer.order {
                sp.canonical.issue(&existing);
            }
        }
    }
    // serialisation: relabel, sort the lines in code point order
    let canon = sp.canonical.map.clone();
    let mut lines: Vec<String> = quads.iter().map(|q| spec_line(q, &|l| format!("_:{}", canon[l]))).collect();
    lines.sort();
    Ok(SpecOut { bytes: lines.concat(), idmap: canon, max_depth: sp.max_depth, max_list: sp.max_list, ties })
}
pub fn hash_with<H: HashFunction>(s: &str) -> String {
    let mut h = H::initialize();
    h.update(s.as_bytes());
    hex(h.finalize().as_ref())
}
pub fn spec_run(quads: &[Q], sha384: bool) -> Result<SpecOut, String> {
    if sha384 { spec_rdfc10(quads, &hash_with::<Rec<Sha384>>) } else { spec_rdfc10(quads, &hash_with::<Rec<Sha256>>) }
}

/// is there an automorphism of the dataset (a permutation of its blank node labels mapping the
/// set of quads onto itself) sending x to y?  brute force; datasets have at most 6 blank nodes
pub fn automorphic(d: &[Q], x: &str, y: &str) -> bool {
    let labels: Vec<String> = d_blanks(d).into_iter().collect();
    let set: HashSet<String> = d.iter().map(show_q).collect();
    let xi = labels.iter().position(|l| l == x).unwrap();
    let yi = labels.iter().position(|l| l == y).unwrap();
    for perm in lex_perms(labels.len()) {
        if perm[xi] != yi {
            continue;
        }
        let f = |l: &str| labels[perm[labels.iter().position(|k| k == l).unwrap()]].clone();
        if d.iter().all(|q| set.contains(&show_q(&rename_q(q, &f)))) {
            return true;
        }
    }
    false
}

// ---------------------------------------------------------------- the two drivers
fn parse_back(bytes: &str) -> Result<Vec<Q>, String> {
    let mut out: Vec<Q> = vec![];
    sophia_turtle::parser::nq::parse_bufread(bytes.as_bytes())
        .for_each_quad(|q| out.push(([to_st(q.s()), to_st(q.p()), to_st(q.o())], q.g().map(to_st))))
        .map_err(|e| e.to_string())?;
    Ok(out)
}
fn has_repeat(d: &[Q]) -> bool {
    d.iter().any(|q| { let b = q_blanks(q); let s: BTreeSet<&String> = b.iter().collect(); s.len() < b.len() })
}
fn has_three(d: &[Q]) -> bool {
    d.iter().any(|q| q_blanks(q).into_iter().collect::<BTreeSet<_>>().len() >= 3)
}
/// all graphs over blank nodes e0..e2 and two predicates with 1..=4 edges (self loops included)
fn exhaustive_case(k: usize) -> Option<Vec<Q>> {
    let mut edges: Vec<Q> = vec![];
    for s in 0..3 { for p in [P, PQ] { for o in 0..3 { edges.push(e(b(s), p, b(o))); } } }
    let n = edges.len();
    let mut idx = 0usize;
    for size in 1..=4usize {
        let mut c: Vec<usize> = (0..size).collect();
        loop {
            if idx == k { return Some(c.iter().map(|&i| edges[i].clone()).collect()); }
            idx += 1;
            let mut i = size;
            while i > 0 && c[i - 1] == n - size + (i - 1) { i -= 1; }
            if i == 0 { break; }
            c[i - 1] += 1;
            for j in i..size { c[j] = c[j - 1] + 1; }
        }
    }
    None
}
pub const EXHAUSTIVE: usize = 18 + 153 + 816 + 3060;
const DF_GRID: [u64; 7] = [0, 250, 500, 1000, 1500, 2000, 3000];
const PL_GRID: [usize; 7] = [0, 1, 2, 3, 4, 6, 12];

fn check_one(tag: &str, d: &[Q], order: &[Q], out: &Outcome, spec: &Result<SpecOut, String>, df1000: u64, pl: usize, fails: &mut Vec<String>) {
    let nb = d_blanks(d).len();
    // generalized RDF (a literal as predicate) is outside RDFC-1.0 and outside the property: sophia then
    // either writes a generalized document or panics in hash_related_bnode (`quad.p().iri().unwrap()`);
    // only the model of the implementation is compared on such input
    if d.iter().any(|q| !matches!(q.0[1], SimpleTerm::Iri(_) | SimpleTerm::BlankNode(_) | SimpleTerm::Triple(_) | SimpleTerm::Variable(_))) {
        return;
    }
    match out.code {
        0 => {
            // (b) the document re-reads to a dataset isomorphic to the input, labelled c14n0..c14n(n-1)
            match parse_back(&out.bytes) {
                Err(e) => fails.push(format!("{tag}: the canonical document does not parse back ({e}): {:?}", out.bytes)),
                Ok(back) => {
                    let want: BTreeSet<String> = (0..nb).map(|i| format!("c14n{i}")).collect();
                    if d_blanks(&back) != want { fails.push(format!("{tag}: blank nodes of the output are {:?}, expected c14n0..c14n{}", d_blanks(&back), nb as i64 - 1)); }
                    if back.len() != d.len() || !sophia_isomorphism::isomorphic_datasets(&back, &d.to_vec()).unwrap() { fails.push(format!("{tag}: the canonical document is not isomorphic to the input: {:?}", out.bytes)); }
                }
            }
            // (c) the identifier map is a bijection onto c14n0.. and maps the input onto the returned quads
            let keys: BTreeSet<String> = out.idmap.iter().map(|p| p.0.clone()).collect();
            let vals: BTreeSet<String> = out.idmap.iter().map(|p| p.1.clone()).collect();
            let want: BTreeSet<String> = (0..nb).map(|i| format!("c14n{i}")).collect();
            if keys != d_blanks(d) || vals != want || out.idmap.len() != nb { fails.push(format!("{tag}: identifier map {:?} is not a bijection from the input labels onto c14n0..c14n{}", out.idmap, nb as i64 - 1)); }
            let m: BTreeMap<String, String> = out.idmap.iter().cloned().collect();
            let mapped: Vec<String> = order.iter().map(|q| show_q(&rename_q(q, &|l| m.get(l).cloned().unwrap_or_else(|| format!("MISSING-{l}"))))).collect();
            let got: Vec<String> = out.quads.iter().map(show_q).collect();
            if mapped != got { fails.push(format!("{tag}: applying the identifier map to the input gives {mapped:?} but the returned quads are {got:?}")); }
            // (d) equality with the independent transcription of the W3C text
            match spec {
                Ok(s) if s.bytes == out.bytes && s.idmap.iter().map(|(k, v)| (k.clone(), v.clone())).collect::<Vec<_>>() == out.idmap => {}
                Ok(s) if s.bytes == out.bytes => fails.push(format!("{tag}: issued identifiers differ from RDFC-1.0 as transcribed from the W3C text (same permutation and node orders){}: got {:?}, specification gives {:?}", if has_repeat(d) { " (the dataset has a quad mentioning one blank node twice)" } else { "" }, out.idmap, s.idmap)),
                Ok(s) => fails.push(format!("{tag}: output differs from RDFC-1.0 as transcribed from the W3C text{}: got {:?}, specification gives {:?}", if has_repeat(d) { " (the dataset has a quad mentioning one blank node twice)" } else if nb > 10 { " (the dataset has more than ten blank nodes: temporary identifiers _:b9 / _:b10 give paths of different lengths, and smaller_path prefers the shorter one instead of the one that is first in code point order)" } else { "" }, out.bytes, s.bytes)),
                Err(e) => fails.push(format!("{tag}: canonicalisation succeeded on input outside RDFC-1.0 ({e})")),
            }
        }
        1 | 2 => {
            if is_supported(d) { fails.push(format!("{tag}: Unsupported ({}) reported for a supported dataset", out.msg)); }
        }
        3 | 4 => {
            // (e) a limit only fires when it is actually exceeded
            match spec {
                Ok(s) => {
                    let depth_exceeded = (s.max_depth as u64) * 1000 > df1000 * nb as u64;
                    let perm_exceeded = s.max_list > pl;
                    if !depth_exceeded && !perm_exceeded { fails.push(format!("{tag}: ToxicGraph ({}) although the specification's run needs recursion depth {} <= {}*{}/1000 and permutes at most {} <= {} nodes", out.msg, s.max_depth, df1000, nb, s.max_list, pl)); }
                }
                Err(e) => fails.push(format!("{tag}: ToxicGraph on input outside RDFC-1.0 ({e})")),
            }
        }
        _ => fails.push(format!("{tag}: canonicalisation ended with {} instead of a result or an explicit error", out.msg)),
    }
}

fn c_idmap(m: &[(String, String)]) -> String {
    coq_list(m.iter().map(|(k, v)| format!("({}, {})", pstr(k), pstr(v))))
}

pub fn run(mode: &str) {
    let a = parse_args();
    let c06 = mode == "C06";
    let prefix_model = a.rest.iter().any(|x| x == "--prefix-model");
    let once = coq_bool(!prefix_model);
    let mut sum = Summary::default();
    sum.rule = if c06 {
        "case = (dataset: every graph over 3 blank nodes and 2 predicates with 1..4 edges in the thorough tier, then the C05 shapes with emphasis on literals with escape-relevant characters, quads mentioning one node twice and quads with three blank nodes, and (rarely, being expensive) datasets with more than ten blank nodes in which one node is related twice to another, so that temporary identifiers _:b9 / _:b10 give permutation paths of different lengths; store type; SHA-256 or SHA-384; run once with the default limits and once with (depth_factor, permutation_limit) from the grid {0,.25,.5,1,1.5,2,3} x {0,1,2,3,4,6,12}); three-way comparison implementation / model of the implementation / model of the specification; non-trivial = hash-n-degree ran (two blank nodes share a first-degree hash), or a literal needs escaping, or the input is unsupported, or a limit fired; distinct = distinct (dataset, limits, hash)".into()
    } else {
        "case = (dataset of one shape among cycle / clique / disjoint isomorphic components / star / bipartite / blank graph names / node twice in a quad / three blank nodes in a quad / section-4-row-28 witness / literals / random / unsupported / tree, at most 6 blank nodes; a copy under a random label bijection and quad order; two store types among HashSet, BTreeSet, FastDataset, LightDataset; SHA-256 or SHA-384); non-trivial = hash-n-degree ran (two blank nodes share a first-degree hash); distinct = distinct (dataset, copy, hash)".into()
    };
    let base = Rng::new(a.seed);
    // tier-dependent generation is selected by an explicit flag so that `--only` replays reproduce it
    let thorough = a.rest.iter().any(|x| x == "--thorough");
    let mut cases = vec![];
    let mut seen = HashSet::new();
    let mut max_table = 0usize;
    let range: Vec<usize> = match a.only { Some(i) => vec![i], None => (0..a.n).collect() };
    for idx in range {
        let mut r = base.fork(idx as u64);
        let exhaustive = c06 && thorough && idx < EXHAUSTIVE;
        let forced = a.rest.iter().position(|x| x == "--shape").and_then(|i| a.rest.get(i + 1)).and_then(|n| SHAPES.iter().position(|s| s == n));
        let mut shape = if let Some(f) = forced { f } else if c06 { *r.pick(&[9usize, 9, 9, 6, 6, 7, 10, 10, 11, 0, 1, 2, 3, 4, 5, 8, 12]) } else { r.below(SHAPES.len() - 2) };
        if forced.is_none() && c06 {
            // more than ten temporary identifiers: expensive for the Coq side, hence rare
            if r.chance(1, 100) { shape = 14; } else if thorough && r.chance(1, 150) { shape = 13; }
        }
        let big = thorough && r.chance(1, 40);
        let d: Vec<Q> = if exhaustive { exhaustive_case(idx).unwrap() } else { gen_dataset(&mut r, shape, big) };
        let shape_name = if exhaustive { "exhaustive" } else { SHAPES[shape] };
        let sha384 = r.chance(1, 3) && shape_name != "b9-b10-witness";
        let (s1, s2) = (r.below(4), r.below(4));
        let _ = take_table();
        let mut fails: Vec<String> = vec![];
        let spec1 = spec_run(&d, sha384);
        let nontrivial_nd = spec1.as_ref().map(|s| s.max_list > 0).unwrap_or(false);
        let mut body: Vec<String> = vec![];
        let mut text = format!("{} [{}] {}", shape_name, if sha384 { "sha384" } else { "sha256" }, show_d(&d));
        if c06 {
            let (dfg, plg) = (*r.pick(&DF_GRID), *r.pick(&PL_GRID));
            let mut shuffled = d.clone();
            shuffle(&mut shuffled, &mut r);
            for (k, (df1000, pl)) in [(1000u64, 6usize), (dfg, plg)].into_iter().enumerate() {
                let store = if k == 0 { s1 } else { s2 };
                let (order, out) = run_impl(&shuffled, store, sha384, df1000 as f32 / 1000.0, pl);
                // the specification runs on the quads as the store enumerates them (a term index keeps the
                // first spelling of language tags that differ only in case)
                let spec_o = spec_run(&order, sha384);
                check_one(&format!("limits ({},{}) in {}", df1000 as f32 / 1000.0, pl, STORES[store]), &order, &order, &out, &spec_o, df1000, pl, &mut fails);
                sum.bump(&format!("outcome:{}", ["ok", "unsupported-blank-predicate", "unsupported-term", "toxic-depth", "toxic-permutations", "panic"].get(out.code as usize).unwrap_or(&"other")));
                if a.only.is_some() { println!("RUN limits=({df1000}/1000,{pl}) store={} order={} => code {} {} bytes={:?} idmap={:?}", STORES[store], show_d(&order), out.code, out.msg, out.bytes, out.idmap); }
                body.push(format!("three_ok {once} tbl {df1000} {pl} {} {} {} {}", c_quads(&order), out.code, pstr(&out.bytes), c_idmap(&out.idmap)));
            }
            text.push_str(&format!(" limits=({dfg},{plg})"));
        } else {
            // the copy: label bijection + quad order
            let labels: Vec<String> = d_blanks(&d).into_iter().collect();
            let mut fresh: Vec<String> = match r.below(3) {
                0 => labels.clone(),
                1 => (0..labels.len()).map(|i| format!("b{}", 9 + i)).collect(),
                _ => (0..labels.len()).map(|i| ["z", "Y", "x1", "a", "e0", "m-2"][i % 6].to_string() + &"q".repeat(i / 6)).collect(),
            };
            shuffle(&mut fresh, &mut r);
            let d2: Vec<Q> = { let mut v: Vec<Q> = d.iter().map(|q| rename_q(q, &|l| fresh[labels.iter().position(|k| k == l).unwrap()].clone())).collect(); shuffle(&mut v, &mut r); v };
            let (o1, out1) = run_impl(&d, s1, sha384, 1.0, 6);
            let (o2, out2) = run_impl(&d2, s2, sha384, 1.0, 6);
            // the specification runs on the quads as the stores enumerate them (a term index keeps the
            // first spelling of language tags that differ only in case)
            let spec1 = spec_run(&o1, sha384);
            let spec2 = spec_run(&o2, sha384);
            check_one(&format!("original in {}", STORES[s1]), &o1, &o1, &out1, &spec1, 1000, 6, &mut fails);
            check_one(&format!("copy in {}", STORES[s2]), &o2, &o2, &out2, &spec2, 1000, 6, &mut fails);
            sum.bump(&format!("outcome:{}", ["ok", "unsupported-blank-predicate", "unsupported-term", "toxic-depth", "toxic-permutations", "panic"].get(out1.code as usize).unwrap_or(&"other")));
            // (a) invariance
            let mut tie = None;
            for (s, dd) in [(&spec1, &d), (&spec2, &d2)] {
                if let Ok(s) = s { for (x, y) in &s.ties { if !automorphic(dd, x, y) { tie = Some((x.clone(), y.clone())); } } }
            }
            if tie.is_some() { sum.bump("tie:non-automorphic-nodes"); }
            if let (Ok(s), true) = (&spec1, tie.is_none()) { if !s.ties.is_empty() { sum.bump("tie:automorphic-nodes"); } }
            if out1.code != out2.code {
                fails.push(format!("outcome depends on labels/order/store: {} ({}) for {} but {} ({}) for the relabelled copy {}", out1.code, out1.msg, show_d(&d), out2.code, out2.msg, show_d(&d2)));
            } else if out1.code == 0 && out1.bytes != out2.bytes {
                let spec_agrees = matches!((&spec1, &spec2), (Ok(x), Ok(y)) if x.bytes == out1.bytes && y.bytes == out2.bytes);
                if let (Some((x, y)), true) = (&tie, spec_agrees) {
                    fails.push(format!("RDFC-1.0 tie between non-automorphic nodes (_:{x} and _:{y} get equal hash-n-degree results; the independent transcription of the W3C text behaves identically{}): isomorphic inputs {} and {} get different canonical documents {:?} and {:?}", if has_three(&d) { "; the dataset has a quad with three blank nodes" } else { "" }, show_d(&d), show_d(&d2), out1.bytes, out2.bytes));
                } else {
                    fails.push(format!("canonical bytes depend on labels/order/store: {} gives {:?} but its relabelled copy {} gives {:?}", show_d(&d), out1.bytes, show_d(&d2), out2.bytes));
                }
            }
            if a.only.is_some() {
                println!("ORIGINAL store={} order={} => code {} {} bytes={:?} idmap={:?}", STORES[s1], show_d(&o1), out1.code, out1.msg, out1.bytes, out1.idmap);
                println!("COPY store={} order={} => code {} {} bytes={:?} idmap={:?}", STORES[s2], show_d(&o2), out2.code, out2.msg, out2.bytes, out2.idmap);
            }
            body.push(format!("impl_ok {once} tbl 1000 6 {} {} {} {}", c_quads(&o1), out1.code, pstr(&out1.bytes), c_idmap(&out1.idmap)));
            body.push(format!("impl_ok {once} tbl 1000 6 {} {} {} {}", c_quads(&o2), out2.code, pstr(&out2.bytes), c_idmap(&out2.idmap)));
            text.push_str(&format!(" copy={}", show_d(&d2)));
        }
        let table = take_table();
        max_table = max_table.max(table.len());
        if a.only.is_some() {
            println!("CASE {idx}: {text}");
            if let Ok(s) = &spec1 { println!("SPEC bytes={:?} idmap={:?} max_depth={} max_list={} ties={:?}", s.bytes, s.idmap, s.max_depth, s.max_list, s.ties); }
            println!("hash table: {} entries", table.len());
            for f in &fails { println!("ORACLE FAILURE: {f}"); }
        }
        for f in fails { sum.oracle_failures.push((idx.to_string(), f)); }
        let escapes = d.iter().any(|q| q.0.iter().any(|t| matches!(t, SimpleTerm::LiteralDatatype(l, _) | SimpleTerm::LiteralLanguage(l, _) if l.chars().any(|c| (c as u32) < 0x20 || c == '"' || c == '\\' || c == '\u{7f}'))));
        let nontrivial = nontrivial_nd || (c06 && (escapes || !is_supported(&d)));
        if seen.insert(text.clone()) && nontrivial { sum.distinct_nontrivial += 1; }
        sum.bump(&format!("shape:{shape_name}"));
        if d.iter().any(|q| matches!(q.0[1], SimpleTerm::LiteralDatatype(..) | SimpleTerm::LiteralLanguage(..))) { sum.bump("generalized:literal-predicate"); }
        if has_repeat(&d) { sum.bump("class:node-twice-in-a-quad"); }
        if has_three(&d) { sum.bump("class:three-blank-nodes-in-a-quad"); }
        if nontrivial_nd { sum.bump("hash-n-degree-ran"); }
        if escapes { sum.bump("literal-needs-escaping"); }
        sum.bump(if sha384 { "hash:sha384" } else { "hash:sha256" });
        if sum.samples.len() < 5 && nontrivial { sum.samples.push(format!("case {idx}: {text}")); }
        sum.evaluations += 1;
        cases.push((idx, format!("let tbl := {} in {}", coq_table(&table), body.join(" && "))));
    }
    if a.only.is_none() {
        let header = if c06 { "From Coq Require Import Uint63.\nFrom Sophia.C05 Require Import Model.\nFrom Sophia.C06 Require Import Model." } else { "From Coq Require Import Uint63.\nFrom Sophia.C05 Require Import Model." };
        sum.shards = write_shards(&a.out, header, &cases, a.shards);
        sum.extra.push(("max_hash_table_entries".into(), max_table.to_string()));
        std::fs::write(format!("{}/summary.json", a.out), sum.to_json()).unwrap();
    }
    println!("{}: {} cases, {} distinct non-trivial, {} oracle failures", mode.to_lowercase(), sum.evaluations, sum.distinct_nontrivial, sum.oracle_failures.len());
}
