(* C05/Entry.v -- the other ways into and out of c14n/src/rdfc10.rs, on top of Model.v:
   the entry points with fixed limits (normalize / normalize_sha384 / relabel / relabel_sha384), the
   collection of the dataset's fallible quad iterator (first line of relabel_with), the writer seen
   through io::Write::write_all (short writes, a writer that fails after a byte budget), and the
   harness-facing checkers for them.  Definitions only. *)
From Sophia.C05 Require Export Model.

(* ---------- DEFAULT_DEPTH_FACTOR = 1.0, DEFAULT_PERMUTATION_LIMIT = 6 ---------- *)
Definition default_df1000 : N := 1000.
Definition default_plimit : N := 6.
(* normalize / normalize_sha384 (H = SHA-256 / SHA-384) *)
Definition normalize_default (H : str -> str) (fuel : nat) (d : list quad) : res (str * issuer) :=
  impl_model H fuel (Some default_df1000) (Some default_plimit) d.
(* relabel / relabel_sha384 *)
Definition relabel_default (H : str -> str) (fuel : nat) (d : list quad)
  : res (list quad * issuer) :=
  relabel_with H (mkVar true true) fuel (Some default_df1000) (Some default_plimit) d.

(* ---------- let quads = d.quads().map(..).collect::<Result<Vec<_>, _>>()?  ----------
   an item of the dataset's iterator is a quad or an error (None); collecting stops at the first
   error, which becomes C14nError::Dataset *)
Fixpoint collect_src (items : list (option quad)) : option (list quad) :=
  match items with
  | [] => Some []
  | None :: _ => None
  | Some q :: r => match collect_src r with Some l => Some (q :: l) | None => None end
  end.

(* outcome of a run on a fallible source: None = C14nError::Dataset *)
Definition normalize_src (H : str -> str) (v : variant) (fuel : nat) (df1000 plimit : option N)
           (items : list (option quad)) : option (res (str * issuer)) :=
  match collect_src items with
  | None => None
  | Some d => Some (normalize_with H v fuel df1000 plimit d)
  end.

(* ---------- the writer ----------
   A writer with a byte budget accepts what is left of its budget (a short write when the buffer
   is longer) and fails once nothing is left.  write_all loops over write until the buffer is
   consumed or write fails.  State = the bytes accepted so far. *)
Definition budget_write_all (budget : nat) (acc : str) (buf : str) : str * bool :=
  let left := (budget - length acc)%nat in
  (acc ++ firstn left buf, (length buf <=? left)%nat).
(* the calls made by normalize_with: for each quad write_all(line without ".\n"), write_all(".\n");
   any sequence of buffers; stops at the first failure *)
Fixpoint budget_write_seq (budget : nat) (acc : str) (bufs : list str) : str * bool :=
  match bufs with
  | [] => (acc, true)
  | b :: r =>
      let (acc', ok) := budget_write_all budget acc b in
      if ok then budget_write_seq budget acc' r else (acc', false)
  end.
Definition nq_body (q : quad) : str :=
  let '(s, p, o, g) := q in nq s ++ nq p ++ nq o ++ nq_opt g.
Definition line_bufs (q : quad) : list str := [nq_body q; s_eol].
(* normalize_with into a writer with a budget: (what the writer holds, Ok () / Err) ;
   the error of the relabelling comes before any write *)
Inductive wres := WOk | WIo | WErr (e : err).
Definition normalize_budget (H : str -> str) (v : variant) (fuel : nat) (df1000 plimit : option N)
           (budget : nat) (d : list quad) : str * wres :=
  match relabel_with H v fuel df1000 plimit d with
  | Err e => ([], WErr e)
  | Ok (qs, _) =>
      let (w, ok) := budget_write_seq budget [] (flat_map line_bufs (sort_by quad_leb qs)) in
      (w, if ok then WOk else WIo)
  end.

(* ---------- harness-facing ---------- *)
(* code 0 = Ok, 7 = C14nError::Io, otherwise the code of the relabelling error *)
Definition wres_code (w : wres) : N :=
  match w with WOk => 0 | WIo => 7 | WErr e => err_code e end.
(* one run of the model against two observations (normalize_with / relabel_with with the default
   limits, and normalize / relabel or their sha384 versions) *)
Definition impl2_ok (repaired : bool) (tbl : list (str * str)) (d : list quad)
           (code : N) (bytes : str) (idmap : list (str * str))
           (code' : N) (bytes' : str) (idmap' : list (str * str)) : bool :=
  outcome_eqb (normalize_with (tbl_H tbl) (mkVar repaired repaired) (fuel_for d)
                              (Some default_df1000) (Some default_plimit) d) code bytes idmap
  && outcome_eqb (normalize_default (tbl_H tbl) (fuel_for d) d) code' bytes' idmap'.
(* all the observations of one dataset with one evaluation of the model: the result of
   normalize_with / relabel_with under the limits (df1000, plimit), optionally the result of the
   entry points with the default limits (observed only when the limits are the default ones and
   checked against the same evaluation), optionally a run into a writer with a byte budget
   (budget, outcome code, bytes held by the writer) *)
Definition run_ok (repaired : bool) (tbl : list (str * str)) (df1000 plimit : N) (d : list quad)
           (code : N) (bytes : str) (idmap : list (str * str))
           (dflt : option (N * str * list (str * str))) (bud : option (N * N * str)) : bool :=
  let v := mkVar repaired repaired in
  let r := relabel_with (tbl_H tbl) v (fuel_for d) (Some df1000) (Some plimit) d in
  let nr := match r with Ok (qs, issued) => Ok (serialize qs, issued) | Err e => Err e end in
  outcome_eqb nr code bytes idmap
  && match dflt with
     | None => true
     | Some (c', b', i') =>
         if repaired && (df1000 =? default_df1000) && (plimit =? default_plimit)
         then outcome_eqb nr c' b' i'
         else outcome_eqb (normalize_default (tbl_H tbl) (fuel_for d) d) c' b' i'
     end
  && match bud with
     | None => true
     | Some (budget, wcode, written) =>
         let (w, wr) :=
           match r with
           | Err e => ([], WErr e)
           | Ok (qs, _) =>
               let (w, ok) := budget_write_seq (N.to_nat budget) []
                                               (flat_map line_bufs (sort_by quad_leb qs)) in
               (w, if ok then WOk else WIo)
           end in
         (wres_code wr =? wcode) && str_eqb w written
     end.

(* fallible dataset: code 6 = C14nError::Dataset *)
Definition src_len (items : list (option quad)) : nat := length items.
Definition src_ok (repaired : bool) (tbl : list (str * str)) (df1000 plimit : N)
           (items : list (option quad)) (code : N) (bytes : str) (idmap : list (str * str)) : bool :=
  match normalize_src (tbl_H tbl) (mkVar repaired repaired) (S (S (3 * src_len items)))
                      (Some df1000) (Some plimit) items with
  | None => code =? 6
  | Some r => outcome_eqb r code bytes idmap
  end.
(* writer with a budget (documents of one-byte characters only, so that bytes = code points):
   code 0 = Ok, 7 = C14nError::Io, otherwise the code of the relabelling error *)
Definition budget_ok (repaired : bool) (tbl : list (str * str)) (df1000 plimit : N) (d : list quad)
           (budget : N) (code : N) (written : str) : bool :=
  let (w, r) := normalize_budget (tbl_H tbl) (mkVar repaired repaired) (fuel_for d)
                                 (Some df1000) (Some plimit) (N.to_nat budget) d in
  (wres_code r =? code) && str_eqb w written.
