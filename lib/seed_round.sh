#!/bin/bash
# usage: seed_round.sh <tag> <Cxx> [suffixes...]     e.g. seed_round.sh r4c04 C04 a b c
# 1. confirms each seed /tmp/seed-<tag><s> in the scratch worktree /tmp/wt-<tag> (lib/confirm_batch.sh)
# 2. runs ./check <Cxx> --tier quick against each patch inside a private mount namespace whose /repo is a fresh
#    clone of /repo and whose /verif is the COMMITTED state of /verif plus its build cache (lib/shadow_seedtest.sh),
#    so neither /repo nor /verif is touched
# writes /root/seedlogs/<tag>.log and a verdict line per seed into /root/seedlogs/<tag>.verdict
tag=$1; pid=$2; shift 2
sfx=("$@"); [ ${#sfx[@]} -eq 0 ] && sfx=(a b c)
mkdir -p /root/seedlogs
log=/root/seedlogs/$tag.log; ver=/root/seedlogs/$tag.verdict
: > $log; : > $ver
seeds=(); for s in "${sfx[@]}"; do seeds+=("$tag$s"); done
/verif/lib/confirm_batch.sh $tag "${seeds[@]}" >> $log 2>&1
sh=/tmp/shadow-$tag
rm -rf $sh; mkdir -p $sh/verif
git clone -q /repo $sh/repo >> $log 2>&1
rsync -a --exclude .git --exclude 'build/target/debug/incremental' --exclude '*.vo' --exclude '*.vos' --exclude '*.vok' --exclude '*.glob' --exclude '.*.aux' --exclude 'build/run' --exclude 'build/cov' --exclude replay /verif/ $sh/verif/
git -C /verif archive HEAD | tar -x -m -C $sh/verif
( cd $sh/verif && rm -f coq/Makefile coq/Makefile.conf coq/.Makefile.d && python3 lib/gen_all.py >/dev/null 2>&1 )
for s in "${sfx[@]}"; do
  sd=/tmp/seed-$tag$s
  [ -f $sd/patch.diff ] || { echo "$tag$s: no patch" >> $ver; continue; }
  echo "=== shadow check of $tag$s against $pid" >> $log
  SHADOW=$sh /verif/lib/shadow_seedtest.sh $sd/patch.diff $pid quick > $sd/check_quick.log 2>&1
  cat $sd/check_quick.log | tail -15 >> $log
  conf=$(grep -A3 "== $tag$s " $log | grep -c "expect" )
  d0=$(grep -A1 "== $tag$s " $log | grep "demo WITHOUT" | sed -E 's/.*exit ([0-9]+).*/\1/')
  d1=$(grep -A2 "== $tag$s " $log | grep "demo WITH change" | sed -E 's/.*exit ([0-9]+).*/\1/')
  su=$(grep -A3 "== $tag$s " $log | grep "existing suite" | sed -E 's/.*exit ([0-9]+).*; (.*)/\1 (\2)/')
  v=$(grep -m1 "^VIOLATION" $sd/check_quick.log || echo "NO-VIOLATION")
  echo "$tag$s: demo-without=$d0 demo-with=$d1 suite-with=$su | $v" >> $ver
done
rm -rf $sh
cat $ver
