(* C02/Properties.v -- pinned statements of property C02. *)
From Sophia.C02 Require Import Model Proofs.
From Sophia.gen Require Consts.

(* the model's kind order is the one the source declares (re-generated from `enum TermKind`) *)
Check (eq_refl : (kind_rank KBnode, kind_rank KIri, kind_rank KLiteral, kind_rank KTriple, kind_rank KVariable)
               = (Consts.termkind_BlankNode, Consts.termkind_Iri, Consts.termkind_Literal, Consts.termkind_Triple, Consts.termkind_Variable)).
Theorem kind_ranks_from_source :
  (kind_rank KBnode, kind_rank KIri, kind_rank KLiteral, kind_rank KTriple, kind_rank KVariable)
  = (Consts.termkind_BlankNode, Consts.termkind_Iri, Consts.termkind_Literal, Consts.termkind_Triple, Consts.termkind_Variable).
Proof. reflexivity. Qed.
(* blank nodes < IRIs < literals < quoted triples < variables, for the generated numbers *)
Theorem kind_chain_from_source :
  (Consts.termkind_BlankNode < Consts.termkind_Iri /\ Consts.termkind_Iri < Consts.termkind_Literal
   /\ Consts.termkind_Literal < Consts.termkind_Triple /\ Consts.termkind_Triple < Consts.termkind_Variable)%N.
Proof. repeat split; reflexivity. Qed.

(* equality is an equivalence relation *)
Check (term_eqb_refl : forall a, term_eqb a a = true).
Check (term_eqb_sym : forall a b, term_eqb a b = term_eqb b a).
Check (term_eqb_trans : forall a b c, term_eqb a b = true -> term_eqb b c = true -> term_eqb a c = true).
(* equal terms hash identically *)
Check (eq_same_hash : forall a b, term_eqb a b = true -> hash_stream a = hash_stream b).
(* comparison is a total order, Equal exactly on equal terms *)
Check (term_cmp_antisym : forall a b, wf a -> wf b -> term_cmp b a = CompOpp (term_cmp a b)).
Check (term_cmp_trans : forall c x y z, wf x -> wf y -> wf z ->
  term_cmp x y = c -> term_cmp y z = c -> term_cmp x z = c).
Check (term_cmp_eq : forall a b, wf a -> wf b -> (term_cmp a b = Eq <-> term_eqb a b = true)).
Check (term_cmp_total : forall a b, wf a -> wf b ->
  term_cmp a b = Lt \/ term_eqb a b = true \/ term_cmp b a = Lt).
Check (kind_order : forall a b, (kind_rank (kind_of a) < kind_rank (kind_of b))%N -> term_cmp a b = Lt).
(* the one overridden eq (NsTerm) coincides with the default *)
Check (ns_term_eq_is_default : forall ns suffix other,
  ns_iri_eqb ns suffix other = term_eqb (Iri (ns ++ suffix)) (Iri other)).

Print Assumptions kind_ranks_from_source.
Print Assumptions kind_chain_from_source.
Print Assumptions term_eqb_refl.
Print Assumptions term_eqb_sym.
Print Assumptions term_eqb_trans.
Print Assumptions eq_same_hash.
Print Assumptions term_cmp_antisym.
Print Assumptions term_cmp_trans.
Print Assumptions term_cmp_eq.
Print Assumptions term_cmp_total.
Print Assumptions kind_order.
Print Assumptions ns_term_eq_is_default.

(* ---- accessors, components, constructors (widened harness) ---- *)
(* a copy / conversion / accessor result spelled the same is the same term, hence an equal one *)
Check (term_same_spec : forall a b, term_same a b = true <-> a = b).
Check (term_same_eqb : forall a b, term_same a b = true -> term_eqb a b = true).
Check (built_ok_eq : forall t obs, built_ok t obs = true -> forallb (term_eqb t) obs = true).
(* equality of atoms depends only on what the accessors return *)
Check (eq_via_accessors : forall a b, t_is_atom a = true -> term_eqb a b = eq_acc a b).
Check (atom_view_inj : forall a b,
  t_is_atom a = true -> t_is_atom b = true -> kind_of a = kind_of b ->
  acc_iri a = acc_iri b -> acc_bnode a = acc_bnode b -> acc_var a = acc_var b ->
  acc_lex a = acc_lex b -> acc_dt a = acc_dt b -> acc_tag a = acc_tag b -> a = b).
Check (tview_ok_self : forall t,
  tview_ok t (kind_rank (kind_of t)) (t_is_atom t) (acc_iri t) (acc_bnode t) (acc_lex t) (acc_dt t)
           (acc_tag t) (acc_var t) = true).
(* quoted-triple components: atoms / constituents / to_triple of equal terms are pairwise equal *)
Check (atoms_filter : forall t, t_atoms t = filter t_is_atom (t_constituents t)).
Check (atoms_atomic : forall t, forallb t_is_atom (t_atoms t) = true).
Check (constituents_count : forall t,
  if t_is_atom t then t_constituents t = [t] /\ t_atoms t = [t]
  else (4 <= length (t_constituents t))%nat /\ (3 <= length (t_atoms t))%nat).
Check (eq_atoms : forall a b, term_eqb a b = true -> list_eqb term_eqb (t_atoms a) (t_atoms b) = true).
Check (eq_constituents : forall a b,
  term_eqb a b = true -> list_eqb term_eqb (t_constituents a) (t_constituents b) = true).
Check (eq_to_triple : forall a b, term_eqb a b = true ->
  match t_to_triple a, t_to_triple b with
  | Some (s, p, o), Some (s', p', o') => term_eqb s s' && term_eqb p p' && term_eqb o o' = true
  | None, None => True
  | _, _ => False
  end).
(* `lex * ns_term` *)
Check (ns_lit_eq : forall ns sfx lex lex' other,
  term_eqb (ns_lit ns sfx lex) (LitDt lex' other) = str_eqb lex lex' && ns_iri_eqb ns sfx other).
(* graph names *)
Check (gname_eqb_refl : forall a, gname_eqb a a = true).
Check (gname_eqb_sym : forall a b, gname_eqb a b = gname_eqb b a).
Check (gname_eqb_trans : forall a b c, gname_eqb a b = true -> gname_eqb b c = true -> gname_eqb a c = true).
Check (gname_default : forall a, gname_eqb None a = true <-> a = None).

(* non-vacuity: a nested quoted triple, its atoms in order, and a copy that differs only in tag case *)
Example components_example :
  let t := Triple (Triple (Bnode [98]) (Iri [112]) (LitLang [108] [69;78])) (Iri [113]) (Var [118]) in
  t_atoms t = [Bnode [98]; Iri [112]; LitLang [108] [69;78]; Iri [113]; Var [118]]
  /\ length (t_constituents t) = 7%nat
  /\ term_same t (Triple (Triple (Bnode [98]) (Iri [112]) (LitLang [108] [101;110])) (Iri [113]) (Var [118])) = false
  /\ term_eqb t (Triple (Triple (Bnode [98]) (Iri [112]) (LitLang [108] [101;110])) (Iri [113]) (Var [118])) = true
  /\ gname_eqb None (Some t) = false.
Proof. repeat split; vm_compute; reflexivity. Qed.

Print Assumptions term_same_spec.
Print Assumptions term_same_eqb.
Print Assumptions built_ok_eq.
Print Assumptions eq_via_accessors.
Print Assumptions atom_view_inj.
Print Assumptions tview_ok_self.
Print Assumptions atoms_filter.
Print Assumptions atoms_atomic.
Print Assumptions constituents_count.
Print Assumptions eq_atoms.
Print Assumptions eq_constituents.
Print Assumptions eq_to_triple.
Print Assumptions ns_lit_eq.
Print Assumptions gname_eqb_refl.
Print Assumptions gname_eqb_sym.
Print Assumptions gname_eqb_trans.
Print Assumptions gname_default.
