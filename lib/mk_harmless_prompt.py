#!/usr/bin/env python3
"""usage: mk_harmless_prompt.py <tag> <Cxx> <Cyy>  -> /tmp/harmlessprompt-<tag>.txt"""
import json, os, sys
ROOT = os.path.dirname(os.path.dirname(os.path.abspath(__file__)))
tag = sys.argv[1]
ps = {json.loads(l)["id"]: json.loads(l) for l in open(os.path.join(ROOT, "properties.jsonl"))}
txt = ""
for pid in sys.argv[2:]:
    p = ps[pid]
    txt += "%s -- %s\n%s\nAnchored in: %s\n\n" % (pid, p["title"], p["statement"], ", ".join(p["anchors"]["files"]))
t = open(os.path.join(ROOT, "lib", "prompts", "harmless.txt")).read()
t = t.replace("@WT@", "/tmp/wt-" + tag).replace("@TAG@", tag).replace("@PROPS@", txt)
open("/tmp/harmlessprompt-%s.txt" % tag, "w").write(t)
print("/tmp/harmlessprompt-%s.txt" % tag)
