(* C15/ParserSource.v -- the parser end of a stream, concretely: the N-Triples / N-Quads parsers
   of rio_turtle 0.8.6 (ntriples.rs) seen through sophia_rio's StrictRioTripleSource /
   StrictRioQuadSource (rio/src/parser.rs), which is what sophia_turtle::parser::{nt,nq} build.
   Definitions only (proofs: ParserProofs.v).

   What is transcribed, function by function:
     LookAheadByteReader::new      the reader starts on a synthetic LF pushed in front of the input
     NQuadsParser::is_end          current() is None  <=>  no input left
     parse_quad_line               one call reads ONE line (up to and including the next LF, or to the
                                   end of input): blank / comment line, or one statement, or a syntax error
     NQuadsParser::parse_step      Ok(Some) => on_quad(..) (its error is returned as is);  Ok(None) => Ok(());
                                   Err(e) => consume_line_end(); Err(E::from(e))
     StrictRioQuadSource::try_for_some_item
                                   is_end => Ok(false); the consumer's error is wrapped in RioStreamError::Sink,
                                   the parser's in RioStreamError::Source (via From), converted to StreamError,
                                   `.and(Ok(true))`
     Source::try_for_each_item     while self.try_for_some_item(&mut f)? {}
   The reading of the terms of one line is NOT transcribed from rio: `parse_line` is a parameter of
   everything in the first section (the theorems hold for every line reader), and it is instantiated
   with the reference reader of C03/Model.v (written from the W3C grammar) wrapped in the control flow
   of parse_quad_line / parse_triple_line.  The input is a list of code points: the harness feeds &str
   (always valid UTF-8), and LF is one byte in UTF-8, so lines are the same in both views. *)
From Sophia.Common Require Import Prelude Term.
From Sophia.C03 Require Import Model.
From Sophia.C15 Require Import Generic.

(* the input up to the first LF (excluded), and what follows that LF; without LF: everything, nothing *)
Fixpoint cut_line (t : list N) : list N * list N :=
  match t with
  | [] => ([], [])
  | c :: r => if c =? 10 then ([], r) else let '(l, r') := cut_line r in (c :: l, r')
  end.

(* documents by lines *)
Definition unlines (ls : list (list N)) : list N := flat_map (fun l => l ++ [10]) ls.
Definition no_lf (l : list N) : bool := forallb (fun c => negb (c =? 10)) l.
(* every document is  unlines ls ++ tail  with LF-free lines and an LF-free tail (split_doc_spec) *)
Fixpoint split_doc (t : list N) : list (list N) * list N :=
  match t with
  | [] => ([], [])
  | c :: r =>
      let '(ls, tl) := split_doc r in
      if c =? 10 then ([] :: ls, tl)
      else match ls with
           | [] => ([], c :: tl)
           | l :: ls' => ((c :: l) :: ls', tl)
           end
  end.
(* the lines the parser will be asked to read: an unterminated non-empty last line counts *)
Definition all_lines (ls : list (list N)) (tail : list N) : list (list N) :=
  ls ++ match tail with [] => [] | _ :: _ => [tail] end.

(* RioStreamError<E1, E2> *)
Inductive rio_err (ES EK : Type) := RSource (e : ES) | RSink (e : EK).
Arguments RSource {ES EK} e.
Arguments RSink {ES EK} e.

Section Rio.
Context {A : Type}.
(* the reader of one line: None = syntax error, Some None = nothing on this line, Some (Some x) = a statement *)
Variable parse_line : list N -> option (option A).

(* reader state: the input not yet consumed, LookAheadByteReader::line_number *)
Definition pstate := (list N * N)%type.
Definition p_init (doc : list N) : pstate := (10 :: doc, 0).
Definition p_is_end (s : pstate) : bool := match fst s with [] => true | _ :: _ => false end.

Inductive line_res := LItem (x : A) | LBlank | LErr (line : N).
(* parse_quad_line, and for the error case the `consume_line_end` of parse_step: in all three
   cases the reader ends up behind the LF of this line.  The position carried by a TurtleError is
   taken while the reader is still on the line: its line number is the current one. *)
Definition p_parse_line (s : pstate) : pstate * line_res :=
  let '(l, rest) := cut_line (fst s) in
  ((rest, snd s + 1),
   match parse_line l with
   | Some (Some x) => LItem x
   | Some None => LBlank
   | None => LErr (snd s)
   end).

(* NQuadsParser::parse_step with the callback `on` *)
Definition p_parse_step {EK St} (s : pstate) (on : A -> St -> St * option (rio_err N EK)) (k : St)
  : pstate * St * option (rio_err N EK) :=
  let '(s', r) := p_parse_line s in
  match r with
  | LItem x => let '(k', oe) := on x k in (s', k', oe)
  | LBlank => (s', k, None)
  | LErr e => (s', k, Some (RSource e))
  end.

(* StrictRioQuadSource::try_for_some_item *)
Definition rio_try_for_some {EK St} (s : pstate) (g : gsink A EK St) (k : St)
  : pstate * St * goutcome N EK :=
  if p_is_end s then (s, k, GDone)
  else
    let '(s', k', r) :=
      p_parse_step s (fun x k0 => let '(k1, oe) := g x k0 in
                                  (k1, match oe with Some e => Some (RSink e) | None => None end)) k in
    (s', k', match r with
             | None => GMore
             | Some (RSource e) => GSourceError e
             | Some (RSink e) => GSinkError e
             end).

(* try_for_each_item over the adapter chain: every adapter's try_for_some_item hands the wrapped
   consumer to the source below it, the loop is the default method on the outermost adapter.
   The loop is unbounded in Rust; every round consumes at least one code point of input, so
   fuel > length of the input is never exhausted (ParserProofs.rio_fuel_irrelevant) *)
Fixpoint rio_try_for_each {EK St} (fuel : nat) (s : pstate) (chain : list (gadapter A))
  (f : gsink A EK St) (k : St) : pstate * St * goutcome N EK :=
  match fuel with
  | O => (s, k, GMore)
  | S n =>
      let '(s', k', o) := rio_try_for_some s (gwrap chain f) k in
      match o with GMore => rio_try_for_each n s' chain f k' | _ => (s', k', o) end
  end.
Definition rio_run {EK St} (doc : list N) (chain : list (gadapter A)) (f : gsink A EK St) (k : St) :=
  rio_try_for_each (S (S (length doc))) (p_init doc) chain f k.

(* the same parser seen as an abstract source of C15 (list of steps): one step per line *)
Definition step_of (r : line_res) : list A * option N :=
  match r with LItem x => ([x], None) | LBlank => ([], None) | LErr e => ([], Some e) end.
Definition line_step (n : N) (l : list N) : list A * option N :=
  match parse_line l with
  | Some (Some x) => ([x], None)
  | Some None => ([], None)
  | None => ([], Some n)
  end.
Fixpoint abs_lines (n : N) (ls : list (list N)) : gsource A N :=
  match ls with
  | [] => []
  | l :: r => line_step n l :: abs_lines (n + 1) r
  end.
(* the unread input after `m` of the lines  ls ++ [tail]  have been read *)
Definition drop_lines (m : nat) (ls : list (list N)) (tail : list N) : list N :=
  if Nat.leb m (length ls) then unlines (skipn m ls) ++ tail else [].

(* the statements of a list of lines / all lines readable *)
Definition stmts (ls : list (list N)) : list A :=
  flat_map (fun l => match parse_line l with Some (Some x) => [x] | _ => [] end) ls.
Definition lines_ok (ls : list (list N)) : bool :=
  forallb (fun l => match parse_line l with None => false | Some _ => true end) ls.

(* pulling on after a failure, as a caller may do (try_for_some_item in a loop that records
   source errors instead of stopping): used by the harness to OBSERVE the reader state left behind *)
Fixpoint rio_resume (fuel : nat) (s : pstate) (chain : list (gadapter A)) (ev : list (A + N))
  : list (A + N) :=
  match fuel with
  | O => ev
  | S n =>
      let '(s', ev', o) :=
        rio_try_for_some (EK := N) s (gwrap chain (fun y st => (st ++ [inl y], None))) ev in
      match o with
      | GDone => ev'
      | GSourceError e => rio_resume n s' chain (ev' ++ [inr e])
      | _ => rio_resume n s' chain ev'
      end
  end.
End Rio.

(* ------------------------------------------------------------------------------------------ *)
(** * The two concrete line readers                                                            *)
(* ------------------------------------------------------------------------------------------ *)
(* parse_quad_line: skip_whitespace; None | '#' | CR | LF => skip_until_eol, Ok(None);
   parse_triple, optional graph name, '.', skip_whitespace; then None | '#' | CR | LF =>
   skip_until_eol, anything else => unexpected character.  (A CR does NOT end the line: whatever
   follows it up to the LF is skipped like a comment; this is rio's behaviour and it is kept.) *)
Definition blank_start (l : str) : bool :=
  match l with
  | [] => true
  | c :: _ => (c =? 35) || (c =? 13) || (c =? 10)
  end.
Definition nq_parse_line (line : str) : option (option quad) :=
  let l := skip_ws line in
  if blank_start l then Some None
  else match rd_statement (S (length l)) l with
       | None => None
       | Some (q, r) => if ends_stmt (skip_ws r) then Some (Some q) else None
       end.
(* parse_triple_line: the same without graph name (a fourth term is an unexpected character);
   a triple is delivered as the quad with graph name None *)
Definition nt_parse_line (line : str) : option (option quad) :=
  match nq_parse_line line with
  | Some (Some (_, _, _, Some _)) => None
  | r => r
  end.
Definition line_reader (nq : bool) := if nq then nq_parse_line else nt_parse_line.

(* ------------------------------------------------------------------------------------------ *)
(** * Harness-facing: adapters over statements as data, runs and checkers                      *)
(* ------------------------------------------------------------------------------------------ *)
Definition is_literal (t : term) : bool := match t with LitDt _ _ | LitLang _ _ => true | _ => false end.
Inductive qadesc :=
| QFilterDefaultGraph | QFilterNamedGraph | QFilterObjLiteral | QFilterPred (iri : str)
| QFilterNone | QFilterAll
| QMapId | QMapDropGraph | QMapSetGraph (iri : str) | QMapSetObj (lex : str)
| QFilterMapGraphFromObj      (* object is an IRI: name the graph after it; otherwise drop *)
| QFilterMapUnquote.          (* subject is a quoted triple: assert it (same graph); otherwise drop *)
Definition qadapter_of (d : qadesc) : gadapter quad :=
  match d with
  | QFilterDefaultGraph => GFilter (fun q : quad => match snd q with None => true | Some _ => false end)
  | QFilterNamedGraph => GFilter (fun q : quad => match snd q with None => false | Some _ => true end)
  | QFilterObjLiteral => GFilter (fun q : quad => let '(_, _, o, _) := q in is_literal o)
  | QFilterPred i => GFilter (fun q : quad => let '(_, p, _, _) := q in term_eqx p (Iri i))
  | QFilterNone => GFilter (fun _ => false)
  | QFilterAll => GFilter (fun _ => true)
  | QMapId => GMap (fun q => q)
  | QMapDropGraph => GMap (fun q : quad => let '(s, p, o, _) := q in (s, p, o, None))
  | QMapSetGraph i => GMap (fun q : quad => let '(s, p, o, _) := q in (s, p, o, Some (Iri i)))
  | QMapSetObj lex => GMap (fun q : quad => let '(s, p, _, g) := q in (s, p, LitDt lex xsd_string, g))
  | QFilterMapGraphFromObj =>
      GFilterMap (fun q : quad => let '(s, p, o, _) := q in
                                  match o with Iri i => Some (s, p, o, Some (Iri i)) | _ => None end)
  | QFilterMapUnquote =>
      GFilterMap (fun q : quad => let '(s, _, _, g) := q in
                                  match s with Triple s' p' o' => Some (s', p', o', g) | _ => None end)
  end.

(* outcome with small payloads: source error = line number, sink error = the consumer's code *)
Inductive pkind := PDone | PSource (line : N) | PSink (e : N) | PMore.
Definition pkind_of (o : goutcome N N) : pkind :=
  match o with GMore => PMore | GDone => PDone | GSourceError e => PSource e | GSinkError e => PSink e end.
Definition pkind_eqb (a b : pkind) : bool :=
  match a, b with
  | PDone, PDone | PMore, PMore => true
  | PSource x, PSource y | PSink x, PSink y => N.eqb x y
  | _, _ => false
  end.
Definition ev_eqb (a b : quad + N) : bool :=
  match a, b with inl x, inl y => quad_eqx x y | inr x, inr y => N.eqb x y | _, _ => false end.

(* the recording closure that fails with code e on its (j+1)-th item *)
Definition count_fail (fault : option (nat * N)) : list quad -> quad -> option N :=
  fun st _ => match fault with
              | Some (j, e) => if Nat.eqb (length st) j then Some e else None
              | None => None
              end.

(* run 1: parser -> chain -> recording closure; then pull on to observe the state left behind *)
Definition run_parse_rec (nq : bool) (doc : str) (chain : list qadesc) (fault : option (nat * N))
  : list quad * pkind * list (quad + N) :=
  let ch := map qadapter_of chain in
  let '(s, tr, o) := rio_run (line_reader nq) doc ch (pred_sink (count_fail fault)) [] in
  (tr, pkind_of o, rio_resume (line_reader nq) (S (S (length doc))) s ch []).
Definition run_parse_rec_ok nq doc chain fault (trace : list quad) (o : pkind) (after : list (quad + N)) : bool :=
  let '(t, k, r) := run_parse_rec nq doc chain fault in
  list_eqb quad_eqx t trace && pkind_eqb k o && list_eqb ev_eqb r after.

(* run 2: parser -> chain -> insert_all into a set-like store holding `init`: count and content *)
Definition subset_q (a b : list quad) : bool := forallb (fun x => existsb (quad_eqx x) b) a.
Definition run_parse_insert (nq : bool) (doc : str) (chain : list qadesc) (init : list quad)
  : list quad * N * pkind :=
  let s0 := fold_left (fun s x => if existsb (quad_eqx x) s then s else s ++ [x]) init [] in
  let '(_, (s, c), o) :=
    rio_run (line_reader nq) doc (map qadapter_of chain) (ginsert_sink (EK := N) quad_eqx) (s0, O) in
  (s, N.of_nat c, pkind_of o).
Definition run_parse_insert_ok nq doc chain init (content : list quad) (count : N) (o : pkind) : bool :=
  let '(s, c, k) := run_parse_insert nq doc chain init in
  subset_q s content && subset_q content s && Nat.eqb (length s) (length content)
  && N.eqb c count && pkind_eqb k o.
