//! C08: every parser on valid documents, single-edit mutants, dictionary splices, invalid UTF-8,
//! unusual IRIs and deep nesting: it must terminate with an error or with statements whose terms
//! all satisfy the toolkit's own validators; never panic / overflow the stack / abort.
//! (Exploration: the decisive content is run-time behaviour of third-party parsers.)
use sophia_api::parser::{QuadParser, TripleParser};
use sophia_api::prelude::*;
use sophia_api::term::{BnodeId, LanguageTag, SimpleTerm, VarName};
use sophia_iri::{Iri, IriRef};
use std::panic::{catch_unwind, AssertUnwindSafe};
use verif_harness::*;
// ---- round 4 (entry points, consumption modes, polyglot inputs, Unicode at every position class) ----
use sophia_api::quad::{Quad, Spog};
use sophia_api::source::{QuadSource, Source, StreamError, TripleSource};
use sophia_api::triple::Triple;
use sophia_jsonld::{JsonLdError, JsonLdOptions, JsonLdParser, RdfTerm};
use sophia_rio::model::Trusted;
use std::io::{BufRead, BufReader, Cursor, Read};

#[derive(Clone, Copy, Debug, PartialEq)]
enum Fmt { Nt, Nq, Turtle, Trig, Gnq, Gtrig, Xml, JsonLd }
const FMTS: [Fmt; 8] = [Fmt::Nt, Fmt::Nq, Fmt::Turtle, Fmt::Trig, Fmt::Gnq, Fmt::Gtrig, Fmt::Xml, Fmt::JsonLd];
impl Fmt { fn generalized(self) -> bool { matches!(self, Fmt::Gnq | Fmt::Gtrig) } }

fn seeds(f: Fmt) -> Vec<&'static str> {
    match f {
        Fmt::Nt => vec!["<http://e/s> <http://e/p> \"lit\\u00e9\\n\"@en-US .\n_:b1.x <http://e/p> <http://[2001:db8::1]:80/o%20x?q#f> .\n<< <http://e/s> <http://e/p> \"x\" >> <http://e/q> \"1\"^^<http://www.w3.org/2001/XMLSchema#integer> .\n# c\n"],
        Fmt::Nq => vec!["<http://e/s> <http://e/p> \"l\"@fr <http://e/g> .\n_:a <http://e/p> _:b _:g .\n<http://e/s> <http://e/p> << _:a <http://e/p> \"x\"^^<http://e/dt> >> .\n"],
        Fmt::Turtle => vec!["@prefix : <http://e/ns#> .\n@base <http://e/base/> .\nPREFIX x: <http://x/>\n<s> a :C ; :p 1, 2.5, 1e3, true, \"s\"@en, 'q', \"\"\"long\n\"\"\", ( 1 ( 2 ) [ :q _:b ] ) ;\n  x:a\\.b [ :r <../o> ] .\n<< <s> :p :o >> :since 2002 .\n:s :p :o {| :src <x> |} .\n"],
        Fmt::Trig => vec!["@prefix : <http://e/ns#> .\n:g { :s :p :o , \"l\"@en ; :q ( :a :b ) . }\nGRAPH _:g { [] :p [ :q 1 ] }\n{ :s :p << :a :b :c >> }\n<http://e/s> <http://e/p> <http://e/o> .\n"],
        Fmt::Gnq => vec!["<http://e/s> <http://e/p> ?v <http://e/g> .\n\"lit\" _:p ?o ?g .\n<< ?s <http://e/p> \"x\"@en >> <rel> <<_:a _:b _:c>> .\n"],
        Fmt::Gtrig => vec!["@prefix : <http://e/ns#> .\n<#me> :knows _:alice {| :since 2002 |} .\n?g { ?s a :P ; :name ?n . \"lit\" :p [ ?q ( ?x 1 ) ] }\nPREFIX e: <rel/>\ne:a e:b << e:c ?p \"o\" >> .\n"],
        Fmt::Xml => vec!["<?xml version=\"1.0\"?>\n<rdf:RDF xmlns:rdf=\"http://www.w3.org/1999/02/22-rdf-syntax-ns#\" xmlns:e=\"http://e/ns#\" xml:base=\"http://e/base/\">\n <rdf:Description rdf:about=\"s\" e:attr=\"v\">\n  <e:p rdf:resource=\"o\"/>\n  <e:q xml:lang=\"en\">text &amp; more</e:q>\n  <e:r rdf:datatype=\"http://www.w3.org/2001/XMLSchema#integer\">1</e:r>\n  <e:s rdf:nodeID=\"b1\"/>\n  <e:t rdf:parseType=\"Resource\"><e:u>x</e:u></e:t>\n  <e:c rdf:parseType=\"Collection\"><rdf:Description rdf:about=\"a\"/><rdf:Description rdf:nodeID=\"b2\"/></e:c>\n  <e:l rdf:parseType=\"Literal\"><b>x</b></e:l>\n  <rdf:li>one</rdf:li>\n  <e:i rdf:ID=\"st1\">reified</e:i>\n </rdf:Description>\n <e:C rdf:ID=\"frag\"/>\n</rdf:RDF>\n"],
        Fmt::JsonLd => vec!["{\"@context\": {\"e\": \"http://e/ns#\", \"name\": {\"@id\": \"e:name\", \"@language\": \"en\"}, \"knows\": {\"@id\": \"e:knows\", \"@type\": \"@id\"}, \"l\": {\"@id\": \"e:l\", \"@container\": \"@list\"}},\n \"@id\": \"http://e/s\", \"@type\": \"e:C\", \"name\": \"n\", \"knows\": [\"http://e/o\", {\"@id\": \"_:b1\", \"e:p\": {\"@value\": \"1\", \"@type\": \"http://www.w3.org/2001/XMLSchema#integer\"}}],\n \"l\": [1, 2.5, true, [\"x\"]], \"@graph\": [{\"@id\": \"_:g\", \"e:q\": {\"@value\": \"v\", \"@language\": \"fr-BE\"}}], \"e:j\": {\"@value\": {\"a\": [1]}, \"@type\": \"@json\"}}"],
    }
}
fn dictionary(f: Fmt) -> Vec<&'static str> {
    let mut d = vec!["<", ">", "\"", "\\", "\\u", "\\U0010FFFF", "\\u0000", "%", "%zz", "#", "?", "_:", "_:.", "_:a..b", "@", "@en-", "@e1-", "^^", "\n", "\r", " ", "\u{0}", "\u{FFFE}", "\u{10FFFF}", "é", "\u{200D}", "@en-x-a", "@fr-u-co-phonebk", "@x-a-b", "@a-1", "@de-t-m0-und", "_:a.-b", "_:a.\u{b7}b", "_:a.\u{300}b", "_:a.\u{203f}b", "_:a-.b", "_:\u{37f}.\u{2040}", "http://[::1]/", "http://[1:2::3]/", "http://[v1.x]/", "http://a:b/", "s://a:b/", "//", "/..", "1e", ".", ":", "a:b"];
    match f {
        Fmt::Turtle | Fmt::Trig | Fmt::Gtrig => d.extend(["<<", ">>", "{|", "|}", "[", "]", "(", ")", "@prefix", "@base", "PREFIX", "BASE", "GRAPH", "{", "}", ";", ",", "a", "true", "'''", "\"\"\"", "+1.", "-.5", "1E+", "?v", "$v", ":\\~", ":%41", "p:", ":a\\%b", "\\%"]),
        Fmt::Gnq | Fmt::Nq | Fmt::Nt => d.extend(["<<", ">>", "?v", "$"]),
        Fmt::Xml => d.extend(["<!--", "-->", "<![CDATA[", "]]>", "&amp;", "&#0;", "&#xD;", "&unk;", "xmlns:rdf=\"x]y\"", "rdf:about=\"", "rdf:nodeID=\"1 x\"", "rdf:nodeID=\"b1.\"", "rdf:nodeID=\"a.\"", "xml:lang=\"!!\"", "rdf:parseType=\"Literal\"", "<rdf:li/>", "</", "/>", "<?pi?>", "<!DOCTYPE a [<!ENTITY e \"v\">]>", "rdf:ID=\"a b\"", "xml:base=\"::\""]),
        Fmt::JsonLd => d.extend(["{", "}", "[", "]", ":", ",", "null", "\"@id\"", "\"@type\"", "\"@list\"", "\"@set\"", "\"@graph\"", "\"@value\"", "\"@language\"", "\"@context\"", "\"@reverse\"", "\"@nest\"", "\"@vocab\"", "\"@base\"", "\"http://remote.example/ctx\"", "\"_:b\"", "\"!!\"", "1e999", "\\ud800"]),
    }
    d
}

fn validate<T: Term>(t: T, generalized: bool, out: &mut Vec<String>) {
    use sophia_api::term::TermKind::*;
    match t.kind() {
        Iri => { let i = t.iri().unwrap(); let ok = if generalized { IriRef::new(i.as_str()).is_ok() } else { sophia_iri::Iri::new(i.as_str()).is_ok() };
                 if !ok { out.push(format!("IRI {:?} is not a valid {}", i.as_str(), if generalized { "IRI reference" } else { "absolute IRI" })); } }
        BlankNode => { let b = t.bnode_id().unwrap(); if BnodeId::new(b.as_str()).is_err() { out.push(format!("blank node label {:?} rejected by BnodeId::new", b.as_str())); } }
        Variable => { let v = t.variable().unwrap(); if VarName::new(v.as_str()).is_err() { out.push(format!("variable name {:?} rejected by VarName::new", v.as_str())); } }
        Literal => {
            let _ = t.lexical_form().unwrap();
            if let Some(tag) = t.language_tag() { if LanguageTag::new(tag.as_str()).is_err() { out.push(format!("language tag {:?} rejected by LanguageTag::new", tag.as_str())); } }
            let dt = t.datatype().unwrap(); let ok = if generalized { IriRef::new(dt.as_str()).is_ok() } else { sophia_iri::Iri::new(dt.as_str()).is_ok() };
            if !ok { out.push(format!("datatype IRI {:?} invalid", dt.as_str())); }
        }
        Triple => { let [s, p, o] = t.triple().unwrap(); validate(s, generalized, out); validate(p, generalized, out); validate(o, generalized, out); }
    }
    // conversions downstream code performs unchecked
    let _: SimpleTerm = t.borrow_term().into_term();
}

/// parse `data`; returns (number of statements, validity complaints)
fn run_parser(f: Fmt, data: &[u8]) -> (usize, Vec<String>) {
    let mut bad = vec![]; let mut n = 0usize;
    let base: Option<Iri<String>> = Some(Iri::new_unchecked("http://base.example/dir/doc".to_string()));
    macro_rules! triples { ($p:expr) => {{ let mut src = $p.parse(data); let _ = src.for_each_triple(|t| { n += 1; for x in t.spo() { validate(x, f.generalized(), &mut bad) } }); }}; }
    macro_rules! quads { ($p:expr) => {{ let mut src = $p.parse(data); let _ = src.for_each_quad(|q| { n += 1; let (spo, g) = q.spog(); for x in spo { validate(x, f.generalized(), &mut bad) } if let Some(g) = g { validate(g, f.generalized(), &mut bad) } }); }}; }
    match f {
        Fmt::Nt => triples!(sophia_turtle::parser::nt::NTriplesParser {}),
        Fmt::Nq => quads!(sophia_turtle::parser::nq::NQuadsParser {}),
        Fmt::Turtle => triples!(sophia_turtle::parser::turtle::TurtleParser { base: base.clone() }),
        Fmt::Trig => quads!(sophia_turtle::parser::trig::TriGParser { base: base.clone() }),
        Fmt::Gnq => quads!(sophia_turtle::parser::gnq::GNQuadsParser {}),
        Fmt::Gtrig => quads!(sophia_turtle::parser::gtrig::GTriGParser { base: base.clone() }),
        Fmt::Xml => triples!(sophia_xml::parser::RdfXmlParser { base: base.clone() }),
        Fmt::JsonLd => quads!(sophia_jsonld::JsonLdParser::new()),
    }
    (n, bad)
}

fn deep_doc(f: Fmt, depth: usize) -> Vec<u8> {
    match f {
        Fmt::Turtle | Fmt::Trig | Fmt::Gtrig => { let mut s = String::from("<http://e/s> <http://e/p> "); match depth % 3 { 0 => { s.push_str(&"( ".repeat(depth)); s.push_str(&") ".repeat(depth)); } 1 => { s.push_str(&"[ <http://e/p> ".repeat(depth)); s.push_str("1 "); s.push_str(&"] ".repeat(depth)); } _ => { s.push_str(&"<< <http://e/s> <http://e/p> ".repeat(depth)); s.push_str("1 "); s.push_str(&">> ".repeat(depth)); } } s.push_str(".\n"); s.into_bytes() }
        Fmt::Nt | Fmt::Nq | Fmt::Gnq => { let mut s = String::new(); s.push_str(&"<< <http://e/s> <http://e/p> ".repeat(depth)); s.push_str("<http://e/o> "); s.push_str(&">> ".repeat(depth)); s.push_str("<http://e/p> <http://e/o> .\n"); s.into_bytes() }
        Fmt::Xml => { let mut s = String::from("<rdf:RDF xmlns:rdf=\"http://www.w3.org/1999/02/22-rdf-syntax-ns#\" xmlns:e=\"http://e/\">"); for _ in 0..depth { s.push_str("<rdf:Description><e:p>"); } s.push_str("<rdf:Description/>"); for _ in 0..depth { s.push_str("</e:p></rdf:Description>"); } s.push_str("</rdf:RDF>"); s.into_bytes() }
        Fmt::JsonLd => { let mut s = String::from("{\"http://e/p\": "); s.push_str(&"[".repeat(depth)); s.push('1'); s.push_str(&"]".repeat(depth)); s.push('}'); s.into_bytes() }
    }
}

// ======================================================================================================
// Round 4: every public entry point x every way of consuming the source, on polyglot / wrapped documents
// and on texts carrying "difficult" Unicode at every position class.
// ======================================================================================================

/// What one run of one parser through one entry point gave.
#[derive(Default, Clone, Debug)]
struct Outcome {
    n: usize,
    bad: Vec<String>,
    /// first error reported by the source (Display text, shortened)
    err: Option<String>,
    /// the sink's own error came back as StreamError::SinkError
    sink: bool,
    /// canonical text of every statement delivered before the first error
    stmts: Vec<String>,
    /// the entry point does not apply to this input (e.g. parse_str on invalid UTF-8)
    skipped: bool,
    /// JSON-LD only: the error is JsonLdError::Utf8
    utf8_error: bool,
    /// the reader's injected failure was actually reached
    io_failed: bool,
    /// Steps only: what further pulls after the first error gave (statistics, not part of the property)
    after_error: Option<&'static str>,
    /// Gtrig only: a raw IRI of a yielded statement that is not a valid IRI reference (recorded before any accessor runs)
    raw_invalid_iri: Option<String>,
    /// round 6: the panic message / the complaint behind after_error = "panicked" / "invalid-term"
    after_error_detail: Option<String>,
    /// round 6: for every entry of `stmts` delivered through HItem::rec, the same statement without its graph name
    spo_only: Vec<String>,
    /// round 7: complaints of the error renderer (Display / Debug / source() chain of every reported error, each under catch_unwind)
    render_bad: Vec<String>,
    /// round 7: the complete Display text of the first error rendered during the run
    err_full: Option<String>,
}

fn term_text<T: Term>(t: T) -> String { let st: SimpleTerm = t.into_term(); format!("{st:?}") }
fn short_err<E: std::error::Error + 'static>(e: E) -> String { render_error(&e); format!("{e}").replace('\n', " ").chars().take(120).collect() }
/// round 7: a reported error is rendered completely -- Display (twice: the same text), Debug, alternate and padded forms, and the same for
/// every link of its source() chain -- each step under catch_unwind: error paths are code too, and their messages embed text of the document
fn render_error(e: &(dyn std::error::Error + 'static)) {
    fn step(which: &str, f: &dyn Fn() -> String) -> Option<String> {
        match catch_unwind(AssertUnwindSafe(f)) { Ok(s) => Some(s), Err(_) => { let m: String = LAST_PANIC.with(|l| l.borrow().clone()).chars().take(200).collect(); RENDER_BAD.with(|b| b.borrow_mut().push(format!("rendering the reported error PANICKED ({which}): {m}"))); None } }
    }
    let d1 = step("Display", &|| format!("{e}")); let d2 = step("Display, second time", &|| e.to_string());
    if let (Some(a), Some(b)) = (&d1, &d2) { if a != b { RENDER_BAD.with(|x| x.borrow_mut().push(format!("Display of one error value gave two different texts: {:?} and {:?}", a.chars().take(120).collect::<String>(), b.chars().take(120).collect::<String>()))); } }
    step("Debug", &|| format!("{e:?}")); step("alternate Debug", &|| format!("{e:#?}")); step("alternate Display", &|| format!("{e:#}")); step("padded and truncated Display", &|| format!("{e:>12.7}"));
    let mut links = 0u64;
    let mut cur: Option<&(dyn std::error::Error + 'static)> = match catch_unwind(AssertUnwindSafe(|| e.source())) { Ok(s) => s, Err(_) => { RENDER_BAD.with(|b| b.borrow_mut().push(format!("source() of the reported error PANICKED: {}", LAST_PANIC.with(|l| l.borrow().clone()).chars().take(200).collect::<String>()))); None } };
    while let Some(s) = cur {
        links += 1; if links > 32 { RENDER_BAD.with(|b| b.borrow_mut().push("the source() chain of the reported error does not end within 32 links".to_string())); break; }
        step("Display of a source() link", &|| format!("{s}")); step("Debug of a source() link", &|| format!("{s:?}"));
        cur = match catch_unwind(AssertUnwindSafe(|| s.source())) { Ok(n) => n, Err(_) => { RENDER_BAD.with(|b| b.borrow_mut().push(format!("source() of a link of the error chain PANICKED: {}", LAST_PANIC.with(|l| l.borrow().clone()).chars().take(200).collect::<String>()))); None } };
    }
    if let Some(d) = d1 {
        RENDER_STAT.with(|st| { let mut st = st.borrow_mut(); st[0] += 1; if d.len() > 200 && !d.is_ascii() { st[1] += 1; } st[2] = st[2].max(d.len() as u64); st[3] += links; });
        LAST_ERR_FULL.with(|l| { let mut l = l.borrow_mut(); if l.is_none() { *l = Some(d); } });
    }
}
/// the StreamError a consuming method returned is rendered as a whole before it is taken apart
fn seen_err<T, A: std::error::Error + 'static, B: std::error::Error + 'static>(r: Result<T, StreamError<A, B>>) -> Result<T, StreamError<A, B>> { if let Err(e) = &r { render_error(e); } r }

/// The accessors of a yielded term answer consistently with its kind, the conversions downstream code performs
/// unchecked agree with the term, and the validated wrappers built from its text behave like that text.
fn consistency<T: Term>(t: T, out: &mut Vec<String>) {
    use sophia_api::term::TermKind::*;
    use std::cmp::Ordering::Equal;
    let k = t.kind();
    let flags = [t.iri().is_some(), t.bnode_id().is_some(), t.lexical_form().is_some(), t.datatype().is_some(), t.variable().is_some(), t.triple().is_some()];
    let want = [k == Iri, k == BlankNode, k == Literal, k == Literal, k == Variable, k == Triple];
    if flags != want { out.push(format!("accessors inconsistent with kind {k:?}: is_some of iri/bnode_id/lexical_form/datatype/variable/triple = {flags:?}")); return; }
    if t.language_tag().is_some() && k != Literal { out.push(format!("language_tag() is Some on a term of kind {k:?}")); }
    let preds = [t.is_iri(), t.is_blank_node(), t.is_literal(), t.is_variable(), t.is_triple()];
    if preds != [k == Iri, k == BlankNode, k == Literal, k == Variable, k == Triple] || t.is_atom() != (k != Triple) { out.push(format!("is_iri/is_blank_node/is_literal/is_variable/is_triple/is_atom inconsistent with kind {k:?}")); }
    let st: SimpleTerm = t.borrow_term().into_term();
    if !Term::eq(&st, t.borrow_term()) || !Term::eq(&t.borrow_term(), st.borrow_term()) || Term::cmp(&st, t.borrow_term()) != Equal || Term::cmp(&t.borrow_term(), st.borrow_term()) != Equal {
        out.push(format!("the term differs (Term::eq / Term::cmp) from its own SimpleTerm copy {st:?}"));
    }
    if st.kind() != k { out.push(format!("SimpleTerm copy has kind {:?}, the term {k:?}", st.kind())); }
    match k {
        Iri => {
            let i = t.iri().unwrap(); let s: &str = i.as_str();
            if IriRef::new(s).is_ok() {
                let a = IriRef::new_unchecked(s.to_string()); let b = IriRef::new_unchecked(s);
                let ok = a == b && b == a && a.partial_cmp(&a.clone()) == Some(Equal) && b.partial_cmp(&b.clone()) == Some(Equal) && Ord::cmp(&a, &a.clone()) == Equal && Ord::cmp(&b, &b) == Equal
                    && **a == *s && <IriRef<String> as AsRef<str>>::as_ref(&a) == s && <IriRef<String> as std::borrow::Borrow<str>>::borrow(&a) == s
                    && <IriRef<String> as AsRef<String>>::as_ref(&a) == s && <IriRef<String> as std::borrow::Borrow<String>>::borrow(&a) == s
                    && a == *s && *s == a && a.partial_cmp(s) == Some(Equal) && s.partial_cmp(&a) == Some(Equal) && a.as_ref().as_str() == s && a.clone().unwrap() == s;
                if !ok { out.push(format!("IriRef wrapper built from the yielded IRI {s:?} does not behave like its text (Deref/AsRef/Borrow/Eq/Ord)")); }
                // the split validators used by namespaces agree with the whole-string validator
                let mid = { let mut m = s.len() / 2; while !s.is_char_boundary(m) { m -= 1; } m };
                if !sophia_iri::is_valid_suffixed_iri_ref(&s[..mid], Some(&s[mid..])) || !sophia_iri::is_valid_suffixed_iri_ref(s, None) || !sophia_iri::is_valid_iri_ref(s) {
                    out.push(format!("is_valid_suffixed_iri_ref / is_valid_iri_ref reject the yielded IRI {s:?} which IriRef::new accepts"));
                }
                let abs = sophia_iri::Iri::new(s).is_ok();
                if sophia_iri::is_absolute_iri_ref(s) != abs || sophia_iri::is_relative_iri_ref(s) == abs {
                    out.push(format!("is_absolute_iri_ref / is_relative_iri_ref disagree with Iri::new on the yielded IRI {s:?}"));
                }
            }
        }
        BlankNode => {
            let b = t.bnode_id().unwrap(); let s = b.as_str();
            if BnodeId::new(s).is_ok() { let w = BnodeId::new_unchecked(s); if w.as_str() != s || !Term::eq(&w, t.borrow_term()) { out.push(format!("BnodeId built from the yielded label {s:?} is not equal to the term")); } }
        }
        Variable => {
            let v = t.variable().unwrap(); let s = v.as_str();
            if VarName::new(s).is_ok() { let w = VarName::new_unchecked(s); if w.as_str() != s || !Term::eq(&w, t.borrow_term()) { out.push(format!("VarName built from the yielded name {s:?} is not equal to the term")); } }
        }
        Literal => {
            let lex = t.lexical_form().unwrap();
            if let Some(tag) = t.language_tag() {
                let s = tag.as_str();
                if LanguageTag::new(s).is_ok() {
                    let (up, lo) = (s.to_ascii_uppercase(), s.to_ascii_lowercase());
                    let (a, u, l) = (LanguageTag::new_unchecked(s), LanguageTag::new_unchecked(up.as_str()), LanguageTag::new_unchecked(lo.as_str()));
                    if !(a == u && u == l && a.cmp(&u) == Equal && l.cmp(&u) == Equal && &**a == s && a.unwrap() == s && LanguageTag::new_unchecked_const("en-US") == LanguageTag::new_unchecked("EN-us")) { out.push(format!("LanguageTag {s:?}: comparison is not ASCII-case-insensitive or Deref differs")); }
                    let built: SimpleTerm = &*lex * u;
                    if !Term::eq(&built, t.borrow_term()) { out.push(format!("lexical form * language tag {s:?} (upper-cased) is not Term::eq to the yielded literal")); }
                    let dt = t.datatype().unwrap();
                    if dt.as_str() != "http://www.w3.org/1999/02/22-rdf-syntax-ns#langString" { out.push(format!("language-tagged literal with datatype {:?}", dt.as_str())); }
                }
            }
        }
        Triple => { let (n_atoms, n_const) = (t.atoms().count(), t.constituents().count()); if n_atoms < 3 || n_const < n_atoms + 1 { out.push(format!("quoted triple with {n_atoms} atoms and {n_const} constituents")); } }
    }
}

fn check_term<T: Term>(t: T, g: bool, bad: &mut Vec<String>) { let before = bad.len(); validate(t.borrow_term(), g, bad); if bad.len() == before { consistency(t, bad); } }

/// statement-level record: validate every term and remember the canonical text
fn see<T: Term>(spo: &[T; 3], gname: Option<&T>, g: bool, out: &mut Outcome) {
    let mut line = String::new();
    for x in spo.iter() { check_term(x.borrow_term(), g, &mut out.bad); line.push_str(&term_text(x.borrow_term())); line.push(' '); }
    if let Some(gn) = gname { check_term(gn.borrow_term(), g, &mut out.bad); line.push_str(&term_text(gn.borrow_term())); }
    out.stmts.push(line); out.n += 1;
}

/// Representation-specific checks: the component wrappers a consumer can build from the public fields.
trait Extra { fn extra(&self, g: bool, bad: &mut Vec<String>); }
fn same_text<A: Term, B: Term>(what: &str, a: A, b: B, bad: &mut Vec<String>) { let (x, y) = (term_text(a), term_text(b)); if x != y { bad.push(format!("{what}: component wrapper reads {x} but the term reads {y}")); } }
fn rio_named(n: rio_api::model::NamedNode, g: bool, bad: &mut Vec<String>) {
    let w = Trusted(n); check_term(w, g, bad);
    if w.kind() != sophia_api::term::TermKind::Iri || w.iri().map(|i| i.as_str() != n.iri).unwrap_or(true) || w.borrow_term().iri().is_none() { bad.push(format!("Trusted<NamedNode> of {:?} has wrong kind/iri", n.iri)); }
}
fn rio_blank(b: rio_api::model::BlankNode, g: bool, bad: &mut Vec<String>) {
    let w = Trusted(b); check_term(w, g, bad);
    if w.kind() != sophia_api::term::TermKind::BlankNode || w.bnode_id().map(|i| i.as_str() != b.id).unwrap_or(true) || w.borrow_term().bnode_id().is_none() { bad.push(format!("Trusted<BlankNode> of {:?} has wrong kind/bnode_id", b.id)); }
}
fn rio_literal(l: rio_api::model::Literal, g: bool, bad: &mut Vec<String>) {
    use rio_api::model::Literal::*;
    let w = Trusted(l); check_term(w, g, bad);
    let (val, lang) = match l { Simple { value } => (value, None), LanguageTaggedString { value, language } => (value, Some(language)), Typed { value, datatype } => { rio_named(datatype, g, bad); (value, None) } };
    if w.kind() != sophia_api::term::TermKind::Literal || w.lexical_form().map(|x| &*x != val).unwrap_or(true) || w.language_tag().map(|t| t.as_str().to_string()) != lang.map(|x| x.to_string()) || w.datatype().is_none() || w.borrow_term().lexical_form().is_none() {
        bad.push(format!("Trusted<Literal> of {val:?} has wrong kind/lexical_form/language_tag"));
    }
    lit_note(l, &w);
}
/// round 7: the raw literal (public fields of the rio item) and what the accessors of the wrapper answer, for the comparison with coq/C08/Literal.v
fn lit_note(l: rio_api::model::Literal, w: &Trusted<rio_api::model::Literal>) {
    use rio_api::model::Literal::*;
    LIT_CASES.with(|c| { let mut c = c.borrow_mut(); if !c.0 || c.1.len() >= 700 { return; }
        let raw = match l { Simple { value } => { if value.len() > 40 { return; } format!("(LSimple {})", coq_str(value)) } LanguageTaggedString { value, language } => { if value.len() > 40 || language.len() > 40 { return; } format!("(LLang {} {})", coq_str(value), coq_str(language)) } Typed { value, datatype } => { if value.len() > 40 || datatype.iri.len() > 80 { return; } format!("(LTyped {} {})", coq_str(value), coq_str(datatype.iri)) } };
        let (lex, dt, lang) = (w.lexical_form().map(|x| coq_str(&x)), w.datatype().map(|x| coq_str(x.as_str())), w.language_tag().map(|x| coq_str(x.as_str())));
        c.1.insert(format!("lit_ok {raw} {} {} {}", coq_opt(lex), coq_opt(dt), coq_opt(lang))); });
}
fn rio_var(v: rio_api::model::Variable, g: bool, bad: &mut Vec<String>) {
    let w = Trusted(v); check_term(w, g, bad);
    if w.kind() != sophia_api::term::TermKind::Variable || w.variable().map(|i| i.as_str() != v.name).unwrap_or(true) || w.borrow_term().variable().is_none() { bad.push(format!("Trusted<Variable> of {:?} has wrong kind/variable", v.name)); }
}
fn rio_term(t: rio_api::model::Term, g: bool, bad: &mut Vec<String>) {
    use rio_api::model::Term::*;
    match t { NamedNode(n) => rio_named(n, g, bad), BlankNode(b) => rio_blank(b, g, bad), Literal(l) => rio_literal(l, g, bad), Triple(tr) => rio_triple(*tr, g, bad) }
}
fn rio_triple(t: rio_api::model::Triple, g: bool, bad: &mut Vec<String>) {
    rio_term(t.subject.into(), g, bad); rio_named(t.predicate, g, bad); rio_term(t.object, g, bad);
    let w = Trusted(t);
    same_text("Trusted<Triple>.s", Trusted(rio_api::model::Term::from(t.subject)), w.s(), bad);
    same_text("Trusted<Triple>.o", Trusted(t.object), w.o(), bad);
}
fn rio_gterm(t: rio_api::model::GeneralizedTerm, g: bool, bad: &mut Vec<String>) {
    use rio_api::model::GeneralizedTerm::*;
    match t { NamedNode(n) => rio_named(n, g, bad), BlankNode(b) => rio_blank(b, g, bad), Literal(l) => rio_literal(l, g, bad), Variable(v) => rio_var(v, g, bad), Triple(tr) => { for x in tr.iter() { rio_gterm(*x, g, bad); } } }
}
fn raw_note(i: &str) { if IriRef::new(i).is_err() { RAW_INVALID_IRI.with(|x| { let mut x = x.borrow_mut(); if x.is_none() { *x = Some(i.to_string()); } }); } }
fn raw_scan_term(t: rio_api::model::Term) {
    use rio_api::model::Term::*;
    match t { NamedNode(n) => raw_note(n.iri), Literal(rio_api::model::Literal::Typed { datatype, .. }) => raw_note(datatype.iri), Triple(tr) => raw_scan_triple(*tr), _ => {} }
}
fn raw_scan_triple(t: rio_api::model::Triple) { raw_scan_term(t.subject.into()); raw_note(t.predicate.iri); raw_scan_term(t.object); }
impl Extra for Trusted<rio_api::model::Triple<'_>> { fn extra(&self, g: bool, bad: &mut Vec<String>) { raw_scan_triple(self.0); rio_triple(self.0, g, bad); } }
impl Extra for Trusted<rio_api::model::Quad<'_>> {
    fn extra(&self, g: bool, bad: &mut Vec<String>) {
        raw_scan_term(self.0.subject.into()); raw_note(self.0.predicate.iri); raw_scan_term(self.0.object); if let Some(rio_api::model::GraphName::NamedNode(n)) = self.0.graph_name { raw_note(n.iri); }
        rio_term(self.0.subject.into(), g, bad); rio_named(self.0.predicate, g, bad); rio_term(self.0.object, g, bad);
        if let Some(gn) = self.0.graph_name {
            let w = Trusted(gn); check_term(w, g, bad);
            let want = match gn { rio_api::model::GraphName::NamedNode(_) => sophia_api::term::TermKind::Iri, rio_api::model::GraphName::BlankNode(_) => sophia_api::term::TermKind::BlankNode };
            if w.kind() != want || w.borrow_term().kind() != want || (w.iri().is_some() == w.bnode_id().is_some()) { bad.push("Trusted<GraphName> has wrong kind / iri / bnode_id".to_string()); }
            match gn { rio_api::model::GraphName::NamedNode(n) => rio_named(n, g, bad), rio_api::model::GraphName::BlankNode(b) => rio_blank(b, g, bad) }
            if let Some(gg) = Quad::g(self) { same_text("Trusted<GraphName>", w, gg, bad); } else { bad.push("graph_name is Some but Quad::g() is None".to_string()); }
        } else if Quad::g(self).is_some() { bad.push("graph_name is None but Quad::g() is Some".to_string()); }
    }
}
fn raw_scan(t: rio_api::model::GeneralizedTerm) {
    use rio_api::model::GeneralizedTerm::*;
    match t { NamedNode(n) => raw_note(n.iri), Literal(rio_api::model::Literal::Typed { datatype, .. }) => raw_note(datatype.iri), Triple(tr) => { for x in tr.iter() { raw_scan(*x); } } _ => {} }
}
impl Extra for Trusted<rio_api::model::GeneralizedQuad<'_>> {
    fn extra(&self, g: bool, bad: &mut Vec<String>) {
        // the raw strings first (public fields), before any accessor of the wrapper runs
        raw_scan(self.0.subject); raw_scan(self.0.predicate); raw_scan(self.0.object); if let Some(gn) = self.0.graph_name { raw_scan(gn); }
        rio_gterm(self.0.subject, g, bad); rio_gterm(self.0.predicate, g, bad); rio_gterm(self.0.object, g, bad);
        if let Some(gn) = self.0.graph_name { rio_gterm(gn, g, bad); }
        if self.0.graph_name.is_some() != Quad::g(self).is_some() { bad.push("graph_name and Quad::g() disagree".to_string()); }
    }
}
impl Extra for Spog<RdfTerm> {
    fn extra(&self, g: bool, bad: &mut Vec<String>) {
        use rdf_types::vocabulary::{BlankIdVocabulary, BlankIdVocabularyMut, IriVocabulary, IriVocabularyMut, LanguageTagVocabulary, LanguageTagVocabularyMut, LiteralVocabulary, LiteralVocabularyMut};
        use sophia_jsonld::vocabulary::{ArcIri, ArcVoc};
        use std::sync::Arc;
        let (v1, mut v2) = (ArcVoc::default(), ArcVoc::default());
        let mut one = |t: &RdfTerm| {
            check_term(t, g, bad);
            if let Some(i) = t.iri() {
                if sophia_iri::Iri::new(i.as_str()).is_ok() {
                    let ai = ArcIri::new_unchecked(Arc::<str>::from(i.as_str()));
                    same_text("RdfTerm::from(ArcIri)", RdfTerm::from(ai.clone()), t, bad);
                    if let Some(x) = v1.iri(&ai) { same_text("ArcVoc::get(iri)", v1.get(x).unwrap(), t, bad); same_text("ArcVoc::insert(iri)", v2.insert(x), t, bad); }
                }
            }
            if let Some(b) = t.bnode_id() {
                let full = format!("_:{}", b.as_str());
                match rdf_types::BlankId::new(&full) {
                    Ok(id) => { let bn = v1.get_blank_id(id).unwrap(); check_term(bn.clone(), g, bad); same_text("ArcBnode", bn.clone(), t, bad); same_text("ArcBnode::borrow_term", bn.borrow_term(), t, bad);
                        if bn.kind() != sophia_api::term::TermKind::BlankNode || bn.borrow_term().as_str() != b.as_str() { bad.push(format!("ArcBnode of {full:?}: wrong kind / borrow_term")); }
                        if v1.blank_id(&bn).map(|x| x.as_str() != full).unwrap_or(true) { bad.push(format!("ArcVoc::blank_id does not give back {full:?}")); }
                        same_text("ArcVoc::insert_blank_id", v2.insert_blank_id(id), t, bad); }
                    Err(_) => bad.push(format!("blank node label {:?} yielded by the JSON-LD parser is not an rdf_types::BlankId", b.as_str())),
                }
            }
            if let (Some(lex), Some(tag)) = (t.lexical_form(), t.language_tag()) {
                // the vocabulary hands the tag of a yielded literal to the strict `langtag` parser and back
                let at = sophia_jsonld::vocabulary::ArcTag::new_unchecked(Arc::<str>::from(tag.as_str()));
                match v1.language_tag(&at) {
                    Some(lt) => { let t1 = v1.get_language_tag(lt).unwrap(); let t2 = v2.insert_language_tag(v1.language_tag(&at).unwrap());
                        if t1.as_str() != tag.as_str() || t2.as_str() != tag.as_str() { bad.push(format!("ArcVoc::get_language_tag / insert_language_tag change the tag {:?}", tag.as_str())); }
                        let lit = rdf_types::Literal::new(lex.to_string(), rdf_types::literal::Type::LangString(t1));
                        same_text("ArcVoc::get_literal (language-tagged)", RdfTerm::from(rdf_types::Term::Literal(v1.get_literal(&lit).unwrap())), t, bad); }
                    None => bad.push(format!("ArcVoc::language_tag gives None for the yielded tag {:?}", tag.as_str())),
                }
            }
            if let (Some(lex), Some(dt), None) = (t.lexical_form(), t.datatype(), t.language_tag()) {
                if sophia_iri::Iri::new(dt.as_str()).is_ok() {
                    let lit = rdf_types::Literal::new(lex.to_string(), rdf_types::literal::Type::Any(ArcIri::new_unchecked(Arc::<str>::from(dt.as_str()))));
                    if let Some(l2) = v1.literal(&lit) { same_text("ArcVoc::get_literal", RdfTerm::from(rdf_types::Term::Literal(v1.get_literal(l2).unwrap())), t, bad); same_text("ArcVoc::insert_literal", RdfTerm::from(rdf_types::Term::Literal(v2.insert_literal(l2))), t, bad); }
                }
            }
        };
        for t in self.0.iter() { one(t); }
        if let Some(t) = &self.1 { one(t); }
    }
}

fn on_triple<T: Triple + Clone + Extra>(t: T, owned: bool, g: bool, out: &mut Outcome) {
    t.extra(g, &mut out.bad);
    if owned {
        let parts = [term_text(t.clone().to_s()), term_text(t.clone().to_p()), term_text(t.clone().to_o())];
        let brw = [term_text(t.s()), term_text(t.p()), term_text(t.o())];
        let spo = t.to_spo();
        let all = [term_text(spo[0].borrow_term()), term_text(spo[1].borrow_term()), term_text(spo[2].borrow_term())];
        if parts != all || brw != all { out.bad.push(format!("to_s/to_p/to_o = {parts:?}, s/p/o = {brw:?}, to_spo = {all:?}")); }
        see(&spo, None, g, out);
    } else if out.n % 2 == 0 { see(&t.spo(), None, g, out); } else { see(&[t.s(), t.p(), t.o()], None, g, out); }
}
fn on_quad<Q: Quad + Clone + Extra>(q: Q, owned: bool, g: bool, out: &mut Outcome) {
    q.extra(g, &mut out.bad);
    if owned {
        let parts = [term_text(q.clone().to_s()), term_text(q.clone().to_p()), term_text(q.clone().to_o()), q.clone().to_g().map(term_text).unwrap_or_default()];
        let brw = [term_text(q.s()), term_text(q.p()), term_text(q.o()), q.g().map(term_text).unwrap_or_default()];
        let (spo, gn) = q.to_spog();
        let all = [term_text(spo[0].borrow_term()), term_text(spo[1].borrow_term()), term_text(spo[2].borrow_term()), gn.as_ref().map(|x| term_text(x.borrow_term())).unwrap_or_default()];
        if parts != all || brw != all { out.bad.push(format!("to_s/to_p/to_o/to_g = {parts:?}, s/p/o/g = {brw:?}, to_spog = {all:?}")); }
        see(&spo, gn.as_ref(), g, out);
    } else if out.n % 2 == 0 { let (spo, gn) = q.spog(); see(&spo, gn.as_ref(), g, out); } else { let gn = q.g(); see(&[q.s(), q.p(), q.o()], gn.as_ref(), g, out); }
}

/// How the source is consumed.
#[derive(Clone, Copy, Debug, PartialEq)]
enum Consume {
    /// for_each_*, borrowed accessors
    ForEach,
    /// for_each_*, consuming accessors (to_s, to_p, to_o, to_g, to_spo, to_spog)
    Owned,
    /// one for_some_* call at a time; after the first error the source is asked again (tolerant consumer)
    Steps,
    /// try_for_each_* with a sink that fails on statement number k+1
    SinkFail(usize),
    /// collect_triples / collect_quads into a Vec of SimpleTerm statements
    Collect,
}
const STEP_GUARD: usize = 400_000;

fn drive_t<S>(mut src: S, c: Consume, g: bool, out: &mut Outcome)
where S: TripleSource, for<'x> <S as Source>::Item<'x>: Clone + Extra {
    match c {
        Consume::ForEach | Consume::Owned => { let r = src.for_each_triple(|t| on_triple(t, c == Consume::Owned, g, out)); if let Err(e) = r { out.err = Some(short_err(e)); } }
        Consume::Steps => {
            // one call at a time up to the first error (the parse is over then: C08 promises nothing about a source that is
            // pulled again); a few more pulls are made to reach the code behind them, recorded as statistics only
            let mut calls = 0usize;
            loop {
                calls += 1; if calls > STEP_GUARD { out.bad.push(format!("for_some_triple called {STEP_GUARD} times without the source reporting exhaustion")); break; }
                let r = src.for_some_triple(|x| on_triple(x, false, g, out));
                match r { Ok(true) => {} Ok(false) => break, Err(e) => { out.err = Some(short_err(e)); break; } }
            }
            if out.err.is_some() {
                let mut post = Outcome::default();
                let res = catch_unwind(AssertUnwindSafe(|| { let mut verdict = "ended"; for _ in 0..3 { match src.for_some_triple(|x| on_triple(x, false, g, &mut post)) { Ok(true) => { verdict = "more-statements"; } Ok(false) => break, Err(_) => { if verdict == "ended" { verdict = "error-again"; } } } } verdict }));
                out.after_error_detail = match &res { Err(_) => Some(LAST_PANIC.with(|l| l.borrow().clone()).chars().take(200).collect()), Ok(_) => post.bad.first().cloned() };
                out.after_error = Some(match res { Err(_) => "panicked", Ok(_) if !post.bad.is_empty() => "invalid-term", Ok(v) => v });
            }
        }
        Consume::SinkFail(k) => {
            let mut seen = 0usize;
            let r = src.try_for_each_triple(|t| -> Result<(), MyErr> { on_triple(t, false, g, out); seen += 1; if seen > k { Err(MyErr(seen as u64)) } else { Ok(()) } });
            match seen_err(r) { Ok(()) => {} Err(StreamError::SourceError(e)) => out.err = Some(short_err(e)), Err(StreamError::SinkError(MyErr(x))) => { if x as usize == k + 1 { out.sink = true } else { out.bad.push(format!("the sink failed with MyErr({}) but the stream reports MyErr({x})", k + 1)); } } }
        }
        Consume::Collect => match seen_err(src.collect_triples::<Vec<[SimpleTerm<'static>; 3]>>()) {
            Ok(v) => { for t in v.iter() { see(t, None, g, out); } }
            Err(StreamError::SourceError(e)) => out.err = Some(short_err(e)),
            Err(StreamError::SinkError(e)) => out.bad.push(format!("collecting into a Vec reported a sink error: {e}")),
        },
    }
}
fn drive_q<S>(mut src: S, c: Consume, g: bool, out: &mut Outcome)
where S: QuadSource, for<'x> <S as Source>::Item<'x>: Clone + Extra {
    match c {
        Consume::ForEach | Consume::Owned => { let r = src.for_each_quad(|q| on_quad(q, c == Consume::Owned, g, out)); if let Err(e) = r { out.err = Some(short_err(e)); } }
        Consume::Steps => {
            // one call at a time up to the first error (the parse is over then: C08 promises nothing about a source that is
            // pulled again); a few more pulls are made to reach the code behind them, recorded as statistics only
            let mut calls = 0usize;
            loop {
                calls += 1; if calls > STEP_GUARD { out.bad.push(format!("for_some_quad called {STEP_GUARD} times without the source reporting exhaustion")); break; }
                let r = src.for_some_quad(|x| on_quad(x, false, g, out));
                match r { Ok(true) => {} Ok(false) => break, Err(e) => { out.err = Some(short_err(e)); break; } }
            }
            if out.err.is_some() {
                let mut post = Outcome::default();
                let res = catch_unwind(AssertUnwindSafe(|| { let mut verdict = "ended"; for _ in 0..3 { match src.for_some_quad(|x| on_quad(x, false, g, &mut post)) { Ok(true) => { verdict = "more-statements"; } Ok(false) => break, Err(_) => { if verdict == "ended" { verdict = "error-again"; } } } } verdict }));
                out.after_error_detail = match &res { Err(_) => Some(LAST_PANIC.with(|l| l.borrow().clone()).chars().take(200).collect()), Ok(_) => post.bad.first().cloned() };
                out.after_error = Some(match res { Err(_) => "panicked", Ok(_) if !post.bad.is_empty() => "invalid-term", Ok(v) => v });
            }
        }
        Consume::SinkFail(k) => {
            let mut seen = 0usize;
            let r = src.try_for_each_quad(|q| -> Result<(), MyErr> { on_quad(q, false, g, out); seen += 1; if seen > k { Err(MyErr(seen as u64)) } else { Ok(()) } });
            match seen_err(r) { Ok(()) => {} Err(StreamError::SourceError(e)) => out.err = Some(short_err(e)), Err(StreamError::SinkError(MyErr(x))) => { if x as usize == k + 1 { out.sink = true } else { out.bad.push(format!("the sink failed with MyErr({}) but the stream reports MyErr({x})", k + 1)); } } }
        }
        Consume::Collect => match seen_err(src.collect_quads::<Vec<Spog<SimpleTerm<'static>>>>()) {
            Ok(v) => { for (spo, gn) in v.iter() { see(spo, gn.as_ref(), g, out); } }
            Err(StreamError::SourceError(e)) => out.err = Some(short_err(e)),
            Err(StreamError::SinkError(e)) => out.bad.push(format!("collecting into a Vec reported a sink error: {e}")),
        },
    }
}
/// JSON-LD: the same, and the class of the error (the source type is concrete here)
fn drive_j(src: sophia_jsonld::JsonLdQuadSource, c: Consume, out: &mut Outcome) {
    if let sophia_jsonld::JsonLdQuadSource::Err(Some(e)) = &src { out.utf8_error = matches!(e, JsonLdError::Utf8(_)); if matches!(e, JsonLdError::IoError(_)) { out.io_failed = true; } }
    drive_q(src, c, false, out);
}

/// A BufRead over a slice that hands out at most `chunk` bytes per fill_buf, never crosses `cut`,
/// and fails with an I/O error once `fail_at` bytes have been consumed.
struct Feed<'a> { data: &'a [u8], pos: usize, chunk: usize, cut: Option<usize>, fail_at: Option<usize>, failed: std::rc::Rc<std::cell::Cell<bool>> }
impl<'a> Feed<'a> { fn new(data: &'a [u8], chunk: usize, cut: Option<usize>, fail_at: Option<usize>, failed: std::rc::Rc<std::cell::Cell<bool>>) -> Self { Feed { data, pos: 0, chunk: chunk.max(1), cut, fail_at, failed } } }
impl BufRead for Feed<'_> {
    fn fill_buf(&mut self) -> std::io::Result<&[u8]> {
        let mut end = self.data.len().min(self.pos.saturating_add(self.chunk));
        if let Some(c) = self.cut { if c > self.pos && c < end { end = c; } }
        if let Some(f) = self.fail_at { if self.pos >= f { self.failed.set(true); return Err(std::io::Error::new(std::io::ErrorKind::Other, format!("injected read failure {}", filler_text(f % 4, FILL_CHARS[f % FILL_CHARS.len()], 150)))); } if f < end { end = f; } }
        Ok(&self.data[self.pos..end])
    }
    fn consume(&mut self, n: usize) { self.pos = (self.pos + n).min(self.data.len()); }
}
impl Read for Feed<'_> {
    fn read(&mut self, buf: &mut [u8]) -> std::io::Result<usize> { let n = { let b = self.fill_buf()?; let n = b.len().min(buf.len()); buf[..n].copy_from_slice(&b[..n]); n }; self.consume(n); Ok(n) }
}

/// The public ways of handing bytes to a parser.
#[derive(Clone, Copy, Debug, PartialEq)]
enum Entry {
    /// parser.parse(&[u8])
    Slice,
    /// parser.parse_str(&str)
    Str,
    /// module-level parse_str (default parser)
    ModStr,
    /// module-level parse_bufread (default parser)
    ModBuf,
    /// Parser::default().parse(&[u8])
    Default,
    /// parser.parse(BufReader::with_capacity(n, &[u8]))
    Buffered(usize),
    /// parser.parse(Cursor<Vec<u8>>)
    Cursor,
    /// parser.parse(custom BufRead handing out `chunk` bytes at a time, split at `cut`)
    Feed { chunk: usize, cut: Option<usize> },
    /// parser.parse(BufRead failing after k bytes)
    FailAt(usize),
    /// JSON-LD: async_parse_str polled by hand
    Async,
    /// JSON-LD: new_with_options with a non-default option preset
    Opts(u8),
}
impl Entry { fn uses_default_parser(self) -> bool { matches!(self, Entry::ModStr | Entry::ModBuf | Entry::Default) } fn needs_str(self) -> bool { matches!(self, Entry::Str | Entry::ModStr | Entry::Async) } }

fn poll_to_end<F: std::future::Future>(f: F) -> F::Output {
    let mut f = std::pin::pin!(f); let w = std::task::Waker::noop(); let mut cx = std::task::Context::from_waker(&w);
    for _ in 0..1_000_000 { if let std::task::Poll::Ready(x) = f.as_mut().poll(&mut cx) { return x; } std::thread::yield_now(); }
    panic!("async_parse_str was polled 1000000 times without completing");
}

const BASE: &str = "http://base.example/dir/doc";
fn jsonld_opts(k: u8) -> JsonLdOptions<sophia_jsonld::loader_factory::DefaultLoaderFactory<sophia_jsonld::loader::NoLoader>> {
    use sophia_jsonld::{Policy, ProcessingMode, RdfDirection};
    let o = JsonLdOptions::new();
    match k {
        0 => o.with_processing_mode(ProcessingMode::JsonLd1_0),
        1 => o.with_rdf_direction(RdfDirection::I18nDatatype),
        2 => o.with_rdf_direction(RdfDirection::CompoundLiteral).with_ordered(true),
        3 => o.with_produce_generalized_rdf(true),
        4 => o.with_expansion_policy(Policy::Strictest).with_base(Iri::new_unchecked(std::sync::Arc::from("http://base.example/İ/K?ﬁ#ẞ"))),
        5 => o.with_expansion_policy(Policy::Relaxed).with_use_native_types(true).with_use_rdf_type(true),
        6 => o.try_with_expand_context("{\"@context\": {\"@vocab\": \"http://vocab.example/İ#\", \"@language\": \"tr\"}}").unwrap_or_else(|_| JsonLdOptions::new()),
        _ => o.with_no_base(),
    }
}

/// Run parser `f` (with or without a base IRI) on `data` through entry point `e`, consuming with `c`.
fn parse_with(f: Fmt, base: bool, data: &[u8], e: Entry, c: Consume) -> Outcome {
    let mut out = Outcome::default();
    let g = f.generalized();
    let b: Option<Iri<String>> = if base { Some(Iri::new_unchecked(BASE.to_string())) } else { None };
    let text = std::str::from_utf8(data).ok();
    if e.needs_str() && text.is_none() { out.skipped = true; return out; }
    let failed = std::rc::Rc::new(std::cell::Cell::new(false));
    macro_rules! entries {
        ($drive:ident, $p:expr, $dflt:expr, $m:path) => {{
            use $m as m;
            match e {
                Entry::Slice => $drive($p.parse(data), c, g, &mut out),
                Entry::Str => $drive($p.parse_str(text.unwrap()), c, g, &mut out),
                Entry::ModStr => $drive(m::parse_str(text.unwrap()), c, g, &mut out),
                Entry::ModBuf => $drive(m::parse_bufread(data), c, g, &mut out),
                Entry::Default => $drive($dflt.parse(data), c, g, &mut out),
                Entry::Buffered(n) => $drive($p.parse(BufReader::with_capacity(n.max(1), data)), c, g, &mut out),
                Entry::Cursor => $drive($p.parse(Cursor::new(data.to_vec())), c, g, &mut out),
                Entry::Feed { chunk, cut } => $drive($p.parse(Feed::new(data, chunk, cut, None, failed.clone())), c, g, &mut out),
                Entry::FailAt(k) => $drive($p.parse(Feed::new(data, usize::MAX, None, Some(k), failed.clone())), c, g, &mut out),
                Entry::Async | Entry::Opts(_) => out.skipped = true,
            }
        }};
    }
    use sophia_turtle::parser::{gnq, gtrig, nq, nt, trig, turtle};
    match f {
        Fmt::Nt => entries!(drive_t, nt::NTriplesParser {}, nt::NTriplesParser::default(), sophia_turtle::parser::nt),
        Fmt::Nq => entries!(drive_q, nq::NQuadsParser {}, nq::NQuadsParser::default(), sophia_turtle::parser::nq),
        Fmt::Gnq => entries!(drive_q, gnq::GNQuadsParser {}, gnq::GNQuadsParser::default(), sophia_turtle::parser::gnq),
        Fmt::Turtle => entries!(drive_t, turtle::TurtleParser { base: b.clone() }, turtle::TurtleParser::default(), sophia_turtle::parser::turtle),
        Fmt::Trig => entries!(drive_q, trig::TriGParser { base: b.clone() }, trig::TriGParser::default(), sophia_turtle::parser::trig),
        Fmt::Gtrig => entries!(drive_q, gtrig::GTriGParser { base: b.clone() }, gtrig::GTriGParser::default(), sophia_turtle::parser::gtrig),
        Fmt::Xml => entries!(drive_t, sophia_xml::parser::RdfXmlParser { base: b.clone() }, sophia_xml::parser::RdfXmlParser::default(), sophia_xml::parser),
        Fmt::JsonLd => {
            let p = if base { JsonLdParser::new_with_options(JsonLdOptions::new().with_base(Iri::new_unchecked(std::sync::Arc::from(BASE)))) } else { JsonLdParser::new() };
            match e {
                Entry::Slice => drive_j(p.parse(data), c, &mut out),
                Entry::Str => drive_j(p.parse_str(text.unwrap()), c, &mut out),
                Entry::ModStr => drive_j(sophia_jsonld::parser::parse_str(text.unwrap()), c, &mut out),
                Entry::ModBuf => drive_j(sophia_jsonld::parser::parse_bufread(data), c, &mut out),
                Entry::Default => drive_j(JsonLdParser::default().parse(data), c, &mut out),
                Entry::Buffered(n) => drive_j(p.parse(BufReader::with_capacity(n.max(1), data)), c, &mut out),
                Entry::Cursor => drive_j(p.parse(Cursor::new(data.to_vec())), c, &mut out),
                Entry::Feed { chunk, cut } => drive_j(p.parse(Feed::new(data, chunk, cut, None, failed.clone())), c, &mut out),
                Entry::FailAt(k) => drive_j(p.parse(Feed::new(data, usize::MAX, None, Some(k), failed.clone())), c, &mut out),
                Entry::Async => drive_j(poll_to_end(p.async_parse_str(text.unwrap())), c, &mut out),
                Entry::Opts(k) => { let p = JsonLdParser::new_with_options(jsonld_opts(k)); let _ = p.options(); if k == 3 { let mut o2 = Outcome::default(); drive_q(p.parse(data), c, true, &mut o2); out = o2; } else { drive_j(p.parse(data), c, &mut out) } }
            }
        }
    }
    if failed.get() { out.io_failed = true; }
    out
}

// ------------------------------------------------------------------------------------------------------
// Documents: grammar-derived documents whose terms carry non-ASCII characters inside every kind of token
// ------------------------------------------------------------------------------------------------------
const CASE_LEN: [char; 28] = ['\u{130}', '\u{212A}', '\u{2126}', '\u{1E9E}', '\u{FB00}', '\u{FB01}', '\u{FB02}', '\u{FB03}', '\u{FB04}', '\u{FB05}', '\u{FB06}', '\u{149}', '\u{23A}', '\u{23E}', '\u{2C62}', '\u{2C64}', '\u{390}', '\u{3B0}', '\u{1F0}', '\u{DF}', '\u{1F80}', '\u{131}', '\u{17F}', '\u{1E96}', '\u{587}', '\u{2C6F}', '\u{A7AA}', '\u{1FB3}'];
const COMBINING: [char; 10] = ['\u{301}', '\u{307}', '\u{338}', '\u{20DD}', '\u{FE0F}', '\u{200D}', '\u{200C}', '\u{34F}', '\u{1AB0}', '\u{E0100}'];
const ASTRAL: [char; 10] = ['\u{1F600}', '\u{10000}', '\u{10FFFF}', '\u{E0001}', '\u{1D400}', '\u{20000}', '\u{F0000}', '\u{10400}', '\u{1F1F9}', '\u{EFFFD}'];
const SPECIALS: [char; 14] = ['\u{FEFF}', '\u{FFFE}', '\u{FFFF}', '\u{FFFD}', '\u{0}', '\u{85}', '\u{2028}', '\u{2029}', '\u{A0}', '\u{3000}', '\u{202E}', '\u{61C}', '\u{AD}', '\u{7F}'];
const LOOKALIKE: [char; 12] = ['\u{FF1C}', '\u{FF1E}', '\u{FF02}', '\u{2024}', '\u{FF0E}', '\u{FF20}', '\u{FF3F}', '\u{FF1A}', '\u{FF5B}', '\u{2039}', '\u{201C}', '\u{FF3C}'];
const BAD_UTF8: [&[u8]; 16] = [b"\x80", b"\xBF", b"\xC0\xAF", b"\xC2", b"\xE2\x84", b"\xED\xA0\x80", b"\xF4\x90\x80\x80", b"\xF0\x9F\x98", b"\xFF", b"\xFE", b"\xF8\x88\x80\x80\x80", b"\xE0\x80\x80", b"\xEF\xBB", b"\xC4", b"\xE1\xBA", b"\xED\xBF\xBF"];

fn esc_nt(s: &str) -> String { let mut o = String::new(); for c in s.chars() { match c { '\\' => o.push_str("\\\\"), '"' => o.push_str("\\\""), '\n' => o.push_str("\\n"), '\r' => o.push_str("\\r"), c => o.push(c) } } o }
fn esc_json_bytes(s: &[u8]) -> Vec<u8> { let mut o = vec![]; for &b in s { match b { b'\\' => o.extend_from_slice(b"\\\\"), b'"' => o.extend_from_slice(b"\\\""), b'\n' => o.extend_from_slice(b"\\n"), b'\r' => o.extend_from_slice(b"\\r"), b'\t' => o.extend_from_slice(b"\\t"), b if b < 0x20 => o.extend_from_slice(format!("\\u{b:04x}").as_bytes()), b => o.push(b) } } o }
fn esc_xml_bytes(s: &[u8]) -> Vec<u8> { let mut o = vec![]; for &b in s { match b { b'<' => o.extend_from_slice(b"&lt;"), b'>' => o.extend_from_slice(b"&gt;"), b'&' => o.extend_from_slice(b"&amp;"), b'"' => o.extend_from_slice(b"&quot;"), b => o.push(b) } } o }
fn esc_json(s: &str) -> String { String::from_utf8(esc_json_bytes(s.as_bytes())).unwrap() }
fn esc_xml(s: &str) -> String { String::from_utf8(esc_xml_bytes(s.as_bytes())).unwrap() }

struct Pools;
impl Pools {
    const IRIS: [&'static str; 22] = ["http://e/s", "http://e/\u{130}stanbul", "http://\u{e9}.example/\u{1c5}?q=\u{212A}#\u{1E9E}", "urn:x:\u{FB00}", "http://[::1]/", "http://e/%C4%B0", "http://e/\u{10000}", "http://e/a\u{301}", "tag:a,2000:b", "http://e/\u{2126}/\u{149}", "http://e/p", "http://e/o",
        "HTTP://E/\u{FB03}", "http://e/\u{23A}\u{23E}", "http://e/?\u{E000}", "http://e/#", "mailto:\u{131}@e", "http://e/\u{3B0}\u{390}", "http://e/a%2Fb", "file:///\u{1F600}", "http://e/\u{FEFF}", "x:"];
    const REL: [&'static str; 8] = ["../o", "#f", "?q", "", "\u{130}", "a/\u{212A}", "//h/\u{FB01}", "./\u{1E9E}#\u{149}"];
    const LABELS: [&'static str; 16] = ["b1", "a\u{130}b", "\u{212A}1", "a.b", "a\u{b7}", "a\u{300}b", "a-b", "_x", "1a", "a\u{203f}b", "\u{10000}x", "\u{FB00}", "\u{1E9E}\u{149}", "x\u{2126}", "a.b.c", "\u{37f}\u{2040}"];
    const BAD_LABELS: [&'static str; 8] = ["a..b", "a.", ".a", "a.-b", "-a", "a b", "\u{300}a", "a\u{FF0E}"];
    const TAGS: [&'static str; 10] = ["en", "en-US", "tr-TR", "de-CH-1901", "x-klingon", "EN", "zh-Hant-TW", "tr", "az-Latn", "el-polyton"];
    const BAD_TAGS: [&'static str; 6] = ["\u{130}", "en-\u{212A}", "e\u{301}", "en-", "toolongtag1", "\u{FB01}"];
    const LEX: [&'static str; 18] = ["", "\u{130}stanbul", "\u{212A}", "\u{FB01}n", "a\u{301}", "\u{1F600}", "\u{FEFF}x", "line\nbreak", "q\"uote", "back\\slash", "<tag>", "&amp;", "\u{2126}\u{149}\u{1E9E}", "I\u{307}", "\u{1F1F9}\u{1F1F7}", "\u{202E}rtl", "tab\there", "\u{FFFD}\u{FFFE}"];
    const VARS: [&'static str; 8] = ["v", "\u{130}", "x1", "_y", "a\u{300}", "\u{212A}", "v\u{b7}", "\u{FB00}\u{203f}"];
    const PREFIXES: [&'static str; 8] = ["", "e", "\u{130}", "\u{1c5}", "a.b", "a-1", "\u{212A}", "\u{FB01}x"];
    const LOCALS: [&'static str; 12] = ["o", "\u{130}", "a.b", "a\\.b", "a:b", "%C4%B0", "1", "a\u{b7}", "\u{212A}elvin", "", "\u{1E9E}\u{149}", "a\\~b"];
    const NCNAMES: [&'static str; 8] = ["p", "\u{130}", "\u{212A}p", "p\u{FB00}", "p.q", "p-1", "_p", "p\u{b7}"];
}

/// one random document of format `f`; `edge` also draws labels / tags the validators reject and relative IRIs
fn gen_doc(f: Fmt, r: &mut Rng, edge: bool) -> String {
    let iri = |r: &mut Rng| -> String { if edge && r.chance(1, 5) && !matches!(f, Fmt::Nt | Fmt::Nq) { r.ps(&Pools::REL).to_string() } else { r.ps(&Pools::IRIS).to_string() } };
    let label = |r: &mut Rng| -> String { if edge && r.chance(1, 4) { r.ps(&Pools::BAD_LABELS).to_string() } else { r.ps(&Pools::LABELS).to_string() } };
    let tag = |r: &mut Rng| -> String { if edge && r.chance(1, 4) { r.ps(&Pools::BAD_TAGS).to_string() } else { r.ps(&Pools::TAGS).to_string() } };
    let nst = 1 + r.below(4);
    let mut o = String::new();
    match f {
        Fmt::Nt | Fmt::Nq | Fmt::Gnq => {
            let gz = f == Fmt::Gnq;
            fn node(r: &mut Rng, gz: bool, pos: u8, depth: u8, iri: &dyn Fn(&mut Rng) -> String, label: &dyn Fn(&mut Rng) -> String, tag: &dyn Fn(&mut Rng) -> String) -> String {
                let k = r.below(if gz { 7 } else if pos == 2 { 5 } else if pos == 1 { 1 } else { 3 });
                match k {
                    0 => format!("<{}>", iri(r)),
                    1 => format!("_:{}", label(r)),
                    2 if depth < 2 => format!("<< {} {} {} >>", node(r, gz, 0, depth + 1, iri, label, tag), node(r, gz, 1, depth + 1, iri, label, tag), node(r, gz, 2, depth + 1, iri, label, tag)),
                    2 => format!("<{}>", iri(r)),
                    3 => format!("\"{}\"@{}", esc_nt(r.ps(&Pools::LEX)), tag(r)),
                    4 => if r.chance(1, 2) { format!("\"{}\"^^<{}>", esc_nt(r.ps(&Pools::LEX)), iri(r)) } else { format!("\"{}\"", esc_nt(r.ps(&Pools::LEX))) },
                    _ => format!("{}{}", if r.chance(1, 2) { "?" } else { "$" }, r.ps(&Pools::VARS)),
                }
            }
            for _ in 0..nst {
                o.push_str(&format!("{} {} {}", node(r, gz, 0, 0, &iri, &label, &tag), node(r, gz, 1, 0, &iri, &label, &tag), node(r, gz, 2, 0, &iri, &label, &tag)));
                if f != Fmt::Nt && r.chance(1, 2) { let gname = if gz { node(r, gz, 0, 1, &iri, &label, &tag) } else if r.chance(1, 2) { format!("<{}>", iri(r)) } else { format!("_:{}", label(r)) }; o.push(' '); o.push_str(&gname); }
                o.push_str(if r.chance(1, 6) { " . # \u{130} \u{212A}\n" } else { " .\n" });
            }
        }
        Fmt::Turtle | Fmt::Trig | Fmt::Gtrig => {
            let gz = f == Fmt::Gtrig;
            let pfx = r.ps(&Pools::PREFIXES);
            o.push_str(&format!("@prefix {pfx}: <http://ns.example/{}#> .\n", r.ps(&["", "\u{130}", "\u{212A}/", "a\u{301}"])));
            if r.chance(1, 3) { o.push_str(&format!("@base <http://b.example/{}/> .\n", r.ps(&["x", "\u{1E9E}", "\u{FB00}"]))); }
            let res = |r: &mut Rng| -> String { match r.below(4) { 0 => format!("{pfx}:{}", r.ps(&Pools::LOCALS)), 1 => format!("_:{}", label(r)), 2 => format!("<{}>", if r.chance(1, 2) { r.ps(&Pools::REL).to_string() } else { iri(r) }), _ => if gz { format!("?{}", r.ps(&Pools::VARS)) } else { format!("{pfx}:{}", r.ps(&Pools::LOCALS)) } } };
            let obj = |r: &mut Rng| -> String { match r.below(7) { 0 => format!("\"{}\"@{}", esc_nt(r.ps(&Pools::LEX)), tag(r)), 1 => format!("'''{}'''", r.ps(&Pools::LEX).replace('\\', "\\\\").replace('\'', "\\'")), 2 => format!("\"{}\"^^{}", esc_nt(r.ps(&Pools::LEX)), res(r)), 3 => format!("( {} {} )", res(r), r.ps(&["1", "2.5", "true", "\"\u{130}\""])), 4 => format!("[ {} {} ]", if gz { res(r) } else { format!("{pfx}:{}", r.ps(&Pools::LOCALS)) }, res(r)), 5 => format!("<< {} {} {} >>", res(r), if gz { res(r) } else { format!("<{}>", iri(r)) }, res(r)), _ => res(r) } };
            let open_graph = f != Fmt::Turtle && r.chance(1, 2);
            if open_graph { o.push_str(&format!("{} {{\n", res(r))); }
            let pred = |r: &mut Rng| -> String { match r.below(4) { 0 => "a".to_string(), 1 => format!("<{}>", iri(r)), 2 if gz => format!("?{}", r.ps(&Pools::VARS)), _ => format!("{pfx}:{}", r.ps(&Pools::LOCALS)) } };
            for _ in 0..nst { o.push_str(&format!("{} {} {} ; {} {} , {} .\n", res(r), pred(r), obj(r), pred(r), obj(r), obj(r))); }
            if open_graph { o.push_str("}\n"); }
        }
        Fmt::Xml => {
            o.push_str(&format!("<?xml version=\"1.0\" encoding=\"utf-8\"?>\n<rdf:RDF xmlns:rdf=\"http://www.w3.org/1999/02/22-rdf-syntax-ns#\" xmlns:e=\"http://ns.example/{}#\" xml:base=\"http://b.example/{}/\">\n", r.ps(&["", "\u{130}", "\u{212A}/"]), r.ps(&["x", "\u{1E9E}"])));
            for _ in 0..nst {
                let subj = if r.chance(1, 3) { format!("rdf:nodeID=\"{}\"", esc_xml(&label(r))) } else { format!("rdf:about=\"{}\"", esc_xml(&iri(r))) };
                o.push_str(&format!(" <rdf:Description {subj}>\n"));
                for _ in 0..1 + r.below(3) {
                    let el = format!("e:{}", r.ps(&Pools::NCNAMES));
                    match r.below(5) {
                        0 => o.push_str(&format!("  <{el} rdf:resource=\"{}\"/>\n", esc_xml(&iri(r)))),
                        1 => o.push_str(&format!("  <{el} xml:lang=\"{}\">{}</{el}>\n", esc_xml(&tag(r)), esc_xml(r.ps(&Pools::LEX)))),
                        2 => o.push_str(&format!("  <{el} rdf:datatype=\"{}\">{}</{el}>\n", esc_xml(&iri(r)), esc_xml(r.ps(&Pools::LEX)))),
                        3 => o.push_str(&format!("  <{el} rdf:nodeID=\"{}\"/>\n", esc_xml(&label(r)))),
                        _ => o.push_str(&format!("  <{el} rdf:ID=\"{}\" e:{}=\"{}\">{}</{el}>\n", r.ps(&Pools::NCNAMES), r.ps(&Pools::NCNAMES), esc_xml(r.ps(&Pools::LEX)), esc_xml(r.ps(&Pools::LEX)))),
                    }
                }
                o.push_str(" </rdf:Description>\n");
            }
            o.push_str("</rdf:RDF>\n");
        }
        Fmt::JsonLd => {
            let id = |r: &mut Rng| -> String { if r.chance(1, 3) { format!("_:{}", label(r)) } else { iri(r) } };
            let val = |r: &mut Rng| -> String { match r.below(5) { 0 => format!("{{\"@id\": \"{}\"}}", esc_json(&id(r))), 1 => format!("{{\"@value\": \"{}\", \"@language\": \"{}\"}}", esc_json(r.ps(&Pools::LEX)), esc_json(&tag(r))), 2 => format!("{{\"@value\": \"{}\", \"@type\": \"{}\"}}", esc_json(r.ps(&Pools::LEX)), esc_json(&iri(r))), 3 => format!("\"{}\"", esc_json(r.ps(&Pools::LEX))), _ => format!("{{\"@list\": [\"{}\", 1, true]}}", esc_json(r.ps(&Pools::LEX))) } };
            o.push_str(&format!("{{\"@context\": {{\"e\": \"http://ns.example/{}#\", \"t\": {{\"@id\": \"e:{}\", \"@language\": \"{}\"}}}},\n", r.ps(&["", "\u{130}", "\u{212A}/"]), esc_json(r.ps(&Pools::NCNAMES)), esc_json(&tag(r))));
            o.push_str(&format!(" \"@id\": \"{}\", \"@type\": \"e:{}\", \"t\": \"{}\"", esc_json(&id(r)), esc_json(r.ps(&Pools::NCNAMES)), esc_json(r.ps(&Pools::LEX))));
            for _ in 0..nst { o.push_str(&format!(",\n \"{}\": [{}, {}]", if r.chance(1, 2) { format!("e:{}", esc_json(r.ps(&Pools::NCNAMES))) } else { esc_json(&iri(r)) }, val(r), val(r))); }
            if r.chance(1, 2) { o.push_str(&format!(",\n \"@graph\": [{{\"@id\": \"{}\", \"e:g\": {}}}]", esc_json(&id(r)), val(r))); }
            o.push_str("}\n");
        }
    }
    o
}

/// document number `k` of format `f`: 0 = the hand-written seed document, 1..=NGEN generated (fixed), above: token soup / random bytes from `r`
const NGEN: usize = 12;
fn corpus(f: Fmt, k: usize, r: &mut Rng) -> Vec<u8> {
    if k >= VOC_BASE { return voc_doc(f, k - VOC_BASE).0.into_bytes(); }
    if k >= ERR_BASE { return err_doc(f, k - ERR_BASE).0; }
    if k == 0 { return seeds(f)[0].as_bytes().to_vec(); }
    if k <= NGEN { let mut g = Rng::new(0xD0C5).fork((f as u64) * 1000 + k as u64); return gen_doc(f, &mut g, k > NGEN / 2).into_bytes(); }
    match k % 3 {
        0 => { let n = 3 + r.below(60); (0..n).map(|_| r.next() as u8).collect() }
        1 => { let d = dictionary(f); let n = 2 + r.below(24); let mut v = vec![]; for _ in 0..n { v.extend_from_slice(r.ps(&d).as_bytes()); if r.chance(1, 2) { v.push(b' '); } } v }
        _ => { let n = 3 + r.below(80); (0..n).map(|_| 0x20 + (r.next() % 0x5F) as u8).collect() }
    }
}

// ------------------------------------------------------------------------------------------------------
// Wrappers: the document inside another syntax (polyglot inputs); (prefix, payload, suffix)
// ------------------------------------------------------------------------------------------------------
fn media_type(f: Fmt) -> &'static str { match f { Fmt::Nt => "application/n-triples", Fmt::Nq | Fmt::Gnq => "application/n-quads", Fmt::Turtle => "text/turtle", Fmt::Trig | Fmt::Gtrig => "application/trig", Fmt::Xml => "application/rdf+xml", Fmt::JsonLd => "application/ld+json" } }
fn utf16(s: &[u8], be: bool) -> Vec<u8> { let t = String::from_utf8_lossy(s); let mut o = if be { vec![0xFE, 0xFF] } else { vec![0xFF, 0xFE] }; for u in t.encode_utf16() { if be { o.extend_from_slice(&u.to_be_bytes()) } else { o.extend_from_slice(&u.to_le_bytes()) } } o }
const NWRAP: usize = 32;
const WRAP_NAMES: [&str; NWRAP] = ["as is", "in an HTML page (script element in the head)", "at the end of an HTML fragment (script element)", "in an upper-case HTML page after another script", "in an HTML page between two other scripts", "in an XML envelope (CDATA)", "escaped in an XML element", "as a JSON string",
    "as JSONP", "after an XSSI guard", "in a Markdown code fence", "as an HTTP response", "as a MIME multipart body", "in an HTML comment", "behind # on every line", "in a Turtle long string",
    "in an RDF/XML XMLLiteral", "escaped in an RDF/XML property", "as a JSON-LD @value", "in SVG metadata", "as a data: URI", "after a document of another format", "as UTF-16LE with BOM", "as UTF-16BE with BOM",
    "with CRLF line ends", "with Unicode line separators", "after a BOM and white space", "after an ISO-8859-1 XML declaration", "in an N-Triples literal", "twice", "in an HTML page whose script type has parameters", "in an XHTML page (script with CDATA)"];
fn wrap(kind: usize, pf: Fmt, doc: &[u8], r: &mut Rng) -> (Vec<u8>, Vec<u8>, Vec<u8>) {
    let mt = media_type(pf);
    let s = |x: &str| x.as_bytes().to_vec();
    let raw = doc.to_vec();
    match kind % NWRAP {
        0 => (vec![], raw, vec![]),
        1 => (s(&format!("<!DOCTYPE html>\n<html lang=\"en\"><head><meta charset=\"utf-8\"><title>Data about things and places</title>\n<script type=\"{mt}\">")), raw, s("</script></head><body><p>See the data block.</p></body></html>\n")),
        2 => (s(&format!("<h1>A page, its title and some keywords: first, second, third, fourth, fifth, sixth, seventh, eighth, ninth, tenth, eleventh, twelfth</h1>\n<script type=\"{mt}\">")), raw, s("</script>")),
        3 => (s(&format!("<HTML><HEAD><TITLE>KELVIN AND OHM</TITLE><SCRIPT SRC=\"lib.js\"></SCRIPT><SCRIPT ID=data TYPE=\"{}\">", mt.to_ascii_uppercase())), raw, s("</SCRIPT></HEAD></HTML>")),
        4 => (s(&format!("<html><script type=\"text/javascript\">var x = \"</\" + \"script>\";</script><script type='{mt}'>")), raw, s(&format!("</script><script type=\"{mt}\">{{}}</script></html>"))),
        5 => (s(&format!("<?xml version=\"1.0\" encoding=\"UTF-8\"?>\n<envelope><data type=\"{mt}\"><![CDATA[")), raw, s("]]></data></envelope>\n")),
        6 => (s("<?xml version=\"1.0\"?><doc><pre>"), esc_xml_bytes(doc), s("</pre></doc>")),
        7 => (s(&format!("{{\"type\": \"{mt}\", \"data\": \"")), esc_json_bytes(doc), s("\"}")),
        8 => (s("callback("), raw, s(");")),
        9 => (s(")]}',\n"), raw, vec![]),
        10 => (s(&format!("# Data\n\nSome *text* with `code`.\n\n```{}\n", mt.rsplit('/').next().unwrap())), raw, s("\n```\n")),
        11 => (s(&format!("HTTP/1.1 200 OK\r\nContent-Type: {mt}; charset=utf-8\r\nContent-Length: {}\r\n\r\n", doc.len())), raw, vec![]),
        12 => (s(&format!("MIME-Version: 1.0\r\nContent-Type: multipart/mixed; boundary=xx\r\n\r\n--xx\r\nContent-Type: {mt}\r\n\r\n")), raw, s("\r\n--xx--\r\n")),
        13 => (s("<!-- "), raw, s(" -->")),
        14 => (vec![], { let mut o = s("# "); for &b in doc { o.push(b); if b == b'\n' { o.extend_from_slice(b"# "); } } o }, s("\n")),
        15 => (s("<http://e/s> <http://e/p> \"\"\""), { let mut o = vec![]; for &b in doc { match b { b'\\' => o.extend_from_slice(b"\\\\"), b'"' => o.extend_from_slice(b"\\\""), b => o.push(b) } } o }, s("\"\"\" .\n")),
        16 => (s("<rdf:RDF xmlns:rdf=\"http://www.w3.org/1999/02/22-rdf-syntax-ns#\" xmlns:e=\"http://e/\"><rdf:Description rdf:about=\"http://e/s\"><e:p rdf:parseType=\"Literal\">"), raw, s("</e:p></rdf:Description></rdf:RDF>")),
        17 => (s("<rdf:RDF xmlns:rdf=\"http://www.w3.org/1999/02/22-rdf-syntax-ns#\" xmlns:e=\"http://e/\"><rdf:Description rdf:about=\"http://e/s\"><e:p>"), esc_xml_bytes(doc), s("</e:p></rdf:Description></rdf:RDF>")),
        18 => (s("{\"@id\": \"http://e/s\", \"http://e/p\": {\"@value\": \""), esc_json_bytes(doc), s("\"}}")),
        19 => (s("<svg xmlns=\"http://www.w3.org/2000/svg\"><metadata>"), raw, s("</metadata><circle r=\"1\"/></svg>")),
        20 => (s(&format!("data:{mt};charset=utf-8,")), { let mut o = vec![]; for &b in doc { if b.is_ascii_alphanumeric() { o.push(b) } else { o.extend_from_slice(format!("%{b:02X}").as_bytes()) } } o }, vec![]),
        21 => { let other = FMTS[r.below(8)]; let mut p = seeds(other)[0].as_bytes().to_vec(); p.push(b'\n'); (p, raw, vec![]) }
        22 => (vec![], utf16(doc, false), vec![]),
        23 => (vec![], utf16(doc, true), vec![]),
        24 => (vec![], { let mut o = vec![]; for &b in doc { if b == b'\n' { o.push(b'\r'); } o.push(b); } o }, vec![]),
        25 => (vec![], { let sep = *r.pick(&["\u{2028}", "\u{2029}", "\u{85}", "\r", "\u{b}", "\u{c}"]); let mut o = vec![]; for &b in doc { if b == b'\n' { o.extend_from_slice(sep.as_bytes()) } else { o.push(b) } } o }, vec![]),
        26 => (s(r.ps(&["\u{FEFF}", "\u{FEFF} \n", " \u{FEFF}", "\u{FEFF}\u{FEFF}", "\n\t \u{FEFF}", "\u{FFFE}"])), raw, vec![]),
        27 => (s("<?xml version=\"1.0\" encoding=\"ISO-8859-1\"?>\n"), { let t = String::from_utf8_lossy(doc).to_string(); let t = if t.starts_with("<?xml") { t.splitn(2, "?>").nth(1).unwrap_or("").to_string() } else { t }; t.chars().map(|c| if (c as u32) < 256 { c as u32 as u8 } else { b'?' }).collect() }, vec![]),
        28 => (s("<http://e/s> <http://e/p> \""), { let mut o = vec![]; for &b in doc { match b { b'\\' => o.extend_from_slice(b"\\\\"), b'"' => o.extend_from_slice(b"\\\""), b'\n' => o.extend_from_slice(b"\\n"), b'\r' => o.extend_from_slice(b"\\r"), b => o.push(b) } } o }, s("\" .\n")),
        29 => (raw.clone(), raw, vec![]),
        30 => (s(&format!("<!doctype html><title>x</title><p>text</p><script nonce=abc type=\"{mt};profile=http://www.w3.org/ns/json-ld#expanded\" id=\"d\">")), raw, s("</script ><p>after</p>")),
        _ => (s(&format!("<?xml version=\"1.0\"?>\n<html xmlns=\"http://www.w3.org/1999/xhtml\"><head><title>x</title><script type=\"{mt}\">//<![CDATA[\n")), raw, s("\n//]]></script></head><body/></html>")),
    }
}
/// wrappers whose prefix and suffix are text around the untouched payload (the shapes in which data is embedded in pages and envelopes)
const EMBEDDING_WRAPS: [usize; 12] = [1, 2, 3, 4, 5, 10, 13, 16, 19, 21, 30, 31];

// ------------------------------------------------------------------------------------------------------
// Unicode at every position class
// ------------------------------------------------------------------------------------------------------
#[derive(Clone, Copy, PartialEq, Debug)]
enum TK { Word, Space, Punct, High }
fn tokens(d: &[u8]) -> Vec<(usize, usize, TK)> {
    let class = |b: u8| if b >= 0x80 { TK::High } else if b.is_ascii_alphanumeric() { TK::Word } else if b.is_ascii_whitespace() { TK::Space } else { TK::Punct };
    let mut v = vec![]; let mut i = 0;
    while i < d.len() { let c = class(d[i]); let mut j = i + 1; if c != TK::Punct { while j < d.len() && class(d[j]) == c { j += 1; } } v.push((i, j, c)); i = j; }
    v
}
/// a unit to insert: 1..3 code points (or an ill-formed byte sequence) of one class
fn unit(r: &mut Rng, class: usize) -> (Vec<u8>, String) {
    let mut s = String::new();
    match class % 8 {
        0 | 1 => { let c = *r.pick(&CASE_LEN); for _ in 0..1 + r.below(3) { s.push(c); } }
        2 => { s.push(*r.pick(&CASE_LEN)); s.push(*r.pick(&COMBINING)); if r.chance(1, 2) { s.push(*r.pick(&COMBINING)); } }
        3 => { s.push(*r.pick(&ASTRAL)); if r.chance(1, 3) { s.push(*r.pick(&ASTRAL)); } }
        4 => { s.push(*r.pick(&SPECIALS)); }
        5 => { s.push(*r.pick(&LOOKALIKE)); }
        6 => { s.push(*r.pick(&COMBINING)); }
        _ => { let b = *r.pick(&BAD_UTF8); return (b.to_vec(), format!("the ill-formed bytes {b:02x?}")); }
    }
    let name = s.chars().map(|c| format!("U+{:04X}", c as u32)).collect::<Vec<_>>().join(" ");
    (s.into_bytes(), name)
}
const MODE_NAMES: [&str; 12] = ["once", "at several places", "before every token", "after every word", "inside every word", "after every punctuation mark", "inside every white-space run", "in place of look-alike ASCII letters", "at the very start and the very end", "inside every non-ASCII run", "after every word inside double quotes", "once inside double quotes"];
/// byte ranges strictly between two unescaped double quotes
fn quoted_spans(d: &[u8]) -> Vec<(usize, usize)> { let mut v = vec![]; let mut open: Option<usize> = None; let mut i = 0; while i < d.len() { match d[i] { b'\\' => { i += 1; } b'"' => { match open { None => open = Some(i + 1), Some(a) => { if i > a { v.push((a, i)); } open = None; } } } _ => {} } i += 1; } v }
const SCOPE_NAMES: [&str; 4] = ["the text before the payload", "the payload", "the text after the payload", "the whole input"];
#[derive(Clone, Debug)]
struct Tort { mode: usize, scope: usize, unit: Vec<u8>, unit_name: String }
fn lookalike(b: u8, next: Option<u8>, r: &mut Rng) -> Option<(&'static str, usize)> {
    match (b, next) {
        (b'f', Some(b'f')) => Some(("\u{FB00}", 2)), (b'f', Some(b'i')) => Some(("\u{FB01}", 2)), (b'f', Some(b'l')) => Some(("\u{FB02}", 2)), (b's', Some(b't')) => Some(("\u{FB06}", 2)), (b's', Some(b's')) => Some((if r.chance(1, 2) { "\u{1E9E}" } else { "\u{DF}" }, 2)),
        (b'i', _) => Some((if r.chance(1, 2) { "\u{130}" } else { "\u{131}" }, 1)), (b'I', _) => Some(("\u{130}", 1)), (b'k', _) | (b'K', _) => Some(("\u{212A}", 1)), (b's', _) => Some(("\u{17F}", 1)), (b'n', _) => Some(("\u{149}", 1)),
        (b'A', _) | (b'a', _) => Some(("\u{23A}", 1)), (b'T', _) | (b't', _) => Some(("\u{23E}", 1)), (b'L', _) | (b'l', _) => Some(("\u{2C62}", 1)), (b'O', _) | (b'o', _) => Some(("\u{2126}", 1)), (b'j', _) => Some(("\u{1F0}", 1)), (b'h', _) => Some(("\u{1E96}", 1)),
        _ => None,
    }
}
/// apply `t` to `part` (one of prefix / payload / suffix, or their concatenation)
fn torture_part(t: &Tort, part: &[u8], r: &mut Rng) -> Vec<u8> {
    if t.mode == 7 {
        let every = [1usize, 1, 2, 8][r.below(4)];
        let mut o = vec![]; let mut i = 0;
        while i < part.len() { match lookalike(part[i], part.get(i + 1).copied(), r) { Some((rep, n)) if r.below(every) == 0 => { o.extend_from_slice(rep.as_bytes()); i += n; } _ => { o.push(part[i]); i += 1; } } }
        return o;
    }
    let tk = tokens(part);
    let mut at: Vec<usize> = vec![];
    let inside = |a: usize, b: usize, r: &mut Rng| if b - a >= 2 { a + 1 + r.below(b - a - 1) } else { b };
    match t.mode {
        0 | 1 => { let n = if t.mode == 0 { 1 } else { 2 + r.below(6) }; for _ in 0..n { if tk.is_empty() { at.push(0); continue; } let (a, b, _) = *r.pick(&tk); at.push(match r.below(3) { 0 => a, 1 => inside(a, b, r), _ => b }); } }
        2 => at.extend(tk.iter().map(|x| x.0)),
        3 => at.extend(tk.iter().filter(|x| x.2 == TK::Word).map(|x| x.1)),
        4 => { for x in tk.iter().filter(|x| x.2 == TK::Word && x.1 - x.0 >= 2) { at.push((x.0 + x.1) / 2); } }
        5 => at.extend(tk.iter().filter(|x| x.2 == TK::Punct).map(|x| x.1)),
        6 => { for x in tk.iter().filter(|x| x.2 == TK::Space) { at.push(inside(x.0, x.1, r)); } }
        8 => { at.push(0); at.push(part.len()); }
        10 | 11 => { let spans = quoted_spans(part); let inq = |p: usize| spans.iter().any(|s| s.0 <= p && p <= s.1);
            let cands: Vec<usize> = tk.iter().filter(|x| x.2 == TK::Word && inq(x.0) && inq(x.1)).map(|x| x.1).collect();
            if t.mode == 10 { at.extend(cands); } else if !cands.is_empty() { at.push(*r.pick(&cands)); } else if let Some(sp) = spans.first() { at.push(sp.0); } }
        _ => { for x in tk.iter().filter(|x| x.2 == TK::High) { at.push(inside(x.0, x.1, r)); } if at.is_empty() { at.push(part.len() / 2); } }
    }
    at.sort();
    let mut o = Vec::with_capacity(part.len() + at.len() * t.unit.len()); let mut k = 0;
    for (i, &b) in part.iter().enumerate() { while k < at.len() && at[k] == i { o.extend_from_slice(&t.unit); k += 1; } o.push(b); }
    while k < at.len() { o.extend_from_slice(&t.unit); k += 1; }
    o
}
fn apply_torture(t: &Tort, pre: &[u8], pay: &[u8], suf: &[u8], r: &mut Rng) -> Vec<u8> {
    let mut scope = t.scope % 4;
    if (scope == 0 && pre.is_empty()) || (scope == 2 && suf.is_empty()) { scope = 1; }
    match scope {
        0 => [torture_part(t, pre, r), pay.to_vec(), suf.to_vec()].concat(),
        1 => [pre.to_vec(), torture_part(t, pay, r), suf.to_vec()].concat(),
        2 => [pre.to_vec(), pay.to_vec(), torture_part(t, suf, r)].concat(),
        _ => torture_part(t, &[pre, pay, suf].concat(), r),
    }
}

/// A complete description of one input and of the parser runs made on it.
#[derive(Clone, Debug)]
struct Recipe { pf: Fmt, doc: usize, wrap: usize, tort: Option<Tort>, parser: Fmt, base: bool, alts: Vec<(Entry, Consume)>, seed: u64 }
fn materialize(rc: &Recipe) -> (Vec<u8>, String) {
    let mut r = Rng::new(rc.seed);
    let doc = corpus(rc.pf, rc.doc, &mut r);
    let (pre, pay, suf) = wrap(rc.wrap, rc.pf, &doc, &mut r);
    let docname = if rc.doc >= VOC_BASE { format!("vocabulary document #{} ({})", rc.doc - VOC_BASE, voc_doc(rc.pf, rc.doc - VOC_BASE).1) } else if rc.doc >= ERR_BASE { format!("error document #{} ({})", rc.doc - ERR_BASE, err_doc(rc.pf, rc.doc - ERR_BASE).1) } else if rc.doc == 0 { "the seed document".to_string() } else if rc.doc <= NGEN { format!("generated document #{}", rc.doc) } else { ["random bytes", "a soup of dictionary tokens", "random printable ASCII"][rc.doc % 3].to_string() };
    match &rc.tort {
        None => ([pre, pay, suf].concat(), format!("{:?}: {docname} {}", rc.pf, WRAP_NAMES[rc.wrap % NWRAP])),
        Some(t) => (apply_torture(t, &pre, &pay, &suf, &mut r), format!("{:?}: {docname} {}, with {} inserted {} in {}", rc.pf, WRAP_NAMES[rc.wrap % NWRAP], t.unit_name, MODE_NAMES[t.mode % 12], SCOPE_NAMES[t.scope % 4])),
    }
}
fn random_entry(r: &mut Rng, f: Fmt, base: bool, len: usize) -> Entry {
    loop {
        let e = match r.below(if f == Fmt::JsonLd { 13 } else { 10 }) {
            0 => Entry::Str, 1 => Entry::ModStr, 2 => Entry::ModBuf, 3 => Entry::Default, 4 => Entry::Buffered(*r.pick(&[1usize, 2, 3, 4, 5, 7, 8, 16, 64, 4096])), 5 => Entry::Cursor,
            6 => Entry::Feed { chunk: *r.pick(&[1usize, 2, 3, 5, 9, 33]), cut: None }, 7 => Entry::Feed { chunk: usize::MAX, cut: Some(r.below(len.max(1))) }, 8 => Entry::FailAt(r.below(len.max(1))), 9 => Entry::Slice,
            10 => Entry::Async, _ => Entry::Opts(r.below(8) as u8),
        };
        if base && e.uses_default_parser() && !matches!(f, Fmt::Nt | Fmt::Nq | Fmt::Gnq) { continue; }
        return e;
    }
}
fn random_consume(r: &mut Rng) -> Consume { match r.below(6) { 0 => Consume::ForEach, 1 => Consume::Owned, 2 => Consume::Steps, 3 => Consume::SinkFail(r.below(4)), 4 => Consume::Collect, _ => Consume::Owned } }
fn random_tort(r: &mut Rng) -> Tort { let k = r.below(8); let (unit, unit_name) = unit(r, k); Tort { mode: r.below(12), scope: r.below(4), unit, unit_name } }
/// the formats in which wrapper `w` is itself a well-formed document (the payload sits in a literal / a comment)
fn host_formats(w: usize) -> &'static [Fmt] { match w % NWRAP { 14 => &[Fmt::Turtle, Fmt::Trig, Fmt::Gtrig, Fmt::Nt, Fmt::Nq, Fmt::Gnq], 15 => &[Fmt::Turtle, Fmt::Trig, Fmt::Gtrig], 16 | 17 | 19 => &[Fmt::Xml], 18 | 7 => &[Fmt::JsonLd], 28 => &[Fmt::Nt, Fmt::Nq, Fmt::Gnq, Fmt::Turtle, Fmt::Trig, Fmt::Gtrig], _ => &[] } }
/// the k-th case of the random polyglot stream
fn random_recipe(base: &Rng, k: usize) -> Recipe {
    let mut r = base.fork(2_000_000 + k as u64);
    let pf = FMTS[r.below(8)];
    let doc = match r.below(10) { 0..=2 => 0, 3..=7 => 1 + r.below(NGEN), _ => NGEN + 1 + r.below(3) };
    let wrap = if r.chance(1, 4) { 0 } else { r.below(NWRAP) };
    let tort = if r.chance(1, 6) { None } else { Some(random_tort(&mut r)) };
    let hosts = host_formats(wrap);
    let parser = if !hosts.is_empty() && r.chance(1, 2) { *r.pick(hosts) } else if r.chance(3, 5) { pf } else { FMTS[r.below(8)] };
    let b = r.chance(1, 2);
    let n_alt = 1 + r.below(2);
    let alts = (0..n_alt).map(|_| (random_entry(&mut r, parser, b, 600), random_consume(&mut r))).collect();
    Recipe { pf, doc, wrap, tort, parser, base: b, alts, seed: r.next() }
}
/// the directed (systematic) stream: every wrapper, every parser on the embedding wrappers, every case-changing character
/// saturating each part of an embedded document, every entry point x every way of consuming
fn directed_recipes(thorough: bool) -> Vec<Recipe> {
    let mut v = vec![]; let mut seed = 0x5EED_0000u64;
    let mut push = |v: &mut Vec<Recipe>, pf, doc, wrap, tort, parser, base, alts: Vec<(Entry, Consume)>| { seed += 1; v.push(Recipe { pf, doc, wrap, tort, parser, base, alts, seed }); };
    let all_entries = |f: Fmt, base: bool| -> Vec<Entry> {
        let mut e = vec![Entry::Str, Entry::Buffered(1), Entry::Buffered(3), Entry::Buffered(4096), Entry::Cursor, Entry::Feed { chunk: 1, cut: None }, Entry::Feed { chunk: 7, cut: None }, Entry::Feed { chunk: usize::MAX, cut: Some(97) }, Entry::FailAt(0), Entry::FailAt(40), Entry::FailAt(100_000)];
        if !base || matches!(f, Fmt::Nt | Fmt::Nq | Fmt::Gnq) { e.extend([Entry::ModStr, Entry::ModBuf, Entry::Default]); }
        if f == Fmt::JsonLd { e.push(Entry::Async); for k in 0..8 { e.push(Entry::Opts(k)); } }
        e
    };
    let consumes = [Consume::ForEach, Consume::Owned, Consume::Steps, Consume::SinkFail(0), Consume::SinkFail(2), Consume::Collect];
    // (1) every entry point x every consumption, on valid documents, a truncated one and a wrapped one
    for f in FMTS { for base in [true, false] { for (doc, wrap) in [(0usize, 0usize), (1, 0), (NGEN, 0), (0, 1), (0, 26)] {
        let mut alts = vec![]; for e in all_entries(f, base) { for c in consumes { alts.push((e, c)); } }
        push(&mut v, f, doc, wrap, None, f, base, alts);
    } } }
    // (2) every wrapper of every document kind, given to the parser of the embedded format and to the parsers of the wrapping syntaxes
    for pf in FMTS { for doc in [0usize, 2, NGEN - 1] { for w in 0..NWRAP {
        let k = v.len();
        push(&mut v, pf, doc, w, None, pf, k % 2 == 0, vec![(Entry::Str, Consume::Owned), (Entry::Feed { chunk: 1 + k % 5, cut: None }, Consume::Steps)]);
        if doc == 0 { for other in [Fmt::Xml, Fmt::JsonLd, Fmt::Turtle, Fmt::Gtrig, Fmt::Nq] { if other != pf { push(&mut v, pf, doc, w, None, other, k % 2 == 1, vec![(Entry::Buffered(2 + k % 7), Consume::ForEach)]); } } }
        for &host in host_formats(w) { if host != pf { push(&mut v, pf, doc, w, None, host, k % 2 == 0, vec![(Entry::Cursor, Consume::Owned)]);
            // the embedded text with difficult characters, inside a literal of the hosting document
            for (ci, c) in [CASE_LEN[0], CASE_LEN[1], CASE_LEN[3], CASE_LEN[4], COMBINING[0], ASTRAL[0], SPECIALS[0], SPECIALS[3]].iter().enumerate() {
                let t = Tort { mode: [3usize, 4, 2, 0][(ci + w) % 4], scope: 1, unit: c.to_string().into_bytes(), unit_name: format!("U+{:04X}", *c as u32) };
                push(&mut v, pf, doc, w, Some(t), host, (k + ci) % 2 == 0, vec![]); } } }
    } } }
    // (3) each character whose case mappings change its length (and a few others), saturating one part of an embedded document
    let mut chars: Vec<char> = CASE_LEN.to_vec(); chars.extend([COMBINING[1], ASTRAL[0], ASTRAL[2], SPECIALS[0], SPECIALS[4], LOOKALIKE[0]]);
    let docs: &[usize] = if thorough { &[0, 1, 2, 3, 7, 8] } else { &[0, 1] };
    for pf in FMTS { for &doc in docs { for &w in EMBEDDING_WRAPS.iter().chain([0usize, 7].iter()) { for (ci, c) in chars.iter().enumerate() { for scope in 0..3usize {
        if scope != 1 && (w == 0 || (ci + w) % 3 != 0) && !thorough { continue; }
        if scope != 1 && w == 0 { continue; }
        let mode = if w == 0 { [10usize, 3, 4, 10, 11, 2, 5, 6][(ci + doc) % 8] } else { [3usize, 4, 2, 5, 6, 8][(ci + w + doc + scope) % 6] };
        let t = Tort { mode, scope, unit: c.to_string().into_bytes(), unit_name: format!("U+{:04X}", *c as u32) };
        let k = v.len();
        let parser = if k % 9 == 8 { FMTS[(k / 9) % 8] } else { pf };
        push(&mut v, pf, doc, w, Some(t), parser, k % 2 == 0, if k % 4 == 0 { vec![([Entry::Str, Entry::Cursor, Entry::Buffered(5)][k % 3], consumes[k % 6])] } else { vec![] });
    } } } } }
    // (4) ill-formed UTF-8 and BOMs at each position class of each seed document
    for pf in FMTS { for (bi, b) in BAD_UTF8.iter().enumerate() { for mode in [0usize, 2, 4, 8] {
        let t = Tort { mode, scope: 3, unit: b.to_vec(), unit_name: format!("the ill-formed bytes {b:02x?}") };
        let k = v.len();
        push(&mut v, pf, bi % 3, [0usize, 1, 5][k % 3], Some(t), pf, k % 2 == 0, if k % 3 == 0 { vec![(Entry::Feed { chunk: 1 + k % 4, cut: None }, Consume::Steps)] } else { vec![] });
    } } }
    v
}

// ------------------------------------------------------------------------------------------------------
// Running a recipe: the property oracle on every run, and agreement of every entry point with parse(&[u8])
// ------------------------------------------------------------------------------------------------------
thread_local! { static LAST_PANIC: std::cell::RefCell<String> = std::cell::RefCell::new(String::new()); static RAW_INVALID_IRI: std::cell::RefCell<Option<String>> = std::cell::RefCell::new(None);
    static RENDER_BAD: std::cell::RefCell<Vec<String>> = std::cell::RefCell::new(vec![]); static RENDER_STAT: std::cell::RefCell<[u64; 4]> = std::cell::RefCell::new([0; 4]); static LAST_ERR_FULL: std::cell::RefCell<Option<String>> = std::cell::RefCell::new(None);
    static LIT_CASES: std::cell::RefCell<(bool, std::collections::BTreeSet<String>)> = std::cell::RefCell::new((false, Default::default())); }
static WATCH_CASE: std::sync::atomic::AtomicU64 = std::sync::atomic::AtomicU64::new(0);
static WATCH_TICK: std::sync::atomic::AtomicU64 = std::sync::atomic::AtomicU64::new(0);
fn watch(case: u64) { WATCH_CASE.store(case, std::sync::atomic::Ordering::Relaxed); WATCH_TICK.fetch_add(1, std::sync::atomic::Ordering::Relaxed); }
/// a parser that does not terminate violates the property: after `secs` seconds on one input, record the case and stop
fn start_watchdog(out: String, secs: u64) {
    std::thread::spawn(move || { let mut last = u64::MAX; let mut since = std::time::Instant::now();
        loop { std::thread::sleep(std::time::Duration::from_millis(500)); let t = WATCH_TICK.load(std::sync::atomic::Ordering::Relaxed);
            if t != last { last = t; since = std::time::Instant::now(); continue; }
            if t > 0 && since.elapsed().as_secs() >= secs { let c = WATCH_CASE.load(std::sync::atomic::Ordering::Relaxed); let _ = std::fs::create_dir_all(&out); let _ = std::fs::write(format!("{out}/progress"), c.to_string()); eprintln!("c08: no progress for {secs} s on case {c}: a parser does not terminate"); std::process::exit(9); } } });
}

fn guarded(f: Fmt, base: bool, data: &[u8], e: Entry, c: Consume) -> Result<Outcome, String> {
    RAW_INVALID_IRI.with(|x| *x.borrow_mut() = None); RENDER_BAD.with(|x| x.borrow_mut().clear()); LAST_ERR_FULL.with(|x| *x.borrow_mut() = None);
    match catch_unwind(AssertUnwindSafe(|| parse_with(f, base, data, e, c))) { Ok(mut o) => { o.raw_invalid_iri = RAW_INVALID_IRI.with(|x| x.borrow().clone()); o.render_bad = RENDER_BAD.with(|x| std::mem::take(&mut *x.borrow_mut())); o.err_full = LAST_ERR_FULL.with(|x| x.borrow_mut().take()); Ok(o) } Err(_) => Err(LAST_PANIC.with(|l| l.borrow().clone()).chars().take(200).collect()) }
}
fn is_prefix(a: &[String], b: &[String]) -> bool { a.len() <= b.len() && a.iter().zip(b.iter()).all(|(x, y)| x == y) }
/// How an alternative run relates to the reference run parse(&[u8]) / for_each.
enum Agreement {
    Same,
    /// one of the two runs reports an error earlier than the other and delivered a prefix of the other's statements:
    /// allowed by the property (an error is an admissible outcome); recorded as a statistic
    EarlierError(&'static str),
    /// anything else: different statements, a swallowed reader failure, a lost sink error
    Differs(String),
}
fn agreement(rf: &Outcome, a: &Outcome, e: Entry, c: Consume) -> Agreement {
    use Agreement::*;
    if matches!(e, Entry::Opts(_)) { return Same; }
    let show = |o: &Outcome| format!("{} statement(s), {}", o.stmts.len(), match &o.err { Some(x) => format!("error {x:?}"), None => "no error".to_string() });
    if a.io_failed {
        if a.err.is_none() && !a.sink { return Differs(format!("reported no error although its reader failed ({} statements delivered)", a.stmts.len())); }
        if !is_prefix(&a.stmts, &rf.stmts) { return Differs(format!("delivered, before its reader failed, statements that parse(&[u8]) does not deliver at that place: {:?}", a.stmts.iter().zip(rf.stmts.iter().chain(std::iter::repeat(&String::new()))).find(|(x, y)| x != y).map(|(x, _)| x))); }
        return Same;
    }
    let earlier = |a: &Outcome, rf: &Outcome| -> Option<&'static str> {
        if a.err.is_some() && a.err != rf.err && is_prefix(&a.stmts, &rf.stmts) { Some("alternative-entry-point") } else if rf.err.is_some() && a.err != rf.err && is_prefix(&rf.stmts, &a.stmts) { Some("parse-on-a-slice") } else { None }
    };
    match c {
        Consume::ForEach | Consume::Owned | Consume::Steps => { if a.stmts != rf.stmts || a.err != rf.err { return match earlier(a, rf) { Some(w) => EarlierError(w), None => Differs(format!("gave {} but parse(&[u8]) gave {}", show(a), show(rf))) }; } }
        Consume::SinkFail(k) => {
            if a.sink { if a.stmts.len() != k + 1 || !is_prefix(&a.stmts, &rf.stmts) { return Differs(format!("with a sink failing at statement {}: sink error reported, {} but parse(&[u8]) gave {}", k + 1, show(a), show(rf))); } }
            else if a.stmts.len() > k || (rf.stmts.len() > k && a.err.is_none()) { return Differs(format!("with a sink failing at statement {}: the sink's error did not come back, {} but parse(&[u8]) gave {}", k + 1, show(a), show(rf))); }
            else if a.stmts != rf.stmts || a.err != rf.err { return match earlier(a, rf) { Some(w) => EarlierError(w), None => Differs(format!("with a sink failing at statement {}: sink error reported = false, {} but parse(&[u8]) gave {}", k + 1, show(a), show(rf))) }; }
        }
        Consume::Collect => {
            if rf.err.is_none() { if a.err.is_some() { return EarlierError("alternative-entry-point"); } if a.stmts != rf.stmts { return Differs(format!("collected {} but parse(&[u8]) gave {}", show(a), show(rf))); } }
            else if a.err.is_none() { return if is_prefix(&rf.stmts, &a.stmts) { EarlierError("parse-on-a-slice") } else { Differs(format!("collected {} but parse(&[u8]) gave {}", show(a), show(rf))) }; }
            else if !a.stmts.is_empty() { return Differs(format!("collected {} although the source failed", show(a))); }
        }
    }
    Same
}

/// `\uXXXX` / `\UXXXXXXXX` escapes resolved (the numeric escapes of IRIREF)
fn unescape_u(t: &str) -> String {
    let cs: Vec<char> = t.chars().collect(); let mut o = String::new(); let mut i = 0;
    while i < cs.len() {
        if cs[i] == '\\' && i + 1 < cs.len() && (cs[i + 1] == 'u' || cs[i + 1] == 'U') { let n = if cs[i + 1] == 'u' { 4 } else { 8 };
            if i + 2 + n <= cs.len() { let h: String = cs[i + 2..i + 2 + n].iter().collect(); if let Some(c) = u32::from_str_radix(&h, 16).ok().and_then(char::from_u32) { o.push(c); i += 2 + n; continue; } } }
        o.push(cs[i]); i += 1;
    }
    o
}
/// The known class "generalized TriG without a base IRI copies IRIREF tokens without validating them": the parser is the
/// generalized TriG parser, it has no base, the failure is about an IRI (`about_iri`), and that IRI comes from an IRIREF
/// token of the input that is itself not a valid IRI reference: the token is the IRI, or its beginning (the namespace of a
/// prefixed name), or it is the declared base.
fn gtrig_no_base_iriref(f: Fmt, base: bool, e: Entry, about_iri: bool, raw: Option<&str>, input: &str) -> bool {
    if f != Fmt::Gtrig || base || matches!(e, Entry::Opts(_)) || !about_iri { return false; }
    let Some(raw) = raw else { return false; };
    let mut toks: Vec<(String, bool)> = vec![]; // (token text, declared as base)
    let b = input.as_bytes(); let mut i = 0;
    while i < b.len() { if b[i] == b'<' { if let Some(len) = input[i + 1..].find('>') { let t = &input[i + 1..i + 1 + len];
        let before = input[..i].trim_end(); let is_base = before.len() >= 4 && before.as_bytes()[before.len() - 4..].eq_ignore_ascii_case(b"base");
        toks.push((t.to_string(), is_base)); let u = unescape_u(t); if u != t { toks.push((u, is_base)); } } } i += 1; }
    toks.iter().any(|(t, is_base)| IriRef::new(t.as_str()).is_err() && (raw == t || (!t.is_empty() && raw.starts_with(t.as_str())) || *is_base))
}

/// The class "a prefixed name whose local part has a character of PN_CHARS (#x10000-#xEFFFF) that RFC 3987 ucschar excludes":
/// Turtle-family parser, the failure is about an IRI, the offending IRI contains such a code point, is not an IRIREF token of
/// the input, and is a valid IRI once those code points are replaced.
fn outside_ucschar(c: char) -> bool { let c = c as u32; c >= 0x10000 && ((0xE0000..=0xE0FFF).contains(&c) || (c & 0xFFFE) == 0xFFFE) }
fn pname_char_outside_ucschar(f: Fmt, e: Entry, about_iri: bool, raw: Option<&str>, input: &str) -> bool {
    if !matches!(f, Fmt::Turtle | Fmt::Trig | Fmt::Gtrig) || matches!(e, Entry::Opts(_)) || !about_iri { return false; }
    let Some(raw) = raw else { return false; };
    if !raw.chars().any(outside_ucschar) || input.contains(&format!("<{raw}>")) { return false; }
    let repaired: String = raw.chars().map(|c| if outside_ucschar(c) { 'x' } else { c }).collect();
    IriRef::new(repaired.as_str()).is_ok()
}

struct RunCtx<'a> { sum: &'a mut Summary, profile: &'static str, verbose: bool, utf8_cases: Vec<(usize, String)>, utf8_budget: usize }
fn run_recipe(id: usize, rc: &Recipe, cx: &mut RunCtx) {
    let (data, what) = materialize(rc);
    let (f, profile) = (rc.parser, cx.profile);
    let shown = String::from_utf8_lossy(&data).to_string();
    watch(id as u64);
    let stream = if id >= 7_000_000 { "vocabulary" } else if id >= 6_000_000 { "error-paths" } else if id >= 3_000_000 { "directed" } else { "polyglot" };
    let what = format!("{}; {what}", if matches!(f, Fmt::Nt | Fmt::Nq | Fmt::Gnq) { "parser without base notion" } else if rc.base { "base IRI http://base.example/dir/doc" } else { "no base IRI" });
    let tag = |e: Entry, about_iri: bool, raw: Option<&str>| if gtrig_no_base_iriref(f, rc.base, e, about_iri, raw, &shown) { "[gtrig-no-base-unvalidated-iriref] " } else if pname_char_outside_ucschar(f, e, about_iri, raw, &shown) { "[turtle-pname-char-outside-ucschar] " } else { "" };
    let ref_raw: std::cell::RefCell<Option<String>> = Default::default(); // what the reference run (same bytes, same parser) saw
    let panicked = |e: Entry, ename: String, msg: &str| -> String { let raw = RAW_INVALID_IRI.with(|x| x.borrow().clone()).or(ref_raw.borrow().clone());
        format!("{}parser {f:?} PANICKED ({profile} build): {msg}; entry point {ename}; {what}; input {shown:?}", tag(e, msg.contains("rio/src/model.rs") && msg.contains("IriRef::new(n.iri)"), raw.as_deref())) };
    let invalid = |e: Entry, ename: String, o: &Outcome| -> String { let b = &o.bad[0];
        format!("{}parser {f:?} ({profile} build) yielded an invalid term: {b}; entry point {ename}; {what}; input {shown:?}", tag(e, b.starts_with("IRI \"") && (b.ends_with("is not a valid IRI reference") || b.ends_with("is not a valid absolute IRI")), o.raw_invalid_iri.clone().or(ref_raw.borrow().clone()).as_deref())) };
    let reference = guarded(f, rc.base, &data, Entry::Slice, Consume::ForEach);
    *ref_raw.borrow_mut() = RAW_INVALID_IRI.with(|x| x.borrow().clone());
    cx.sum.evaluations += 1;
    let mut fails: Vec<String> = vec![];
    match &reference {
        Err(msg) => { fails.push(panicked(Entry::Slice, "Slice/ForEach".to_string(), msg)); cx.sum.bump(&format!("{stream}:{f:?}:panic")); }
        Ok(o) => {
            if !o.bad.is_empty() { fails.push(invalid(Entry::Slice, "Slice/ForEach".to_string(), o)); }
            for b in &o.render_bad { fails.push(format!("parser {f:?} ({profile} build): {b}; entry point Slice/ForEach; {what}; input {shown:?}")); }
            cx.sum.bump(&format!("{stream}:{f:?}:{}", if o.n > 0 { "yielded" } else { "rejected-or-empty" }));
            if o.n > 0 || rc.tort.is_some() || rc.wrap != 0 { cx.sum.distinct_nontrivial += 1; }
            if f == Fmt::JsonLd { let valid = std::str::from_utf8(&data).is_ok(); if o.utf8_error == valid { fails.push(format!("parser JsonLd ({profile} build) parse(&[u8]) reports a UTF-8 error: {}, but the bytes are {} UTF-8; {what}; input bytes {data:02x?}", o.utf8_error, if valid { "well-formed" } else { "not well-formed" })); } }
        }
    }
    if let Some(t) = &rc.tort { cx.sum.bump(&format!("inserted:{}:{}", MODE_NAMES[t.mode % 12], SCOPE_NAMES[t.scope % 4])); }
    cx.sum.bump(&format!("wrapped:{}", WRAP_NAMES[rc.wrap % NWRAP]));
    // the byte -> text layer, compared with the model inside Coq (dev run only; a bounded number of inputs of bounded size)
    if cx.utf8_budget > 0 && data.len() <= 1500 && (rc.tort.is_some() || rc.doc > NGEN || matches!(rc.wrap % NWRAP, 22 | 23 | 27)) {
        cx.utf8_budget -= 1;
        let dec = std::str::from_utf8(&data).ok();
        let jerr = if f == Fmt::JsonLd { reference.as_ref().ok().map(|o| o.utf8_error) } else { None };
        cx.utf8_cases.push((id, format!("utf8_ok {} {} {} {}", coq_bytes(&data), coq_bool(dec.is_some()), dec.map(coq_str).unwrap_or("[]".into()), match jerr { None => "None".to_string(), Some(b) => format!("(Some {})", coq_bool(b)) })));
    }
    for (e, c) in rc.alts.iter() {
        let alt = guarded(f, rc.base, &data, *e, *c);
        cx.sum.evaluations += 1;
        match alt {
            Err(msg) => { fails.push(panicked(*e, format!("{e:?}/{c:?}"), &msg)); }
            Ok(a) => {
                if a.skipped { cx.sum.bump("entry:not-applicable"); continue; }
                cx.sum.bump(&format!("entry:{}", format!("{e:?}").split(|ch: char| !ch.is_alphanumeric()).next().unwrap_or("")));
                cx.sum.bump(&format!("consume:{}", format!("{c:?}").split('(').next().unwrap_or("")));
                if a.io_failed { cx.sum.bump("entry:reader-failure-reached"); } if a.sink { cx.sum.bump("consume:sink-error-returned"); }
                if let Some(v) = a.after_error { cx.sum.bump(&format!("after-error:{f:?}:{v}")); }
                // round 6 (revised decision): a panic or an invalid term when the source is pulled again after it reported an error is a failure
                // (the Turtle-family parsers of third-party rio_turtle: the known finding after-error-rio-turtle)
                if let (Some(v), Some(d)) = (a.after_error, &a.after_error_detail) { if v == "panicked" || v == "invalid-term" {
                    let tg = if rio_turtle_after_error(f) { "[after-error-rio-turtle] " } else { "" };
                    fails.push(if v == "panicked" { format!("{tg}parser {f:?} PANICKED ({profile} build): {d}; when for_some_* was called again after the source had reported an error; entry point {e:?}/{c:?}; {what}; input {shown:?}") }
                        else { format!("{tg}parser {f:?} ({profile} build) yielded an invalid term: {d}; when for_some_* was called again after the source had reported an error; entry point {e:?}/{c:?}; {what}; input {shown:?}") });
                } }
                if !a.bad.is_empty() { fails.push(invalid(*e, format!("{e:?}/{c:?}"), &a)); }
                for b in &a.render_bad { fails.push(format!("parser {f:?} ({profile} build): {b}; entry point {e:?}/{c:?}; {what}; input {shown:?}")); }
                if let Ok(rf) = &reference { if rf.bad.is_empty() && a.bad.is_empty() { match agreement(rf, &a, *e, *c) {
                    Agreement::Same => {}
                    Agreement::EarlierError(who) => { let bom = f == Fmt::Xml && data.starts_with(b"\xEF\xBB\xBF") && matches!(e, Entry::Buffered(1 | 2) | Entry::Feed { chunk: 1 | 2, .. } | Entry::Feed { cut: Some(1 | 2), .. });
                        cx.sum.bump(&if bom { "entry-points-disagree:xml-bom-chunked".to_string() } else { format!("entry-points-disagree:{f:?}:earlier-error-from-{who}") }); }
                    Agreement::Differs(d) => fails.push(format!("parser {f:?} ({profile} build) entry points disagree: {e:?}/{c:?} {d}; {what}; input {shown:?}")),
                } } }
            }
        }
    }
    if cx.verbose { println!("CASE {id}: parser {f:?} on {what}; alternatives {:?}; input {shown:?}", rc.alts); match &reference { Ok(o) => println!("  parse(&[u8]): {} statements, error {:?}, complaints {:?}", o.n, o.err, o.bad), Err(m) => println!("  parse(&[u8]) PANICKED: {m}") } for x in &fails { println!("  FAIL {x}"); } }
    if cx.sum.samples.len() < 8 && id % 1000 == 7 { if let Ok(o) = &reference { cx.sum.samples.push(format!("case {id}: {f:?} on {what}: {} statements, error {:?}", o.n, o.err)); } }
    for x in fails { cx.sum.oracle_failures.push((id.to_string(), x)); }
}

// ======================================================================================================
// Round 6 (a): HISTORIES.  One source, driven by a SEQUENCE of calls: every overridable provided method of the Source
// trait (try_for_each_item, for_some_item, for_each_item, size_hint_items, filter_items, filter_map_items, map_items) and
// every method of TripleSource / QuadSource (try_for_some_*, try_for_each_*, for_some_*, for_each_*, size_hint_*,
// filter_*, filter_map_*, map_*, to_quads / to_triples, collect_*, add_to_*), the adapters' into_iter, each of them called
// again after the previous call returned Err (source or sink error), after Ok, and after the source was exhausted.
// The property oracle runs on every call (no panic, every delivered term valid, termination); what every call delivers
// is compared with what the REQUIRED method try_for_some_item delivers on a fresh source built from the same parser,
// entry point and bytes (in Rust: `Sim`; inside Coq: coq/C08/Source.v).
// ======================================================================================================
use sophia_api::source::StreamError::{SinkError, SourceError};
use std::collections::VecDeque;

#[derive(Clone, Copy, Debug, PartialEq, Eq)]
enum Lv { Item, Stmt }
/// a call on `&mut source`
#[derive(Clone, Copy, Debug, PartialEq, Eq)]
enum MOp {
    /// one try_for_some_item / try_for_some_triple / try_for_some_quad; the sink fails on its first call if the flag is set
    TrySome(Lv, bool),
    ForSome(Lv),
    /// try_for_each_*; the sink fails on its (k+1)-th call
    TryEach(Lv, Option<usize>),
    ForEach(Lv),
    /// size_hint_items / size_hint_triples / size_hint_quads
    Hint(Lv),
}
/// a call that consumes the source; the calls that follow it are made on what it returned.
/// (Every distinct closure handed to a rio source compiles a copy of the whole parser, so the adapters are driven through one
/// method each: try_for_each_* with a sink failing at the k-th statement or never, and size_hint_*; the iterators through next and size_hint.
/// filter_* / map_* / filter_map_* of TripleSource / QuadSource call filter_items / map_items / filter_map_items of Source; both levels are called.)
#[derive(Clone, Copy, Debug, PartialEq, Eq)]
enum Fin { Collect, AddTo, /** filter_triples / filter_quads */ FilterStmt(u8), /** Source::filter_items */ FilterItems(u8), /** map_triples / map_quads */ MapStmt, /** Source::filter_map_items */ FilterMapItems(u8), /** Source::map_items(..).into_iter() */ MapIter, /** filter_map_triples / filter_map_quads (..).into_iter() */ FilterMapIter(u8), /** to_quads / to_triples */ Convert }
#[derive(Clone, Debug)]
struct History { pre: Vec<MOp>, fin: Option<(Fin, Vec<MOp>)> }
impl History {
    fn describe(&self) -> String {
        let ops = |v: &Vec<MOp>| v.iter().map(|o| format!("{o:?}")).collect::<Vec<_>>().join(", ");
        match &self.fin { None => format!("[{}]", ops(&self.pre)), Some((f, post)) => format!("[{}] then {f:?} then [{}]", ops(&self.pre), ops(post)) }
    }
    /// the calls made on an adapter: try_for_each (at the level of the adapter) or size_hint; on an iterator: next or size_hint
    fn normalised(mut self) -> History {
        if let Some((fin, post)) = &mut self.fin {
            let lv = if matches!(fin, Fin::FilterStmt(_)) { Lv::Stmt } else { Lv::Item };
            for op in post.iter_mut() { *op = match *op { MOp::Hint(_) => MOp::Hint(lv), _ if matches!(fin, Fin::MapIter | Fin::FilterMapIter(_)) => MOp::ForSome(Lv::Item), MOp::TryEach(_, k) => MOp::TryEach(lv, k), MOp::TrySome(_, true) => MOp::TryEach(lv, Some(0)), _ => MOp::TryEach(lv, None) }; }
            if matches!(fin, Fin::Collect | Fin::AddTo) { post.clear(); }
        }
        self
    }
}

#[derive(Clone, Debug, PartialEq)]
enum Res { More, End, Done, SrcErr(String), SinkErr, Hint(usize, Option<usize>), Count(usize), Panic(String) }
#[derive(Clone, Debug)]
struct Obs { stmts: Vec<String>, bad: Vec<String>, res: Res, /** the statements without their graph names */ spo: Vec<String> }
fn obs_of(o: Outcome, res: Res) -> Obs { Obs { stmts: o.stmts, bad: o.bad, res, spo: o.spo_only } }

/// what a map / filter_map closure hands on: the canonical text of the statement and the oracle's complaints about it
struct Rendered { text: String, bad: Vec<String> }
/// the item types of the parsers' sources (and of the map adapters built on them)
trait HItem { fn rec(self, g: bool, out: &mut Outcome); }
fn spo_text<Q: Quad>(q: &Q) -> String { let mut l = String::new(); for x in [q.s(), q.p(), q.o()] { l.push_str(&term_text(x)); l.push(' '); } l }
/// The oracle of the history stream on one statement: the raw IRI strings first (public fields of the rio items, before any accessor runs),
/// then every term through the toolkit's validators, then the canonical text (with and without the graph name).
/// (The representation-specific checks of round 4 -- `Extra`, `consistency` -- run in run_recipe on every entry point and way of consuming.)
fn see_light<T: Term>(spo: [T; 3], gname: Option<T>, g: bool, out: &mut Outcome) {
    let mut line = String::new();
    for x in spo.iter() { validate(x.borrow_term(), g, &mut out.bad); line.push_str(&term_text(x.borrow_term())); line.push(' '); }
    out.spo_only.push(line.clone());
    if let Some(gn) = gname { validate(gn.borrow_term(), g, &mut out.bad); line.push_str(&term_text(gn.borrow_term())); }
    out.stmts.push(line); out.n += 1;
}
impl HItem for Trusted<rio_api::model::Triple<'_>> { #[inline(never)] fn rec(self, g: bool, out: &mut Outcome) { raw_scan_triple(self.0); see_light(self.spo(), None, g, out); } }
impl HItem for Trusted<rio_api::model::Quad<'_>> { #[inline(never)] fn rec(self, g: bool, out: &mut Outcome) {
    raw_scan_term(self.0.subject.into()); raw_note(self.0.predicate.iri); raw_scan_term(self.0.object); if let Some(rio_api::model::GraphName::NamedNode(n)) = self.0.graph_name { raw_note(n.iri); }
    let (spo, gn) = self.spog(); see_light(spo, gn, g, out); } }
impl HItem for Trusted<rio_api::model::GeneralizedQuad<'_>> { #[inline(never)] fn rec(self, g: bool, out: &mut Outcome) {
    raw_scan(self.0.subject); raw_scan(self.0.predicate); raw_scan(self.0.object); if let Some(gn) = self.0.graph_name { raw_scan(gn); }
    let (spo, gn) = self.spog(); see_light(spo, gn, g, out); } }
impl HItem for Spog<RdfTerm> { #[inline(never)] fn rec(self, g: bool, out: &mut Outcome) { let (spo, gn) = self.spog(); see_light(spo, gn, g, out); } }
impl HItem for Rendered { #[inline(never)] fn rec(self, _g: bool, out: &mut Outcome) { out.spo_only.push(self.text.clone()); out.stmts.push(self.text); out.bad.extend(self.bad); out.n += 1; } }
#[inline(never)]
fn render<I: HItem>(i: I, g: bool) -> Rendered { let mut o = Outcome::default(); i.rec(g, &mut o); Rendered { text: o.stmts.pop().unwrap_or_default(), bad: o.bad } }
#[inline(never)]
fn render_q<Q: Quad>(q: Q, g: bool) -> Rendered { let mut o = Outcome::default(); { let (spo, gn) = q.spog(); see(&spo, gn.as_ref(), g, &mut o); } Rendered { text: o.stmts.pop().unwrap_or_default(), bad: o.bad } }
#[inline(never)]
fn render_t<T: Triple>(t: T, g: bool) -> Rendered { let mut o = Outcome::default(); see(&t.spo(), None, g, &mut o); Rendered { text: o.stmts.pop().unwrap_or_default(), bad: o.bad } }
/// the predicates of the filter adapters: by the number of items the predicate has seen so far
fn keep(kind: u8, idx: usize) -> bool { match kind % 4 { 0 => true, 1 => idx % 2 == 0, 2 => false, _ => idx % 3 != 0 } }

fn guard_op<F: FnOnce() -> Obs>(f: F) -> Obs {
    match catch_unwind(AssertUnwindSafe(f)) { Ok(o) => o, Err(_) => Obs { stmts: vec![], bad: vec![], res: Res::Panic(LAST_PANIC.with(|l| l.borrow().clone()).chars().take(200).collect()), spo: vec![] } }
}
/// a sink that fails on its (k+1)-th call
fn sink_after(seen: usize, k: Option<usize>) -> Result<(), MyErr> { match k { Some(k) if seen > k => Err(MyErr(seen as u64)), _ => Ok(()) } }
/// every sink goes to the source as one of these two types (one compiled copy of the parser per method, not per closure)
type DynTry<'a, S> = &'a mut dyn for<'x> FnMut(<S as Source>::Item<'x>) -> Result<(), MyErr>;
type DynFor<'a, S> = &'a mut dyn for<'x> FnMut(<S as Source>::Item<'x>);

/// the methods of Source itself
fn item_op<S>(src: &mut S, op: MOp, g: bool) -> Obs
where S: Source, for<'x> <S as Source>::Item<'x>: HItem {
    let mut o = Outcome::default(); let mut seen = 0usize;
    let k = match op { MOp::TrySome(_, true) => Some(0), MOp::TryEach(_, k) => k, _ => None };
    let res = {
        let mut fallible = |i: <S as Source>::Item<'_>| -> Result<(), MyErr> { i.rec(g, &mut o); seen += 1; sink_after(seen, k) };
        match op {
            MOp::TrySome(..) => { let f: DynTry<S> = &mut fallible; match seen_err(src.try_for_some_item(f)) { Ok(true) => Res::More, Ok(false) => Res::End, Err(SourceError(e)) => Res::SrcErr(short_err(e)), Err(SinkError(_)) => Res::SinkErr } }
            MOp::TryEach(..) => { let f: DynTry<S> = &mut fallible; match seen_err(src.try_for_each_item(f)) { Ok(()) => Res::Done, Err(SourceError(e)) => Res::SrcErr(short_err(e)), Err(SinkError(_)) => Res::SinkErr } }
            MOp::ForSome(_) => { let mut inf = |i: <S as Source>::Item<'_>| { let _ = fallible(i); }; let f: DynFor<S> = &mut inf; match src.for_some_item(f) { Ok(true) => Res::More, Ok(false) => Res::End, Err(e) => Res::SrcErr(short_err(e)) } }
            MOp::ForEach(_) => { let mut inf = |i: <S as Source>::Item<'_>| { let _ = fallible(i); }; let f: DynFor<S> = &mut inf; match src.for_each_item(f) { Ok(()) => Res::Done, Err(e) => Res::SrcErr(short_err(e)) } }
            MOp::Hint(_) => { let (lo, hi) = src.size_hint_items(); Res::Hint(lo, hi) }
        }
    };
    obs_of(o, res)
}
/// the two calls made on an adapter returned by a consuming call: try_for_each_item, size_hint_items
fn wrap_item_op<W>(w: &mut W, op: MOp, g: bool) -> Obs
where W: Source, for<'x> <W as Source>::Item<'x>: HItem {
    let mut o = Outcome::default(); let mut seen = 0usize;
    let res = match op {
        MOp::Hint(_) => { let (lo, hi) = w.size_hint_items(); Res::Hint(lo, hi) }
        _ => { let k = if let MOp::TryEach(_, k) = op { k } else { None };
            let mut fallible = |i: <W as Source>::Item<'_>| -> Result<(), MyErr> { i.rec(g, &mut o); seen += 1; sink_after(seen, k) };
            let f: DynTry<W> = &mut fallible; match seen_err(w.try_for_each_item(f)) { Ok(()) => Res::Done, Err(SourceError(e)) => Res::SrcErr(short_err(e)), Err(SinkError(_)) => Res::SinkErr } }
    };
    obs_of(o, res)
}
/// the methods of TripleSource / QuadSource (Lv::Stmt), and those of Source (Lv::Item)
macro_rules! stmt_op_impl { ($name:ident, $wrap:ident, $tr:ident, $try_some:ident, $try_each:ident, $some:ident, $each:ident, $hint:ident) => {
    fn $name<S>(src: &mut S, op: MOp, g: bool) -> Obs
    where S: $tr, for<'x> <S as Source>::Item<'x>: HItem {
        let lv = match op { MOp::TrySome(l, _) | MOp::ForSome(l) | MOp::TryEach(l, _) | MOp::ForEach(l) | MOp::Hint(l) => l };
        if lv == Lv::Item { return item_op(src, op, g); }
        let mut o = Outcome::default(); let mut seen = 0usize;
        let k = match op { MOp::TrySome(_, true) => Some(0), MOp::TryEach(_, k) => k, _ => None };
        let res = {
            let mut fallible = |i: <S as Source>::Item<'_>| -> Result<(), MyErr> { i.rec(g, &mut o); seen += 1; sink_after(seen, k) };
            match op {
                MOp::TrySome(..) => { let f: DynTry<S> = &mut fallible; match seen_err(src.$try_some(f)) { Ok(true) => Res::More, Ok(false) => Res::End, Err(SourceError(e)) => Res::SrcErr(short_err(e)), Err(SinkError(_)) => Res::SinkErr } }
                MOp::TryEach(..) => { let f: DynTry<S> = &mut fallible; match seen_err(src.$try_each(f)) { Ok(()) => Res::Done, Err(SourceError(e)) => Res::SrcErr(short_err(e)), Err(SinkError(_)) => Res::SinkErr } }
                MOp::ForSome(_) => { let mut inf = |i: <S as Source>::Item<'_>| { let _ = fallible(i); }; let f: DynFor<S> = &mut inf; match src.$some(f) { Ok(true) => Res::More, Ok(false) => Res::End, Err(e) => Res::SrcErr(short_err(e)) } }
                MOp::ForEach(_) => { let mut inf = |i: <S as Source>::Item<'_>| { let _ = fallible(i); }; let f: DynFor<S> = &mut inf; match src.$each(f) { Ok(()) => Res::Done, Err(e) => Res::SrcErr(short_err(e)) } }
                MOp::Hint(_) => { let (lo, hi) = src.$hint(); Res::Hint(lo, hi) }
            }
        };
        obs_of(o, res)
    }
    /// the two calls made on the adapter of filter_triples / filter_quads: try_for_each_*, size_hint_*
    fn $wrap<W>(w: &mut W, op: MOp, g: bool) -> Obs
    where W: $tr, for<'x> <W as Source>::Item<'x>: HItem {
        let mut o = Outcome::default(); let mut seen = 0usize;
        let res = match op {
            MOp::Hint(_) => { let (lo, hi) = w.$hint(); Res::Hint(lo, hi) }
            _ => { let k = if let MOp::TryEach(_, k) = op { k } else { None };
                let mut fallible = |i: <W as Source>::Item<'_>| -> Result<(), MyErr> { i.rec(g, &mut o); seen += 1; sink_after(seen, k) };
                let f: DynTry<W> = &mut fallible; match seen_err(w.$try_each(f)) { Ok(()) => Res::Done, Err(SourceError(e)) => Res::SrcErr(short_err(e)), Err(SinkError(_)) => Res::SinkErr } }
        };
        obs_of(o, res)
    }
} }
stmt_op_impl!(stmt_op_t, wrap_stmt_op_t, TripleSource, try_for_some_triple, try_for_each_triple, for_some_triple, for_each_triple, size_hint_triples);
stmt_op_impl!(stmt_op_q, wrap_stmt_op_q, QuadSource, try_for_some_quad, try_for_each_quad, for_some_quad, for_each_quad, size_hint_quads);

/// the calls of `ops` one after the other, each under catch_unwind; stops after a panic (the source is in no defined state then)
macro_rules! run_ops { ($obs:ident, $ops:expr, $call:expr) => { for op in $ops.iter() { let ob = guard_op(|| $call(*op)); let stop = matches!(ob.res, Res::Panic(_)); $obs.push(ob); if stop { break; } } } }
fn iter_ops<I: Iterator<Item = Result<Rendered, E>>, E: std::error::Error + 'static>(it: &mut I, post: &[MOp], obs: &mut Vec<Obs>) {
    for op in post.iter() {
        let ob = guard_op(|| match op {
            MOp::Hint(_) => { let (lo, hi) = it.size_hint(); Obs { stmts: vec![], bad: vec![], res: Res::Hint(lo, hi), spo: vec![] } }
            _ => match it.next() { Some(Ok(r)) => Obs { stmts: vec![r.text], bad: r.bad, res: Res::More, spo: vec![] }, Some(Err(e)) => Obs { stmts: vec![], bad: vec![], res: Res::SrcErr(short_err(e)), spo: vec![] }, None => Obs { stmts: vec![], bad: vec![], res: Res::End, spo: vec![] } },
        });
        let stop = matches!(ob.res, Res::Panic(_)); obs.push(ob); if stop { break; }
    }
}
macro_rules! run_hist_impl { ($name:ident, $tr:ident, $stmt_op:ident, $wrap_stmt_op:ident, $collect:ident, $coll_ty:ty, $add:ident, $filter:ident, $map:ident, $filter_map:ident, $convert:ident, $render_conv:ident, $see_coll:expr) => {
    fn $name<S>(mut src: S, h: &History, g: bool) -> Vec<Obs>
    where S: $tr, for<'x> <S as Source>::Item<'x>: HItem + Clone {
        let mut obs: Vec<Obs> = vec![];
        run_ops!(obs, h.pre, |op| $stmt_op(&mut src, op, g));
        if obs.iter().any(|o| matches!(o.res, Res::Panic(_))) { return obs; }
        let Some((fin, post)) = &h.fin else { return obs; };
        let side = std::cell::RefCell::new(Outcome::default());
        let cnt = std::cell::Cell::new(0usize);
        match *fin {
            Fin::Collect => obs.push(guard_op(move || { let mut o = Outcome::default(); match seen_err(src.$collect::<$coll_ty>()) { Ok(v) => { for x in v.iter() { $see_coll(x, g, &mut o); } obs_of(o, Res::Done) } Err(SourceError(e)) => obs_of(o, Res::SrcErr(short_err(e))), Err(SinkError(e)) => { o.bad.push(format!("collecting into a Vec reported a sink error: {e}")); obs_of(o, Res::SinkErr) } } })),
            Fin::AddTo => obs.push(guard_op(move || { let mut o = Outcome::default(); let mut v: $coll_ty = Default::default(); let r = seen_err(src.$add(&mut v)); for x in v.iter() { $see_coll(x, g, &mut o); } match r { Ok(n) => obs_of(o, Res::Count(n)), Err(SourceError(e)) => obs_of(o, Res::SrcErr(short_err(e))), Err(SinkError(e)) => { o.bad.push(format!("inserting into a Vec reported a sink error: {e}")); obs_of(o, Res::SinkErr) } } })),
            Fin::FilterStmt(k) => { let mut w = src.$filter(|i| { i.clone().rec(g, &mut side.borrow_mut()); let n = cnt.get(); cnt.set(n + 1); keep(k, n) }); run_ops!(obs, post, |op| $wrap_stmt_op(&mut w, op, g)); }
            Fin::FilterItems(k) => { let mut w = src.filter_items(|i| { i.clone().rec(g, &mut side.borrow_mut()); let n = cnt.get(); cnt.set(n + 1); keep(k, n) }); run_ops!(obs, post, |op| wrap_item_op(&mut w, op, g)); }
            Fin::MapStmt => { let mut w = src.$map(|i| render(i, g)); run_ops!(obs, post, |op| wrap_item_op(&mut w, op, g)); }
            Fin::FilterMapItems(k) => { let mut w = src.filter_map_items(|i| { let n = cnt.get(); cnt.set(n + 1); let r = render(i, g); if keep(k, n) { Some(r) } else { side.borrow_mut().bad.extend(r.bad); None } }); run_ops!(obs, post, |op| wrap_item_op(&mut w, op, g)); }
            Fin::MapIter => { let mut it = src.map_items(|i| render(i, g)).into_iter(); iter_ops(&mut it, post, &mut obs); }
            Fin::FilterMapIter(k) => { let mut it = src.$filter_map(|i| { let n = cnt.get(); cnt.set(n + 1); let r = render(i, g); if keep(k, n) { Some(r) } else { side.borrow_mut().bad.extend(r.bad); None } }).into_iter(); iter_ops(&mut it, post, &mut obs); }
            Fin::Convert => { let mut w = src.$convert().map_items(|i| $render_conv(i, g)); run_ops!(obs, post, |op| wrap_item_op(&mut w, op, g)); }
        }
        // what the predicates / dropped items saw
        let sb = side.into_inner().bad; if !sb.is_empty() { if let Some(last) = obs.last_mut() { last.bad.extend(sb); } }
        obs
    }
} }
fn see_coll_t(x: &[SimpleTerm<'static>; 3], g: bool, o: &mut Outcome) { see(x, None, g, o) }
fn see_coll_q(x: &Spog<SimpleTerm<'static>>, g: bool, o: &mut Outcome) { see(&x.0, x.1.as_ref(), g, o) }
run_hist_impl!(run_hist_t, TripleSource, stmt_op_t, wrap_stmt_op_t, collect_triples, Vec<[SimpleTerm<'static>; 3]>, add_to_graph, filter_triples, map_triples, filter_map_triples, to_quads, render_q, see_coll_t);
run_hist_impl!(run_hist_q, QuadSource, stmt_op_q, wrap_stmt_op_q, collect_quads, Vec<Spog<SimpleTerm<'static>>>, add_to_dataset, filter_quads, map_quads, filter_map_quads, to_triples, render_t, see_coll_q);

/// What the REQUIRED method gives on a fresh source: one entry per call of try_for_some_item (infallible sink) up to Ok(false).
#[derive(Clone, Debug)]
struct Step { stmts: Vec<String>, err: Option<String>, /** the statements without their graph names (what to_triples leaves) */ spo: Vec<String> }
#[derive(Clone, Debug, Default)]
struct Trace { steps: Vec<Step>, /** Ok(false) was reached */ complete: bool, /** why not */ stop: Option<String>, bad: Vec<String>, /** index of the first pull that delivered an invalid term */ bad_at: Option<usize>, panicked: bool }
const TRACE_CAP: usize = 600;
const TRACE_CAP_AFTER_ERROR: usize = 40;
fn record_trace<S>(src: &mut S, g: bool) -> Trace
where S: Source, for<'x> <S as Source>::Item<'x>: HItem {
    let mut t = Trace::default(); let mut errs = 0usize;
    loop {
        let ob = guard_op(|| item_op(src, MOp::TrySome(Lv::Item, false), g));
        if !ob.bad.is_empty() && t.bad_at.is_none() { t.bad_at = Some(t.steps.len()); }
        t.bad.extend(ob.bad);
        match ob.res {
            Res::More => t.steps.push(Step { stmts: ob.stmts, err: None, spo: ob.spo }),
            Res::SrcErr(e) => { t.steps.push(Step { stmts: ob.stmts, err: Some(e), spo: ob.spo }); errs += 1; }
            Res::End => { if !ob.stmts.is_empty() { t.steps.push(Step { stmts: ob.stmts, err: None, spo: ob.spo }); } t.complete = true; break; }
            Res::Panic(m) => { t.stop = Some(m); t.panicked = true; break; }
            other => { t.stop = Some(format!("unexpected result {other:?}")); break; }
        }
        if t.steps.len() >= TRACE_CAP || errs >= TRACE_CAP_AFTER_ERROR { t.stop = Some(format!("not exhausted after {} calls ({errs} errors)", t.steps.len())); break; }
    }
    t
}

/// The behaviour every call must have, computed from the recorded steps (a transcription of the default methods of
/// api/src/source.rs and of the adapters of api/src/source/{filter,map,filter_map,convert}.rs; the same in Coq: C08/Source.v)
#[derive(Clone, Debug, PartialEq)]
enum Ev { S(String), E(String) }
struct Sim { steps: Vec<Step>, pos: usize, /** the state is not determined by the recording */ lost: bool, atomic: bool, complete: bool, buf: VecDeque<Ev> }
impl Sim {
    fn new(t: &Trace, atomic: bool) -> Sim { Sim { steps: t.steps.clone(), pos: 0, lost: false, atomic, complete: t.complete, buf: VecDeque::new() } }
    fn remaining(&self) -> usize { self.steps[self.pos..].iter().map(|s| s.stmts.len()).sum() }
    fn at_end(&mut self) -> bool { if self.pos >= self.steps.len() { if !self.complete { self.lost = true; } true } else { false } }
    /// the wrapper built by filter_* / filter_map_* with predicate `kind` over what is left
    fn filtered(&self, kind: u8) -> Sim {
        let mut n = 0usize;
        let steps = self.steps[self.pos..].iter().map(|s| Step { stmts: s.stmts.iter().filter(|_| { let k = keep(kind, n); n += 1; k }).cloned().collect(), err: s.err.clone(), spo: vec![] }).collect();
        Sim { steps, pos: 0, lost: self.lost, atomic: self.atomic, complete: self.complete, buf: VecDeque::new() }
    }
    /// feeding `xs` to a sink that fails on its (k+1)-th call, `seen` calls made so far
    fn feed(xs: &[String], seen: &mut usize, k: Option<usize>) -> (Vec<String>, bool) {
        let mut d = vec![]; for x in xs { d.push(x.clone()); *seen += 1; if let Some(k) = k { if *seen > k { return (d, true); } } } (d, false)
    }
    fn some(&mut self, fail: bool) -> Option<(Vec<String>, Res)> {
        if self.lost { return None; }
        if self.at_end() { return if self.lost { None } else { Some((vec![], Res::End)) }; }
        let st = self.steps[self.pos].clone(); self.pos += 1; let mut seen = 0;
        let (d, failed) = Sim::feed(&st.stmts, &mut seen, if fail { Some(0) } else { None });
        if failed { if !(self.atomic && st.stmts.len() == 1 && st.err.is_none()) { self.lost = true; } return Some((d, Res::SinkErr)); }
        Some((d, match st.err { Some(e) => Res::SrcErr(e), None => Res::More }))
    }
    fn each(&mut self, k: Option<usize>) -> Option<(Vec<String>, Res)> {
        if self.lost { return None; }
        let mut all = vec![]; let mut seen = 0usize;
        loop {
            if self.at_end() { return if self.lost { None } else { Some((all, Res::Done)) }; }
            let st = self.steps[self.pos].clone(); self.pos += 1;
            let (d, failed) = Sim::feed(&st.stmts, &mut seen, k); all.extend(d);
            if failed { if !(self.atomic && st.stmts.len() == 1 && st.err.is_none()) { self.lost = true; } return Some((all, Res::SinkErr)); }
            if let Some(e) = st.err { return Some((all, Res::SrcErr(e))); }
        }
    }
    fn expect(&mut self, op: MOp) -> Option<(Vec<String>, Res)> {
        match op { MOp::TrySome(_, f) => self.some(f), MOp::ForSome(_) => self.some(false), MOp::TryEach(_, k) => self.each(k), MOp::ForEach(_) => self.each(None), MOp::Hint(_) => None }
    }
    /// MapSourceIterator::next / FilterMapSourceIterator::next
    fn next(&mut self) -> Option<(Vec<String>, Res)> {
        if self.lost { return None; }
        let mut remaining = true;
        while self.buf.is_empty() && remaining {
            if self.at_end() { if self.lost { return None; } remaining = false; continue; }
            let st = self.steps[self.pos].clone(); self.pos += 1;
            for x in st.stmts { self.buf.push_back(Ev::S(x)); }
            if let Some(e) = st.err { self.buf.push_back(Ev::E(e)); remaining = false; }
        }
        Some(match self.buf.pop_front() { Some(Ev::S(x)) => (vec![x], Res::More), Some(Ev::E(e)) => (vec![], Res::SrcErr(e)), None => (vec![], Res::End) })
    }
    /// size_hint contract: lower <= number of statements still to come <= upper
    fn hint_ok(&self, lo: usize, hi: Option<usize>) -> Option<bool> {
        if self.lost || !self.complete { return None; }
        let r = self.remaining() + self.buf.iter().filter(|e| matches!(e, Ev::S(_))).count();
        Some(lo <= r && hi.map_or(true, |h| r <= h))
    }
}
/// The expected observation of every call of a history (None: not determined), given the steps of a fresh source
fn expectations(t: &Trace, h: &History, atomic: bool, obs: &[Obs]) -> Vec<Option<(Vec<String>, Res)>> {
    let mut sim = Sim::new(t, atomic); let mut out = vec![]; let mut i = 0usize;
    let mut one = |sim: &mut Sim, op: MOp, iter: bool, out: &mut Vec<Option<(Vec<String>, Res)>>, i: &mut usize| {
        let e = if let MOp::Hint(_) = op { match obs.get(*i).map(|o| &o.res) { Some(Res::Hint(lo, hi)) => match sim.hint_ok(*lo, *hi) { Some(true) | None => None, Some(false) => Some((vec![], Res::Hint(sim.remaining(), Some(sim.remaining())))) }, _ => None } } else if iter { sim.next() } else { sim.expect(op) };
        out.push(e); *i += 1;
    };
    for op in &h.pre { one(&mut sim, *op, false, &mut out, &mut i); }
    if let Some((fin, post)) = &h.fin {
        match fin {
            Fin::Collect => { let e = sim.each(None).map(|(s, r)| if matches!(r, Res::SrcErr(_)) { (vec![], r) } else { (s, r) }); out.push(e); }
            Fin::AddTo => { let e = sim.each(None).map(|(s, r)| { let n = s.len(); (s, if r == Res::Done { Res::Count(n) } else { r }) }); out.push(e); }
            Fin::FilterStmt(k) | Fin::FilterItems(k) | Fin::FilterMapItems(k) => { let mut w = sim.filtered(*k); for op in post { one(&mut w, *op, false, &mut out, &mut i); } }
            Fin::MapStmt | Fin::Convert => { for op in post { one(&mut sim, *op, false, &mut out, &mut i); } }
            Fin::MapIter => { for op in post { one(&mut sim, *op, true, &mut out, &mut i); } }
            Fin::FilterMapIter(k) => { let mut w = sim.filtered(*k); for op in post { one(&mut w, *op, true, &mut out, &mut i); } }
        }
    }
    out
}

/// something that is handed the source a parser returned
trait Visit {
    fn t<S>(&mut self, s: S) where S: TripleSource, for<'x> <S as Source>::Item<'x>: HItem + Clone;
    fn q<S>(&mut self, s: S) where S: QuadSource, for<'x> <S as Source>::Item<'x>: HItem + Clone;
}
struct TraceRun { g: bool, trace: Trace }
impl Visit for TraceRun {
    fn t<S>(&mut self, mut s: S) where S: TripleSource, for<'x> <S as Source>::Item<'x>: HItem + Clone { self.trace = record_trace(&mut s, self.g); }
    fn q<S>(&mut self, mut s: S) where S: QuadSource, for<'x> <S as Source>::Item<'x>: HItem + Clone { self.trace = record_trace(&mut s, self.g); }
}
struct HistRun<'h> { g: bool, h: &'h History, obs: Vec<Obs> }
impl Visit for HistRun<'_> {
    fn t<S>(&mut self, s: S) where S: TripleSource, for<'x> <S as Source>::Item<'x>: HItem + Clone { self.obs = run_hist_t(s, self.h, self.g); }
    fn q<S>(&mut self, s: S) where S: QuadSource, for<'x> <S as Source>::Item<'x>: HItem + Clone { self.obs = run_hist_q(s, self.h, self.g); }
}

// ------------------------------------------------------------------------------------------------------
// Round 6 (b): parser OPTIONS.  Every public option of every parser is a dimension of the configuration:
// the base IRI of the Turtle family and of RDF/XML (None / several Some), every with_* of JsonLdOptions.
// ------------------------------------------------------------------------------------------------------
const BASES: [&str; 8] = ["http://base.example/dir/doc", "http://base.example/dir/doc?q=1#frag", "x:", "urn:a:b", "file:///tmp/", "http://[::1]/%C4%B0/", "http://base.example/a/../b/./c", "http://\u{e9}.example/\u{130}"];
#[derive(Clone, Debug, Default, PartialEq)]
struct JOpts {
    /// 0 untouched, 1 with_processing_mode(JsonLd1_0), 2 with_processing_mode(JsonLd1_1)
    mode: u8,
    /// 0 untouched, 1.. with_base(BASES[k-1]), 9 with_no_base, 10 with_base then with_no_base
    base: u8,
    /// 0 untouched, 1.. try_with_expand_context(EXPAND_CTX[k-1]), then: with_expand_context(Iri of an in-memory context), with_expand_context(Iri nobody serves), with_expand_context then with_no_expand_context
    ctx: u8,
    ordered: Option<bool>,
    /// 0 untouched, 1 I18nDatatype, 2 CompoundLiteral, 3 with_rdf_direction then with_no_rdf_direction
    dir: u8,
    generalized: Option<bool>,
    /// 0 untouched, 1 Relaxed, 2 Standard, 3 Strict, 4 Strictest
    policy: u8,
    native: Option<bool>, rdf_type: Option<bool>, compact_arrays: Option<bool>, compact_to_relative: Option<bool>, spaces: Option<u16>,
    /// 0 untouched, 1 try_with_compact_context, 2 with_compact_context(Iri), 3 then with_no_compact_context
    cctx: u8,
    /// 0 untouched (NoLoader), 1 with_default_document_loader::<NoLoader>, 2 with_document_loader_factory(DefaultLoaderFactory<NoLoader>), 3 with_document_loader_closure(NoLoader), 4 with_document_loader_closure(in-memory contexts),
    /// 5 with_document_loader(StaticLoader::new()), 6 with_document_loader_factory(ClosureLoaderFactory(in-memory contexts)), 7 with_document_loader_closure(ChainLoader(NoLoader, in-memory contexts))
    loader: u8,
}
const EXPAND_CTX: [&str; 6] = [
    "{\"@context\": {\"@vocab\": \"http://vocab.example/\u{130}#\", \"@language\": \"tr\"}}",
    "{\"@context\": {\"@vocab\": \"_:v\", \"xq\": \"_:xq\"}}",
    "{\"@context\": {\"@base\": \"rel/base/\", \"@vocab\": \"\"}}",
    "{\"@context\": {\"@direction\": \"rtl\", \"@language\": \"ar\", \"xd\": {\"@id\": \"_:xd\", \"@direction\": \"ltr\"}}}",
    "{\"@context\": [{\"@version\": 1.1}, {\"@vocab\": \"rel-vocab/\", \"@propagate\": false}]}",
    "{\"@context\": {\"@base\": null, \"@vocab\": \"#\"}}",
];
const MEM_CTX: [(&str, &str); 5] = [
    ("http://ctx.example/a", "{\"@context\": {\"ma\": \"_:ma\", \"mb\": {\"@id\": \"http://ctx.example/mb\", \"@type\": \"@id\"}, \"@vocab\": \"http://ctx.example/v#\"}}"),
    ("http://ctx.example/b", "{\"@context\": [\"http://ctx.example/a\", {\"@base\": \"../b/\", \"@direction\": \"rtl\"}]}"),
    ("http://ctx.example/loop", "{\"@context\": [\"http://ctx.example/loop\"]}"),
    ("http://ctx.example/broken", "{\"@context\": {\"x\": "),
    ("http://ctx.example/no-context", "[1, 2]"),
];
fn mem_fetch(iri: Iri<String>) -> sophia_jsonld::loader::BoxFuture<'static, Result<String, String>> {
    use sophia_jsonld::loader::FutureExt;
    async move { match MEM_CTX.iter().find(|(u, _)| *u == iri.as_str()) { Some((_, d)) => Ok(d.to_string()), None => Err(format!("nobody serves {}", iri.as_str())) } }.boxed()
}
type MemLoader = sophia_jsonld::loader::ClosureLoader<fn(Iri<String>) -> sophia_jsonld::loader::BoxFuture<'static, Result<String, String>>>;
fn mem_loader() -> MemLoader { sophia_jsonld::loader::ClosureLoader::new(mem_fetch as fn(Iri<String>) -> sophia_jsonld::loader::BoxFuture<'static, Result<String, String>>) }
fn no_loader() -> sophia_jsonld::loader::NoLoader { sophia_jsonld::loader::NoLoader::new() }
fn chain_loader() -> sophia_jsonld::loader::ChainLoader<sophia_jsonld::loader::NoLoader, MemLoader> { sophia_jsonld::loader::ChainLoader::new(no_loader(), mem_loader()) }
fn arc_iri(s: &str) -> Iri<std::sync::Arc<str>> { Iri::new_unchecked(std::sync::Arc::from(s)) }
fn apply_jopts<LF>(mut o: JsonLdOptions<LF>, j: &JOpts) -> JsonLdOptions<LF> {
    use sophia_jsonld::{Policy, ProcessingMode, RdfDirection};
    match j.mode { 1 => o = o.with_processing_mode(ProcessingMode::JsonLd1_0), 2 => o = o.with_processing_mode(ProcessingMode::JsonLd1_1), _ => {} }
    match j.base { 0 => {} 9 => o = o.with_no_base(), 10 => o = o.with_base(arc_iri(BASES[0])).with_no_base(), k => o = o.with_base(arc_iri(BASES[(k as usize - 1) % BASES.len()])) }
    let nx = EXPAND_CTX.len() as u8;
    match j.ctx { 0 => {} k if k <= nx => { if let Ok(o2) = JsonLdOptions::new().try_with_expand_context(EXPAND_CTX[k as usize - 1]) { if let Some(c) = o2.expand_context() { o = o.with_expand_context(c.clone()); } } }
        k if k == nx + 1 => o = o.with_expand_context(Iri::new_unchecked("http://ctx.example/a")), k if k == nx + 2 => o = o.with_expand_context(Iri::new_unchecked("http://ctx.example/b")),
        k if k == nx + 3 => o = o.with_expand_context(Iri::new_unchecked("http://nobody.example/ctx")), k if k == nx + 4 => o = o.with_expand_context(Iri::new_unchecked("http://ctx.example/broken")),
        _ => o = o.with_expand_context(Iri::new_unchecked("http://ctx.example/a")).with_no_expand_context() }
    if let Some(b) = j.ordered { o = o.with_ordered(b); }
    match j.dir { 1 => o = o.with_rdf_direction(RdfDirection::I18nDatatype), 2 => o = o.with_rdf_direction(RdfDirection::CompoundLiteral), 3 => o = o.with_rdf_direction(RdfDirection::CompoundLiteral).with_no_rdf_direction(), _ => {} }
    if let Some(b) = j.generalized { o = o.with_produce_generalized_rdf(b); }
    match j.policy { 1 => o = o.with_expansion_policy(Policy::Relaxed), 2 => o = o.with_expansion_policy(Policy::Standard), 3 => o = o.with_expansion_policy(Policy::Strict), 4 => o = o.with_expansion_policy(Policy::Strictest), _ => {} }
    if let Some(b) = j.native { o = o.with_use_native_types(b); } if let Some(b) = j.rdf_type { o = o.with_use_rdf_type(b); }
    if let Some(b) = j.compact_arrays { o = o.with_compact_arrays(b); } if let Some(b) = j.compact_to_relative { o = o.with_compact_to_relative(b); } if let Some(n) = j.spaces { o = o.with_spaces(n); }
    match j.cctx { 1 => { if let Ok(o2) = JsonLdOptions::new().try_with_compact_context(EXPAND_CTX[0]) { if let Some(c) = o2.compact_context() { o = o.with_compact_context(c.clone()); } } } 2 => o = o.with_compact_context(Iri::new_unchecked("http://ctx.example/a")), 3 => o = o.with_compact_context(Iri::new_unchecked("http://ctx.example/a")).with_no_compact_context(), _ => {} }
    o
}
impl JOpts {
    fn generalized(&self) -> bool { self.generalized == Some(true) }
    fn describe(&self) -> String { if *self == JOpts::default() { "JsonLdOptions::new()".to_string() } else { format!("{self:?}") } }
    const NLOADERS: u8 = 8; const NCTX: u8 = 11; const NBASE: u8 = 11;
}
/// every single with_* on its own (each value), the combinations the notes name, and pairs with produce_generalized_rdf
fn directed_jopts() -> Vec<JOpts> {
    let d = JOpts::default(); let mut v = vec![d.clone()];
    for k in 1..=2 { v.push(JOpts { mode: k, ..d.clone() }); }
    for k in 1..JOpts::NBASE { v.push(JOpts { base: k, ..d.clone() }); }
    for k in 1..=JOpts::NCTX { v.push(JOpts { ctx: k, loader: if k > EXPAND_CTX.len() as u8 && k % 2 == 0 { 4 } else { 0 }, ..d.clone() }); }
    for b in [true, false] { v.push(JOpts { ordered: Some(b), ..d.clone() }); v.push(JOpts { generalized: Some(b), ..d.clone() }); v.push(JOpts { native: Some(b), ..d.clone() }); v.push(JOpts { rdf_type: Some(b), ..d.clone() }); v.push(JOpts { compact_arrays: Some(b), ..d.clone() }); v.push(JOpts { compact_to_relative: Some(b), ..d.clone() }); }
    for k in 1..=3 { v.push(JOpts { dir: k, ..d.clone() }); v.push(JOpts { cctx: k, ..d.clone() }); }
    for k in 1..=4 { v.push(JOpts { policy: k, ..d.clone() }); }
    v.push(JOpts { spaces: Some(3), ..d.clone() });
    for k in 1..JOpts::NLOADERS { v.push(JOpts { loader: k, ..d.clone() }); }
    let n = v.len();
    for i in 1..n { let mut j = v[i].clone(); if j.generalized.is_none() { j.generalized = Some(true); v.push(j); } }
    for (mode, base, dir) in [(1u8, 9u8, 1u8), (2, 9, 2), (1, 3, 2), (2, 4, 1), (1, 0, 0)] { for pol in [1u8, 4] { v.push(JOpts { mode, base, dir, policy: pol, generalized: Some(true), ordered: Some(true), loader: 4, ..d.clone() }); } }
    v
}
fn random_jopts(r: &mut Rng) -> JOpts {
    let ob = |r: &mut Rng| match r.below(4) { 0 => Some(true), 1 => Some(false), _ => None };
    JOpts { mode: r.below(3) as u8, base: if r.chance(1, 2) { 0 } else { r.below(JOpts::NBASE as usize) as u8 }, ctx: if r.chance(1, 2) { 0 } else { r.below(JOpts::NCTX as usize + 1) as u8 }, ordered: ob(r), dir: r.below(4) as u8,
        generalized: match r.below(3) { 0 => None, 1 => Some(false), _ => Some(true) }, policy: r.below(5) as u8, native: ob(r), rdf_type: ob(r), compact_arrays: ob(r), compact_to_relative: ob(r), spaces: if r.chance(1, 5) { Some(r.below(9) as u16) } else { None }, cctx: if r.chance(1, 4) { r.below(4) as u8 } else { 0 }, loader: if r.chance(1, 2) { 0 } else { r.below(JOpts::NLOADERS as usize) as u8 } }
}

/// Build the parser of format `f` with the given options, hand `data` to it through entry point `e`, and give the source to `v`.
/// Returns false when the entry point does not apply (parse_str on bytes that are not UTF-8 ...).
fn open<V: Visit>(f: Fmt, base: Option<&str>, jopts: Option<&JOpts>, data: &[u8], e: Entry, failed: &std::rc::Rc<std::cell::Cell<bool>>, v: &mut V) -> bool {
    let b: Option<Iri<String>> = base.map(|b| Iri::new_unchecked(b.to_string()));
    let text = std::str::from_utf8(data).ok();
    if e.needs_str() && text.is_none() { return false; }
    if matches!(e, Entry::Opts(_)) || (e == Entry::Async && f != Fmt::JsonLd) { return false; }
    if e.uses_default_parser() && (jopts.is_some() || (base.is_some() && !matches!(f, Fmt::Nt | Fmt::Nq | Fmt::Gnq))) { return false; }
    macro_rules! entries {
        ($meth:ident, $p:expr, $dflt:expr, $m:path) => {{
            match e {
                // (the readers behind one `dyn BufRead`: one source type per parser here, because every source type x closure compiles a copy of the
                // parser; every concrete reader type, parse_str, the module-level functions and Default are driven by run_recipe)
                Entry::Slice | Entry::Str | Entry::ModStr | Entry::ModBuf => v.$meth($p.parse(Box::new(data) as Box<dyn BufRead + '_>)),
                Entry::Default => v.$meth($dflt.parse(Box::new(data) as Box<dyn BufRead + '_>)),
                Entry::Buffered(n) => v.$meth($p.parse(Box::new(BufReader::with_capacity(n.max(1), data)) as Box<dyn BufRead + '_>)),
                Entry::Cursor => v.$meth($p.parse(Box::new(Cursor::new(data.to_vec())) as Box<dyn BufRead + '_>)),
                Entry::Feed { chunk, cut } => v.$meth($p.parse(Box::new(Feed::new(data, chunk, cut, None, failed.clone())) as Box<dyn BufRead + '_>)),
                Entry::FailAt(k) => v.$meth($p.parse(Box::new(Feed::new(data, usize::MAX, None, Some(k), failed.clone())) as Box<dyn BufRead + '_>)),
                Entry::Async | Entry::Opts(_) => unreachable!(),
            }
        }};
    }
    use sophia_turtle::parser::{gnq, gtrig, nq, nt, trig, turtle};
    match f {
        Fmt::Nt => entries!(t, nt::NTriplesParser {}, nt::NTriplesParser::default(), sophia_turtle::parser::nt),
        Fmt::Nq => entries!(q, nq::NQuadsParser {}, nq::NQuadsParser::default(), sophia_turtle::parser::nq),
        Fmt::Gnq => entries!(q, gnq::GNQuadsParser {}, gnq::GNQuadsParser::default(), sophia_turtle::parser::gnq),
        Fmt::Turtle => entries!(t, turtle::TurtleParser { base: b.clone() }, turtle::TurtleParser::default(), sophia_turtle::parser::turtle),
        Fmt::Trig => entries!(q, trig::TriGParser { base: b.clone() }, trig::TriGParser::default(), sophia_turtle::parser::trig),
        Fmt::Gtrig => entries!(q, gtrig::GTriGParser { base: b.clone() }, gtrig::GTriGParser::default(), sophia_turtle::parser::gtrig),
        Fmt::Xml => entries!(t, sophia_xml::parser::RdfXmlParser { base: b.clone() }, sophia_xml::parser::RdfXmlParser::default(), sophia_xml::parser),
        Fmt::JsonLd => {
            use sophia_jsonld::loader_factory::{ClosureLoaderFactory, DefaultLoaderFactory, LoaderFactory};
            fn go<V: Visit, LF: LoaderFactory>(p: JsonLdParser<LF>, data: &[u8], text: Option<&str>, e: Entry, failed: &std::rc::Rc<std::cell::Cell<bool>>, v: &mut V) {
                let _ = p.options();
                match e {
                    Entry::Slice => v.q(p.parse(data)),
                    Entry::Str => v.q(p.parse_str(text.unwrap())),
                    Entry::Buffered(n) => v.q(p.parse(Box::new(BufReader::with_capacity(n.max(1), data)) as Box<dyn BufRead + '_>)),
                    Entry::Cursor => v.q(p.parse(Box::new(Cursor::new(data.to_vec())) as Box<dyn BufRead + '_>)),
                    Entry::Feed { chunk, cut } => v.q(p.parse(Box::new(Feed::new(data, chunk, cut, None, failed.clone())) as Box<dyn BufRead + '_>)),
                    Entry::FailAt(k) => v.q(p.parse(Box::new(Feed::new(data, usize::MAX, None, Some(k), failed.clone())) as Box<dyn BufRead + '_>)),
                    Entry::Async => v.q(poll_to_end(p.async_parse_str(text.unwrap()))),
                    Entry::ModStr => v.q(sophia_jsonld::parser::parse_str(text.unwrap())),
                    Entry::ModBuf => v.q(sophia_jsonld::parser::parse_bufread(data)),
                    Entry::Default => v.q(JsonLdParser::default().parse(data)),
                    Entry::Opts(_) => unreachable!(),
                }
            }
            match jopts {
                None => { let p = match base { Some(b) => JsonLdParser::new_with_options(JsonLdOptions::new().with_base(arc_iri(b))), None => JsonLdParser::new() }; go(p, data, text, e, failed, v) }
                Some(j) => { let o = apply_jopts(JsonLdOptions::new(), j);
                    match j.loader % JOpts::NLOADERS {
                        0 => go(JsonLdParser::new_with_options(o), data, text, e, failed, v),
                        1 => go(JsonLdParser::new_with_options(o.with_default_document_loader::<sophia_jsonld::loader::NoLoader>()), data, text, e, failed, v),
                        2 => go(JsonLdParser::new_with_options(o.with_document_loader_factory(DefaultLoaderFactory::<sophia_jsonld::loader::NoLoader>::new())), data, text, e, failed, v),
                        3 => go(JsonLdParser::new_with_options(o.with_document_loader_closure(no_loader as fn() -> sophia_jsonld::loader::NoLoader)), data, text, e, failed, v),
                        4 => go(JsonLdParser::new_with_options(o.with_document_loader_closure(mem_loader as fn() -> MemLoader)), data, text, e, failed, v),
                        5 => go(JsonLdParser::new_with_options(o.with_document_loader(sophia_jsonld::loader::StaticLoader::new())), data, text, e, failed, v),
                        6 => go(JsonLdParser::new_with_options(o.with_document_loader_factory(ClosureLoaderFactory::new(mem_loader as fn() -> MemLoader))), data, text, e, failed, v),
                        _ => go(JsonLdParser::new_with_options(o.with_document_loader_closure(chain_loader as fn() -> sophia_jsonld::loader::ChainLoader<sophia_jsonld::loader::NoLoader, MemLoader>)), data, text, e, failed, v),
                    } }
            }
        }
    }
    true
}

// ------------------------------------------------------------------------------------------------------
// Documents of the history stream: valid and broken units of every format in any order (an error before, between and
// after valid statements; only errors; nothing); documents for the options (relative IRIs, @base directives).
// ------------------------------------------------------------------------------------------------------
/// (text before the units, valid units, broken units, separator, text after the units)
fn units(f: Fmt) -> (&'static str, Vec<&'static str>, Vec<&'static str>, &'static str, &'static str) {
    match f {
        Fmt::Nt => ("", vec!["<http://e/s> <http://e/p> <http://e/o> .\n", "_:b <http://e/p> \"x\"@en .\n", "<http://e/s> <http://e/p> \"1\"^^<http://e/dt> . # c\n", "# only a comment\n", "<< <http://e/s> <http://e/p> <http://e/o> >> <http://e/q> \"z\" .\n", "\n"],
            vec!["<http://e/s> <http://e/p> .\n", "garbage\n", "<http://e/a b> <http://e/p> <http://e/o> .\n", "\"lit\" <http://e/p> <http://e/o> .\n", "_:a..b <http://e/p> <http://e/o> .\n", "<http://e/s> <http://e/p> \"unterminated\n", "<http://e/s> <http://e/p> \"x\"@- .\n", "<http://e/s> <http://e/p> <rel> .\n", "<http://e/s> <http://e/p> <http://e/o> <http://e/g> .\n", "<http://e/s> <http://e/p> \"\\u12\" .\n", "<< <http://e/s> <http://e/p> >> <http://e/q> <http://e/o> .\n"], "", ""),
        Fmt::Nq => ("", vec!["<http://e/s> <http://e/p> <http://e/o> <http://e/g> .\n", "_:b <http://e/p> \"x\"@en _:g .\n", "<http://e/s> <http://e/p> \"1\"^^<http://e/dt> .\n", "# only a comment\n", "<http://e/s> <http://e/p> << _:a <http://e/p> \"z\" >> <http://e/g> .\n"],
            vec!["<http://e/s> <http://e/p> .\n", "garbage\n", "<http://e/s> <http://e/p> <http://e/o> \"lit\" .\n", "<http://e/s> <http://e/p> <http://e/o> <http://e/g> <http://e/h> .\n", "_:a. <http://e/p> <http://e/o> .\n", "<http://e/s> <http://e/p> \"unterminated\n", "<http://e/s> <http://e/p> <http://e/o> <rel> .\n", "<http://e/s> ?p <http://e/o> .\n"], "", ""),
        Fmt::Gnq => ("", vec!["<http://e/s> <http://e/p> ?v <http://e/g> .\n", "\"lit\" _:p ?o ?g .\n", "<rel> <../p> <#o> .\n", "# only a comment\n", "<< ?s <http://e/p> \"x\"@en >> <rel> <<_:a _:b _:c>> \"g\" .\n", "<http://e/s> <http://e/p> <http://e/o> .\n"],
            vec!["<http://e/s> <http://e/p> .\n", "garbage\n", "<http://e/s> <http://e/p> <http://e/o> <http://e/g> <http://e/h> .\n", "<http://e/a b> ?p ?o .\n", "?s ?p \"unterminated\n", "?s ?p ?o ?g ?h .\n", "? ?p ?o .\n", "<< ?s ?p >> ?p ?o .\n", "_:a..b ?p ?o ?g .\n"], "", ""),
        Fmt::Turtle => ("@prefix : <http://e/ns#> .\n", vec!["<http://e/s> <http://e/p> <http://e/o> , \"x\"@en ; <http://e/q> ( 1 2 ) .\n", ":a :b [ :c :d ; :e 1.5 ] .\n", "<< :a :b :c >> :d :e .\n", "@prefix x: <http://x.example/> .\n", "<rel> <../p> <#o> .\n", "@base <sub/dir/> .\n", "<> :p <?q=1> , <//h.example/x> .\n", ":s :p :o {| :src <http://e/src> |} .\n", "# only a comment\n", "[] a :C .\n"],
            vec!["<http://e/s> <http://e/p> .\n", "und:x :p :o .\n", "<http://e/s> :p ( 1 2 .\n", "@prefix y <http://y.example/> .\n", "<http://e/s> :p \"a\"@ .\n", "[ :p :o \n", "}\n", "<http://e/s> :p :o ; ; , .\n", ":s :p <http://e/a b> .\n", ":s :p \"unterminated .\n", ":s :p :o1 , :o2 , .\n", "<< :a :b >> :c :d .\n", ":s :p _:a..b .\n", "@base <::> .\n", ":s :p 1.5.e .\n"], "", ""),
        Fmt::Trig => ("@prefix : <http://e/ns#> .\n", vec![":g { :s :p :o , \"l\"@en ; :q ( :a :b ) . :s2 :p2 :o2 }\n", "GRAPH _:g { [] :p [ :q 1 ] }\n", "{ :s :p << :a :b :c >> }\n", "<http://e/s> <http://e/p> <http://e/o> .\n", "<rel> <../p> <#o> .\n", "@base <sub/dir/> .\n", "<g2> { <> :p <?q=1> }\n", "# only a comment\n"],
            vec![":g { :s :p }\n", ":g { :s :p :o \n", "und:x :p :o .\n", "GRAPH { :s :p :o }\n", "}\n", ":g { :s :p :o } }\n", "\"lit\" { :s :p :o }\n", ":g { :g2 { :s :p :o } }\n", ":s :p <http://e/a b> .\n", ":g { :s :p :o1 , :o2 , . }\n", "@prefix y <http://y.example/> .\n", "{ :s :p _:a..b }\n"], "", ""),
        Fmt::Gtrig => ("@prefix : <http://e/ns#> .\n", vec!["?g { ?s a :P ; :name ?n . \"lit\" :p [ ?q ( ?x 1 ) ] }\n", "<http://e/me> :knows _:alice {| :since 2002 |} .\n", ":a :b << :c ?p \"o\" >> .\n", "<rel> <../p> <#o> .\n", "@base <http://b.example/sub/> .\n", "\"s\" ?p 1 .\n", "# only a comment\n", "GRAPH ?g { ?s ?p ?o }\n"],
            vec![":g { :s :p }\n", "?s ?p .\n", "und:x :p :o .\n", "}\n", "?g { ?s ?p ?o \n", ":s :p \"unterminated .\n", "? ?p ?o .\n", ":s :p :o1 , :o2 , .\n", "<< :a :b >> :c :d .\n", "@prefix y <http://y.example/> .\n", "?s ?p ( 1 2 .\n"], "", ""),
        Fmt::Xml => ("<?xml version=\"1.0\"?>\n<rdf:RDF xmlns:rdf=\"http://www.w3.org/1999/02/22-rdf-syntax-ns#\" xmlns:e=\"http://e/ns#\">\n",
            vec![" <rdf:Description rdf:about=\"http://e/s\"><e:p>v</e:p><e:q xml:lang=\"en\">w</e:q></rdf:Description>\n", " <e:C rdf:nodeID=\"b1\"><e:p rdf:resource=\"http://e/o\"/></e:C>\n", " <rdf:Description rdf:about=\"rel\" xml:base=\"http://b.example/x/\"><e:p rdf:resource=\"../o\"/></rdf:Description>\n", " <rdf:Description rdf:about=\"http://e/s\"><e:c rdf:parseType=\"Collection\"><rdf:Description rdf:about=\"http://e/a\"/><rdf:Description rdf:about=\"http://e/b\"/></e:c></rdf:Description>\n", " <!-- a comment -->\n", " <rdf:Description rdf:about=\"http://e/s\"><e:t rdf:parseType=\"Resource\"><e:u rdf:datatype=\"http://e/dt\">1</e:u></e:t><e:i rdf:ID=\"st1\">reified</e:i></rdf:Description>\n", " <rdf:Description rdf:about=\"relative-without-base\"><e:p rdf:resource=\"#frag\"/></rdf:Description>\n"],
            vec![" <rdf:Description rdf:about=\"http://e/s\"><e:p></e:q></rdf:Description>\n", " <rdf:Description rdf:about=\"http://e/s\" rdf:nodeID=\"b\"/>\n", " <rdf:Description><e:p rdf:resource=\"http://e/x\" rdf:parseType=\"Literal\"/></rdf:Description>\n", " <<<\n", " <rdf:Description><e:p>&undefined;</e:p></rdf:Description>\n", " <rdf:Description rdf:about=\"http://e/s\"><rdf:Description/></rdf:Description>\n", " <rdf:Description><e:p rdf:nodeID=\"1 x\"/></rdf:Description>\n", " <rdf:Description rdf:bagID=\"x\"/>\n", " <rdf:Description><rdf:RDF/></rdf:Description>\n", " <rdf:Description><e:p xml:lang=\"!!\">v</e:p></rdf:Description>\n", " <rdf:Description rdf:about=\"http://e/s\"><e:p rdf:ID=\"same\">a</e:p><e:p rdf:ID=\"same\">b</e:p></rdf:Description>\n", " <rdf:li/>\n", " </rdf:Description>\n"], "", "</rdf:RDF>\n"),
        Fmt::JsonLd => ("{\"@context\": {\"e\": \"http://e/ns#\"}, \"@graph\": [\n",
            vec!["{\"@id\": \"http://e/s\", \"e:p\": \"v\"}", "{\"@id\": \"_:b\", \"e:p\": {\"@id\": \"http://e/o\"}}", "{\"@id\": \"http://e/s2\", \"e:q\": [1, true, {\"@list\": [\"a\"]}]}", "{\"@id\": \"rel\", \"e:p\": {\"@id\": \"../o\"}}", "{\"@id\": \"http://e/g\", \"@graph\": [{\"@id\": \"http://e/s3\", \"e:p\": {\"@value\": \"x\", \"@language\": \"en-US\"}}]}", "{}"],
            vec!["{\"@id\": 42}", "{\"@id\": \"http://e/s\", \"e:p\": {\"@value\": \"x\", \"@language\": 1}}", "{\"@context\": {\"@type\": \"@id\"}, \"e:p\": 1}", "{\"@context\": \"http://nobody.example/ctx\", \"e:p\": 1}", "{\"e:p\": ", "{\"@id\": \"http://e/s\", \"@reverse\": 1}", "{\"e:p\": \"\u{0}\\ud800\"}", "{\"e:p\": {\"@value\": [1]}}", "{\"e:p\": {\"@list\": 1, \"@id\": \"x\"}}", "{\"@context\": {\"x\": {\"@id\": \"e:x\", \"@container\": \"@bogus\"}}}", "]", "{\"@context\": 42}", "{\"e:p\": {\"@value\": \"x\", \"@type\": \"_:dt\"}}"], ",\n", "\n]}\n"),
    }
}
/// a document made of units: (valid?, index into the pool)
fn unit_doc(f: Fmt, pattern: &[(bool, usize)]) -> Vec<u8> {
    let (pre, ok, ko, sep, post) = units(f);
    let mut s = String::from(pre);
    for (i, (valid, k)) in pattern.iter().enumerate() { if i > 0 { s.push_str(sep); } s.push_str(if *valid { ok[k % ok.len()] } else { ko[k % ko.len()] }); }
    s.push_str(post); s.into_bytes()
}

/// JSON-LD documents that exercise what the options enable: (context entries needed, member of the node object)
const FEATURES: [(&[&str], &str); 64] = [
    (&[], "\"_:p\": \"o2\""), (&[], "\"_:p2\": {\"@id\": \"_:o\"}"), (&["\"q\": \"_:q\""], "\"q\": {\"@id\": \"tag:o3\"}"), (&["\"e\": \"http://e/ns#\""], "\"e:p\": \"o1\""),
    (&["\"@vocab\": \"_:\""], "\"plain\": \"bnode vocab\""), (&["\"@vocab\": \"\""], "\"plain2\": \"empty relative vocab\""), (&["\"@vocab\": \"rel/\""], "\"plain3\": {\"@id\": \"x\"}"), (&["\"@vocab\": \"#\""], "\"plain4\": 1"),
    (&[], "\"rel/path\": \"x\""), (&[], "\"../rel\": 1"), (&["\"d\": {\"@id\": \"http://e/d\", \"@direction\": \"ltr\"}"], "\"d\": \"text\""), (&[], "\"http://e/dir\": {\"@value\": \"abc\", \"@direction\": \"rtl\"}"),
    (&[], "\"http://e/dir2\": {\"@value\": \"abc\", \"@direction\": \"ltr\", \"@language\": \"EN-us\"}"), (&[], "\"http://e/dir3\": {\"@value\": \"abc\", \"@direction\": \"up\"}"), (&["\"@direction\": \"rtl\"", "\"@language\": \"ar\""], "\"http://e/dir4\": [\"x\", {\"@value\": \"y\", \"@direction\": null}]"), (&["\"r\": {\"@reverse\": \"_:rev\"}"], "\"r\": {\"@id\": \"http://e/r\"}"),
    (&["\"r2\": {\"@reverse\": \"http://e/r2\"}"], "\"r2\": \"literal under reverse\""), (&[], "\"@reverse\": {\"_:rv\": {\"@id\": \"http://e/x\"}, \"relrev\": {\"@id\": \"_:y\"}}"), (&["\"bl\": {\"@id\": \"_:bl\", \"@container\": \"@list\"}"], "\"bl\": [1, \"two\", {\"@id\": \"rel3\"}]"), (&["\"bt\": {\"@id\": \"_:bt\", \"@type\": \"@id\"}"], "\"bt\": [\"_:target\", \"relative/target\"]"),
    (&["\"j\": {\"@id\": \"http://e/j\", \"@type\": \"@json\"}"], "\"j\": {\"a\": [1, 2.50, null, {\"z\": \"\\u00e9\"}]}"), (&["\"lm\": {\"@id\": \"_:lm\", \"@container\": \"@language\"}"], "\"lm\": {\"en\": \"x\", \"!!\": \"bad tag\", \"@none\": \"n\", \"a-b-c-d-e-f-g-h-toolongsubtag\": \"y\"}"), (&["\"ix\": {\"@id\": \"_:ix\", \"@container\": \"@index\"}"], "\"ix\": {\"k1\": \"v1\", \"k2\": {\"@id\": \"_:iv\"}}"), (&["\"gr\": {\"@id\": \"http://e/gr\", \"@container\": \"@graph\"}"], "\"gr\": {\"@id\": \"_:gn\", \"_:gp\": \"in graph\"}"),
    (&["\"idm\": {\"@id\": \"_:idm\", \"@container\": \"@id\"}"], "\"idm\": {\"relid\": {\"_:x\": 1}, \"http://e/abs\": {\"http://e/y\": 2}}"), (&["\"tm\": {\"@id\": \"_:tm\", \"@container\": \"@type\"}"], "\"tm\": {\"http://e/T\": {\"@id\": \"_:typed\"}, \"_:BT\": {\"http://e/z\": 1}, \"relT\": {}}"), (&["\"n\": \"@nest\""], "\"n\": {\"_:nested\": true, \"http://e/n2\": 1.5e300}"), (&["\"sc\": {\"@id\": \"http://e/sc\", \"@context\": {\"inner\": \"_:inner\", \"@vocab\": \"_:v\"}}"], "\"sc\": {\"inner\": \"scoped\", \"other\": \"vocab-scoped\"}"),
    (&[], "\"@type\": \"_:Type\""), (&[], "\"@type\": [\"relType\", \"http://e/T\", \"_:T2\"]"), (&[], "\"@included\": [{\"@id\": \"rel-inc\", \"_:ip\": \"i\"}]"), (&[], "\"@graph\": [{\"@id\": \"_:g1\", \"_:gp2\": {\"@list\": []}}, {\"@id\": \"relg\", \"relp\": 1}]"),
    (&[], "\"http://e/num\": [1e21, -0.0, 1.0E-7, 123456789012345678901234567890, 0.1, 1E400]"), (&[], "\"http://e/lang\": [{\"@value\": \"v\", \"@language\": \"a-very-long-subtag-x\"}, {\"@value\": \"v\", \"@language\": \"en_US\"}, {\"@value\": \"v\", \"@language\": \"\"}]"), (&[], "\"http://e/typed\": {\"@value\": \"v\", \"@type\": \"rel-dt\"}"), (&[], "\"http://e/typed2\": {\"@value\": \"v\", \"@type\": \"_:dt\"}"),
    (&["\"vt\": {\"@id\": \"http://e/vt\", \"@type\": \"@vocab\"}", "\"plain-term\": \"_:pt\""], "\"vt\": [\"plain-term\", \"undefined-term\"]"), (&[], "\"http://e/idrel\": [{\"@id\": \"?q=1#f\"}, {\"@id\": \"//host/p\"}, {\"@id\": \"\"}, {\"@id\": \"../../..\"}]"), (&[], "\"http://e/idbad\": [{\"@id\": \"http://e/a b\"}, {\"@id\": \"_:\"}, {\"@id\": \"_:a..b\"}, {\"@id\": \"_:a b\"}, {\"@id\": \"http://e/<x>\"}]"), (&[], "\"http://e/set\": {\"@set\": [\"a\", {\"@list\": [[\"nested\"], []]}]}"),
    (&[], "\"http://e/abs p\": \"space in the property IRI\""), (&[], "\"_:b.\": 1"), (&[], "\"_:\": 2"), (&[], "\"_:a b\": 3"),
    (&[], "\"_:a..b\": {\"@id\": \"_:c.\"}"), (&["\"bad\": \"_:x y\""], "\"bad\": 1"), (&["\"@base\": \"../up/\""], "\"http://e/b1\": {\"@id\": \"x\"}"), (&["\"@base\": null"], "\"http://e/b2\": {\"@id\": \"x\"}"),
    (&["\"@base\": \"rel-base/\""], "\"http://e/b3\": {\"@id\": \"x\", \"@type\": \"T\"}"), (&["\"@version\": 1.1"], "\"http://e/v\": {\"@id\": \"x\"}"), (&["\"@version\": 1.0"], "\"http://e/v\": 1"), (&["\"pp\": {\"@id\": \"_:pp\", \"@protected\": true}"], "\"pp\": {\"@context\": {\"pp\": \"http://e/other\"}, \"pp\": 1}"),
    (&["\"ty\": \"@type\"", "\"id\": \"@id\""], "\"ty\": \"_:aliased\", \"http://e/al\": {\"id\": \"rel-aliased\"}"), (&["\"@import\": \"http://ctx.example/a\""], "\"ma\": \"imported bnode term\""), (&["\"@propagate\": false", "\"np\": \"_:np\""], "\"np\": {\"np\": \"not propagated\"}"), (&["\"pre\": {\"@id\": \"_:pre\", \"@prefix\": true}"], "\"pre:suffix\": 1"),
    (&["\"rel\": {\"@id\": \"relprop\"}"], "\"rel\": 1"), (&["\"kw\": {\"@id\": \"@graph\"}"], "\"kw\": [{\"_:kp\": 1}]"), (&["\"nul\": null", "\"@vocab\": \"_:v#\""], "\"nul\": 1, \"notnul\": 2"), (&[], "\"http://e/emptylist\": {\"@list\": []}, \"_:el\": {\"@list\": [{\"@list\": [1]}]}"),
    (&["\"cl\": {\"@id\": \"_:cl\", \"@container\": [\"@graph\", \"@id\"]}"], "\"cl\": {\"relgraph\": {\"_:in\": 1}, \"@none\": {\"_:in2\": 2}}"), (&["\"ls\": {\"@id\": \"_:ls\", \"@container\": [\"@language\", \"@set\"], \"@direction\": \"rtl\"}"], "\"ls\": {\"ar\": [\"x\", \"y\"]}"), (&["\"ni\": {\"@id\": \"_:ni\", \"@index\": \"_:prop\", \"@container\": \"@index\"}"], "\"ni\": {\"k\": {\"@id\": \"_:n\"}}"), (&[], "\"@id\": \"http://e/second-id\""),
];
const TOP_IDS: [&str; 8] = ["\"@id\": \"tag:s\"", "\"@id\": \"_:s\"", "\"@id\": \"rel/s\"", "\"@id\": \"\"", "\"@id\": \"#frag\"", "\"@id\": \"_:s.\"", "", "\"@id\": \"http://e/\u{130}\""];
/// how the context is given: inline object, array with an in-memory context first / last, only a remote reference
fn feature_doc(feats: &[usize], top: usize, ctx_form: usize, extra_ctx: &[usize]) -> Vec<u8> {
    let mut ctx: Vec<&str> = vec![]; let mut keys: Vec<String> = vec![]; let mut body: Vec<&str> = vec![];
    let key_of = |m: &str| m.split(':').next().unwrap_or("").trim().to_string();
    let mut add_ctx = |c: &'static str, ctx: &mut Vec<&str>, keys: &mut Vec<String>| { let k = format!("ctx {}", key_of(c)); if !keys.contains(&k) { keys.push(k); ctx.push(c); } };
    for &fi in feats { let (cs, _) = FEATURES[fi % FEATURES.len()]; for c in cs.iter() { add_ctx(c, &mut ctx, &mut keys); } }
    for &fi in extra_ctx { let (cs, _) = FEATURES[fi % FEATURES.len()]; for c in cs.iter() { add_ctx(c, &mut ctx, &mut keys); } }
    let t = TOP_IDS[top % TOP_IDS.len()]; if !t.is_empty() { body.push(t); keys.push("\"@id\"".to_string()); }
    for &fi in feats { let (_, m) = FEATURES[fi % FEATURES.len()]; let k = key_of(m); if !keys.contains(&k) { keys.push(k); body.push(m); } }
    let inline = format!("{{{}}}", ctx.join(", "));
    let c = match ctx_form % 6 { 0 | 1 | 2 => inline, 3 => format!("[\"http://ctx.example/a\", {inline}]"), 4 => format!("[{inline}, \"http://ctx.example/b\"]"), _ => format!("[{inline}, null, {inline}]") };
    format!("{{\"@context\": {c}, {}}}", body.join(", ")).into_bytes()
}

#[derive(Clone, Debug)]
enum HDoc { Units(Vec<(bool, usize)>), Poly(Box<Recipe>), Feature { feats: Vec<usize>, top: usize, ctx_form: usize, extra: Vec<usize> } }
#[derive(Clone, Debug)]
struct HCase { f: Fmt, base: Option<usize>, jopts: Option<JOpts>, entry: Entry, doc: HDoc, hist: History }
impl HCase {
    fn data(&self) -> (Vec<u8>, String) {
        match &self.doc {
            HDoc::Units(p) => (unit_doc(self.f, p), format!("units {}", p.iter().map(|(v, k)| format!("{}{k}", if *v { "ok" } else { "BROKEN" })).collect::<Vec<_>>().join(" "))),
            HDoc::Poly(rc) => materialize(rc),
            HDoc::Feature { feats, top, ctx_form, extra } => (feature_doc(feats, *top, *ctx_form, extra), format!("JSON-LD features {feats:?}, top-level id #{top}, context form {ctx_form}, extra context of {extra:?}")),
        }
    }
    fn generalized(&self) -> bool { self.f.generalized() || self.jopts.as_ref().map_or(false, |j| j.generalized()) }
    fn base_str(&self) -> Option<&'static str> { self.base.map(|k| BASES[k % BASES.len()]) }
}
/// sink failures leave these sources in a defined state (one statement per call of the required method, taken before the sink runs)
fn atomic_steps(f: Fmt) -> bool { matches!(f, Fmt::Nt | Fmt::Nq | Fmt::JsonLd) }
/// third-party rio_turtle parsers whose behaviour when pulled again after an error is the known finding after-error-rio-turtle
fn rio_turtle_after_error(f: Fmt) -> bool { matches!(f, Fmt::Turtle | Fmt::Trig | Fmt::Gtrig | Fmt::Gnq) }

const ALL_MOPS: [MOp; 9] = [MOp::TrySome(Lv::Item, false), MOp::TrySome(Lv::Item, true), MOp::ForSome(Lv::Item), MOp::TryEach(Lv::Item, None), MOp::TryEach(Lv::Item, Some(0)), MOp::TryEach(Lv::Item, Some(1)), MOp::ForEach(Lv::Item), MOp::Hint(Lv::Item), MOp::TryEach(Lv::Item, Some(3))];
fn at_level(op: MOp, l: Lv) -> MOp { match op { MOp::TrySome(_, b) => MOp::TrySome(l, b), MOp::ForSome(_) => MOp::ForSome(l), MOp::TryEach(_, k) => MOp::TryEach(l, k), MOp::ForEach(_) => MOp::ForEach(l), MOp::Hint(_) => MOp::Hint(l) } }
const ALL_FINS: [Fin; 14] = [Fin::Collect, Fin::AddTo, Fin::FilterStmt(0), Fin::FilterStmt(1), Fin::FilterItems(3), Fin::FilterItems(2), Fin::MapStmt, Fin::FilterMapItems(0), Fin::FilterMapItems(3), Fin::MapIter, Fin::FilterMapIter(1), Fin::FilterMapIter(2), Fin::Convert, Fin::FilterMapIter(0)];
fn random_mop(r: &mut Rng) -> MOp { let l = if r.chance(1, 2) { Lv::Item } else { Lv::Stmt }; at_level(match r.below(10) { 0 => MOp::TrySome(l, false), 1 => MOp::TrySome(l, true), 2 => MOp::ForSome(l), 3 | 4 => MOp::TryEach(l, None), 5 => MOp::TryEach(l, Some(r.below(4))), 6 | 7 => MOp::ForEach(l), 8 => MOp::Hint(l), _ => MOp::ForSome(l) }, l) }
fn random_history(r: &mut Rng) -> History {
    let pre: Vec<MOp> = (0..r.below(5)).map(|_| random_mop(r)).collect();
    let fin = if r.chance(1, 2) { None } else { let f = *r.pick(&ALL_FINS); let n = match f { Fin::Collect | Fin::AddTo => 0, Fin::MapIter | Fin::FilterMapIter(_) => 2 + r.below(12), _ => 1 + r.below(4) }; Some((f, (0..n).map(|_| random_mop(r)).collect())) };
    let mut h = History { pre, fin }; if h.fin.is_none() { for _ in 0..1 + r.below(3) { h.pre.push(random_mop(r)); } } h.normalised()
}
fn random_pattern(r: &mut Rng) -> Vec<(bool, usize)> { (0..r.below(6)).map(|_| (r.chance(3, 5), r.below(64))).collect() }
fn random_hcase(base: &Rng, k: usize) -> HCase {
    let mut r = base.fork(4_000_000 + k as u64);
    let f = FMTS[r.below(8)];
    let doc = match r.below(10) { 0 | 1 => { let mut rc = random_recipe(base, k); rc.alts.clear(); HDoc::Poly(Box::new(rc)) } 2 | 3 if f == Fmt::JsonLd => HDoc::Feature { feats: (0..1 + r.below(4)).map(|_| r.below(FEATURES.len())).collect(), top: r.below(TOP_IDS.len()), ctx_form: r.below(6), extra: (0..r.below(3)).map(|_| r.below(FEATURES.len())).collect() }, _ => HDoc::Units(random_pattern(&mut r)) };
    let f = if let HDoc::Poly(rc) = &doc { rc.parser } else { f };
    let jopts = if f == Fmt::JsonLd && r.chance(1, 2) { Some(random_jopts(&mut r)) } else { None };
    let bs = if matches!(f, Fmt::Nt | Fmt::Nq | Fmt::Gnq) || jopts.is_some() || r.chance(1, 3) { None } else { Some(r.below(BASES.len())) };
    let entry = loop { let e = random_entry(&mut r, f, bs.is_some(), 200); if !matches!(e, Entry::Opts(_)) && !(e.uses_default_parser() && jopts.is_some()) { break e; } };
    HCase { f, base: bs, jopts, entry, doc, hist: random_history(&mut r) }
}
/// the systematic part: for every parser and every shape of document (valid / error first / in the middle / last / only errors / empty),
/// every ordered pair of calls followed by a drain, every consuming call after nothing / after an error / after exhaustion, each followed by repeated calls
fn directed_hcases(thorough: bool) -> Vec<HCase> {
    let mut v = vec![];
    let pats: Vec<Vec<(bool, usize)>> = vec![vec![(true, 0), (true, 1), (true, 2)], vec![(false, 0), (true, 0), (true, 1)], vec![(true, 0), (false, 1), (true, 2), (true, 4)], vec![(true, 1), (true, 2), (false, 2)], vec![(false, 3), (false, 4)], vec![], vec![(true, 4), (false, 5), (false, 6), (true, 5), (false, 7), (true, 3)], vec![(true, 6), (true, 7), (false, 8), (true, 8), (true, 9)], vec![(false, 9), (true, 2), (false, 10), (false, 11), (true, 0)], vec![(true, 3), (false, 12), (true, 1), (false, 13), (false, 14)]];
    let entries = [Entry::Slice, Entry::Str, Entry::Feed { chunk: 1, cut: None }, Entry::FailAt(60), Entry::Buffered(3), Entry::Cursor, Entry::FailAt(0), Entry::Feed { chunk: usize::MAX, cut: Some(31) }];
    for (fi, f) in FMTS.iter().enumerate() { for (pi, p) in pats.iter().enumerate() {
        for (i, a) in ALL_MOPS.iter().enumerate() { for (j, b) in ALL_MOPS.iter().enumerate() {
            if !thorough && pi >= 4 && !(if pi < 6 { i == j || j == 6 || i == 3 } else { (i * 9 + j + pi + fi) % 9 == 0 }) { continue; }
            let k = v.len();
            let (la, lb) = [(Lv::Item, Lv::Item), (Lv::Stmt, Lv::Item), (Lv::Item, Lv::Stmt), (Lv::Stmt, Lv::Stmt)][(i + j + pi + fi) % 4];
            let tail = [MOp::ForEach(Lv::Item), MOp::TryEach(Lv::Stmt, None), MOp::ForSome(Lv::Stmt), MOp::TryEach(Lv::Item, None)][k % 4];
            let base = if matches!(f, Fmt::Nt | Fmt::Nq | Fmt::Gnq) || k % 3 == 0 { None } else { Some(k % BASES.len()) };
            v.push(HCase { f: *f, base, jopts: None, entry: entries[(k / 3) % entries.len()], doc: HDoc::Units(p.clone()), hist: History { pre: vec![at_level(*a, la), at_level(*b, lb), tail, at_level(*b, la), tail], fin: None } });
        } }
        for (ci, fin) in ALL_FINS.iter().enumerate() { for (qi, pre) in [vec![], vec![MOp::TryEach(Lv::Item, None)], vec![MOp::ForEach(Lv::Stmt), MOp::ForEach(Lv::Item), MOp::TryEach(Lv::Item, None), MOp::ForEach(Lv::Stmt)], vec![MOp::TrySome(Lv::Stmt, true), MOp::Hint(Lv::Stmt)], vec![MOp::TryEach(Lv::Stmt, Some(0))]].iter().enumerate() {
            if !thorough && (ci + qi + pi + fi) % (if pi < 4 { 2 } else { 5 }) != 0 { continue; }
            let k = v.len();
            let post: Vec<MOp> = match fin { Fin::Collect | Fin::AddTo => vec![], Fin::MapIter | Fin::FilterMapIter(_) => { let mut x = vec![MOp::ForSome(Lv::Item); 10]; x.insert(3, MOp::Hint(Lv::Item)); x.push(MOp::Hint(Lv::Item)); x } _ => vec![[MOp::TryEach(Lv::Item, None), MOp::ForEach(Lv::Stmt), MOp::TryEach(Lv::Stmt, Some(1)), MOp::ForSome(Lv::Item)][k % 4], MOp::Hint(Lv::Stmt), MOp::TryEach(Lv::Stmt, None), MOp::ForEach(Lv::Item), MOp::ForSome(Lv::Stmt), MOp::TryEach(Lv::Item, None), MOp::Hint(Lv::Item)] };
            let base = if matches!(f, Fmt::Nt | Fmt::Nq | Fmt::Gnq) || k % 3 == 1 { None } else { Some(k % BASES.len()) };
            v.push(HCase { f: *f, base, jopts: None, entry: entries[(k / 2) % entries.len()], doc: HDoc::Units(p.clone()), hist: History { pre: pre.clone(), fin: Some((*fin, post)) }.normalised() });
        } }
    } }
    // every base of the pool (and none) on the documents with relative IRIs and @base directives / xml:base, every way of consuming once and twice
    for f in [Fmt::Turtle, Fmt::Trig, Fmt::Gtrig, Fmt::Xml] { for b in std::iter::once(None).chain((0..BASES.len()).map(Some)) { for (pi, p) in [vec![(true, 4), (true, 5), (true, 6), (true, 0)], vec![(true, 2), (true, 6), (true, 4)], vec![(true, 6), (false, 13), (true, 4), (true, 2)], vec![(true, 5), (true, 4), (false, 0), (true, 6)]].iter().enumerate() {
        let k = v.len();
        v.push(HCase { f, base: b, jopts: None, entry: entries[k % entries.len()], doc: HDoc::Units(p.clone()), hist: History { pre: vec![ALL_MOPS[(k + pi) % ALL_MOPS.len()], MOp::ForEach(Lv::Stmt), MOp::TryEach(Lv::Item, None)], fin: Some((ALL_FINS[k % ALL_FINS.len()], vec![MOp::ForEach(Lv::Item); 2])) }.normalised() });
    } } }
    // JSON-LD: every single option value (and each together with produce_generalized_rdf) on every feature, alone and in groups
    let jo = directed_jopts();
    let hists = [History { pre: vec![MOp::ForEach(Lv::Stmt), MOp::TryEach(Lv::Item, None)], fin: None }, History { pre: vec![MOp::TryEach(Lv::Item, None), MOp::TryEach(Lv::Stmt, None), MOp::Hint(Lv::Item)], fin: Some((Fin::Collect, vec![])) }, History { pre: vec![MOp::Hint(Lv::Item), MOp::ForSome(Lv::Item)], fin: Some((Fin::MapIter, vec![MOp::ForSome(Lv::Item); 6])) }, History { pre: vec![], fin: Some((Fin::Collect, vec![])) }];
    for fi in 0..FEATURES.len() { for (ji, j) in jo.iter().enumerate() {
        if !thorough && (fi * 7 + ji) % 8 != 0 && !(j.generalized() && (fi + ji) % 3 == 0) && ji != 0 { continue; }
        let k = v.len();
        v.push(HCase { f: Fmt::JsonLd, base: None, jopts: Some(j.clone()), entry: [Entry::Slice, Entry::Str, Entry::Async, Entry::Cursor][k % 4], doc: HDoc::Feature { feats: vec![fi], top: (fi + ji) % TOP_IDS.len(), ctx_form: (fi + ji) % 6, extra: vec![] }, hist: hists[k % hists.len()].clone() });
    } }
    for (ji, j) in jo.iter().enumerate() { for g in 0..(if thorough { 16 } else { 4 }) {
        let k = v.len(); let feats: Vec<usize> = (0..4).map(|x| (ji * 5 + g * 17 + x * 13) % FEATURES.len()).collect();
        v.push(HCase { f: Fmt::JsonLd, base: None, jopts: Some(j.clone()), entry: [Entry::Slice, Entry::Str, Entry::Async, Entry::Buffered(7)][k % 4], doc: HDoc::Feature { feats, top: k % TOP_IDS.len(), ctx_form: k % 6, extra: vec![(ji + g) % FEATURES.len()] }, hist: hists[k % hists.len()].clone() });
        // and the unit documents (errors of every kind) under every option
        if g < 2 { v.push(HCase { f: Fmt::JsonLd, base: None, jopts: Some(j.clone()), entry: Entry::Slice, doc: HDoc::Units(pats[(ji + g) % pats.len()].clone()), hist: History { pre: vec![MOp::TryEach(Lv::Item, None), MOp::TryEach(Lv::Item, None), MOp::ForEach(Lv::Stmt)], fin: Some((Fin::AddTo, vec![])) } }); }
    } }
    v
}

fn normalised(t: &Trace, obs: &[Obs], h: &History, f: Fmt) -> (Trace, Vec<Obs>) {
    let (mut t, mut obs) = (t.clone(), obs.to_vec());
    if matches!(h.fin, Some((Fin::Convert, _))) {
        for s in t.steps.iter_mut() { if s.spo.len() == s.stmts.len() { s.stmts = s.spo.clone(); } }
        for o in obs.iter_mut().take(h.pre.len()) { if o.spo.len() == o.stmts.len() { o.stmts = o.spo.clone(); } }
    }
    if f == Fmt::JsonLd { for s in t.steps.iter_mut() { for x in s.stmts.iter_mut() { *x = "a statement".to_string(); } } for o in obs.iter_mut() { for x in o.stmts.iter_mut() { *x = "a statement".to_string(); } } }
    (t, obs)
}
/// Coq text of a history case: statements and error messages are numbered in order of first appearance
struct Interner { map: std::collections::HashMap<String, usize> }
impl Interner { fn id(&mut self, s: &str) -> usize { let n = self.map.len(); *self.map.entry(s.to_string()).or_insert(n) } }
fn coq_nlist(v: &[usize]) -> String { format!("[{}]", v.iter().map(|x| x.to_string()).collect::<Vec<_>>().join("; ")) }
fn coq_hist_case(t: &Trace, h: &History, atomic: bool, obs: &[Obs]) -> String {
    let mut it = Interner { map: Default::default() };
    let steps = t.steps.iter().map(|s| format!("({}, {})", coq_nlist(&s.stmts.iter().map(|x| it.id(x)).collect::<Vec<_>>()), match &s.err { Some(e) => format!("SFail {}", it.id(&format!("error: {e}"))), None => "SMore".to_string() })).collect::<Vec<_>>().join("; ");
    let op = |o: &MOp| match o { MOp::TrySome(_, f) => format!("OSome {}", coq_bool(*f)), MOp::ForSome(_) => "OSome false".to_string(), MOp::TryEach(_, Some(k)) => format!("OEach (Some {k})"), MOp::TryEach(_, None) | MOp::ForEach(_) => "OEach None".to_string(), MOp::Hint(_) => "OHint".to_string() };
    let ops = |v: &Vec<MOp>| format!("[{}]", v.iter().map(op).collect::<Vec<_>>().join("; "));
    let (fin, post) = match &h.fin { None => ("FNone".to_string(), "[]".to_string()), Some((f, p)) => (match f { Fin::Collect => "FCollect".to_string(), Fin::AddTo => "FAddTo".to_string(), Fin::FilterStmt(k) | Fin::FilterItems(k) | Fin::FilterMapItems(k) => format!("(FFilter {})", k % 4), Fin::MapStmt | Fin::Convert => "FMap".to_string(), Fin::MapIter => "FIter".to_string(), Fin::FilterMapIter(k) => format!("(FFilterIter {})", k % 4) }, ops(p)) };
    let ob = obs.iter().map(|o| format!("({}, {})", coq_nlist(&o.stmts.iter().map(|x| it.id(x)).collect::<Vec<_>>()), match &o.res { Res::More => "RMore".to_string(), Res::End => "REnd".to_string(), Res::Done => "RDone".to_string(), Res::SrcErr(e) => format!("RSrcErr {}", it.id(&format!("error: {e}"))), Res::SinkErr => "RSinkErr".to_string(), Res::Hint(lo, hi) => format!("RHint {lo} {}", match hi { Some(h) => format!("(Some {h})"), None => "None".to_string() }), Res::Count(n) => format!("RCount {n}"), Res::Panic(_) => "RPanic".to_string() })).collect::<Vec<_>>().join("; ");
    format!("hist_ok {} [{steps}] {} {fin} {post} [{ob}]", coq_bool(atomic), ops(&h.pre))
}

struct HistCtx<'a> { sum: &'a mut Summary, profile: &'static str, verbose: bool, coq_cases: Vec<(usize, String)>, coq_budget: usize }
fn run_hcase(id: usize, hc: &HCase, cx: &mut HistCtx) {
    let (data, what_doc) = hc.data();
    let (f, profile, g) = (hc.f, cx.profile, hc.generalized());
    let shown = String::from_utf8_lossy(&data).to_string();
    watch(id as u64);
    let what = format!("{}; {}; {what_doc}", match (&hc.jopts, hc.base_str()) { (Some(j), _) => format!("options {}", j.describe()), (None, Some(b)) => format!("base IRI {b}"), (None, None) => if matches!(f, Fmt::Nt | Fmt::Nq | Fmt::Gnq) { "parser without base notion".to_string() } else { "no base IRI".to_string() } }, format!("entry point {:?}", hc.entry));
    let failed = std::rc::Rc::new(std::cell::Cell::new(false));
    // the required method on a fresh source
    RAW_INVALID_IRI.with(|x| *x.borrow_mut() = None); RENDER_BAD.with(|x| x.borrow_mut().clear());
    let mut tr = TraceRun { g, trace: Trace::default() };
    let opened = catch_unwind(AssertUnwindSafe(|| open(f, hc.base_str(), hc.jopts.as_ref(), &data, hc.entry, &failed, &mut tr)));
    let raw1 = RAW_INVALID_IRI.with(|x| x.borrow().clone());
    cx.sum.evaluations += 1;
    let std_tag = |about_iri: bool, raw: Option<&str>| if gtrig_no_base_iriref(f, hc.base.is_some(), hc.entry, about_iri, raw, &shown) { "[gtrig-no-base-unvalidated-iriref] " } else if pname_char_outside_ucschar(f, hc.entry, about_iri, raw, &shown) { "[turtle-pname-char-outside-ucschar] " } else { "" };
    let about_iri_panic = |m: &str| m.contains("rio/src/model.rs") && m.contains("IriRef::new(n.iri)");
    let about_iri_bad = |b: &str| b.starts_with("IRI \"") && (b.ends_with("is not a valid IRI reference") || b.ends_with("is not a valid absolute IRI"));
    let mut fails: Vec<String> = vec![];
    let trace = match opened {
        Ok(false) => { cx.sum.bump("history:entry-not-applicable"); return; }
        Err(_) => { let m: String = LAST_PANIC.with(|l| l.borrow().clone()).chars().take(200).collect(); fails.push(format!("{}parser {f:?} PANICKED ({profile} build): {m}; while the parser was building its source; {what}; input {shown:?}", std_tag(about_iri_panic(&m), raw1.as_deref()))); None }
        Ok(true) => Some(tr.trace),
    };
    if let Some(t) = &trace {
        let first_err = t.steps.iter().position(|s| s.err.is_some());
        let after = |at: usize| first_err.map_or(false, |e| at > e);
        if t.panicked { let m = t.stop.clone().unwrap_or_default(); let at = t.steps.len();
            let tag = if after(at) && rio_turtle_after_error(f) { "[after-error-rio-turtle] " } else { std_tag(about_iri_panic(&m), raw1.as_deref()) };
            fails.push(format!("{tag}parser {f:?} PANICKED ({profile} build): {m}; in call #{} of try_for_some_item on a fresh source{}; {what}; input {shown:?}", at + 1, if after(at) { format!(", after call #{} had reported an error", first_err.unwrap() + 1) } else { String::new() })); }
        if let (Some(b), Some(at)) = (t.bad.first(), t.bad_at) {
            let tag = if after(at) && rio_turtle_after_error(f) { "[after-error-rio-turtle] " } else { std_tag(about_iri_bad(b), raw1.as_deref()) };
            fails.push(format!("{tag}parser {f:?} ({profile} build) yielded an invalid term: {b}; in call #{} of try_for_some_item on a fresh source{}; {what}; input {shown:?}", at + 1, if after(at) { format!(", after call #{} had reported an error", first_err.unwrap() + 1) } else { String::new() })); }
        if !t.complete && !t.panicked { cx.sum.bump(&format!("history:{f:?}:not-exhausted-within-the-cap")); }
        cx.sum.bump(&format!("history:{f:?}:{}", match (first_err.is_some(), t.steps.iter().any(|s| !s.stmts.is_empty())) { (true, true) => "statements-and-errors", (true, false) => "errors-only", (false, true) => "statements-only", _ => "nothing" }));
        let nerr = t.steps.iter().filter(|s| s.err.is_some()).count(); if nerr > 1 { cx.sum.bump(&format!("history:{f:?}:several-errors-reported")); }
        if t.steps.iter().any(|s| !s.stmts.is_empty()) || nerr > 0 { cx.sum.distinct_nontrivial += 1; }
    }
    // the history on another fresh source
    RAW_INVALID_IRI.with(|x| *x.borrow_mut() = None);
    let failed2 = std::rc::Rc::new(std::cell::Cell::new(false));
    let mut hr = HistRun { g, h: &hc.hist, obs: vec![] };
    let opened2 = catch_unwind(AssertUnwindSafe(|| open(f, hc.base_str(), hc.jopts.as_ref(), &data, hc.entry, &failed2, &mut hr)));
    let raw2 = RAW_INVALID_IRI.with(|x| x.borrow().clone()).or(raw1.clone());
    cx.sum.evaluations += 1;
    let hd = hc.hist.describe();
    if opened2.is_err() { let m: String = LAST_PANIC.with(|l| l.borrow().clone()).chars().take(200).collect(); if trace.is_some() { fails.push(format!("{}parser {f:?} PANICKED ({profile} build): {m}; outside the guarded calls of the history {hd}; {what}; input {shown:?}", std_tag(about_iri_panic(&m), raw2.as_deref()))); } }
    let obs = hr.obs;
    let ops: Vec<String> = { let mut v: Vec<String> = hc.hist.pre.iter().map(|o| format!("{o:?}")).collect(); if let Some((fin, post)) = &hc.hist.fin { match fin { Fin::Collect | Fin::AddTo => v.push(format!("{fin:?}")), Fin::MapIter | Fin::FilterMapIter(_) => v.extend(post.iter().map(|o| if let MOp::Hint(_) = o { format!("{fin:?}.into_iter().size_hint()") } else { format!("{fin:?}.into_iter().next()") })), _ => v.extend(post.iter().map(|o| format!("{o:?} on the result of {fin:?}"))) } } v };
    // oracle on every call: no panic, valid terms; an error reported by an earlier call of this history?
    let mut reported: Option<usize> = None;
    for (i, o) in obs.iter().enumerate() {
        let opname = ops.get(i).cloned().unwrap_or_default();
        let hist_note = |reported: Option<usize>| format!("in call #{} ({opname}) of the history {hd}{}", i + 1, match reported { Some(j) => format!(", after call #{} had reported an error", j + 1), None => String::new() });
        cx.sum.bump(&format!("history-call:{}", opname.split(|c: char| !c.is_alphanumeric()).next().unwrap_or("")));
        if let Res::Panic(m) = &o.res {
            let tag = if reported.is_some() && rio_turtle_after_error(f) { "[after-error-rio-turtle] " } else { std_tag(about_iri_panic(m), raw2.as_deref()) };
            fails.push(format!("{tag}parser {f:?} PANICKED ({profile} build): {m}; {}; {what}; input {shown:?}", hist_note(reported)));
        }
        if let Some(b) = o.bad.first() {
            // an error met inside this very call (iterators, for_each) precedes nothing: the statements of a call come before its error
            let tag = if reported.is_some() && rio_turtle_after_error(f) { "[after-error-rio-turtle] " } else { std_tag(about_iri_bad(b), raw2.as_deref()) };
            fails.push(format!("{tag}parser {f:?} ({profile} build) yielded an invalid term: {b}; {}; {what}; input {shown:?}", hist_note(reported)));
        }
        if reported.is_some() { cx.sum.bump(&format!("history:{f:?}:call-after-an-error:{}", match &o.res { Res::Panic(_) => "panicked", _ if !o.bad.is_empty() => "invalid-term", Res::SrcErr(_) => "error-again", Res::End | Res::Done | Res::Count(_) if o.stmts.is_empty() => "ended", Res::Hint(..) => "hint", _ => "more-statements" })); }
        if matches!(o.res, Res::SrcErr(_) | Res::SinkErr) && reported.is_none() { reported = Some(i); }
    }
    // every call against the required method on a fresh source
    if let Some(t) = &trace { if !obs.is_empty() {
        let atomic = atomic_steps(f);
        // what is compared: the statements as delivered; without their graph names when the history goes through to_triples;
        // for JSON-LD only how many there are (the order of the quads and the numbering of its blank nodes differ from one parse to the next)
        let (t, obs) = &normalised(t, &obs, &hc.hist, f);
        let exp = expectations(t, &hc.hist, atomic, &obs);
        let mut rep: Option<usize> = None;
        for (i, o) in obs.iter().enumerate() {
            if matches!(o.res, Res::Panic(_)) { break; }
            if let Some(Some((stmts, res))) = exp.get(i) {
                let same = if let Res::Hint(..) = res { false } else { *stmts == o.stmts && *res == o.res };
                if !same {
                    let tag = if rep.is_some() && rio_turtle_after_error(f) { "[after-error-rio-turtle] " } else { "" };
                    let show = |s: &Vec<String>, r: &Res| format!("{} statement(s) {:?} and {r:?}", s.len(), s.iter().take(3).collect::<Vec<_>>());
                    fails.push(if let Res::Hint(n, _) = res { format!("{tag}parser {f:?} ({profile} build): the size hint {:?} of call #{} ({}) of the history {hd} excludes the {n} statement(s) that try_for_some_item delivers from there on a fresh source; {what}; input {shown:?}", o.res, i + 1, ops.get(i).cloned().unwrap_or_default()) }
                        else { format!("{tag}parser {f:?} ({profile} build): call #{} ({}) of the history {hd} gave {}, but the required method try_for_some_item on a fresh source determines {}{}; {what}; input {shown:?}", i + 1, ops.get(i).cloned().unwrap_or_default(), show(&o.stmts, &o.res), show(stmts, res), match rep { Some(j) => format!(" (call #{} had reported an error)", j + 1), None => String::new() }) });
                    break;
                }
            }
            if matches!(o.res, Res::SrcErr(_) | Res::SinkErr) && rep.is_none() { rep = Some(i); }
        }
        if t.complete && cx.coq_budget > 0 && !obs.iter().any(|o| matches!(o.res, Res::Panic(_))) && t.steps.len() <= 60 && (id % 11 == 0 || id < 5_000_000) { cx.coq_budget -= 1; cx.coq_cases.push((id, coq_hist_case(t, &hc.hist, atomic, &obs))); }
    } }
    if failed.get() || failed2.get() { cx.sum.bump("history:reader-failure-reached"); }
    { let mut rb = RENDER_BAD.with(|x| std::mem::take(&mut *x.borrow_mut())); rb.dedup(); for b in rb.into_iter().take(3) { fails.push(format!("parser {f:?} ({profile} build): {b}; during the history {hd} (or the calls of try_for_some_item on a fresh source); {what}; input {shown:?}")); } }
    if cx.verbose {
        println!("CASE {id}: parser {f:?}; {what}; history {hd}; input {shown:?}");
        if let Some(t) = &trace { println!("  try_for_some_item on a fresh source: complete {}, stop {:?}", t.complete, t.stop); for (i, s) in t.steps.iter().enumerate() { println!("    #{}: {} statement(s) {:?}, error {:?}", i + 1, s.stmts.len(), s.stmts, s.err); } }
        for (i, o) in obs.iter().enumerate() { println!("  call #{} {}: {} statement(s) {:?}, {:?}, complaints {:?}", i + 1, ops.get(i).cloned().unwrap_or_default(), o.stmts.len(), o.stmts, o.res, o.bad); }
        for x in &fails { println!("  FAIL {x}"); }
    }
    if cx.sum.samples.len() < 12 && id % 997 == 3 { cx.sum.samples.push(format!("case {id}: {f:?}; {what}; history {hd}: {} call(s) observed", obs.len())); }
    cx.sum.bump(&format!("history-count:{f:?}:{}", if id >= 5_000_000 { "directed" } else { "random" }));
    for x in fails { cx.sum.oracle_failures.push((id.to_string(), x)); }
}

// ======================================================================================================
// Round 7 (a): ERROR PATHS.  Every parser is driven into every kind of error it can report, with a token of the document
// (IRI, prefix, local name, label, tag, key, context URL, element / attribute / entity name, text ...) replaced by a LONG
// NON-ASCII token: 100..1000 repeats of a 2-, 3- or 4-byte character behind 0..3 ASCII letters, so that any shortening of a
// message at a byte offset lands inside a character for one of the four shifts (Coq: pads_cover_every_cut).  Sources of error
// documents: hand-written templates aimed at each error kind whose message quotes the document, and every broken and valid
// unit of the history stream with each of its words replaced in turn.  Every reported error is rendered completely
// (render_error) under catch_unwind, through every entry point / way of consuming / history.
// Round 7 (b): LEGAL BUT UNUSUAL TERMS.  IRIs of the rdf: / xsd: / i18n vocabularies (and near misses) in every position of
// every syntax -- subject, predicate, object, graph name, inside quoted triples, lists and annotations, as element / attribute
// names, and as the explicit datatype of a literal: "chat"^^rdf:langString, ""^^xsd:string, the empty datatype IRI, a
// language tag together with a datatype where the syntax allows it (RDF/XML) and where it does not (an error).
// ======================================================================================================
const ERR_BASE: usize = 100_000;
const VOC_BASE: usize = 200_000;
const HOLE: &str = "{X}";
const FILL_CHARS: [char; 7] = ['\u{e9}', '\u{20AC}', '\u{1F600}', '\u{130}', '\u{1E9E}', '\u{20000}', '\u{301}'];
const FILL_REPS: [usize; 4] = [150, 100, 333, 1000];
/// the long token number `v` (0..8) of error source `src`: 4 shifts x 2 (character, length) pairs
fn filler_of(src: usize, v: usize) -> (usize, char, usize) { let combo = src * 2 + (v / 4) % 2; (v % 4, FILL_CHARS[combo % FILL_CHARS.len()], FILL_REPS[(combo / FILL_CHARS.len() + src) % FILL_REPS.len()]) }
fn filler_text(pad: usize, c: char, reps: usize) -> String { let mut s = "a".repeat(pad); for _ in 0..reps { s.push(c); } s }
const XML_PRE: &str = "<?xml version=\"1.0\"?>\n<rdf:RDF xmlns:rdf=\"http://www.w3.org/1999/02/22-rdf-syntax-ns#\" xmlns:e=\"http://e/ns#\">\n";
fn err_templates(f: Fmt) -> Vec<&'static str> {
    let nt: Vec<&'static str> = vec![
        "<http://e/{X}%zz> <http://e/p> <http://e/o> .\n", "<{X}> <http://e/p> <http://e/o> .\n", "<http://e/{X} bad> <http://e/p> <http://e/o> .\n", "<http://e/s> <http://e/p> \"x\"@{X} .\n", "<http://e/s> <http://e/p> \"x\"@en-{X} .\n",
        "<http://e/s> <http://e/p> \"{X} .\n", "<http://e/s> <http://e/p> \"{X}\\q\" .\n", "_:{X}. <http://e/p> <http://e/o> .\n", "_:a{X}..b <http://e/p> <http://e/o> .\n", "<http://e/s> <http://e/p> \"x\"^^<{X}> .\n",
        "<http://e/s> <http://e/p> \"x\"^^<http://e/{X}\\u0020> .\n", "<http://e/s> <http://e/p> <http://e/o> . {X}\n", "{X} <http://e/p> <http://e/o> .\n", "# {X}\n<http://e/s> <http://e/p> .\n", "<< <http://e/s> <http://e/p> \"{X}\" >> <http://e/q> .\n",
        "<http://e/s> <http://e/p> \"{X}\"^^<http://e/{X}|> .\n", "?{X}. <http://e/p> <http://e/o> .\n", "<http://e/s> <http://e/p> \"\\U00110000{X}\" .\n", "<http://e/s> <http://e/{X}\\u00e9\\> <http://e/o> .\n", "<http://e/s> <http://e/p> <http://e/o> <http://e/{X}%zz> .\n",
        "<http://e/s> <http://e/p> \"x\"@{X}^^<http://e/dt> .\n", "<http://[{X}]/> <http://e/p> <http://e/o> .\n", "<{X}://h/> <http://e/p> <http://e/o> .\n", "<http://e/s> <http://e/p> \"x\"@a-{X}-toolongsubtag .\n",
    ];
    match f {
        Fmt::Nt | Fmt::Nq | Fmt::Gnq => nt,
        Fmt::Turtle | Fmt::Trig | Fmt::Gtrig => { let mut v = nt; v.extend([
            "{X}:a <http://e/p> <http://e/o> .\n", "@prefix p{X}: <http://e/> .\np{X}:a p{X}:b und{X}:c .\n", "@prefix p: <http://e/{X}%zz> .\n", "@base <{X}://b> .\n<a> <b> <c> .\n", "@prefix p: <http://e/> .\np:a p:b \"x\"@{X} .\n",
            "@prefix p: <http://e/> .\np:a p:b \"x\"@en-{X} .\n", "@prefix p: <http://e/> .\np:{X}\\z p:b p:c .\n", "@prefix p: <http://e/> .\np:a p:b '''{X}\n", "@prefix p: <http://e/> .\np:a p:b ( \"{X}\" .\n", "@prefix p: <http://e/> .\np:a p:b 12{X} .\n",
            "@prefix p: <http://e/> .\np:a p:b <{X} > .\n", "@{X} <http://e/> .\n", "GRAPH <http://e/{X}%zz> { <http://e/s> <http://e/p> <http://e/o> }\n", "<http://e/g> { <http://e/s> <http://e/p> {X} }\n", "@prefix p: <http://e/> .\np:a p:{X}% p:c .\n",
            "PREFIX {X} <http://e/>\n", "BASE <http://e/{X}%zz>\n", "@prefix p: <http://e/> .\np:a p:b \"x\"^^{X}:dt .\n", "@prefix p: <http://e/> .\np:a p:b [ p:c {X}:d ] .\n", "@prefix p: <http://e/> .\n<< p:a p:b {X}:c >> p:d p:e .\n",
            "@prefix p: <http://e/> .\np:a p:b p:c {| {X}:d p:e |} .\n", "@prefix p: <http://e/> .\n_:{X}..x p:b p:c .\n", "@prefix {X}: <{X}> .\n{X}:a {X}:b {X}:c .\n",
        ]); v }
        Fmt::Xml => vec![
            "<rdf:Description rdf:ID=\"{X} bad\"/>", "<rdf:Description rdf:nodeID=\"{X} bad\"/>", "<rdf:Description rdf:bagID=\"{X} bad\"/>", "<rdf:Description rdf:about=\"http://e/s\" rdf:{X}=\"v\"/>", "<rdf:Description rdf:about=\"http://e/s\" rdf:li=\"{X}\"/>",
            "<rdf:Description rdf:ID=\"a{X}\"/><rdf:Description rdf:ID=\"a{X}\"/>", "<rdf:li rdf:about=\"http://e/{X}\"/>", "<rdf:Description><rdf:Description>{X}</rdf:Description></rdf:Description>", "<rdf:Description><rdf:about>{X}</rdf:about></rdf:Description>", "<rdf:Description>{X}</rdf:Description>",
            "<rdf:Description><{X}:p>v</{X}:p></rdf:Description>", "<rdf:Description><e:p rdf:parseType=\"Literal\" rdf:resource=\"{X}\"/></rdf:Description>", "<rdf:Description><e:p xml:lang=\"{X}\">v</e:p></rdf:Description>", "<rdf:Description><e:p xml:lang=\"en-{X}\">v</e:p></rdf:Description>", "<rdf:Description xml:base=\"{X} bad\" rdf:about=\"a\"/>",
            "<rdf:Description><e:p>&{X};</e:p></rdf:Description>", "<rdf:Description><e:p></e:{X}></rdf:Description>", "<rdf:Description e:{X}=\"1\" e:{X}=\"2\"/>", "<rdf:Description e:a=\"{X}/>", "<e:p rdf:about=\"x\" {X}>",
            "<?{X}", "<![CDATA[{X}", "<!--{X}", "</{X}>", "<rdf:Description rdf:about=\"http://e/s\"><e:p rdf:ID=\"i{X}\">a</e:p><e:q rdf:ID=\"i{X}\">b</e:q></rdf:Description>",
            "<rdf:Description rdf:about=\"http://e/s\"><e:p rdf:resource=\"http://e/o\" rdf:nodeID=\"{X}\"/></rdf:Description>", "<rdf:Description rdf:about=\"http://e/s\"><e:p rdf:parseType=\"Literal\"><{X}></e:p></rdf:Description>", "<rdf:Description rdf:about=\"http://e/s\"><e:{X} rdf:parseType=\"{X}\" rdf:datatype=\"x\">v</e:{X}></rdf:Description>", "<rdf:Description rdf:aboutEach=\"{X}\"/>", "<rdf:{X} rdf:about=\"http://e/s\"><rdf:{X}>v</rdf:{X}></rdf:{X}><rdf:Description rdf:ID=\"1{X}\"/>",
            "<rdf:Description xmlns:{X}=\"\"><{X}:p/></rdf:Description>", "<!DOCTYPE rdf:RDF [<!ENTITY {X} 'v>]>", "<rdf:Description><e:p xml:lang=\"a-{X}-toolongsubtag\">v</e:p></rdf:Description>",
        ],
        Fmt::JsonLd => vec![
            "{\"@context\": \"http://example.org/{X}\", \"@id\": \"http://e/s\", \"p\": \"o\"}", "{\"@context\": \"{X}\", \"@id\": \"http://e/s\", \"p\": \"o\"}", "{\"@context\": [{\"p\": \"http://e/p\"}, \"http://e/{X}\"], \"p\": 1}", "{\"@context\": {\"@import\": \"http://e/{X}\"}, \"http://e/p\": 1}", "{\"@context\": {\"t\": {\"@id\": \"http://e/t\", \"@context\": \"http://e/{X}\"}}, \"t\": {\"http://e/a\": 1}}",
            "{\"@context\": {\"{X}\": 42}, \"http://e/p\": 1}", "{\"@context\": {\"@vocab\": \"{X} y\"}, \"p\": 1}", "{\"@id\": 42, \"{X}\": 1}", "{\"http://e/p\": {\"@value\": \"x\", \"@language\": \"{X}\"}}", "{\"http://e/p\": {\"@value\": \"x\", \"@type\": \"{X} bad\"}}",
            "{\"@context\": {\"{X}\": {\"@id\": \"{X}\"}}, \"{X}\": 1}", "{\"@{X}\": 1, \"http://e/p\": 2}", "{\"{X}\": }", "{\"http://e/p\": \"{X}", "{\"@context\": {\"@base\": \"{X}:// bad\"}, \"@id\": \"x\", \"http://e/p\": 1}",
            "{\"@context\": {\"@version\": \"{X}\"}}", "{\"@context\": {\"a\": {\"@id\": \"http://e/a\", \"@container\": \"{X}\"}}, \"a\": 1}", "{\"@context\": {\"a\": {\"@id\": \"http://e/a\", \"@type\": \"{X}\"}}, \"a\": \"v\"}", "{\"@context\": {\"a\": {\"@reverse\": \"{X}\", \"@id\": \"x\"}}, \"a\": 1}", "{\"@type\": \"{X}\", \"@id\": 1}",
            "{\"@reverse\": \"{X}\"}", "{\"@included\": \"{X}\"}", "{\"http://e/p\": {\"@list\": [1], \"@id\": \"{X}\"}}", "{\"http://e/p\": {\"@value\": {\"a\": \"{X}\"}}}", "{\"http://e/p\": {\"@value\": \"v\", \"@direction\": \"{X}\"}}",
            "{\"http://e/p\": {\"@value\": \"v\", \"@index\": 4, \"{X}\": 1}}", "{\"@context\": {\"{X}\": \"@{X}\"}, \"{X}\": 1}", "{\"@context\": {\"a\": {\"@id\": \"http://e/a\", \"@nest\": \"{X}\"}}, \"a\": 1}", "{\"@context\": {\"a\": {\"@id\": \"http://e/a\", \"@language\": 1, \"{X}\": 2}}}", "{\"@context\": {\"@language\": \"{X}\", \"@direction\": \"{X}\"}, \"http://e/p\": \"v\"}",
            "{\"@context\": {\"a\": \"_:{X} y\", \"@propagate\": \"{X}\"}, \"a\": 1}", "{\"@context\": {\"@protected\": true, \"a{X}\": \"http://e/a\"}, \"http://e/p\": {\"@context\": {\"a{X}\": \"http://e/b\"}, \"a{X}\": 1}}", "{\"@context\": {\"a\": {\"@id\": \"http://e/a\", \"@prefix\": \"{X}\"}}}", "{\"@context\": {\"@import\": 42, \"{X}\": 1}}", "{\"@graph\": [{\"@id\": \"http://e/s\", \"@type\": 42, \"{X}\": 1}]}",
            "{\"@id\": \"http://e/s\", \"http://e/p\": {\"@set\": 1, \"@list\": 2, \"{X}\": 3}}", "[{\"@context\": \"{X}/ctx\", \"p\": 1}, 42, \"{X}\"]", "{\"http://e/p\": 1e{X}}", "{\"http://e/p\": \"\\u{X}\"}", "{\"@context\": {\"{X}\": {\"@id\": \"http://e/x\", \"@type\": \"@id\", \"@container\": \"@list\", \"@index\": \"{X}\"}}, \"{X}\": 1}",
        ],
    }
}
/// words (runs of ASCII letters and digits, not inside the hole marker) of a unit, as byte ranges
fn unit_words(u: &str) -> Vec<(usize, usize)> { tokens(u.as_bytes()).into_iter().filter(|t| t.2 == TK::Word).map(|t| (t.0, t.1)).take(10).collect() }
/// the error sources of format `f`: (text before, unit with the hole, text after, description)
fn err_sources(f: Fmt) -> Vec<(String, String, String, String)> {
    let (pre, ok, ko, _sep, post) = units(f);
    let mut v: Vec<(String, String, String, String)> = vec![];
    let tpre = if f == Fmt::Xml { XML_PRE } else { "" }; let tpost = if f == Fmt::Xml { "</rdf:RDF>\n" } else { "" };
    for (i, t) in err_templates(f).into_iter().enumerate() { v.push((tpre.to_string(), t.to_string(), tpost.to_string(), format!("error template #{i} {t:?}"))); }
    for (kind, pool) in [("broken", &ko), ("valid", &ok)] { for (ui, u) in pool.iter().enumerate() { for (wi, (a, b)) in unit_words(u).into_iter().enumerate() {
        v.push((pre.to_string(), format!("{}{HOLE}{}", &u[..a], &u[b..]), post.to_string(), format!("{kind} unit #{ui} with its word #{wi} ({:?}) replaced", &u[a..b])));
    } } }
    v
}
thread_local! { static ERR_SRC_CACHE: std::cell::RefCell<Vec<Option<std::rc::Rc<Vec<(String, String, String, String)>>>>> = std::cell::RefCell::new(vec![None; 8]); }
fn err_sources_of(f: Fmt) -> std::rc::Rc<Vec<(String, String, String, String)>> { ERR_SRC_CACHE.with(|c| { let mut c = c.borrow_mut(); let k = f as usize; if c[k].is_none() { c[k] = Some(std::rc::Rc::new(err_sources(f))); } c[k].clone().unwrap() }) }
/// error document number `j` of format `f`: source j / 8 with long token j % 8
fn err_doc(f: Fmt, j: usize) -> (Vec<u8>, String) {
    let srcs = err_sources_of(f); let si = (j / 8) % srcs.len(); let (pre, unit, post, what) = &srcs[si];
    let (pad, c, reps) = filler_of(si, j % 8);
    (format!("{pre}{}{post}", unit.replace(HOLE, &filler_text(pad, c, reps))).into_bytes(), format!("{what} by {pad} letter(s) a followed by {reps} times U+{:04X}", c as u32))
}

const RDF: &str = "http://www.w3.org/1999/02/22-rdf-syntax-ns#";
const XSD: &str = "http://www.w3.org/2001/XMLSchema#";
const VOCAB_RDF: [&str; 36] = ["type", "langString", "dirLangString", "nil", "first", "rest", "List", "Property", "Statement", "subject", "predicate", "object", "value", "_1", "li", "HTML", "XMLLiteral", "JSON", "Description", "RDF", "about", "ID", "nodeID", "datatype", "resource", "parseType", "Bag", "Seq", "Alt", "direction", "language", "aboutEach", "bagID", "PlainLiteral", "CompoundLiteral", ""];
const VOCAB_XSD: [&str; 10] = ["string", "integer", "boolean", "decimal", "double", "float", "anyURI", "dateTime", "langString", ""];
const VOCAB_OTHER: [&str; 11] = ["https://www.w3.org/ns/i18n#en-us_rtl", "https://www.w3.org/ns/i18n#_ltr", "http://www.w3.org/2000/01/rdf-schema#Literal", "http://www.w3.org/2002/07/owl#sameAs", "http://www.w3.org/1999/02/22-rdf-syntax-ns#langstring", "HTTP://www.w3.org/1999/02/22-rdf-syntax-ns#langString", "http://www.w3.org/1999/02/22-rdf-syntax-ns#langString#", "http://www.w3.org/1999/02/22-rdf-syntax-ns#lang%53tring", "https://www.w3.org/1999/02/22-rdf-syntax-ns#langString", "http://www.w3.org/2001/XMLSchema#String", "http://www.w3.org/1999/02/22-rdf-syntax-ns"];
const NVOCAB: usize = 36 + 10 + 11;
const NVFORM: usize = 4;
/// rdf:type, langString, dirLangString, nil, first, _1, li, XMLLiteral, JSON, the rdf: namespace itself, xsd:string, xsd:integer, the xsd: namespace, an i18n datatype, a percent-encoded near miss
const KEY_VOCAB: [usize; 15] = [0, 1, 2, 3, 4, 13, 14, 16, 17, 35, 36, 37, 45, 46, 53];
fn vocab_iri(k: usize) -> String { let k = k % NVOCAB; if k < 36 { format!("{RDF}{}", VOCAB_RDF[k]) } else if k < 46 { format!("{XSD}{}", VOCAB_XSD[k - 36]) } else { VOCAB_OTHER[k - 46].to_string() } }
/// namespace and local part (split after the last '#' or '/'); the flag tells whether the local part can be written as an ASCII NCName / PN_LOCAL
fn split_iri(v: &str) -> (String, String, bool) { let at = v.rfind(|c| c == '#' || c == '/').map(|i| i + 1).unwrap_or(v.len()); let (ns, l) = v.split_at(at); let plain = !l.is_empty() && l.chars().all(|c| c.is_ascii_alphanumeric() || c == '_' || c == '-') && !l.starts_with('-') && !l.chars().next().unwrap().is_ascii_digit(); (ns.to_string(), l.to_string(), plain) }
/// vocabulary document number `j` of format `f`: IRI j % NVOCAB in every position, in form (j / NVOCAB) % NVFORM
fn voc_doc(f: Fmt, j: usize) -> (String, String) {
    let v = vocab_iri(j); let form = (j / NVOCAB) % NVFORM; let (ns, local, plain) = split_iri(&v);
    let mut o = String::new();
    let what = format!("the IRI <{v}> in every position, form {form}");
    match f {
        Fmt::Nt | Fmt::Nq | Fmt::Gnq => {
            // form 1: the last character of the IRI as a numeric escape; form 2: long UCHAR escape of its first character
            let w = match form { 1 if !v.is_empty() => { let c = v.chars().last().unwrap(); format!("{}\\u{:04X}", &v[..v.len() - c.len_utf8()], c as u32) } 2 => { let c = v.chars().next().unwrap(); format!("\\U{:08X}{}", c as u32, &v[c.len_utf8()..]) } _ => v.clone() };
            let gn = |k: usize| if f == Fmt::Nt { String::new() } else if k % 2 == 0 { format!(" <{w}>") } else { String::new() };
            o.push_str(&format!("<{w}> <http://e/p> <http://e/o>{} .\n<http://e/s> <{w}> <http://e/o>{} .\n<http://e/s> <http://e/p> <{w}>{} .\n", gn(1), gn(0), gn(1)));
            o.push_str(&format!("<http://e/s> <http://e/p> \"chat\"^^<{w}>{} .\n<http://e/s> <http://e/p> \"\"^^<{w}>{} .\n<http://e/s> <http://e/p> \"chat\"@en{} .\n<http://e/s> <http://e/p> \"chat\"{} .\n", gn(0), gn(1), gn(0), gn(1)));
            o.push_str(&format!("<{w}> <{w}> <{w}>{} .\n_:b <{w}> \"1\"^^<{w}>{} .\n<< <{w}> <{w}> \"x\"^^<{w}> >> <{w}> << <{w}> <{w}> <{w}> >>{} .\n", gn(0), gn(0), gn(0)));
            if f == Fmt::Gnq { o.push_str(&format!("\"s\"^^<{w}> \"p\"^^<{w}> \"o\"^^<{w}> \"g\"^^<{w}> .\n\"s\"@en \"p\"@en \"o\"@en \"g\"@en .\n<http://e/s> <http://e/p> \"\"^^<> .\n?v <{w}> ?w <{w}> .\n")); }
            // legal but unusual spellings: empty and long language-tagged strings, every ECHAR / UCHAR, an empty lexical form for a numeric datatype, unusual labels, scheme-only IRIs
            if j % NVOCAB < 3 { o.push_str("<http://e/s> <http://e/p> \"\"@en .\n<http://e/s> <http://e/p> \"x\"@EN-Latn-US-x-private .\n<http://e/s> <http://e/p> \"\\t\\b\\n\\r\\f\\\"\\'\\\\\\u00e9\\U0001F600\" .\n<http://e/s> <http://e/p> \"\"^^<http://www.w3.org/2001/XMLSchema#integer> .\n_:0 <http://e/p> _:a.b-c_d .\n<a:> <a:b> <a:?#> .\n"); }
            if form == 3 { o.push_str(&format!("<http://e/s> <http://e/p> \"chat\"@en^^<{w}> .\n")); }
        }
        Fmt::Turtle | Fmt::Trig | Fmt::Gtrig => {
            o.push_str(&format!("@prefix rdf: <{RDF}> .\n@prefix xsd: <{XSD}> .\n@prefix v: <{ns}> .\n"));
            // form 0: prefixed names; form 1: IRIREFs; form 2: relative to @base; form 3: IRIREFs and the forms that may be errors
            let t: String = match form { 0 if plain || local.is_empty() => format!("v:{local}"), 2 => { o.push_str(&format!("@base <{ns}> .\n")); if local.is_empty() { "<>".to_string() } else if ns.ends_with('#') { format!("<#{local}>") } else { format!("<{local}>") } } _ => format!("<{v}>") };
            let open = if f == Fmt::Turtle { "" } else if form % 2 == 0 { "GRAPH <http://e/g> {\n" } else { "{\n" };
            let named = if f == Fmt::Turtle { String::new() } else { format!("{t} {{ {t} {t} {t} , \"in graph\"^^{t} }}\n") };
            o.push_str(open);
            o.push_str(&format!("{t} {t} {t} , \"chat\"^^{t} , \"\"^^{t} , \"chat\"@en , 'x'^^{t} , \"\"\"long\"\"\"^^{t} , \"chat\" , 1 , 1.5 , 1e0 , true ;\n  a {t} ;\n  <http://e/p> ( {t} \"a\"^^{t} ) , [ {t} {t} ; {t} \"b\"^^{t} ] , << {t} {t} \"q\"^^{t} >> .\n"));
            o.push_str(&format!("<http://e/s> {t} {t} {{| {t} \"ann\"^^{t} |}} .\n"));
            if f == Fmt::Gtrig { o.push_str(&format!("\"s\"^^{t} \"p\"^^{t} \"o\"^^{t} .\n?v {t} \"x\"@en .\n")); }
            if !open.is_empty() { o.push_str("}\n"); }
            o.push_str(&named);
            // legal but unusual spellings: prefixes named like keywords, the empty prefix alone, local names made of ':' / digits / escapes, signed and
            // truncated numbers, empty long strings, quotes inside long strings, every ECHAR / UCHAR, long language tags
            if j % NVOCAB < 3 { o.push_str("@prefix a: <http://e/a#> .\n@prefix true: <http://e/t#> .\n@prefix prefix: <http://e/p#> .\n@prefix : <http://e/empty#> .\na:a a a:a , true:true , prefix:base , : , a:: , a:%41 , a:1 , a:a.b , a:\\~ .\n");
            o.push_str(": : +1 , -0 , 00 , .5 , -.5e-3 , 1.0 , false , \"\"\"\"\"\" , '''''' , \"\"\"a\"b\"\"c\"\"\" , 'x'@EN-Latn-US-x-private , \"\"@en , \"\\t\\b\\n\\r\\f\\\"\\'\\\\\\u00e9\\U0001F600\" .\n: : 1.E3 , 1.e-0 .\n"); }
            if form == 3 { o.push_str(&format!("<http://e/s> <http://e/p> \"\"^^<> .\n<http://e/s> <http://e/p> \"chat\"@en^^{t} .\n")); }
        }
        Fmt::Xml => {
            o.push_str(&format!("<?xml version=\"1.0\"?>\n<rdf:RDF xmlns:rdf=\"{RDF}\" xmlns:e=\"http://e/ns#\" xmlns:v=\"{}\">\n", esc_xml(&ns)));
            let a = esc_xml(&v);
            match form {
                0 => o.push_str(&format!(" <rdf:Description rdf:about=\"{a}\">\n  <e:p rdf:resource=\"{a}\"/>\n  <e:p rdf:datatype=\"{a}\">chat</e:p>\n  <e:p rdf:datatype=\"{a}\" xml:lang=\"en\">chat</e:p>\n  <e:p rdf:datatype=\"{a}\"></e:p>\n  <e:p rdf:datatype=\"{a}\"/>\n  <e:p xml:lang=\"en\">chat</e:p>\n  <e:p>chat</e:p>\n  <rdf:type rdf:resource=\"{a}\"/>\n  <e:q rdf:ID=\"r1\" rdf:datatype=\"{a}\">reified</e:q>\n  <e:c rdf:parseType=\"Collection\"><rdf:Description rdf:about=\"{a}\"/></e:c>\n </rdf:Description>\n")),
                1 if plain => o.push_str(&format!(" <rdf:Description rdf:about=\"http://e/s\">\n  <v:{local} rdf:resource=\"{a}\"/>\n  <v:{local} rdf:datatype=\"{a}\">chat</v:{local}>\n  <v:{local} xml:lang=\"en\">chat</v:{local}>\n  <v:{local} rdf:parseType=\"Resource\"><v:{local}>x</v:{local}></v:{local}>\n </rdf:Description>\n")),
                2 if plain => o.push_str(&format!(" <v:{local} rdf:about=\"http://e/typed\"><e:p rdf:datatype=\"{a}\">chat</e:p></v:{local}>\n <rdf:Description><e:p><v:{local}/></e:p></rdf:Description>\n")),
                3 if plain => o.push_str(&format!(" <rdf:Description rdf:about=\"http://e/s2\" v:{local}=\"attribute value\" xml:lang=\"en\"/>\n <rdf:Description rdf:about=\"http://e/s3\"><e:p v:{local}=\"on a property element\"/></rdf:Description>\n")),
                _ => o.push_str(&format!(" <rdf:Description rdf:about=\"{a}\" xml:lang=\"en\"><e:p rdf:datatype=\"{a}\">chat</e:p><e:p>tagged</e:p><e:p rdf:parseType=\"Literal\">chat</e:p><rdf:_1>x</rdf:_1><e:p rdf:parseType=\"Literal\"><e:b xmlns:q=\"http://q/\">x<q:i/></e:b></e:p></rdf:Description>\n <rdf:Description rdf:about=\"{a}\" rdf:_2=\"attribute\"/>\n <rdf:Seq><rdf:li>a</rdf:li><rdf:li rdf:resource=\"{a}\"/><rdf:li rdf:datatype=\"{a}\" xml:lang=\"EN-Latn-US-x-private\">b</rdf:li></rdf:Seq>\n <rdf:Description rdf:about=\"{a}\" xml:lang=\"en\"><e:p xml:lang=\"\">no language</e:p></rdf:Description>\n")),
            }
            o.push_str("</rdf:RDF>\n");
        }
        Fmt::JsonLd => {
            let a = esc_json(&v);
            match form {
                0 => o.push_str(&format!("{{\"@context\": {{\"v\": \"{}\", \"t\": {{\"@id\": \"{a}\"}}, \"typed\": {{\"@id\": \"http://e/typed\", \"@type\": \"{a}\"}}, \"ref\": {{\"@id\": \"http://e/ref\", \"@type\": \"@id\"}}}},\n \"@id\": \"{a}\", \"@type\": \"{a}\",\n \"{a}\": [{{\"@id\": \"{a}\"}}, {{\"@value\": \"chat\", \"@type\": \"{a}\"}}, {{\"@value\": \"\", \"@type\": \"{a}\"}}, {{\"@value\": \"chat\", \"@language\": \"en\"}}, \"chat\", {{\"@list\": [{{\"@id\": \"{a}\"}}, {{\"@value\": \"l\", \"@type\": \"{a}\"}}]}}],\n \"typed\": [\"chat\", 1, true, 1.5], \"v:{}\": 1, \"t\": true, \"ref\": \"{a}\"}}\n", esc_json(&ns), esc_json(&local))),
                1 => o.push_str(&format!("{{\"@id\": \"{a}\", \"@graph\": [{{\"@id\": \"http://e/x\", \"{a}\": [{{\"@id\": \"{a}\"}}, {{\"@value\": 1, \"@type\": \"{a}\"}}, {{\"@value\": true, \"@type\": \"{a}\"}}, {{\"@value\": 1.5, \"@type\": \"{a}\"}}, {{\"@value\": \"v\", \"@type\": \"{a}\", \"@index\": \"i\"}}, {{\"@value\": {{\"k\": [1, null]}}, \"@type\": \"@json\"}}, {{\"@value\": \"v\", \"@language\": \"EN-Latn-US-x-private\"}}, {{\"@value\": null, \"@type\": \"{a}\"}}]}}]}}\n")),
                2 => o.push_str(&format!("{{\"@context\": {{\"@vocab\": \"{}\", \"@base\": \"{}\"}}, \"@id\": \"{}\", \"@type\": \"{}\", \"{}\": [{{\"@value\": \"chat\", \"@type\": \"{}\"}}, {{\"@value\": \"e\", \"@type\": \"\"}}, {{\"@id\": \"\"}}]}}\n", esc_json(&ns), esc_json(&ns), esc_json(&local), esc_json(&local), esc_json(&local), esc_json(&local))),
                _ => o.push_str(&format!("{{\"@id\": \"http://e/s\", \"{a}\": [{{\"@value\": \"ok\", \"@type\": \"{a}\"}}, {{\"@value\": \"chat\", \"@language\": \"en\", \"@type\": \"{a}\"}}]}}\n")),
            }
        }
    }
    (o, what)
}

/// the directed part of round 7: (a) every error source under its four shifts (templates: also under a second character / length),
/// (b) every vocabulary IRI in every form; each through parse(&[u8]) and two other entry points / ways of consuming
fn directed_recipes_r7(thorough: bool) -> (Vec<Recipe>, Vec<Recipe>) {
    let (mut ev, mut vv) = (vec![], vec![]); let mut seed = 0x5EED_7000u64;
    let consumes = [Consume::Collect, Consume::Owned, Consume::Steps, Consume::SinkFail(0), Consume::ForEach, Consume::SinkFail(2)];
    let pick_alts = |f: Fmt, base: bool, k: usize| -> Vec<(Entry, Consume)> {
        let mut es = vec![Entry::Str, Entry::Cursor, Entry::Feed { chunk: 1 + k % 7, cut: None }, Entry::Buffered(1 + k % 5), Entry::FailAt(50 + k % 400)];
        if !base || matches!(f, Fmt::Nt | Fmt::Nq | Fmt::Gnq) { es.extend([Entry::ModStr, Entry::ModBuf, Entry::Default]); }
        if f == Fmt::JsonLd { es.push(Entry::Async); es.push(Entry::Opts((k % 8) as u8)); }
        vec![(es[k % es.len()], consumes[k % consumes.len()]), (es[(k / 2 + 3) % es.len()], consumes[(k / 3 + 1) % consumes.len()])]
    };
    for f in FMTS {
        let srcs = err_sources_of(f); let ntempl = err_templates(f).len();
        for si in 0..srcs.len() { for v in 0..(if si < ntempl || thorough { 8 } else { 4 }) {
            let k = ev.len(); seed += 1; let base = (si + v / 4) % 2 == 0;
            ev.push(Recipe { pf: f, doc: ERR_BASE + si * 8 + v, wrap: 0, tort: None, parser: f, base, alts: if v % 4 == si % 4 || si < ntempl { pick_alts(f, base, k) } else { vec![] }, seed });
        } }
        for j in 0..NVOCAB * NVFORM {
            // quick tier: every IRI in form 0; the other spellings for the IRIs the toolkit itself treats specially
            if !thorough && j / NVOCAB != 0 && !KEY_VOCAB.contains(&(j % NVOCAB)) { continue; }
            let k = vv.len(); seed += 1; let base = (j + j / NVOCAB) % 2 == 0;
            // every IRI in form 0 (and the first IRIs -- rdf:type, rdf:langString, rdf:dirLangString -- in every form) through two more entry points / ways of consuming, the other spellings through one or none
            let mut alts = pick_alts(f, base, k); if !(j / NVOCAB == 0 || j % NVOCAB < 3 || thorough) { alts.truncate(if k % 2 == 0 { 1 } else { 0 }); }
            vv.push(Recipe { pf: f, doc: VOC_BASE + j, wrap: 0, tort: None, parser: f, base, alts, seed });
        }
    }
    (ev, vv)
}
/// the random part of round 7: error and vocabulary documents of any format, wrapped / with difficult characters inserted, given to any parser
fn random_recipe_r7(base: &Rng, k: usize) -> Recipe {
    let mut r = base.fork(6_500_000 + k as u64);
    let pf = FMTS[r.below(8)];
    let doc = if r.chance(3, 5) { ERR_BASE + r.below(err_sources_of(pf).len() * 8) } else { VOC_BASE + r.below(NVOCAB * NVFORM) };
    let wrap = if r.chance(1, 2) { 0 } else { r.below(NWRAP) };
    let tort = if r.chance(1, 2) { None } else { Some(random_tort(&mut r)) };
    let hosts = host_formats(wrap);
    let parser = if !hosts.is_empty() && r.chance(1, 2) { *r.pick(hosts) } else if r.chance(4, 5) { pf } else { FMTS[r.below(8)] };
    let b = r.chance(1, 2);
    let alts = (0..1 + r.below(2)).map(|_| (random_entry(&mut r, parser, b, 600), random_consume(&mut r))).collect();
    Recipe { pf, doc, wrap, tort, parser, base: b, alts, seed: r.next() }
}
/// histories on the documents of round 7: every error template (one shift each, cycling) and a sample of the vocabulary documents under the
/// consuming calls and iterators; JSON-LD also under every loader (a context URL nobody serves is quoted by the loader's own message) and option presets
fn directed_hcases_r7(thorough: bool) -> Vec<HCase> {
    let mut v = vec![];
    let hists = [History { pre: vec![MOp::ForEach(Lv::Stmt), MOp::TryEach(Lv::Item, None)], fin: None }, History { pre: vec![MOp::TrySome(Lv::Item, false), MOp::Hint(Lv::Item)], fin: Some((Fin::Collect, vec![])) }, History { pre: vec![], fin: Some((Fin::MapIter, vec![MOp::ForSome(Lv::Item); 6])) }, History { pre: vec![MOp::TryEach(Lv::Stmt, Some(1))], fin: Some((Fin::AddTo, vec![])) }, History { pre: vec![], fin: Some((Fin::FilterMapIter(1), vec![MOp::ForSome(Lv::Item); 5])) }, History { pre: vec![MOp::ForSome(Lv::Stmt)], fin: Some((Fin::Convert, vec![MOp::TryEach(Lv::Item, None), MOp::TryEach(Lv::Item, None)])) }];
    let entries = [Entry::Slice, Entry::Str, Entry::Cursor, Entry::Feed { chunk: 3, cut: None }, Entry::Buffered(2)];
    let mk = |f: Fmt, doc: usize, k: usize| Recipe { pf: f, doc, wrap: 0, tort: None, parser: f, base: false, alts: vec![], seed: 0x5EED_7700 + k as u64 };
    for f in FMTS {
        let nt = err_templates(f).len();
        for si in 0..nt { let k = v.len();
            let base = if matches!(f, Fmt::Nt | Fmt::Nq | Fmt::Gnq | Fmt::JsonLd) || k % 3 == 0 { None } else { Some(k % BASES.len()) };
            v.push(HCase { f, base, jopts: None, entry: entries[k % entries.len()], doc: HDoc::Poly(Box::new(mk(f, ERR_BASE + si * 8 + (k % 8), k))), hist: hists[k % hists.len()].clone().normalised() });
            if f == Fmt::JsonLd { for (li, loader) in [4u8, 7, 5, 1, 6, 2, 3].iter().enumerate() { if !thorough && li >= 2 && (si + li) % 3 != 0 && si >= 5 { continue; } let k2 = v.len();
                let j = JOpts { loader: *loader, base: if (si + li) % 4 == 0 { ((si + li) % 9) as u8 + 1 } else { 0 }, ctx: if (si + li) % 5 == 0 { (JOpts::NCTX - 2 + (li as u8 % 2)) } else { 0 }, generalized: if li % 2 == 0 { Some(true) } else { None }, policy: (li % 5) as u8, ..JOpts::default() };
                v.push(HCase { f, base: None, jopts: Some(j), entry: [Entry::Slice, Entry::Str, Entry::Async][k2 % 3], doc: HDoc::Poly(Box::new(mk(f, ERR_BASE + si * 8 + (k2 % 8), k2))), hist: hists[k2 % hists.len()].clone().normalised() }); } }
        }
        for j in (0..NVOCAB * NVFORM).filter(|j| thorough || j % NVOCAB < 3 || (j % NVOCAB) % 7 == j / NVOCAB) { let k = v.len();
            let base = if matches!(f, Fmt::Nt | Fmt::Nq | Fmt::Gnq | Fmt::JsonLd) || k % 2 == 0 { None } else { Some(k % BASES.len()) };
            let jopts = if f == Fmt::JsonLd && k % 2 == 1 { Some(JOpts { native: Some(k % 4 == 1), rdf_type: Some(k % 3 == 0), dir: (k % 3) as u8, generalized: if k % 5 == 0 { Some(true) } else { None }, mode: (k % 3) as u8, ..JOpts::default() }) } else { None };
            v.push(HCase { f, base, jopts, entry: entries[k % entries.len()], doc: HDoc::Poly(Box::new(mk(f, VOC_BASE + j, k))), hist: hists[k % hists.len()].clone().normalised() });
        }
    }
    v
}

/// class of a failure description: its text up to the first quoted value, plus the punctuation of that value
/// (failures are kept round-robin over the classes, so that a frequent class cannot crowd out a rare one)
fn class_key(d: &str) -> String {
    let head: String = d.chars().take_while(|c| *c != '"').take(110).collect();
    let quoted: String = d.chars().skip_while(|c| *c != '"').skip(1).take_while(|c| *c != '"').collect();
    let mut sig: Vec<char> = quoted.chars().filter(|c| c.is_ascii_punctuation() || *c == ' ').collect(); sig.sort(); sig.dedup();
    let nonascii = quoted.chars().any(|c| !c.is_ascii());
    format!("{head}|{}{}", sig.into_iter().collect::<String>(), if nonascii { "+" } else { "" })
}
fn retain_diverse(fails: &mut Vec<(String, String)>, cap: usize) {
    let mut exact = std::collections::HashSet::new();
    fails.retain(|f| exact.insert(f.1.clone()));
    let mut rank: std::collections::HashMap<String, usize> = Default::default();
    let mut keyed: Vec<(usize, usize, (String, String))> = fails.drain(..).enumerate().map(|(i, f)| { let k = class_key(&f.1); let n = rank.entry(k).or_insert(0); *n += 1; (*n, i, f) }).collect();
    keyed.sort_by_key(|x| (x.0, x.1));
    keyed.truncate(cap);
    keyed.sort_by_key(|x| x.1);
    fails.extend(keyed.into_iter().map(|x| x.2));
}

fn main() {
    let a = parse_args();
    // subprocess mode: --deep <fmt index> <depth>  (a stack overflow aborts the whole process)
    if a.rest.first().map(|s| s.as_str()) == Some("--deep") {
        let f = FMTS[a.rest[1].parse::<usize>().unwrap()]; let depth: usize = a.rest[2].parse().unwrap();
        let doc = deep_doc(f, depth);
        let h = std::thread::Builder::new().stack_size(2 << 20).spawn(move || { let r = catch_unwind(AssertUnwindSafe(|| run_parser(f, &doc))); match r { Ok((n, bad)) => { println!("deep ok statements={n} complaints={}", bad.len()); 0 } Err(_) => { println!("deep PANIC"); 3 } } }).unwrap();
        std::process::exit(h.join().unwrap_or(4));
    }
    // replay mode: --input <format name> <file>  runs every entry point x every way of consuming on the bytes of the file
    if a.rest.first().map(|s| s.as_str()) == Some("--input") {
        std::panic::set_hook(Box::new(|info| { LAST_PANIC.with(|l| *l.borrow_mut() = format!("{info}").replace('\n', " ")); }));
        if a.rest[1] == "corpus" { for f in FMTS { for k in 0..=NGEN { let d = corpus(f, k, &mut Rng::new(1)); for base in [true, false] { match guarded(f, base, &d, Entry::Slice, Consume::ForEach) { Ok(o) => println!("{f:?} #{k} base={base}: {} statement(s), error {:?}, complaints {:?}", o.n, o.err, o.bad.first()), Err(m) => println!("{f:?} #{k} base={base}: PANICKED {m}") } } if a.rest.len() > 2 { println!("{}", String::from_utf8_lossy(&d)); } } } return; }
        let f = *FMTS.iter().find(|f| format!("{f:?}").eq_ignore_ascii_case(&a.rest[1])).expect("format: Nt Nq Turtle Trig Gnq Gtrig Xml JsonLd");
        let data = std::fs::read(&a.rest[2]).unwrap();
        for base in [true, false] { for e in [Entry::Slice, Entry::Str, Entry::ModStr, Entry::Buffered(1), Entry::Cursor, Entry::Feed { chunk: 1, cut: None }, Entry::FailAt(data.len() / 2), Entry::Async] { for c in [Consume::ForEach, Consume::Owned, Consume::Steps, Consume::SinkFail(0), Consume::Collect] {
            if base && e.uses_default_parser() { continue; }
            match guarded(f, base, &data, e, c) { Ok(o) if o.skipped => {} Ok(o) => println!("{f:?} base={base} {e:?}/{c:?}: {} statement(s), error {:?}, sink error {}, reader failed {}, after the error {:?}, complaints {:?}{}", o.n, o.err, o.sink, o.io_failed, o.after_error, o.bad, if c == Consume::ForEach && e == Entry::Slice { format!("\n    {}", o.stmts.join("\n    ")) } else { String::new() }), Err(m) => println!("{f:?} base={base} {e:?}/{c:?}: PANICKED {m}") }
        } } }
        return;
    }
    // replay mode: --jsonld <base option 0..10> <produce_generalized_rdf 0|1> <file>  runs the JSON-LD parser with these options on the bytes of the file
    if a.rest.first().map(|s| s.as_str()) == Some("--jsonld") {
        std::panic::set_hook(Box::new(|info| { LAST_PANIC.with(|l| *l.borrow_mut() = format!("{info}").replace('\n', " ")); }));
        let j = JOpts { base: a.rest[1].parse().unwrap(), generalized: if a.rest[2] == "1" { Some(true) } else { None }, ..JOpts::default() };
        let data = std::fs::read(&a.rest[3]).unwrap();
        let failed = std::rc::Rc::new(std::cell::Cell::new(false));
        let mut tr = TraceRun { g: j.generalized(), trace: Trace::default() };
        match catch_unwind(AssertUnwindSafe(|| open(Fmt::JsonLd, None, Some(&j), &data, Entry::Slice, &failed, &mut tr))) {
            Ok(_) => { println!("options {}: complete {}, stop {:?}, complaints {:?}", j.describe(), tr.trace.complete, tr.trace.stop, tr.trace.bad); for s in &tr.trace.steps { println!("  {:?} {:?}", s.stmts, s.err); } }
            Err(_) => println!("options {}: PANICKED {}", j.describe(), LAST_PANIC.with(|l| l.borrow().clone())),
        }
        return;
    }
    let t0 = std::time::Instant::now(); let timing = std::env::var("C08_TIMING").is_ok();
    let lap = |what: &str| { if timing { eprintln!("c08 timing: {what} reached after {:.1} s", t0.elapsed().as_secs_f64()); } };
    let mut sum = Summary::default();
    sum.rule = "case = (parser, input) where input is a valid seed document, one of its single-edit mutants (deletion, truncation, byte flip, insertion of a byte), a splice of a format-specific dictionary token (delimiters, escapes, unusual IRIs incl. IPv6 hosts, bad labels/tags, XML/JSON constructs), or invalid UTF-8; plus a directed stream of short inputs (the empty input, every 1-byte input, 2-byte inputs over 28 interesting bytes -- all 65 536 in the thorough tier --, prefixes and repetitions of the UTF-8 byte-order mark, BOM-prefixed valid documents and their truncations) through every parser; plus deep nesting (collections, property lists, quoted triples, XML elements, JSON arrays) in a subprocess on a 2 MiB thread; \
plus (round 4) a polyglot stream and a directed stream: a document (seed, generated from the grammar with non-ASCII characters inside IRIs / labels / tags / names / literals, token soup, random bytes) of any format, wrapped in another syntax (32 wrappers: HTML script data blocks, XML/CDATA envelopes, JSON strings, JSONP, Markdown, HTTP/MIME messages, comments, literals of the other RDF syntaxes, UTF-16, other line ends, BOMs ...), with characters whose case mappings change their length, combining marks, astral and special code points, look-alikes and ill-formed UTF-8 inserted before / inside / after tokens (once, at several places, or saturating the prefix / the payload / the suffix / everything), given to the parser of the embedded format and to the other parsers, through every public entry point (parse on a slice / BufReader of several capacities / Cursor / a reader handing out 1..n bytes at a time or failing after k bytes, parse_str, the module-level functions, Default, JSON-LD async_parse_str and option presets) and every way of consuming the source (for_each, consuming accessors, one for_some call at a time continuing after an error, a failing sink, collect); each run is checked by the property oracle and every entry point must agree with parse(&[u8]); \
plus (round 6) HISTORIES: one source driven by a sequence of calls -- every overridable provided method of Source (try_for_each_item, for_some_item, for_each_item, size_hint_items, filter_items, filter_map_items, map_items) and every method of TripleSource / QuadSource (try_for_some_*, try_for_each_* with sinks failing at the 1st..4th statement, for_some_*, for_each_*, size_hint_*, filter_*, filter_map_*, map_*, to_quads / to_triples, collect_*, add_to_*), the adapters' into_iter -- each called again after the previous call returned Err (source or sink error), after Ok and after exhaustion: every ordered pair of calls and every consuming call after nothing / an error / exhaustion (directed), random sequences (random), on documents of valid and broken units in every order (error first / in the middle / last / only errors / nothing), polyglot inputs and failing readers, for every parser and entry point; the oracle runs on every call (a panic or an invalid term after an error is a failure; tagged [after-error-rio-turtle] for the rio_turtle parsers Turtle, TriG, GTriG, GNQ only when an earlier call had reported an error), every call is compared with what the required method try_for_some_item gives on a fresh source (in Rust and, inside Coq, with the model Source.v of the default methods and adapters); and parser OPTIONS as dimensions of the configuration: a pool of base IRIs (none, with query and fragment, without authority, without hierarchy, IPv6, dot segments, non-ASCII) for Turtle / TriG / GTriG / RDF/XML on documents with relative IRIs, @base directives and xml:base; every with_* of JsonLdOptions (processing mode, base / no base, expand context inline / by IRI / removed, ordered, rdf_direction, produce_generalized_rdf, expansion policy, use_native_types, use_rdf_type, compact_arrays, compact_to_relative, spaces, compact context, every document-loader builder with NoLoader / StaticLoader / in-memory closure / chain loaders) one at a time, each together with produce_generalized_rdf, in named combinations and at random, on JSON-LD documents built from 64 features that the options enable (blank node identifiers as properties directly / through terms / @vocab / @reverse / containers / nesting / scoped contexts, relative-IRI properties and vocabularies, @direction, relative and ill-formed @id / @type / datatypes / blank node labels, @base in the context, in-memory remote contexts and @import, @json, native numbers ...); \
plus (round 7) ERROR PATHS: every parser driven into every kind of error it can report by documents in which one token (IRI, prefix, local name, label, language tag, key, context URL, element / attribute / entity name, text) is a long non-ASCII token -- 100..1000 repeats of a 2-, 3- or 4-byte character behind 0..3 ASCII letters, so that any cut of a message at a byte offset lands inside a character for one of the four shifts (proved: pads_cover_every_cut; evaluated on the real messages inside Coq: family_covers, msg_ok) -- from hand-written templates aimed at each error kind whose message quotes the document and from every broken and valid unit of the history stream with each of its words replaced in turn; the reader's injected I/O failure carries such a message too; EVERY error any stream obtains (and the StreamError around it) is rendered completely -- Display twice, Debug, alternate and padded forms, and every link of its source() chain -- each step under catch_unwind; and LEGAL BUT UNUSUAL TERMS: 57 IRIs of the rdf: / xsd: / i18n vocabularies and near misses in every position of every syntax (subject, predicate, object, graph name, quoted triples, lists, annotations, element / attribute names, prefixed / relative / escaped spellings) and as the explicit datatype of literals ('chat'^^rdf:langString, ''^^xsd:string, the empty datatype IRI, language tag together with a datatype where the syntax allows it and where it does not), through every entry point, way of consuming and history, with datatype() / language_tag() / lexical_form() of every yielded literal compared with the raw literal inside Coq (lit_ok); \
non-trivial = the parser yielded at least one statement from a mutated input (so term validity is actually exercised) or rejected a mutant of a valid document; distinct = distinct (parser, input bytes)".into();
    std::panic::set_hook(Box::new(|info| { LAST_PANIC.with(|l| *l.borrow_mut() = format!("{info}").replace('\n', " ")); }));
    let base = Rng::new(a.seed);
    let mut seen = std::collections::HashSet::new();
    let range: Vec<usize> = match a.only { Some(i) if i >= 1_000_000 => vec![], Some(i) => vec![i], None => (0..a.n).collect() };
    if a.only.is_none() { start_watchdog(a.out.clone(), 600); }
    let profile = if cfg!(debug_assertions) { "dev" } else { "release" };
    for idx in range {
        let mut r = base.fork(idx as u64);
        let f = FMTS[idx % 8];
        let seed = seeds(f)[0].as_bytes().to_vec();
        let mut data = seed.clone();
        let kind = r.below(8);
        let nmut = if kind == 0 { 0 } else { 1 + r.below(2) };
        for _ in 0..nmut { if data.is_empty() { break; } let pos = r.below(data.len()); match kind {
            1 => { data.remove(pos); }
            2 => { data.truncate(pos); }
            3 => { data[pos] ^= 1 << r.below(8); }
            4 => { data.insert(pos, *r.pick(&[b'<', b'>', b'"', b'\\', b' ', b'\n', b'.', b':', b'@', b'_', b'{', b'[', b'(', b'%', b'#', b'&', b'\'', 0u8, 0x80, 0xff])); }
            5 | 6 => { let tok = r.ps(&dictionary(f)); let at = if r.chance(1, 2) { pos } else { // replace the inside of a delimited token
                    pos }; let t = tok.as_bytes(); for (k, b) in t.iter().enumerate() { data.insert(at + k, *b); } }
            _ => { let from = r.below(data.len()); let len = r.below(12).min(data.len() - from); let chunk: Vec<u8> = data[from..from + len].to_vec(); for (k, b) in chunk.iter().enumerate() { data.insert(pos + k, *b); } }
        } }
        let res = catch_unwind(AssertUnwindSafe(|| run_parser(f, &data)));
        let shown = String::from_utf8_lossy(&data).to_string();
        let key = format!("{f:?}|{shown}");
        match res {
            Err(_) => { let msg = LAST_PANIC.with(|l| l.borrow().clone()); let msg: String = msg.chars().take(200).collect();
                sum.oracle_failures.push((idx.to_string(), format!("parser {f:?} PANICKED ({profile} build): {msg}; input {shown:?}"))); sum.bump(&format!("{f:?}:panic")); }
            Ok((n, bad)) => {
                if !bad.is_empty() { sum.oracle_failures.push((idx.to_string(), format!("parser {f:?} ({profile} build) yielded an invalid term: {}; input {shown:?}", bad[0]))); }
                sum.bump(&format!("{f:?}:{}", if n > 0 { "yielded" } else { "rejected-or-empty" }));
                if seen.insert(key) && ((n > 0 && nmut > 0) || (n == 0 && nmut > 0)) { sum.distinct_nontrivial += 1; }
                if sum.samples.len() < 4 && n > 0 && nmut > 0 { sum.samples.push(format!("case {idx}: {f:?} mutant kind {kind}: {} statements from {:?}", n, shown.chars().take(160).collect::<String>())); }
            }
        }
        if a.only.is_some() { println!("CASE {idx}: {f:?} kind {kind} input {shown:?}"); }
        sum.evaluations += 1;
    }
    // ---------- short inputs and byte-order marks (directed stream; every parser) ----------
    // every 1-byte input; 2-byte inputs over a set of interesting bytes (all 65 536 in the thorough tier);
    // prefixes of a UTF-8 byte-order mark; BOM-prefixed valid documents and all their short truncations
    if a.only.is_none() {
        let mut inputs: Vec<Vec<u8>> = vec![vec![]];
        for b in 0..=255u8 { inputs.push(vec![b]); }
        let interesting: Vec<u8> = if a.n >= 20000 { (0..=255u8).collect() } else { vec![0x00, 0x09, 0x0A, 0x0D, 0x20, b'"', b'#', b'<', b'>', b'@', b'[', b'{', b'_', b':', b'a', b'1', b'\\', 0x7F, 0x80, 0xBB, 0xBF, 0xC2, 0xE0, 0xEF, 0xF0, 0xF4, 0xFE, 0xFF] };
        for x in &interesting { for y in &interesting { inputs.push(vec![*x, *y]); } }
        for tail in [&b""[..], b"\xBF", b"\xBB", b"\xBB\xBF", b"\xBB\xBF\xEF", b"\xBB\xBF\xEF\xBB", b"\xBB\xBF\xEF\xBB\xBF", b"\xBF\xBB", b"\xBB\xBF ", b"\xBB\xBF\n", b"\xBB\xBF{}", b"\xBB\xBF[]", b"\xBB\xBF<", b"\xBB\xBF#"] { let mut v = vec![0xEFu8]; v.extend_from_slice(tail); inputs.push(v); }
        for (k, data) in inputs.iter().enumerate() { for f in FMTS {
            let res = catch_unwind(AssertUnwindSafe(|| run_parser(f, data)));
            sum.evaluations += 1; sum.bump(&format!("short:{f:?}"));
            match res {
                Err(_) => { let msg = LAST_PANIC.with(|l| l.borrow().clone()); let msg: String = msg.chars().take(200).collect();
                    sum.oracle_failures.push((format!("short-{k}"), format!("parser {f:?} PANICKED ({profile} build) on the {}-byte input {data:02x?}: {msg}", data.len()))); }
                Ok((_, bad)) => { if !bad.is_empty() { sum.oracle_failures.push((format!("short-{k}"), format!("parser {f:?} ({profile} build) yielded an invalid term: {}; input bytes {data:02x?}", bad[0]))); } if k % 97 == 0 { sum.distinct_nontrivial += 1; } }
            }
        } }
        for f in FMTS {
            let mut doc = vec![0xEFu8, 0xBB, 0xBF]; doc.extend_from_slice(seeds(f)[0].as_bytes());
            let mut cuts: Vec<usize> = (0..doc.len().min(48)).collect(); let mut c = 48; while c < doc.len() { cuts.push(c); c += 5; } cuts.push(doc.len());
            for cut in cuts {
                let data = &doc[..cut];
                let res = catch_unwind(AssertUnwindSafe(|| run_parser(f, data)));
                sum.evaluations += 1; sum.bump(&format!("bom-truncation:{f:?}"));
                match res {
                    Err(_) => { let msg = LAST_PANIC.with(|l| l.borrow().clone()); let msg: String = msg.chars().take(200).collect();
                        sum.oracle_failures.push((format!("bom-{f:?}-{cut}"), format!("parser {f:?} PANICKED ({profile} build) on a BOM-prefixed document truncated to {cut} bytes: {msg}"))); }
                    Ok((n, bad)) => { if !bad.is_empty() { sum.oracle_failures.push((format!("bom-{f:?}-{cut}"), format!("parser {f:?} ({profile} build) yielded an invalid term: {}; BOM-prefixed document truncated to {cut} bytes", bad[0]))); } if n > 0 { sum.distinct_nontrivial += 1; } }
                }
            }
        }
    }
    lap("round 4");
    // ---------- round 4: polyglot / wrapped inputs, Unicode at every position class, every entry point ----------
    let thorough = a.n >= 20000;
    let mut utf8_cases: Vec<(usize, String)> = vec![];
    {
        let mut cx = RunCtx { sum: &mut sum, profile, verbose: a.only.is_some(), utf8_cases: vec![], utf8_budget: if profile == "dev" { if thorough { 6000 } else { 1200 } } else { 0 } };
        let directed = directed_recipes(thorough);
        let npoly = if thorough { (a.n / 4).min(150_000) } else { a.n / 2 };
        match a.only {
            Some(i) if i >= 4_000_000 => {}
            Some(i) if i >= 3_000_000 => { if let Some(rc) = directed.get(i - 3_000_000) { run_recipe(i, rc, &mut cx); } }
            Some(i) if i >= 2_000_000 => { run_recipe(i, &random_recipe(&base, i - 2_000_000), &mut cx); }
            Some(_) => {}
            None => {
                for k in 0..npoly { run_recipe(2_000_000 + k, &random_recipe(&base, k), &mut cx); }
                for (j, rc) in directed.iter().enumerate() { run_recipe(3_000_000 + j, rc, &mut cx); }
            }
        }
        utf8_cases = std::mem::take(&mut cx.utf8_cases);
    }
    lap("round 6");
    // ---------- round 6: histories (every way of driving a source, again after Err / Ok / exhaustion) and parser options ----------
    let mut hist_cases: Vec<(usize, String)> = vec![];
    {
        let mut cx = HistCtx { sum: &mut sum, profile, verbose: a.only.is_some(), coq_cases: vec![], coq_budget: if profile == "dev" { if thorough { 20_000 } else { 4000 } } else { 0 } };
        let nh = if thorough { (a.n / 8).min(60_000) } else { a.n / 3 };
        match a.only {
            Some(i) if i >= 6_000_000 => {}
            Some(i) if i >= 5_000_000 => { let mut d = directed_hcases(thorough); d.extend(directed_hcases_r7(thorough)); if let Some(hc) = d.get(i - 5_000_000) { run_hcase(i, hc, &mut cx); } }
            Some(i) if i >= 4_000_000 => run_hcase(i, &random_hcase(&base, i - 4_000_000), &mut cx),
            Some(_) => {}
            None => {
                for k in 0..nh { run_hcase(4_000_000 + k, &random_hcase(&base, k), &mut cx); }
                let mut d = directed_hcases(thorough); d.extend(directed_hcases_r7(thorough));
                for (j, hc) in d.iter().enumerate() { run_hcase(5_000_000 + j, hc, &mut cx); }
            }
        }
        hist_cases = std::mem::take(&mut cx.coq_cases);
    }
    lap("round 7");
    // ---------- round 7: error paths (long non-ASCII tokens in every error message, every error rendered) and legal-but-unusual terms ----------
    let mut r7_cases: Vec<(usize, String)> = vec![];
    {
        let mut cx = RunCtx { sum: &mut sum, profile, verbose: a.only.is_some(), utf8_cases: vec![], utf8_budget: 0 };
        let (ev, vv) = directed_recipes_r7(thorough);
        let nr7 = if thorough { (a.n / 10).min(40_000) } else { a.n / 6 };
        match a.only {
            Some(i) if i >= 8_000_000 => {}
            Some(i) if i >= 7_000_000 => { if let Some(rc) = vv.get(i - 7_000_000) { run_recipe(i, rc, &mut cx); } }
            Some(i) if i >= 6_500_000 => run_recipe(i, &random_recipe_r7(&base, i - 6_500_000), &mut cx),
            Some(i) if i >= 6_000_000 => { if let Some(rc) = ev.get(i - 6_000_000) { run_recipe(i, rc, &mut cx); } }
            Some(_) => {}
            None => {
                for (j, rc) in ev.iter().enumerate() { run_recipe(6_000_000 + j, rc, &mut cx); }
                lap("round 7 random");
                for k in 0..nr7 { run_recipe(6_500_000 + k, &random_recipe_r7(&base, k), &mut cx); }
                lap("round 7 vocabulary");
                LIT_CASES.with(|c| c.borrow_mut().0 = profile == "dev");
                for (j, rc) in vv.iter().enumerate() { run_recipe(7_000_000 + j, rc, &mut cx); }
                LIT_CASES.with(|c| c.borrow_mut().0 = false);
            }
        }
        lap("round 7 Coq cases");
        if a.only.is_none() && profile == "dev" {
            // the accessors of the literals the parsers yielded against the model (Literal.v)
            for (k, c) in LIT_CASES.with(|c| std::mem::take(&mut c.borrow_mut().1)).into_iter().enumerate() { r7_cases.push((8_000_000 + k, c)); }
            sum.extra.push(("coq_literal_cases".into(), r7_cases.len().to_string()));
            // the messages of one error document under its four shifts: str::is_char_boundary against the model, and every cut offset inside
            // the long token falls inside a character for one of the shifts (Messages.v); a bounded number of families of bounded size
            let mut nfam = 0usize;
            for f in FMTS { let srcs = err_sources_of(f); let mut mine = 0usize;
                for si in 0..srcs.len() {
                    if mine >= 10 { break; }
                    let (_, c, reps) = filler_of(si, 0); if reps > 150 { continue; }
                    let msgs: Vec<String> = (0..4).filter_map(|v| { let (d, _) = err_doc(f, si * 8 + v); guarded(f, si % 2 == 0, &d, Entry::Slice, Consume::ForEach).ok().and_then(|o| o.err_full) }).collect();
                    if msgs.len() != 4 || msgs.iter().any(|m| m.len() > 760) { continue; }
                    let Some(start) = msgs[0].find(&filler_text(0, c, reps)) else { continue; };
                    if !(0..4).all(|p| msgs[p].len() >= start && msgs[p].is_char_boundary(start) && msgs[p][..start] == msgs[0][..start] && msgs[p][start..].starts_with(&filler_text(p, c, reps))) { continue; }
                    let (lo, hi) = (start + 4, start + c.len_utf8() * reps);
                    r7_cases.push((8_100_000 + nfam, format!("family_covers [{}] {lo} {hi}", msgs.iter().map(|m| coq_bytes(m.as_bytes())).collect::<Vec<_>>().join("; "))));
                    let m = &msgs[si % 4]; let nb: Vec<String> = (0..m.len() + 2).filter(|i| !m.is_char_boundary(*i)).map(|i| i.to_string()).collect();
                    r7_cases.push((8_200_000 + nfam, format!("msg_ok {} {} 0 {} [{}]", coq_bytes(m.as_bytes()), coq_str(m), m.len() + 2, nb.join("; "))));
                    nfam += 1; mine += 1; sum.bump(&format!("error-message-family:{f:?}"));
                }
            }
            sum.extra.push(("coq_message_families".into(), nfam.to_string()));
        }
        let st = RENDER_STAT.with(|s| *s.borrow());
        sum.extra.push(("errors_rendered".into(), st[0].to_string())); sum.extra.push(("errors_rendered_long_non_ascii".into(), st[1].to_string())); sum.extra.push(("longest_error_message_bytes".into(), st[2].to_string())); sum.extra.push(("source_chain_links_rendered".into(), st[3].to_string()));
    }
    lap("validators");
    // ---------- validators vs the regenerated regexes (evaluated inside Coq) ----------
    // strings over the boundary code points of every class (each range end and its neighbours)
    let mut cases: Vec<(usize, String)> = vec![];
    if a.only.is_none() && profile == "dev" {
        let bounds: Vec<u32> = { let ends = [0x2Du32, 0x2E, 0x30, 0x39, 0x3A, 0x41, 0x5A, 0x5F, 0x61, 0x7A, 0xB7, 0xC0, 0xD6, 0xD7, 0xD8, 0xF6, 0xF7, 0xF8, 0x2FF, 0x300, 0x36F, 0x370, 0x37D, 0x37E, 0x37F, 0x1FFF, 0x2000, 0x200C, 0x200D, 0x203F, 0x2040, 0x2070, 0x218F, 0x2C00, 0x2FEF, 0x3001, 0xD7FF, 0xF900, 0xFDCF, 0xFDF0, 0xFFFD, 0xFFFE, 0x10000, 0xEFFFF, 0xF0000];
            let mut v: Vec<u32> = vec![]; for e in ends { for d in [-1i64, 0, 1] { let c = e as i64 + d; if c >= 0 { v.push(c as u32) } } } v.sort(); v.dedup(); v };
        let chars: Vec<char> = bounds.iter().filter_map(|c| char::from_u32(*c)).collect();
        let nval = (a.n / 4).max(200).min(3000);
        for k in 0..nval {
            let mut r = base.fork(1_000_000 + k as u64);
            let len = r.below(5);
            let mut st = String::new();
            if r.chance(2, 3) { st.push(*r.pick(&['a', 'Z', '0', '_', 'é', '1'])); }
            for _ in 0..len { st.push(if r.chance(1, 2) { *r.pick(&chars) } else { *r.pick(&['a', '.', '-', '9', '_', ':', 'B', '·']) }); }
            let (b, v, t) = (BnodeId::new(st.as_str()).is_ok(), VarName::new(st.as_str()).is_ok(), LanguageTag::new(st.as_str()).is_ok());
            cases.push((k, format!("val3_ok {} {} {} {}", coq_str(&st), coq_bool(b), coq_bool(v), coq_bool(t))));
            sum.bump(&format!("validators:{}{}{}", b as u8, v as u8, t as u8));
            sum.evaluations += 1;
        }
        // the same on strings over the round-4 alphabets (characters whose case mappings change length, combining marks,
        // astral and special code points, look-alikes of delimiters) and on every label / tag / name of the document generator
        let mut alpha: Vec<char> = vec![]; alpha.extend(CASE_LEN); alpha.extend(COMBINING); alpha.extend(ASTRAL); alpha.extend(SPECIALS); alpha.extend(LOOKALIKE);
        let mut strings: Vec<String> = vec![];
        for p in [&Pools::LABELS[..], &Pools::BAD_LABELS[..], &Pools::TAGS[..], &Pools::BAD_TAGS[..], &Pools::VARS[..], &Pools::NCNAMES[..], &Pools::PREFIXES[..]] { strings.extend(p.iter().map(|x| x.to_string())); }
        for k in 0..nval / 2 { let mut r = base.fork(1_500_000 + k as u64); let mut st = String::new(); for _ in 0..1 + r.below(5) { st.push(if r.chance(1, 2) { *r.pick(&alpha) } else { *r.pick(&['a', '.', '-', '9', '_', 'B', 'e', 'n', 'x']) }); } strings.push(st); }
        for (k, st) in strings.iter().enumerate() {
            watch(1_500_000 + k as u64);
            let (b, v, t) = (BnodeId::new(st.as_str()).is_ok(), VarName::new(st.as_str()).is_ok(), LanguageTag::new(st.as_str()).is_ok());
            cases.push((1_500_000 + k, format!("val3_ok {} {} {} {}", coq_str(st), coq_bool(b), coq_bool(v), coq_bool(t))));
            sum.bump(&format!("validators-unicode:{}{}{}", b as u8, v as u8, t as u8));
            sum.evaluations += 1;
        }
        cases.extend(utf8_cases.drain(..));
        cases.extend(hist_cases.drain(..));
        cases.extend(r7_cases.drain(..));
    }
    lap("deep nesting");
    // deep nesting, each in a subprocess
    if a.only.is_none() {
        let exe = std::env::current_exe().unwrap();
        let depths: &[usize] = if a.n >= 20000 { &[1000, 10_000, 100_000, 100_001, 100_002] } else { &[1000, 20_000, 20_001, 20_002] };
        for (fi, f) in FMTS.iter().enumerate() { for d in depths {
            watch(9_000_000 + (fi * 100) as u64 + *d as u64 % 100);
            let out = std::process::Command::new(&exe).args(["--deep", &fi.to_string(), &d.to_string()]).output().unwrap();
            sum.evaluations += 1; sum.bump(&format!("deep:{f:?}"));
            if !out.status.success() { sum.oracle_failures.push((format!("deep-{f:?}-{d}"), format!("parser {f:?} ({profile} build) did not survive nesting depth {d} on a 2 MiB stack: exit status {:?} ({})", out.status.code(), String::from_utf8_lossy(&out.stdout).trim()))); }
            else { sum.distinct_nontrivial += 1; }
        } }
        // de-duplicate failures by their first 120 characters of description so that the report stays readable
        // (round 4: exact duplicates are dropped and the rest is kept round-robin over the failure classes, so that a
        // frequent class cannot crowd out a rare one)
        retain_diverse(&mut sum.oracle_failures, 400);
        std::fs::create_dir_all(&a.out).unwrap();
        if !cases.is_empty() { sum.shards = write_shards(&a.out, "From Sophia.C08 Require Import Model.", &cases, a.shards); sum.extra.push(("coq_cases".into(), cases.len().to_string())); }
        std::fs::write(format!("{}/summary.json", a.out), sum.to_json()).unwrap();
    }
    lap("the end");
    println!("c08 ({profile}): {} cases, {} distinct non-trivial, {} oracle failures", sum.evaluations, sum.distinct_nontrivial, sum.oracle_failures.len());
    for f in sum.oracle_failures.iter().take(12) { println!("  FAIL {}", f.1.chars().take(300).collect::<String>()); }
}
