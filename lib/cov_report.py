#!/usr/bin/env python3
"""usage: lib/cov_report.py [Cxx ...]   -- after lib/coverage.sh: for each property, the lines of its ANCHORED files
(properties.jsonl anchors.files) that none of the property's harness binaries executed in a quick-tier run."""
import json, os, re, sys
ROOT = os.path.dirname(os.path.dirname(os.path.abspath(__file__)))
sys.path.insert(0, os.path.join(ROOT, "lib"))
import props

def load(binname):
    p = os.path.join(ROOT, "build", "cov", binname + ".uncovered")
    res, cur = {}, None
    if not os.path.exists(p):
        return None
    for line in open(p, errors="replace"):
        m = re.match(r"^== (/repo/\S+): (\d+) uncovered of (\d+)", line)
        if m:
            cur = m.group(1); res[cur] = dict(total=int(m.group(3)), lines={}); continue
        m = re.match(r"^\s+(\d+)\| (.*)$", line)
        if m and cur:
            res[cur]["lines"][int(m.group(1))] = m.group(2)
    return res

def covered_files(binname):
    """files that appear in the llvm-cov report at all (instrumented in this binary)"""
    p = os.path.join(ROOT, "build", "cov", binname + ".txt")
    s = set()
    if os.path.exists(p):
        for line in open(p, errors="replace"):
            m = re.match(r"^(\S+\.rs)\s", line)
            if m:
                s.add(m.group(1))
    return s

want = sys.argv[1:]
for l in open(os.path.join(ROOT, "properties.jsonl")):
    p = json.loads(l)
    pid = p["id"]
    if want and pid not in want:
        continue
    bins = [r["bin"] for r in props.PROPS[pid].get("runs", [])]
    data = [load(b) for b in bins]
    if any(d is None for d in data):
        print("## %s: no coverage data for %s" % (pid, bins)); continue
    rep = [covered_files(b) for b in bins]
    print("## %s (bins %s)" % (pid, " ".join(bins)))
    for f in p["anchors"]["files"]:
        full = "/repo/" + f
        seen = any(any(x.endswith(f) for x in r) for r in rep)
        if not seen:
            print("  %-45s NOT INSTRUMENTED in any harness binary (no generic instantiation / not linked)" % f); continue
        # uncovered in every bin
        common = None
        for d in data:
            ls = set(d.get(full, {}).get("lines", {}).keys()) if full in d else set()
            common = ls if common is None else (common & ls)
        if not common:
            print("  %-45s fully covered" % f); continue
        src = {}
        for d in data:
            src.update(d.get(full, {}).get("lines", {}))
        print("  %-45s %d lines never executed:" % (f, len(common)))
        for ln in sorted(common):
            print("      %5d| %s" % (ln, src[ln][:140]))
