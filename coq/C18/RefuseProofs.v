(* C18/RefuseProofs.v -- theorems about C18/Refuse.v: the grammar-level statement of what must be
   refused agrees with the transcription of the serializer (Model.v: split_iri, check_pred,
   guard_format, collect, serialize) *)
From Sophia.C18 Require Import Model Proofs Refuse.

(* ------------------------------------------------------------------------------------------- *)
(* A. writable = "ns ++ local with ns non-empty and local an NCName"                            *)
(* ------------------------------------------------------------------------------------------- *)
Lemma writable_from_spec pre p :
  writable_from pre p = true <->
  exists a b, p = a ++ b /\ (pre = true \/ a <> []) /\ is_ncname b = true.
Proof.
  revert pre. induction p as [|c r IH]; intros pre.
  - cbn [writable_from]. split; [discriminate|].
    intros (a & b & H & _ & Hb). symmetry in H. apply app_eq_nil in H as [_ ->]. discriminate.
  - cbn [writable_from]. rewrite orb_true_iff, andb_true_iff. split.
    + intros [[Hp Hn]|H].
      * exists [], (c :: r). split; [reflexivity|]. split; [left; exact Hp|exact Hn].
      * apply IH in H as (a & b & -> & _ & Hb). exists (c :: a), b. split; [reflexivity|].
        split; [right; discriminate|exact Hb].
    + intros (a & b & H & Hpre & Hb). destruct a as [|x a].
      * left. cbn [app] in H. subst b. destruct Hpre as [Hpre|Hpre]; [auto|congruence].
      * right. cbn [app] in H. injection H as _ ->. apply IH. exists a, b.
        split; [reflexivity|]. split; [left; reflexivity|exact Hb].
Qed.

(* THEOREM: [writable] is exactly "the IRI is a non-empty namespace name followed by an NCName" *)
Theorem writable_spec p :
  writable p = true <-> exists ns loc, p = ns ++ loc /\ ns <> [] /\ is_ncname loc = true.
Proof.
  unfold writable. rewrite writable_from_spec. split; intros (a & b & H & Hpre & Hb); exists a, b.
  - split; [exact H|]. split; [|exact Hb]. destruct Hpre as [Hpre|Hpre]; [discriminate|exact Hpre].
  - split; [exact H|]. split; [right; exact Hpre|exact Hb].
Qed.

Lemma forallb_not_brk_no_brk l : forallb (fun x => negb (brk x)) l = true -> existsb brk l = false.
Proof.
  induction l as [|x l IH]; [reflexivity|]. cbn [forallb existsb]. intros H.
  apply andb_true_iff in H as [A B]. apply negb_true_iff in A. rewrite A, (IH B). reflexivity.
Qed.

(* Rio's split (has_local) finds a local name only where the grammar allows one ... *)
Theorem has_local_writable p : has_local p = true -> writable p = true.
Proof.
  unfold has_local. intros H. apply writable_spec.
  exists (fst (split_iri p)), (snd (split_iri p)). split; [symmetry; apply split_concat|].
  destruct (split_local p) as [E|E]; [rewrite E in H; discriminate|]. split; [|exact E].
  (* the namespace part is not empty: otherwise the whole IRI is an NCName, without a character to split at *)
  intros Hnil. pose proof (split_concat p) as Hc. rewrite Hnil in Hc. cbn [app] in Hc.
  rewrite Hc in E. destruct (ncname_chars p E) as (c & r & Hp & _ & Hall).
  revert H. unfold split_iri.
  pose proof (span_app (fun c => negb (brk c)) (rev p)) as Happ.
  pose proof (span_snd_head (fun c => negb (brk c)) (rev p)) as Hhd.
  destruct (span (fun c => negb (brk c)) (rev p)) as [suf pre]. cbn [fst snd] in *.
  destruct pre as [|b pre']; [cbn [snd]; discriminate|].
  specialize (Hhd b pre' eq_refl). apply negb_false_iff in Hhd.
  assert (Hin : In b p). { apply in_rev. rewrite <- Happ. apply in_or_app. right. left. reflexivity. }
  apply forallb_not_brk_no_brk in Hall.
  assert (existsb brk p = true) by (apply existsb_exists; exists b; auto). congruence.
Qed.

(* ... and, on an IRI with a character to split at (any absolute IRI: it has a ':'), finds one whenever the grammar allows one *)
Theorem writable_has_local p : existsb brk p = true -> writable p = true -> has_local p = true.
Proof.
  intros Hb Hw. apply writable_spec in Hw as (a & b & Hp & _ & Hn).
  unfold has_local. destruct (snd (split_iri p)) eqn:E; [|reflexivity].
  rewrite (split_complete p Hb E a b Hp) in Hn. discriminate.
Qed.

Theorem check_pred_grammar p : has 58 p = true -> check_pred p = negb (unwritable_pred p).
Proof.
  intros Hc. apply has_colon_brk in Hc. unfold check_pred, unwritable_pred.
  rewrite negb_orb, negb_involutive. f_equal.
  destruct (writable p) eqn:W.
  - apply writable_has_local; assumption.
  - destruct (has_local p) eqn:L; [|reflexivity]. rewrite (has_local_writable p L) in W. discriminate.
Qed.

(* ------------------------------------------------------------------------------------------- *)
(* B. what must be refused IS refused                                                           *)
(* ------------------------------------------------------------------------------------------- *)
Lemma unwritable_check p : unwritable_pred p = true -> check_pred p = false.
Proof.
  unfold unwritable_pred, check_pred. intros H. apply orb_true_iff in H as [H|H].
  - apply negb_true_iff in H. destruct (has_local p) eqn:L; [|reflexivity].
    rewrite (has_local_writable p L) in H. discriminate.
  - rewrite H. apply andb_false_r.
Qed.

(* THEOREM: the Checked formatter answers a triple that must be refused with the InvalidInput error *)
Theorem must_refuse_format t :
  must_refuse t = true ->
  exists n p o, convert t = CRio (SNode n) p (OObj o) /\ guard_format true (SNode n) p (OObj o) = FErr SerErrInput.
Proof.
  destruct t as [[s p] o]. unfold must_refuse. intros H. apply andb_true_iff in H as [R H].
  destruct (convert_representable _ R) as (n & pi & ob & Hc & Hu). exists n, pi, ob. split; [exact Hc|].
  rewrite guard_format_node. unfold expressible.
  destruct p as [pt| | | | |]; try discriminate. cbn [unconvert] in Hu. injection Hu as _ Hp Ho. subst pt.
  apply orb_true_iff in H as [H|H].
  - rewrite (unwritable_check pi H). reflexivity.
  - destruct (check_pred pi); [|reflexivity]. cbn [andb].
    destruct ob as [nd|v|v tag|v dt]; cbn [term_of_obj] in Ho; subst o; cbn [lit_of lit_text] in *.
    + destruct nd; discriminate.
    + apply negb_true_iff in H. rewrite H. reflexivity.
    + apply negb_true_iff in H. rewrite H. reflexivity.
    + apply negb_true_iff in H. rewrite H. reflexivity.
Qed.

Lemma guard_format_err guard s p o e : guard_format guard s p o = FErr e -> forall d, e <> SerOk d.
Proof.
  unfold guard_format. intros H d ->.
  destruct (guard && negb (check_pred p)); [discriminate|].
  destruct (guard && match o with OObj ob => match lit_text ob with Some v => negb (xml_str v) | None => false end | OQuoted => false end); [discriminate|].
  destruct s; [discriminate|]. destruct o; discriminate.
Qed.

Lemma collect_err guard g ts e : collect guard g = (ts, Some e) -> forall d, e <> SerOk d.
Proof.
  revert ts. induction g as [|t g IH]; intros ts; cbn [collect]; [discriminate|].
  destruct (convert t) as [|s p o]; [apply IH|].
  destruct (guard_format guard s p o) as [x|e'] eqn:F.
  - destruct (collect guard g) as [ts' e'] eqn:C. intros H. injection H as _ ->. exact (IH ts' eq_refl).
  - intros H. injection H as _ ->. exact (guard_format_err _ _ _ _ _ F).
Qed.

Lemma collect_refuses g : existsb must_refuse g = true -> exists ts e, collect true g = (ts, Some e).
Proof.
  induction g as [|t g IH]; cbn [existsb]; [discriminate|]. intros H. cbn [collect].
  destruct (must_refuse t) eqn:M.
  - destruct (must_refuse_format t M) as (n & p & o & -> & ->). eauto.
  - cbn [orb] in H. destruct (IH H) as (ts & e & C).
    destruct (convert t) as [|s p o]; [eauto|].
    destruct (guard_format true s p o); [rewrite C|]; eauto.
Qed.

(* THEOREM (refusal, on the grammar): a graph holding a triple whose predicate has no QName (or a reserved one) or
   whose text leaves the Char production is NEVER answered with a document, whatever else it holds (quoted triples,
   generalised triples, other errors earlier or later) and whatever the indentation *)
Theorem refuse_sound g : existsb must_refuse g = true -> forall k d, serialize true k g <> SerOk d.
Proof.
  intros H k d. destruct (collect_refuses g H) as (ts & e & C). unfold serialize. rewrite C.
  exact (collect_err _ _ _ _ C d).
Qed.

(* THEOREM: and it is answered with the InvalidInput error when the graph has no quoted triples *)
Theorem refuse_input g : forallb flat3 g = true -> existsb must_refuse g = true ->
  forall k, serialize true k g = SerErrInput.
Proof.
  intros Hf H k. apply guarded_rejects; [exact Hf|].
  destruct (forallb expressible (rts g)) eqn:E; [exfalso|reflexivity].
  pose proof (collect_guarded g Hf) as C. rewrite E in C.
  destruct (collect_refuses g H) as (ts & e & C'). congruence.
Qed.

(* THEOREM (completeness): conversely a graph without quoted triples, none of whose triples must be refused and whose
   predicates are IRIs (they hold a ':'), IS written *)
Lemma rts_expressible g : forallb flat3 g = true -> existsb must_refuse g = false ->
  forallb (fun t => match t with (_, Iri p, _) => has 58 p | _ => true end) g = true ->
  forallb expressible (rts g) = true.
Proof.
  unfold rts. induction g as [|t g IH]; [reflexivity|]. cbn [forallb existsb]. intros Hf Hm Hc.
  apply andb_true_iff in Hf as [Ht Hg]. apply orb_false_iff in Hm as [Mt Mg]. apply andb_true_iff in Hc as [Ct Cg].
  specialize (IH Hg Mg Cg). cbn [collect].
  destruct (representable t) eqn:R.
  - destruct (convert_representable t R) as (n & p & o & Hcv & Hu). rewrite Hcv.
    cbn [guard_format andb]. rewrite ren_t_false.
    destruct (collect false g) as [ts e]. cbn [fst forallb] in *. rewrite IH, andb_true_r.
    destruct t as [[s pt] ot]. unfold must_refuse in Mt. rewrite R in Mt. cbn [andb] in Mt.
    cbn [unconvert] in Hu. injection Hu as _ Hp Ho. subst pt ot.
    apply orb_false_iff in Mt as [M1 M2]. unfold expressible.
    rewrite (check_pred_grammar p Ct), M1. cbn [negb andb].
    destruct o as [nd|v|v tag|v dt]; cbn [term_of_obj lit_of lit_text] in *.
    + reflexivity.
    + apply negb_false_iff in M2. exact M2.
    + apply negb_false_iff in M2. exact M2.
    + apply negb_false_iff in M2. exact M2.
  - rewrite (convert_skips t Ht R). exact IH.
Qed.

Theorem refuse_complete k g : forallb flat3 g = true -> existsb must_refuse g = false ->
  forallb (fun t => match t with (_, Iri p, _) => has 58 p | _ => true end) g = true ->
  exists d, serialize true k g = SerOk d.
Proof.
  intros Hf Hm Hc. pose proof (collect_guarded g Hf) as C. rewrite (rts_expressible g Hf Hm Hc) in C.
  unfold serialize. rewrite C. eauto.
Qed.

(* THEOREM: the harness-facing refusal check follows from agreement with the transcription: whenever the observed
   outcome is the model's (ser_ok), it also respects the grammar-level statement (refuse_ok) *)
Theorem ser_ok_refuse_ok guard k g o : ser_ok guard k g o = true -> refuse_ok guard g o = true.
Proof.
  unfold refuse_ok. destruct guard; [|reflexivity]. cbn [andb].
  destruct (existsb must_refuse g) eqn:M; [|reflexivity].
  unfold ser_ok. pose proof (refuse_sound g M k) as H.
  destruct (serialize true k g) as [d| | |]; [exfalso; exact (H d eq_refl)| | |]; destruct o; try discriminate; reflexivity.
Qed.

(* ------------------------------------------------------------------------------------------- *)
(* C. the lexical check                                                                         *)
(* ------------------------------------------------------------------------------------------- *)
Lemma span_all {A} (f : A -> bool) l : forallb f l = true -> span f l = (l, []).
Proof.
  induction l as [|x l IH]; [reflexivity|]. cbn [forallb span]. intros H.
  apply andb_true_iff in H as [-> Hl]. rewrite (IH Hl). reflexivity.
Qed.
(* an NCName is a QName *)
Theorem ncname_qname l : is_ncname l = true -> is_qname l = true.
Proof.
  intros H. unfold is_qname. destruct (ncname_name_chars l H) as [_ Hc]. rewrite (span_all _ _ Hc). exact H.
Qed.
(* "prop:", the name Rio's formatter falls back to, is not one; nor are ":x", "a:b:c", "1a" *)
Example not_qnames :
  is_qname s_prop = false /\ is_qname [58;120] = false /\ is_qname [97;58;98;58;99] = false /\ is_qname [49;97] = false
  /\ is_qname s_rdfRDF = true /\ is_qname s_rdfDesc = true /\ is_qname [116;121;112;101] = true.
Proof. vm_compute. repeat split; reflexivity. Qed.

(* THEOREM: every tag the formatter writes for a triple the guard lets through carries a QName *)
Theorem expressible_names t : expressible t = true ->
  forall cur, forallb event_names_ok (fmt_triple cur t) = true.
Proof.
  destruct t as [[s p] o]. unfold expressible, check_pred, has_local. intros H cur.
  apply andb_true_iff in H as [H _]. apply andb_true_iff in H as [H _].
  cbn [fmt_triple]. rewrite forallb_app. apply andb_true_iff. split.
  - unfold fmt_open. destruct cur as [c|]; [destruct (rnode_eqb c s)|]; reflexivity.
  - unfold fmt_prop, prop_name. destruct (split_local p) as [E|E]; [rewrite E in H; discriminate|].
    destruct (split_iri p) as [ns loc]. cbn [snd] in *. destruct loc as [|c l]; [discriminate|].
    pose proof (ncname_qname _ E) as Q.
    destruct o as [[i|b]|v|v tag|v dt]; cbn [forallb event_names_ok]; unfold qname_wf; cbn [qname_str]; rewrite ?Q; reflexivity.
Qed.

(* text without '<' has no tag to object to *)
Theorem tags_ok_text s : has 60 s = false -> tags_ok s = true.
Proof.
  induction s as [|c r IH]; [reflexivity|]. unfold has in *. cbn [existsb tags_ok]. intros H.
  apply orb_false_iff in H as [Hc Hr]. rewrite N.eqb_sym in Hc. rewrite Hc. exact (IH Hr).
Qed.

(* the two missing documents of the kind the check is there for are refused by it *)
Example wf_ok_examples :
  (* <prop: xmlns:prop="x"/> *)
  wf_ok (ObsDoc [60;112;114;111;112;58;32;120;109;108;110;115;58;112;114;111;112;61;34;120;34;47;62]) = false
  (* <a>U+0001</a> *)
  /\ wf_ok (ObsDoc [60;97;62;1;60;47;97;62]) = false
  (* <rdf:RDF><p xmlns="x">a &lt; b</p></rdf:RDF> *)
  /\ wf_ok (ObsDoc (s_decl ++ [60] ++ s_rdfRDF ++ [62;60;112;32;120;109;108;110;115;61;34;120;34;62;97;32;38;108;116;59;32;98;60;47;112;62;60;47] ++ s_rdfRDF ++ [62])) = true.
Proof. vm_compute. repeat split; reflexivity. Qed.

(* non-vacuity of the refusal theorems: rdf:1, the rdf namespace itself, rdf:li, http://e/ns#; U+0001 behind a renamed subject *)
Example must_refuse_examples :
  let s := Iri [104;116;116;112;58;47;47;101;47;115] in
  must_refuse (s, Iri (rdf_ns ++ [49]), s) = true
  /\ must_refuse (s, Iri rdf_ns, s) = true
  /\ must_refuse (s, Iri rdf_li, s) = true
  /\ must_refuse (s, Iri [104;116;116;112;58;47;47;101;47;110;115;35], s) = true
  /\ must_refuse (Bnode [49], Iri [104;116;116;112;58;47;47;101;47;112], LitLang [1] [101;110]) = true
  /\ must_refuse (s, Iri (rdf_ns ++ [116;121;112;101]), s) = false
  /\ must_refuse (s, Iri (rdf_ns ++ [95;49]), LitDt [97] xsd_string) = false
  /\ serialize true 0 [(Bnode [49], Iri [104;116;116;112;58;47;47;101;47;112], LitLang [1] [101;110])] = SerErrInput
  /\ serialize true 2 [(s, Iri (rdf_ns ++ [49]), s)] = SerErrInput.
Proof. vm_compute. repeat split; reflexivity. Qed.
