(* C12/WideProofs.v -- theorems about the definitions of C12/Wide.v. *)
From Sophia.Common Require Import Prelude.
From Sophia.C12 Require Import Wide.

(* ---------- 1. identifiers ---------- *)
Lemma alpha_not_at c : is_alpha c = true -> (c =? 64) = false.
Proof. unfold is_alpha. intros H. destruct (N.eqb_spec c 64) as [->|]; [discriminate H|reflexivity]. Qed.
Lemma alpha_not_underscore c : is_alpha c = true -> (c =? 95) = false.
Proof. unfold is_alpha. intros H. destruct (N.eqb_spec c 95) as [->|]; [discriminate H|reflexivity]. Qed.

Theorem scheme_not_keyword : forall s, has_scheme s = true -> keyword_form s = false.
Proof.
  intros [|c r] H; [discriminate|]. simpl in H. apply andb_true_iff in H. destruct H as [Ha _].
  unfold keyword_form. destruct r; [reflexivity|]. rewrite (alpha_not_at _ Ha). reflexivity.
Qed.
Theorem scheme_not_blank : forall s, has_scheme s = true -> blank_form s = false.
Proof.
  intros [|c r] H; [discriminate|]. simpl in H. apply andb_true_iff in H. destruct H as [Ha _].
  unfold blank_form. destruct r; [reflexivity|]. rewrite (alpha_not_underscore _ Ha). reflexivity.
Qed.
(* what the serializer writes for an (absolute) IRI is read back as that IRI, whatever base / compactToRelative are *)
Theorem id_roundtrip : forall base ctr i, has_scheme i = true -> expand_id (id_written base ctr i) = EIri i.
Proof.
  intros base ctr i H. unfold id_written, expand_id.
  rewrite (scheme_not_keyword _ H), (scheme_not_blank _ H), H. reflexivity.
Qed.
Theorem ids_ok_sound : forall base ctr input observed, ids_ok base ctr input observed = true ->
  forall s, In s observed -> In s input /\ expand_id s = EIri s.
Proof.
  intros base ctr input observed H s Hs. unfold ids_ok in H. rewrite forallb_forall in H.
  specialize (H s Hs). apply andb_true_iff in H. destruct H as [H1 H2]. split.
  - apply existsb_exists in H1. destruct H1 as [y [Hy E]]. apply str_eqb_eq in E. subst y.
    apply in_map_iff in Hy. destruct Hy as [z [Ez Hz]]. unfold id_written in Ez. subst z. exact Hz.
  - unfold expand_id in *. destruct (keyword_form s); [discriminate|]. destruct (blank_form s); [discriminate|].
    destruct (has_scheme s); [reflexivity|discriminate].
Qed.
(* shortening the IRIs under a directory is NOT lossless: http://example.org/dir/@type is written "@type", which JSON-LD ignores *)
Definition ex_dir : str := [104;116;116;112;58;47;47;101;120;97;109;112;108;101;46;111;114;103;47;100;105;114;47].
Definition ex_at_type : str := ex_dir ++ [64;116;121;112;101].
Theorem relative_writer_refuted :
  has_scheme ex_at_type = true /\ expand_id (id_written_relative ex_dir ex_at_type) = EIgnored
  /\ expand_id (id_written (Some (ex_dir ++ [100])) true ex_at_type) = EIri ex_at_type.
Proof. repeat split; vm_compute; reflexivity. Qed.

(* ---------- 2. the BufRead entry point ---------- *)
Lemma concat_chunks_every : forall fuel k l, concat (chunks_every fuel k l) = l.
Proof.
  induction fuel as [|f IH]; intros k l; simpl.
  - apply app_nil_r.
  - destruct l as [|x l']; [reflexivity|]. cbn [concat]. rewrite IH. apply firstn_skipn.
Qed.
Lemma concat_chunks_at : forall cuts l, concat (chunks_at cuts l) = l.
Proof.
  induction cuts as [|c r IH]; intros l; simpl.
  - apply app_nil_r.
  - rewrite IH. apply firstn_skipn.
Qed.
(* a reader loses nothing, however it cuts *)
Theorem chunks_concat : forall p l, read_to_end (chunks_of p l) = l.
Proof. intros [k|cuts] l; unfold read_to_end, chunks_of; [apply concat_chunks_every|apply concat_chunks_at]. Qed.
Theorem parse_entry_spec : forall p l, parse_entry (chunks_of p l) = if utf8_valid l then Some l else None.
Proof. intros p l. unfold parse_entry. rewrite chunks_concat. reflexivity. Qed.
(* all the readers give the parser the same text *)
Theorem entry_independent : forall p q l, parse_entry (chunks_of p l) = parse_entry (chunks_of q l).
Proof. intros p q l. rewrite !parse_entry_spec. reflexivity. Qed.
(* decoding piece by piece is NOT the same: the euro sign cut after its first byte *)
Theorem chunkwise_refuted : exists p l,
  parse_entry (chunks_of p l) = Some l /\ parse_chunkwise (chunks_of p l) = None.
Proof. exists (At [1]), [226; 130; 172]. split; vm_compute; reflexivity. Qed.

(* the encoding of any text is well-formed *)
Lemma valid_1 b r : b <? 128 = true -> utf8_valid (b :: r) = utf8_valid r.
Proof. intros H. cbn [utf8_valid]. rewrite H. reflexivity. Qed.
Lemma valid_2 b0 b1 r : b0 <? 128 = false -> in_rng 194 223 b0 = true -> cont b1 = true ->
  utf8_valid (b0 :: b1 :: r) = utf8_valid r.
Proof. intros H0 H1 H2. cbn [utf8_valid]. rewrite H0, H1, H2. reflexivity. Qed.
Lemma valid_3 b0 b1 b2 r : b0 <? 128 = false -> in_rng 194 223 b0 = false -> in_rng 224 239 b0 = true ->
  second_ok b0 b1 = true -> cont b2 = true -> utf8_valid (b0 :: b1 :: b2 :: r) = utf8_valid r.
Proof. intros H0 H1 H2 H3 H4. cbn [utf8_valid]. rewrite H0, H1, H2, H3, H4. reflexivity. Qed.
Lemma valid_4 b0 b1 b2 b3 r : b0 <? 128 = false -> in_rng 194 223 b0 = false -> in_rng 224 239 b0 = false ->
  in_rng 240 244 b0 = true -> second_ok b0 b1 = true -> cont b2 = true -> cont b3 = true ->
  utf8_valid (b0 :: b1 :: b2 :: b3 :: r) = utf8_valid r.
Proof. intros H0 H1 H2 H3 H4 H5 H6. cbn [utf8_valid]. rewrite H0, H1, H2, H3, H4, H5, H6. reflexivity. Qed.

Lemma in_rng_true lo hi b : lo <= b -> b <= hi -> in_rng lo hi b = true.
Proof. intros H1 H2. unfold in_rng. apply andb_true_iff. split; apply N.leb_le; assumption. Qed.
Lemma in_rng_false_gt lo hi b : hi < b -> in_rng lo hi b = false.
Proof. intros H. unfold in_rng. apply andb_false_iff. right. apply N.leb_gt. exact H. Qed.
Lemma cont_m m : m < 64 -> cont (128 + m) = true.
Proof. intros H. apply in_rng_true; lia. Qed.

Lemma enc1_valid c r : scalar c = true -> utf8_valid (enc1 c ++ r) = utf8_valid r.
Proof.
  intros Hs. unfold enc1.
  assert (N64 : 64 <> 0) by discriminate.
  pose proof (N.mod_upper_bound c 64 N64) as Hm0. pose proof (N.div_mod c 64 N64) as He0.
  pose proof (N.mod_upper_bound (c / 64) 64 N64) as Hm1. pose proof (N.div_mod (c / 64) 64 N64) as He1.
  pose proof (N.mod_upper_bound (c / 4096) 64 N64) as Hm2. pose proof (N.div_mod (c / 4096) 64 N64) as He2.
  replace (c / 64 / 64) with (c / 4096) in He1 by (rewrite N.div_div by discriminate; reflexivity).
  replace (c / 4096 / 64) with (c / 262144) in He2 by (rewrite N.div_div by discriminate; reflexivity).
  assert (Hc : c < 55296 \/ (57343 < c /\ c <= 1114111)).
  { unfold scalar in Hs. apply orb_true_iff in Hs. destruct Hs as [Hs|Hs].
    - left. apply N.ltb_lt. exact Hs.
    - right. apply andb_true_iff in Hs. destruct Hs as [H1 H2]. split; [apply N.ltb_lt; exact H1|apply N.leb_le; exact H2]. }
  clear Hs.
  set (m0 := c mod 64) in *. set (m1 := (c / 64) mod 64) in *. set (m2 := (c / 4096) mod 64) in *. clearbody m0 m1 m2.
  set (d1 := c / 64) in *. set (d2 := c / 4096) in *. set (d3 := c / 262144) in *. clearbody d1 d2 d3.
  destruct (N.ltb_spec c 128) as [H1|H1].
  { cbn [app]. apply valid_1. apply N.ltb_lt. exact H1. }
  destruct (N.ltb_spec c 2048) as [H2|H2].
  { cbn [app]. apply valid_2.
    - apply N.ltb_ge. lia.
    - apply in_rng_true; lia.
    - apply cont_m. exact Hm0. }
  destruct (N.ltb_spec c 65536) as [H3|H3].
  { cbn [app]. apply valid_3.
    - apply N.ltb_ge. lia.
    - apply in_rng_false_gt. lia.
    - apply in_rng_true; lia.
    - unfold second_ok.
      destruct (N.eqb_spec (224 + d2) 224) as [E|E]; [apply in_rng_true; lia|].
      destruct (N.eqb_spec (224 + d2) 237) as [E2|E2]; [apply in_rng_true; lia|].
      destruct (N.eqb_spec (224 + d2) 240) as [E3|E3]; [exfalso; lia|].
      destruct (N.eqb_spec (224 + d2) 244) as [E4|E4]; [exfalso; lia|].
      apply cont_m. exact Hm1.
    - apply cont_m. exact Hm0. }
  cbn [app]. apply valid_4.
  - apply N.ltb_ge. lia.
  - apply in_rng_false_gt. lia.
  - apply in_rng_false_gt. lia.
  - apply in_rng_true; lia.
  - unfold second_ok.
    destruct (N.eqb_spec (240 + d3) 224) as [E|E]; [exfalso; lia|].
    destruct (N.eqb_spec (240 + d3) 237) as [E2|E2]; [exfalso; lia|].
    destruct (N.eqb_spec (240 + d3) 240) as [E3|E3]; [apply in_rng_true; lia|].
    destruct (N.eqb_spec (240 + d3) 244) as [E4|E4]; [apply in_rng_true; lia|].
    apply cont_m. exact Hm2.
  - apply cont_m. exact Hm1.
  - apply cont_m. exact Hm0.
Qed.
Theorem encode_valid : forall s, forallb scalar s = true -> utf8_valid (utf8_encode s) = true.
Proof.
  induction s as [|c s IH]; intros H; [reflexivity|]. simpl in H. apply andb_true_iff in H. destruct H as [Hc Hs].
  unfold utf8_encode. cbn [flat_map]. rewrite enc1_valid by exact Hc. apply IH. exact Hs.
Qed.
(* whatever the reader, the bytes of any text reach parse_str, whole *)
Theorem entry_accepts_text : forall p s, forallb scalar s = true ->
  parse_entry (chunks_of p (utf8_encode s)) = Some (utf8_encode s).
Proof. intros p s H. rewrite parse_entry_spec, (encode_valid _ H). reflexivity. Qed.
Theorem entry_ok_spec : forall doc obs, entry_ok doc obs = true ->
  forall p a, In (p, a) obs -> a = utf8_valid doc.
Proof.
  intros doc obs H p a Hin. unfold entry_ok in H. rewrite forallb_forall in H. specialize (H _ Hin). cbn [fst snd] in H.
  rewrite parse_entry_spec in H. apply eqb_prop in H. subst a.
  destruct (utf8_valid doc); [|reflexivity]. apply list_eqb_spec; [|reflexivity].
  intros x y. apply N.eqb_eq.
Qed.

(* ---------- 3. values that carry their text ---------- *)
Lemma str_eqb_sym a b : str_eqb a b = str_eqb b a.
Proof.
  destruct (str_eqb_spec a b) as [->|H]; [symmetry; apply str_eqb_refl|].
  destruct (str_eqb_spec b a) as [->|H']; [contradiction H; reflexivity|reflexivity].
Qed.
Lemma rdfobject_eqb_sym a b : rdfobject_eqb a b = rdfobject_eqb b a.
Proof.
  destruct a, b; simpl; try reflexivity.
  - rewrite (str_eqb_sym lex lex0), (str_eqb_sym (lower tag) (lower tag0)). reflexivity.
  - rewrite (str_eqb_sym lex lex0), (str_eqb_sym dt dt0). reflexivity.
  - rewrite (N.eqb_sym idx idx0), (str_eqb_sym id id0). reflexivity.
Qed.
Lemma rdfobject_eqb_refl a : rdfobject_eqb a a = true.
Proof. destruct a; simpl; rewrite ?str_eqb_refl, ?N.eqb_refl; reflexivity. Qed.
Lemma distinctb_app_one acc x : distinctb (acc ++ [x]) = distinctb acc && negb (existsb (rdfobject_eqb x) acc).
Proof.
  induction acc as [|y acc IH]; simpl; [reflexivity|].
  rewrite IH, existsb_app. simpl. rewrite orb_false_r, (rdfobject_eqb_sym x y).
  destruct (existsb (rdfobject_eqb y) acc), (rdfobject_eqb y x), (distinctb acc), (existsb (rdfobject_eqb x) acc); reflexivity.
Qed.
Lemma distinctb_app_l a b : distinctb (a ++ b) = true -> distinctb a = true.
Proof.
  induction a as [|x a IH]; simpl; intros H; [reflexivity|].
  apply andb_true_iff in H. destruct H as [H1 H2]. rewrite (IH H2), andb_true_r.
  rewrite existsb_app in H1. destruct (existsb (rdfobject_eqb x) a); [discriminate H1|reflexivity].
Qed.
Lemma push_distinct_gen : forall xs acc, distinctb (acc ++ xs) = true -> fold_left push_if_new xs acc = acc ++ xs.
Proof.
  induction xs as [|x xs IH]; intros acc H; simpl; [symmetry; apply app_nil_r|].
  assert (H' : distinctb ((acc ++ [x]) ++ xs) = true) by (rewrite <- app_assoc; exact H).
  pose proof (distinctb_app_l _ _ H') as Hx. rewrite distinctb_app_one in Hx. apply andb_true_iff in Hx. destruct Hx as [_ Hx].
  unfold push_if_new at 2. destruct (existsb (rdfobject_eqb x) acc); [discriminate Hx|].
  rewrite (IH _ H'), <- app_assoc. reflexivity.
Qed.
(* whatever their number, values that differ (by text, language tag, datatype or kind) are all kept, in their order of arrival *)
Theorem push_all_distinct : forall xs, distinctb xs = true -> push_all xs = xs.
Proof. intros xs H. unfold push_all. rewrite push_distinct_gen; [reflexivity|exact H]. Qed.
Lemma push_keeps v x y : existsb (rdfobject_eqb y) v = true -> existsb (rdfobject_eqb y) (push_if_new v x) = true.
Proof. intros H. unfold push_if_new. destruct (existsb (rdfobject_eqb x) v); [exact H|]. rewrite existsb_app, H. reflexivity. Qed.
Lemma push_has v x : existsb (rdfobject_eqb x) (push_if_new v x) = true.
Proof.
  unfold push_if_new. destruct (existsb (rdfobject_eqb x) v) eqn:E; [exact E|].
  rewrite existsb_app. simpl. rewrite rdfobject_eqb_refl, orb_true_r. reflexivity.
Qed.
Lemma fold_keeps xs : forall acc y, existsb (rdfobject_eqb y) acc = true -> existsb (rdfobject_eqb y) (fold_left push_if_new xs acc) = true.
Proof. induction xs as [|x xs IH]; intros acc y H; simpl; [exact H|]. apply IH. apply push_keeps. exact H. Qed.
(* no value is ever dropped: every object given is (up to the case of its language tag) among the values *)
Theorem push_all_complete : forall xs x, In x xs -> existsb (rdfobject_eqb x) (push_all xs) = true.
Proof.
  unfold push_all. intros xs. generalize (@nil rdfobject) as acc. induction xs as [|y xs IH]; intros acc x Hin; [destruct Hin|].
  simpl. destruct Hin as [->|Hin].
  - apply fold_keeps. apply push_has.
  - apply IH. exact Hin.
Qed.
(* deciding on the text alone is NOT the same: "chat"@en then "chat"@fr *)
Theorem text_dedup_refuted : exists xs,
  distinctb xs = true /\ push_all xs = xs /\ fold_left push_if_new_text xs [] <> xs.
Proof.
  exists [LangString [99;104;97;116] [101;110]; LangString [99;104;97;116] [102;114]].
  split; [reflexivity|]. split; [reflexivity|]. vm_compute. discriminate.
Qed.
Theorem values_ok_distinct : forall xs, distinctb xs = true -> values_ok xs (N.of_nat (length xs)) = true.
Proof. intros xs H. unfold values_ok. rewrite (push_all_distinct _ H). apply N.eqb_refl. Qed.
