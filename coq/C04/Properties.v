(* C04/Properties.v -- pinned statements of property C04 (Turtle/TriG output parses back to an isomorphic
   dataset).  Only Checks, small Examples showing non-vacuity, and Print Assumptions. *)
From Coq Require Import Permutation.
From Sophia.Common Require Import Prelude.
From Sophia.C04 Require Import Regex Grammar Model AtomsProofs PreFix Proofs.
From Sophia.C04 Require Lang Incl.

(* ===== (1) the regenerated regular expressions stay inside the Turtle grammar ===== *)
(* decided by `ka` on the atom level for every Kleene algebra, transported to words over code points *)
Check (Incl.integer_re_incl : forall w, matchb integer_re w = true -> matchb INTEGER w = true).
Check (Incl.decimal_re_incl : forall w, matchb decimal_re w = true -> matchb DECIMAL w = true).
Check (Incl.double_re_incl : forall w, matchb double_re w = true -> matchb DOUBLE w = true).
Check (Incl.boolean_re_incl : forall w, matchb boolean_re w = true -> matchb BOOLEAN w = true).
Check (Incl.pn_local_re_incl : forall w, matchb pn_local_re w = true -> matchb PN_LOCAL w = true).
Check (Incl.pn_local_re_no_unescape : forall w, matchb pn_local_re w = true ->
  existsb (N.eqb c_bslash) w = false -> matchb PN_LOCAL_noesc w = true).
(* the three numeric productions of the grammar are pairwise disjoint *)
Check (Incl.numeric_disjoint : forall w,
  (matchb INTEGER w = true -> matchb DECIMAL w = false /\ matchb DOUBLE w = false) /\
  (matchb DECIMAL w = true -> matchb INTEGER w = false /\ matchb DOUBLE w = false) /\
  (matchb DOUBLE w = true -> matchb INTEGER w = false /\ matchb DECIMAL w = false)).
(* hence a literal written bare is read back with the same datatype *)
Check (bare_literal_sound : forall dt lex, bare_literal dt lex = true ->
  (dt = xsd_integer /\ matchb INTEGER lex = true /\ matchb DECIMAL lex = false /\ matchb DOUBLE lex = false) \/
  (dt = xsd_decimal /\ matchb DECIMAL lex = true /\ matchb INTEGER lex = false /\ matchb DOUBLE lex = false) \/
  (dt = xsd_double /\ matchb DOUBLE lex = true /\ matchb INTEGER lex = false /\ matchb DECIMAL lex = false) \/
  (dt = xsd_boolean /\ matchb BOOLEAN lex = true)).
(* the executable matcher decides membership in the language denoted by a regex; abstraction to atoms is exact *)
Check (Lang.matchb_spec : forall r w, matchb r w = true <-> Lang.langc r w).
Check (aligned_spec : forall rs, aligned rs = true -> forall c, inr c rs = memN (atom_of c) (atoms_in rs)).
Check (atoms_partition : forall c, c <= max_cp ->
  exists e, In e atom_table /\ e_lo e <= c <= e_hi e /\ atom_of c = e_atom e /\ atom_of c < n_atoms).

(* what the translator emitted is consistent with what Coq computes from the classes *)
Example translator_atoms_agree :
  rexN_eqb (abstract integer_re) integer_re_atoms && rexN_eqb (abstract decimal_re) decimal_re_atoms &&
  rexN_eqb (abstract double_re) double_re_atoms && rexN_eqb (abstract boolean_re) boolean_re_atoms &&
  rexN_eqb (abstract pn_local_re) pn_local_re_atoms = true.
Proof. vm_compute. reflexivity. Qed.
Example everything_aligned :
  forallb all_aligned [integer_re; decimal_re; double_re; boolean_re; pn_local_re;
                       INTEGER; DECIMAL; DOUBLE; BOOLEAN; PN_LOCAL; PN_LOCAL_noesc; NO_DOT_E; HAS_DOT_NO_E; HAS_E; HAS_BSLASH] = true.
Proof. vm_compute. reflexivity. Qed.
(* non-vacuity: the grammar and the regenerated regexes accept and reject *)
Example grammar_examples :
  matchb INTEGER [43; 49; 50] = true /\ matchb INTEGER [49; 46] = false /\                 (* "+12", "1." *)
  matchb DECIMAL [46; 53] = true /\ matchb DECIMAL [49; 46] = false /\                     (* ".5", "1." *)
  matchb DOUBLE [43; 49; 101; 48] = true /\ matchb DOUBLE [49; 101] = false /\             (* "+1e0", "1e" *)
  matchb DOUBLE [49; 46; 101; 51] = true /\                                                (* "1.e3" *)
  matchb BOOLEAN [116; 114; 117; 101] = true /\ matchb BOOLEAN [84; 82; 85; 69] = false /\ (* "true", "TRUE" *)
  matchb PN_LOCAL [97; 46; 98] = true /\ matchb PN_LOCAL [97; 46] = false /\               (* "a.b", "a." *)
  matchb PN_LOCAL [97; 37; 50; 48] = true /\ matchb PN_LOCAL [97; 47; 98] = false /\       (* "a%20", "a/b" *)
  bare_literal xsd_decimal [49; 46; 53] = true /\ bare_literal xsd_integer [49; 46; 53] = false /\
  bare_literal xsd_double [49; 101; 48] = true /\ bare_literal xsd_boolean [116; 114; 117; 101] = true.
Proof. vm_compute. repeat split; reflexivity. Qed.

(* ===== (2) prefixed names ===== *)
Check (gcpp_sound : forall check pm iri p suf, get_checked_prefixed_pair check pm iri = Some (p, suf) ->
  exists n, In (p, n) pm /\ n ++ suf = iri /\ check suf = true /\
    forall p' n' suf', In (p', n') pm -> n' ++ suf' = iri -> check suf' = true -> (length n' <= length n)%nat).
Check (gcpp_complete : forall check pm iri, get_checked_prefixed_pair check pm iri = None ->
  forall p' n' suf', In (p', n') pm -> n' ++ suf' = iri -> check suf' = true -> n' = []).
Check (write_iri_pname_sound : forall pm iri p loc, write_iri_pname pm iri = Some (p, loc) ->
  exists n, In (p, n) pm /\ n ++ loc = iri /\ matchb PN_LOCAL loc = true /\
    (existsb (N.eqb c_bslash) iri = false -> matchb PN_LOCAL_noesc loc = true)).
Example pname_examples :   (* "ab" -> "http://e/a/b#", "a" -> "http://e/a/", iri "http://e/a/b#c" *)
  let ns1 := [104;116;116;112;58;47;47;101;47;97;47] in
  let ns2 := ns1 ++ [98; 35] in
  write_iri_pname [([97], ns1); ([97; 98], ns2)] (ns2 ++ [99]) = Some ([97; 98], [99]) /\
  write_iri_pname [([97; 98], ns2); ([97], ns1)] (ns1 ++ [98; 47; 99]) = None /\
  write_iri_pname [([97], ns1)] (ns1 ++ [99; 46; 100]) = Some ([97], [99; 46; 100]).
Proof. vm_compute. repeat split; reflexivity. Qed.

(* ===== (3) every blank node cycle contains a labelled node ===== *)
Check (unlabelled_pred_wf : forall ks quads,
  well_founded (fun t n => upred (detect_cycles (profiles ks quads)) n t)).
Check (no_unlabelled_cycle : forall ks quads n, ~ upath (detect_cycles (profiles ks quads)) n n).
Check (build_labelled_spec : forall ks quads n,
  In n (build_labelled ks quads) <-> exists p, pm_get (detect_cycles (profiles ks quads)) n = Some p /\ bad p = true).
Check (every_cycle_has_a_labelled_node : forall ks quads n, ~ dpath ks quads n n).

(* ===== (4) lists ===== *)
Check (list_item_cell : forall first rest quads g s v r, first <> rest ->
  list_item first rest quads s = Some v -> In (g, s, rest, r) quads -> is_cell first rest quads s v r).
Check (lists_are_chains : forall ks first rest nil labelled quads, first <> rest ->
  forall head items,
  In (head, items) (fst (build_lists first rest nil ks quads (build_subject_types ks first rest labelled quads))) ->
  chain ks first rest nil labelled quads head items).

(* ===== (5) accounting: full statement kept as a definition, verified checker pinned ===== *)
Check (accounting_statement : Prop).
Check (exactly_once_sound : forall quads out, NoDup quads -> exactly_once quads out = true -> Permutation quads out).
Check (accounting_checked_partial : forall ks first rest nil type_ quads labels colls plists,
  NoDup quads -> plan_ok ks first rest nil type_ quads labels colls plists = true ->
  let w := emitted ks first rest nil type_ quads (make_plan ks first rest nil quads) in
  w_ok w = true /\ Permutation quads (w_out w)).

(* non-vacuity of (3)-(5): a well-formed list (1 2) owned by ex:s, plus a blank node cycle with a tail.
   0 _:a 1 _:b 2 _:c 3 _:l 4 _:m 5 ex:p 6 ex:s 7 rdf:first 8 rdf:nil 9 rdf:rest 10 rdf:type 11 "1" 12 "2" *)
Definition ex_ks : list tk := [TB; TB; TB; TB; TB; TI; TI; TI; TI; TI; TI; TL; TL].
Definition ex_quads : list quad :=
  [(None, 1, 5, 0); (None, 1, 5, 2); (None, 2, 5, 1);
   (None, 3, 7, 11); (None, 3, 9, 4); (None, 4, 7, 12); (None, 4, 9, 8); (None, 6, 5, 3)].
Example plan_example :
  let pl := make_plan ex_ks 7 9 8 ex_quads in
  pl_labelled pl = [1] /\ pl_lists pl = [(3, [11; 12])] /\
  plan_ok ex_ks 7 9 8 10 ex_quads [1] 1 1 = true.
Proof. vm_compute. repeat split; reflexivity. Qed.

Print Assumptions Incl.integer_re_incl.
Print Assumptions Incl.decimal_re_incl.
Print Assumptions Incl.double_re_incl.
Print Assumptions Incl.boolean_re_incl.
Print Assumptions Incl.pn_local_re_incl.
Print Assumptions Incl.pn_local_re_no_unescape.
Print Assumptions Incl.numeric_disjoint.
Print Assumptions bare_literal_sound.
Print Assumptions Lang.matchb_spec.
Print Assumptions Lang.abstract_sound.
Print Assumptions Lang.ka_incl_matchb.
Print Assumptions aligned_spec.
Print Assumptions atoms_partition.
Print Assumptions translator_atoms_agree.
Print Assumptions everything_aligned.
Print Assumptions grammar_examples.
Print Assumptions gcpp_sound.
Print Assumptions gcpp_complete.
Print Assumptions write_iri_pname_sound.
Print Assumptions pname_examples.
Print Assumptions unlabelled_pred_wf.
Print Assumptions no_unlabelled_cycle.
Print Assumptions build_labelled_spec.
Print Assumptions every_cycle_has_a_labelled_node.
Print Assumptions list_item_cell.
Print Assumptions lists_are_chains.
Print Assumptions exactly_once_sound.
Print Assumptions accounting_checked_partial.
Print Assumptions plan_example.
Print Assumptions prefix_decimal_refuted.
Print Assumptions prefix_double_refuted.
Print Assumptions cycle_detection_old_refuted.
Print Assumptions list_item_old_refuted.
