(* C19/History.v -- loaders are VALUES: histories of operations over several LocalLoader values
   alive at once (new / clone / add / get / drop-and-replace).  `#[derive(Clone)]` on a struct whose
   only field is a Vec copies the configuration; `add` takes `&mut self` and touches that value
   only; `get` takes `&self` and has no effect.  `arced()` / `Arc::clone` / `Arc::make_mut` and
   moving a loader to another thread are ways of holding or copying a value and are modelled by
   the same operations.  Definitions only. *)
From Sophia.C19 Require Export Config.

Inductive hop :=
| HNew (l : list (str * str))       (* LocalLoader::new(l), or LocalLoader::default() when refused *)
| HClone (i : N)                    (* a new value: loader i .clone() *)
| HAdd (i : N) (ns t : str)         (* loader i .add(ns, t) *)
| HGet (i : N) (iri : str)          (* loader i .get(iri) *)
| HReset (i : N).                   (* loader i is dropped and replaced by LocalLoader::default() *)

Inductive hobs := ONone | OCode (c : N) | OGot (code : N) (path : list str) (ct : N).

(* the live loader values, in creation order: each one is its own configuration *)
Definition hstate := list (list cache).
Definition cfg_of (st : hstate) (i : N) : list cache := nth (N.to_nat i) st [].
Fixpoint set_nth {A} (l : list A) (n : nat) (x : A) : list A :=
  match l, n with
  | [], _ => []
  | _ :: r, O => x :: r
  | y :: r, S n' => y :: set_nth r n' x
  end.
Definition set_cfg (st : hstate) (i : N) (c : list cache) : hstate := set_nth st (N.to_nat i) c.

Definition obs_of (o : outcome) : hobs := let '(c, p, t) := outcome_code o in OGot c p t.

Definition is_get (op : hop) : bool := match op with HGet _ _ => true | _ => false end.
(* the loader value an operation may modify *)
Definition target (op : hop) : option N :=
  match op with HAdd i _ _ | HReset i => Some i | _ => None end.

Section Hist.
Variable fs : fsys.
Variable exts : list str.

Definition hstep (st : hstate) (op : hop) : hstate * hobs :=
  match op with
  | HNew l => match new_loader fs l with
              | inl e => (st ++ [[]], OCode (err_code (Some e)))
              | inr cs => (st ++ [cs], OCode 0)
              end
  | HClone i => (st ++ [cfg_of st i], ONone)
  | HAdd i ns t => let '(cs, r) := add fs (cfg_of st i) ns t in (set_cfg st i cs, OCode (err_code r))
  | HGet i iri => (st, obs_of (snd (get fs exts true (cfg_of st i) iri)))
  | HReset i => (set_cfg st i [], ONone)
  end.

Fixpoint run_hist (st : hstate) (ops : list hop) : list hobs :=
  match ops with
  | [] => []
  | op :: r => snd (hstep st op) :: run_hist (fst (hstep st op)) r
  end.
Fixpoint state_after (st : hstate) (ops : list hop) : hstate :=
  match ops with
  | [] => st
  | op :: r => state_after (fst (hstep st op)) r
  end.
End Hist.

(* a configuration obtainable from the empty loader by add() calls (Config.v's run_adds) *)
Definition reachable (fs : fsys) (cs : list cache) : Prop := exists l, cs = run_adds fs [] l.

(* ---------- harness-facing checker ---------- *)
Definition hobs_eqb (a b : hobs) : bool :=
  match a, b with
  | ONone, ONone => true
  | OCode x, OCode y => N.eqb x y
  | OGot c p t, OGot c' p' t' => N.eqb c c' && path_eqb p p' && N.eqb t t'
  | _, _ => false
  end.
(* a whole history from no loader at all: every observation, in order *)
Definition hist_ok fs exts (ops : list hop) (obs : list hobs) : bool :=
  list_eqb hobs_eqb (run_hist fs exts [] ops) obs.
