(* C03/Proofs.v -- proofs about the N-Triples / N-Quads writer model and the reference reader. *)
From Sophia.Common Require Import Prelude Term.
From Sophia.C03 Require Import Model.

(* lia with division / modulo by constants (UTF-8 arithmetic) *)
Ltac Zify.zify_post_hook ::= Z.to_euclidean_division_equations.

(* ------------------------------------------------------------------------------------------ *)
(** * A. quoted_string is the character-wise escaping function                                 *)
(* ------------------------------------------------------------------------------------------ *)

Lemma qs_cp_app a b : qs_cp (a ++ b) = qs_cp a ++ qs_cp b.
Proof. unfold qs_cp. apply flat_map_app. Qed.

Lemma qs_scan_spec txt :
  qs_cp txt =
  let (pre, x) := qs_scan txt in
  pre ++ match x with None => [] | Some (c, rest) => esc c ++ qs_cp rest end.
Proof.
  induction txt as [|c r IH]; [reflexivity|].
  cbn [qs_scan]. change (qs_cp (c :: r)) with ((if is_special c then esc c else [c]) ++ qs_cp r).
  destruct (is_special c); [reflexivity|].
  rewrite IH. destruct (qs_scan r) as [pre x]. reflexivity.
Qed.

Lemma qs_scan_len txt pre c rest :
  qs_scan txt = (pre, Some (c, rest)) -> (length rest < length txt)%nat.
Proof.
  revert pre; induction txt as [|d r IH]; intros pre; cbn [qs_scan]; [discriminate|].
  destruct (is_special d).
  - intros E; injection E as _ _ <-. cbn. lia.
  - destruct (qs_scan r) as [pre' x] eqn:E'. intros E; injection E as _ ->.
    specialize (IH _ eq_refl). cbn. lia.
Qed.

Lemma quoted_string_f_spec fuel : forall txt,
  (length txt < fuel)%nat -> quoted_string_f fuel txt = qs_cp txt.
Proof.
  induction fuel as [|f IH]; intros txt H; [lia|].
  cbn [quoted_string_f]. rewrite (qs_scan_spec txt).
  destruct (qs_scan txt) as [pre [[c rest]|]] eqn:E; [|reflexivity].
  f_equal. f_equal. destruct rest as [|d rest]; [reflexivity|].
  apply IH. apply qs_scan_len in E. lia.
Qed.

(* the Rust function (scan, write prefix, write escape, recurse) = escape each byte *)
Theorem quoted_string_spec txt : quoted_string txt = qs_cp txt.
Proof. unfold quoted_string. apply quoted_string_f_spec. lia. Qed.

(* ------------------------------------------------------------------------------------------ *)
(** * B. the byte-level writer is the UTF-8 encoding of the code-point-level writer            *)
(* ------------------------------------------------------------------------------------------ *)

Lemma utf8_app a b : utf8 (a ++ b) = utf8 a ++ utf8 b.
Proof. unfold utf8. apply flat_map_app. Qed.
Lemma utf8_cons c s : utf8 (c :: s) = utf8_1 c ++ utf8 s.
Proof. reflexivity. Qed.
Lemma utf8_1_ascii c : c < 128 -> utf8_1 c = [c].
Proof. intros H. unfold utf8_1. apply N.ltb_lt in H. rewrite H. reflexivity. Qed.

Lemma is_special_high b : 128 <= b -> is_special b = false.
Proof. intros H. unfold is_special. replace (b <=? 92) with false; [reflexivity|]. symmetry; apply N.leb_gt; lia. Qed.

Lemma qs_cp_utf8_1_high c : 128 <= c -> qs_cp (utf8_1 c) = utf8_1 c.
Proof.
  intros H. unfold utf8_1.
  replace (c <? 128) with false by (symmetry; apply N.ltb_ge; lia).
  destruct (c <? 2048); [|destruct (c <? 65536)]; unfold qs_cp; cbn [flat_map app];
    rewrite ?is_special_high by lia; reflexivity.
Qed.

Lemma esc_ascii c : utf8 (esc c) = esc c.
Proof. unfold esc. repeat (match goal with |- context [if ?b then _ else _] => destruct b end); reflexivity. Qed.

Lemma is_special_small c : is_special c = true -> c < 128.
Proof. unfold is_special. intros H. apply andb_true_iff in H as [H _]. apply N.leb_le in H. lia. Qed.

(* escaping commutes with UTF-8 encoding: the four special bytes never occur inside a
   multi-byte sequence *)
Theorem qs_cp_utf8 s : qs_cp (utf8 s) = utf8 (qs_cp s).
Proof.
  induction s as [|c s IH]; [reflexivity|].
  rewrite utf8_cons, qs_cp_app, IH.
  change (qs_cp (c :: s)) with ((if is_special c then esc c else [c]) ++ qs_cp s).
  rewrite utf8_app. f_equal.
  destruct (N.lt_ge_cases c 128) as [Hc|Hc].
  - rewrite (utf8_1_ascii c Hc). unfold qs_cp; cbn [flat_map]. rewrite app_nil_r.
    destruct (is_special c).
    + symmetry; apply esc_ascii.
    + rewrite utf8_cons, (utf8_1_ascii c Hc). reflexivity.
  - rewrite qs_cp_utf8_1_high by assumption. rewrite is_special_high by assumption.
    rewrite utf8_cons. cbn [utf8 flat_map]. rewrite app_nil_r. reflexivity.
Qed.

Lemma utf8_nil : utf8 [] = [].
Proof. reflexivity. Qed.
Ltac u8 :=
  repeat (rewrite ?utf8_app, ?utf8_cons, ?utf8_nil);
  change (utf8_1 60) with [60]; change (utf8_1 62) with [62]; change (utf8_1 32) with [32];
  change (utf8_1 34) with [34]; change (utf8_1 94) with [94]; change (utf8_1 64) with [64];
  change (utf8_1 95) with [95]; change (utf8_1 58) with [58]; change (utf8_1 63) with [63];
  change (utf8_1 46) with [46]; change (utf8_1 10) with [10];
  repeat (rewrite <- ?app_assoc; cbn [app]); rewrite ?app_nil_r.

Theorem write_term_utf8 t : write_term t = utf8 (wt t).
Proof.
  induction t as [s|s|lex dt|lex tag|s IHs p IHp o IHo|s]; cbn [write_term wt].
  - u8. reflexivity.
  - u8. reflexivity.
  - rewrite quoted_string_spec, qs_cp_utf8.
    destruct (negb (str_eqb xsd_string dt)); u8; reflexivity.
  - rewrite quoted_string_spec, qs_cp_utf8. u8. reflexivity.
  - rewrite IHs, IHp, IHo. u8. reflexivity.
  - u8. reflexivity.
Qed.

Theorem nq_write_utf8 qs : nq_write qs = utf8 (wdoc qs).
Proof.
  induction qs as [|[[[s p] o] g] qs IH]; [reflexivity|].
  change (nq_write (((s, p, o, g)) :: qs)) with (nq_write_quad (s, p, o, g) ++ nq_write qs).
  change (wdoc ((s, p, o, g) :: qs)) with (wq (s, p, o, g) ++ wdoc qs).
  rewrite utf8_app, IH. f_equal.
  cbn [nq_write_quad wq]. unfold write_triple. rewrite !write_term_utf8.
  destruct g as [t|]; [rewrite write_term_utf8|]; u8; reflexivity.
Qed.

(* N-Triples is the N-Quads writer on default-graph quads *)
Theorem nt_write_nq ts : nt_write ts = nq_write (map (fun t : triple => let '(s, p, o) := t in (s, p, o, None)) ts).
Proof.
  induction ts as [|[[s p] o] ts IH]; [reflexivity|].
  cbn [map]. unfold nt_write, nq_write in *. cbn [flat_map]. rewrite IH. reflexivity.
Qed.

(* ------------------------------------------------------------------------------------------ *)
(** * C. the strict UTF-8 decoder inverts the encoder on scalar values                         *)
(* ------------------------------------------------------------------------------------------ *)

Lemma utf8_dec_1 c r : scalar c = true -> utf8_dec (utf8_1 c ++ r) = option_map (cons c) (utf8_dec r).
Proof.
  intros Hs. unfold utf8_1.
  destruct (c <? 128) eqn:E1.
  { cbn [app utf8_dec]. rewrite E1. reflexivity. }
  apply N.ltb_ge in E1.
  destruct (c <? 2048) eqn:E2.
  { apply N.ltb_lt in E2. cbn [app utf8_dec].
    replace (192 + c / 64 <? 128) with false by (symmetry; apply N.ltb_ge; lia).
    replace (192 + c / 64 <? 192) with false by (symmetry; apply N.ltb_ge; lia).
    replace (192 + c / 64 <? 224) with true by (symmetry; apply N.ltb_lt; lia).
    replace ((192 + c / 64 - 192) * 64 + (128 + c mod 64 - 128)) with c by lia.
    unfold cont.
    replace (128 <=? 128 + c mod 64) with true by (symmetry; apply N.leb_le; lia).
    replace (128 + c mod 64 <? 192) with true by (symmetry; apply N.ltb_lt; lia).
    replace (128 <=? c) with true by (symmetry; apply N.leb_le; lia).
    reflexivity. }
  apply N.ltb_ge in E2.
  destruct (c <? 65536) eqn:E3.
  { apply N.ltb_lt in E3. cbn [app utf8_dec].
    replace (224 + c / 4096 <? 128) with false by (symmetry; apply N.ltb_ge; lia).
    replace (224 + c / 4096 <? 192) with false by (symmetry; apply N.ltb_ge; lia).
    replace (224 + c / 4096 <? 224) with false by (symmetry; apply N.ltb_ge; lia).
    replace (224 + c / 4096 <? 240) with true by (symmetry; apply N.ltb_lt; lia).
    replace ((224 + c / 4096 - 224) * 4096 + (128 + (c / 64) mod 64 - 128) * 64 + (128 + c mod 64 - 128))
      with c by lia.
    unfold cont.
    replace (128 <=? 128 + (c / 64) mod 64) with true by (symmetry; apply N.leb_le; lia).
    replace (128 + (c / 64) mod 64 <? 192) with true by (symmetry; apply N.ltb_lt; lia).
    replace (128 <=? 128 + c mod 64) with true by (symmetry; apply N.leb_le; lia).
    replace (128 + c mod 64 <? 192) with true by (symmetry; apply N.ltb_lt; lia).
    replace (2048 <=? c) with true by (symmetry; apply N.leb_le; lia).
    rewrite Hs. reflexivity. }
  apply N.ltb_ge in E3.
  assert (Hlt : c < 1114112).
  { unfold scalar in Hs. apply orb_true_iff in Hs as [H|H].
    - apply N.ltb_lt in H. lia.
    - apply andb_true_iff in H as [_ H]. apply N.ltb_lt in H. exact H. }
  cbn [app utf8_dec].
  replace (240 + c / 262144 <? 128) with false by (symmetry; apply N.ltb_ge; lia).
  replace (240 + c / 262144 <? 192) with false by (symmetry; apply N.ltb_ge; lia).
  replace (240 + c / 262144 <? 224) with false by (symmetry; apply N.ltb_ge; lia).
  replace (240 + c / 262144 <? 240) with false by (symmetry; apply N.ltb_ge; lia).
  replace (240 + c / 262144 <? 248) with true by (symmetry; apply N.ltb_lt; lia).
  replace ((240 + c / 262144 - 240) * 262144 + (128 + (c / 4096) mod 64 - 128) * 4096
           + (128 + (c / 64) mod 64 - 128) * 64 + (128 + c mod 64 - 128)) with c by lia.
  unfold cont.
  replace (128 <=? 128 + (c / 4096) mod 64) with true by (symmetry; apply N.leb_le; lia).
  replace (128 + (c / 4096) mod 64 <? 192) with true by (symmetry; apply N.ltb_lt; lia).
  replace (128 <=? 128 + (c / 64) mod 64) with true by (symmetry; apply N.leb_le; lia).
  replace (128 + (c / 64) mod 64 <? 192) with true by (symmetry; apply N.ltb_lt; lia).
  replace (128 <=? 128 + c mod 64) with true by (symmetry; apply N.leb_le; lia).
  replace (128 + c mod 64 <? 192) with true by (symmetry; apply N.ltb_lt; lia).
  replace (65536 <=? c) with true by (symmetry; apply N.leb_le; lia).
  rewrite Hs. reflexivity.
Qed.

Theorem utf8_dec_utf8 s : scalar_str s = true -> utf8_dec (utf8 s) = Some s.
Proof.
  induction s as [|c s IH]; [reflexivity|].
  cbn [scalar_str forallb]. intros H. apply andb_true_iff in H as [Hc Hs].
  rewrite utf8_cons, utf8_dec_1 by assumption. rewrite (IH Hs). reflexivity.
Qed.

(* ------------------------------------------------------------------------------------------ *)
(** * D. the reader inverts the writer, token by token (code point level)                      *)
(* ------------------------------------------------------------------------------------------ *)

(* ---- STRING_LITERAL_QUOTE ---- *)
Lemma rd_str_body_plain c r :
  (c =? 34) = false -> (c =? 92) = false -> is_eol c = false ->
  rd_str_body (c :: r) =
  match rd_str_body r with Some (s, r') => Some (c :: s, r') | None => None end.
Proof. intros H1 H2 H3. cbn [rd_str_body]. rewrite H1, H2, H3. reflexivity. Qed.

(* for ALL strings: reading the escaped form up to the closing quote gives the string back *)
Theorem rd_str_body_qs s rest : rd_str_body (qs_cp s ++ 34 :: rest) = Some (s, rest).
Proof.
  induction s as [|c s IH]; [reflexivity|].
  change (qs_cp (c :: s)) with ((if is_special c then esc c else [c]) ++ qs_cp s).
  rewrite <- app_assoc.
  destruct (c =? 10) eqn:E10; [apply N.eqb_eq in E10; subst c; cbn; rewrite IH; reflexivity|].
  destruct (c =? 13) eqn:E13; [apply N.eqb_eq in E13; subst c; cbn; rewrite IH; reflexivity|].
  destruct (c =? 34) eqn:E34; [apply N.eqb_eq in E34; subst c; cbn; rewrite IH; reflexivity|].
  destruct (c =? 92) eqn:E92; [apply N.eqb_eq in E92; subst c; cbn; rewrite IH; reflexivity|].
  assert (Hs : is_special c = false).
  { unfold is_special. rewrite E10, E13, E34, E92. apply andb_false_r. }
  rewrite Hs. cbn [app]. rewrite rd_str_body_plain; try assumption.
  - rewrite IH. reflexivity.
  - unfold is_eol. rewrite E10, E13. reflexivity.
Qed.

Theorem unescape_quoted_string s : unescape (quoted_string s) = Some s.
Proof. unfold unescape. rewrite quoted_string_spec, rd_str_body_qs. reflexivity. Qed.

(* ---- IRIREF ---- *)
Lemma iri_char_facts c : iri_char c = true ->
  (c =? 62) = false /\ (c =? 92) = false /\ (c =? 60) = false /\ (c =? 10) = false /\ (c =? 13) = false.
Proof.
  unfold iri_char. intros H.
  repeat (apply andb_true_iff in H; destruct H as [H ?]).
  repeat match goal with X : negb _ = true |- _ => apply negb_true_iff in X end.
  apply N.leb_gt in H.
  repeat split; try assumption; apply N.eqb_neq; lia.
Qed.

Lemma rd_iri_body_plain c r : iri_char c = true ->
  rd_iri_body (c :: r) =
  match rd_iri_body r with Some (s, r') => Some (c :: s, r') | None => None end.
Proof.
  intros H. destruct (iri_char_facts c H) as (H1 & H2 & _).
  cbn [rd_iri_body]. rewrite H1, H2, H. reflexivity.
Qed.

Lemma rd_iri_body_ok s rest : forallb iri_char s = true -> rd_iri_body (s ++ 62 :: rest) = Some (s, rest).
Proof.
  induction s as [|c s IH]; intros H; [reflexivity|].
  cbn [forallb] in H. apply andb_true_iff in H as [Hc Hs].
  cbn [app]. rewrite rd_iri_body_plain by assumption. rewrite IH by assumption. reflexivity.
Qed.

(* ---- what follows a term ---- *)
Lemma stop_cases rest : stop_ok rest = true ->
  rest = [] \/ (exists r, rest = 32 :: r) \/ (exists r, rest = 62 :: r) \/ rest = [46]
  \/ (exists r, rest = 46 :: 10 :: r).
Proof.
  destruct rest as [|c r]; [auto|]. unfold stop_ok. intros H.
  apply orb_true_iff in H as [H|H]; [apply orb_true_iff in H as [H|H]|].
  - apply N.eqb_eq in H; subst; eauto.
  - apply N.eqb_eq in H; subst; eauto 6.
  - apply andb_true_iff in H as [H1 H2]. apply N.eqb_eq in H1; subst.
    destruct r as [|d r]; [auto 6|]. apply N.eqb_eq in H2; subst. eauto 8.
Qed.

(* ---- BLANK_NODE_LABEL ---- *)
Lemma lab_tail_stop rest : stop_ok rest = true -> lab_tail rest = ([], rest).
Proof.
  intros H. destruct (stop_cases rest H) as [->|[[r ->]|[[r ->]|[->|[r ->]]]]]; reflexivity.
Qed.

Lemma lab_tail_ok t rest : tail_ok t = true -> stop_ok rest = true -> lab_tail (t ++ rest) = (t, rest).
Proof.
  intros Ht Hr. induction t as [|c t IH]; [apply lab_tail_stop; assumption|].
  cbn [tail_ok] in Ht. cbn [app lab_tail].
  destruct (pn_chars c) eqn:Ep.
  - rewrite (IH Ht). reflexivity.
  - apply andb_true_iff in Ht as [Ht Ht2]. apply andb_true_iff in Ht as [Hd Hn].
    rewrite Hd. rewrite (IH Ht2). destruct t; [discriminate Hn|reflexivity].
Qed.

Lemma rd_label_ok lab rest : label_ok lab = true -> stop_ok rest = true ->
  rd_label (58 :: lab ++ rest) = Some (lab, rest).
Proof.
  destruct lab as [|c t]; [discriminate|]. unfold label_ok. intros H Hr.
  apply andb_true_iff in H as [H _]. apply andb_true_iff in H as [H1 H2].
  cbn [app rd_label]. rewrite N.eqb_refl, H1. cbn [andb].
  rewrite (lab_tail_ok t rest H2 Hr). reflexivity.
Qed.

(* ---- LANGTAG ---- *)
Definition tag_stop (rest : str) : Prop :=
  match rest with [] => True | c :: _ => alnum c = false /\ (c =? 45) = false end.
Lemma stop_tag_stop rest : stop_ok rest = true -> tag_stop rest.
Proof.
  intros H. destruct (stop_cases rest H) as [->|[[r ->]|[[r ->]|[->|[r ->]]]]]; cbn; auto.
Qed.

Lemma rd_sub_ok t : forall st rest, subtags_ok st t = true -> tag_stop rest ->
  rd_sub st (t ++ rest) = Some (t, rest).
Proof.
  induction t as [|c t IH]; intros st rest Ht Hr.
  - cbn [subtags_ok] in Ht. apply negb_true_iff in Ht; subst st.
    destruct rest as [|d r]; [reflexivity|]. destruct Hr as [H1 H2].
    cbn [app rd_sub]. rewrite H1, H2. reflexivity.
  - cbn [subtags_ok] in Ht. cbn [app rd_sub]. destruct (alnum c).
    + rewrite (IH false rest Ht Hr). reflexivity.
    + apply andb_true_iff in Ht as [Ht Ht2]. rewrite Ht.
      rewrite (IH true rest Ht2 Hr). reflexivity.
Qed.

Lemma rd_first_ok t : forall rest, first_ok t = true -> tag_stop rest ->
  rd_first (t ++ rest) = Some (t, rest).
Proof.
  induction t as [|c t IH]; intros rest Ht Hr.
  - destruct rest as [|d r]; [reflexivity|]. destruct Hr as [H1 H2].
    cbn [app rd_first]. unfold alnum in H1. apply orb_false_iff in H1 as [Ha Hd].
    rewrite Ha, Hd, H2. reflexivity.
  - cbn [first_ok] in Ht. cbn [app rd_first]. destruct (alpha c).
    + rewrite (IH rest Ht Hr). reflexivity.
    + apply andb_true_iff in Ht as [Hc Ht]. apply N.eqb_eq in Hc; subst c.
      change (digit 45) with false. cbn match. rewrite N.eqb_refl.
      rewrite (rd_sub_ok t true rest Ht Hr). reflexivity.
Qed.

Lemma rd_langtag_ok tag rest : langtag_ok tag = true -> stop_ok rest = true ->
  rd_langtag (tag ++ rest) = Some (tag, rest).
Proof.
  destruct tag as [|c t]; [discriminate|]. unfold langtag_ok. intros H Hr.
  apply andb_true_iff in H as [Hc Ht]. unfold rd_langtag. cbn [app]. rewrite Hc.
  change (c :: t ++ rest) with ((c :: t) ++ rest). apply rd_first_ok.
  - cbn [first_ok]. rewrite Hc. exact Ht.
  - apply stop_tag_stop; assumption.
Qed.

(* ---- literal ---- *)
Lemma stop_not_at rest : stop_ok rest = true ->
  match rest with [] => True | c :: _ => (c =? 64) = false /\ (c =? 94) = false end.
Proof.
  intros H. destruct (stop_cases rest H) as [->|[[r ->]|[[r ->]|[->|[r ->]]]]]; cbn; auto.
Qed.

Lemma rd_literal_dt lex dt rest : forallb iri_char dt = true -> stop_ok rest = true ->
  rd_literal (qs_cp lex ++
     (if negb (str_eqb xsd_string dt) then 34 :: 94 :: 94 :: 60 :: dt ++ [62] else [34]) ++ rest)
  = Some (LitDt lex dt, rest).
Proof.
  intros Hdt Hr. unfold rd_literal.
  destruct (str_eqb_spec xsd_string dt) as [<-|Hne]; cbn [negb app].
  - rewrite rd_str_body_qs. pose proof (stop_not_at rest Hr) as Hs.
    destruct rest as [|c r]; [reflexivity|]. destruct Hs as [H1 H2]. rewrite H1, H2. reflexivity.
  - rewrite rd_str_body_qs. cbn. rewrite <- app_assoc. cbn [app].
    rewrite rd_iri_body_ok by assumption. reflexivity.
Qed.

Lemma rd_literal_lang lex tag rest : langtag_ok tag = true -> stop_ok rest = true ->
  rd_literal (qs_cp lex ++ (34 :: 64 :: tag) ++ rest) = Some (LitLang lex tag, rest).
Proof.
  intros Ht Hr. unfold rd_literal. cbn [app]. rewrite rd_str_body_qs. cbn.
  rewrite rd_langtag_ok by assumption. reflexivity.
Qed.

(* ---- terms ---- *)
Lemma iri_ok_chars s : iri_ok s = true -> forallb iri_char s = true.
Proof. unfold iri_ok. intros H. apply andb_true_iff in H as [H _]. exact H. Qed.

(* a written term starts with '<', '_' or a double quote: no white space to skip *)
Lemma skip_ws_wt p t rest : wf_at p t = true -> skip_ws (wt t ++ rest) = wt t ++ rest.
Proof. destruct t; cbn [wf_at]; try discriminate; intros _; reflexivity. Qed.
Lemma skip_ws_sp_wt p t rest : wf_at p t = true -> skip_ws (32 :: wt t ++ rest) = wt t ++ rest.
Proof. intros H. change (skip_ws (32 :: wt t ++ rest)) with (skip_ws (wt t ++ rest)). eapply skip_ws_wt; eassumption. Qed.

Lemma stop_sp r : stop_ok (32 :: r) = true.
Proof. reflexivity. Qed.
Lemma stop_gt r : stop_ok (62 :: r) = true.
Proof. reflexivity. Qed.
Lemma stop_dot r : stop_ok (46 :: 10 :: r) = true.
Proof. reflexivity. Qed.

(* THE TERM LEMMA: a written term is self-delimiting, and the reader gives it back, whatever
   admissible text follows it; quoted triples of any depth *)
Theorem rd_term_wt : forall t p fuel rest,
  wf_at p t = true -> stop_ok rest = true -> (depth t < fuel)%nat ->
  rd_term fuel p (wt t ++ rest) = Some (t, rest).
Proof.
  induction t as [s|s|lex dt|lex tag|s IHs pr IHp o IHo|s]; intros p fuel rest Hwf Hr Hf;
    (destruct fuel as [|f]; [lia|]); cbn [wf_at] in Hwf.
  - (* Iri *)
    apply iri_ok_chars in Hwf. cbn [wt app rd_term]. rewrite N.eqb_refl.
    rewrite <- app_assoc. cbn [app].
    destruct s as [|c s].
    + reflexivity.
    + cbn [app]. cbn [forallb] in Hwf. pose proof Hwf as Hwf'. apply andb_true_iff in Hwf' as [Hc _].
      destruct (iri_char_facts c Hc) as (_ & _ & H60 & _). rewrite H60.
      change (c :: s ++ 62 :: rest) with ((c :: s) ++ 62 :: rest).
      rewrite rd_iri_body_ok by exact Hwf. reflexivity.
  - (* Bnode *)
    apply andb_true_iff in Hwf as [Hp Hl]. cbn [wt app rd_term].
    change (95 =? 60) with false. change (95 =? 95) with true. cbn match. rewrite Hp.
    rewrite rd_label_ok by assumption. reflexivity.
  - (* LitDt *)
    apply andb_true_iff in Hwf as [Hwf Hdt]. apply andb_true_iff in Hwf as [Hp _].
    apply iri_ok_chars in Hdt. cbn [wt app rd_term].
    change (34 =? 60) with false. change (34 =? 95) with false. change (34 =? 34) with true.
    cbn match. rewrite Hp. rewrite <- app_assoc. apply rd_literal_dt; assumption.
  - (* LitLang *)
    apply andb_true_iff in Hwf as [Hwf Htag]. apply andb_true_iff in Hwf as [Hp _].
    cbn [wt app rd_term].
    change (34 =? 60) with false. change (34 =? 95) with false. change (34 =? 34) with true.
    cbn match. rewrite Hp. rewrite <- app_assoc. apply rd_literal_lang; assumption.
  - (* Triple *)
    apply andb_true_iff in Hwf as [Hwf Ho]. apply andb_true_iff in Hwf as [Hwf Hp].
    apply andb_true_iff in Hwf as [Hq Hs].
    cbn [depth] in Hf.
    cbn [wt app rd_term]. rewrite N.eqb_refl. rewrite Hq.
    repeat (rewrite <- ?app_assoc; cbn [app]).
    rewrite (skip_ws_wt PSubj s _ Hs).
    rewrite (IHs PSubj f _ Hs (stop_sp _)) by lia.
    rewrite (skip_ws_sp_wt PPred pr _ Hp).
    rewrite (IHp PPred f _ Hp (stop_sp _)) by lia.
    rewrite (skip_ws_sp_wt PObj o _ Ho).
    rewrite (IHo PObj f _ Ho (stop_gt _)) by lia.
    reflexivity.
  - discriminate.
Qed.

(* ---- statements and documents ---- *)
Lemma wt_head p t : wf_at p t = true -> exists c r, wt t = c :: r /\ (c = 60 \/ c = 95 \/ c = 34).
Proof. destruct t; cbn [wf_at]; try discriminate; intros _; cbn [wt]; eauto 7. Qed.

Lemma wt_len t : (depth t < length (wt t))%nat.
Proof.
  induction t as [s|s|lex dt|lex tag|s IHs pr IHp o IHo|s]; cbn [depth wt length]; try lia.
  rewrite !app_length. cbn [length]. rewrite !app_length. cbn [length]. rewrite !app_length. cbn [length]. lia.
Qed.

Lemma wq_len s p o g :
  (depth s < length (wq (s, p, o, g)) /\ depth p < length (wq (s, p, o, g))
   /\ depth o < length (wq (s, p, o, g))
   /\ match g with Some t => depth t < length (wq (s, p, o, g)) | None => True end
   /\ 2 <= length (wq (s, p, o, g)))%nat.
Proof.
  pose proof (wt_len s). pose proof (wt_len p). pose proof (wt_len o).
  cbn [wq]. destruct g as [t|]; [pose proof (wt_len t)|];
  repeat (rewrite !app_length; cbn [length]); repeat split; lia.
Qed.

Theorem rd_statement_wq s p o g fuel rest :
  wf_quad (s, p, o, g) = true -> (length (wq (s, p, o, g)) <= fuel)%nat ->
  rd_statement fuel (wq (s, p, o, g) ++ rest) = Some ((s, p, o, g), 10 :: rest).
Proof.
  intros Hwf Hf. destruct (wq_len s p o g) as (Ls & Lp & Lo & Lg & _).
  cbn [wf_quad] in Hwf.
  apply andb_true_iff in Hwf as [Hwf Hg]. apply andb_true_iff in Hwf as [Hwf Ho].
  apply andb_true_iff in Hwf as [Hs Hp].
  unfold rd_statement. cbn [wq]. repeat (rewrite <- ?app_assoc; cbn [app]).
  rewrite (skip_ws_wt PSubj s _ Hs).
  rewrite (rd_term_wt s PSubj fuel _ Hs (stop_sp _)) by lia.
  rewrite (skip_ws_sp_wt PPred p _ Hp).
  rewrite (rd_term_wt p PPred fuel _ Hp (stop_sp _)) by lia.
  rewrite (skip_ws_sp_wt PObj o _ Ho).
  destruct g as [t|].
  - repeat (rewrite <- ?app_assoc; cbn [app]).
    rewrite (rd_term_wt o PObj fuel _ Ho (stop_sp _)) by lia.
    rewrite (skip_ws_sp_wt PGraph t _ Hg).
    pose proof (rd_term_wt t PGraph fuel (46 :: 10 :: rest) Hg (stop_dot _) ltac:(lia)) as HG.
    destruct (wt_head PGraph t Hg) as (c & r & E & Hc). rewrite E in *. cbn [app] in *.
    replace (c =? 46) with false by (symmetry; apply N.eqb_neq; destruct Hc as [->|[->| ->]]; discriminate).
    rewrite HG. reflexivity.
  - cbn [app]. rewrite (rd_term_wt o PObj fuel _ Ho (stop_dot _)) by lia. reflexivity.
Qed.

Lemma rd_doc_eol f l : rd_doc (S f) (10 :: l) = rd_doc (S f) l.
Proof. reflexivity. Qed.

Lemma wdoc_cons q qs : wdoc (q :: qs) = wq q ++ wdoc qs.
Proof. reflexivity. Qed.

Lemma wq_head s p o g rest : wf_quad (s, p, o, g) = true ->
  exists c r, wq (s, p, o, g) ++ rest = c :: r /\ skip_blank false (c :: r) = c :: r.
Proof.
  intros Hwf. cbn [wf_quad] in Hwf.
  apply andb_true_iff in Hwf as [Hwf _]. apply andb_true_iff in Hwf as [Hwf _].
  apply andb_true_iff in Hwf as [Hs _].
  destruct (wt_head PSubj s Hs) as (c & r & E & Hc). cbn [wq]. rewrite E. cbn [app].
  eexists; eexists; split; [reflexivity|].
  destruct Hc as [->|[->| ->]]; reflexivity.
Qed.

(* THE DOCUMENT THEOREM at code point level *)
Theorem rd_doc_wdoc : forall qs fuel,
  wf_quads qs = true -> (S (length (wdoc qs)) < fuel)%nat -> rd_doc fuel (wdoc qs) = Some qs.
Proof.
  induction qs as [|[[[s p] o] g] qs IH]; intros fuel Hwf Hf; (destruct fuel as [|f]; [lia|]).
  - reflexivity.
  - cbn [wf_quads forallb] in Hwf. apply andb_true_iff in Hwf as [Hq Hqs].
    rewrite wdoc_cons in *. rewrite app_length in Hf.
    destruct (wq_len s p o g) as (_ & _ & _ & _ & L2).
    cbn [rd_doc].
    destruct (wq_head s p o g (wdoc qs) Hq) as (c & r & E & Hsk). rewrite E, Hsk, <- E.
    rewrite (rd_statement_wq s p o g f (wdoc qs) Hq) by lia.
    change (skip_ws (10 :: wdoc qs)) with (10 :: wdoc qs). cbv beta zeta.
    change (ends_stmt (10 :: wdoc qs)) with true. cbn match.
    destruct f as [|f']; [lia|]. rewrite rd_doc_eol.
    rewrite (IH (S f') Hqs) by (fold wdoc; lia). reflexivity.
Qed.

(* ------------------------------------------------------------------------------------------ *)
(** * E. bytes: decoding, round trip, lines                                                    *)
(* ------------------------------------------------------------------------------------------ *)

Lemma alnum_small c : alnum c = true -> c < 128.
Proof.
  unfold alnum, alpha, digit, in_rng. intros H.
  repeat match goal with
  | X : (_ || _) = true |- _ => apply orb_true_iff in X; destruct X as [X|X]
  | X : (_ && _) = true |- _ => apply andb_true_iff in X; destruct X as [? X]
  | X : (_ <=? _) = true |- _ => apply N.leb_le in X
  end; lia.
Qed.
Lemma small_scalar c : c < 128 -> scalar c = true.
Proof. intros H. unfold scalar. replace (c <? 55296) with true; [reflexivity|]. symmetry; apply N.ltb_lt; lia. Qed.
Lemma small_noeol_alnum c : alnum c = true -> is_eol c = false.
Proof.
  intros H. unfold is_eol.
  destruct (c =? 10) eqn:E1; [apply N.eqb_eq in E1; subst; discriminate H|].
  destruct (c =? 13) eqn:E2; [apply N.eqb_eq in E2; subst; discriminate H|]. reflexivity.
Qed.

(* "good" characters: scalar values other than LF and CR *)
Definition good (c : N) : bool := scalar c && negb (is_eol c).
Lemma good_app a b : forallb good (a ++ b) = forallb good a && forallb good b.
Proof. apply forallb_app. Qed.

Lemma good_alnum c : alnum c = true -> good c = true.
Proof. intros H. unfold good. rewrite (small_scalar c (alnum_small c H)), (small_noeol_alnum c H). reflexivity. Qed.

Lemma good_subtags t : forall st, subtags_ok st t = true -> forallb good t = true.
Proof.
  induction t as [|c t IH]; intros st H; [reflexivity|]. cbn [subtags_ok] in H. cbn [forallb].
  destruct (alnum c) eqn:E.
  - rewrite (good_alnum c E), (IH _ H). reflexivity.
  - apply andb_true_iff in H as [H H2]. apply andb_true_iff in H as [H _].
    apply N.eqb_eq in H; subst c. rewrite (IH _ H2). reflexivity.
Qed.
Lemma good_first t : first_ok t = true -> forallb good t = true.
Proof.
  induction t as [|c t IH]; intros H; [reflexivity|]. cbn [first_ok] in H. cbn [forallb].
  destruct (alpha c) eqn:E.
  - rewrite good_alnum by (unfold alnum; rewrite E; reflexivity). rewrite (IH H). reflexivity.
  - apply andb_true_iff in H as [H H2]. apply N.eqb_eq in H; subst c.
    rewrite (good_subtags _ _ H2). reflexivity.
Qed.
Lemma good_langtag tag : langtag_ok tag = true -> forallb good tag = true.
Proof.
  destruct tag as [|c t]; [discriminate|]. unfold langtag_ok. intros H.
  apply andb_true_iff in H as [Hc Ht]. apply good_first. cbn [first_ok]. rewrite Hc. exact Ht.
Qed.

Lemma good_iri s : iri_ok s = true -> forallb good s = true.
Proof.
  unfold iri_ok, scalar_str. intros H. apply andb_true_iff in H as [H1 H2].
  induction s as [|c s IH]; [reflexivity|]. cbn [forallb] in *.
  apply andb_true_iff in H1 as [Hc H1]. apply andb_true_iff in H2 as [Hs H2].
  rewrite (IH H1 H2), andb_true_r. unfold good. rewrite Hs.
  destruct (iri_char_facts c Hc) as (_ & _ & _ & E10 & E13). unfold is_eol. rewrite E10, E13. reflexivity.
Qed.

Lemma pn_noeol c : pn_chars c = true -> is_eol c = false.
Proof.
  intros H. unfold is_eol.
  destruct (c =? 10) eqn:E1; [apply N.eqb_eq in E1; subst; discriminate H|].
  destruct (c =? 13) eqn:E2; [apply N.eqb_eq in E2; subst; discriminate H|]. reflexivity.
Qed.
Lemma noeol_tail t : tail_ok t = true -> forallb (fun c => negb (is_eol c)) t = true.
Proof.
  induction t as [|c t IH]; intros H; [reflexivity|]. cbn [tail_ok] in H. cbn [forallb].
  destruct (pn_chars c) eqn:E.
  - rewrite (pn_noeol c E), (IH H). reflexivity.
  - apply andb_true_iff in H as [H H2]. apply andb_true_iff in H as [H _].
    apply N.eqb_eq in H; subst c. rewrite (IH H2). reflexivity.
Qed.
Lemma forallb_and {A} (f g : A -> bool) l :
  forallb f l = true -> forallb g l = true -> forallb (fun x => f x && g x) l = true.
Proof.
  induction l as [|x l IH]; [reflexivity|]. cbn [forallb]. intros H1 H2.
  apply andb_true_iff in H1 as [-> H1]. apply andb_true_iff in H2 as [-> H2]. rewrite (IH H1 H2). reflexivity.
Qed.
Lemma good_label lab : label_ok lab = true -> forallb good lab = true.
Proof.
  destruct lab as [|c t]; [discriminate|]. unfold label_ok. intros H.
  apply andb_true_iff in H as [H Hs]. apply andb_true_iff in H as [Hc Ht].
  unfold good. apply forallb_and; [exact Hs|]. cbn [forallb]. rewrite (noeol_tail t Ht), andb_true_r.
  unfold is_eol.
  destruct (c =? 10) eqn:E1; [apply N.eqb_eq in E1; subst; discriminate Hc|].
  destruct (c =? 13) eqn:E2; [apply N.eqb_eq in E2; subst; discriminate Hc|]. reflexivity.
Qed.

(* the escaped form of a string of scalar values has no LF, no CR *)
Lemma good_qs_cp s : scalar_str s = true -> forallb good (qs_cp s) = true.
Proof.
  induction s as [|c s IH]; [reflexivity|]. unfold scalar_str in *. cbn [forallb]. intros H.
  apply andb_true_iff in H as [Hc Hs].
  change (qs_cp (c :: s)) with ((if is_special c then esc c else [c]) ++ qs_cp s).
  rewrite good_app, (IH Hs), andb_true_r.
  destruct (c =? 10) eqn:E10; [apply N.eqb_eq in E10; subst c; reflexivity|].
  destruct (c =? 13) eqn:E13; [apply N.eqb_eq in E13; subst c; reflexivity|].
  destruct (is_special c).
  - unfold esc. rewrite E10, E13. destruct (c =? 34); [reflexivity|]. destruct (c =? 92); reflexivity.
  - cbn [forallb]. unfold good, is_eol. rewrite Hc, E10, E13. reflexivity.
Qed.

Lemma good_wt : forall t p, wf_at p t = true -> forallb good (wt t) = true.
Proof.
  induction t as [s|s|lex dt|lex tag|s IHs pr IHp o IHo|s]; intros p H; cbn [wf_at] in H; cbn [wt].
  - cbn [forallb]. rewrite good_app, (good_iri s H). reflexivity.
  - apply andb_true_iff in H as [_ H]. cbn [forallb]. rewrite (good_label s H). reflexivity.
  - apply andb_true_iff in H as [H Hdt]. apply andb_true_iff in H as [_ Hl].
    cbn [forallb]. rewrite good_app, (good_qs_cp lex Hl).
    destruct (negb (str_eqb xsd_string dt)); [|reflexivity].
    cbn [forallb]. rewrite good_app, (good_iri dt Hdt). reflexivity.
  - apply andb_true_iff in H as [H Ht]. apply andb_true_iff in H as [_ Hl].
    cbn [forallb]. rewrite good_app, (good_qs_cp lex Hl). cbn [forallb]. rewrite (good_langtag tag Ht). reflexivity.
  - apply andb_true_iff in H as [H Ho]. apply andb_true_iff in H as [H Hp]. apply andb_true_iff in H as [_ Hs].
    cbn [forallb]. rewrite good_app, (IHs _ Hs). cbn [forallb]. rewrite good_app, (IHp _ Hp).
    cbn [forallb]. rewrite good_app, (IHo _ Ho). reflexivity.
  - discriminate.
Qed.

(* a written statement = a body without LF / CR, followed by one LF *)
Lemma wq_body s p o g : wf_quad (s, p, o, g) = true ->
  exists body, wq (s, p, o, g) = body ++ [10] /\ forallb good body = true.
Proof.
  intros Hwf. cbn [wf_quad] in Hwf.
  apply andb_true_iff in Hwf as [Hwf Hg]. apply andb_true_iff in Hwf as [Hwf Ho].
  apply andb_true_iff in Hwf as [Hs Hp].
  exists (wt s ++ 32 :: wt p ++ 32 :: wt o ++ match g with None => [46] | Some t => 32 :: wt t ++ [46] end).
  split.
  - cbn [wq]. destruct g; repeat (rewrite <- ?app_assoc; cbn [app]); reflexivity.
  - rewrite good_app, (good_wt s _ Hs). cbn [forallb]. rewrite good_app, (good_wt p _ Hp).
    cbn [forallb]. rewrite good_app, (good_wt o _ Ho).
    destruct g as [t|]; [|reflexivity]. cbn [forallb]. rewrite good_app, (good_wt t _ Hg). reflexivity.
Qed.

Lemma good_scalar l : forallb good l = true -> scalar_str l = true.
Proof.
  unfold scalar_str. induction l as [|c l IH]; [reflexivity|]. cbn [forallb]. intros H.
  apply andb_true_iff in H as [Hc H]. unfold good in Hc. apply andb_true_iff in Hc as [-> _].
  rewrite (IH H). reflexivity.
Qed.

Lemma scalar_wdoc qs : wf_quads qs = true -> scalar_str (wdoc qs) = true.
Proof.
  induction qs as [|[[[s p] o] g] qs IH]; [reflexivity|]. cbn [wf_quads forallb]. intros H.
  apply andb_true_iff in H as [Hq Hqs]. rewrite wdoc_cons. unfold scalar_str in *.
  rewrite forallb_app, (IH Hqs), andb_true_r.
  destruct (wq_body s p o g Hq) as (body & -> & Hb). rewrite forallb_app.
  fold (scalar_str body). rewrite (good_scalar body Hb). reflexivity.
Qed.

(* THE ROUND-TRIP THEOREM on bytes *)
Theorem nq_roundtrip qs : wf_quads qs = true -> nq_read (nq_write qs) = Some qs.
Proof.
  intros H. unfold nq_read. rewrite nq_write_utf8, (utf8_dec_utf8 _ (scalar_wdoc qs H)).
  apply rd_doc_wdoc; [assumption|lia].
Qed.

Lemma wf_triples_quads ts : wf_triples ts = true ->
  wf_quads (map (fun t : triple => let '(s, p, o) := t in (s, p, o, None)) ts) = true.
Proof.
  unfold wf_triples, wf_quads.
  induction ts as [|[[s p] o] ts IH]; [reflexivity|]. cbn [forallb map]. intros H.
  apply andb_true_iff in H as [Ht Hts]. rewrite (IH Hts), andb_true_r.
  cbn [wf_quad]. rewrite andb_true_r. exact Ht.
Qed.
Lemma drop_graphs_map ts :
  drop_graphs (map (fun t : triple => let '(s, p, o) := t in (s, p, o, None)) ts) = Some ts.
Proof. induction ts as [|[[s p] o] ts IH]; [reflexivity|]. cbn [map drop_graphs]. rewrite IH. reflexivity. Qed.

Theorem nt_roundtrip ts : wf_triples ts = true -> nt_read (nt_write ts) = Some ts.
Proof.
  intros H. unfold nt_read. rewrite nt_write_nq.
  pose proof (nq_roundtrip _ (wf_triples_quads ts H)) as R. rewrite R.
  apply drop_graphs_map.
Qed.

(* ---- lines ---- *)
Lemma count_app b x y : count b (x ++ y) = (count b x + count b y)%nat.
Proof. induction x as [|c x IH]; [reflexivity|]. cbn [app count]. destruct (c =? b); rewrite IH; reflexivity. Qed.

Lemma count_utf8_1 b c : b < 128 -> count b (utf8_1 c) = if c =? b then 1%nat else 0%nat.
Proof.
  intros Hb. unfold utf8_1. destruct (c <? 128) eqn:E1; [reflexivity|]. apply N.ltb_ge in E1.
  replace (c =? b) with false by (symmetry; apply N.eqb_neq; lia).
  destruct (c <? 2048); [|destruct (c <? 65536)]; cbn [count];
    repeat match goal with |- context [?x =? b] => replace (x =? b) with false by (symmetry; apply N.eqb_neq; lia) end;
    reflexivity.
Qed.
Lemma count_utf8 b s : b < 128 -> count b (utf8 s) = count b s.
Proof.
  intros Hb. induction s as [|c s IH]; [reflexivity|].
  rewrite utf8_cons, count_app, IH, (count_utf8_1 b c Hb). cbn [count]. destruct (c =? b); reflexivity.
Qed.

Lemma count_good b l : is_eol b = true -> forallb good l = true -> count b l = 0%nat.
Proof.
  intros Hb. induction l as [|c l IH]; [reflexivity|]. cbn [forallb count]. intros H.
  apply andb_true_iff in H as [Hc H]. rewrite (IH H).
  destruct (c =? b) eqn:E; [|reflexivity]. apply N.eqb_eq in E; subst c.
  unfold good in Hc. rewrite Hb in Hc. rewrite andb_false_r in Hc. discriminate.
Qed.

(* each statement is written as a body without LF/CR bytes followed by the single byte LF *)
Theorem statement_is_one_line q : wf_quad q = true ->
  exists body, nq_write_quad q = body ++ [10] /\ count 10 body = 0%nat /\ count 13 body = 0%nat.
Proof.
  destruct q as [[[s p] o] g]. intros H. destruct (wq_body s p o g H) as (body & E & Hb).
  exists (utf8 body). split; [|split].
  - pose proof (nq_write_utf8 [(s, p, o, g)]) as W. unfold nq_write, wdoc in W. cbn [flat_map] in W.
    rewrite !app_nil_r in W. rewrite W, E, utf8_app. reflexivity.
  - rewrite count_utf8 by lia. apply count_good; [reflexivity|assumption].
  - rewrite count_utf8 by lia. apply count_good; [reflexivity|assumption].
Qed.

Theorem one_line_per_quad qs : wf_quads qs = true ->
  count 10 (nq_write qs) = length qs /\ count 13 (nq_write qs) = 0%nat.
Proof.
  induction qs as [|q qs IH]; [split; reflexivity|]. cbn [wf_quads forallb]. intros H.
  apply andb_true_iff in H as [Hq Hqs]. destruct (IH Hqs) as [I1 I2].
  destruct (statement_is_one_line q Hq) as (body & E & B1 & B2).
  change (nq_write (q :: qs)) with (nq_write_quad q ++ nq_write qs).
  rewrite E, !count_app, I1, I2, B1, B2. split; reflexivity.
Qed.

(* ---- corollaries ---- *)
Theorem quoted_string_utf8 s : quoted_string (utf8 s) = utf8 (quoted_string s).
Proof. rewrite !quoted_string_spec. apply qs_cp_utf8. Qed.

(* byte-level escaping then decoding and unescaping gives the code points back *)
Theorem lexical_roundtrip s : scalar_str s = true ->
  match utf8_dec (quoted_string (utf8 s)) with Some cps => unescape cps | None => None end = Some s.
Proof.
  intros H. rewrite quoted_string_utf8, utf8_dec_utf8.
  - apply unescape_quoted_string.
  - rewrite quoted_string_spec. apply good_scalar, good_qs_cp, H.
Qed.

(* nothing merged: two well-formed datasets with the same serialisation are equal *)
Theorem nq_write_injective d1 d2 : wf_quads d1 = true -> wf_quads d2 = true ->
  nq_write d1 = nq_write d2 -> d1 = d2.
Proof.
  intros H1 H2 E. pose proof (nq_roundtrip d1 H1) as R1. pose proof (nq_roundtrip d2 H2) as R2.
  rewrite E in R1. rewrite R1 in R2. injection R2 as ->. reflexivity.
Qed.

(* ------------------------------------------------------------------------------------------ *)
(** * Other entry points: several calls, write_term / write_triple alone, generalised RDF      *)
(* ------------------------------------------------------------------------------------------ *)

Theorem nq_write_app a b : nq_write (a ++ b) = nq_write a ++ nq_write b.
Proof. unfold nq_write. induction a as [|q a IH]; [reflexivity|]. cbn [app flat_map]. rewrite IH, app_assoc. reflexivity. Qed.
Theorem nt_write_app a b : nt_write (a ++ b) = nt_write a ++ nt_write b.
Proof. unfold nt_write. induction a as [|q a IH]; [reflexivity|]. cbn [app flat_map]. rewrite IH, app_assoc. reflexivity. Qed.

Lemma nq_write_calls_acc calls : forall acc,
  fold_left (fun acc qs => acc ++ nq_write qs) calls acc = acc ++ nq_write (concat calls).
Proof.
  induction calls as [|c calls IH]; intros acc; cbn [fold_left concat].
  - rewrite app_nil_r. reflexivity.
  - rewrite IH, nq_write_app, app_assoc. reflexivity.
Qed.
Lemma nt_write_calls_acc calls : forall acc,
  fold_left (fun acc ts => acc ++ nt_write ts) calls acc = acc ++ nt_write (concat calls).
Proof.
  induction calls as [|c calls IH]; intros acc; cbn [fold_left concat].
  - rewrite app_nil_r. reflexivity.
  - rewrite IH, nt_write_app, app_assoc. reflexivity.
Qed.
(* serialising in several calls on one serialiser = serialising the concatenation in one call *)
Theorem nq_write_calls_concat calls : nq_write_calls calls = nq_write (concat calls).
Proof. unfold nq_write_calls. rewrite nq_write_calls_acc. reflexivity. Qed.
Theorem nt_write_calls_concat calls : nt_write_calls calls = nt_write (concat calls).
Proof. unfold nt_write_calls. rewrite nt_write_calls_acc. reflexivity. Qed.
Lemma nt_of_concat calls : concat (map nt_of calls) = nt_of (concat calls).
Proof.
  unfold nt_of. induction calls as [|c calls IH]; [reflexivity|]. cbn [map concat]. rewrite IH, map_app. reflexivity.
Qed.
Theorem write_calls_ok_concat nq calls bytes :
  write_calls_ok nq calls bytes
  = if nq then write_ok (concat calls) bytes else nt_write_ok (concat calls) bytes.
Proof.
  unfold write_calls_ok, write_ok, nt_write_ok. destruct nq.
  - rewrite nq_write_calls_concat. reflexivity.
  - rewrite nt_write_calls_concat, nt_of_concat. reflexivity.
Qed.

(* the statement composed by hand from the public write_triple / write_term is the statement the
   serialiser writes; a quoted triple is write_triple between "<<" and ">>" *)
Theorem compose_quad_spec q : compose_quad q = nq_write_quad q.
Proof. destruct q as [[[s p] o] [g|]]; cbn [compose_quad nq_write_quad]; rewrite <- ?app_assoc; reflexivity. Qed.
Theorem write_term_triple s p o :
  write_term (Triple s p o) = [60; 60] ++ write_triple s p o ++ [62; 62].
Proof. reflexivity. Qed.

(* ---- generalised RDF ---- *)
Lemma good_var s : var_ok s = true -> forallb good s = true.
Proof.
  unfold var_ok, scalar_str. intros H. apply andb_true_iff in H as [H Hs]. apply andb_true_iff in H as [_ Hp].
  clear -Hp Hs. induction s as [|c s IH]; [reflexivity|]. cbn [forallb] in *.
  apply andb_true_iff in Hp as [Hc Hp]. apply andb_true_iff in Hs as [Sc Hs].
  rewrite (IH Hp Hs), andb_true_r. unfold good. rewrite Sc, (pn_noeol c Hc). reflexivity.
Qed.

Lemma good_wt_gen : forall t, gwf t = true -> forallb good (wt t) = true.
Proof.
  induction t as [s|s|lex dt|lex tag|s IHs pr IHp o IHo|s]; intros H; cbn [gwf] in H; cbn [wt].
  - cbn [forallb]. rewrite good_app, (good_iri s H). reflexivity.
  - cbn [forallb]. rewrite (good_label s H). reflexivity.
  - apply andb_true_iff in H as [Hl Hdt].
    cbn [forallb]. rewrite good_app, (good_qs_cp lex Hl).
    destruct (negb (str_eqb xsd_string dt)); [|reflexivity].
    cbn [forallb]. rewrite good_app, (good_iri dt Hdt). reflexivity.
  - apply andb_true_iff in H as [Hl Ht].
    cbn [forallb]. rewrite good_app, (good_qs_cp lex Hl). cbn [forallb]. rewrite (good_langtag tag Ht). reflexivity.
  - apply andb_true_iff in H as [H Ho]. apply andb_true_iff in H as [Hs Hp].
    cbn [forallb]. rewrite good_app, (IHs Hs). cbn [forallb]. rewrite good_app, (IHp Hp).
    cbn [forallb]. rewrite good_app, (IHo Ho). reflexivity.
  - cbn [forallb]. rewrite (good_var s H). reflexivity.
Qed.

(* strict well-formedness at a position implies generalised well-formedness *)
Theorem wf_at_gwf : forall t p, wf_at p t = true -> gwf t = true.
Proof.
  induction t as [s|s|lex dt|lex tag|s IHs pr IHp o IHo|s]; intros p H; cbn [wf_at] in H; cbn [gwf].
  - exact H.
  - apply andb_true_iff in H as [_ H]. exact H.
  - apply andb_true_iff in H as [H Hdt]. apply andb_true_iff in H as [_ Hl]. rewrite Hl, Hdt. reflexivity.
  - apply andb_true_iff in H as [H Ht]. apply andb_true_iff in H as [_ Hl]. rewrite Hl, Ht. reflexivity.
  - apply andb_true_iff in H as [H Ho]. apply andb_true_iff in H as [H Hp]. apply andb_true_iff in H as [_ Hs].
    rewrite (IHs _ Hs), (IHp _ Hp), (IHo _ Ho). reflexivity.
  - discriminate.
Qed.
Theorem wf_quads_gwf qs : wf_quads qs = true -> gwf_quads qs = true.
Proof.
  unfold wf_quads, gwf_quads. induction qs as [|[[[s p] o] g] qs IH]; [reflexivity|]. cbn [forallb]. intros H.
  apply andb_true_iff in H as [Hq Hqs]. rewrite (IH Hqs), andb_true_r.
  cbn [wf_quad] in Hq. apply andb_true_iff in Hq as [Hq Hg]. apply andb_true_iff in Hq as [Hq Ho].
  apply andb_true_iff in Hq as [Hs Hp]. cbn [gwf_quad].
  rewrite (wf_at_gwf _ _ Hs), (wf_at_gwf _ _ Hp), (wf_at_gwf _ _ Ho).
  destruct g as [t|]; [exact (wf_at_gwf _ _ Hg)|reflexivity].
Qed.

Lemma wq_body_gen s p o g : gwf_quad (s, p, o, g) = true ->
  exists body, wq (s, p, o, g) = body ++ [10] /\ forallb good body = true.
Proof.
  intros Hwf. cbn [gwf_quad] in Hwf.
  apply andb_true_iff in Hwf as [Hwf Hg]. apply andb_true_iff in Hwf as [Hwf Ho].
  apply andb_true_iff in Hwf as [Hs Hp].
  exists (wt s ++ 32 :: wt p ++ 32 :: wt o ++ match g with None => [46] | Some t => 32 :: wt t ++ [46] end).
  split.
  - cbn [wq]. destruct g; repeat (rewrite <- ?app_assoc; cbn [app]); reflexivity.
  - rewrite good_app, (good_wt_gen s Hs). cbn [forallb]. rewrite good_app, (good_wt_gen p Hp).
    cbn [forallb]. rewrite good_app, (good_wt_gen o Ho).
    destruct g as [t|]; [|reflexivity]. cbn [forallb]. rewrite good_app, (good_wt_gen t Hg). reflexivity.
Qed.

(* one statement per line also for generalised quads (variables, literals as subjects, ...) *)
Theorem gen_statement_is_one_line q : gwf_quad q = true ->
  exists body, nq_write_quad q = body ++ [10] /\ count 10 body = 0%nat /\ count 13 body = 0%nat.
Proof.
  destruct q as [[[s p] o] g]. intros H. destruct (wq_body_gen s p o g H) as (body & E & Hb).
  exists (utf8 body). split; [|split].
  - pose proof (nq_write_utf8 [(s, p, o, g)]) as W. unfold nq_write, wdoc in W. cbn [flat_map] in W.
    rewrite !app_nil_r in W. rewrite W, E, utf8_app. reflexivity.
  - rewrite count_utf8 by lia. apply count_good; [reflexivity|assumption].
  - rewrite count_utf8 by lia. apply count_good; [reflexivity|assumption].
Qed.
Theorem gen_one_line_per_quad qs : gwf_quads qs = true ->
  count 10 (nq_write qs) = length qs /\ count 13 (nq_write qs) = 0%nat.
Proof.
  induction qs as [|q qs IH]; [split; reflexivity|]. cbn [gwf_quads forallb]. intros H.
  apply andb_true_iff in H as [Hq Hqs]. destruct (IH Hqs) as [I1 I2].
  destruct (gen_statement_is_one_line q Hq) as (body & E & B1 & B2).
  change (nq_write (q :: qs)) with (nq_write_quad q ++ nq_write qs).
  rewrite E, !count_app, I1, I2, B1, B2. split; reflexivity.
Qed.
