(* C14/RoundingProofs.v -- round-to-nearest-even (Rounding.v) is monotone and the identity on the
   numbers of the format; hence it satisfies [conv_ok] (Proofs.v), and the theorems that relate the
   ORDER BY comparator to the operator '<' hold for it without any hypothesis on the conversions. *)
From Coq Require Import QArith Qround Qpower Lia Lqa.
From Coq Require Import Sorting.Sorted Sorting.Permutation.
From Sophia.C14 Require Import Model Proofs Rounding.
Local Close Scope N_scope.
Local Open Scope Z_scope.
Local Open Scope Q_scope.

(* ================= powers of two ================= *)
Lemma two_neq_0 : ~ (2 # 1) == 0.
Proof. discriminate. Qed.
Lemma pow2_pos e : 0 < pow2 e.
Proof. apply Qpower_0_lt. reflexivity. Qed.
Lemma pow2_add a b : pow2 (a + b) == pow2 a * pow2 b.
Proof. apply Qpower_plus. exact two_neq_0. Qed.
Lemma pow2_le a b : (a <= b)%Z -> pow2 a <= pow2 b.
Proof. intros H. apply Qpower_le_compat_l; [exact H | discriminate]. Qed.
Lemma pow2_lt a b : (a < b)%Z -> pow2 a < pow2 b.
Proof. intros H. apply Qpower_lt_compat_l; [exact H | reflexivity]. Qed.
Lemma pow2_lt_inv a b : pow2 a < pow2 b -> (a < b)%Z.
Proof. intros H. apply (Qpower_lt_compat_l_inv (2 # 1)); [exact H | reflexivity]. Qed.
Lemma pow2_Z e : (0 <= e)%Z -> pow2 e == inject_Z (2 ^ e).
Proof. intros H. unfold pow2. rewrite Zpower_Qpower by exact H. reflexivity. Qed.
Lemma pow2_0 : pow2 0 == 1.
Proof. reflexivity. Qed.
Lemma pow2_cancel e : pow2 (- e) * pow2 e == 1.
Proof. rewrite <- pow2_add. replace (- e + e)%Z with 0%Z by lia. reflexivity. Qed.
Lemma pow2_shift a b : pow2 a * pow2 (b - a) == pow2 b.
Proof. rewrite <- pow2_add. replace (a + (b - a))%Z with b by lia. reflexivity. Qed.

Lemma inject_Z_le a b : (a <= b)%Z <-> inject_Z a <= inject_Z b.
Proof. rewrite Zle_Qle. reflexivity. Qed.
Lemma inject_Z_lt a b : (a < b)%Z <-> inject_Z a < inject_Z b.
Proof. rewrite Zlt_Qlt. reflexivity. Qed.

Lemma inj_le a b : (a <= b)%Z -> inject_Z a <= inject_Z b.
Proof. apply inject_Z_le. Qed.
Lemma inj_lt a b : (a < b)%Z -> inject_Z a < inject_Z b.
Proof. apply inject_Z_lt. Qed.

(* ================= nearest integer, ties to even ================= *)
Lemma rnd_even_cases y :
  let m := Qfloor y in
  (y - inject_Z m < 1 # 2 /\ rnd_even y = m)
  \/ (1 # 2 < y - inject_Z m /\ rnd_even y = (m + 1)%Z)
  \/ (y - inject_Z m == 1 # 2 /\ rnd_even y = (if Z.even m then m else m + 1)%Z).
Proof.
  intros m. unfold rnd_even. fold m.
  destruct (Qcompare (y - inject_Z m) (1 # 2)) eqn:C.
  - right; right. split; [apply Qeq_alt; exact C | reflexivity].
  - left. split; [apply Qlt_alt; exact C | reflexivity].
  - right; left. split; [apply Qgt_alt; exact C | reflexivity].
Qed.

Lemma floor_bounds y : inject_Z (Qfloor y) <= y /\ y < inject_Z (Qfloor y) + 1.
Proof.
  split; [apply Qfloor_le|].
  pose proof (Qlt_floor y) as H. rewrite inject_Z_plus in H. exact H.
Qed.

Lemma even_succ_even m : Z.even m = true -> Z.even (m + 1) = true -> False.
Proof. intros H1 H2. rewrite Z.even_add in H2. rewrite H1 in H2. discriminate. Qed.

Lemma rnd_even_mono x y : x <= y -> (rnd_even x <= rnd_even y)%Z.
Proof.
  intros H.
  pose proof (Qfloor_resp_le x y H) as Hf.
  pose proof (floor_bounds x) as [Bx1 Bx2]. pose proof (floor_bounds y) as [By1 By2].
  destruct (Z.eq_dec (Qfloor x) (Qfloor y)) as [E|N].
  - (* same integer part: compare the fractional parts *)
    pose proof (rnd_even_cases x) as Cx. pose proof (rnd_even_cases y) as Cy. cbv zeta in Cx, Cy.
    rewrite <- E in Cy.
    destruct Cx as [[Hx ->]|[[Hx ->]|[Hx ->]]]; destruct Cy as [[Hy ->]|[[Hy ->]|[Hy ->]]];
      try lia; try (exfalso; lra);
      destruct (Z.even (Qfloor x)); lia || (exfalso; lra).
  - assert (L : (Qfloor x + 1 <= Qfloor y)%Z) by lia.
    assert (Ux : (rnd_even x <= Qfloor x + 1)%Z).
    { destruct (rnd_even_cases x) as [[_ ->]|[[_ ->]|[_ ->]]]; try lia. destruct (Z.even (Qfloor x)); lia. }
    assert (Ly : (Qfloor y <= rnd_even y)%Z).
    { destruct (rnd_even_cases y) as [[_ ->]|[[_ ->]|[_ ->]]]; try lia. destruct (Z.even (Qfloor y)); lia. }
    lia.
Qed.

Lemma rnd_even_Z k : rnd_even (inject_Z k) = k.
Proof.
  unfold rnd_even. rewrite Qfloor_Z.
  assert (E : inject_Z k - inject_Z k == 0) by ring.
  rewrite E. reflexivity.
Qed.

Lemma rnd_even_le_Z x k : x <= inject_Z k -> (rnd_even x <= k)%Z.
Proof. intros H. rewrite <- (rnd_even_Z k). apply rnd_even_mono. exact H. Qed.
Lemma rnd_even_ge_Z x k : inject_Z k <= x -> (k <= rnd_even x)%Z.
Proof. intros H. rewrite <- (rnd_even_Z k) at 1. apply rnd_even_mono. exact H. Qed.

(* ================= floor of the binary logarithm ================= *)
Lemma Qmake_as_div n d : n # d == inject_Z n / inject_Z (Zpos d).
Proof. rewrite Qmake_Qdiv. reflexivity. Qed.

Lemma Qlog2_spec x : 0 < x -> pow2 (Qlog2 x) <= x /\ x < pow2 (Qlog2 x + 1).
Proof.
  destruct x as [n d]. intros Hx.
  assert (Hn : (0 < n)%Z).
  { unfold Qlt in Hx. simpl in Hx. lia. }
  assert (Hd : 0 < inject_Z (Zpos d)) by reflexivity.
  pose proof (Z.log2_spec n Hn) as [Ln1 Ln2].
  pose proof (Z.log2_spec (Zpos d) (Pos2Z.is_pos d)) as [Ld1 Ld2].
  pose proof (Z.log2_nonneg n) as Nn. pose proof (Z.log2_nonneg (Zpos d)) as Nd.
  set (ln := Z.log2 n) in *. set (ld := Z.log2 (Zpos d)) in *.
  apply inject_Z_le in Ln1, Ld1. apply inject_Z_lt in Ln2, Ld2.
  rewrite <- pow2_Z in Ln1, Ld1 by lia.
  replace (Z.succ ln) with (ln + 1)%Z in Ln2 by lia. replace (Z.succ ld) with (ld + 1)%Z in Ld2 by lia.
  rewrite <- pow2_Z in Ln2, Ld2 by lia.
  (* 2^(ln - ld - 1) <= n/d < 2^(ln - ld + 1) *)
  assert (A : pow2 (ln - ld - 1) <= n # d).
  { rewrite Qmake_as_div. apply Qle_shift_div_l; [exact Hd|].
    apply Qle_trans with (pow2 (ln - ld - 1) * pow2 (ld + 1)).
    - apply Qmult_le_l; [apply pow2_pos | apply Qlt_le_weak; exact Ld2].
    - rewrite <- pow2_add. replace (ln - ld - 1 + (ld + 1))%Z with ln by lia. exact Ln1. }
  assert (B : n # d < pow2 (ln - ld + 1)).
  { rewrite Qmake_as_div. apply Qlt_shift_div_r; [exact Hd|].
    apply Qlt_le_trans with (pow2 (ln - ld + 1) * pow2 ld).
    - rewrite <- pow2_add. replace (ln - ld + 1 + ld)%Z with (ln + 1)%Z by lia. exact Ln2.
    - apply Qmult_le_l; [apply pow2_pos | exact Ld1]. }
  unfold Qlog2. cbn [Qnum Qden]. fold ln ld.
  destruct (Qle_bool (pow2 (ln - ld)) (n # d)) eqn:T.
  - apply Qle_bool_iff in T. split; [exact T | exact B].
  - split; [exact A|].
    replace (ln - ld - 1 + 1)%Z with (ln - ld)%Z by lia.
    apply Qnot_le_lt. intros C. apply Qle_bool_iff in C. congruence.
Qed.

Lemma Qlog2_lt x k : 0 < x -> x < pow2 k -> (Qlog2 x < k)%Z.
Proof.
  intros Hx H. destruct (Qlog2_spec x Hx) as [L _].
  apply pow2_lt_inv. eapply Qle_lt_trans; eauto.
Qed.
Lemma Qlog2_ge x k : 0 < x -> pow2 k <= x -> (k <= Qlog2 x)%Z.
Proof.
  intros Hx H. destruct (Qlog2_spec x Hx) as [_ U].
  assert (K : (k < Qlog2 x + 1)%Z) by (apply pow2_lt_inv; eapply Qle_lt_trans; eauto). lia.
Qed.
Lemma Qlog2_mono x y : 0 < x -> x <= y -> (Qlog2 x <= Qlog2 y)%Z.
Proof.
  intros Hx H. apply Qlog2_ge; [eapply Qlt_le_trans; eauto|].
  destruct (Qlog2_spec x Hx) as [L _]. eapply Qle_trans; eauto.
Qed.

(* ================= rounding a positive rational ================= *)
Lemma scale_le x y e : x <= y * pow2 e -> x * pow2 (- e) <= y.
Proof.
  intros H. apply (Qmult_le_r _ _ (pow2 e)); [apply pow2_pos|].
  rewrite <- Qmult_assoc, pow2_cancel, Qmult_1_r. exact H.
Qed.
Lemma scale_ge x y e : y * pow2 e <= x -> y <= x * pow2 (- e).
Proof.
  intros H. apply (Qmult_le_r _ _ (pow2 e)); [apply pow2_pos|].
  rewrite <- Qmult_assoc, pow2_cancel, Qmult_1_r. exact H.
Qed.
Lemma grid_shift k e e' : (e <= e')%Z -> inject_Z k * pow2 e' == inject_Z (k * 2 ^ (e' - e)) * pow2 e.
Proof.
  intros H. rewrite inject_Z_mult, <- pow2_Z by lia.
  rewrite <- Qmult_assoc, (Qmult_comm (pow2 (e' - e))), pow2_shift. reflexivity.
Qed.

Section FormatProofs.
Variables prec emin emax : Z.
Hypothesis Hprec : (1 <= prec)%Z.

Let cexp := cexp prec emin.
(* the rounded magnitude of 0 < x, overflow apart *)
Definition mag (x : Q) : Q :=
  inject_Z (rnd_even (x * pow2 (- cexp x))) * pow2 (cexp x).

(* rounding never crosses a point k * 2^e' of a grid that contains the grid of the binade of x *)
Lemma grid_le x k e' : (cexp x <= e')%Z -> x <= inject_Z k * pow2 e' -> mag x <= inject_Z k * pow2 e'.
Proof.
  intros He H. unfold mag. set (e := cexp x) in *.
  rewrite (grid_shift k e e' He) in *.
  apply Qmult_le_r; [apply pow2_pos|].
  apply inj_le, rnd_even_le_Z, scale_le, H.
Qed.
Lemma grid_ge x k e' : (cexp x <= e')%Z -> inject_Z k * pow2 e' <= x -> inject_Z k * pow2 e' <= mag x.
Proof.
  intros He H. unfold mag. set (e := cexp x) in *.
  rewrite (grid_shift k e e' He) in *.
  apply Qmult_le_r; [apply pow2_pos|].
  apply inj_le, rnd_even_ge_Z, scale_ge, H.
Qed.

Lemma cexp_mono x y : 0 < x -> x <= y -> (cexp x <= cexp y)%Z.
Proof.
  intros Hx H. unfold cexp, Rounding.cexp.
  pose proof (Qlog2_mono x y Hx H). lia.
Qed.

Lemma mag_nonneg x : 0 < x -> 0 <= mag x.
Proof.
  intros Hx. assert (E : 0 == inject_Z 0 * pow2 (cexp x)) by ring.
  rewrite E. apply grid_ge; [lia|]. rewrite <- E. apply Qlt_le_weak, Hx.
Qed.

Theorem mag_mono x y : 0 < x -> x <= y -> mag x <= mag y.
Proof.
  intros Hx H.
  assert (Hy : 0 < y) by (eapply Qlt_le_trans; eauto).
  pose proof (cexp_mono x y Hx H) as Hc.
  destruct (Z.eq_dec (cexp x) (cexp y)) as [E|N].
  - unfold mag. rewrite E. apply Qmult_le_r; [apply pow2_pos|].
    apply inj_le, rnd_even_mono. apply Qmult_le_r; [apply pow2_pos | exact H].
  - (* the power of two at which the binade of y starts lies between x and y *)
    assert (L : (cexp x < cexp y)%Z) by lia.
    destruct (Qlog2_spec x Hx) as [_ Ux]. destruct (Qlog2_spec y Hy) as [Ly _].
    unfold cexp, Rounding.cexp in L. fold cexp in L.
    set (b := (cexp y + (prec - 1))%Z).
    assert (B1 : x <= inject_Z 1 * pow2 b).
    { rewrite Qmult_1_l. apply Qlt_le_weak. eapply Qlt_le_trans; [exact Ux|].
      apply pow2_le. unfold b, cexp, Rounding.cexp. lia. }
    assert (B2 : inject_Z (2 ^ (prec - 1)) * pow2 (cexp y) <= y).
    { rewrite <- pow2_Z by lia. rewrite <- pow2_add. eapply Qle_trans; [|exact Ly].
      apply pow2_le. unfold cexp, Rounding.cexp in *. lia. }
    apply Qle_trans with (inject_Z 1 * pow2 b).
    + apply grid_le; [unfold b; lia | exact B1].
    + assert (E : inject_Z 1 * pow2 b == inject_Z (2 ^ (prec - 1)) * pow2 (cexp y)).
      { rewrite Qmult_1_l. rewrite <- pow2_Z by lia. rewrite <- pow2_add. unfold b.
        replace (prec - 1 + cexp y)%Z with (cexp y + (prec - 1))%Z by lia. reflexivity. }
      rewrite E. apply grid_ge; [lia | exact B2].
Qed.

(* the identity on the grid points that have at most prec bits *)
Theorem mag_id x k e' : 0 < x -> x == inject_Z k * pow2 e' -> (k < 2 ^ prec)%Z -> (emin <= e')%Z -> mag x == x.
Proof.
  intros Hx E Hk He.
  assert (C : (cexp x <= e')%Z).
  { assert (U : x < pow2 (prec + e')).
    { rewrite E, pow2_add. apply Qmult_lt_r; [apply pow2_pos|].
      rewrite pow2_Z by lia. apply inj_lt. exact Hk. }
    pose proof (Qlog2_lt x _ Hx U). unfold cexp, Rounding.cexp. lia. }
  apply Qle_antisym.
  - rewrite E at 2. apply grid_le; [exact C | rewrite E; apply Qle_refl].
  - rewrite E at 1. apply grid_ge; [exact C | rewrite E; apply Qle_refl].
Qed.
End FormatProofs.

(* ================= signs, overflow, the values of the model ================= *)
Lemma q_of_fin_pow2 s m e :
  q_of_fin s m e == inject_Z (if s then - Z.of_N m else Z.of_N m) * pow2 e.
Proof.
  unfold q_of_fin. set (z := (if s then (- Z.of_N m)%Z else Z.of_N m)).
  destruct (0 <=? e)%Z eqn:E.
  - apply Z.leb_le in E. rewrite pow2_Z by exact E. rewrite <- inject_Z_mult. reflexivity.
  - apply Z.leb_gt in E.
    assert (P : (0 < 2 ^ (- e))%Z) by (apply Z.pow_pos_nonneg; lia).
    rewrite Qmake_as_div. rewrite Z2Pos.id by exact P.
    replace e with (- - e)%Z at 2 by lia. unfold pow2. rewrite Qpower_opp. fold (pow2 (- e)).
    rewrite pow2_Z by lia. reflexivity.
Qed.

Definition sval (s : bool) (v : Q) : Q := if s then - v else v.
Definition einf (s : bool) : ext := if s then ENInf else EPInf.
Definition ext_le (a b : ext) : Prop := ext_cmp a b <> Gt.

Lemma ext_le_fin p q : ext_le (EFin p) (EFin q) <-> p <= q.
Proof. unfold ext_le. simpl. symmetry. apply Qle_alt. Qed.
Lemma ext_le_trans a b c : ext_le a b -> ext_le b c -> ext_le a c.
Proof. apply (po_le_trans _ _ ext_cmp_preorder); exact I. Qed.
Lemma fl_le_ext a b x y : fl_ext a = Some x -> fl_ext b = Some y -> (fl_le a b <-> ext_le x y).
Proof. intros Ha Hb. unfold fl_le, ext_le. rewrite Ha, Hb. tauto. Qed.

Section Overflow.
Variable emax : Z.

(* E is the value, in the extended rationals, of the magnitude v with sign s *)
Definition over_rel (s : bool) (v : Q) (E : ext) : Prop :=
  (pow2 emax <= v /\ E = einf s) \/ (v < pow2 emax /\ exists q, E = EFin q /\ q == sval s v).

Lemma pack_over s m e : (0 <= m)%Z ->
  exists E, fl_ext (pack emax s (m, e)) = Some E /\ over_rel s (inject_Z m * pow2 e) E.
Proof.
  intros Hm. unfold pack.
  destruct (Qle_bool (pow2 emax) (inject_Z m * pow2 e)) eqn:T.
  - apply Qle_bool_iff in T. exists (einf s). split; [destruct s; reflexivity|]. left. auto.
  - exists (EFin (q_of_fin s (Z.to_N m) e)). split; [reflexivity|]. right. split.
    + apply Qnot_le_lt. intros C. apply Qle_bool_iff in C. congruence.
    + eexists. split; [reflexivity|]. rewrite q_of_fin_pow2, Z2N.id by exact Hm.
      destruct s; simpl; [rewrite inject_Z_opp; ring | reflexivity].
Qed.

Lemma zero_over s : over_rel s 0 (EFin (q_of_fin false 0 0)).
Proof.
  right. split; [apply pow2_pos|]. eexists. split; [reflexivity|]. destruct s; reflexivity.
Qed.

Lemma over_mono_pos v w E F : over_rel false v E -> over_rel false w F -> v <= w -> ext_le E F.
Proof.
  intros [[Hv ->]|[Hv (p & -> & Ep)]] [[Hw ->]|[Hw (q & -> & Eq)]] H; unfold ext_le; simpl; try discriminate.
  - exfalso. apply (Qlt_irrefl (pow2 emax)). eapply Qle_lt_trans; [exact Hv|]. eapply Qle_lt_trans; eauto.
  - fold (ext_le (EFin p) (EFin q)). apply ext_le_fin. simpl in Ep, Eq. rewrite Ep, Eq. exact H.
Qed.
Lemma over_mono_neg v w E F : over_rel true v E -> over_rel true w F -> v <= w -> ext_le F E.
Proof.
  intros [[Hv ->]|[Hv (p & -> & Ep)]] [[Hw ->]|[Hw (q & -> & Eq)]] H; unfold ext_le; simpl; try discriminate.
  - exfalso. apply (Qlt_irrefl (pow2 emax)). eapply Qle_lt_trans; [exact Hv|]. eapply Qle_lt_trans; eauto.
  - fold (ext_le (EFin q) (EFin p)). apply ext_le_fin. simpl in Ep, Eq. rewrite Ep, Eq.
    apply Qopp_le_compat. exact H.
Qed.
Lemma over_neg_pos v w E F : over_rel true v E -> over_rel false w F -> 0 <= v -> 0 <= w -> ext_le E F.
Proof.
  intros [[Hv ->]|[Hv (p & -> & Ep)]] [[Hw ->]|[Hw (q & -> & Eq)]] H0 H1; unfold ext_le; simpl; try discriminate.
  fold (ext_le (EFin p) (EFin q)). apply ext_le_fin. simpl in Ep, Eq. rewrite Ep, Eq. lra.
Qed.
End Overflow.

Lemma Qnum_sign x :
  match Qnum x with Z0 => x == 0 | Zpos _ => 0 < x | Zneg _ => 0 < - x end.
Proof. destruct x as [[|p|p] d]; reflexivity. Qed.

Section RoundProofs.
Variables prec emin emax : Z.
Hypothesis Hprec : (1 <= prec)%Z.

Let round_q := round_q prec emin emax.
Let mag := mag prec emin.

(* sign and magnitude of the result *)
Lemma round_q_spec x :
  exists s a E, fl_ext (round_q x) = Some E /\ over_rel emax s a E /\ 0 <= a /\
    ((0 < x /\ s = false /\ a = mag x) \/ (0 < - x /\ s = true /\ a = mag (- x)) \/ (x == 0 /\ a = 0)).
Proof.
  pose proof (Qnum_sign x) as S. unfold round_q, Rounding.round_q.
  destruct (Qnum x) eqn:N.
  - exists false, 0, (EFin (q_of_fin false 0 0)). split; [reflexivity|]. split; [apply zero_over|].
    split; [apply Qle_refl|]. right; right. auto.
  - assert (M : 0 <= mag x) by (apply mag_nonneg; assumption).
    destruct (pack_over emax false (rnd_even (x * pow2 (- cexp prec emin x))) (cexp prec emin x)) as (E & HE & O).
    { apply rnd_even_ge_Z. apply Qmult_le_0_compat; [apply Qlt_le_weak, S | apply Qlt_le_weak, pow2_pos]. }
    exists false, (mag x), E. split; [exact HE|]. split; [exact O|]. split; [exact M|]. left. auto.
  - assert (M : 0 <= mag (- x)) by (apply mag_nonneg; assumption).
    destruct (pack_over emax true (rnd_even (- x * pow2 (- cexp prec emin (- x)))) (cexp prec emin (- x))) as (E & HE & O).
    { apply rnd_even_ge_Z. apply Qmult_le_0_compat; [apply Qlt_le_weak, S | apply Qlt_le_weak, pow2_pos]. }
    exists true, (mag (- x)), E. split; [exact HE|]. split; [exact O|]. split; [exact M|]. right; left. auto.
Qed.

Lemma round_q_not_nan x : exists E, fl_ext (round_q x) = Some E.
Proof. destruct (round_q_spec x) as (s & a & E & H & _). eauto. Qed.

(* (a) monotone *)
Theorem round_q_monotone x y : x <= y -> fl_le (round_q x) (round_q y).
Proof.
  intros H.
  destruct (round_q_spec x) as (s & a & E & HE & OE & A0 & Cx).
  destruct (round_q_spec y) as (t & b & F & HF & OF & B0 & Cy).
  apply (fl_le_ext _ _ E F HE HF).
  destruct Cx as [(Px & -> & ->)|[(Px & -> & ->)|(Zx & ->)]];
    destruct Cy as [(Py & -> & ->)|[(Py & -> & ->)|(Zy & ->)]].
  - apply (over_mono_pos emax (mag x) (mag y)); auto. apply mag_mono; assumption.
  - exfalso. lra.
  - exfalso. lra.
  - apply (over_neg_pos emax (mag (- x)) (mag y)); auto.
  - apply (over_mono_neg emax (mag (- y)) (mag (- x))); auto. apply mag_mono; [assumption | assumption | lra].
  - destruct t.
    + apply (over_mono_neg emax 0 (mag (- x))); auto.
    + apply (over_neg_pos emax (mag (- x)) 0); auto.
  - destruct s.
    + apply (over_neg_pos emax 0 (mag y)); auto.
    + apply (over_mono_pos emax 0 (mag y)); auto.
  - exfalso. lra.
  - destruct s, t.
    + apply (over_mono_neg emax 0 0); auto.
    + apply (over_neg_pos emax 0 0); auto.
    + (* s = false, t = true cannot be produced, but the values are both zero anyway *)
      destruct OE as [[C _]|[_ (p & -> & Ep)]]; [exfalso; pose proof (pow2_pos emax); lra|].
      destruct OF as [[C _]|[_ (q & -> & Eq)]]; [exfalso; pose proof (pow2_pos emax); lra|].
      apply ext_le_fin. simpl in Ep, Eq. rewrite Ep, Eq. lra.
    + apply (over_mono_pos emax 0 0); auto.
Qed.
End RoundProofs.

Section RoundIdentity.
Variables prec emin emax : Z.
Hypothesis Hprec : (1 <= prec)%Z.

Let round_q := round_q prec emin emax.
Let mag := mag prec emin.

Lemma grid_sign z e : 0 < inject_Z z * pow2 e -> (0 < z)%Z.
Proof.
  intros H. apply inject_Z_lt.
  assert (E : inject_Z z == inject_Z z * pow2 e * pow2 (- e)).
  { rewrite <- Qmult_assoc, (Qmult_comm (pow2 e)), pow2_cancel. ring. }
  rewrite E. apply Qmult_lt_0_compat; [exact H | apply pow2_pos].
Qed.

Lemma grid_below_overflow k e' : (k < 2 ^ prec)%Z -> (e' + prec <= emax)%Z ->
  inject_Z k * pow2 e' < pow2 emax.
Proof.
  intros Hk He. apply Qlt_le_trans with (pow2 prec * pow2 e').
  - apply Qmult_lt_r; [apply pow2_pos|]. rewrite pow2_Z by lia. apply inj_lt, Hk.
  - rewrite <- pow2_add. apply pow2_le. lia.
Qed.

(* a number z * 2^e' with |z| < 2^prec and emin <= e' <= emax - prec is rounded to itself *)
Lemma round_q_value v z e' :
  v == inject_Z z * pow2 e' -> (Z.abs z < 2 ^ prec)%Z -> (emin <= e')%Z -> (e' + prec <= emax)%Z ->
  exists q, fl_ext (round_q v) = Some (EFin q) /\ q == v.
Proof.
  intros Ev Hz He1 He2.
  destruct (round_q_spec prec emin emax v) as (s & a & E & HE & OE & A0 & C).
  fold round_q in HE.
  assert (K : forall x k, 0 < x -> x == inject_Z k * pow2 e' -> (k < 2 ^ prec)%Z ->
              mag x == x /\ mag x < pow2 emax).
  { intros x k Hx Ex Hk. assert (M : mag x == x) by (apply (mag_id prec emin Hprec x k e'); assumption).
    split; [exact M|]. rewrite M, Ex. apply grid_below_overflow; assumption. }
  destruct C as [(Pv & -> & ->)|[(Pv & -> & ->)|(Zv & ->)]].
  - assert (Pz : (0 < z)%Z) by (apply (grid_sign z e'); rewrite <- Ev; exact Pv).
    destruct (K v z Pv Ev ltac:(lia)) as [M B].
    destruct OE as [[O _]|[_ (q & -> & Eq)]]; [exfalso; fold mag in O; lra|].
    exists q. split; [exact HE|]. simpl in Eq. fold mag in Eq. rewrite Eq. exact M.
  - assert (Ev' : - v == inject_Z (- z) * pow2 e') by (rewrite Ev, inject_Z_opp; ring).
    assert (Pz : (0 < - z)%Z) by (apply (grid_sign (- z) e'); rewrite <- Ev'; exact Pv).
    destruct (K (- v) (- z)%Z Pv Ev' ltac:(lia)) as [M B].
    destruct OE as [[O _]|[_ (q & -> & Eq)]]; [exfalso; fold mag in O; lra|].
    exists q. split; [exact HE|]. simpl in Eq. fold mag in Eq. rewrite Eq, M. ring.
  - destruct OE as [[O _]|[_ (q & -> & Eq)]]; [exfalso; pose proof (pow2_pos emax); lra|].
    exists q. split; [exact HE|]. rewrite Eq, Zv. destruct s; reflexivity.
Qed.

(* (b) the identity on the numbers of the format *)
Theorem round_q_identity s m e :
  in_format prec emin emax (FFin s m e) ->
  fl_partial_cmp (round_q (q_of_fin s m e)) (FFin s m e) = Some Eq.
Proof.
  intros (m' & e' & Hm & He1 & He2 & Ev).
  rewrite (q_of_fin_pow2 s m' e') in Ev.
  destruct (round_q_value (q_of_fin s m e) _ e' Ev) as (q & Hq & Eq); try assumption.
  { destruct s; lia. }
  unfold fl_partial_cmp. rewrite Hq. simpl. f_equal. apply Qeq_alt. exact Eq.
Qed.

Lemma in_format_b_sound f : in_format_b prec emin emax f = true -> in_format prec emin emax f.
Proof.
  destruct f as [| |s m e]; simpl; auto. intros H.
  apply andb_prop in H as [H H3]. apply andb_prop in H as [H1 H2].
  apply Z.ltb_lt in H1. apply Z.leb_le in H2, H3.
  exists m, e. split; [exact H1|]. split; [exact H2|]. split; [exact H3|]. reflexivity.
Qed.

(* (c) the rounding never crosses a number of the format *)
Theorem conv_round_ok : conv_ok (conv_round prec emin emax) (in_format prec emin emax).
Proof.
  intros n q f v Hn Hf Hv. unfold conv_round. rewrite Hn. fold round_q.
  destruct f as [|[|]|s m e]; try discriminate. simpl in Hv. injection Hv as <-.
  pose proof (round_q_identity s m e Hf) as Id.
  unfold fl_partial_cmp in Id. simpl fl_ext in Id.
  destruct (round_q_not_nan prec emin emax (q_of_fin s m e)) as (R & HR). fold round_q in HR.
  rewrite HR in Id. injection Id as Id.
  destruct (round_q_not_nan prec emin emax q) as (Rq & HRq). fold round_q in HRq.
  split; intros H.
  - pose proof (round_q_monotone prec emin emax Hprec _ _ H) as Mo. fold round_q in Mo.
    apply (fl_le_ext (round_q q) (FFin s m e) Rq (EFin (q_of_fin s m e)) HRq eq_refl).
    apply (fl_le_ext _ _ Rq R HRq HR) in Mo.
    eapply ext_le_trans; [exact Mo|]. unfold ext_le. rewrite Id. discriminate.
  - pose proof (round_q_monotone prec emin emax Hprec _ _ H) as Mo. fold round_q in Mo.
    apply (fl_le_ext (FFin s m e) (round_q q) (EFin (q_of_fin s m e)) Rq eq_refl HRq).
    apply (fl_le_ext _ _ R Rq HR HRq) in Mo.
    eapply ext_le_trans; [|exact Mo]. unfold ext_le. rewrite ext_cmp_antisym, Id. discriminate.
Qed.
End RoundIdentity.

(* ================= binary64 and binary32 ================= *)
Theorem round64_monotone x y : x <= y -> fl_le (round64 x) (round64 y).
Proof. apply round_q_monotone. lia. Qed.
Theorem round32_monotone x y : x <= y -> fl_le (round32 x) (round32 y).
Proof. apply round_q_monotone. lia. Qed.
Theorem round64_identity s m e : f64 (FFin s m e) -> fl_partial_cmp (round64 (q_of_fin s m e)) (FFin s m e) = Some Eq.
Proof. apply round_q_identity. lia. Qed.
Theorem round32_identity s m e : f32 (FFin s m e) -> fl_partial_cmp (round32 (q_of_fin s m e)) (FFin s m e) = Some Eq.
Proof. apply round_q_identity. lia. Qed.
Theorem round64_total x : exists E, fl_ext (round64 x) = Some E.
Proof. apply round_q_not_nan. Qed.
Theorem round32_total x : exists E, fl_ext (round32 x) = Some E.
Proof. apply round_q_not_nan. Qed.

(* the conversions of the integer and decimal variants are monotone in the exact value ... *)
Theorem c64_round_monotone n1 n2 q1 q2 :
  num_q n1 = Some q1 -> num_q n2 = Some q2 -> q1 <= q2 -> fl_le (c64_round n1) (c64_round n2).
Proof. intros H1 H2 H. unfold c64_round, conv_round. rewrite H1, H2. apply round64_monotone, H. Qed.
Theorem c32_round_monotone n1 n2 q1 q2 :
  num_q n1 = Some q1 -> num_q n2 = Some q2 -> q1 <= q2 -> fl_le (c32_round n1) (c32_round n2).
Proof. intros H1 H2 H. unfold c32_round, conv_round. rewrite H1, H2. apply round32_monotone, H. Qed.
(* ... and exact on the values of the format *)
Theorem c64_round_exact n s m e :
  num_q n = Some (q_of_fin s m e) -> f64 (FFin s m e) -> fl_partial_cmp (c64_round n) (FFin s m e) = Some Eq.
Proof. intros H F. unfold c64_round, conv_round. rewrite H. apply round64_identity, F. Qed.
Theorem c32_round_exact n s m e :
  num_q n = Some (q_of_fin s m e) -> f32 (FFin s m e) -> fl_partial_cmp (c32_round n) (FFin s m e) = Some Eq.
Proof. intros H F. unfold c32_round, conv_round. rewrite H. apply round32_identity, F. Qed.

(* (c) the hypothesis of Proofs.v is discharged *)
Theorem c64_round_ok : conv_ok c64_round f64.
Proof. apply conv_round_ok. lia. Qed.
Theorem c32_round_ok : conv_ok c32_round f32.
Proof. apply conv_round_ok. lia. Qed.

Theorem f64_b_sound f : f64_b f = true -> f64 f.
Proof. apply in_format_b_sound. Qed.
Theorem f32_b_sound f : f32_b f = true -> f32 f.
Proof. apply in_format_b_sound. Qed.
(* every binary32 number is a binary64 number (f32 -> f64 is exact) *)
Theorem f32_is_f64 f : f32 f -> f64 f.
Proof.
  destruct f as [| |s m e]; simpl; auto. intros (m' & e' & Hm & He1 & He2 & Ev).
  exists m', e'. split; [|split; [|split]]; try lia; try exact Ev.
Qed.

(* ================= (d) the cross-type theorems without any hypothesis on the conversions ================= *)
Definition item_fmt_ieee : item -> Prop := item_fmt f64 f32.
Definition row_fmt_ieee (r : row) : Prop :=
  Forall (fun k => match k with Some a => item_fmt_ieee a | None => True end) r.
(* the operator '<' of the engine with correctly rounded promotions *)
Definition sparql_cmp_ieee := sparql_cmp c64_round c32_round.
Definition lt_sparql_ieee := lt_sparql c64_round c32_round.
Definition sparql_compare_ieee := sparql_compare c64_round c32_round.
Definition num_partial_cmp_ieee := num_partial_cmp c64_round c32_round.

Theorem order_by_refines_cmp_ieee a b r :
  item_ok a -> item_ok b -> item_fmt_ieee a -> item_fmt_ieee b ->
  sparql_cmp_ieee a b = Some r -> r <> Eq -> order_by a b = r.
Proof. apply order_by_refines_cmp; [apply c64_round_ok | apply c32_round_ok]. Qed.
Theorem order_by_respects_lt_ieee a b :
  item_ok a -> item_ok b -> item_fmt_ieee a -> item_fmt_ieee b ->
  lt_sparql_ieee a b = Some true -> order_by a b = Lt.
Proof. apply order_by_respects_lt; [apply c64_round_ok | apply c32_round_ok]. Qed.
Theorem order_by_respects_compare_ieee a b :
  item_ok a -> item_ok b -> item_fmt_ieee a -> item_fmt_ieee b ->
  sparql_compare_ieee is_lt a b = Some true -> order_by a b = Lt.
Proof. apply order_by_respects_compare; [apply c64_round_ok | apply c32_round_ok]. Qed.
Theorem sorted_output_respects_lt_ieee d ds rows out :
  Forall (row_ok (d :: ds)) rows -> Forall row_fmt_ieee rows ->
  Permutation rows out -> Sorted (rows_le (d :: ds)) out ->
  forall i j a b, (i < j < length out)%nat ->
    hd None (nth i out []) = Some a -> hd None (nth j out []) = Some b ->
    (if d then lt_sparql_ieee a b else lt_sparql_ieee b a) <> Some true.
Proof. apply sorted_output_respects_lt; [apply c64_round_ok | apply c32_round_ok]. Qed.
Theorem sorted_output_respects_lt_at_key_ieee descs rows out :
  Forall (row_ok descs) rows -> Forall row_fmt_ieee rows ->
  Permutation rows out -> Sorted (rows_le descs) out ->
  forall i j k a b, (i < j < length out)%nat -> (k < length descs)%nat ->
    (forall m, (m < k)%nat ->
       key_cmp order_by (nth m (nth i out []) None) (nth m (nth j out []) None) = Eq) ->
    nth k (nth i out []) None = Some a -> nth k (nth j out []) None = Some b ->
    (if nth k descs false then lt_sparql_ieee a b else lt_sparql_ieee b a) <> Some true.
Proof. apply sorted_output_respects_lt_at_key; [apply c64_round_ok | apply c32_round_ok]. Qed.

(* numbers of different types: whenever the promoted comparison of an integer or decimal n with a
   double or float x answers Less or Greater, so does the comparison of the exact values *)
Theorem num_cmp_ieee_exact n1 n2 r :
  num_fmt f64 f32 n1 -> num_fmt f64 f32 n2 -> r <> Eq ->
  num_partial_cmp_ieee n1 n2 = Some r -> num_exact_cmp n1 n2 = Some r.
Proof. apply num_refine; [apply c64_round_ok | apply c32_round_ok]. Qed.
Theorem exact_vs_double_ieee n q s m e :
  num_q n = Some q -> f64 (FFin s m e) ->
  (num_partial_cmp_ieee n (Double (FFin s m e)) = Some Lt -> q < q_of_fin s m e)
  /\ (num_partial_cmp_ieee n (Double (FFin s m e)) = Some Gt -> q_of_fin s m e < q)
  /\ (num_partial_cmp_ieee (Double (FFin s m e)) n = Some Lt -> q_of_fin s m e < q)
  /\ (num_partial_cmp_ieee (Double (FFin s m e)) n = Some Gt -> q < q_of_fin s m e).
Proof.
  intros Hq F.
  assert (Fn : num_fmt f64 f32 n) by (destruct n; simpl in *; auto; discriminate).
  assert (X : forall r, r <> Eq -> num_partial_cmp_ieee n (Double (FFin s m e)) = Some r ->
              Qcompare (q_of_fin s m e) q = CompOpp r).
  { intros r Hr H. apply num_cmp_ieee_exact in H; auto.
    destruct n; try discriminate; unfold num_exact_cmp in H; simpl in H, Hq;
      injection Hq as <-; injection H as H; rewrite <- H; destruct (Qcompare _ _); reflexivity. }
  assert (Y : forall r, r <> Eq -> num_partial_cmp_ieee (Double (FFin s m e)) n = Some r ->
              Qcompare (q_of_fin s m e) q = r).
  { intros r Hr H. apply num_cmp_ieee_exact in H; auto.
    destruct n; try discriminate; unfold num_exact_cmp in H; simpl in H, Hq;
      injection Hq as <-; injection H as H; exact H. }
  repeat split; intros H.
  - apply X in H; [|discriminate]. apply Qgt_alt. exact H.
  - apply X in H; [|discriminate]. apply Qlt_alt. exact H.
  - apply Y in H; [|discriminate]. apply Qlt_alt. exact H.
  - apply Y in H; [|discriminate]. apply Qgt_alt. exact H.
Qed.
Theorem exact_vs_float_ieee n q s m e :
  num_q n = Some q -> f32 (FFin s m e) ->
  (num_partial_cmp_ieee n (Float (FFin s m e)) = Some Lt -> q < q_of_fin s m e)
  /\ (num_partial_cmp_ieee n (Float (FFin s m e)) = Some Gt -> q_of_fin s m e < q)
  /\ (num_partial_cmp_ieee (Float (FFin s m e)) n = Some Lt -> q_of_fin s m e < q)
  /\ (num_partial_cmp_ieee (Float (FFin s m e)) n = Some Gt -> q < q_of_fin s m e).
Proof.
  intros Hq F.
  assert (Fn : num_fmt f64 f32 n) by (destruct n; simpl in *; auto; discriminate).
  assert (X : forall r, r <> Eq -> num_partial_cmp_ieee n (Float (FFin s m e)) = Some r ->
              Qcompare (q_of_fin s m e) q = CompOpp r).
  { intros r Hr H. apply num_cmp_ieee_exact in H; auto.
    destruct n; try discriminate; unfold num_exact_cmp in H; simpl in H, Hq;
      injection Hq as <-; injection H as H; rewrite <- H; destruct (Qcompare _ _); reflexivity. }
  assert (Y : forall r, r <> Eq -> num_partial_cmp_ieee (Float (FFin s m e)) n = Some r ->
              Qcompare (q_of_fin s m e) q = r).
  { intros r Hr H. apply num_cmp_ieee_exact in H; auto.
    destruct n; try discriminate; unfold num_exact_cmp in H; simpl in H, Hq;
      injection Hq as <-; injection H as H; exact H. }
  repeat split; intros H.
  - apply X in H; [|discriminate]. apply Qgt_alt. exact H.
  - apply X in H; [|discriminate]. apply Qlt_alt. exact H.
  - apply Y in H; [|discriminate]. apply Qlt_alt. exact H.
  - apply Y in H; [|discriminate]. apply Qgt_alt. exact H.
Qed.
