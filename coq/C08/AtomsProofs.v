(* C08/AtomsProofs.v -- the atom table is a partition of the code points, and a class that passes
   the alignment check is exactly the union of the atoms it is abstracted to.  (No RelationAlgebra
   here: that library cannot be imported together with Coq's Bool.) *)
From Sophia.Common Require Import Prelude.
From Sophia.C08 Require Import Regex.

Lemma memN_In a l : memN a l = true <-> In a l.
Proof.
  unfold memN. rewrite existsb_exists. split.
  - intros [x [H1 H2]]. apply N.eqb_eq in H2. subst. exact H1.
  - intros H. exists a. split; [exact H | apply N.eqb_refl].
Qed.

Lemma dedup_In a l : In a (dedup l) <-> In a l.
Proof.
  induction l as [|x l IH]; simpl; [tauto|].
  destruct (memN x l) eqn:E.
  - rewrite IH. split; [auto|]. intros [->|H]; [apply memN_In; exact E | exact H].
  - simpl. rewrite IH. tauto.
Qed.

Lemma dedup_NoDup l : NoDup (dedup l).
Proof.
  induction l as [|x l IH]; simpl; [constructor|].
  destruct (memN x l) eqn:E; [exact IH|].
  constructor; [|exact IH]. rewrite dedup_In, <- memN_In, E. discriminate.
Qed.

(* ---- the table covers [lo, last] without gaps ---- *)
Lemma contiguous_head e t lo last : contiguous lo last (e :: t) = true ->
  e_lo e = lo /\ lo <= e_hi e /\
  match t with [] => e_hi e = last | _ :: _ => contiguous (e_hi e + 1) last t = true end.
Proof.
  simpl. destruct t; rewrite !andb_true_iff, N.eqb_eq, N.leb_le; [rewrite N.eqb_eq|]; tauto.
Qed.

Lemma contiguous_cover d : forall t lo last, contiguous lo last t = true ->
  forall c, lo <= c <= last ->
  exists e, In e t /\ e_lo e <= c <= e_hi e /\ lookup d t c = e_atom e.
Proof.
  induction t as [|e t IH]; intros lo last H c Hc; [discriminate|].
  destruct (contiguous_head _ _ _ _ H) as [Hlo [Hhi Ht]].
  destruct (N.le_gt_cases c (e_hi e)) as [Hin|Hout].
  - exists e. split; [left; reflexivity|]. split; [lia|].
    simpl. replace (e_lo e <=? c) with true by (symmetry; apply N.leb_le; lia).
    replace (c <=? e_hi e) with true by (symmetry; apply N.leb_le; lia). reflexivity.
  - destruct t as [|e' t']; [lia|].
    destruct (IH _ _ Ht c) as [x [Hx1 [Hx2 Hx3]]]; [lia|].
    exists x. split; [right; exact Hx1|]. split; [exact Hx2|].
    change (lookup d (e :: e' :: t') c) with
      (if (e_lo e <=? c) && (c <=? e_hi e) then e_atom e else lookup d (e' :: t') c).
    replace (c <=? e_hi e) with false by (symmetry; apply N.leb_gt; lia).
    rewrite andb_false_r. exact Hx3.
Qed.

(* entries start at or after lo and are non-empty *)
Lemma contiguous_lower : forall t lo last, contiguous lo last t = true ->
  forall e, In e t -> lo <= e_lo e /\ e_lo e <= e_hi e.
Proof.
  induction t as [|e t IH]; intros lo last H x Hx; [destruct Hx|].
  destruct (contiguous_head _ _ _ _ H) as [Hlo [Hhi Ht]].
  destruct Hx as [<-|Hx]; [lia|].
  destruct t as [|e' t']; [destruct Hx|]. pose proof (IH _ _ Ht x Hx). lia.
Qed.

Lemma contiguous_bound : forall t lo last, contiguous lo last t = true ->
  forall e, In e t -> e_hi e <= last.
Proof.
  induction t as [|e t IH]; intros lo last H x Hx; [destruct Hx|].
  destruct (contiguous_head _ _ _ _ H) as [Hlo [Hhi Ht]].
  destruct t as [|e' t'].
  - destruct Hx as [<-|[]]. lia.
  - destruct Hx as [<-|Hx].
    + pose proof (IH _ _ Ht e' (or_introl eq_refl)).
      pose proof (contiguous_lower _ _ _ Ht e' (or_introl eq_refl)). lia.
    + exact (IH _ _ Ht x Hx).
Qed.

Lemma lookup_outside d : forall t c, (forall e, In e t -> e_hi e < c) -> lookup d t c = d.
Proof.
  induction t as [|e t IH]; intros c H; [reflexivity|].
  simpl. replace (c <=? e_hi e) with false.
  - rewrite andb_false_r. apply IH. intros x Hx. apply H. right. exact Hx.
  - symmetry. apply N.leb_gt. apply H. left. reflexivity.
Qed.

(* every code point up to 0x10FFFF lies in exactly the entries of its atom... *)
Theorem table_covers t : table_ok t = true -> forall c, c <= max_cp ->
  exists e, In e t /\ e_lo e <= c <= e_hi e /\ lookup n_atoms t c = e_atom e /\ e_atom e < n_atoms.
Proof.
  intros H c Hc. apply andb_true_iff in H. destruct H as [H1 H2].
  destruct (contiguous_cover n_atoms t 0 max_cp H1 c) as [e [He1 [He2 He3]]]; [lia|].
  exists e. repeat split; try tauto.
  rewrite forallb_forall in H2. apply N.ltb_lt. exact (H2 e He1).
Qed.
(* ... and everything above is mapped to the out-of-table value *)
Theorem table_above t : table_ok t = true -> forall c, max_cp < c -> lookup n_atoms t c = n_atoms.
Proof.
  intros H c Hc. apply andb_true_iff in H. destruct H as [H1 _].
  apply lookup_outside. intros e He. pose proof (contiguous_bound t 0 max_cp H1 e He). lia.
Qed.

(* ---- an aligned class is the union of its atoms ---- *)
Lemma in_range_spec c r : in_range c r = true <-> fst r <= c <= snd r.
Proof. unfold in_range. rewrite andb_true_iff, !N.leb_le. tauto. Qed.

Theorem aligned_spec_t t rs : table_ok t = true -> aligned_t t rs = true ->
  forall c, inr c rs = memN (lookup n_atoms t c) (atoms_in_t t rs).
Proof.
  intros Ht Ha c. unfold aligned_t in Ha. cbv zeta in Ha. apply andb_true_iff in Ha. destruct Ha as [Ha Hb].
  rewrite forallb_forall in Ha, Hb.
  assert (Hmem : forall a, memN a (atoms_in_t t rs) = true ->
                           exists e, In e t /\ entry_in rs e = true /\ e_atom e = a).
  { intros a H. apply memN_In in H. unfold atoms_in_t in H. rewrite dedup_In in H.
    apply in_map_iff in H. destruct H as [e [E1 E2]]. apply filter_In in E2. exists e. tauto. }
  destruct (N.le_gt_cases c max_cp) as [Hc|Hc].
  - destruct (table_covers t Ht c Hc) as [e [He1 [He2 [He3 _]]]]. rewrite He3.
    specialize (Ha e He1). destruct (entry_in rs e) eqn:Ein.
    + (* inside *)
      assert (M : memN (e_atom e) (atoms_in_t t rs) = true).
      { apply memN_In. unfold atoms_in_t. rewrite dedup_In. apply in_map. apply filter_In. auto. }
      rewrite M. unfold entry_in in Ein. apply existsb_exists in Ein. destruct Ein as [r [R1 R2]].
      apply andb_true_iff in R2. destruct R2 as [R2 R3]. apply N.leb_le in R2, R3.
      unfold inr. apply existsb_exists. exists r. split; [exact R1|]. apply in_range_spec. lia.
    + apply andb_true_iff in Ha. destruct Ha as [Hout Hneg]. apply negb_true_iff in Hneg. rewrite Hneg.
      unfold inr. apply not_true_is_false. intros H. apply existsb_exists in H. destruct H as [r [R1 R2]].
      apply in_range_spec in R2. unfold entry_out in Hout. rewrite forallb_forall in Hout.
      specialize (Hout r R1). apply orb_true_iff in Hout. rewrite !N.ltb_lt in Hout. lia.
  - rewrite (table_above t Ht c Hc).
    replace (inr c rs) with false.
    + symmetry. apply not_true_is_false. intros H. destruct (Hmem _ H) as [e [E1 [_ E3]]].
      apply andb_true_iff in Ht. destruct Ht as [_ Ht]. rewrite forallb_forall in Ht.
      specialize (Ht e E1). apply N.ltb_lt in Ht. lia.
    + symmetry. apply not_true_is_false. intros H. unfold inr in H. apply existsb_exists in H.
      destruct H as [r [R1 R2]]. apply in_range_spec in R2. specialize (Hb r R1). apply N.leb_le in Hb. lia.
Qed.

(* the table in force *)
Lemma atom_table_ok : table_ok atom_table = true.
Proof. vm_compute. reflexivity. Qed.

Theorem aligned_spec rs : aligned rs = true ->
  forall c, inr c rs = memN (atom_of c) (atoms_in rs).
Proof. intros H c. exact (aligned_spec_t atom_table rs atom_table_ok H c). Qed.

(* PARTITION: atom_of is a total function, so the atoms are pairwise disjoint and exhaustive by
   construction; what has to be checked is that the table describes it range by range. *)
Theorem atoms_partition : forall c, c <= max_cp ->
  exists e, In e atom_table /\ e_lo e <= c <= e_hi e /\ atom_of c = e_atom e /\ atom_of c < n_atoms.
Proof.
  intros c Hc. destruct (table_covers atom_table atom_table_ok c Hc) as [e [H1 [H2 [H3 H4]]]].
  exists e. unfold atom_of. rewrite H3. auto.
Qed.
Theorem atoms_disjoint : forall c e1 e2, In e1 atom_table -> In e2 atom_table ->
  e_lo e1 <= c <= e_hi e1 -> e_lo e2 <= c <= e_hi e2 -> e1 = e2.
Proof.
  assert (D : forall t lo last, contiguous lo last t = true ->
              forall c e1 e2, In e1 t -> In e2 t ->
              e_lo e1 <= c <= e_hi e1 -> e_lo e2 <= c <= e_hi e2 -> e1 = e2).
  { induction t as [|e t IH]; intros lo last H c e1 e2 H1 H2 R1 R2; [destruct H1|].
    destruct (contiguous_head _ _ _ _ H) as [Hlo [Hhi Ht]].
    destruct t as [|e' t'].
    - destruct H1 as [<-|[]]. destruct H2 as [<-|[]]. reflexivity.
    - destruct H1 as [<-|H1]; destruct H2 as [<-|H2]; try reflexivity.
      + pose proof (contiguous_lower _ _ _ Ht e2 H2). lia.
      + pose proof (contiguous_lower _ _ _ Ht e1 H1). lia.
      + exact (IH _ _ Ht c e1 e2 H1 H2 R1 R2). }
  intros c e1 e2 H1 H2 R1 R2.
  pose proof atom_table_ok as T. apply andb_true_iff in T. destruct T as [T _].
  exact (D _ _ _ T c e1 e2 H1 H2 R1 R2).
Qed.
