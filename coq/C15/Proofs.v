(* C15/Proofs.v -- a pipeline delivers exactly the filter_map image of the prefix before the
   fault, in order, pulls nothing after it, and blames the right side. *)
From Sophia.C15 Require Import Model.

Section P.
Variable St : Type.

Lemma wrap_through chain (f : sink St) x st :
  wrap St chain f x st = match through chain x with Some y => f y st | None => (st, None) end.
Proof.
  revert x; induction chain as [|a c IH]; intros x; simpl; auto.
  destruct a as [p|m|m]; simpl.
  - destruct (p x); auto.
  - apply IH.
  - destruct (m x); auto.
Qed.

(* refinement: the adapter stack is the two-line specification *)
Theorem try_for_each_spec src chain (f : sink St) st :
  try_for_each St src chain f st = spec St src chain f st.
Proof.
  revert st; induction src as [|[x|e] rest IH]; intros st; simpl; auto.
  rewrite wrap_through. destruct (through chain x) as [y|]; simpl.
  - destruct (f y st) as [st' [e|]]; auto.
  - apply IH.
Qed.

(* step-wise driving (try_for_some_item in a loop) is whole-stream driving *)
Theorem stepwise_is_try_for_each src chain (f : sink St) st fuel :
  (length src < fuel)%nat ->
  stepwise St fuel src chain f st = try_for_each St src chain f st.
Proof.
  revert src st; induction fuel as [|n IH]; intros src st H; [inversion H|].
  destruct src as [|[x|e] rest]; simpl; auto.
  destruct (wrap St chain f x st) as [st' [e|]]; auto.
  apply IH. simpl in H. lia.
Qed.

(* try_for_some_item pulls at most one element and never reorders *)
Theorem try_for_some_pulls_one src chain (f : sink St) st :
  let '(rest, _, o) := try_for_some St src chain f st in
  match src with
  | [] => rest = [] /\ o = Done
  | _ :: tl => rest = tl
  end.
Proof.
  destruct src as [|[x|e] rest]; simpl; auto.
  destruct (wrap St chain f x st) as [st' [e|]]; auto.
Qed.
End P.

(* ---------- the recording consumer ---------- *)
Definition fm (chain : list adapter) (l : list item) : list item :=
  flat_map (fun x => match through chain x with Some y => [y] | None => [] end) l.

Definition not_reached (fault : option (nat * err)) (n : nat) : Prop :=
  match fault with None => True | Some (j, _) => (n <= j)%nat end.

Lemma fm_app chain a b : fm chain (a ++ b) = fm chain a ++ fm chain b.
Proof. unfold fm. apply flat_map_app. Qed.

Lemma rec_prefix chain fault pre : forall st tail,
  not_reached fault (length (st ++ fm chain pre)) ->
  try_for_each _ (map inl pre ++ tail) chain (rec_sink fault) st =
  try_for_each _ tail chain (rec_sink fault) (st ++ fm chain pre).
Proof.
  induction pre as [|x pre IH]; intros st tail H; simpl.
  - rewrite app_nil_r. reflexivity.
  - rewrite wrap_through. unfold fm in *. simpl in *.
    destruct (through chain x) as [y|]; simpl in *.
    + assert (Hs : rec_sink fault y st = (st ++ [y], None)).
      { unfold rec_sink. destruct fault as [[j e]|]; auto.
        simpl in H. rewrite app_length in H. simpl in H.
        destruct (Nat.eqb_spec (length st) j); auto. lia. }
      rewrite Hs. rewrite IH.
      * rewrite <- app_assoc. reflexivity.
      * rewrite <- app_assoc. exact H.
    + apply IH. exact H.
Qed.

(* (a) source fault at position k = length pre: exactly the items before it were consumed,
   nothing after it was pulled, the error is the source's, carrying the original value *)
Theorem source_fault_prefix chain fault pre e post st :
  not_reached fault (length (st ++ fm chain pre)) ->
  try_for_each _ (map inl pre ++ inr e :: post) chain (rec_sink fault) st
  = (post, st ++ fm chain pre, SourceError e).
Proof. intros H. rewrite rec_prefix by exact H. reflexivity. Qed.

(* (b) sink fault on the item y produced from x: everything before was consumed once and in
   order, y is the last thing the consumer saw, nothing after x was pulled (post untouched,
   whatever it contains), the error is the sink's, carrying the original value *)
Theorem sink_fault_prefix chain pre x y post j e st :
  through chain x = Some y ->
  length (st ++ fm chain pre) = j ->
  try_for_each _ (map inl pre ++ inl x :: post) chain (rec_sink (Some (j, e))) st
  = (post, st ++ fm chain pre ++ [y], SinkError e).
Proof.
  intros Hx Hj. rewrite rec_prefix by (simpl; lia). simpl.
  rewrite wrap_through, Hx. unfold rec_sink. rewrite Hj, Nat.eqb_refl.
  rewrite <- app_assoc. reflexivity.
Qed.

(* (c) no fault: the whole filter_map image, in order, each once *)
Theorem no_fault_all chain fault items st :
  not_reached fault (length (st ++ fm chain items)) ->
  try_for_each _ (map inl items) chain (rec_sink fault) st = ([], st ++ fm chain items, Done).
Proof.
  intros H. rewrite <- (app_nil_r (map inl items)). rewrite rec_prefix by exact H. reflexivity.
Qed.

(* the chain as a whole is `filter_map`: order-preserving, each passing item exactly once *)
Lemma fm_nil l : fm [] l = l.
Proof. unfold fm. induction l as [|x l IH]; simpl in *; [reflexivity | f_equal; exact IH]. Qed.
Lemma fm_filter p c l : fm (AFilter p :: c) l = fm c (filter p l).
Proof. unfold fm. induction l as [|x l IH]; simpl in *; auto. destruct (p x); simpl; rewrite IH; auto. Qed.
Lemma fm_map m c l : fm (AMap m :: c) l = fm c (map m l).
Proof. unfold fm. induction l as [|x l IH]; simpl in *; auto. rewrite IH; auto. Qed.

(* ---------- insert_all / remove_all counts ---------- *)
Lemma existsb_In x s : existsb (N.eqb x) s = true <-> In x s.
Proof.
  rewrite existsb_exists. split.
  - intros [y [H E]]. apply N.eqb_eq in E. subst; auto.
  - intros H. exists x. split; auto. apply N.eqb_refl.
Qed.

Lemma NoDup_app_single_N (l : list N) x : NoDup l -> ~ In x l -> NoDup (l ++ [x]).
Proof.
  induction l as [|y l IH]; simpl; intros Hn Hx.
  - constructor; [intros []|constructor].
  - inversion Hn; subst. constructor.
    + rewrite in_app_iff. simpl. intuition.
    + apply IH; auto.
Qed.

Theorem insert_all_count chain items : forall s c,
  NoDup s ->
  let '(rest, (s', c'), o) := try_for_each _ (map inl items) chain (insert_sink None 0) (s, c) in
  o = Done /\ rest = [] /\ NoDup s'
  /\ (c' - c = length s' - length s)%nat /\ (c <= c')%nat
  /\ (forall x, In x s' <-> In x s \/ In x (fm chain items)).
Proof.
  induction items as [|x items IH]; intros s c Hn; simpl.
  - repeat split; auto; try lia. intros [H|[]]; auto.
  - rewrite wrap_through. unfold fm. simpl.
    destruct (through chain x) as [y|]; simpl.
    + destruct (existsb (N.eqb y) s) eqn:E.
      * specialize (IH s c Hn).
        destruct (try_for_each _ (map inl items) chain (insert_sink None 0) (s, c)) as [[rest [s' c']] o].
        destruct IH as (H1 & H2 & H3 & H4 & H5 & H6). repeat split; auto.
        -- intros H. apply H6 in H. tauto.
        -- intros [H|[H|H]]; apply H6; auto. subst. left. apply existsb_In. exact E.
      * assert (Hn' : NoDup (s ++ [y])).
        { apply NoDup_app_single_N; auto. rewrite <- existsb_In. congruence. }
        specialize (IH (s ++ [y]) (S c) Hn').
        destruct (try_for_each _ (map inl items) chain (insert_sink None 0) (s ++ [y], S c)) as [[rest [s' c']] o].
        destruct IH as (H1 & H2 & H3 & H4 & H5 & H6). rewrite app_length in H4. simpl in H4.
        assert (length s + 1 <= length s')%nat.
        { assert (Hle : (length (s ++ [y]) <= length s')%nat).
          { apply NoDup_incl_length; auto. intros z Hz. apply H6. left. exact Hz. }
          rewrite app_length in Hle. simpl in Hle. exact Hle. }
        repeat split; auto; try lia.
        -- intros H0. apply H6 in H0. rewrite in_app_iff in H0. simpl in H0. tauto.
        -- intros H0. apply H6. rewrite in_app_iff. simpl. tauto.
    + apply IH. exact Hn.
Qed.
