(* C10/QueryProofs.v -- the indexes of a store always hold the same statements; every query, whatever index it
   is answered from, returns exactly the statements of the store that match; queries change nothing; a clone
   answers as its original did when it was cloned, whatever is done to the original (or to any other store)
   afterwards. *)
From Sophia.C10 Require Import Query.

Definition normal (d : design) (q : quad) : Prop := norm d q = q.
Definition known_quad (st : qstore) (q : quad) : Prop :=
  forallb (knows (q_terms st)) (quad_terms (q_design st) q) = true.
(* every index is the image of ONE list of statements *)
Definition Qwf_by (st : qstore) (l : list quad) : Prop :=
  q_idx st = map (fun o => map (key_of o) l) (orders (q_design st))
  /\ Forall (normal (q_design st)) l
  /\ Forall (known_quad st) l.
Definition Qwf (st : qstore) : Prop := exists l, Qwf_by st l.

Lemma quad_eqb_eq a b : quad_eqb a b = true <-> a = b.
Proof.
  destruct a, b; unfold quad_eqb; simpl. rewrite !andb_true_iff, !N.eqb_eq. split.
  - intros [[[-> ->] ->] ->]; reflexivity.
  - intros E; injection E; auto.
Qed.
Lemma quad_eqb_refl a : quad_eqb a a = true.
Proof. apply quad_eqb_eq; reflexivity. Qed.
Lemma ord_eqb_eq a b : ord_eqb a b = true <-> a = b.
Proof. destruct a, b; simpl; split; congruence. Qed.

Lemma primary_head d : exists r, orders d = primary d :: r.
Proof. destruct d; simpl; eauto. Qed.
Lemma primary_in d : In (primary d) (orders d).
Proof. destruct (primary_head d) as [r ->]; left; reflexivity. Qed.

Lemma unkey_key_of d o q : In o (orders d) -> normal d q -> unkey o (key_of o q) = q.
Proof.
  unfold normal, norm; destruct q as [g s p o']; destruct d; simpl; intros Hin Hn;
    repeat (destruct Hin as [<-|Hin]; [simpl; congruence|]); destruct Hin.
Qed.

Lemma key_of_inj d o q q' : In o (orders d) -> normal d q -> normal d q' ->
  str_eqb (key_of o q) (key_of o q') = quad_eqb q q'.
Proof.
  unfold normal, norm, quad_eqb; destruct q as [g s p o1], q' as [g' s' p' o1']; destruct d; simpl; intros Hin Hn Hn';
    try (injection Hn as <-; injection Hn' as <-);
    repeat (destruct Hin as [<-|Hin];
      [simpl; repeat match goal with |- context [N.eqb ?a ?b] => destruct (N.eqb a b) end; reflexivity|]); destruct Hin.
Qed.

Lemma mem_key_map d o q l : In o (orders d) -> normal d q -> Forall (normal d) l ->
  mem_key (key_of o q) (map (key_of o) l) = mem_quad q l.
Proof.
  intros Ho Hq Hl; induction Hl as [|x l Hx Hl IH]; simpl; [reflexivity|].
  rewrite (key_of_inj d o q x Ho Hq Hx), IH; reflexivity.
Qed.

Definition add_quad (q : quad) (l : list quad) : list quad := if mem_quad q l then l else l ++ [q].
Definition del_quad (q : quad) (l : list quad) : list quad := filter (fun x => negb (quad_eqb q x)) l.

Lemma set_add_map d o q l : In o (orders d) -> normal d q -> Forall (normal d) l ->
  set_add (key_of o q) (map (key_of o) l) = map (key_of o) (add_quad q l).
Proof.
  intros Ho Hq Hl; unfold set_add, add_quad; rewrite (mem_key_map d o q l Ho Hq Hl).
  destruct (mem_quad q l); [reflexivity|]. rewrite map_app; reflexivity.
Qed.
Lemma set_del_map d o q l : In o (orders d) -> normal d q -> Forall (normal d) l ->
  set_del (key_of o q) (map (key_of o) l) = map (key_of o) (del_quad q l).
Proof.
  intros Ho Hq Hl; induction Hl as [|x l Hx Hl IH]; simpl; [reflexivity|].
  unfold set_del, del_quad in *; simpl. rewrite (key_of_inj d o q x Ho Hq Hx).
  destruct (quad_eqb q x); simpl; rewrite IH; reflexivity.
Qed.

Lemma map_combine_map {A B C} (f : A -> B -> C) (h : A -> B) (os : list A) :
  map (fun oi => f (fst oi) (snd oi)) (combine os (map h os)) = map (fun o => f o (h o)) os.
Proof. induction os as [|o os IH]; simpl; [reflexivity|]. rewrite IH; reflexivity. Qed.

Lemma lookup_map (h : ord -> list qkey) (os : list ord) o : In o os -> lookup o (combine os (map h os)) = h o.
Proof.
  induction os as [|o' os IH]; simpl; [tauto|]. intros [->|Hin].
  - replace (ord_eqb o o) with true by (symmetry; apply ord_eqb_eq; reflexivity). reflexivity.
  - destruct (ord_eqb o o') eqn:E; [apply ord_eqb_eq in E; subst; reflexivity|auto].
Qed.

Lemma decode_map d o l : In o (orders d) -> Forall (normal d) l -> map (unkey o) (map (key_of o) l) = l.
Proof.
  intros Ho Hl; induction Hl as [|x l Hx Hl IH]; simpl; [reflexivity|].
  rewrite (unkey_key_of d o x Ho Hx), IH; reflexivity.
Qed.

Lemma prim_idx_by st l : Qwf_by st l -> prim_idx st = map (key_of (primary (q_design st))) l.
Proof.
  intros (Hi & _ & _). unfold prim_idx; rewrite Hi. destruct (primary_head (q_design st)) as [r ->]; reflexivity.
Qed.
(* the list behind the invariant is the list of statements of the store *)
Lemma stmts_by st l : Qwf_by st l -> stmts st = l.
Proof.
  intros H; unfold stmts; rewrite (prim_idx_by st l H). destruct H as (_ & Hn & _).
  apply (decode_map (q_design st)); [apply primary_in|exact Hn].
Qed.
Lemma Qwf_stmts st : Qwf st -> Qwf_by st (stmts st).
Proof. intros [l H]; rewrite (stmts_by st l H); exact H. Qed.
Lemma idx_of_by st l o : Qwf_by st l -> In o (orders (q_design st)) -> idx_of st o = map (key_of o) l.
Proof. intros (Hi & _ & _) Ho; unfold idx_of; rewrite Hi. apply (lookup_map (fun o => map (key_of o) l)); exact Ho. Qed.

(* ---- the term index ---- *)
Lemma knows_app ts t x : knows (ts ++ [t]) x = knows ts x || N.eqb x t.
Proof. unfold knows; rewrite existsb_app; simpl; rewrite orb_false_r; reflexivity. Qed.
Lemma knows_add_term ts t x : knows (add_term ts t) x = knows ts x || N.eqb x t.
Proof.
  unfold add_term; destruct (knows ts t) eqn:E; [|apply knows_app].
  destruct (N.eqb_spec x t) as [->|]; [rewrite E; reflexivity|rewrite orb_false_r; reflexivity].
Qed.
Lemma knows_fold l : forall ts x, knows (fold_left add_term l ts) x = knows ts x || knows l x.
Proof.
  induction l as [|t l IH]; intros ts x; simpl; [rewrite orb_false_r; reflexivity|].
  rewrite IH, knows_add_term, <- orb_assoc; reflexivity.
Qed.
Lemma knows_self l t : In t l -> knows l t = true.
Proof. intros H; unfold knows; apply existsb_exists; exists t; split; [exact H|apply N.eqb_refl]. Qed.
Lemma forallb_knows_mono ts ts' l : (forall x, knows ts x = true -> knows ts' x = true) ->
  forallb (knows ts) l = true -> forallb (knows ts') l = true.
Proof. intros Hm; rewrite !forallb_forall; intros H x Hx; apply Hm, H, Hx. Qed.

Lemma normal_norm d q : normal d (norm d q).
Proof. unfold normal, norm; destruct (is_graph d); reflexivity. Qed.
Lemma q_design_insert st q : q_design (fst (q_insert st q)) = q_design st.
Proof. unfold q_insert; destruct (mem_key _ _); reflexivity. Qed.
Lemma q_design_remove st q : q_design (fst (q_remove st q)) = q_design st.
Proof. unfold q_remove; destruct (negb _); [reflexivity|]; destruct (mem_key _ _); reflexivity. Qed.

Lemma mem_quad_In q l : mem_quad q l = true <-> In q l.
Proof.
  unfold mem_quad; rewrite existsb_exists; split.
  - intros (x & Hx & E); apply quad_eqb_eq in E; subst; exact Hx.
  - intros H; exists q; split; [exact H|apply quad_eqb_refl].
Qed.

(* ---- insert ---- *)
Theorem q_insert_by st l q : Qwf_by st l ->
  Qwf_by (fst (q_insert st q)) (add_quad (norm (q_design st) q) l)
  /\ snd (q_insert st q) = negb (mem_quad (norm (q_design st) q) l).
Proof.
  intros H; pose proof (prim_idx_by st l H) as Hp; destruct H as (Hi & Hn & Hk).
  set (d := q_design st) in *; set (q' := norm d q).
  assert (Hq' : normal d q') by apply normal_norm.
  assert (Hmono : forall x, knows (q_terms st) x = true -> knows (fold_left add_term (quad_terms d q') (q_terms st)) x = true)
    by (intros x Hx; rewrite knows_fold, Hx; reflexivity).
  assert (Hk' : forall ix, Forall (known_quad (mkQS d (fold_left add_term (quad_terms d q') (q_terms st)) ix)) l).
  { intros ix; eapply Forall_impl; [|exact Hk]. intros x Hx; unfold known_quad in *; simpl.
    eapply forallb_knows_mono; [exact Hmono|exact Hx]. }
  assert (Hnew : forall ix, known_quad (mkQS d (fold_left add_term (quad_terms d q') (q_terms st)) ix) q').
  { intros ix; unfold known_quad; simpl. apply forallb_forall; intros x Hx. rewrite knows_fold, (knows_self _ _ Hx), orb_true_r; reflexivity. }
  unfold q_insert; fold d; fold q'. rewrite Hp; fold d.
  rewrite (mem_key_map d (primary d) q' l (primary_in d) Hq' Hn). unfold add_quad.
  destruct (mem_quad q' l) eqn:E; simpl; (split; [|reflexivity]); split; simpl.
  - exact Hi.
  - split; [exact Hn|apply Hk'].
  - rewrite Hi. rewrite (map_combine_map (fun o ix => set_add (key_of o q') ix) (fun o => map (key_of o) l)).
    apply map_ext_in; intros o Ho. rewrite (set_add_map d o q' l Ho Hq' Hn). unfold add_quad; rewrite E; reflexivity.
  - split.
    + apply Forall_app; split; [exact Hn|constructor; [exact Hq'|constructor]].
    + apply Forall_app; split; [apply Hk'|constructor; [apply Hnew|constructor]].
Qed.

(* ---- remove ---- *)
Lemma known_of_member st l q : Forall (known_quad st) l -> In q l -> known_quad st q.
Proof. intros H Hin; rewrite Forall_forall in H; apply H, Hin. Qed.
Lemma del_absent q l : mem_quad q l = false -> del_quad q l = l.
Proof.
  intros H; unfold del_quad; induction l as [|x l IH]; simpl; [reflexivity|].
  simpl in H; apply orb_false_iff in H as [Hx Hl]. rewrite Hx; simpl; rewrite (IH Hl); reflexivity.
Qed.
Theorem q_remove_by st l q : Qwf_by st l ->
  Qwf_by (fst (q_remove st q)) (del_quad (norm (q_design st) q) l)
  /\ snd (q_remove st q) = mem_quad (norm (q_design st) q) l.
Proof.
  intros H; pose proof (prim_idx_by st l H) as Hp; pose proof H as (Hi & Hn & Hk).
  set (d := q_design st) in *; set (q' := norm d q).
  assert (Hq' : normal d q') by apply normal_norm.
  unfold q_remove; fold d; fold q'.
  destruct (forallb (knows (q_terms st)) (quad_terms d q')) eqn:Ek; simpl.
  - rewrite Hp; fold d. rewrite (mem_key_map d (primary d) q' l (primary_in d) Hq' Hn).
    destruct (mem_quad q' l) eqn:E; simpl.
    + split; [|reflexivity]. split; simpl; [|split].
      * rewrite Hi. rewrite (map_combine_map (fun o ix => set_del (key_of o q') ix) (fun o => map (key_of o) l)).
        apply map_ext_in; intros o Ho. apply (set_del_map d o q' l Ho Hq' Hn).
      * unfold del_quad; apply Forall_forall; intros x Hx; apply filter_In in Hx as [Hx _]. rewrite Forall_forall in Hn; apply Hn, Hx.
      * unfold del_quad; apply Forall_forall; intros x Hx; apply filter_In in Hx as [Hx _].
        rewrite Forall_forall in Hk; apply (Hk x Hx).
    + rewrite (del_absent q' l E); split; [exact H|reflexivity].
  - (* a term the index does not know: the statement is not there *)
    assert (E : mem_quad q' l = false).
    { destruct (mem_quad q' l) eqn:E; [|reflexivity]. apply mem_quad_In in E.
      pose proof (known_of_member st l q' Hk E) as K; unfold known_quad in K; fold d in K; congruence. }
    rewrite (del_absent q' l E), E; split; [exact H|reflexivity].
Qed.

(* ---- queries ---- *)
Lemma pick_in_orders d g s p o : (is_graph d = true -> g = false) -> In (pick d g s p o) (orders d).
Proof. destruct d, g, s, p, o; simpl; intros H; try (specialize (H eq_refl); discriminate); tauto. Qed.

(* a statement that matches a pattern carries the pattern's constants, and the store knows them *)
Lemma match_consts_known st p q : normal (q_design st) q -> known_quad st q -> pat_matches (q_design st) p q = true ->
  forallb (knows (q_terms st)) (pat_consts (q_design st) p) = true.
Proof.
  unfold normal, known_quad, pat_matches, pat_consts, eff_bg, quad_terms, norm.
  destruct p as [g s p' o pr]; destruct pr as [pg ps pp po]; destruct q as [g0 s0 p0 o0]; simpl.
  set (d := q_design st); intros Hn Hk Hm.
  rewrite !andb_true_iff in Hm; destruct Hm as [[[Mg Ms] Mp] Mo].
  assert (Ks : knows (q_terms st) s0 = true /\ knows (q_terms st) p0 = true /\ knows (q_terms st) o0 = true
               /\ (is_graph d = false -> N.eqb g0 0 = false -> knows (q_terms st) g0 = true)).
  { destruct (is_graph d); simpl in Hk.
    - rewrite !andb_true_iff in Hk; intuition discriminate.
    - destruct (N.eqb g0 0); simpl in Hk; rewrite !andb_true_iff in Hk; intuition discriminate. }
  destruct Ks as (K1 & K2 & K3 & K4).
  rewrite !forallb_app, !andb_true_iff. repeat split.
  - destruct s; simpl in *; [apply N.eqb_eq in Ms; subst; rewrite K1|]; reflexivity.
  - destruct p'; simpl in *; [apply N.eqb_eq in Mp; subst; rewrite K2|]; reflexivity.
  - destruct o; simpl in *; [apply N.eqb_eq in Mo; subst; rewrite K3|]; reflexivity.
  - destruct g; simpl in *; [|reflexivity]. destruct (is_graph d) eqn:Eg; simpl in *; [reflexivity|].
    apply N.eqb_eq in Mg; subst. destruct (N.eqb g0 0) eqn:E0; simpl; [reflexivity|]. rewrite (K4 eq_refl eq_refl); reflexivity.
Qed.

Lemma no_match_unknown st p l : Forall (normal (q_design st)) l -> Forall (known_quad st) l ->
  forallb (knows (q_terms st)) (pat_consts (q_design st) p) = false ->
  filter (pat_matches (q_design st) p) l = [].
Proof.
  intros Hn Hk Ek; induction l as [|x l IH]; simpl; [reflexivity|].
  inversion Hn as [|? ? Hx Hn']; inversion Hk as [|? ? Kx Hk']; subst.
  destruct (pat_matches (q_design st) p x) eqn:Em.
  - pose proof (match_consts_known st p x Hx Kx Em); congruence.
  - apply IH; assumption.
Qed.

(* whatever index a query is answered from, it returns exactly the statements of the store that match *)
Theorem q_query_spec st p : Qwf st -> q_query st p = filter (pat_matches (q_design st) p) (stmts st).
Proof.
  intros W; pose proof (Qwf_stmts st W) as H; set (l := stmts st) in *; pose proof H as (Hi & Hn & Hk).
  unfold q_query. destruct (forallb (knows (q_terms st)) (pat_consts (q_design st) p)) eqn:Ek; simpl.
  - assert (Ho : In (pick (q_design st) (eff_bg (q_design st) p) (bs p) (bp p) (bo p)) (orders (q_design st))).
    { apply pick_in_orders; intros Eg; unfold eff_bg; rewrite Eg, andb_false_r; reflexivity. }
    rewrite (idx_of_by st l _ H Ho), (decode_map (q_design st) _ l Ho Hn); reflexivity.
  - symmetry; apply no_match_unknown; assumption.
Qed.

(* the statements after an insertion / a removal, and what the call returns *)
Theorem q_insert_spec st q : Qwf st ->
  Qwf (fst (q_insert st q))
  /\ stmts (fst (q_insert st q)) = add_quad (norm (q_design st) q) (stmts st)
  /\ snd (q_insert st q) = negb (mem_quad (norm (q_design st) q) (stmts st)).
Proof.
  intros W; destruct (q_insert_by st (stmts st) q (Qwf_stmts st W)) as [H1 H2].
  split; [eexists; exact H1|]. split; [apply stmts_by; exact H1|exact H2].
Qed.
Theorem q_remove_spec st q : Qwf st ->
  Qwf (fst (q_remove st q))
  /\ stmts (fst (q_remove st q)) = del_quad (norm (q_design st) q) (stmts st)
  /\ snd (q_remove st q) = mem_quad (norm (q_design st) q) (stmts st).
Proof.
  intros W; destruct (q_remove_by st (stmts st) q (Qwf_stmts st W)) as [H1 H2].
  split; [eexists; exact H1|]. split; [apply stmts_by; exact H1|exact H2].
Qed.
Lemma q_empty_wf d : Qwf (q_empty d).
Proof. exists []; split; [|split]; simpl; [|constructor|constructor]. destruct d; reflexivity. Qed.

(* ---- worlds ---- *)
Definition WQ (w : qworld) : Prop := Forall (fun p => Qwf (snd p)) w.
Lemma qfind_wf w sid s : WQ w -> qfind w sid = Some s -> Qwf s.
Proof.
  induction w as [|[k x] w IH]; simpl; [discriminate|]. intros H; inversion H; subst.
  destruct (N.eqb k sid); [intros E; injection E as <-; assumption|auto].
Qed.
Lemma qset_wf w sid s : WQ w -> Qwf s -> WQ (qset w sid s).
Proof.
  induction w as [|[k x] w IH]; simpl; intros H Hs; [repeat constructor; exact Hs|].
  inversion H; subst. destruct (N.eqb k sid); constructor; auto; apply IH; assumption.
Qed.
Lemma qdel_wf w sid : WQ w -> WQ (qdel w sid).
Proof.
  induction w as [|[k x] w IH]; simpl; intros H; [constructor|]. inversion H; subst.
  destruct (N.eqb k sid); [assumption|constructor; [assumption|apply IH; assumption]].
Qed.
Theorem qstep_wf w o : WQ w -> WQ (fst (qstep w o)).
Proof.
  intros H; destruct o; simpl.
  - destruct (qfind w sid); [exact H|apply qset_wf; [exact H|apply q_empty_wf]].
  - destruct (qfind w sid) as [s|] eqn:E; [|exact H]. pose proof (q_insert_spec s q (qfind_wf w sid s H E)) as (W & _).
    destruct (q_insert s q); simpl in *; apply qset_wf; assumption.
  - destruct (qfind w sid) as [s|] eqn:E; [|exact H]. pose proof (q_remove_spec s q (qfind_wf w sid s H E)) as (W & _).
    destruct (q_remove s q); simpl in *; apply qset_wf; assumption.
  - destruct (qfind w src) as [s|] eqn:E; [|exact H]. destruct (qfind w dst); [exact H|].
    apply qset_wf; [exact H|exact (qfind_wf w src s H E)].
  - apply qdel_wf; exact H.
  - destruct (qfind w a); [|exact H]. destruct (qfind w b); [|exact H]. unfold WQ; rewrite Forall_map; exact H.
  - exact H.
Qed.
Lemma qrun_from_wf ops : forall w, WQ w -> WQ (fst (qrun_from w ops)).
Proof.
  induction ops as [|o ops IH]; intros w H; simpl; [exact H|].
  pose proof (qstep_wf w o H) as H1. destruct (qstep w o) as [w' x]; simpl in *.
  specialize (IH w' H1). destruct (qrun_from w' ops); simpl in *; exact IH.
Qed.
(* after any history, every live store has all its indexes in agreement *)
Theorem reachable_qwf ops sid s : qfind (fst (qrun ops)) sid = Some s -> Qwf s.
Proof. apply qfind_wf, qrun_from_wf; constructor. Qed.
(* hence every answer of every live store is the matching part of its statements *)
Theorem reachable_query_spec ops sid s p : qfind (fst (qrun ops)) sid = Some s ->
  q_query s p = filter (pat_matches (q_design s) p) (stmts s).
Proof. intros H; apply q_query_spec, (reachable_qwf ops sid s H). Qed.

(* a query changes nothing *)
Theorem q_query_pure w sid p : fst (qstep w (QQuery sid p)) = w.
Proof. reflexivity. Qed.

(* independence *)
Lemma qfind_set_other l x s' sid : x <> sid -> qfind (qset l x s') sid = qfind l sid.
Proof.
  intros Hn; induction l as [|[k y] l IH]; simpl.
  - destruct (N.eqb_spec x sid); [contradiction|reflexivity].
  - destruct (N.eqb_spec k x) as [->|]; simpl.
    + destruct (N.eqb_spec x sid); [contradiction|reflexivity].
    + destruct (N.eqb k sid); [reflexivity|exact IH].
Qed.
Lemma qfind_set_same l x s' : qfind (qset l x s') x = Some s'.
Proof.
  induction l as [|[k y] l IH]; simpl; [rewrite N.eqb_refl; reflexivity|].
  destruct (N.eqb_spec k x) as [->|Hn]; simpl; [rewrite N.eqb_refl; reflexivity|].
  destruct (N.eqb_spec k x); [contradiction|exact IH].
Qed.
Lemma qfind_del_other l x sid : x <> sid -> qfind (qdel l x) sid = qfind l sid.
Proof.
  intros Hn; induction l as [|[k y] l IH]; simpl; [reflexivity|].
  destruct (N.eqb_spec k x) as [->|]; simpl.
  - destruct (N.eqb_spec x sid); [contradiction|reflexivity].
  - destruct (N.eqb k sid); [reflexivity|exact IH].
Qed.
Lemma qfind_swap_other (l : qworld) a b sid : a <> sid -> b <> sid ->
  qfind (map (fun p => (if N.eqb (fst p) a then b else if N.eqb (fst p) b then a else fst p, snd p)) l) sid = qfind l sid.
Proof.
  intros Ha Hb; induction l as [|[k y] l IH]; simpl; [reflexivity|]. rewrite IH.
  destruct (N.eqb_spec k a) as [->|]; [|destruct (N.eqb_spec k b) as [->|]].
  - destruct (N.eqb_spec b sid), (N.eqb_spec a sid); try contradiction; reflexivity.
  - destruct (N.eqb_spec a sid), (N.eqb_spec b sid); try contradiction; reflexivity.
  - reflexivity.
Qed.
Theorem q_frame w o sid : qtouches o sid = false -> qfind (fst (qstep w o)) sid = qfind w sid.
Proof.
  destruct o; simpl; intros Ht.
  - apply N.eqb_neq in Ht. destruct (qfind w sid0); [reflexivity|apply qfind_set_other; exact Ht].
  - apply N.eqb_neq in Ht. destruct (qfind w sid0) as [s|]; [|reflexivity]. destruct (q_insert s q); simpl; apply qfind_set_other; exact Ht.
  - apply N.eqb_neq in Ht. destruct (qfind w sid0) as [s|]; [|reflexivity]. destruct (q_remove s q); simpl; apply qfind_set_other; exact Ht.
  - apply N.eqb_neq in Ht. destruct (qfind w src); [|reflexivity]. destruct (qfind w dst); [reflexivity|apply qfind_set_other; exact Ht].
  - apply N.eqb_neq in Ht. apply qfind_del_other; exact Ht.
  - apply orb_false_iff in Ht as [Ha Hb]; apply N.eqb_neq in Ha, Hb.
    destruct (qfind w a); [|reflexivity]. destruct (qfind w b); [|reflexivity]. apply qfind_swap_other; assumption.
  - reflexivity.
Qed.
Lemma q_frame_many ops : forall w sid, forallb (fun o => negb (qtouches o sid)) ops = true ->
  qfind (fst (qrun_from w ops)) sid = qfind w sid.
Proof.
  induction ops as [|o ops IH]; intros w sid H; simpl in *; [reflexivity|].
  apply andb_true_iff in H as [Ho Hr]; apply negb_true_iff in Ho.
  pose proof (q_frame w o sid Ho) as F. destruct (qstep w o) as [w' x]; simpl in *.
  specialize (IH w' sid Hr). destruct (qrun_from w' ops); simpl in *; congruence.
Qed.
(* a clone is its original at the time of cloning; the original is unchanged *)
Theorem q_clone_spec w src dst s : src <> dst -> qfind w src = Some s -> qfind w dst = None ->
  qfind (fst (qstep w (QClone src dst))) dst = Some s /\ qfind (fst (qstep w (QClone src dst))) src = Some s.
Proof.
  intros Hn Hs Hd; simpl; rewrite Hs, Hd. split; [apply qfind_set_same|].
  rewrite qfind_set_other; [exact Hs|congruence].
Qed.
(* clone, then ANY operations on the original and on other stores (mutations, drops, moves, queries of any
   shape in any order): the clone still answers every query as the original did when it was cloned *)
Theorem q_clone_independent w src dst s ops p : src <> dst -> qfind w src = Some s -> qfind w dst = None ->
  forallb (fun o => negb (qtouches o dst)) ops = true ->
  exists c, qfind (fst (qrun_from (fst (qstep w (QClone src dst))) ops)) dst = Some c /\ q_query c p = q_query s p.
Proof.
  intros Hn Hs Hd Hops; exists s; split; [|reflexivity].
  rewrite (q_frame_many ops _ dst Hops). apply (q_clone_spec w src dst s Hn Hs Hd).
Qed.
(* and the other way round: whatever is done to the clone, the original answers as before *)
Theorem q_original_independent w src dst s ops p : src <> dst -> qfind w src = Some s -> qfind w dst = None ->
  forallb (fun o => negb (qtouches o src)) ops = true ->
  exists c, qfind (fst (qrun_from (fst (qstep w (QClone src dst))) ops)) src = Some c /\ q_query c p = q_query s p.
Proof.
  intros Hn Hs Hd Hops; exists s; split; [|reflexivity].
  rewrite (q_frame_many ops _ src Hops). apply (q_clone_spec w src dst s Hn Hs Hd).
Qed.

(* non-vacuity: the history of the second missed defect (load, clone, mutate the clone, query the original by
   predicate, then the clone), on the heavily indexed graph *)
Example clone_mutate_query_example :
  snd (qrun [QNew 0 FastG; QIns 0 (Q 0 1 2 3); QClone 0 1; QIns 1 (Q 0 4 2 5);
             QQuery 0 (P 2 (Q 0 0 2 0)); QQuery 1 (P 2 (Q 0 0 2 0)); QQuery 1 (P 4 (Q 0 0 0 5)); QQuery 0 (P 4 (Q 0 0 0 5))])
  = [ONone; OBool true; ONone; OBool true; OList [Q 0 1 2 3]; OList [Q 0 1 2 3; Q 0 4 2 5]; OList [Q 0 4 2 5]; OList []].
Proof. reflexivity. Qed.
Example dataset_query_example :
  snd (qrun [QNew 0 FastD; QIns 0 (Q 7 1 2 3); QIns 0 (Q 0 1 2 3); QClone 0 1; QRem 0 (Q 7 1 2 3); QRem 0 (Q 7 1 2 9);
             QQuery 1 (P 10 (Q 7 0 2 0)); QQuery 0 (P 10 (Q 7 0 2 0)); QQuery 0 (P 5 (Q 0 1 0 3))])
  = [ONone; OBool true; OBool true; ONone; OBool true; OBool false; OList [Q 7 1 2 3]; OList []; OList [Q 0 1 2 3]].
Proof. reflexivity. Qed.
