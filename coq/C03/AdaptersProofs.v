(* C03/AdaptersProofs.v -- proofs about C03/Adapters.v: io::Write targets with short writes,
   interruptions and budgets; Source adapters and the iterators built on them. *)
From Sophia.Common Require Import Prelude Term.
From Sophia.C03 Require Import Model Adapters.

(* ------------------------------------------------------------------------------------------ *)
(** * A. write_all / write_bufs                                                                *)
(* ------------------------------------------------------------------------------------------ *)

Lemma firstn_add {A} (n m : nat) (l : list A) :
  firstn (n + m) l = firstn n l ++ firstn m (skipn n l).
Proof.
  revert l; induction n as [|n IH]; intros l; [reflexivity|].
  destruct l as [|x l]; [destruct m; reflexivity|].
  cbn [Nat.add firstn skipn app]. rewrite IH. reflexivity.
Qed.

Lemma eqb_eq_iff (a b c d : nat) : (a = b <-> c = d) -> Nat.eqb a b = Nat.eqb c d.
Proof.
  intros H. destruct (Nat.eqb_spec a b), (Nat.eqb_spec c d); try reflexivity; exfalso; tauto.
Qed.

(* a patient target, whatever its caps and interruptions: one buffer *)
Lemma write_all_patient ans : forall bud buf got, patient ans = true ->
  exists ans',
    write_all ans bud buf got
    = (ans', spend bud (cap bud (length buf)), got ++ firstn (cap bud (length buf)) buf,
       Nat.eqb (cap bud (length buf)) (length buf))
    /\ patient ans' = true.
Proof.
  induction ans as [|a ans IH]; intros bud buf got Hp.
  - exists []. split; [|reflexivity].
    destruct buf as [|c buf].
    + cbn [write_all length]. destruct bud as [b|]; cbn [cap spend firstn Nat.min];
        rewrite ?Nat.min_0_r, ?Nat.sub_0_r, ?app_nil_r; reflexivity.
    + cbn [write_all]. destruct (broke bud) eqn:B; [|reflexivity].
      destruct bud as [[|b]|]; try discriminate.
      cbn [cap spend Nat.min firstn length Nat.sub Nat.eqb]. rewrite app_nil_r. reflexivity.
  - cbn [patient forallb] in Hp. apply andb_true_iff in Hp as [Ha Hp].
    destruct buf as [|c buf].
    + exists (a :: ans). split; [|cbn [patient forallb]; rewrite Ha; exact Hp].
      destruct a; cbn [write_all length]; destruct bud as [b|]; cbn [cap spend firstn Nat.min];
        rewrite ?Nat.min_0_r, ?Nat.sub_0_r, ?app_nil_r; reflexivity.
    + cbn [write_all]. destruct (broke bud) eqn:B.
      { exists (a :: ans). split; [|cbn [patient forallb]; rewrite Ha; exact Hp].
        destruct bud as [[|b]|]; try discriminate.
        cbn [cap spend Nat.min firstn length Nat.sub Nat.eqb]. rewrite app_nil_r. reflexivity. }
      destruct a as [k| |]; [| |discriminate].
      * (* Take k, k > 0 *)
        cbn [patient1] in Ha. apply negb_true_iff, N.eqb_neq in Ha.
        set (L := length (c :: buf)) in *.
        assert (HL : (0 < L)%nat) by (subst L; cbn [length]; lia).
        assert (Hc : (0 < cap bud L)%nat).
        { destruct bud as [[|b]|]; cbn [cap]; try discriminate; lia. }
        destruct (Nat.min (N.to_nat k) (cap bud L)) as [|n'] eqn:En; [lia|].
        set (n := S n') in *.
        destruct (IH (spend bud n) (skipn n (c :: buf)) (got ++ firstn n (c :: buf)) Hp)
          as (ans' & E & P').
        exists ans'. split; [|exact P']. rewrite E. rewrite skipn_length. fold L.
        assert (Hn : (n <= cap bud L)%nat) by lia.
        assert (Hm : cap bud L = (n + cap (spend bud n) (L - n))%nat).
        { destruct bud as [b|]; cbn [cap spend] in *; lia. }
        f_equal; [f_equal; [f_equal|]|].
        -- destruct bud as [b|]; cbn [cap spend] in *; [f_equal; lia|reflexivity].
        -- rewrite <- app_assoc. f_equal. rewrite Hm, firstn_add. reflexivity.
        -- apply eqb_eq_iff. destruct bud as [b|]; cbn [cap spend] in *; lia.
      * (* Intr *)
        destruct (IH bud (c :: buf) got Hp) as (ans' & E & P'). exists ans'. split; assumption.
Qed.

(* ... and a whole call: any list of buffers *)
Lemma write_bufs_patient bufs : forall ans bud got, patient ans = true ->
  exists ans',
    write_bufs ans bud bufs got
    = (ans', spend bud (cap bud (length (concat bufs))),
       got ++ firstn (cap bud (length (concat bufs))) (concat bufs),
       Nat.eqb (cap bud (length (concat bufs))) (length (concat bufs)))
    /\ patient ans' = true.
Proof.
  induction bufs as [|b bs IH]; intros ans bud got Hp.
  - exists ans. split; [|exact Hp]. cbn [write_bufs concat length].
    destruct bud as [x|]; cbn [cap spend firstn Nat.min];
      rewrite ?Nat.min_0_r, ?Nat.sub_0_r, ?app_nil_r; reflexivity.
  - cbn [write_bufs concat]. destruct (write_all_patient ans bud b got Hp) as (ans1 & E & P1).
    rewrite E. rewrite app_length.
    destruct (Nat.eqb_spec (cap bud (length b)) (length b)) as [Hfull|Hshort].
    + rewrite Hfull, firstn_all.
      destruct (IH ans1 (spend bud (length b)) (got ++ b) P1) as (ans2 & E2 & P2).
      exists ans2. split; [|exact P2]. rewrite E2.
      assert (Hm : cap bud (length b + length (concat bs))
                   = (length b + cap (spend bud (length b)) (length (concat bs)))%nat).
      { destruct bud as [x|]; cbn [cap spend] in *; lia. }
      f_equal; [f_equal; [f_equal|]|].
      * destruct bud as [x|]; cbn [cap spend] in *; [f_equal; lia|reflexivity].
      * rewrite <- app_assoc. f_equal. rewrite Hm, firstn_app_2. reflexivity.
      * apply eqb_eq_iff. destruct bud as [x|]; cbn [cap spend] in *; lia.
    + exists ans1. split; [|exact P1].
      destruct bud as [x|]; cbn [cap spend] in *; [|congruence].
      assert (Hx : (x < length b)%nat) by lia.
      replace (Nat.min x (length b)) with x by lia.
      replace (Nat.min x (length b + length (concat bs))) with x by lia.
      f_equal; [f_equal|].
      * f_equal. rewrite firstn_app. replace (x - length b)%nat with O by lia.
        cbn [firstn]. rewrite app_nil_r. reflexivity.
      * symmetry. apply Nat.eqb_neq. lia.
Qed.

(* C03 for every io::Write that never gives up: short writes and interruptions lose nothing,
   however the text is cut into buffers *)
Theorem short_writes_lose_nothing ans bufs : patient ans = true ->
  received (write_bufs ans None bufs []) = concat bufs /\ verdict (write_bufs ans None bufs []) = true.
Proof.
  intros Hp. destruct (write_bufs_patient bufs ans None [] Hp) as (ans' & E & _). rewrite E.
  cbn [received verdict cap app]. rewrite firstn_all, Nat.eqb_refl. split; reflexivity.
Qed.

(* a target with a total budget receives exactly the first `b` bytes, and the call succeeds iff
   everything fitted: never a success with bytes missing *)
Theorem budget_cuts_a_prefix ans b bufs : patient ans = true ->
  received (write_bufs ans (Some b) bufs []) = firstn b (concat bufs)
  /\ verdict (write_bufs ans (Some b) bufs []) = (length (concat bufs) <=? b)%nat.
Proof.
  intros Hp. destruct (write_bufs_patient bufs ans (Some b) [] Hp) as (ans' & E & _). rewrite E.
  cbn [received verdict cap app]. split.
  - destruct (Nat.le_gt_cases b (length (concat bufs))) as [H|H].
    + rewrite Nat.min_l by exact H. reflexivity.
    + rewrite Nat.min_r by lia. rewrite !firstn_all2 by lia. reflexivity.
  - destruct (Nat.leb_spec (length (concat bufs)) b); [apply Nat.eqb_eq|apply Nat.eqb_neq]; lia.
Qed.

(* whatever the target does (failing answers included): what it received is a prefix of the text,
   and a call that succeeded delivered everything *)
Lemma write_all_prefix ans : forall bud buf got,
  exists n, received (write_all ans bud buf got) = got ++ firstn n buf
    /\ (verdict (write_all ans bud buf got) = true -> received (write_all ans bud buf got) = got ++ buf).
Proof.
  induction ans as [|a ans IH]; intros bud buf got.
  - destruct buf as [|c buf].
    + exists O. cbn [write_all received verdict firstn]. rewrite app_nil_r. split; reflexivity.
    + cbn [write_all]. destruct (broke bud).
      * exists O. cbn [received verdict firstn]. rewrite app_nil_r. split; [reflexivity|discriminate].
      * exists (cap bud (length (c :: buf))). cbn [received verdict]. split; [reflexivity|].
        intros H. apply Nat.eqb_eq in H. rewrite H, firstn_all. reflexivity.
  - destruct buf as [|c buf].
    + exists O. destruct a; cbn [write_all received verdict firstn]; rewrite app_nil_r; split; reflexivity.
    + cbn [write_all]. destruct (broke bud).
      { exists O. cbn [received verdict firstn]. rewrite app_nil_r. split; [reflexivity|discriminate]. }
      destruct a as [k| |].
      * destruct (Nat.min (N.to_nat k) (cap bud (length (c :: buf)))) as [|n'] eqn:En.
        { exists O. cbn [received verdict firstn]. rewrite app_nil_r. split; [reflexivity|discriminate]. }
        set (n := S n') in *.
        destruct (IH (spend bud n) (skipn n (c :: buf)) (got ++ firstn n (c :: buf))) as (m & E & F).
        exists (n + m)%nat. split.
        -- rewrite E, <- app_assoc, firstn_add. reflexivity.
        -- intros H. rewrite (F H), <- app_assoc, firstn_skipn. reflexivity.
      * apply IH.
      * exists O. cbn [received verdict firstn]. rewrite app_nil_r. split; [reflexivity|discriminate].
Qed.

Theorem received_is_a_prefix bufs : forall ans bud got,
  exists n, received (write_bufs ans bud bufs got) = got ++ firstn n (concat bufs)
    /\ (verdict (write_bufs ans bud bufs got) = true
        -> received (write_bufs ans bud bufs got) = got ++ concat bufs).
Proof.
  induction bufs as [|b bs IH]; intros ans bud got.
  - exists O. cbn [write_bufs received verdict concat firstn]. rewrite app_nil_r. split; reflexivity.
  - cbn [write_bufs concat]. destruct (write_all_prefix ans bud b got) as (n & E & F).
    destruct (write_all ans bud b got) as [[[ans1 bud1] got1] ok1] eqn:W.
    cbn [received verdict] in E, F. destruct ok1.
    + specialize (F eq_refl). clear E. subst got1.
      destruct (IH ans1 bud1 (got ++ b)) as (m & E2 & F2).
      exists (length b + m)%nat. split.
      * rewrite E2, <- app_assoc, firstn_app_2. reflexivity.
      * intros H. rewrite (F2 H), <- app_assoc. reflexivity.
    + exists (Nat.min n (length b)). cbn [received verdict]. split; [|discriminate].
      rewrite E. f_equal. rewrite firstn_app.
      replace (Nat.min n (length b) - length b)%nat with O by lia. cbn [firstn]. rewrite app_nil_r.
      destruct (Nat.le_gt_cases n (length b)) as [H|H].
      * rewrite Nat.min_l by exact H. reflexivity.
      * rewrite Nat.min_r by lia. rewrite !firstn_all2 by lia. reflexivity.
Qed.

(* the chunkings: all of them carry the serialiser's text *)
Lemma chunked_text (ch : chunking) qs : faithful_on ch qs -> concat (flat_map ch qs) = nq_write qs.
Proof.
  induction qs as [|q qs IH]; intros H; [reflexivity|].
  cbn [flat_map]. rewrite concat_app.
  change (nq_write (q :: qs)) with (nq_write_quad q ++ nq_write qs).
  rewrite (H q (or_introl eq_refl)), IH; [reflexivity|].
  intros q' Hq'. apply H. right. exact Hq'.
Qed.
Lemma concat_singletons {A} (l : list A) : concat (map (fun b => [b]) l) = l.
Proof. induction l as [|x l IH]; [reflexivity|]. cbn [map concat app]. rewrite IH. reflexivity. Qed.
Lemma per_statement_faithful qs : faithful_on per_statement qs.
Proof. intros q _. unfold per_statement. cbn [concat]. apply app_nil_r. Qed.
Lemma per_byte_faithful qs : faithful_on per_byte qs.
Proof. intros q _. unfold per_byte. apply concat_singletons. Qed.
Lemma blocks_f_concat fuel : forall sz txt, (length txt <= fuel)%nat -> concat (blocks_f fuel sz txt) = txt.
Proof.
  induction fuel as [|f IH]; intros sz txt H; cbn [blocks_f].
  - cbn [concat]. apply app_nil_r.
  - destruct (length txt <=? sz)%nat eqn:E; [cbn [concat]; apply app_nil_r|].
    apply Nat.leb_gt in E. cbn [concat]. rewrite IH; [apply firstn_skipn|].
    rewrite skipn_length. lia.
Qed.
Theorem blocks_concat sz txt : concat (blocks sz txt) = txt.
Proof. apply blocks_f_concat. lia. Qed.

(* the statement of C03's writing end: every chunking of the statements, every patient target *)
Theorem serialise_any_chunking (ch : chunking) qs ans : faithful_on ch qs -> patient ans = true ->
  received (write_bufs ans None (flat_map ch qs) []) = nq_write qs
  /\ verdict (write_bufs ans None (flat_map ch qs) []) = true.
Proof.
  intros Hc Hp. destruct (short_writes_lose_nothing ans (flat_map ch qs) Hp) as [R V].
  rewrite R, V, (chunked_text ch qs Hc). split; reflexivity.
Qed.
(* a serialiser that assembles its text and hands it over in blocks is subject to the same law *)
Theorem serialise_in_blocks sz qs ans : patient ans = true ->
  received (write_bufs ans None (blocks sz (nq_write qs)) []) = nq_write qs
  /\ verdict (write_bufs ans None (blocks sz (nq_write qs)) []) = true.
Proof.
  intros Hp. destruct (short_writes_lose_nothing ans (blocks sz (nq_write qs)) Hp) as [R V].
  rewrite R, V, blocks_concat. split; reflexivity.
Qed.

(* the harness-facing checker says what it should *)
Theorem sink_bytes_ok_spec nq qs bud recv ok : sink_bytes_ok nq qs bud recv ok = true ->
  recv = firstn (cap (obudget bud) (length (model_text nq qs))) (model_text nq qs)
  /\ ok = Nat.eqb (cap (obudget bud) (length (model_text nq qs))) (length (model_text nq qs)).
Proof.
  unfold sink_bytes_ok. intros H. apply andb_true_iff in H as [Hb Ho].
  destruct (write_bufs_patient [model_text nq qs] [] (obudget bud) [] eq_refl) as (ans' & E & _).
  rewrite E in Hb, Ho. cbn [received verdict concat app] in Hb, Ho. rewrite app_nil_r in Hb, Ho.
  unfold bytes_eqb in Hb.
  apply (list_eqb_spec N.eqb N.eqb_eq) in Hb.
  split; [symmetry; exact Hb|]. apply eqb_prop in Ho. symmetry. exact Ho.
Qed.

(* ------------------------------------------------------------------------------------------ *)
(** * B. sources, filters, and the iterators of map_* / filter_map_*                           *)
(* ------------------------------------------------------------------------------------------ *)

Theorem for_each_filter {A} (p : A -> bool) (rs : list (round A)) :
  for_each (filter_rounds p rs) = (filter p (fst (for_each rs)), snd (for_each rs)).
Proof.
  induction rs as [|[xs a] rs IH]; [reflexivity|].
  cbn [filter_rounds map fst snd]. fold (filter_rounds p rs).
  destruct a; cbn [for_each]; [|reflexivity|reflexivity].
  rewrite IH. destruct (for_each rs) as [ys ok]. cbn [fst snd]. rewrite filter_app. reflexivity.
Qed.
Theorem for_each_map {A B} (g : A -> B) (rs : list (round A)) :
  for_each (map_rounds g rs) = (map g (fst (for_each rs)), snd (for_each rs)).
Proof.
  induction rs as [|[xs a] rs IH]; [reflexivity|].
  cbn [map_rounds map fst snd]. fold (map_rounds g rs).
  destruct a; cbn [for_each]; [|reflexivity|reflexivity].
  rewrite IH. destruct (for_each rs) as [ys ok]. cbn [fst snd]. rewrite map_app. reflexivity.
Qed.

Lemma pushes_filter_map {A B} (f : A -> option B) xs : pushes f xs = map Got (filter_map f xs).
Proof.
  induction xs as [|x xs IH]; [reflexivity|].
  unfold pushes, filter_map in *. cbn [flat_map]. rewrite IH, map_app.
  destruct (f x); reflexivity.
Qed.
Lemma filter_map_app {A B} (f : A -> option B) xs ys :
  filter_map f (xs ++ ys) = filter_map f xs ++ filter_map f ys.
Proof. unfold filter_map. apply flat_map_app. Qed.
Lemma filter_map_length {A B} (f : A -> option B) xs : (length (filter_map f xs) <= length xs)%nat.
Proof.
  induction xs as [|x xs IH]; [cbn; lia|].
  unfold filter_map in *. cbn [flat_map]. rewrite app_length. destruct (f x); cbn [length]; lia.
Qed.

(* a buffer of good items is handed out first *)
Lemma iter_run_buffer {A B} (f : A -> option B) ys : forall fuel b (rs : list (round A)),
  iter_run (length ys + fuel) f (map Got ys ++ b, rs)
  = (ys ++ fst (iter_run fuel f (b, rs)), snd (iter_run fuel f (b, rs))).
Proof.
  induction ys as [|y ys IH]; intros fuel b rs.
  - cbn [length Nat.add map app]. destruct (iter_run fuel f (b, rs)); reflexivity.
  - cbn [length Nat.add map app iter_run next]. rewrite IH.
    destruct (iter_run fuel f (b, rs)); reflexivity.
Qed.
Lemma iter_run_failed {A B} (f : A -> option B) fuel b (rs : list (round A)) :
  iter_run (S fuel) f (Failed :: b, rs) = ([], false).
Proof. reflexivity. Qed.

Definition dead {A} (r : round A) : bool := match r with ([], Done) => true | _ => false end.
Lemma iter_run_dead {A B} (f : A -> option B) fuel (rs : list (round A)) :
  forallb dead rs = true -> iter_run fuel f ([], rs) = ([], true).
Proof.
  destruct fuel as [|n]; [reflexivity|]. intros H.
  destruct rs as [|[xs a] rs]; [reflexivity|].
  cbn [forallb] in H. apply andb_true_iff in H as [H _].
  destruct xs; [|discriminate]. destruct a; try discriminate. reflexivity.
Qed.

Lemma items_of_cons {A} xs a (rs : list (round A)) :
  items_of (@cons (round A) (xs, a) rs) = (length xs + items_of rs)%nat.
Proof. unfold items_of. cbn [map fst concat]. apply app_length. Qed.

Lemma iter_run_settled {A B} (f : A -> option B) (rs : list (round A)) : settled rs = true ->
  forall fuel, (items_of rs + length rs < fuel)%nat ->
  iter_run fuel f ([], rs) = (filter_map f (fst (for_each rs)), snd (for_each rs)).
Proof.
  induction rs as [|[xs a] rs IH]; intros Hs fuel Hf.
  - destruct fuel; [lia|]. reflexivity.
  - rewrite items_of_cons in Hf. cbn [length] in Hf.
    destruct fuel as [|n]; [lia|].
    pose proof (filter_map_length f xs) as Hlen.
    pose proof (pushes_filter_map f xs) as Hpush.
    destruct a.
    + (* More *)
      cbn [settled] in Hs. cbn [for_each]. destruct (for_each rs) as [zs ok] eqn:Efe.
      cbn [fst snd] in *. rewrite filter_map_app.
      destruct (filter_map f xs) as [|y0 ys0] eqn:Efm.
      * (* nothing kept in this round: the loop goes on with the next one *)
        assert (Estep : iter_run (S n) f ([], @cons (round A) (xs, More) rs) = iter_run (S n) f ([], rs)).
        { cbn [iter_run next fill]. rewrite Hpush. reflexivity. }
        rewrite Estep, (IH Hs (S n)) by lia. reflexivity.
      * assert (Estep : iter_run (S n) f ([], @cons (round A) (xs, More) rs)
                        = (y0 :: fst (iter_run n f (map Got ys0 ++ [], rs)),
                           snd (iter_run n f (map Got ys0 ++ [], rs)))).
        { cbn [iter_run next fill]. rewrite Hpush. cbn [map app]. rewrite app_nil_r.
          destruct (iter_run n f (map Got ys0, rs)); reflexivity. }
        rewrite Estep. cbn [length] in Hlen.
        replace n with (length ys0 + (n - length ys0))%nat by lia.
        rewrite iter_run_buffer, (IH Hs) by lia. reflexivity.
    + (* Done: the items of this very round are still handed out *)
      cbn [settled] in Hs. cbn [for_each fst snd].
      destruct (filter_map f xs) as [|y0 ys0] eqn:Efm.
      * cbn [iter_run next fill]. rewrite Hpush. reflexivity.
      * assert (Estep : iter_run (S n) f ([], @cons (round A) (xs, Done) rs)
                        = (y0 :: fst (iter_run n f (map Got ys0 ++ [], rs)),
                           snd (iter_run n f (map Got ys0 ++ [], rs)))).
        { cbn [iter_run next fill]. rewrite Hpush. cbn [map app]. rewrite app_nil_r.
          destruct (iter_run n f (map Got ys0, rs)); reflexivity. }
        rewrite Estep. cbn [length] in Hlen.
        replace n with (length ys0 + (n - length ys0))%nat by lia.
        rewrite iter_run_buffer, (iter_run_dead f _ rs Hs). cbn [fst snd]. rewrite app_nil_r. reflexivity.
    + (* Broke: the items delivered before the failure, then the error *)
      cbn [for_each fst snd].
      destruct (filter_map f xs) as [|y0 ys0] eqn:Efm.
      * cbn [iter_run next fill]. rewrite Hpush. reflexivity.
      * assert (Estep : iter_run (S n) f ([], @cons (round A) (xs, Broke) rs)
                        = (y0 :: fst (iter_run n f (map Got ys0 ++ [Failed], rs)),
                           snd (iter_run n f (map Got ys0 ++ [Failed], rs)))).
        { cbn [iter_run next fill]. rewrite Hpush. cbn [map app].
          destruct (iter_run n f (map Got ys0 ++ [Failed], rs)); reflexivity. }
        rewrite Estep. cbn [length] in Hlen.
        replace n with (length ys0 + S (n - length ys0 - 1))%nat by lia.
        rewrite iter_run_buffer, iter_run_failed. cbn [fst snd]. rewrite app_nil_r. reflexivity.
Qed.

(* the iterator of filter_map_* hands out exactly what for_each_* delivers (kept and mapped), in
   the same order, and ends the same way -- in particular the items delivered by the very call
   that answers Ok(false), or that fails, are not lost *)
Theorem iter_collect_is_for_each {A B} (f : A -> option B) (rs : list (round A)) :
  settled rs = true ->
  iter_collect f rs = (filter_map f (fst (for_each rs)), snd (for_each rs)).
Proof. intros H. unfold iter_collect. apply iter_run_settled; [exact H|lia]. Qed.

Lemma filter_map_some {A B} (g : A -> B) xs : filter_map (fun x => Some (g x)) xs = map g xs.
Proof. induction xs as [|x xs IH]; [reflexivity|]. unfold filter_map in *. cbn [flat_map map app]. rewrite IH. reflexivity. Qed.
(* the iterator of map_* *)
Theorem iter_collect_map {A B} (g : A -> B) (rs : list (round A)) :
  settled rs = true ->
  iter_collect (fun x => Some (g x)) rs = (map g (fst (for_each rs)), snd (for_each rs)).
Proof. intros H. rewrite iter_collect_is_for_each by exact H. rewrite filter_map_some. reflexivity. Qed.

