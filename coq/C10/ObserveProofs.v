(* C10/ObserveProofs.v -- the observation methods of C10/Observe.v: what they yield, that they change nothing,
   that they depend on nothing but the statements of the store, and that a clone and its original go on
   answering them independently of each other. *)
From Sophia.C10 Require Import Query QueryProofs Observe.

(* ---- what the accessors yield ---- *)
Theorem subjects_spec sg st t : In t (observe sg st ASubjects) <-> exists q, In q (stmts st) /\ qs q = t.
Proof. unfold observe; simpl. rewrite in_map_iff. split; intros [q [A B]]; exists q; auto. Qed.
Theorem predicates_spec sg st t : In t (observe sg st APredicates) <-> exists q, In q (stmts st) /\ qp q = t.
Proof. unfold observe; simpl. rewrite in_map_iff. split; intros [q [A B]]; exists q; auto. Qed.
Theorem objects_spec sg st t : In t (observe sg st AObjects) <-> exists q, In q (stmts st) /\ qo q = t.
Proof. unfold observe; simpl. rewrite in_map_iff. split; intros [q [A B]]; exists q; auto. Qed.
(* the graph names of a store: the names of the graphs that hold at least one of its statements, never the
   default graph *)
Theorem graph_names_spec sg st g :
  In g (observe sg st AGraphNames) <-> g <> 0 /\ exists q, In q (stmts st) /\ qg q = g.
Proof.
  unfold observe; simpl. rewrite filter_In, in_map_iff, negb_true_iff, N.eqb_neq.
  split.
  - intros [[q [A B]] C]. split; [exact C|]. exists q; auto.
  - intros [C [q [A B]]]. split; [exists q; auto|exact C].
Qed.
(* the accessors that filter on the kind yield terms of that kind only, each of them an atom (a constituent,
   for the quoted triples) of a term of a statement of the store *)
Theorem iris_spec sg st t :
  In t (observe sg st AIris) <->
  is_iri sg t = true /\ exists q x, In q (stmts st) /\ In x (spog q) /\ In t (atoms depth_fuel sg x).
Proof.
  unfold observe, observe_stmts, all_atoms. rewrite filter_In, in_flat_map. split.
  - intros [[x [A B]] C]. apply in_flat_map in A as [q [A1 A2]]. split; [exact C|]. exists q, x; auto.
  - intros [C [q [x [A [B D]]]]]. split; [|exact C]. exists x. split; [|exact D]. apply in_flat_map. exists q; auto.
Qed.
Theorem quoted_triples_spec sg st t :
  In t (observe sg st AQuoted) <->
  is_quoted sg t = true /\ exists q x, In q (stmts st) /\ In x (spog q) /\ In t (constituents depth_fuel sg x).
Proof.
  unfold observe, observe_stmts. rewrite filter_In, in_flat_map. split.
  - intros [[x [A B]] C]. apply in_flat_map in A as [q [A1 A2]]. split; [exact C|]. exists q, x; auto.
  - intros [C [q [x [A [B D]]]]]. split; [|exact C]. exists x. split; [|exact D]. apply in_flat_map. exists q; auto.
Qed.
(* every accessor is a function of the statements of the store: two stores with the same statements (whatever
   their indexes, their term tables, the queries they answered before) give the same answers *)
Theorem observe_stmts_only sg a b x : stmts a = stmts b -> observe sg a x = observe sg b x.
Proof. unfold observe; intros ->; reflexivity. Qed.
(* contains: whether a statement of the store matches the all-constants pattern (on every reachable store, whichever
   index the query picks) *)
Theorem contains_spec st q : Qwf st ->
  q_contains st q = existsb (pat_matches (q_design st) (mkPat true true true true q)) (stmts st).
Proof.
  intros H. unfold q_contains. rewrite (q_query_spec st _ H).
  induction (stmts st) as [|x l IH]; simpl; [reflexivity|].
  destruct (pat_matches (q_design st) (mkPat true true true true q) x); simpl; [reflexivity|exact IH].
Qed.

(* ---- an observation changes nothing; an operation on another store changes nothing of this one ---- *)
Theorem a_obs_pure sg w sid a : fst (astep sg w (AObs sid a)) = w.
Proof. reflexivity. Qed.
Theorem a_has_pure sg w sid q : fst (astep sg w (AHas sid q)) = w.
Proof. reflexivity. Qed.
Theorem a_frame sg w o sid : atouches o sid = false -> qfind (fst (astep sg w o)) sid = qfind w sid.
Proof.
  destruct o as [o| |]; simpl; intros Ht; [|reflexivity|reflexivity].
  pose proof (q_frame w o sid Ht) as F. destruct (qstep w o); simpl in *; exact F.
Qed.
Lemma a_frame_many sg ops : forall w sid, forallb (fun o => negb (atouches o sid)) ops = true ->
  qfind (fst (arun_from sg w ops)) sid = qfind w sid.
Proof.
  induction ops as [|o ops IH]; intros w sid H; simpl in *; [reflexivity|].
  apply andb_true_iff in H as [Ho Hr]; apply negb_true_iff in Ho.
  pose proof (a_frame sg w o sid Ho) as F. destruct (astep sg w o) as [w' x]; simpl in *.
  specialize (IH w' sid Hr). destruct (arun_from sg w' ops); simpl in *; congruence.
Qed.
(* every store reachable by a history with observations is well-formed (observations do not touch the stores) *)
Lemma astep_wf sg w o : WQ w -> WQ (fst (astep sg w o)).
Proof.
  destruct o as [o| |]; simpl; intros H; [|exact H|exact H].
  pose proof (qstep_wf w o H) as F. destruct (qstep w o); simpl in *; exact F.
Qed.
Lemma arun_from_wf sg ops : forall w, WQ w -> WQ (fst (arun_from sg w ops)).
Proof.
  induction ops as [|o ops IH]; intros w H; simpl; [exact H|].
  pose proof (astep_wf sg w o H) as F. destruct (astep sg w o) as [w' x]; simpl in *.
  specialize (IH w' F). destruct (arun_from sg w' ops); simpl in *; exact IH.
Qed.
Theorem a_reachable_qwf sg ops sid s : qfind (fst (arun sg ops)) sid = Some s -> Qwf s.
Proof. intros H. apply (qfind_wf _ sid s (arun_from_wf sg ops [] (Forall_nil _)) H). Qed.

(* ---- clones ---- *)
(* right after the clone, both sides answer every accessor and every `contains` as the original did *)
Theorem a_clone_spec sg w src dst s : src <> dst -> qfind w src = Some s -> qfind w dst = None ->
  let w' := fst (astep sg w (AQ (QClone src dst))) in
  qfind w' dst = Some s /\ qfind w' src = Some s.
Proof.
  intros Hn Hs Hd. pose proof (q_clone_spec w src dst s Hn Hs Hd) as F.
  simpl in *. destruct (qfind w src); [|discriminate]. destruct (qfind w dst); [discriminate|]. simpl. exact F.
Qed.
(* clone, then ANY operations on the original and on other stores -- mutations that change its graph names, its
   subjects, ...; drops; moves; queries and observations of any kind on either side, in any order: the clone
   still answers every accessor and every `contains` as the original did when it was cloned *)
Theorem a_clone_independent sg w src dst s ops : src <> dst -> qfind w src = Some s -> qfind w dst = None ->
  forallb (fun o => negb (atouches o dst)) ops = true ->
  exists c, qfind (fst (arun_from sg (fst (astep sg w (AQ (QClone src dst)))) ops)) dst = Some c
            /\ (forall a, observe sg c a = observe sg s a) /\ (forall q, q_contains c q = q_contains s q).
Proof.
  intros Hn Hs Hd Hops; exists s; split; [|split; reflexivity].
  rewrite (a_frame_many sg ops _ dst Hops). apply (a_clone_spec sg w src dst s Hn Hs Hd).
Qed.
(* and the other way round: whatever is done to the clone, the original answers as before *)
Theorem a_original_independent sg w src dst s ops : src <> dst -> qfind w src = Some s -> qfind w dst = None ->
  forallb (fun o => negb (atouches o src)) ops = true ->
  exists c, qfind (fst (arun_from sg (fst (astep sg w (AQ (QClone src dst)))) ops)) src = Some c
            /\ (forall a, observe sg c a = observe sg s a) /\ (forall q, q_contains c q = q_contains s q).
Proof.
  intros Hn Hs Hd Hops; exists s; split; [|split; reflexivity].
  rewrite (a_frame_many sg ops _ src Hops). apply (a_clone_spec sg w src dst s Hn Hs Hd).
Qed.

(* non-vacuity: the history of the missed defect (a dataset with two named graphs, its graph names asked for,
   a clone, the clone loses the last quad of a graph and the original gains a graph, graph names on both sides),
   with a quoted triple and a variable for the other accessors *)
Definition ex_sig : tsig := [(1, KIri); (2, KIri); (3, KLit); (4, KBnode); (7, KIri); (8, KIri); (9, KIri); (10, KTriple 4 2 3); (11, KVar)].
Example graph_names_clone_example :
  snd (arun ex_sig [AQ (QNew 0 FastD); AQ (QIns 0 (Q 7 1 2 3)); AQ (QIns 0 (Q 8 1 2 10)); AQ (QIns 0 (Q 0 4 2 11));
                    AObs 0 AGraphNames; AQ (QClone 0 1); AQ (QRem 1 (Q 8 1 2 10)); AQ (QIns 0 (Q 9 1 2 3));
                    AObs 1 AGraphNames; AObs 0 AGraphNames; AObs 1 AQuoted; AObs 0 AQuoted; AObs 0 ABnodes; AObs 0 AVariables;
                    AObs 1 ALiterals; AObs 0 AIris; AHas 1 (Q 8 1 2 10); AHas 0 (Q 8 1 2 10); AQ (QDrop 0); AObs 1 AGraphNames])
  = [AO ONone; AO (OBool true); AO (OBool true); AO (OBool true);
     ASet [7; 8]; AO ONone; AO (OBool true); AO (OBool true);
     ASet [7]; ASet [7; 8; 9]; ASet []; ASet [10]; ASet [4; 4]; ASet [11];
     ASet [3]; ASet [1; 2; 7; 1; 2; 2; 8; 2; 1; 2; 9]; AO (OBool false); AO (OBool true); AO ONone; ASet [7]].
Proof. reflexivity. Qed.
Example graph_has_no_graph_names :
  snd (arun ex_sig [AQ (QNew 0 FastG); AQ (QIns 0 (Q 7 1 2 3)); AObs 0 AGraphNames; AObs 0 ASubjects; AHas 0 (Q 9 1 2 3)])
  = [AO ONone; AO (OBool true); ASet []; ASet [1]; AO (OBool true)].
Proof. reflexivity. Qed.
