(* C04/TermText.v -- the TEXT that the pretty Turtle / TriG writer of sophia_turtle emits for one term:
   turtle/src/serializer/_pretty.rs  write_term, write_non_list_term, write_iri, write_plain_iri, write_literal
   (the blank node arm of write_term only in its `_:label` case: `[ ... ]`, `( ... )` and `[]` are decisions of
   the planning phase, modelled in Model.v), transcribed function by function.  Definitions only.

   Part 1 is at BYTE level: `write!(w, "{}", s)` and `write_bytes(s.as_bytes())` put the UTF-8 encoding of s
   (utf8 of Common/Term.v) on the output, `nt::quoted_string` works on the bytes of the lexical form (its model
   and its code-point characterisation are those of C03).  The four regular expressions and PN_LOCAL are the
   REGENERATED ones of gen/RegexTurtle.v, used through Model.bare_literal and Model.write_iri_pname
   (PrefixMap::get_checked_prefixed_pair).  `Iri::new(..).is_ok()` is a parameter [absf] of the model: the
   theorems hold whatever that test answers, and the correspondence run instantiates it with the regenerated
   IRI regular expression of C09 (sophia_iri).
   Part 2 is the code-point view (TermProofs.v shows  wr_term t = utf8 (wt_term t)).
   Part 3: well-formedness (boolean), admissible continuations, harness-facing checkers. *)
From Sophia.Common Require Import Prelude Term.
From Sophia.C04 Require Import Regex Grammar TermGrammar Model TermRead.
From Sophia.C03 Require Model.

Notation quoted_string := Sophia.C03.Model.quoted_string.
Notation qs_cp := Sophia.C03.Model.qs_cp.
Notation iri_char := Sophia.C03.Model.iri_char.
Notation langtag_ok := Sophia.C03.Model.langtag_ok.
Notation scalar_str := Sophia.C03.Model.scalar_str.

(* sophia_api::ns::rdf::nil *)
Definition w_rdf_nil : str :=
  [104;116;116;112;58;47;47;119;119;119;46;119;51;46;111;114;103;47;49;57;57;57;47;48;50;47;50;50;45;114;100;102;45;
   115;121;110;116;97;120;45;110;115;35;110;105;108].

(* ------------------------------------------------------------------------------------------ *)
(** * Part 1: the writer, on bytes                                                             *)
(* ------------------------------------------------------------------------------------------ *)
Section Writer.
  Variable absf : str -> bool.             (* Iri::new(iri.as_str()).is_ok() *)
  Variable pm : list (str * str).          (* config.prefix_map: (prefix, namespace) in order *)

  (* write!(self.write, "<{}>", iri.as_str()) *)
  Definition wr_angle (i : str) : list N := [60] ++ utf8 i ++ [62].

  (* write_plain_iri: not an absolute IRI => angle brackets; otherwise the longest namespace of the map whose
     remainder is a PN_LOCAL => "{}:{}", else angle brackets *)
  Definition wr_plain_iri (i : str) : list N :=
    if absf i then
      match write_iri_pname pm i with
      | Some (pre, suf) => utf8 pre ++ [58] ++ utf8 suf
      | None => wr_angle i
      end
    else wr_angle i.

  (* write_iri: rdf:nil is abbreviated "()" *)
  Definition wr_iri (i : str) : list N :=
    if str_eqb w_rdf_nil i then [40; 41] else wr_plain_iri i.

  (* write_literal, for a literal without language tag (its datatype is dt) *)
  Definition wr_literal_dt (lex dt : str) : list N :=
    if bare_literal dt lex then utf8 lex
    else [34] ++ quoted_string (utf8 lex) ++ [34] ++
         (if negb (str_eqb xsd_string dt) then [94; 94] ++ wr_plain_iri dt else []).
  (* write_literal, for a language-tagged string (its datatype, rdf:langString, is none of the four XSD types) *)
  Definition wr_literal_lang (lex tag : str) : list N :=
    [34] ++ quoted_string (utf8 lex) ++ [34] ++ [64] ++ utf8 tag.

  (* write_term; [nl] is write_non_list_term on the components of a quoted triple *)
  Fixpoint wr_term (t : term) : list N :=
    match t with
    | Iri i => wr_iri i
    | Bnode l => [95; 58] ++ utf8 l
    | LitDt lex dt => wr_literal_dt lex dt
    | LitLang lex tag => wr_literal_lang lex tag
    | Var v => [63] ++ utf8 v
    | Triple s p o =>
        [60; 60; 32] ++
        match s with Iri i => wr_plain_iri i | _ => wr_term s end ++ [32] ++
        match p with Iri i => wr_plain_iri i | _ => wr_term p end ++ [32] ++
        match o with Iri i => wr_plain_iri i | _ => wr_term o end ++ [32] ++
        [62; 62]
    end.
  (* write_non_list_term: predicate, graph name, component of a quoted triple *)
  Definition wr_non_list_term (t : term) : list N :=
    match t with Iri i => wr_plain_iri i | _ => wr_term t end.

  (* ---------------------------------------------------------------------------------------- *)
  (** * Part 2: the same on code points                                                        *)
  (* ---------------------------------------------------------------------------------------- *)
  Definition wt_angle (i : str) : str := [60] ++ i ++ [62].
  Definition wt_plain_iri (i : str) : str :=
    if absf i then
      match write_iri_pname pm i with
      | Some (pre, suf) => pre ++ [58] ++ suf
      | None => wt_angle i
      end
    else wt_angle i.
  Definition wt_iri (i : str) : str := if str_eqb w_rdf_nil i then [40; 41] else wt_plain_iri i.
  Definition wt_literal_dt (lex dt : str) : str :=
    if bare_literal dt lex then lex
    else [34] ++ qs_cp lex ++ [34] ++ (if negb (str_eqb xsd_string dt) then [94; 94] ++ wt_plain_iri dt else []).
  Definition wt_literal_lang (lex tag : str) : str := [34] ++ qs_cp lex ++ [34] ++ [64] ++ tag.
  Fixpoint wt_term (t : term) : str :=
    match t with
    | Iri i => wt_iri i
    | Bnode l => [95; 58] ++ l
    | LitDt lex dt => wt_literal_dt lex dt
    | LitLang lex tag => wt_literal_lang lex tag
    | Var v => [63] ++ v
    | Triple s p o =>
        [60; 60; 32] ++
        match s with Iri i => wt_plain_iri i | _ => wt_term s end ++ [32] ++
        match p with Iri i => wt_plain_iri i | _ => wt_term p end ++ [32] ++
        match o with Iri i => wt_plain_iri i | _ => wt_term o end ++ [32] ++
        [62; 62]
    end.
  Definition wt_non_list_term (t : term) : str :=
    match t with Iri i => wt_plain_iri i | _ => wt_term t end.

  (* what the writer calls at each position: write_term for the root of a tree, an object or a list item;
     write_non_list_term for a predicate, a graph name, a component of a quoted triple *)
  Definition wr_at (p : tpos) (t : term) : list N := if allows_coll p then wr_term t else wr_non_list_term t.
  Definition wt_at (p : tpos) (t : term) : str := if allows_coll p then wt_term t else wt_non_list_term t.
End Writer.

(* ------------------------------------------------------------------------------------------ *)
(** * Part 3: well-formedness, continuations, checkers                                         *)
(* ------------------------------------------------------------------------------------------ *)
(* an IRI (absolute or not) that can stand raw between '<' and '>': none of the characters that IRIREF
   excludes, [^#x00-#x20<> DQUOTE {}|^`\].  Every RFC 3987 IRI reference qualifies. *)
Definition iri_ok (i : str) : bool := forallb iri_char i.

(* a term that may stand at position p of an RDF / RDF-star statement written in Turtle: no variable, blank node
   labels are BLANK_NODE_LABELs of the Turtle grammar, language tags are LANGTAGs; any lexical form *)
Fixpoint wf_at (p : tpos) (t : term) : bool :=
  match t with
  | Iri i => iri_ok i
  | Bnode l => allows_bnode p && matchb BNODE_BODY l
  | LitDt _ dt => allows_lit p && iri_ok dt
  | LitLang _ tag => allows_lit p && langtag_ok tag
  | Triple s pr o => allows_quoted p && wf_at TQs s && wf_at TPred pr && wf_at TQo o
  | Var _ => false
  end.

(* what sophia's LanguageTag::new accepts (api/src/term/language_tag.rs, LANG_TAG, transcribed by hand):
   ^[A-Za-z][A-Za-z0-9]*(-[A-Za-z0-9]+)*$ -- more than LANGTAG, whose first subtag has letters only *)
Definition sophia_langtag_ok (tag : str) : bool :=
  match tag with
  | c :: r => Sophia.C03.Model.alpha c && Sophia.C03.Model.subtags_ok false r
  | [] => false
  end.

(* a prefix map whose prefixes are PN_PREFIXes of the grammar (or empty) and pairwise distinct *)
Fixpoint distinct (l : list str) : bool :=
  match l with
  | [] => true
  | x :: l' => negb (existsb (str_eqb x) l') && distinct l'
  end.
Definition is_nil {A} (l : list A) : bool := match l with [] => true | _ => false end.
Definition prefix_ok (p : str) : bool := is_nil p || matchb PN_PREFIX p.
Definition pm_ok (pm : list (str * str)) : bool :=
  forallb (fun e => prefix_ok (fst e)) pm && distinct (map fst pm).

(* what may follow a term in the output of the writer: white space (" a ", "\n" + indentation, " " before the
   object, " {", " {|", " |}", " >>"), ',' ';' (write_properties), ']' (end of a property list), ')' , the end
   of the statement ".\n", or nothing; and, the Turtle grammar allowing white space before a language tag or
   "^^", the next token must not be '@...' or '^^' (no term and no punctuation of the writer starts so) *)
Definition delim (c : N) : bool := is_ws c || (c =? 44) || (c =? 59) || (c =? 93) || (c =? 41).
Definition follows_lit (l : str) : bool :=
  match strip [64] l with
  | Some _ => true
  | None => match strip [94; 94] l with Some _ => true | None => false end
  end.
Definition stop_ok (rest : str) : bool :=
  match rest with
  | [] => true
  | c :: r =>
      (delim c || ((c =? 46) && match r with [] => true | d :: _ => is_ws d end))
      && negb (follows_lit (skip rest))
  end.

Fixpoint depth (t : term) : nat :=
  match t with
  | Triple s p o => S (Nat.max (depth s) (Nat.max (depth p) (depth o)))
  | _ => O
  end.
Fixpoint has_var (t : term) : bool :=
  match t with
  | Var _ => true
  | Triple s p o => has_var s || has_var p || has_var o
  | _ => false
  end.

(* the strings of a term and of a prefix map are sequences of Unicode scalar values (Rust `str`) *)
Fixpoint scalar_term (t : term) : bool :=
  match t with
  | Iri s | Bnode s | Var s => scalar_str s
  | LitDt a b | LitLang a b => scalar_str a && scalar_str b
  | Triple s p o => scalar_term s && scalar_term p && scalar_term o
  end.
Definition scalar_pm (pm : list (str * str)) : bool :=
  forallb (fun e => scalar_str (fst e) && scalar_str (snd e)) pm.

(* ---- harness-facing checkers ---- *)
Definition bytes_eqb (a b : list N) : bool := list_eqb N.eqb a b.
Fixpoint term_eqx (a b : term) : bool :=
  match a, b with
  | Iri x, Iri y => str_eqb x y
  | Bnode x, Bnode y => str_eqb x y
  | Var x, Var y => str_eqb x y
  | LitDt l1 d1, LitDt l2 d2 => str_eqb l1 l2 && str_eqb d1 d2
  | LitLang l1 t1, LitLang l2 t2 => str_eqb l1 l2 && str_eqb t1 t2
  | Triple s1 p1 o1, Triple s2 p2 o2 => term_eqx s1 s2 && term_eqx p1 p2 && term_eqx o1 o2
  | _, _ => false
  end.
Definition pos_of (k : N) : tpos :=
  if k =? 0 then TSubj else if k =? 1 then TPred else if k =? 2 then TObj else if k =? 3 then TGraph
  else if k =? 4 then TQs else TQo.

(* one case of the correspondence.  [obs] = the bytes of the term as found in the output of the real serializer,
   [after] = the bytes that follow it there (a few of them), [abs] = what Iri::new answered for the IRIs of the
   case, in order of appearance in the table [abs_tab] (IRI, answer).
     1. the model writes exactly these bytes;
     2. the term is well-formed per the Coq predicates and the continuation is admissible (the hypotheses of the
        theorem hold on real output);
     3. the reference reader reads the observed bytes + continuation back to exactly the term and the
        continuation. *)
Definition text_ok (absf : str -> bool) (pm : list (str * str)) (k : N) (t : term) (obs after : list N) : bool :=
  bytes_eqb (wr_at absf pm (pos_of k) t) obs.
Definition hyps_ok (pm : list (str * str)) (k : N) (t : term) (after : str) : bool :=
  pm_ok pm && wf_at (pos_of k) t && stop_ok after.
Definition reads_back (pm : list (str * str)) (k : N) (t : term) (obs after : list N) : bool :=
  match Sophia.C03.Model.utf8_dec (obs ++ after), Sophia.C03.Model.utf8_dec after with
  | Some cps, Some rest =>
      match read_at (S (length cps)) (pos_of k) pm cps with
      | Some (t', rest') => term_eqx t' t && str_eqb rest' rest
      | None => false
      end
  | _, _ => false
  end.
Definition term_case_ok (absf : str -> bool) (pm : list (str * str)) (k : N) (t : term) (obs after : list N) : bool :=
  text_ok absf pm k t obs after &&
  match Sophia.C03.Model.utf8_dec after with
  | Some rest => hyps_ok pm k t rest
  | None => false
  end &&
  reads_back pm k t obs after.
(* a case outside the hypotheses of the theorem (odd labels, prefixes ...): only the text is compared *)
Definition term_text_only_ok (absf : str -> bool) (pm : list (str * str)) (k : N) (t : term) (obs : list N) : bool :=
  bytes_eqb (wr_at absf pm (pos_of k) t) obs.
(* the writer's output for a variable is not Turtle: the reference reader rejects it *)
Definition rejected (pm : list (str * str)) (k : N) (bytes : list N) : bool :=
  match Sophia.C03.Model.utf8_dec bytes with
  | Some cps => match read_at (S (length cps)) (pos_of k) pm cps with Some _ => false | None => true end
  | None => true
  end.
