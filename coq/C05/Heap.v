(* C05/Heap.v -- Heap's algorithm (Model.heap_perms) enumerates every permutation exactly once. *)
From Sophia.C05 Require Import Model.
From Coq Require Import Permutation Factorial Arith Lia.
Local Open Scope nat_scope.

(* ---------- set_nth / swap ---------- *)
Lemma set_nth_length {A} i (x : A) l : length (set_nth i x l) = length l.
Proof. revert i; induction l; intros [|i]; simpl; auto. Qed.

Lemma swap_length {A} i j (l : list A) : length (swap i j l) = length l.
Proof.
  unfold swap. destruct (nth_error l i), (nth_error l j); auto.
  now rewrite !set_nth_length.
Qed.

Lemma set_nth_app_l {A} i (x : A) l r :
  i < length l -> set_nth i x (l ++ r) = set_nth i x l ++ r.
Proof.
  revert i; induction l; intros [|i] H; simpl in *; try lia; auto.
  f_equal. apply IHl. lia.
Qed.

Lemma nth_error_mid {A} (l1 l2 : list A) a i :
  i = length l1 -> nth_error (l1 ++ a :: l2) i = Some a.
Proof. intros ->. rewrite nth_error_app2 by lia. now rewrite Nat.sub_diag. Qed.

Lemma set_nth_mid {A} (l1 l2 : list A) a x i :
  i = length l1 -> set_nth i x (l1 ++ a :: l2) = l1 ++ x :: l2.
Proof. intros ->. induction l1; simpl; auto. now rewrite IHl1. Qed.

Lemma swap_spec {A} (l1 l2 l3 : list A) a b i j :
  i = length l1 -> j = length l1 + S (length l2) ->
  swap i j (l1 ++ a :: l2 ++ b :: l3) = l1 ++ b :: l2 ++ a :: l3.
Proof.
  intros Hi Hj.
  assert (H1 : nth_error (l1 ++ a :: l2 ++ b :: l3) i = Some a)
    by (apply nth_error_mid; auto).
  assert (H2 : nth_error (l1 ++ a :: l2 ++ b :: l3) j = Some b).
  { replace (l1 ++ a :: l2 ++ b :: l3) with ((l1 ++ a :: l2) ++ b :: l3)
      by (rewrite <- app_assoc; reflexivity).
    apply nth_error_mid. rewrite app_length; simpl; lia. }
  unfold swap. rewrite H1, H2.
  rewrite set_nth_mid by auto.
  replace (l1 ++ b :: l2 ++ b :: l3) with ((l1 ++ b :: l2) ++ b :: l3)
    by (rewrite <- app_assoc; reflexivity).
  rewrite set_nth_mid by (rewrite app_length; simpl; lia).
  rewrite <- app_assoc. reflexivity.
Qed.

Lemma set_nth_same {A} (l : list A) i x : nth_error l i = Some x -> set_nth i x l = l.
Proof.
  revert i; induction l; intros [|i] H; simpl in *; try discriminate; auto.
  - congruence.
  - f_equal; auto.
Qed.

Lemma swap_same {A} i (l : list A) : swap i i l = l.
Proof.
  unfold swap. destruct (nth_error l i) eqn:E; auto.
  rewrite (set_nth_same _ _ _ E). apply set_nth_same; auto.
Qed.

Lemma swap_app_l {A} i j (v r : list A) :
  i < length v -> j < length v -> swap i j (v ++ r) = swap i j v ++ r.
Proof.
  intros Hi Hj. unfold swap. rewrite !nth_error_app1 by auto.
  destruct (nth_error v i) eqn:Ei; [|apply nth_error_None in Ei; lia].
  destruct (nth_error v j) eqn:Ej; [|apply nth_error_None in Ej; lia].
  rewrite set_nth_app_l by auto.
  rewrite set_nth_app_l by (rewrite set_nth_length; auto). reflexivity.
Qed.

Lemma set_nth_map {A B} (f : A -> B) i x l :
  set_nth i (f x) (map f l) = map f (set_nth i x l).
Proof. revert i; induction l; intros [|i]; simpl; auto. now rewrite IHl. Qed.

Lemma swap_map {A B} (f : A -> B) i j l : swap i j (map f l) = map f (swap i j l).
Proof.
  unfold swap. rewrite !nth_error_map.
  destruct (nth_error l i), (nth_error l j); simpl; auto.
  now rewrite !set_nth_map.
Qed.

(* ---------- heap_loop: unfolding, length, map, frame ---------- *)
Lemma heap_loop_S {A} (rec : list A -> list (list A) * list A) size c i v :
  heap_loop rec size (S c) i v =
  (fst (rec v) ++
   fst (heap_loop rec size c (S i)
          (if Nat.odd size then swap 0 (size - 1) (snd (rec v))
           else swap i (size - 1) (snd (rec v)))),
   snd (heap_loop rec size c (S i)
          (if Nat.odd size then swap 0 (size - 1) (snd (rec v))
           else swap i (size - 1) (snd (rec v))))).
Proof.
  simpl. destruct (rec v) as [o1 v1]. simpl.
  destruct (heap_loop rec size c (S i) _). reflexivity.
Qed.

Lemma heap_SS {A} n (v : list A) :
  heap (S (S n)) v = heap_loop (heap (S n)) (S (S n)) (S (S n)) 0 v.
Proof. reflexivity. Qed.

Lemma heap_loop_length {A} (rec : list A -> list (list A) * list A) size :
  (forall v, length (snd (rec v)) = length v) ->
  forall cnt i v, length (snd (heap_loop rec size cnt i v)) = length v.
Proof.
  intros H. induction cnt; intros i v.
  - reflexivity.
  - rewrite heap_loop_S. cbn [snd]. rewrite IHcnt.
    destruct (Nat.odd size); rewrite swap_length; apply H.
Qed.

Lemma heap_length {A} n : forall v : list A, length (snd (heap n v)) = length v.
Proof.
  induction n; intros v. { reflexivity. }
  destruct n. { reflexivity. }
  rewrite heap_SS. apply heap_loop_length. exact IHn.
Qed.

Lemma heap_loop_map {A B} (f : A -> B) recA recB size :
  (forall v, recB (map f v) = (map (map f) (fst (recA v)), map f (snd (recA v)))) ->
  forall cnt i v,
    heap_loop recB size cnt i (map f v) =
    (map (map f) (fst (heap_loop recA size cnt i v)),
     map f (snd (heap_loop recA size cnt i v))).
Proof.
  intros H. induction cnt; intros i v.
  - reflexivity.
  - rewrite !heap_loop_S. rewrite H. cbn [fst snd].
    assert (E : (if Nat.odd size then swap 0 (size - 1) (map f (snd (recA v)))
                 else swap i (size - 1) (map f (snd (recA v)))) =
                map f (if Nat.odd size then swap 0 (size - 1) (snd (recA v))
                       else swap i (size - 1) (snd (recA v)))).
    { destruct (Nat.odd size); apply swap_map. }
    rewrite E, IHcnt. cbn [fst snd]. rewrite map_app. reflexivity.
Qed.

Lemma heap_map {A B} (f : A -> B) n : forall v,
  heap n (map f v) = (map (map f) (fst (heap n v)), map f (snd (heap n v))).
Proof.
  induction n; intros v. { reflexivity. }
  destruct n. { reflexivity. }
  rewrite !heap_SS. apply heap_loop_map. exact IHn.
Qed.

Theorem heap_perms_map : forall (A B : Type) (f : A -> B) (l : list A),
  heap_perms (map f l) = map (map f) (heap_perms l).
Proof.
  intros A B f l. unfold heap_perms. rewrite map_length.
  destruct l as [|a l]; [reflexivity|].
  cbn [is_nil map]. change (f a :: map f l) with (map f (a :: l)).
  rewrite heap_map. reflexivity.
Qed.

Lemma heap_loop_frame {A} (rec : list A -> list (list A) * list A) size rest :
  1 <= size ->
  (forall v, length (snd (rec v)) = length v) ->
  (forall v, size <= length v ->
     rec (v ++ rest) = (map (fun p => p ++ rest) (fst (rec v)), snd (rec v) ++ rest)) ->
  forall cnt i v, i + cnt <= size -> size <= length v ->
    heap_loop rec size cnt i (v ++ rest) =
    (map (fun p => p ++ rest) (fst (heap_loop rec size cnt i v)),
     snd (heap_loop rec size cnt i v) ++ rest).
Proof.
  intros Hs Hlen Hrec. induction cnt; intros i v Hi Hv.
  - reflexivity.
  - rewrite !heap_loop_S. rewrite (Hrec v Hv). cbn [fst snd].
    pose proof (Hlen v) as Hl1. set (v1 := snd (rec v)) in *.
    assert (Hsw : (if Nat.odd size then swap 0 (size - 1) (v1 ++ rest)
                   else swap i (size - 1) (v1 ++ rest)) =
                  (if Nat.odd size then swap 0 (size - 1) v1
                   else swap i (size - 1) v1) ++ rest).
    { destruct (Nat.odd size); apply swap_app_l; lia. }
    rewrite Hsw. rewrite IHcnt.
    + cbn [fst snd]. rewrite map_app. reflexivity.
    + lia.
    + destruct (Nat.odd size); rewrite swap_length; lia.
Qed.

Lemma heap_frame {A} n : forall (v rest : list A), n <= length v ->
  heap n (v ++ rest) = (map (fun p => p ++ rest) (fst (heap n v)), snd (heap n v) ++ rest).
Proof.
  induction n; intros v rest H. { reflexivity. }
  destruct n. { reflexivity. }
  rewrite !heap_SS. apply heap_loop_frame; try lia.
  - apply heap_length.
  - intros v' Hv'. apply IHn. lia.
Qed.

(* ---------- specification of one level of the recursion ---------- *)
Section Main.
Context {A : Type}.

Definition Good (q : list A) (os : list (list A)) : Prop :=
  (forall p, In p os <-> Permutation q p) /\
  (NoDup q -> NoDup os) /\
  length os = fact (length q).

(* a trace = for every loop iteration, the first size-1 cells and the last cell at call time *)
Definition outs_of (O : list A -> list (list A)) (tr : list (list A * A)) : list (list A) :=
  flat_map (fun qx => map (fun p => p ++ [snd qx]) (O (fst qx))) tr.

Definition TraceOK (pre : list A) (tr : list (list A * A)) : Prop :=
  Permutation pre (map snd tr) /\
  Forall (fun qx => Permutation pre (fst qx ++ [snd qx])) tr.

Lemma NoDup_app_intro {T} (l1 l2 : list T) :
  NoDup l1 -> NoDup l2 -> (forall a, In a l1 -> In a l2 -> False) -> NoDup (l1 ++ l2).
Proof.
  induction l1 as [|a l1 IH]; intros H1 H2 H; simpl; auto.
  inversion H1; subst. constructor.
  - rewrite in_app_iff. intros [Hin|Hin]; auto. apply (H a); simpl; auto.
  - apply IH; auto. intros b Hb1 Hb2. apply (H b); simpl; auto.
Qed.

Lemma NoDup_map_inj {T U} (f : T -> U) (l : list T) :
  (forall a b, f a = f b -> a = b) -> NoDup l -> NoDup (map f l).
Proof.
  intros Hf. induction 1; simpl; constructor; auto.
  rewrite in_map_iff. intros [y [E Hy]]. apply Hf in E. subst. auto.
Qed.

Lemma good_outs n O pre tr :
  length pre = S n -> (forall q, length q = n -> Good q (O q)) -> TraceOK pre tr ->
  Good pre (outs_of O tr).
Proof.
  intros Hlen HO [Hperm Hall]. rewrite Forall_forall in Hall.
  assert (Hq : forall qx, In qx tr -> length (fst qx) = n).
  { intros qx Hin. apply Hall in Hin. apply Permutation_length in Hin.
    rewrite app_length in Hin. simpl in Hin. lia. }
  split; [|split].
  - intros p. unfold outs_of. rewrite in_flat_map. split.
    + intros [qx [Hin Hp]]. apply in_map_iff in Hp. destruct Hp as [p' [<- Hp']].
      eapply Permutation_trans; [apply (Hall _ Hin)|].
      apply Permutation_app_tail. apply (HO _ (Hq _ Hin)). exact Hp'.
    + intros Hp.
      assert (Hpl : length p = S n) by (rewrite <- (Permutation_length Hp); auto).
      destruct (exists_last (l := p)) as [p' [y ->]].
      { intros ->. discriminate. }
      assert (Hy : In y (map snd tr)).
      { eapply Permutation_in; [exact Hperm|].
        eapply Permutation_in; [apply Permutation_sym, Hp|].
        apply in_or_app; right; left; auto. }
      apply in_map_iff in Hy. destruct Hy as [qx [<- Hin]]. exists qx. split; auto.
      apply in_map_iff. exists p'. split; auto.
      apply (HO _ (Hq _ Hin)). apply Permutation_app_inv_r with [snd qx].
      eapply Permutation_trans; [apply Permutation_sym, (Hall _ Hin)|]. exact Hp.
  - intros Hnd.
    assert (Hnd' : NoDup (map snd tr)) by (eapply Permutation_NoDup; eauto).
    assert (Hall' : forall qx, In qx tr -> NoDup (fst qx)).
    { intros qx Hin. pose proof (Permutation_NoDup (Hall _ Hin) Hnd) as H.
      apply NoDup_remove_1 in H. now rewrite app_nil_r in H. }
    clear Hperm Hall Hlen Hnd.
    induction tr as [|[q x] tr IH]; simpl; [constructor|].
    inversion Hnd' as [|x' l' Hx Hnd'']; subst.
    apply NoDup_app_intro.
    + apply NoDup_map_inj.
      * intros a b E. now apply app_inv_tail in E.
      * apply (HO q); [apply (Hq (q, x)); simpl; auto|].
        apply (Hall' (q, x)); simpl; auto.
    + apply IH; auto; intros qx Hin; [apply Hq|apply Hall']; simpl; auto.
    + intros a Ha Hb. apply in_map_iff in Ha. destruct Ha as [p' [<- _]].
      apply in_flat_map in Hb. destruct Hb as [qx [Hin Hb]].
      apply in_map_iff in Hb. destruct Hb as [p'' [E _]].
      apply app_inj_tail in E. destruct E as [_ E]. simpl in Hx.
      apply Hx. rewrite <- E. apply in_map. exact Hin.
  - assert (E : length (outs_of O tr) = length tr * fact n).
    { clear Hperm Hall. induction tr as [|qx tr IH]; simpl; auto.
      rewrite app_length, map_length. rewrite IH by (intros; apply Hq; simpl; auto).
      destruct (HO (fst qx)) as [_ [_ ->]]; [apply Hq; simpl; auto|].
      rewrite (Hq qx) by (simpl; auto). reflexivity. }
    rewrite E. apply Permutation_length in Hperm. rewrite map_length in Hperm.
    rewrite <- Hperm, Hlen. reflexivity.
Qed.

(* ---------- odd size: every iteration rotates the whole prefix right by one ---------- *)
Fixpoint odd_trace (l2 r : list A) : list (list A * A) :=
  match r with
  | [] => []
  | x :: r' => (l2 ++ rev r', x) :: odd_trace (x :: l2) r'
  end.

Lemma odd_trace_snd r : forall l2, map snd (odd_trace l2 r) = r.
Proof. induction r; intros; simpl; auto. now rewrite IHr. Qed.

Lemma odd_trace_perm r : forall l2,
  Forall (fun qx => Permutation (l2 ++ rev r) (fst qx ++ [snd qx])) (odd_trace l2 r).
Proof.
  induction r as [|a r IH]; intros l2; simpl; constructor.
  - simpl. rewrite app_assoc. reflexivity.
  - eapply Forall_impl; [|apply IH]. intros qx H. simpl in H.
    eapply Permutation_trans; [|exact H].
    rewrite app_assoc. apply Permutation_sym.
    apply (Permutation_cons_append (l2 ++ rev r) a).
Qed.

Lemma odd_loop n :
  Nat.odd (S n) = true -> 1 <= n ->
  (forall (q : list A) (y : A), length q + 1 = n -> snd (heap n (q ++ [y])) = y :: q) ->
  forall r l2 i cnt, cnt = length r -> length l2 + length r = S n ->
    heap_loop (heap n) (S n) cnt i (l2 ++ rev r) =
    (outs_of (fun q => fst (heap n q)) (odd_trace l2 r), rev r ++ l2).
Proof.
  intros Hn Hn1 Hfin.
  induction r as [|x r IH]; intros l2 i cnt -> Hl.
  - simpl. rewrite app_nil_r. reflexivity.
  - cbn [length] in *. rewrite heap_loop_S. rewrite Hn.
    replace (S n - 1) with n by lia.
    assert (Hst : l2 ++ rev (x :: r) = (l2 ++ rev r) ++ [x]) by (simpl; apply app_assoc).
    rewrite Hst.
    rewrite heap_frame by (rewrite app_length, rev_length; lia). cbn [fst snd].
    destruct (exists_last (l := l2 ++ rev r)) as [m [y E]].
    { intros E. apply (f_equal (@length A)) in E.
      rewrite app_length, rev_length in E. simpl in E. lia. }
    assert (Hm : length m + 1 = n).
    { apply (f_equal (@length A)) in E.
      rewrite !app_length, rev_length in E. simpl in E. lia. }
    assert (Hs : snd (heap n (l2 ++ rev r)) = y :: m) by (rewrite E; apply Hfin; exact Hm).
    rewrite Hs.
    assert (Hsw : swap 0 n ((y :: m) ++ [x]) = (x :: l2) ++ rev r).
    { change ((y :: m) ++ [x]) with ([] ++ y :: m ++ x :: []).
      rewrite swap_spec by (simpl; lia). simpl. rewrite <- E. reflexivity. }
    rewrite Hsw. rewrite (IH (x :: l2) (S i) (length r)) by (simpl; lia).
    cbn [fst snd odd_trace]. unfold outs_of. cbn [flat_map fst snd].
    f_equal. simpl rev. rewrite <- app_assoc. reflexivity.
Qed.

(* ---------- even size: iteration i swaps cells i and size-1 ---------- *)
Fixpoint even_trace (m1 m2 : list A) (y : A) : list (list A * A) :=
  match m2 with
  | [] => [(m1, y)]
  | z :: m2' => (m1 ++ m2, y) :: even_trace (m1 ++ [y]) m2' z
  end.

Lemma even_trace_snd m2 : forall m1 y, map snd (even_trace m1 m2 y) = y :: m2.
Proof. induction m2; intros; simpl; auto. now rewrite IHm2. Qed.

Lemma even_trace_perm m2 : forall m1 y,
  Forall (fun qx => Permutation (m1 ++ m2 ++ [y]) (fst qx ++ [snd qx])) (even_trace m1 m2 y).
Proof.
  induction m2 as [|z m2 IH]; intros m1 y; simpl.
  - constructor; [|constructor]. reflexivity.
  - constructor.
    + simpl. rewrite <- app_assoc. reflexivity.
    + eapply Forall_impl; [|apply IH]. intros qx H. simpl in H.
      eapply Permutation_trans; [|exact H].
      rewrite <- app_assoc. apply Permutation_app_head. simpl.
      apply Permutation_trans with (y :: z :: m2).
      * apply Permutation_sym. apply (Permutation_cons_append (z :: m2) y).
      * apply perm_skip. apply Permutation_cons_append.
Qed.

Lemma even_loop n :
  Nat.odd (S n) = false ->
  (forall q : list A, length q = n -> snd (heap n q) = q) ->
  forall m2 m1 y i cnt, cnt = S (length m2) -> i = length m1 -> length m1 + length m2 = n ->
    heap_loop (heap n) (S n) cnt i (m1 ++ m2 ++ [y]) =
    (outs_of (fun q => fst (heap n q)) (even_trace m1 m2 y), m1 ++ y :: m2).
Proof.
  intros Hn Hfin.
  induction m2 as [|z m2 IH]; intros m1 y i cnt -> Hi Hl.
  - cbn [length] in *. rewrite heap_loop_S, Hn. replace (S n - 1) with n by lia.
    cbn [app]. rewrite heap_frame by lia. cbn [fst snd].
    rewrite Hfin by lia.
    assert (E : i = n) by lia. rewrite E. rewrite swap_same.
    cbn [heap_loop fst snd even_trace]. unfold outs_of. cbn [flat_map fst snd].
    reflexivity.
  - cbn [length] in *. rewrite heap_loop_S, Hn. replace (S n - 1) with n by lia.
    assert (Hst : m1 ++ (z :: m2) ++ [y] = (m1 ++ z :: m2) ++ [y])
      by (rewrite <- app_assoc; reflexivity).
    rewrite Hst.
    rewrite heap_frame by (rewrite app_length; simpl; lia). cbn [fst snd].
    rewrite Hfin by (rewrite app_length; simpl; lia).
    assert (Hsw : swap i n ((m1 ++ z :: m2) ++ [y]) = (m1 ++ [y]) ++ m2 ++ [z]).
    { rewrite <- app_assoc. cbn [app].
      rewrite swap_spec by lia. rewrite <- app_assoc. reflexivity. }
    rewrite Hsw.
    rewrite (IH (m1 ++ [y]) z (S i) (S (length m2)))
      by (try rewrite app_length; simpl; lia).
    cbn [fst snd even_trace]. unfold outs_of. cbn [flat_map fst snd].
    f_equal. rewrite <- app_assoc. reflexivity.
Qed.

(* ---------- the main induction ---------- *)
Theorem heap_main : forall n (q : list A) (x : A), length q = n ->
  snd (heap (S n) (q ++ [x])) = (if Nat.even (S n) then x :: q else q ++ [x]) /\
  Good (q ++ [x]) (fst (heap (S n) (q ++ [x]))).
Proof.
  induction n as [|n IHn]; intros q x Hl.
  - destruct q; [|discriminate]. simpl. split; [reflexivity|].
    split; [|split].
    + intros p. simpl. split.
      * intros [<-|[]]. reflexivity.
      * intros H. apply Permutation_length_1_inv in H. auto.
    + intros _. constructor; [simpl; tauto|constructor].
    + reflexivity.
  - assert (HO : forall q0 : list A, length q0 = S n -> Good q0 (fst (heap (S n) q0))).
    { intros q0 H0. destruct (exists_last (l := q0)) as [q' [y ->]].
      { intros ->. discriminate. }
      apply IHn. rewrite app_length in H0. simpl in H0. lia. }
    assert (Hpl : length (q ++ [x]) = S (S n)) by (rewrite app_length; simpl; lia).
    rewrite heap_SS.
    destruct (Nat.odd (S (S n))) eqn:Hodd.
    + (* odd size *)
      assert (Hev : Nat.even (S (S n)) = false) by (rewrite <- Nat.negb_odd, Hodd; reflexivity).
      rewrite Hev.
      assert (Hfin : forall (q' : list A) (y : A), length q' + 1 = S n ->
                       snd (heap (S n) (q' ++ [y])) = y :: q').
      { intros q' y H. destruct (IHn q' y) as [E _]; [lia|]. rewrite E.
        rewrite <- Nat.odd_succ, Hodd. reflexivity. }
      pose proof (odd_loop (S n) Hodd ltac:(lia) Hfin (rev (q ++ [x])) [] 0 (S (S n))) as HL.
      rewrite rev_length, rev_involutive, app_nil_r in HL. cbn [app] in HL.
      rewrite HL by (rewrite ?Hpl; simpl; lia). cbn [fst snd]. split; [reflexivity|].
      apply good_outs with (n := S n); auto.
      split.
      * rewrite odd_trace_snd. apply Permutation_rev.
      * pose proof (odd_trace_perm (rev (q ++ [x])) []) as H.
        rewrite rev_involutive in H. exact H.
    + (* even size *)
      assert (Hev : Nat.even (S (S n)) = true) by (rewrite <- Nat.negb_odd, Hodd; reflexivity).
      rewrite Hev.
      assert (Hfin : forall q0 : list A, length q0 = S n -> snd (heap (S n) q0) = q0).
      { intros q0 H0. destruct (exists_last (l := q0)) as [q' [y ->]].
        { intros ->. discriminate. }
        destruct (IHn q' y) as [E _]; [rewrite app_length in H0; simpl in H0; lia|].
        rewrite E. rewrite <- Nat.odd_succ, Hodd. reflexivity. }
      pose proof (even_loop (S n) Hodd Hfin q [] x 0 (S (S n))) as HL.
      cbn [app length] in HL. rewrite HL by lia. cbn [fst snd]. split; [reflexivity|].
      apply good_outs with (n := S n); auto.
      split.
      * rewrite even_trace_snd. apply Permutation_sym, Permutation_cons_append.
      * apply (even_trace_perm q [] x).
Qed.

Lemma heap_perms_good (l : list A) : l <> [] -> Good l (heap_perms l).
Proof.
  intros Hl. destruct (exists_last Hl) as [q [x ->]].
  unfold heap_perms.
  replace (is_nil (q ++ [x])) with false by (destruct q; reflexivity).
  replace (length (q ++ [x])) with (S (length q)) by (rewrite app_length; simpl; lia).
  apply heap_main. reflexivity.
Qed.

End Main.

(* ---------- the theorems ---------- *)
Theorem heap_perms_sound : forall (A : Type) (l p : list A),
  In p (heap_perms l) -> Permutation l p.
Proof.
  intros A l p H. destruct l as [|a l]; [destruct H|].
  apply (heap_perms_good (a :: l)); [discriminate|exact H].
Qed.

Theorem heap_perms_length : forall (A : Type) (l : list A),
  l <> [] -> length (heap_perms l) = fact (length l).
Proof. intros A l H. apply (heap_perms_good l H). Qed.

Theorem heap_perms_complete : forall (A : Type) (l p : list A),
  l <> [] -> Permutation l p -> In p (heap_perms l).
Proof. intros A l p H Hp. apply (heap_perms_good l H). exact Hp. Qed.

Theorem heap_perms_nodup : forall (A : Type) (l : list A),
  NoDup l -> NoDup (heap_perms l).
Proof.
  intros A l H. destruct l as [|a l]; [constructor|].
  apply (heap_perms_good (a :: l)); [discriminate|exact H].
Qed.

