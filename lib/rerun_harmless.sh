#!/bin/bash
# usage: rerun_harmless.sh <pattern>   -- runs the quick check of each recorded harmless control matching the pattern
# against its patch in a private namespace (lib/try_seed.sh, current working tree of /verif); one line per control
out=/root/seedlogs/harmless-rerun.txt
for d in /verif/seeded/HARMLESS-$1*; do
  pid=$(python3 -c "import json;print(json.load(open('$d/meta.json'))['property'])")
  r=$(/verif/lib/try_seed.sh $d $pid 2>&1)
  if echo "$r" | grep -q "does not apply"; then v="PATCH-DOES-NOT-APPLY (the file has changed in /repo since)";
  elif echo "$r" | grep -q "^VIOLATION"; then v="ALARM: $(echo "$r" | grep -m1 -A1 '^VIOLATION' | tr '\n' ' ' | cut -c1-400)";
  else v="quiet: $(echo "$r" | grep 'obligations discharged' | cut -c1-160)"; fi
  echo "$(basename $d): $v" >> $out
done
