#!/bin/bash
# usage: try_seed.sh <seed-dir> <Cxx> [tier]
# Runs ./check <Cxx> against the seed's patch inside a private mount namespace whose /repo is a fresh clone of /repo
# and whose /verif is a copy of the CURRENT WORKING TREE of /verif (with its build cache): nothing real is touched.
sd=$(readlink -f "$1"); pid=$2; tier=${3:-quick}
sh=/tmp/tryseed-$$
rm -rf $sh; mkdir -p $sh/verif
git clone -q /repo $sh/repo
rsync -a --exclude .git --exclude 'build/target/debug/incremental' --exclude 'build/run' --exclude 'build/cov' --exclude replay /verif/ $sh/verif/
SHADOW=$sh /verif/lib/shadow_seedtest.sh $sd/patch.diff $pid $tier > $sh/out.log 2>&1
grep -E "^VIOLATION|^KNOWN-FINDING|failing input found|no longer checks|obligations discharged|seedtest|does not apply" $sh/out.log | cut -c1-700
rm -rf $sh
