(* C04/TermProofs.v -- the term-level ROUND TRIP of the pretty Turtle / TriG writer (TermText.v) through the
   reference reader written from the W3C grammar (TermRead.v): for every term without variables, well-formed at
   its position, every prefix map with valid and distinct prefixes, every answer of the IRI validity test and
   every admissible continuation,
        read_at fuel p pm (wt_at absf pm p t ++ rest) = Some (t, rest).
   Part A: the generic longest-match function.          Part B: characters, classes, continuations.
   Part C: tokens (numbers, labels, prefixed names, keywords) are cut where the writer ended them.
   Part D: IRIs and literals.   Part E: terms.   Part F: bytes.   Part G: what fails outside the hypotheses. *)
From Sophia.Common Require Import Prelude Term.
From Sophia.C04 Require Import Regex Grammar TermGrammar Model AtomsProofs TermRead TermText.
From Sophia.C04 Require Proofs Incl TermShapes.
From Sophia.C03 Require Model Proofs.

Notation all_in := Sophia.C04.TermShapes.all_in.

(* ===================================================================================== *)
(* Part A: longest match                                                                 *)
(* ===================================================================================== *)
Lemma matchg_Emp {A} (test : N -> A -> bool) w : matchg test Emp w = false.
Proof. induction w as [|c w IH]; [reflexivity|exact IH]. Qed.

Lemma is_emp_true {A} (r : rex A) : is_emp r = true -> r = Emp.
Proof. destruct r; try discriminate; reflexivity. Qed.

(* no non-empty prefix of l is a word of r: the scan returns what it already had *)
Lemma lgo_none l : forall r acc best,
  (forall u v, l = u ++ v -> u <> [] -> matchb r u = false) ->
  lgo r acc l best = if nullable r then Some (rev acc, l) else best.
Proof.
  induction l as [|c l IH]; intros r acc best H; [reflexivity|].
  cbn [lgo]. destruct (is_emp (deriv (inr c) r)) eqn:E; [reflexivity|].
  rewrite IH.
  - assert (N1 : nullable (deriv (inr c) r) = false).
    { specialize (H [c] l eq_refl ltac:(discriminate)). exact H. }
    rewrite N1. reflexivity.
  - intros u v -> Hu. exact (H (c :: u) v eq_refl ltac:(discriminate)).
Qed.

Lemma lgo_app w : forall r acc best rest,
  matchb r w = true ->
  (forall u v, rest = u ++ v -> u <> [] -> matchb r (w ++ u) = false) ->
  lgo r acc (w ++ rest) best = Some (rev acc ++ w, rest).
Proof.
  induction w as [|c w IH]; intros r acc best rest M H.
  - cbn [app]. rewrite lgo_none by exact H. change (matchb r []) with (nullable r) in M. rewrite M, app_nil_r. reflexivity.
  - cbn [app lgo]. change (matchb r (c :: w)) with (matchb (deriv (inr c) r) w) in M.
    destruct (is_emp (deriv (inr c) r)) eqn:E.
    + apply is_emp_true in E. rewrite E in M. unfold matchb in M. rewrite matchg_Emp in M. discriminate.
    + rewrite (IH (deriv (inr c) r) (c :: acc) _ rest M).
      * cbn [rev]. rewrite <- app_assoc. reflexivity.
      * intros u v E' Hu. exact (H u v E' Hu).
Qed.

Definition no_ext (r : rex cclass) (w rest : str) : Prop :=
  forall u v, rest = u ++ v -> u <> [] -> matchb r (w ++ u) = false.

(* THE LONGEST-MATCH LEMMA: a word of r that no non-empty piece of the continuation extends to a word of r
   is exactly what the tokeniser cuts *)
Theorem longest_ok r w rest : matchb r w = true -> no_ext r w rest -> longest r (w ++ rest) = Some (w, rest).
Proof. intros M H. unfold longest. rewrite (lgo_app w r [] None rest M H). reflexivity. Qed.

Theorem longest_none r l : (forall u v, l = u ++ v -> matchb r u = false) -> longest r l = None.
Proof.
  intros H. unfold longest. rewrite lgo_none.
  - specialize (H [] l eq_refl). change (matchb r []) with (nullable r) in H. rewrite H. reflexivity.
  - intros u v E _. exact (H u v E).
Qed.

(* ===================================================================================== *)
(* Part B: characters, classes, continuations                                            *)
(* ===================================================================================== *)
(* two classes that pass the alignment check are compared through their atoms *)
Lemma cls_sub c1 c2 : aligned c1 = true -> aligned c2 = true ->
  forallb (fun a => memN a (atoms_in c2)) (atoms_in c1) = true ->
  forall x, inr x c1 = true -> inr x c2 = true.
Proof.
  intros A1 A2 H x. rewrite (aligned_spec c1 A1), (aligned_spec c2 A2). intro M.
  apply memN_In in M. rewrite forallb_forall in H. exact (H _ M).
Qed.
Lemma cls_disj c1 c2 : aligned c1 = true -> aligned c2 = true ->
  forallb (fun a => negb (memN a (atoms_in c2))) (atoms_in c1) = true ->
  forall x, inr x c1 = true -> inr x c2 = false.
Proof.
  intros A1 A2 H x. rewrite (aligned_spec c1 A1), (aligned_spec c2 A2). intro M.
  apply memN_In in M. rewrite forallb_forall in H. apply negb_true_iff. exact (H _ M).
Qed.

Lemma all_in_app c a b : all_in c (a ++ b) <-> all_in c a /\ all_in c b.
Proof. apply Forall_app. Qed.
Lemma all_in_cons c x a : all_in c (x :: a) <-> inr x c = true /\ all_in c a.
Proof. split; [intro H; inversion H; auto | intros [H1 H2]; constructor; assumption]. Qed.
Lemma all_in_mid c a x b : all_in c (a ++ x :: b) -> inr x c = true.
Proof. intro H. apply all_in_app in H. destruct H as [_ H]. apply all_in_cons in H. tauto. Qed.

(* the first character outside a class is where it is *)
Lemma first_out c : forall x1 x2 a1 a2 y1 y2,
  x1 ++ a1 :: y1 = x2 ++ a2 :: y2 -> all_in c x1 -> all_in c x2 -> inr a1 c = false -> inr a2 c = false ->
  x1 = x2 /\ a1 = a2 /\ y1 = y2.
Proof.
  induction x1 as [|b x1 IH]; intros [|b2 x2] a1 a2 y1 y2 E H1 H2 O1 O2; cbn [app] in E.
  - injection E as -> ->. auto.
  - injection E as -> _. apply all_in_cons in H2. destruct H2 as [H2 _]. congruence.
  - injection E as -> _. apply all_in_cons in H1. destruct H1 as [H1 _]. congruence.
  - injection E as -> E. apply all_in_cons in H1, H2. destruct H1 as [_ H1]. destruct H2 as [_ H2].
    destruct (IH x2 a1 a2 y1 y2 E H1 H2 O1 O2) as (-> & -> & ->). auto.
Qed.

Lemma delim_cases d : delim d = true ->
  d = 32 \/ d = 9 \/ d = 10 \/ d = 13 \/ d = 44 \/ d = 59 \/ d = 93 \/ d = 41.
Proof.
  unfold delim, is_ws. intro H.
  repeat (apply orb_true_iff in H; destruct H as [H|H]); apply N.eqb_eq in H; subst; auto 10.
Qed.
Lemma ws_cases d : is_ws d = true -> d = 32 \/ d = 9 \/ d = 10 \/ d = 13.
Proof.
  unfold is_ws. intro H. repeat (apply orb_true_iff in H; destruct H as [H|H]); apply N.eqb_eq in H; subst; auto.
Qed.
Lemma ws_delim d : is_ws d = true -> delim d = true.
Proof. intro H. unfold delim. rewrite H. reflexivity. Qed.

Lemma stop_cases rest : stop_ok rest = true ->
  rest = [] \/ (exists d r, rest = d :: r /\ delim d = true) \/ rest = [46]
  \/ (exists d r, rest = 46 :: d :: r /\ is_ws d = true).
Proof.
  destruct rest as [|c r]; [auto|]. unfold stop_ok. intro H. apply andb_true_iff in H. destruct H as [H _].
  apply orb_true_iff in H. destruct H as [H|H]; [right; left; eauto|].
  apply andb_true_iff in H. destruct H as [H1 H2]. apply N.eqb_eq in H1. subst c.
  destruct r as [|d r]; [auto|]. right; right; right. eauto.
Qed.

Lemma prefix1 {A} (u v : list A) a r : u ++ v = a :: r -> u <> [] -> exists u', u = a :: u' /\ r = u' ++ v.
Proof. destruct u as [|b u]; [congruence|]. cbn [app]. intros [= -> <-] _. eauto. Qed.
Lemma prefix2 {A} (u v : list A) a b r : u ++ v = a :: b :: r -> u <> [] ->
  u = [a] \/ exists u', u = a :: b :: u'.
Proof.
  intros E Hu. destruct (prefix1 u v a (b :: r) E Hu) as [u' [-> E']].
  destruct u' as [|b' u']; [auto|]. cbn [app] in E'. injection E' as <- _. eauto.
Qed.

Ltac by_delim H := destruct (delim_cases _ H) as [->|[->|[->|[->|[->|[->|[->| ->]]]]]]]; vm_compute; reflexivity.

Lemma delim_not_num d : delim d = true -> inr d cls_num = false.
Proof. intro H. by_delim H. Qed.
Lemma delim_not_pfx d : delim d = true -> inr d cls_pfx = false.
Proof. intro H. by_delim H. Qed.
Lemma delim_not_colon d : delim d = true -> d <> 58.
Proof. intros H ->. discriminate H. Qed.

(* a production whose words are made of the characters of a class without the delimiters, and never end in
   a dot, is cut before any admissible continuation *)
Lemma no_ext_cls R C E :
  (forall x, matchb R x = true -> all_in C x) ->
  (forall x, matchb R x = true -> exists z y, x = z ++ [y] /\ inr y E = true) ->
  inr 46 E = false ->
  (forall d, delim d = true -> inr d C = false) ->
  forall w rest, stop_ok rest = true -> no_ext R w rest.
Proof.
  intros Hall Hend Hdot Hdel w rest Hs u v E' Hu.
  destruct (matchb R (w ++ u)) eqn:M; [exfalso|reflexivity].
  assert (Hlast : u = [46] -> False).
  { intros ->. destruct (Hend _ M) as [z [y [E1 E2]]]. apply app_inj_tail in E1. destruct E1 as [_ <-]. congruence. }
  destruct (stop_cases rest Hs) as [->|[[d [r [-> Hd]]]|[->|[d [r [-> Hd]]]]]].
  - destruct u; [congruence|discriminate].
  - symmetry in E'. destruct (prefix1 u v d r E' Hu) as [u' [-> _]].
    pose proof (all_in_mid _ _ _ _ (Hall _ M)) as X. rewrite (Hdel d Hd) in X. discriminate.
  - symmetry in E'. destruct (prefix1 u v 46 [] E' Hu) as [u' [-> E2]].
    destruct u'; [apply Hlast; reflexivity|discriminate].
  - symmetry in E'. destruct (prefix2 u v 46 d r E' Hu) as [->|[u' ->]]; [apply Hlast; reflexivity|].
    pose proof (Hall _ M) as X. change (w ++ 46 :: d :: u') with (w ++ [46] ++ d :: u') in X. rewrite app_assoc in X.
    apply all_in_mid in X. rewrite (Hdel d (ws_delim d Hd)) in X. discriminate.
Qed.

(* ===================================================================================== *)
(* Part C: tokens                                                                        *)
(* ===================================================================================== *)
(* ---- numbers ---- *)
Theorem numeric_cut w rest : matchb NUMERIC w = true -> stop_ok rest = true ->
  longest NUMERIC (w ++ rest) = Some (w, rest).
Proof.
  intros M Hs. apply longest_ok; [exact M|].
  apply (no_ext_cls NUMERIC cls_num cls_digit TermShapes.numeric_all TermShapes.numeric_end);
    [vm_compute; reflexivity | exact delim_not_num | exact Hs].
Qed.

(* ---- blank node labels ---- *)
Theorem label_cut w rest : matchb BNODE_BODY w = true -> stop_ok rest = true ->
  longest BNODE_BODY (w ++ rest) = Some (w, rest).
Proof.
  intros M Hs. apply longest_ok; [exact M|].
  apply (no_ext_cls BNODE_BODY cls_pfx cls_notdot TermShapes.bnode_all TermShapes.bnode_end);
    [vm_compute; reflexivity | exact delim_not_pfx | exact Hs].
Qed.

(* ---- prefixed names ---- *)
Lemma tok_in_not10 x : inr x cls_tok = true -> inr x cls_not10 = true.
Proof. apply cls_sub; vm_compute; reflexivity. Qed.
Lemma a10_not_not10 x : inr x cls_a10 = true -> inr x cls_not10 = false.
Proof. apply cls_disj; vm_compute; reflexivity. Qed.
Lemma all_tok_not10 w : all_in cls_tok w -> all_in cls_not10 w.
Proof. intro H. eapply Forall_impl; [|exact H]. intros a Ha. apply tok_in_not10. exact Ha. Qed.
Lemma tok_no_bslash w : all_in cls_tok (w ++ [92]) -> False.
Proof. intro H. apply all_in_mid in H. vm_compute in H. discriminate. Qed.

(* a prefixed name without escapes is cut before any admissible continuation: a delimiter of the escpunct
   class (, ; and the closing parenthesis) or a dot could only continue the name after a backslash *)
Lemma pname_no_ext tok rest : matchb PNAME_noesc tok = true -> stop_ok rest = true -> no_ext PNAME tok rest.
Proof.
  intros Mt Hs u v E' Hu.
  destruct (matchb PNAME (tok ++ u)) eqn:M; [exfalso|reflexivity].
  pose proof (TermShapes.pname_noesc_all tok Mt) as T.
  assert (Hlast : u = [46] -> False).
  { intros ->. destruct (TermShapes.pname_enddot _ M) as [[z [y [E1 E2]]]|[z E1]].
    - apply app_inj_tail in E1. destruct E1 as [_ <-]. vm_compute in E2. discriminate.
    - change (z ++ [92; 46]) with (z ++ [92] ++ [46]) in E1. rewrite app_assoc in E1.
      apply app_inj_tail in E1. destruct E1 as [-> _]. exact (tok_no_bslash z T). }
  assert (Hws : forall d u', u = d :: u' \/ u = 46 :: d :: u' -> delim d = true -> inr d cls_not01 = true).
  { intros d u' [->| ->] _; pose proof (TermShapes.pname_all _ M) as X.
    - exact (all_in_mid _ _ _ _ X).
    - change (tok ++ 46 :: d :: u') with (tok ++ [46] ++ d :: u') in X. rewrite app_assoc in X.
      exact (all_in_mid _ _ _ _ X). }
  destruct (stop_cases rest Hs) as [->|[[d [r [-> Hd]]]|[->|[d [r [-> Hd]]]]]].
  - destruct u; [congruence|discriminate].
  - symmetry in E'. destruct (prefix1 u v d r E' Hu) as [u' [-> _]].
    pose proof (Hws d u' (or_introl eq_refl) Hd) as X01.
    destruct (delim_cases d Hd) as [->|[->|[->|[->|[->|[->|[->| ->]]]]]]];
      try (vm_compute in X01; discriminate X01);
      (destruct (TermShapes.pname_esc10 _ M) as [X|[x [e [y [E1 [X1 X2]]]]]];
       [apply all_in_mid in X; vm_compute in X; discriminate X|]);
      (change (x ++ 92 :: e :: y) with (x ++ [92] ++ e :: y) in E1; rewrite app_assoc in E1;
       apply (first_out cls_not10) in E1;
       [destruct E1 as [-> _]; exact (tok_no_bslash x T)
       | exact (all_tok_not10 _ T)
       | apply all_in_app; split; [exact X1 | constructor; [vm_compute; reflexivity | constructor]]
       | vm_compute; reflexivity
       | exact (a10_not_not10 e X2)]).
  - symmetry in E'. destruct (prefix1 u v 46 [] E' Hu) as [u' [-> E2]].
    destruct u'; [apply Hlast; reflexivity|discriminate].
  - symmetry in E'. destruct (prefix2 u v 46 d r E' Hu) as [->|[u' ->]]; [apply Hlast; reflexivity|].
    pose proof (Hws d u' (or_intror eq_refl) (ws_delim d Hd)) as X01.
    destruct (ws_cases d Hd) as [->|[->|[->| ->]]]; vm_compute in X01; discriminate X01.
Qed.

Theorem pname_cut tok rest : matchb PNAME_noesc tok = true -> stop_ok rest = true ->
  longest PNAME (tok ++ rest) = Some (tok, rest).
Proof.
  intros M Hs. apply longest_ok; [apply TermShapes.pname_noesc_incl; exact M | apply pname_no_ext; assumption].
Qed.

(* ---- a word made of PN_PREFIX characters, followed by an admissible continuation, does not start a
        prefixed name (no colon where one is needed): the keywords are not taken for names ---- *)
Lemma not_a_pname kw rest : all_in cls_pfx kw -> stop_ok rest = true ->
  forall u v, kw ++ rest = u ++ v -> matchb PNAME u = false.
Proof.
  intros K Hs u v E.
  destruct (matchb PNAME u) eqn:M; [exfalso|reflexivity].
  destruct (TermShapes.pname_colon u M) as [x [y [-> X]]].
  rewrite <- app_assoc in E. cbn [app] in E.
  assert (C58 : inr 58 cls_pfx = false) by (vm_compute; reflexivity).
  destruct (stop_cases rest Hs) as [->|[[d [r [-> Hd]]]|[->|[d [r [-> Hd]]]]]].
  - rewrite app_nil_r in E. rewrite E in K. apply all_in_mid in K. congruence.
  - apply (first_out cls_pfx) in E; [|exact K|exact X|exact (delim_not_pfx d Hd)|exact C58].
    destruct E as [_ [-> _]]. discriminate Hd.
  - assert (K' : all_in cls_pfx (kw ++ [46])).
    { apply all_in_app. split; [exact K|]. constructor; [vm_compute; reflexivity|constructor]. }
    rewrite E in K'. apply all_in_mid in K'. congruence.
  - change (kw ++ 46 :: d :: r) with (kw ++ [46] ++ d :: r) in E. rewrite app_assoc in E.
    apply (first_out cls_pfx) in E; [| |exact X|exact (delim_not_pfx d (ws_delim d Hd))|exact C58].
    + destruct E as [_ [-> _]]. discriminate Hd.
    + apply all_in_app. split; [exact K|]. constructor; [vm_compute; reflexivity|constructor].
Qed.

Theorem keyword_not_pname pm kw rest : all_in cls_pfx kw -> stop_ok rest = true ->
  read_pname pm (kw ++ rest) = None.
Proof.
  intros K Hs. unfold read_pname. rewrite longest_none; [reflexivity|].
  intros u v E. exact (not_a_pname kw rest K Hs u v E).
Qed.

(* ---- the parts of a prefixed name ---- *)
Lemma split_colon_ok pre suf : all_in cls_pfx pre -> split_colon (pre ++ 58 :: suf) = (pre, suf).
Proof.
  induction pre as [|c pre IH]; intro H.
  - reflexivity.
  - apply all_in_cons in H. destruct H as [Hc H]. cbn [app split_colon].
    replace (c =? c_colon) with false.
    + rewrite (IH H). reflexivity.
    + symmetry. apply N.eqb_neq. intros ->. vm_compute in Hc. discriminate.
Qed.

Lemma unesc_id suf : all_in cls_tok suf -> unesc_local suf = suf.
Proof.
  induction suf as [|c suf IH]; intro H; [reflexivity|].
  apply all_in_cons in H. destruct H as [Hc H]. cbn [unesc_local].
  replace (c =? c_bslash) with false.
  - rewrite (IH H). reflexivity.
  - symmetry. apply N.eqb_neq. intros ->. vm_compute in Hc. discriminate.
Qed.

Lemma ns_lookup_absent pm p : existsb (str_eqb p) (map fst pm) = false -> ns_lookup pm p = None.
Proof.
  induction pm as [|[p' n'] pm IH]; [reflexivity|]. cbn [map fst existsb ns_lookup]. intro H.
  apply orb_false_iff in H. destruct H as [H1 H2]. rewrite (IH H2).
  destruct (str_eqb_spec p' p) as [->|Hn]; [|reflexivity]. rewrite str_eqb_refl in H1. discriminate.
Qed.

Lemma ns_lookup_ok pm p n : distinct (map fst pm) = true -> In (p, n) pm -> ns_lookup pm p = Some n.
Proof.
  induction pm as [|[p' n'] pm IH]; [intros _ []|]. cbn [map fst distinct ns_lookup]. intros D I.
  apply andb_true_iff in D. destruct D as [D1 D2]. apply negb_true_iff in D1.
  destruct I as [[= -> ->]|I].
  - rewrite (ns_lookup_absent pm p D1), str_eqb_refl. reflexivity.
  - rewrite (IH D2 I). reflexivity.
Qed.

Lemma pm_ok_prefix pm p n : pm_ok pm = true -> In (p, n) pm -> p = [] \/ matchb PN_PREFIX p = true.
Proof.
  unfold pm_ok. intros H I. apply andb_true_iff in H. destruct H as [H _]. rewrite forallb_forall in H.
  specialize (H _ I). cbn [fst] in H. unfold prefix_ok in H. apply orb_true_iff in H.
  destruct H as [H|H]; [left; destruct p; [reflexivity|discriminate] | right; exact H].
Qed.

Lemma prefix_chars p : p = [] \/ matchb PN_PREFIX p = true -> all_in cls_pfx p.
Proof. intros [->|H]; [constructor | apply TermShapes.prefix_all; exact H]. Qed.

(* what the writer spells `pre:suf` is read back as namespace(pre) ++ suf *)
Theorem read_pname_ok pm pre n suf rest :
  pm_ok pm = true -> In (pre, n) pm -> matchb PN_LOCAL_noesc suf = true -> stop_ok rest = true ->
  read_pname pm ((pre ++ [58] ++ suf) ++ rest) = Some (n ++ suf, rest).
Proof.
  intros Hpm I Ms Hs. pose proof (pm_ok_prefix pm pre n Hpm I) as Hp.
  pose proof (TermShapes.pname_build pre suf Hp Ms) as Mt.
  unfold read_pname. cbn [app]. rewrite (pname_cut _ rest Mt Hs).
  rewrite (split_colon_ok pre suf (prefix_chars pre Hp)).
  unfold pm_ok in Hpm. apply andb_true_iff in Hpm. destruct Hpm as [_ D].
  rewrite (ns_lookup_ok pm pre n D I).
  pose proof (TermShapes.pname_noesc_all _ Mt) as T. apply all_in_app in T. destruct T as [_ T].
  apply all_in_cons in T. destruct T as [_ T]. rewrite (unesc_id suf T). reflexivity.
Qed.

(* ===================================================================================== *)
(* Part D: IRIs and literals                                                             *)
(* ===================================================================================== *)
(* the first character of a token decides the branch of the reader *)
Definition tstart (c : N) : bool := negb (is_ws c) && negb (c =? 35) && negb (c =? 64) && negb (c =? 94).
(* first character of a prefixed name: a colon or a PN_CHARS_BASE *)
Definition pn_start (c : N) : Prop := c = 58 \/ inr c cls_base = true.

Ltac not_char H := let E := fresh in
  apply N.eqb_neq; intro E; rewrite E in H; vm_compute in H; discriminate H.

Lemma base_not_numstart x : inr x cls_base = true -> inr x cls_numstart = false.
Proof. apply cls_disj; vm_compute; reflexivity. Qed.

Lemma pn_start_facts c : pn_start c ->
  (c =? 60) = false /\ (c =? 95) = false /\ (c =? 34) = false /\ (c =? 40) = false /\ num_start c = false
  /\ tstart c = true.
Proof.
  intros [->|H]; [vm_compute; auto 10|].
  assert (E60 : (c =? 60) = false) by not_char H. assert (E95 : (c =? 95) = false) by not_char H.
  assert (E34 : (c =? 34) = false) by not_char H. assert (E40 : (c =? 40) = false) by not_char H.
  assert (E32 : (c =? 32) = false) by not_char H. assert (E9 : (c =? 9) = false) by not_char H.
  assert (E10 : (c =? 10) = false) by not_char H. assert (E13 : (c =? 13) = false) by not_char H.
  assert (E35 : (c =? 35) = false) by not_char H. assert (E64 : (c =? 64) = false) by not_char H.
  assert (E94 : (c =? 94) = false) by not_char H.
  repeat split; try assumption.
  - exact (base_not_numstart c H).
  - unfold tstart, is_ws. rewrite E32, E9, E10, E13, E35, E64, E94. reflexivity.
Qed.

Lemma numstart_facts c : inr c cls_numstart = true ->
  (c =? 60) = false /\ (c =? 95) = false /\ (c =? 34) = false /\ (c =? 40) = false /\ tstart c = true.
Proof.
  intro H.
  assert (E60 : (c =? 60) = false) by not_char H. assert (E95 : (c =? 95) = false) by not_char H.
  assert (E34 : (c =? 34) = false) by not_char H. assert (E40 : (c =? 40) = false) by not_char H.
  assert (E32 : (c =? 32) = false) by not_char H. assert (E9 : (c =? 9) = false) by not_char H.
  assert (E10 : (c =? 10) = false) by not_char H. assert (E13 : (c =? 13) = false) by not_char H.
  assert (E35 : (c =? 35) = false) by not_char H. assert (E64 : (c =? 64) = false) by not_char H.
  assert (E94 : (c =? 94) = false) by not_char H.
  repeat split; try assumption.
  unfold tstart, is_ws. rewrite E32, E9, E10, E13, E35, E64, E94. reflexivity.
Qed.

Lemma pname_head pre suf : pre = [] \/ matchb PN_PREFIX pre = true ->
  exists c r, pre ++ [58] ++ suf = c :: r /\ pn_start c.
Proof.
  intros [->|H].
  - exists 58, suf. split; [reflexivity | left; reflexivity].
  - destruct (TermShapes.prefix_first pre H) as [x [z [-> Hx]]]. exists x, (z ++ [58] ++ suf).
    split; [reflexivity | right; exact Hx].
Qed.

Lemma tstart_facts c : tstart c = true ->
  is_ws c = false /\ (c =? 35) = false /\ (c =? 64) = false /\ (c =? 94) = false.
Proof.
  unfold tstart. intro H. apply andb_true_iff in H. destruct H as [H H4]. apply andb_true_iff in H. destruct H as [H H3].
  apply andb_true_iff in H. destruct H as [H1 H2]. apply negb_true_iff in H1, H2, H3, H4. auto.
Qed.
Lemma skip_tstart c r : tstart c = true -> skip (c :: r) = c :: r.
Proof.
  intro H. destruct (tstart_facts c H) as (H1 & H2 & _). unfold skip. cbn [skip_gen]. rewrite H1, H2. reflexivity.
Qed.
Lemma follows_tstart c r : tstart c = true -> follows_lit (c :: r) = false.
Proof.
  intro H. destruct (tstart_facts c H) as (_ & _ & H3 & H4).
  unfold follows_lit. cbn [strip]. rewrite (N.eqb_sym 64 c), (N.eqb_sym 94 c), H3, H4. reflexivity.
Qed.
(* a space, then a token: an admissible continuation *)
Lemma stop_sp c r : tstart c = true -> stop_ok (32 :: c :: r) = true.
Proof.
  intro H. unfold stop_ok. change (delim 32) with true. cbn [orb andb].
  change (skip (32 :: c :: r)) with (skip (c :: r)). rewrite (skip_tstart c r H), (follows_tstart c r H). reflexivity.
Qed.

Lemma iri_ok_no_bslash i : iri_ok i = true -> existsb (N.eqb c_bslash) i = false.
Proof.
  unfold iri_ok. induction i as [|c i IH]; [reflexivity|]. cbn [forallb existsb]. intro H.
  apply andb_true_iff in H. destruct H as [Hc H]. rewrite (IH H), orb_false_r.
  destruct (Sophia.C03.Proofs.iri_char_facts c Hc) as (_ & E & _). rewrite N.eqb_sym. exact E.
Qed.

(* the two spellings of write_plain_iri *)
Inductive plain_spelling (pm : list (str * str)) (i : str) : str -> Prop :=
| sp_angle : plain_spelling pm i (wt_angle i)
| sp_pname pre n suf : In (pre, n) pm -> n ++ suf = i -> matchb PN_LOCAL_noesc suf = true ->
    plain_spelling pm i (pre ++ [58] ++ suf).

Lemma wt_plain_iri_spelling absf pm i : iri_ok i = true -> plain_spelling pm i (wt_plain_iri absf pm i).
Proof.
  intro Hi. unfold wt_plain_iri. destruct (absf i); [|constructor].
  destruct (write_iri_pname pm i) as [[pre suf]|] eqn:E; [|constructor].
  destruct (Sophia.C04.Proofs.write_iri_pname_sound pm i pre suf E) as [n [I [E1 [_ M]]]].
  apply (sp_pname pm i pre n suf I E1). apply M. apply iri_ok_no_bslash. exact Hi.
Qed.

Lemma angle_body i rest : iri_ok i = true ->
  exists c r, i ++ 62 :: rest = c :: r /\ (c =? 60) = false /\ rd_iri_body (c :: r) = Some (i, rest).
Proof.
  intro Hi. pose proof (Sophia.C03.Proofs.rd_iri_body_ok i rest Hi) as R.
  destruct i as [|c i].
  - exists 62, rest. split; [reflexivity|]. split; [reflexivity | exact R].
  - exists c, (i ++ 62 :: rest). cbn [app]. split; [reflexivity|]. split; [|exact R].
    unfold iri_ok in Hi. cbn [forallb] in Hi. apply andb_true_iff in Hi. destruct Hi as [Hc _].
    destruct (Sophia.C03.Proofs.iri_char_facts c Hc) as (_ & _ & E & _). exact E.
Qed.

(* iri ::= IRIREF | PrefixedName *)
Theorem read_plain_iri absf pm i rest : pm_ok pm = true -> iri_ok i = true -> stop_ok rest = true ->
  read_iri pm (wt_plain_iri absf pm i ++ rest) = Some (i, rest).
Proof.
  intros Hpm Hi Hs. destruct (wt_plain_iri_spelling absf pm i Hi) as [|pre n suf I E M].
  - unfold wt_angle. rewrite <- !app_assoc. cbn [app read_iri]. rewrite N.eqb_refl.
    destruct (angle_body i rest Hi) as [c [r [-> [E R]]]]. rewrite E. exact R.
  - destruct (pname_head pre suf (pm_ok_prefix pm pre n Hpm I)) as [c [r [Eh Hc]]].
    destruct (pn_start_facts c Hc) as (E60 & _).
    pose proof (read_pname_ok pm pre n suf rest Hpm I M Hs) as R. rewrite E in R.
    rewrite Eh in *. cbn [app read_iri] in *. rewrite E60. exact R.
Qed.

Lemma plain_head absf pm i : pm_ok pm = true -> iri_ok i = true ->
  exists c r, wt_plain_iri absf pm i = c :: r /\ tstart c = true.
Proof.
  intros Hpm Hi. destruct (wt_plain_iri_spelling absf pm i Hi) as [|pre n suf I E M].
  - exists 60, (i ++ [62]). split; reflexivity.
  - destruct (pname_head pre suf (pm_ok_prefix pm pre n Hpm I)) as [c [r [Eh Hc]]].
    exists c, r. split; [exact Eh|]. apply pn_start_facts. exact Hc.
Qed.

(* the same through the dispatch of read_at *)
Lemma read_at_plain_iri absf pm i p f rest : pm_ok pm = true -> iri_ok i = true -> stop_ok rest = true ->
  read_at (S f) p pm (wt_plain_iri absf pm i ++ rest) = Some (Iri i, rest).
Proof.
  intros Hpm Hi Hs. destruct (wt_plain_iri_spelling absf pm i Hi) as [|pre n suf I E M].
  - unfold wt_angle. rewrite <- !app_assoc. cbn [app read_at]. rewrite N.eqb_refl.
    destruct (angle_body i rest Hi) as [c [r [-> [E R]]]]. rewrite E, R. reflexivity.
  - destruct (pname_head pre suf (pm_ok_prefix pm pre n Hpm I)) as [c [r [Eh Hc]]].
    destruct (pn_start_facts c Hc) as (E60 & E95 & E34 & E40 & En & _).
    pose proof (read_pname_ok pm pre n suf rest Hpm I M Hs) as R. rewrite E in R.
    rewrite Eh in *. cbn [app read_at] in *. rewrite E60, E95, E34, E40, En, R. reflexivity.
Qed.

(* ---- literals ---- *)
Lemma stop_head_facts rest : stop_ok rest = true ->
  strip [34] rest = None /\ Sophia.C03.Proofs.tag_stop rest.
Proof.
  intro Hs. destruct (stop_cases rest Hs) as [->|[[d [r [-> Hd]]]|[->|[d [r [-> Hd]]]]]]; try (split; [reflexivity|cbn; auto]).
  destruct (delim_cases d Hd) as [->|[->|[->|[->|[->|[->|[->| ->]]]]]]]; split; try reflexivity; cbn; auto.
Qed.

Lemma stop_not_follows rest : stop_ok rest = true ->
  strip [64] (skip rest) = None /\ strip [94; 94] (skip rest) = None.
Proof.
  destruct rest as [|c r]; [split; reflexivity|]. unfold stop_ok. intro H.
  apply andb_true_iff in H. destruct H as [_ H]. apply negb_true_iff in H. unfold follows_lit in H.
  destruct (strip [64] (skip (c :: r))); [discriminate|].
  destruct (strip [94; 94] (skip (c :: r))); [discriminate|]. split; reflexivity.
Qed.

Lemma rd_langtag_stop tag rest : langtag_ok tag = true -> stop_ok rest = true ->
  rd_langtag (tag ++ rest) = Some (tag, rest).
Proof.
  destruct tag as [|c t]; [discriminate|]. unfold Sophia.C03.Model.langtag_ok. intros H Hr.
  apply andb_true_iff in H. destruct H as [Hc Ht]. unfold Sophia.C03.Model.rd_langtag. cbn [app]. rewrite Hc.
  change (c :: t ++ rest) with ((c :: t) ++ rest). apply Sophia.C03.Proofs.rd_first_ok.
  - cbn [Sophia.C03.Model.first_ok]. rewrite Hc. exact Ht.
  - apply stop_head_facts. exact Hr.
Qed.

(* RDFLiteral: STRING_LITERAL_QUOTE with the escapes of quoted_string, then nothing, `^^` iri, or LANGTAG *)
Theorem read_literal_dt absf pm lex dt rest : pm_ok pm = true -> iri_ok dt = true -> stop_ok rest = true ->
  read_rdf_literal pm ((qs_cp lex ++ [34] ++
     (if negb (str_eqb xsd_string dt) then [94; 94] ++ wt_plain_iri absf pm dt else [])) ++ rest)
  = Some (LitDt lex dt, rest).
Proof.
  intros Hpm Hdt Hs. unfold read_rdf_literal. rewrite <- !app_assoc. cbn [app].
  rewrite Sophia.C03.Proofs.rd_str_body_qs.
  destruct (str_eqb_spec xsd_string dt) as [<-|Hne]; cbn [negb app].
  - destruct (stop_head_facts rest Hs) as [E34 _]. destruct (stop_not_follows rest Hs) as [E64 E94].
    rewrite E34, E64, E94. destruct lex; reflexivity.
  - destruct (plain_head absf pm dt Hpm Hdt) as [c [r [Eh Hc]]].
    change (strip [34] (94 :: 94 :: wt_plain_iri absf pm dt ++ rest)) with (@None str).
    change (skip (94 :: 94 :: wt_plain_iri absf pm dt ++ rest)) with (94 :: 94 :: wt_plain_iri absf pm dt ++ rest).
    cbn [strip]. change (64 =? 94) with false. change (94 =? 94) with true. cbn match.
    assert (Esk : skip (wt_plain_iri absf pm dt ++ rest) = wt_plain_iri absf pm dt ++ rest).
    { rewrite Eh. cbn [app]. apply skip_tstart. exact Hc. }
    rewrite Esk, (read_plain_iri absf pm dt rest Hpm Hdt Hs). destruct lex; reflexivity.
Qed.

Theorem read_literal_lang pm lex tag rest : langtag_ok tag = true -> stop_ok rest = true ->
  read_rdf_literal pm ((qs_cp lex ++ [34] ++ [64] ++ tag) ++ rest) = Some (LitLang lex tag, rest).
Proof.
  intros Ht Hs. unfold read_rdf_literal. rewrite <- !app_assoc. cbn [app].
  rewrite Sophia.C03.Proofs.rd_str_body_qs.
  change (strip [34] (64 :: tag ++ rest)) with (@None str).
  change (skip (64 :: tag ++ rest)) with (64 :: tag ++ rest).
  cbn [strip]. change (64 =? 64) with true. cbn match.
  rewrite (rd_langtag_stop tag rest Ht Hs). destruct lex; reflexivity.
Qed.

(* ===================================================================================== *)
(* Part E: terms                                                                         *)
(* ===================================================================================== *)
Lemma strip_app a r : strip a (a ++ r) = Some r.
Proof. induction a as [|x a IH]; [reflexivity|]. cbn [app strip]. rewrite N.eqb_refl. exact IH. Qed.

(* ---- numeric and boolean shorthands ---- *)
Lemma read_numeric_tok pm lex p f rest : matchb NUMERIC lex = true -> allows_lit p = true -> stop_ok rest = true ->
  read_at (S f) p pm (lex ++ rest) = Some (LitDt lex (numeric_datatype lex), rest).
Proof.
  intros M Hp Hs. destruct (TermShapes.numeric_first lex M) as [x [z [E Hx]]].
  destruct (numstart_facts x Hx) as (E60 & E95 & E34 & E40 & _).
  pose proof (numeric_cut lex rest M Hs) as C. rewrite E in C |- *. cbn [app read_at] in *.
  rewrite E60, E95, E34, E40. unfold num_start. rewrite Hx, Hp. unfold read_numeric. rewrite C. reflexivity.
Qed.

Lemma kw_chars_true : all_in cls_pfx kw_true.
Proof. repeat (constructor; [vm_compute; reflexivity|]). constructor. Qed.
Lemma kw_chars_false : all_in cls_pfx kw_false.
Proof. repeat (constructor; [vm_compute; reflexivity|]). constructor. Qed.

Lemma read_boolean_tok pm lex p f rest : lex = kw_true \/ lex = kw_false -> allows_lit p = true -> stop_ok rest = true ->
  read_at (S f) p pm (lex ++ rest) = Some (LitDt lex rd_xsd_boolean, rest).
Proof.
  intros [-> | ->] Hp Hs.
  - pose proof (keyword_not_pname pm kw_true rest kw_chars_true Hs) as K.
    pose proof (strip_app kw_true rest) as S1.
    unfold kw_true in *. cbn [app] in *. cbn [read_at].
    change (116 =? 60) with false. change (116 =? 95) with false. change (116 =? 34) with false.
    change (116 =? 40) with false. change (num_start 116) with false. cbn match.
    rewrite K. unfold read_keyword. unfold kw_true. rewrite S1, Hp. reflexivity.
  - pose proof (keyword_not_pname pm kw_false rest kw_chars_false Hs) as K.
    pose proof (strip_app kw_false rest) as S1.
    unfold kw_false in *. cbn [app] in *. cbn [read_at].
    change (102 =? 60) with false. change (102 =? 95) with false. change (102 =? 34) with false.
    change (102 =? 40) with false. change (num_start 102) with false. cbn match.
    rewrite K. unfold read_keyword. unfold kw_true, kw_false.
    change (strip [116; 114; 117; 101] (102 :: 97 :: 108 :: 115 :: 101 :: rest)) with (@None str).
    cbn match. rewrite S1, Hp. reflexivity.
Qed.

(* a literal that write_literal copies without quotes is read back with the same lexical form and datatype *)
Theorem read_bare pm lex dt p f rest : bare_literal dt lex = true -> allows_lit p = true -> stop_ok rest = true ->
  read_at (S f) p pm (lex ++ rest) = Some (LitDt lex dt, rest).
Proof.
  intros B Hp Hs.
  destruct (Sophia.C04.Proofs.bare_literal_sound dt lex B) as [(-> & Mi & Md & Me)|[(-> & Md & Mi & Me)|[(-> & Me & Mi & Md)|(-> & Mb)]]].
  - rewrite (read_numeric_tok pm lex p f rest); [|rewrite TermShapes.numeric_cases, Mi; reflexivity|exact Hp|exact Hs].
    unfold numeric_datatype. rewrite Me, Md. reflexivity.
  - rewrite (read_numeric_tok pm lex p f rest); [|rewrite TermShapes.numeric_cases, Md, orb_true_r; reflexivity|exact Hp|exact Hs].
    unfold numeric_datatype. rewrite Me, Md. reflexivity.
  - rewrite (read_numeric_tok pm lex p f rest); [|rewrite TermShapes.numeric_cases, Me, !orb_true_r; reflexivity|exact Hp|exact Hs].
    unfold numeric_datatype. rewrite Me. reflexivity.
  - apply read_boolean_tok; [|exact Hp|exact Hs]. apply TermShapes.boolean_words. exact Mb.
Qed.

Lemma bare_head dt lex : bare_literal dt lex = true -> exists c r, lex = c :: r /\ tstart c = true.
Proof.
  intro B.
  assert (Hn : matchb NUMERIC lex = true -> exists c r, lex = c :: r /\ tstart c = true).
  { intro M. destruct (TermShapes.numeric_first lex M) as [x [z [E Hx]]]. exists x, z. split; [exact E|].
    apply numstart_facts. exact Hx. }
  destruct (Sophia.C04.Proofs.bare_literal_sound dt lex B) as [(_ & Mi & _)|[(_ & Md & _)|[(_ & Me & _)|(_ & Mb)]]].
  - apply Hn. rewrite TermShapes.numeric_cases, Mi. reflexivity.
  - apply Hn. rewrite TermShapes.numeric_cases, Md, orb_true_r. reflexivity.
  - apply Hn. rewrite TermShapes.numeric_cases, Me, !orb_true_r. reflexivity.
  - destruct (TermShapes.boolean_words lex Mb) as [-> | ->]; eexists; eexists; split; reflexivity.
Qed.

(* ---- the text at a position ---- *)
Lemma wt_at_not_iri absf pm p t : (forall i, t <> Iri i) -> wt_at absf pm p t = wt_term absf pm t.
Proof. intro H. unfold wt_at, wt_non_list_term. destruct (allows_coll p); [reflexivity|]. destruct t; try reflexivity. destruct (H s eq_refl). Qed.

Lemma wt_triple absf pm s pr o :
  wt_term absf pm (Triple s pr o) =
  [60; 60; 32] ++ wt_at absf pm TQs s ++ [32] ++ wt_at absf pm TPred pr ++ [32] ++ wt_at absf pm TQo o ++ [32] ++ [62; 62].
Proof. reflexivity. Qed.

(* every written term starts with a character that is not white space, '#', '@' or '^' *)
Lemma wt_head absf pm p t : pm_ok pm = true -> wf_at p t = true ->
  exists c r, wt_at absf pm p t = c :: r /\ tstart c = true.
Proof.
  intros Hpm Hwf. destruct t as [i|l|lex dt|lex tag|s pr o|v]; cbn [wf_at] in Hwf.
  - unfold wt_at. destruct (allows_coll p).
    + cbn [wt_term]. unfold wt_iri. destruct (str_eqb w_rdf_nil i); [exists 40, [41]; split; reflexivity|].
      apply plain_head; assumption.
    + apply plain_head; assumption.
  - rewrite wt_at_not_iri by discriminate. exists 95, (58 :: l). split; reflexivity.
  - rewrite wt_at_not_iri by discriminate. cbn [wt_term]. unfold wt_literal_dt.
    destruct (bare_literal dt lex) eqn:B; [exact (bare_head dt lex B)|]. eexists; eexists; split; reflexivity.
  - rewrite wt_at_not_iri by discriminate. eexists; eexists; split; reflexivity.
  - rewrite wt_at_not_iri by discriminate. eexists; eexists; split; reflexivity.
  - discriminate.
Qed.

Lemma stop_sp_term absf pm p t tail : pm_ok pm = true -> wf_at p t = true ->
  stop_ok (32 :: wt_at absf pm p t ++ tail) = true /\
  skip (32 :: wt_at absf pm p t ++ tail) = wt_at absf pm p t ++ tail.
Proof.
  intros Hpm Hwf. destruct (wt_head absf pm p t Hpm Hwf) as [c [r [-> Hc]]]. cbn [app]. split.
  - apply stop_sp. exact Hc.
  - change (skip (32 :: c :: r ++ tail)) with (skip (c :: r ++ tail)). apply skip_tstart. exact Hc.
Qed.

Lemma rdf_nil_same : rdf_nil = w_rdf_nil.
Proof. reflexivity. Qed.

(* THE TERM THEOREM: what the writer spells at a position is read back, by the reader of the grammar, as the
   same term, and the reader stops exactly where the writer stopped *)
Theorem read_wt absf pm : pm_ok pm = true -> forall t p fuel rest,
  wf_at p t = true -> stop_ok rest = true -> (depth t < fuel)%nat ->
  read_at fuel p pm (wt_at absf pm p t ++ rest) = Some (t, rest).
Proof.
  intro Hpm. induction t as [i|l|lex dt|lex tag|s IHs pr IHp o IHo|v]; intros p fuel rest Hwf Hs Hf;
    (destruct fuel as [|f]; [lia|]); cbn [wf_at] in Hwf.
  - (* Iri *)
    unfold wt_at. destruct (allows_coll p) eqn:Ec.
    + cbn [wt_term]. unfold wt_iri. destruct (str_eqb_spec w_rdf_nil i) as [<-|Hn].
      * cbn [app read_at]. change (40 =? 60) with false. change (40 =? 95) with false. change (40 =? 34) with false.
        change (40 =? 40) with true. cbn match. rewrite Ec.
        change (skip (41 :: rest)) with (41 :: rest). cbn [strip]. change (41 =? 41) with true. cbn match.
        rewrite rdf_nil_same. reflexivity.
      * apply read_at_plain_iri; assumption.
    + apply read_at_plain_iri; assumption.
  - (* Bnode *)
    apply andb_true_iff in Hwf. destruct Hwf as [Hp Hl].
    rewrite wt_at_not_iri by discriminate. cbn [wt_term app read_at].
    change (95 =? 60) with false. change (95 =? 95) with true. cbn match.
    change (58 =? 58) with true. rewrite Hp. cbn [andb]. rewrite (label_cut l rest Hl Hs). reflexivity.
  - (* LitDt *)
    apply andb_true_iff in Hwf. destruct Hwf as [Hp Hdt].
    rewrite wt_at_not_iri by discriminate. cbn [wt_term]. unfold wt_literal_dt.
    destruct (bare_literal dt lex) eqn:B; [apply read_bare; assumption|].
    cbn [app read_at]. change (34 =? 60) with false. change (34 =? 95) with false. change (34 =? 34) with true.
    cbn match. rewrite Hp. apply (read_literal_dt absf pm lex dt rest Hpm Hdt Hs).
  - (* LitLang *)
    apply andb_true_iff in Hwf. destruct Hwf as [Hp Htag].
    rewrite wt_at_not_iri by discriminate. cbn [wt_term]. unfold wt_literal_lang.
    cbn [app read_at]. change (34 =? 60) with false. change (34 =? 95) with false. change (34 =? 34) with true.
    cbn match. rewrite Hp. apply (read_literal_lang pm lex tag rest Htag Hs).
  - (* Triple *)
    apply andb_true_iff in Hwf. destruct Hwf as [Hwf Ho]. apply andb_true_iff in Hwf. destruct Hwf as [Hwf Hpr].
    apply andb_true_iff in Hwf. destruct Hwf as [Hq Hsu].
    cbn [depth] in Hf.
    rewrite wt_at_not_iri by discriminate. rewrite wt_triple.
    repeat (rewrite <- ?app_assoc; cbn [app]). cbn [read_at]. rewrite !N.eqb_refl. rewrite Hq.
    destruct (stop_sp_term absf pm TQs s (32 :: wt_at absf pm TPred pr ++ 32 :: wt_at absf pm TQo o ++ 32 :: 62 :: 62 :: rest) Hpm Hsu) as [_ K1].
    destruct (stop_sp_term absf pm TPred pr (32 :: wt_at absf pm TQo o ++ 32 :: 62 :: 62 :: rest) Hpm Hpr) as [S2 K2].
    destruct (stop_sp_term absf pm TQo o (32 :: 62 :: 62 :: rest) Hpm Ho) as [S3 K3].
    rewrite K1. rewrite (IHs TQs f _ Hsu S2) by lia.
    rewrite K2. rewrite (IHp TPred f _ Hpr S3) by lia.
    rewrite K3. rewrite (IHo TQo f (32 :: 62 :: 62 :: rest) Ho) by (reflexivity || lia).
    reflexivity.
  - discriminate.
Qed.

(* the reader called on the whole remaining input (object position) *)
Lemma depth_le_len absf pm t : (depth t <= length (wt_term absf pm t))%nat.
Proof.
  induction t as [i|l|lex dt|lex tag|s IHs pr IHp o IHo|v]; cbn [depth]; try lia.
  assert (Hc : forall x, (depth x <= length (wt_term absf pm x))%nat ->
               (depth x <= length (match x with Iri i => wt_plain_iri absf pm i | _ => wt_term absf pm x end))%nat).
  { intros x Hx. destruct x; try exact Hx. cbn [depth]. lia. }
  specialize (Hc s IHs) as H1. specialize (Hc pr IHp) as H2. specialize (Hc o IHo) as H3.
  cbn [wt_term]. rewrite !app_length. cbn [length]. lia.
Qed.

Theorem read_term_write_term absf pm t rest :
  pm_ok pm = true -> wf_at TObj t = true -> stop_ok rest = true ->
  read_term pm (wt_term absf pm t ++ rest) = Some (t, rest).
Proof.
  intros Hpm Hwf Hs. unfold read_term.
  change (wt_term absf pm t) with (wt_at absf pm TObj t).
  apply read_wt; try assumption.
  change (wt_at absf pm TObj t) with (wt_term absf pm t).
  pose proof (depth_le_len absf pm t). rewrite app_length. lia.
Qed.

Lemma str_eqb_ci_refl a : str_eqb_ci a a = true.
Proof. unfold str_eqb_ci. apply str_eqb_refl. Qed.
Lemma term_eqb_refl t : term_eqb t t = true.
Proof.
  induction t as [i|l|lex dt|lex tag|s IHs pr IHp o IHo|v]; cbn [term_eqb];
    rewrite ?str_eqb_refl, ?str_eqb_ci_refl, ?IHs, ?IHp, ?IHo; reflexivity.
Qed.

(* the statement in the form of the property: the term read back is equal to the term written in the sense of
   Term::eq (it is even the same term: the reader keeps the spelling of language tags) *)
Theorem term_roundtrip absf pm t rest :
  pm_ok pm = true -> wf_at TObj t = true -> stop_ok rest = true ->
  exists t', read_term pm (wt_term absf pm t ++ rest) = Some (t', rest) /\ term_eqb t' t = true.
Proof.
  intros Hpm Hwf Hs. exists t. split; [apply read_term_write_term; assumption | apply term_eqb_refl].
Qed.

(* ===================================================================================== *)
(* Part F: bytes                                                                         *)
(* ===================================================================================== *)
Notation utf8_app := Sophia.C03.Proofs.utf8_app.

Lemma wr_plain_iri_utf8 absf pm i : wr_plain_iri absf pm i = utf8 (wt_plain_iri absf pm i).
Proof.
  unfold wr_plain_iri, wt_plain_iri, wr_angle, wt_angle.
  destruct (absf i); [destruct (write_iri_pname pm i) as [[pre suf]|]|]; rewrite !utf8_app; reflexivity.
Qed.

Lemma quoted_utf8 lex : quoted_string (utf8 lex) = utf8 (qs_cp lex).
Proof. rewrite Sophia.C03.Proofs.quoted_string_spec. apply Sophia.C03.Proofs.qs_cp_utf8. Qed.

(* the byte-level writer is the UTF-8 encoding of the code-point-level one *)
Theorem wr_term_utf8 absf pm t : wr_term absf pm t = utf8 (wt_term absf pm t).
Proof.
  induction t as [i|l|lex dt|lex tag|s IHs pr IHp o IHo|v]; cbn [wr_term wt_term].
  - unfold wr_iri, wt_iri. destruct (str_eqb w_rdf_nil i); [reflexivity | apply wr_plain_iri_utf8].
  - rewrite utf8_app. reflexivity.
  - unfold wr_literal_dt, wt_literal_dt. destruct (bare_literal dt lex); [reflexivity|].
    rewrite quoted_utf8. destruct (negb (str_eqb xsd_string dt)); rewrite ?wr_plain_iri_utf8, !utf8_app; reflexivity.
  - unfold wr_literal_lang, wt_literal_lang. rewrite quoted_utf8, !utf8_app. reflexivity.
  - assert (Hc : forall x, wr_term absf pm x = utf8 (wt_term absf pm x) ->
                 match x with Iri i => wr_plain_iri absf pm i | _ => wr_term absf pm x end =
                 utf8 (match x with Iri i => wt_plain_iri absf pm i | _ => wt_term absf pm x end)).
    { intros x Hx. destruct x; try exact Hx. apply wr_plain_iri_utf8. }
    rewrite (Hc s IHs), (Hc pr IHp), (Hc o IHo), !utf8_app. reflexivity.
  - rewrite utf8_app. reflexivity.
Qed.

Lemma scalar_app a b : scalar_str (a ++ b) = scalar_str a && scalar_str b.
Proof. unfold Sophia.C03.Model.scalar_str. apply forallb_app. Qed.

Lemma scalar_plain absf pm i : scalar_pm pm = true -> scalar_str i = true -> scalar_str (wt_plain_iri absf pm i) = true.
Proof.
  intros Hpm Hi. unfold wt_plain_iri, wt_angle.
  assert (A : scalar_str ([60] ++ i ++ [62]) = true) by (rewrite !scalar_app, Hi; reflexivity).
  destruct (absf i); [|exact A]. destruct (write_iri_pname pm i) as [[pre suf]|] eqn:E; [|exact A].
  destruct (Sophia.C04.Proofs.write_iri_pname_sound pm i pre suf E) as [n [I [E1 _]]].
  unfold scalar_pm in Hpm. rewrite forallb_forall in Hpm. specialize (Hpm _ I). cbn [fst snd] in Hpm.
  apply andb_true_iff in Hpm. destruct Hpm as [Hp _].
  rewrite <- E1, scalar_app in Hi. apply andb_true_iff in Hi. destruct Hi as [_ Hsuf].
  rewrite !scalar_app, Hp, Hsuf. reflexivity.
Qed.

Lemma scalar_qs lex : scalar_str lex = true -> scalar_str (qs_cp lex) = true.
Proof. intro H. apply Sophia.C03.Proofs.good_scalar, Sophia.C03.Proofs.good_qs_cp. exact H. Qed.

Lemma scalar_wt absf pm t : scalar_pm pm = true -> scalar_term t = true -> scalar_str (wt_term absf pm t) = true.
Proof.
  intro Hpm. induction t as [i|l|lex dt|lex tag|s IHs pr IHp o IHo|v]; cbn [scalar_term wt_term]; intro H.
  - unfold wt_iri. destruct (str_eqb w_rdf_nil i); [reflexivity | apply scalar_plain; assumption].
  - rewrite scalar_app, H. reflexivity.
  - apply andb_true_iff in H. destruct H as [Hl Hd]. unfold wt_literal_dt. destruct (bare_literal dt lex); [exact Hl|].
    rewrite !scalar_app, (scalar_qs lex Hl). destruct (negb (str_eqb xsd_string dt)); [|reflexivity].
    rewrite scalar_app, (scalar_plain absf pm dt Hpm Hd). reflexivity.
  - apply andb_true_iff in H. destruct H as [Hl Ht]. unfold wt_literal_lang.
    rewrite !scalar_app, (scalar_qs lex Hl), Ht. reflexivity.
  - apply andb_true_iff in H. destruct H as [H Ho]. apply andb_true_iff in H. destruct H as [Hs Hp].
    assert (Hc : forall x, scalar_term x = true -> (scalar_term x = true -> scalar_str (wt_term absf pm x) = true) ->
                 scalar_str (match x with Iri i => wt_plain_iri absf pm i | _ => wt_term absf pm x end) = true).
    { intros x Hx IH. destruct x; try (apply IH; exact Hx). apply scalar_plain; assumption. }
    rewrite !scalar_app, !andb_true_iff.
    repeat split; try reflexivity; [exact (Hc s Hs IHs) | exact (Hc pr Hp IHp) | exact (Hc o Ho IHo)].
  - rewrite scalar_app, H. reflexivity.
Qed.

(* THE TERM THEOREM ON BYTES: decode the bytes of the writer followed by the bytes of the continuation, read *)
Theorem read_bytes_write_term absf pm t rest :
  pm_ok pm = true -> scalar_pm pm = true -> wf_at TObj t = true -> scalar_term t = true ->
  stop_ok rest = true -> scalar_str rest = true ->
  read_term_bytes pm (wr_term absf pm t ++ utf8 rest) = Some (t, rest).
Proof.
  intros Hpm Spm Hwf St Hs Sr. unfold read_term_bytes.
  rewrite wr_term_utf8, <- utf8_app, Sophia.C03.Proofs.utf8_dec_utf8.
  - apply read_term_write_term; assumption.
  - rewrite scalar_app, (scalar_wt absf pm t Spm St), Sr. reflexivity.
Qed.

(* ===================================================================================== *)
(* Part G: outside the hypotheses                                                        *)
(* ===================================================================================== *)
(* write_term spells a variable `?name`: no production of the Turtle grammar starts with '?', the reader of the
   grammar rejects it at every position (generalised output needs the generalised parsers) *)
Theorem variable_rejected absf pm v fuel p rest : read_at fuel p pm (wt_term absf pm (Var v) ++ rest) = None.
Proof.
  destruct fuel as [|f]; [reflexivity|]. cbn [wt_term app read_at].
  change (63 =? 60) with false. change (63 =? 95) with false. change (63 =? 34) with false.
  change (63 =? 40) with false. change (num_start 63) with false. cbn match.
  assert (E : read_pname pm (63 :: v ++ rest) = None).
  { unfold read_pname, longest. cbn [lgo].
    change (nullable PNAME) with false. change (is_emp (deriv (inr 63) PNAME)) with true. reflexivity. }
  rewrite E. reflexivity.
Qed.

Definition always (_ : str) : bool := true.
(* two declarations of the same prefix: the writer may use the first, the reader resolves with the last.
   pm = [(a, urn:x:); (a, urn:y:)], term <urn:x:b>, written a:b, read back as <urn:y:b> *)
Example duplicate_prefix_refuted :
  exists pm t rest, forallb (fun e => prefix_ok (fst e)) pm = true /\ wf_at TObj t = true /\ stop_ok rest = true /\
    read_term pm (wt_term always pm t ++ rest) <> Some (t, rest).
Proof.
  exists [([97], [117; 114; 110; 58; 120; 58]); ([97], [117; 114; 110; 58; 121; 58])],
         (Iri [117; 114; 110; 58; 120; 58; 98]), [32].
  repeat split; try (vm_compute; reflexivity). vm_compute. discriminate.
Qed.
(* an "IRI" with a character that IRIREF excludes (Iri::new_unchecked("a>b")): written <a>b>, read back as <a> *)
Example unchecked_iri_refuted :
  exists t rest, stop_ok rest = true /\ read_term [] (wt_term always [] t ++ rest) <> Some (t, rest).
Proof.
  exists (Iri [97; 62; 98]), [32]. split; [reflexivity|]. vm_compute. discriminate.
Qed.
(* a continuation that is not admissible: a bare integer followed by a digit *)
Example bad_continuation_refuted :
  exists t rest, wf_at TObj t = true /\ read_term [] (wt_term always [] t ++ rest) <> Some (t, rest).
Proof.
  exists (LitDt [49] xsd_integer), [50]. split; [reflexivity|]. vm_compute. discriminate.
Qed.
(* a language tag that sophia's CHECKED constructor accepts and the Turtle grammar does not (a digit in the first
   subtag): "x"@a1 is written as it is and is not a literal of the grammar.  Every LANGTAG is accepted by sophia. *)
Example checked_langtag_refuted :
  exists t rest, t = LitLang [120] [97; 49] /\ sophia_langtag_ok [97; 49] = true /\ stop_ok rest = true /\
    read_term [] (wt_term always [] t ++ rest) <> Some (t, rest).
Proof.
  exists (LitLang [120] [97; 49]), [46; 10]. repeat split; try reflexivity. vm_compute. discriminate.
Qed.
Lemma langtag_sophia tag : langtag_ok tag = true -> sophia_langtag_ok tag = true.
Proof.
  destruct tag as [|c r]; [discriminate|]. unfold Sophia.C03.Model.langtag_ok, sophia_langtag_ok.
  intro H. apply andb_true_iff in H. destruct H as [Hc H]. rewrite Hc. cbn [andb].
  assert (G : forall l, Sophia.C03.Model.first_ok l = true -> Sophia.C03.Model.subtags_ok false l = true).
  { induction l as [|x l IH]; [reflexivity|]. cbn [Sophia.C03.Model.first_ok Sophia.C03.Model.subtags_ok].
    unfold Sophia.C03.Model.alnum. destruct (Sophia.C03.Model.alpha x); cbn [orb]; [exact IH|].
    intro H1. apply andb_true_iff in H1. destruct H1 as [E H1]. apply N.eqb_eq in E. subst x.
    change (Sophia.C03.Model.digit 45) with false. cbn. exact H1. }
  apply G. exact H.
Qed.
