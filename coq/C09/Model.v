(* C09/Model.v -- executable model of sophia_iri:
   * the validators of iri/src/_regex.rs and the constructors of iri/src/_wrapper.rs: the two regular
     expressions are RE-GENERATED from the source on every run (gen/RegexSrc.v) and run by the
     derivative matcher of Regex.v (Regex::is_match on an anchored pattern = whole-string match);
   * the resolver behind Iri::resolve / BaseIri::resolve (iri/src/resolve.rs), i.e. the parser of the
     third-party crate oxiri 0.2.11 run with a base (IriParser::parse_relative, parse_relative_slash,
     parse_path::<true>, remove_last_segment), for references and bases that pass validation;
   * the harness-facing checkers.
   Definitions only. *)
From Sophia.Common Require Import Prelude.
From Sophia.gen Require Export RegexSrc IriWiring.
From Sophia.C09 Require Import Regex Rfc3987 Resolve.

(* ---------- the validators of iri/src/_regex.rs ---------- *)
Definition is_absolute_iri_ref (s : str) : bool := matchb iri_regex s.
Definition is_relative_iri_ref (s : str) : bool := matchb irelative_ref_regex s.
(* RegexSet::is_match: some member matches *)
Definition is_valid_iri_ref (s : str) : bool := matchb iri_regex s || matchb irelative_ref_regex s.
Definition is_valid_suffixed_iri_ref (ns : str) (suffix : option str) : bool :=
  match suffix with None => is_valid_iri_ref ns | Some x => is_valid_iri_ref (ns ++ x) end.
(* Iri::new / IriRef::new (iri/src/_wrapper.rs) *)
Definition iri_new_ok (s : str) : bool := is_absolute_iri_ref s.
Definition iriref_new_ok (s : str) : bool := is_valid_iri_ref s.

(* Namespace::new(ns) then .get(suffix) (api/src/ns/_namespace.rs): IriRef::new on the concatenation *)
Definition namespace_get_ok (ns suffix : str) : bool :=
  is_valid_iri_ref ns && is_valid_suffixed_iri_ref ns (Some suffix).

(* ---------- oxiri's resolution (what BaseIri::resolve runs) ---------- *)
Definition ends_with (suf s : str) : bool :=
  match strip_prefix (rev suf) (rev s) with Some _ => true | None => false end.
Definition starts_with (pre s : str) : bool :=
  match strip_prefix pre s with Some _ => true | None => false end.

(* IriParser::remove_last_segment on the path part of the output *)
Definition ox_remove_last (has_auth : bool) (p : str) : str :=
  if existsb (N.eqb k_slash) p then rev (drop_while not_slash (rev p))   (* keep up to the last "/" *)
  else if has_auth then [k_slash] else [].

(* parse_path::<true>, the branch taken at a "/", "?", "#" or at the end of the input:
   returns the new path and whether control falls through to the "//" check *)
Definition ox_close (has_auth : bool) (p : str) (at_slash : bool) : str * bool :=
  if ends_with [k_slash; k_dot; k_dot] p
  then (ox_remove_last has_auth (firstn (length p - 3) p), true)
  else if ends_with [k_slash; k_dot] p || str_eqb p [k_dot] then (removelast p, true)
  else if str_eqb p [k_dot; k_dot] then ([], true)
  else if at_slash then (p ++ [k_slash], false)
  else (p, true).
(* IriParseErrorKind::PathStartingWithTwoSlashes *)
Definition ox_ambiguous (has_auth : bool) (p : str) : bool :=
  negb has_auth && starts_with [k_slash; k_slash] p.

(* parse_path::<true>: result path and the unread rest of the reference ("?..." / "#..." / "").
   [check] = the parser's UNCHECKED parameter is off: the "//" test is performed and may fail. *)
Fixpoint ox_path (check has_auth : bool) (p : str) (inp : str) : option (str * str) :=
  match inp with
  | [] => let (p', _) := ox_close has_auth p false in
          if check && ox_ambiguous has_auth p' then None else Some (p', [])
  | c :: rest =>
      if N.eqb c k_slash then
        let (p', fall) := ox_close has_auth p true in
        if check && fall && ox_ambiguous has_auth p' then None else ox_path check has_auth p' rest
      else if N.eqb c k_qmark || N.eqb c k_hash then
        let (p', _) := ox_close has_auth p false in
        if check && ox_ambiguous has_auth p' then None else Some (p', inp)
      else ox_path check has_auth (p ++ [c]) rest
  end.

(* oxiri's Iri::resolve (check = true; None = Err(IriParseError)) and Iri::resolve_unchecked (check = false) *)
Definition resolve_gen (check : bool) (base ref : str) : option str :=
  let b := parse5 base in
  let r := parse5 ref in
  let pre := match p_scheme b with Some s => s ++ [k_colon] | None => [] end in          (* base[..scheme_end] *)
  let has_auth := match p_authority b with Some _ => true | None => false end in
  let pre_auth := pre ++ match p_authority b with Some a => k_slash :: k_slash :: a | None => [] end in
  let bq := match p_query b with Some q => k_qmark :: q | None => [] end in
  let finish (x : option (str * str)) := match x with Some (p, tail) => Some (pre_auth ++ p ++ tail) | None => None end in
  match p_scheme r with
  | Some _ => Some ref                                   (* parse_scheme: copied, no dot removal *)
  | None =>
    match ref with
    | [] => Some (pre_auth ++ p_path b ++ bq)
    | c :: rest =>
        if N.eqb c k_slash then
          match rest with
          | d :: _ => if N.eqb d k_slash then Some (pre ++ ref)    (* parse_relative_slash, "//": copied *)
                      else finish (ox_path check has_auth [k_slash] rest)
          | [] => finish (ox_path check has_auth [k_slash] rest)
          end
        else if N.eqb c k_qmark then Some (pre_auth ++ p_path b ++ ref)
        else if N.eqb c k_hash then Some (pre_auth ++ p_path b ++ bq ++ ref)
        else finish (ox_path check has_auth (ox_remove_last has_auth (p_path b)) ref)
    end
  end.

(* BaseIri::resolve / Iri::resolve on a typed (already validated) reference, iri/src/resolve.rs.
   Which of the two oxiri entry points is used is read from the source on every run
   (gen/IriWiring.v): today the checked one, whose Err is unwrapped by Resolvable::output_abs -- None
   is then a panic; with build/proposed/C09-resolve-optional.diff the unchecked one. *)
Definition resolve_impl (base ref : str) : option str := resolve_gen typed_resolve_is_checked base ref.

(* validation: the model (regenerated regexes) against the implementation's four verdicts, the
   hand-written grammar against the Rust oracle's two verdicts, and Namespace::new(ns).get(suffix)
   where ns/suffix are the string cut at [cut] *)
Definition val_ok (s : str) (abs rel iri iref o_iri o_rel : bool) (cut : N) (ns_ok get_ok : bool) : bool :=
  Bool.eqb (is_absolute_iri_ref s) abs && Bool.eqb (is_relative_iri_ref s) rel &&
  Bool.eqb (iri_new_ok s) iri && Bool.eqb (iriref_new_ok s) iref &&
  Bool.eqb (matchb IRI s) o_iri && Bool.eqb (matchb irelative_ref s) o_rel &&
  (let ns := firstn (N.to_nat cut) s in
   let suf := skipn (N.to_nat cut) s in
   Bool.eqb (is_valid_iri_ref ns) ns_ok &&
   Bool.eqb (namespace_get_ok ns suf) get_ok).

(* resolution: for a pair accepted by the implementation, Iri::resolve returned [obs] (None = it
   panicked); the model of the code must agree exactly.  (That the result is the one of RFC 3986 5.2
   and a valid IRI is the PROPERTY: it is checked by the harness oracle, and [spec_res_ok] evaluates
   the same in Coq.) *)
Definition res_ok (base ref : str) (obs : option str) : bool :=
  opt_eqb str_eqb (resolve_impl base ref) obs.
Definition spec_res_ok (base ref : str) (obs : option str) : bool :=
  match obs with
  | Some o => str_eqb (resolve base ref) o && matchb IRI o
  | None => false
  end.

