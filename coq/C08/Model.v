(* C08/Model.v -- harness-facing checkers: the regenerated validator regexes, run by the verified
   derivative matcher, against BnodeId::new / VarName::new / LanguageTag::new (val3_ok); the byte -> text layer
   of the parser entry points against String::from_utf8 and the JSON-LD parser's UTF-8 error (utf8_ok, Utf8.v);
   every way of driving a parser's source, again after Err / Ok / exhaustion, against what the required method
   try_for_some_item gives on a fresh source (hist_ok, Source.v). *)
From Sophia.Common Require Export Prelude.
From Sophia.C08 Require Export Regex.
From Sophia.gen Require Export LabelSrc.
From Sophia.C08 Require Export Utf8.
From Sophia.C08 Require Export Source.

Definition val3_ok (s : str) (bnode var tag : bool) : bool :=
  Bool.eqb (matchb bnode_id_regex s) bnode && Bool.eqb (matchb varname_regex s) var
  && Bool.eqb (matchb lang_tag_regex s) tag.
