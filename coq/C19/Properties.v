(* C19/Properties.v -- pinned statements of property C19. *)
From Sophia.C19 Require Import Model Proofs Config ConfigProofs History HistoryProofs.
From Sophia.gen Require Consts.

Check (get_confined : forall fs exts caches iri0,
  let iri := hd [] (split_on c_hash iri0) in
  forall p, In p (fst (get fs exts true caches iri0)) -> confined_any exts caches iri p).
Check (found_confined : forall fs exts caches iri0 p ct,
  snd (get fs exts true caches iri0) = Found p ct ->
  confined_any exts caches (hd [] (split_on c_hash iri0)) p).
Check (resolve_safe : forall dir cs base,
  forallb comp_safe cs = true -> path_prefix dir base = true ->
  path_prefix dir (resolve base cs) = true).
(* the statement instantiated with the extension list found in the source today *)
Theorem get_confined_current_exts : forall fs caches iri0 p,
  In p (fst (get fs Consts.loader_exts true caches iri0)) ->
  confined_any Consts.loader_exts caches (hd [] (split_on c_hash iri0)) p.
Proof. intros fs caches iri0 p H. exact (get_confined fs Consts.loader_exts caches iri0 p H). Qed.
(* no negotiated extension contains a path separator (so an extended IRI stays in its namespace) *)
Theorem exts_have_no_slash :
  forallb (fun e => negb (existsb (N.eqb c_slash) e)) Consts.loader_exts = true.
Proof. vm_compute. reflexivity. Qed.

(* ===== configuration: LocalLoader::check / new / add (Config.v) ===== *)
Check (check_accepts : forall fs ns t c, check fs ns t = inr c <->
  ends_with_slash ns = true /\ is_abs t = true /\ exists p, dir_of_text fs t = Some p /\ c = (ns, p)).
Check (check_refusals : forall fs ns t,
  (check fs ns t = inl IriMustEndWithSlash <-> ends_with_slash ns = false) /\
  (check fs ns t = inl PathMustBeAbsolute <-> ends_with_slash ns = true /\ is_abs t = false) /\
  (check fs ns t = inl PathMustBeDirectory <->
     ends_with_slash ns = true /\ is_abs t = true /\ dir_of_text fs t = None)).
(* a refused add leaves the loader exactly as it was; an accepted one appends one well-formed mapping *)
Check (add_refused_unchanged : forall fs cs ns t e,
  snd (add fs cs ns t) = Some e -> fst (add fs cs ns t) = cs /\ check fs ns t = inl e).
Check (add_accepted : forall fs cs ns t, snd (add fs cs ns t) = None ->
  exists c, check fs ns t = inr c /\ fst (add fs cs ns t) = cs ++ [c] /\ wf_cache fs c).
(* invariant of every configuration reachable by any sequence of add() calls, accepted or refused *)
Check (run_adds_wf : forall fs ops init,
  Forall (wf_cache fs) init -> Forall (wf_cache fs) (run_adds fs init ops)).
Check (run_adds_extends : forall fs ops init, exists added, run_adds fs init ops = init ++ added).
Check (new_loader_spec : forall fs l cs,
  new_loader fs l = inr cs <-> Forall2 (fun op c => check fs (fst op) (snd op) = inr c) l cs).
Check (new_loader_first_error : forall fs l e, new_loader fs l = inl e ->
  exists pre op post, l = pre ++ op :: post /\ check fs (fst op) (snd op) = inl e
    /\ Forall (fun op' => exists c, check fs (fst op') (snd op') = inr c) pre).
Check (new_loader_wf : forall fs l cs, new_loader fs l = inr cs -> Forall (wf_cache fs) cs).
Check (new_equals_adds : forall fs l cs, new_loader fs l = inr cs -> run_adds fs [] l = cs).
(* ===== which file a successful get returns ===== *)
Check (find_cache_first : forall caches iri dir sub, find_cache caches iri = Some (dir, sub) ->
  exists pre ns post, caches = pre ++ (ns, dir) :: post /\ iri = ns ++ sub
    /\ Forall (fun c => forall s, iri <> fst c ++ s) pre).
Check (get_found_exact : forall fs exts caches iri0 p ct,
  snd (get fs exts true caches iri0) = Found p ct ->
  let iri := hd [] (split_on c_hash iri0) in
  exists e dir sub, (e = [] \/ In e exts) /\ find_cache caches (iri ++ e) = Some (dir, sub)
    /\ forallb comp_safe (components sub) = true
    /\ p = dir ++ normals (components sub) /\ lookup fs p = Some true /\ ct = ctype (iri ++ e)).
Check (fragment_irrelevant : forall fs exts caches iri frag,
  existsb (N.eqb c_hash) iri = false ->
  get fs exts true caches (iri ++ c_hash :: frag) = get fs exts true caches iri).
(* confinement for every loader obtainable through new()/add() *)
Check (reachable_get_confined : forall fs exts init ops iri0 p,
  In p (fst (get fs exts true (run_adds fs init ops) iri0)) ->
  confined_any exts (run_adds fs init ops) (hd [] (split_on c_hash iri0)) p).

(* ===== loaders are values: histories over several loader values alive at once (History.v) ===== *)
(* an operation, and a whole history, only ever modifies the loader value it targets *)
Check (hstep_frame : forall fs exts st op j,
  (N.to_nat j < length st)%nat -> target op <> Some j ->
  cfg_of (fst (hstep fs exts st op)) j = cfg_of st j).
Check (history_frame : forall fs exts ops st j,
  (N.to_nat j < length st)%nat -> Forall (fun op => target op <> Some j) ops ->
  cfg_of (state_after fs exts st ops) j = cfg_of st j).
Check (clone_then_add_independent : forall fs exts st i ns t,
  (N.to_nat i < length st)%nat ->
  let k := N.of_nat (length st) in
  let st1 := fst (hstep fs exts st (HClone i)) in
  let st2 := fst (hstep fs exts st1 (HAdd k ns t)) in
  cfg_of st1 k = cfg_of st i /\ cfg_of st2 i = cfg_of st i /\
  cfg_of st2 k = fst (add fs (cfg_of st i) ns t)).
(* requests have no effect, so the answer to a request depends on the configuring operations only *)
Check (gets_are_pure : forall fs exts ops st,
  state_after fs exts st ops = state_after fs exts st (filter (fun op => negb (is_get op)) ops)).
Check (get_observation : forall fs exts ops st k i iri,
  nth_error ops k = Some (HGet i iri) ->
  nth_error (run_hist fs exts st ops) k
  = Some (obs_of (snd (get fs exts true (cfg_of (state_after fs exts st (firstn k ops)) i) iri)))).
Check (get_history_free : forall fs exts ops st k i iri,
  nth_error ops k = Some (HGet i iri) ->
  nth_error (run_hist fs exts st ops) k
  = Some (obs_of (snd (get fs exts true
        (cfg_of (state_after fs exts st (filter (fun op => negb (is_get op)) (firstn k ops))) i) iri)))).
(* every loader value of a history is a configuration of Config.v's run_adds, hence well-formed *)
Check (history_reachable : forall fs exts ops st,
  Forall (reachable fs) st -> Forall (reachable fs) (state_after fs exts st ops)).
Check (history_wf : forall fs exts ops i, Forall (wf_cache fs) (cfg_of (state_after fs exts [] ops) i)).
(* confinement inside histories: with respect to the configuration of the REQUESTED loader value *)
Check (history_found_confined : forall fs exts ops st k i iri p ct,
  nth_error ops k = Some (HGet i iri) ->
  nth_error (run_hist fs exts st ops) k = Some (OGot 0 p ct) ->
  confined_any exts (cfg_of (state_after fs exts st (firstn k ops)) i) (hd [] (split_on c_hash iri)) p).
Check (empty_loader_refuses : forall fs exts iri, snd (get fs exts true [] iri) = Unsupported).
Check (hist_ok_spec : forall fs exts ops obs, hist_ok fs exts ops obs = true <-> run_hist fs exts [] ops = obs).

Print Assumptions get_confined.
Print Assumptions found_confined.
Print Assumptions resolve_safe.
Print Assumptions get_confined_current_exts.
Print Assumptions exts_have_no_slash.
Print Assumptions prefix_refuted_dotdot.
Print Assumptions prefix_refuted_abs.
Print Assumptions check_accepts.
Print Assumptions check_refusals.
Print Assumptions add_refused_unchanged.
Print Assumptions add_accepted.
Print Assumptions run_adds_wf.
Print Assumptions run_adds_extends.
Print Assumptions new_loader_spec.
Print Assumptions new_loader_first_error.
Print Assumptions new_loader_wf.
Print Assumptions new_equals_adds.
Print Assumptions find_cache_first.
Print Assumptions get_found_exact.
Print Assumptions fragment_irrelevant.
Print Assumptions reachable_get_confined.
Print Assumptions config_examples.
Print Assumptions hstep_frame.
Print Assumptions history_frame.
Print Assumptions clone_then_add_independent.
Print Assumptions gets_are_pure.
Print Assumptions get_observation.
Print Assumptions get_history_free.
Print Assumptions history_reachable.
Print Assumptions history_wf.
Print Assumptions history_found_confined.
Print Assumptions empty_loader_refuses.
Print Assumptions hist_ok_spec.
Print Assumptions history_example.
