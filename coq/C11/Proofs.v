(* C11/Proofs.v -- views are coherent with the underlying store. *)
From Sophia.C11 Require Import Model.

Section P.
Variable T : Type.
Variable eqb : T -> T -> bool.
Hypothesis eqb_spec : forall x y, eqb x y = true <-> x = y.

Notation triple := (triple T).
Notation quad := (quad T).
Notation gname := (gname T).
Notation triple_eqb := (triple_eqb T eqb).
Notation quad_eqb := (quad_eqb T eqb).
Notation gname_eqb := (gname_eqb T eqb).

Lemma triple_eqb_spec (a b : triple) : triple_eqb a b = true <-> a = b.
Proof.
  unfold Model.triple_eqb. rewrite !andb_true_iff, !eqb_spec.
  destruct a, b; simpl; split; [intros [[-> ->] ->]; reflexivity | intros E; injection E; auto].
Qed.

Lemma gname_eqb_spec (a b : gname) : gname_eqb a b = true <-> a = b.
Proof.
  destruct a, b; simpl; try rewrite eqb_spec; split; congruence.
Qed.

Lemma quad_eqb_spec (a b : quad) : quad_eqb a b = true <-> a = b.
Proof.
  unfold Model.quad_eqb. rewrite andb_true_iff, triple_eqb_spec, gname_eqb_spec.
  destruct a, b; simpl; split; [intros [-> ->]; reflexivity | intros E; injection E; auto].
Qed.

Lemma quad_eqb_false (a b : quad) : quad_eqb a b = false <-> a <> b.
Proof. rewrite <- quad_eqb_spec. destruct (quad_eqb a b); split; congruence. Qed.
Lemma triple_eqb_false (a b : triple) : triple_eqb a b = false <-> a <> b.
Proof. rewrite <- triple_eqb_spec. destruct (triple_eqb a b); split; congruence. Qed.

Lemma ds_contains_In d q : ds_contains T eqb d q = true <-> In q d.
Proof.
  unfold ds_contains. rewrite existsb_exists. split.
  - intros [x [Hx E]]. apply quad_eqb_spec in E. subst; assumption.
  - intros H. exists q. split; [assumption | apply quad_eqb_spec; reflexivity].
Qed.
Lemma gr_contains_In g t : gr_contains T eqb g t = true <-> In t g.
Proof.
  unfold gr_contains. rewrite existsb_exists. split.
  - intros [x [Hx E]]. apply triple_eqb_spec in E. subst; assumption.
  - intros H. exists t. split; [assumption | apply triple_eqb_spec; reflexivity].
Qed.

(* ---------- the set operations of the store ---------- *)
Lemma NoDup_app_single {A} (l : list A) x : NoDup l -> ~ In x l -> NoDup (l ++ [x]).
Proof.
  induction l as [|y l IH]; simpl; intros Hn Hx.
  - constructor; [intros []|constructor].
  - inversion Hn; subst. constructor.
    + rewrite in_app_iff. simpl. intuition.
    + apply IH; auto.
Qed.

Lemma NoDup_filter {A} (f : A -> bool) l : NoDup l -> NoDup (filter f l).
Proof.
  induction l as [|x l IH]; simpl; intros H; [constructor|].
  inversion H; subst. destruct (f x); auto. constructor; auto.
  rewrite filter_In. tauto.
Qed.

Lemma ds_insert_spec d q d' b :
  ds_insert T eqb d q = (d', b) ->
  b = negb (ds_contains T eqb d q) /\ (forall x, In x d' <-> In x d \/ x = q)
  /\ (NoDup d -> NoDup d').
Proof.
  unfold ds_insert. destruct (ds_contains T eqb d q) eqn:E; intros H; inversion H; subst; clear H.
  - apply ds_contains_In in E. repeat split; auto.
    + intros [H| ->]; auto.
  - repeat split; auto.
    + rewrite in_app_iff. simpl. intuition.
    + rewrite in_app_iff. simpl. intuition.
    + intros Hn. apply NoDup_app_single; auto. rewrite <- ds_contains_In. congruence.
Qed.

Lemma ds_remove_spec d q d' b :
  ds_remove T eqb d q = (d', b) ->
  b = ds_contains T eqb d q /\ (forall x, In x d' <-> In x d /\ x <> q)
  /\ (NoDup d -> NoDup d').
Proof.
  unfold ds_remove. destruct (ds_contains T eqb d q) eqn:E; intros H; inversion H; subst; clear H.
  - repeat split; auto.
    + apply filter_In in H. tauto.
    + apply filter_In in H. destruct H as [_ H]. apply negb_true_iff, quad_eqb_false in H. congruence.
    + intros [H1 H2]. apply filter_In. split; auto. apply negb_true_iff, quad_eqb_false. congruence.
    + apply NoDup_filter.
  - repeat split; auto; try tauto.
    intros ->. apply ds_contains_In in H. congruence.
Qed.

Lemma gr_insert_spec g t g' b :
  gr_insert T eqb g t = (g', b) ->
  b = negb (gr_contains T eqb g t) /\ (forall x, In x g' <-> In x g \/ x = t)
  /\ (NoDup g -> NoDup g').
Proof.
  unfold gr_insert. destruct (gr_contains T eqb g t) eqn:E; intros H; inversion H; subst; clear H.
  - apply gr_contains_In in E. repeat split; auto.
    + intros [H| ->]; auto.
  - repeat split; auto.
    + rewrite in_app_iff. simpl. intuition.
    + rewrite in_app_iff. simpl. intuition.
    + intros Hn. apply NoDup_app_single; auto. rewrite <- gr_contains_In. congruence.
Qed.

Lemma gr_remove_spec g t g' b :
  gr_remove T eqb g t = (g', b) ->
  b = gr_contains T eqb g t /\ (forall x, In x g' <-> In x g /\ x <> t)
  /\ (NoDup g -> NoDup g').
Proof.
  unfold gr_remove. destruct (gr_contains T eqb g t) eqn:E; intros H; inversion H; subst; clear H.
  - repeat split; auto.
    + apply filter_In in H. tauto.
    + apply filter_In in H. destruct H as [_ H]. apply negb_true_iff, triple_eqb_false in H. congruence.
    + intros [H1 H2]. apply filter_In. split; auto. apply negb_true_iff, triple_eqb_false. congruence.
    + apply NoDup_filter.
  - repeat split; auto; try tauto.
    intros ->. apply gr_contains_In in H. congruence.
Qed.

(* ---------- views: content ---------- *)

Lemma map_filter_comm {A B} (f : A -> B) (p : B -> bool) l :
  filter p (map f l) = map f (filter (fun x => p (f x)) l).
Proof. induction l as [|x l IH]; simpl; auto. destruct (p (f x)); simpl; congruence. Qed.

Lemma filter_filter {A} (p q : A -> bool) l :
  filter p (filter q l) = filter (fun x => q x && p x) l.
Proof. induction l as [|x l IH]; simpl; auto. destruct (q x); simpl; [destruct (p x)|]; congruence. Qed.

(* the union graph shows exactly the triples of all quads (as a multiset: one per quad) *)
Theorem union_content d : union_triples T d = map qt d.
Proof. reflexivity. Qed.

Theorem union_query_is_filter d sm pm om :
  union_matching T d sm pm om = filter (triple_matches T sm pm om) (union_triples T d).
Proof.
  unfold union_matching, union_triples, ds_quads_matching. rewrite map_filter_comm.
  f_equal. apply filter_ext. intros q. unfold any_g. apply andb_true_r.
Qed.

Theorem punion_content d m : punion_triples T d m = map qt (filter (fun q => m (qg q)) d).
Proof.
  unfold punion_triples, ds_quads_matching. reflexivity.
Qed.

Theorem punion_query_is_filter d m sm pm om :
  punion_matching T d m sm pm om = filter (triple_matches T sm pm om) (punion_triples T d m).
Proof.
  rewrite punion_content. unfold punion_matching, ds_quads_matching.
  rewrite map_filter_comm, filter_filter. f_equal. apply filter_ext. intros q.
  apply andb_comm.
Qed.

Theorem dg_content d g : dg_triples T eqb d g = map qt (filter (fun q => gname_eqb (qg q) g) d).
Proof.
  unfold dg_triples, ds_quads_matching. f_equal.
Qed.

Theorem dg_member d g t : In t (dg_triples T eqb d g) <-> In (mkQ t g) d.
Proof.
  rewrite dg_content, in_map_iff. split.
  - intros [q [<- H]]. apply filter_In in H as [H1 H2]. apply gname_eqb_spec in H2. subst.
    destruct q; assumption.
  - intros H. exists (mkQ t g). split; auto. apply filter_In. split; auto.
    apply gname_eqb_spec. reflexivity.
Qed.

Theorem dg_query_is_filter d g sm pm om :
  dg_matching T eqb d g sm pm om = filter (triple_matches T sm pm om) (dg_triples T eqb d g).
Proof.
  rewrite dg_content. unfold dg_matching, ds_quads_matching.
  rewrite map_filter_comm, filter_filter. f_equal. apply filter_ext. intros q.
  apply andb_comm.
Qed.


Lemma NoDup_map_inj_on {A B} (f : A -> B) l :
  (forall x y, In x l -> In y l -> f x = f y -> x = y) -> NoDup l -> NoDup (map f l).
Proof.
  induction l as [|x l IH]; simpl; intros Hinj Hn; [constructor|].
  inversion Hn; subst. constructor.
  - rewrite in_map_iff. intros [y [E Hy]]. assert (y = x) by (apply Hinj; auto). subst. auto.
  - apply IH; auto.
Qed.

(* a single graph of a set-like dataset is set-like (impl SetGraph for DatasetGraph) *)
Theorem dg_nodup d g : NoDup d -> NoDup (dg_triples T eqb d g).
Proof.
  rewrite dg_content. intros Hn. apply NoDup_map_inj_on.
  - intros x y Hx Hy E. apply filter_In in Hx as [_ Hx], Hy as [_ Hy].
    apply gname_eqb_spec in Hx, Hy. destruct x, y; simpl in *; congruence.
  - apply NoDup_filter; assumption.
Qed.

(* ---------- views: mutation ---------- *)

(* same flag and same effect as the direct operation with that graph name *)
Theorem dg_insert_is_direct d g t : dg_insert T eqb d g t = ds_insert T eqb d (mkQ t g).
Proof. reflexivity. Qed.
Theorem dg_remove_is_direct d g t : dg_remove T eqb d g t = ds_remove T eqb d (mkQ t g).
Proof. reflexivity. Qed.

Theorem dg_insert_effect d g t d' b :
  dg_insert T eqb d g t = (d', b) ->
  b = negb (existsb (triple_eqb t) (dg_triples T eqb d g))        (* flag: was it new in THIS graph *)
  /\ (forall t', In t' (dg_triples T eqb d' g) <-> In t' (dg_triples T eqb d g) \/ t' = t)
  /\ (forall g', g' <> g -> dg_triples T eqb d' g' = dg_triples T eqb d g')  (* other graphs untouched *)
  /\ (NoDup d -> NoDup d').
Proof.
  intros H. unfold dg_insert in H. pose proof (ds_insert_spec _ _ _ _ H) as [Hb [Hin Hnd]].
  repeat split; auto.
  - subst b. f_equal.
    destruct (ds_contains T eqb d (mkQ t g)) eqn:E.
    + apply ds_contains_In, dg_member in E. symmetry. apply existsb_exists. exists t. split; auto.
      apply triple_eqb_spec; reflexivity.
    + symmetry. apply not_true_is_false. intros Hx. apply existsb_exists in Hx as [x [Hx E2]].
      apply triple_eqb_spec in E2. subst x. apply dg_member, ds_contains_In in Hx. congruence.
  - rewrite !dg_member, Hin. intros [H1|H1]; auto. right. congruence.
  - rewrite !dg_member, Hin. intros [H1| ->]; auto.
  - intros g' Hg. rewrite !dg_content. f_equal.
    unfold ds_insert in H. destruct (ds_contains T eqb d (mkQ t g)); inversion H; subst; auto.
    rewrite filter_app. simpl.
    destruct (gname_eqb g g') eqn:E; [apply gname_eqb_spec in E; congruence|].
    apply app_nil_r.
Qed.

Theorem dg_remove_effect d g t d' b :
  dg_remove T eqb d g t = (d', b) ->
  b = existsb (triple_eqb t) (dg_triples T eqb d g)
  /\ (forall t', In t' (dg_triples T eqb d' g) <-> In t' (dg_triples T eqb d g) /\ t' <> t)
  /\ (forall g', g' <> g -> dg_triples T eqb d' g' = dg_triples T eqb d g')
  /\ (NoDup d -> NoDup d').
Proof.
  intros H. unfold dg_remove in H. pose proof (ds_remove_spec _ _ _ _ H) as [Hb [Hin Hnd]].
  repeat split; auto.
  - subst b.
    destruct (ds_contains T eqb d (mkQ t g)) eqn:E.
    + apply ds_contains_In, dg_member in E. symmetry. apply existsb_exists. exists t. split; auto.
      apply triple_eqb_spec; reflexivity.
    + symmetry. apply not_true_is_false. intros Hx. apply existsb_exists in Hx as [x [Hx E2]].
      apply triple_eqb_spec in E2. subst x. apply dg_member, ds_contains_In in Hx. congruence.
  - apply dg_member, Hin in H0. apply dg_member. tauto.
  - apply dg_member, Hin in H0. intros ->. tauto.
  - intros [H1 H2]. apply dg_member, Hin. split; [apply dg_member; auto | congruence].
  - intros g' Hg. rewrite !dg_content. f_equal.
    unfold ds_remove in H. destruct (ds_contains T eqb d (mkQ t g)); inversion H; subst; auto.
    rewrite filter_filter. apply filter_ext_in. intros q Hq.
    destruct (gname_eqb (qg q) g') eqn:E; [|apply andb_false_r].
    rewrite andb_true_r. apply gname_eqb_spec in E. apply negb_true_iff, quad_eqb_false.
    intros E2. subst q. simpl in E. congruence.
Qed.

(* bulk mutation through the view (MutableGraph defaults): only the viewed graph changes *)
Lemma dg_remove_list_effect g ts : forall d n,
  let '(d', n') := fold_left (fun acc t => let '(d', b) := dg_remove T eqb (fst acc) g t in
                                           (d', if b then S (snd acc) else snd acc)) ts (d, n) in
  (forall t, In t (dg_triples T eqb d' g) <-> In t (dg_triples T eqb d g) /\ ~ In t ts)
  /\ (forall g', g' <> g -> dg_triples T eqb d' g' = dg_triples T eqb d g')
  /\ (NoDup d -> NoDup d').
Proof.
  induction ts as [|t ts IH]; intros d n; simpl.
  - repeat split; auto; tauto.
  - destruct (dg_remove T eqb d g t) as [d1 b] eqn:E.
    apply dg_remove_effect in E as (_ & H2 & H3 & H4).
    specialize (IH d1 (if b then S n else n)).
    destruct (fold_left _ ts (d1, if b then S n else n)) as [d' n'].
    destruct IH as (I1 & I2 & I3). repeat split.
    + apply I1 in H. destruct H as [Ha Hb]. apply H2 in Ha. tauto.
    + apply I1 in H. destruct H as [Ha Hb]. apply H2 in Ha. intros [<-|Hc]; tauto.
    + intros [Ha Hb]. apply I1. split; [apply H2; split; auto|]; intros Hc; apply Hb; auto.
    + intros g' Hg. rewrite I2, H3; auto.
    + auto.
Qed.

Theorem dg_remove_matching_effect d g sm pm om :
  let d' := fst (dg_remove_matching T eqb d g sm pm om) in
  (forall t, In t (dg_triples T eqb d' g) <->
             In t (dg_triples T eqb d g) /\ triple_matches T sm pm om t = false)
  /\ (forall g', g' <> g -> dg_triples T eqb d' g' = dg_triples T eqb d g')
  /\ (NoDup d -> NoDup d').
Proof.
  unfold dg_remove_matching, dg_remove_list.
  pose proof (dg_remove_list_effect g (dg_matching T eqb d g sm pm om) d O) as H.
  destruct (fold_left _ (dg_matching T eqb d g sm pm om) (d, O)) as [d' n']. simpl.
  destruct H as (H1 & H2 & H3). repeat split; auto.
  - apply H1 in H. tauto.
  - apply H1 in H. destruct H as [Ha Hb]. rewrite dg_query_is_filter in Hb.
    destruct (triple_matches T sm pm om t) eqn:E; auto. exfalso. apply Hb. apply filter_In. auto.
  - intros [Ha Hb]. apply H1. split; auto. rewrite dg_query_is_filter. intros Hc.
    apply filter_In in Hc. destruct Hc as [_ Hc]. congruence.
Qed.

Theorem dg_retain_matching_effect d g sm pm om :
  let d' := dg_retain_matching T eqb d g sm pm om in
  (forall t, In t (dg_triples T eqb d' g) <->
             In t (dg_triples T eqb d g) /\ triple_matches T sm pm om t = true)
  /\ (forall g', g' <> g -> dg_triples T eqb d' g' = dg_triples T eqb d g')
  /\ (NoDup d -> NoDup d').
Proof.
  unfold dg_retain_matching, dg_remove_list.
  set (victims := filter (fun t => negb (triple_matches T sm pm om t)) (dg_triples T eqb d g)).
  pose proof (dg_remove_list_effect g victims d O) as H.
  destruct (fold_left _ victims (d, O)) as [d' n']. simpl.
  destruct H as (H1 & H2 & H3). repeat split; auto.
  - apply H1 in H. tauto.
  - apply H1 in H. destruct H as [Ha Hb].
    destruct (triple_matches T sm pm om t) eqn:E; auto. exfalso. apply Hb. apply filter_In.
    split; auto. rewrite E. reflexivity.
  - intros [Ha Hb]. apply H1. split; auto. intros Hc. apply filter_In in Hc.
    destruct Hc as [_ Hc]. rewrite Hb in Hc. discriminate.
Qed.

(* ---------- graph as dataset ---------- *)

Theorem gad_content g : gad_quads T g = map (fun t => mkQ t None) g.
Proof. reflexivity. Qed.

Theorem gad_query_is_filter g sm pm om gm :
  gad_quads_matching T g sm pm om gm =
  filter (fun q => triple_matches T sm pm om (qt q) && gm (qg q)) (gad_quads T g).
Proof.
  unfold gad_quads_matching, gad_quads, gr_triples_matching. rewrite map_filter_comm. simpl.
  destruct (gm None).
  - f_equal. apply filter_ext. intros t. symmetry. apply andb_true_r.
  - symmetry. replace (filter _ g) with (@nil triple); auto.
    symmetry. induction g as [|x g IH]; simpl; auto. rewrite andb_false_r. assumption.
Qed.

Theorem gad_contains_spec g q : gad_contains T eqb g q = true <-> In q (gad_quads T g).
Proof.
  unfold gad_contains, gad_quads. rewrite in_map_iff. destruct q as [t [gn|]]; simpl.
  - split; [discriminate|]. intros [x [E _]]. discriminate.
  - rewrite gr_contains_In. split.
    + intros H. exists t. auto.
    + intros [x [E H]]. inversion E; subst; auto.
Qed.

Theorem gad_insert_effect g q g' r :
  gad_insert T eqb g q = (g', r) ->
  match qg q with
  | None => r = GadOk (negb (gad_contains T eqb g q))
            /\ (forall x, In x (gad_quads T g') <-> In x (gad_quads T g) \/ x = q)
            /\ (NoDup g -> NoDup g')
  | Some _ => r = GadOnlyDefaultGraph /\ g' = g
  end.
Proof.
  unfold gad_insert, gad_contains. destruct q as [t [gn|]]; simpl.
  - intros H; inversion H; auto.
  - destruct (gr_insert T eqb g t) as [g2 b] eqn:E. intros H; inversion H; subst; clear H.
    apply gr_insert_spec in E as [Hb [Hin Hn]]. subst b. repeat split; auto.
    + unfold gad_quads. rewrite !in_map_iff. intros [y [<- Hy]]. apply Hin in Hy as [Hy| ->]; eauto.
    + unfold gad_quads. rewrite !in_map_iff. intros [[y [<- Hy]]| ->].
      * exists y. split; auto. apply Hin; auto.
      * exists t. split; auto. apply Hin; auto.
Qed.

Theorem gad_remove_effect g q g' r :
  gad_remove T eqb g q = (g', r) ->
  r = GadOk (gad_contains T eqb g q)
  /\ (forall x, In x (gad_quads T g') <-> In x (gad_quads T g) /\ x <> q)
  /\ (NoDup g -> NoDup g').
Proof.
  unfold gad_remove, gad_contains. destruct q as [t [gn|]]; simpl.
  - intros H; inversion H; subst. repeat split; auto; try tauto.
    intros ->. unfold gad_quads in H0. apply in_map_iff in H0 as [y [E _]]. discriminate.
  - destruct (gr_remove T eqb g t) as [g2 b] eqn:E. intros H; inversion H; subst; clear H.
    apply gr_remove_spec in E as [Hb [Hin Hn]]. subst b. repeat split; auto.
    + unfold gad_quads in *. rewrite in_map_iff in *. destruct H as [y [<- Hy]].
      apply Hin in Hy. exists y; tauto.
    + unfold gad_quads in H. rewrite in_map_iff in H. destruct H as [y [<- Hy]].
      apply Hin in Hy. intros E. inversion E. tauto.
    + intros [H1 H2]. unfold gad_quads in *. rewrite in_map_iff in *. destruct H1 as [y [<- Hy]].
      exists y; split; auto. apply Hin. split; auto. congruence.
Qed.

(* the pre-fix behaviour violates the property: removing a present triple... inserts *)
End P.

(* ---------- every reachable state: the set invariant survives any mixed history ---------- *)
Lemma N_eqb_spec' : forall x y : N, N.eqb x y = true <-> x = y.
Proof. intros; apply N.eqb_eq. Qed.

Lemma step_nodup pl d o : NoDup d -> NoDup (fst (step pl d o)).
Proof.
  intros Hn. destruct o; simpl; auto.
  - destruct (ds_insert N N.eqb d q) as [d' b] eqn:E. simpl.
    apply (ds_insert_spec N N.eqb N_eqb_spec') in E. tauto.
  - destruct (ds_remove N N.eqb d q) as [d' b] eqn:E. simpl.
    apply (ds_remove_spec N N.eqb N_eqb_spec') in E. tauto.
  - destruct (dg_insert N N.eqb d g t) as [d' b] eqn:E. simpl.
    apply (dg_insert_effect N N.eqb N_eqb_spec') in E. tauto.
  - destruct (dg_remove N N.eqb d g t) as [d' b] eqn:E. simpl.
    apply (dg_remove_effect N N.eqb N_eqb_spec') in E. tauto.
  - pose proof (dg_remove_matching_effect N N.eqb N_eqb_spec' d g (mdesc_t sm) (mdesc_t pm) (mdesc_t om)) as H.
    destruct (dg_remove_matching N N.eqb d g (mdesc_t sm) (mdesc_t pm) (mdesc_t om)) as [d' n]. simpl in *. tauto.
  - pose proof (dg_retain_matching_effect N N.eqb N_eqb_spec' d g (mdesc_t sm) (mdesc_t pm) (mdesc_t om)) as H.
    simpl in *. tauto.
Qed.

Fixpoint final (pl : pool) (d : dataset N) (ops : list op) : dataset N :=
  match ops with [] => d | o :: ops' => final pl (fst (step pl d o)) ops' end.

Theorem reachable_nodup pl ops : NoDup (final pl [] ops).
Proof.
  assert (H : forall d, NoDup d -> NoDup (final pl d ops)).
  { induction ops as [|o ops IH]; simpl; intros d Hd; auto. apply IH, step_nodup, Hd. }
  apply H. constructor.
Qed.

(* view mutations are indistinguishable from direct ones, over whole histories *)
Definition devirt (o : op) : op :=
  match o with
  | VInsert g t => DInsert (mkQ t g)
  | VRemove g t => DRemove (mkQ t g)
  | _ => o
  end.
Theorem history_devirt pl d ops : run pl d ops = run pl d (map devirt ops).
Proof.
  revert d; induction ops as [|o ops IH]; intros d; simpl; auto.
  destruct o; simpl; try (rewrite IH; reflexivity);
  unfold dg_insert, dg_remove;
  match goal with |- context [let '(_, _) := ?x in _] => destruct x end; rewrite IH; reflexivity.
Qed.

(* the finding fixed by commit "fix: GraphAsDataset::remove ...": on the pre-fix model,
   removing a present triple through the view left it there *)
Example gad_remove_prefix_refuted :
  exists g q, In q (gad_quads N g) /\ In q (gad_quads N (fst (gad_remove_prefix N N.eqb g q))).
Proof.
  exists [mkT 1 2 3], (mkQ (mkT 1 2 3) None). split; vm_compute; auto.
Qed.

(* non-vacuity: a concrete reachable state with two graphs sharing a triple *)
Example nonvacuous :
  let d := final [] [] [DInsert (mkQ (mkT 1 2 3) None); VInsert (Some 9) (mkT 1 2 3); VInsert (Some 9) (mkT 4 5 6)] in
  NoDup d /\ length (union_triples N d) = 3%nat /\ length (dg_triples N N.eqb d (Some 9)) = 2%nat.
Proof. vm_compute. repeat split; repeat constructor; simpl; intuition discriminate. Qed.
