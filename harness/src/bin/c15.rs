//! C15: sources, adapter chains (depth 0..3) and consumers with one injected fault, against the
//! Coq model (C15/Model.v) and a naive oracle (filter_map over the prefix before the fault).
use sophia_api::prelude::*;
use sophia_api::source::{Source, StreamError, TripleSource};
use sophia_api::term::SimpleTerm;
use sophia_inmem::graph::{FastGraph, GenericFastGraph, GenericLightGraph};
use sophia_inmem::index::SimpleTermIndex;
use sophia_turtle::serializer::nt::NtSerializer;
use std::cell::Cell;
use std::rc::Rc;
use verif_harness::*;

#[derive(Clone, Copy, Debug, PartialEq)]
enum AD { FilterEven, FilterLt(u64), FilterNone, FilterAll, MapSucc, MapDouble, MapConst(u64), FilterMapHalf, FilterMapLtSucc(u64) }
#[derive(Clone, Copy)]
enum K { F, M, FM }
fn kind(a: AD) -> K { match a { AD::FilterEven | AD::FilterLt(_) | AD::FilterNone | AD::FilterAll => K::F, AD::MapSucc | AD::MapDouble | AD::MapConst(_) => K::M, _ => K::FM } }
fn filt(a: AD, x: u64) -> bool { match a { AD::FilterEven => x % 2 == 0, AD::FilterLt(k) => x < k, AD::FilterNone => false, AD::FilterAll => true, _ => unreachable!() } }
fn mapf(a: AD, x: u64) -> u64 { match a { AD::MapSucc => x + 1, AD::MapDouble => 2 * x, AD::MapConst(k) => k, _ => unreachable!() } }
fn fmf(a: AD, x: u64) -> Option<u64> { match a { AD::FilterMapHalf => (x % 2 == 0).then_some(x / 2), AD::FilterMapLtSucc(k) => (x < k).then_some(x + 1), _ => unreachable!() } }
fn through(chain: &[AD], x: u64) -> Option<u64> {
    let mut x = x;
    for a in chain { match kind(*a) { K::F => if !filt(*a, x) { return None }, K::M => x = mapf(*a, x), K::FM => x = fmf(*a, x)? } }
    Some(x)
}
fn c_ad(a: &AD) -> String { match a { AD::FilterEven => "DFilterEven".into(), AD::FilterLt(k) => format!("(DFilterLt {k})"), AD::FilterNone => "DFilterNone".into(), AD::FilterAll => "DFilterAll".into(), AD::MapSucc => "DMapSucc".into(), AD::MapDouble => "DMapDouble".into(), AD::MapConst(k) => format!("(DMapConst {k})"), AD::FilterMapHalf => "DFilterMapHalf".into(), AD::FilterMapLtSucc(k) => format!("(DFilterMapLtSucc {k})") } }

struct Counting<I> { it: I, n: Rc<Cell<usize>> }
impl<I: Iterator> Iterator for Counting<I> { type Item = I::Item; fn next(&mut self) -> Option<I::Item> { self.n.set(self.n.get() + 1); self.it.next() } }

/// a user-level Source that hands over several items per step and may fail at the end of a step
/// (the shape of the Rio parser adapters: one parse_step = one statement = 0..n triples)
struct BatchSource { steps: std::collections::VecDeque<(Vec<u64>, Option<u64>)>, n: Rc<Cell<usize>> }
impl Source for BatchSource {
    type Item<'x> = u64;
    type Error = MyErr;
    fn try_for_some_item<E, F>(&mut self, mut f: F) -> Result<bool, StreamError<MyErr, E>>
    where E: std::error::Error + Send + Sync + 'static, F: FnMut(u64) -> Result<(), E> {
        let Some((items, oe)) = self.steps.pop_front() else { return Ok(false) };
        self.n.set(self.n.get() + 1);
        for x in items { f(x).map_err(StreamError::SinkError)?; }
        match oe { Some(e) => Err(StreamError::SourceError(MyErr(e))), None => Ok(true) }
    }
}

#[derive(Clone, Debug, PartialEq)]
enum Outc { Done, Source(u64), Sink(u64) }
#[derive(Clone, Debug, PartialEq)]
struct Obs { trace: Vec<u64>, out: Outc, pulled: usize, drained: Vec<Result<u64, u64>> }
fn c_outc(o: &Outc) -> String { match o { Outc::Done => "KDone".into(), Outc::Source(e) => format!("(KSource {e})"), Outc::Sink(e) => format!("(KSink {e})") } }

#[derive(Clone, Copy, Debug)]
enum Mode { TryEach, Stepwise, ForEach, IterMap, IterFilterMap }
struct Cons { mode: Mode, fault: Option<(usize, u64)>, counter: Rc<Cell<usize>> }
impl Cons {
    fn run<S>(self, mut s: S) -> Obs where S: Source<Error = MyErr>, for<'x> S: Source<Item<'x> = u64> {
        let mut trace: Vec<u64> = vec![];
        let fault = self.fault;
        let res: Result<(), StreamError<MyErr, MyErr>> = match self.mode {
            Mode::TryEach => s.try_for_each_item(|x| { trace.push(x); match fault { Some((j, e)) if trace.len() == j + 1 => Err(MyErr(e)), _ => Ok(()) } }),
            Mode::Stepwise => loop {
                match s.try_for_some_item(|x| { trace.push(x); match fault { Some((j, e)) if trace.len() == j + 1 => Err(MyErr(e)), _ => Ok(()) } }) {
                    Ok(true) => continue, Ok(false) => break Ok(()), Err(e) => break Err(e),
                }
            },
            Mode::ForEach => s.for_each_item(|x| trace.push(x)).map_err(StreamError::SourceError),
            Mode::IterMap => { let drained: Vec<Result<u64, u64>> = s.map_items(|x: u64| x).into_iter().map(|r| r.map_err(|e| e.0)).collect(); return Obs { trace, out: Outc::Done, pulled: self.counter.get(), drained } }
            Mode::IterFilterMap => { let drained: Vec<Result<u64, u64>> = s.filter_map_items(|x: u64| Some(x)).into_iter().map(|r| r.map_err(|e| e.0)).collect(); return Obs { trace, out: Outc::Done, pulled: self.counter.get(), drained } }
        };
        let out = match res { Ok(()) => Outc::Done, Err(StreamError::SourceError(e)) => Outc::Source(e.0), Err(StreamError::SinkError(e)) => Outc::Sink(e.0) };
        // Done is only observed after the source returned None once more; normalise pulled to elements, not next() calls
        Obs { trace, out, pulled: self.counter.get(), drained: vec![] }
    }
}
fn lvl0<S>(s: S, chain: &[AD], c: Cons) -> Obs where S: Source<Error = MyErr>, for<'x> S: Source<Item<'x> = u64> { assert!(chain.is_empty()); c.run(s) }
macro_rules! level { ($name:ident, $next:ident) => {
    fn $name<S>(s: S, chain: &[AD], c: Cons) -> Obs where S: Source<Error = MyErr>, for<'x> S: Source<Item<'x> = u64> {
        match chain.split_first() {
            None => c.run(s),
            Some((a, rest)) => { let a = *a; match kind(a) {
                K::F => $next(s.filter_items(move |x: &u64| filt(a, *x)), rest, c),
                K::M => $next(s.map_items(move |x: u64| mapf(a, x)), rest, c),
                K::FM => $next(s.filter_map_items(move |x: u64| fmf(a, x)), rest, c),
            } }
        }
    }
}; }
level!(lvl1, lvl0); level!(lvl2, lvl1); level!(lvl3, lvl2);

type Steps = Vec<(Vec<u64>, Option<u64>)>;
fn of_results(src: &[Result<u64, u64>]) -> Steps { src.iter().map(|r| match r { Ok(x) => (vec![*x], None), Err(e) => (vec![], Some(*e)) }).collect() }
fn oracle(src: &Steps, chain: &[AD], fault: Option<(usize, u64)>) -> Obs {
    let mut trace = vec![];
    for (i, (items, oe)) in src.iter().enumerate() {
        for x in items { if let Some(y) = through(chain, *x) { trace.push(y); if let Some((j, e)) = fault { if trace.len() == j + 1 { return Obs { trace, out: Outc::Sink(e), pulled: i + 1, drained: vec![] } } } } }
        if let Some(e) = oe { return Obs { trace, out: Outc::Source(*e), pulled: i + 1, drained: vec![] } }
    }
    Obs { trace, out: Outc::Done, pulled: src.len(), drained: vec![] }
}
fn oracle_drain(src: &Steps, chain: &[AD]) -> Vec<Result<u64, u64>> {
    let mut out = vec![];
    for (items, oe) in src { for x in items { if let Some(y) = through(chain, *x) { out.push(Ok(y)) } } if let Some(e) = oe { out.push(Err(*e)) } }
    out
}
fn c_steps(src: &Steps) -> String { coq_list(src.iter().map(|(items, oe)| format!("({}, {})", coq_list(items.iter().map(|x| x.to_string())), match oe { Some(e) => format!("Some {e}"), None => "None".into() }))) }

// ---------- triple flavour ----------
fn tr(n: u64) -> [ST; 3] { [iri("http://e/s"), iri("http://e/p"), lit_dt(&n.to_string(), &format!("{XSD}integer"))] }
fn num(t: &[ST; 3]) -> u64 { t[2].lexical_form().unwrap().parse().unwrap() }
fn tr_through<T: Triple>(t: T) -> u64 { t.o().lexical_form().unwrap().parse().unwrap() }

/// a writer that accepts `budget` bytes and then reports an error; it records every call made AFTER the first error
/// (a consumer that has been told about a sink error must not touch the sink again)
struct FailingWriter { budget: usize, written: Vec<u8>, failed: bool, calls_after_failure: usize }
impl std::io::Write for FailingWriter {
    fn write(&mut self, b: &[u8]) -> std::io::Result<usize> {
        if self.failed { self.calls_after_failure += 1; }
        if self.failed || self.written.len() + b.len() > self.budget { self.failed = true; return Err(std::io::Error::new(std::io::ErrorKind::Other, "disk full")); }
        self.written.extend_from_slice(b); Ok(b.len())
    }
    fn flush(&mut self) -> std::io::Result<()> { if self.failed { self.calls_after_failure += 1; } Ok(()) }
}
/// a store that can fail while it is enumerated, and that relies on the DEFAULT methods of the Graph trait
/// (triples_matching, contains ...): its records are results
struct FallibleGraph(Vec<Result<[ST; 3], MyErr>>);
impl Graph for FallibleGraph {
    type Triple<'x> = [ST; 3];
    type Error = MyErr;
    fn triples(&self) -> impl Iterator<Item = Result<Self::Triple<'_>, Self::Error>> + '_ { self.0.iter().cloned() }
}

fn main() {
    let a = parse_args();
    let mut sum = Summary::default();
    sum.rule = "case = (source items with at most one injected Err, adapter chain of depth 0..3 over {filter,map,filter_map}, consumer {try_for_each, step-wise try_for_some, for_each}, optional sink fault position); \
plus triple-level cases: sources {iterator, N-Triples parser with a syntax error at statement k, store}, sinks {insert_all into a capacity-limited store, remove_all, collect, N-Triples serializer on a failing writer}; \
plus concrete-end cases: generated N-Triples / N-Quads documents (valid statements with varied spacing and escapes, blank / comment / CR lines, malformed lines at generated positions, last line with or without LF) read by sophia_turtle::parser::{nt,nq} through a chunked Read probe, adapter chains of depth 0..3 over statements, consumers {recording closure failing at item j, insert_all into set datasets, Nt/Nq serializer over a byte-budget / all-or-nothing / Ok(0) io::Write probe}, and the parser pulled on after the failure to observe where it stopped; \
non-trivial = a fault is actually hit after at least one item was consumed, or a filter dropped something; distinct = distinct printed case".into();
    let base = Rng::new(a.seed);
    let mut cases: Vec<(usize, String)> = vec![];
    let mut seen = std::collections::HashSet::new();
    let all_ads = [AD::FilterEven, AD::FilterLt(5), AD::FilterNone, AD::FilterAll, AD::MapSucc, AD::MapDouble, AD::MapConst(4), AD::FilterMapHalf, AD::FilterMapLtSucc(6)];
    let range: Vec<usize> = match a.only { Some(i) => vec![i], None => (0..a.n).collect() };
    for idx in range {
        let mut r = base.fork(idx as u64);
        let flavour = idx % 6; // 0,1,2: generic pipeline; 3: triple-level; 4,5: concrete ends (documents -> Rio parser -> quad adapters -> closure / insert_all / serializer on a probe writer)
        if flavour >= 4 { concrete::case(idx, &mut r, flavour, a.only.is_some(), &mut sum, &mut cases, &mut seen); continue; }
        if flavour != 3 {
            let batch = r.chance(1, 2);
            let len = r.below(8);
            let steps: Steps = if batch {
                (0..r.below(6)).map(|_| ((0..r.below(4)).map(|_| r.below(10) as u64).collect(), if r.chance(1, 5) { Some(100 + r.below(50) as u64) } else { None })).collect()
            } else {
                let mut src: Vec<Result<u64, u64>> = (0..len).map(|_| Ok(r.below(10) as u64)).collect();
                if r.chance(1, 2) { let k = r.below(len + 1); src.insert(k, Err(100 + r.below(50) as u64)); }
                of_results(&src)
            };
            let depth = r.below(4);
            let chain: Vec<AD> = (0..depth).map(|_| *r.pick(&all_ads)).collect();
            let mode = *r.pick(&[Mode::TryEach, Mode::Stepwise, Mode::ForEach, Mode::IterMap, Mode::IterFilterMap]);
            let fault = if !matches!(mode, Mode::TryEach | Mode::Stepwise) || r.chance(1, 3) { None } else { Some((r.below(5), 200 + r.below(50) as u64)) };
            let counter = Rc::new(Cell::new(0));
            let cons = Cons { mode, fault, counter: counter.clone() };
            let obs0 = if batch { lvl3(BatchSource { steps: steps.clone().into(), n: counter.clone() }, &chain, cons) } else {
                let flat: Vec<Result<u64, MyErr>> = steps.iter().map(|(i, e)| match e { Some(e) => Err(MyErr(*e)), None => Ok(i[0]) }).collect();
                lvl3(Counting { it: flat.into_iter(), n: counter.clone() }, &chain, cons) };
            let text = format!("source={} steps={steps:?} chain={chain:?} mode={mode:?} sink_fault={fault:?}", if batch { "batching" } else { "iterator" });
            if matches!(mode, Mode::IterMap | Mode::IterFilterMap) {
                let exp = oracle_drain(&steps, &chain);
                if a.only.is_some() { println!("CASE {idx}: {text}\nIMPL   {:?}\nORACLE {exp:?}", obs0.drained); }
                if obs0.drained != exp { sum.oracle_failures.push((idx.to_string(), format!("into_iter {text}: implementation yields {:?}, expected {exp:?}", obs0.drained))); }
                let nontrivial = exp.iter().any(|x| x.is_err()) && exp.iter().any(|x| x.is_ok());
                if seen.insert(text.clone()) && nontrivial { sum.distinct_nontrivial += 1; }
                sum.bump(&format!("mode:{mode:?}")); sum.bump(if batch { "source:batching" } else { "source:iterator" });
                let mut mchain: Vec<String> = chain.iter().map(c_ad).collect(); mchain.push("DFilterAll".into());
                cases.push((idx, format!("drain_ok {} {} {}", c_steps(&steps), coq_list(mchain), coq_list(obs0.drained.iter().map(|x| match x { Ok(v) => format!("inl {v}"), Err(e) => format!("inr {e}") })))));
                sum.evaluations += 1;
                continue;
            }
            let exp = oracle(&steps, &chain, fault);
            // an iterator is asked once more than it has elements when the stream ends normally
            let obs = Obs { pulled: if !batch && obs0.out == Outc::Done { obs0.pulled - 1 } else { obs0.pulled }, ..obs0 };
            if a.only.is_some() { println!("CASE {idx}: {text}\nIMPL   {obs:?}\nORACLE {exp:?}"); }
            if obs != exp { sum.oracle_failures.push((idx.to_string(), format!("pipeline {text}: implementation {obs:?}, expected {exp:?}"))); }
            let n_ok: usize = steps.iter().map(|s| s.0.len()).sum();
            let nontrivial = (exp.out != Outc::Done && !exp.trace.is_empty()) || exp.trace.len() < n_ok;
            if seen.insert(text.clone()) && nontrivial { sum.distinct_nontrivial += 1; }
            sum.bump(&format!("depth:{depth}")); sum.bump(&format!("mode:{mode:?}")); sum.bump(if batch { "source:batching" } else { "source:iterator" });
            sum.bump(&format!("outcome:{}", match exp.out { Outc::Done => "done", Outc::Source(_) => "source-error", Outc::Sink(_) => "sink-error" }));
            if sum.samples.len() < 3 && nontrivial { sum.samples.push(format!("case {idx}: {text} => {obs:?}")); }
            let c_fault = match fault { None => "None".to_string(), Some((j, e)) => format!("(Some ({j}%nat, {e}))") };
            cases.push((idx, format!("run_rec_ok {} {} {c_fault} {} {} {}", c_steps(&steps), coq_list(chain.iter().map(c_ad)), coq_list(obs.trace.iter().map(|x| x.to_string())), c_outc(&obs.out), obs.pulled)));
        } else {
            // triple-level: items are triples (s, p, "n"^^xsd:integer)
            let len = r.below(7);
            let items: Vec<u64> = (0..len).map(|_| r.below(9) as u64).collect();
            let k_fault = if r.chance(1, 2) { Some(r.below(len + 1)) } else { None };
            let chain: Vec<AD> = match r.below(4) { 0 => vec![], 1 => vec![AD::FilterEven], 2 => vec![AD::MapSucc], _ => vec![AD::FilterLt(5), AD::MapDouble] };
            let source_kind = r.below(5); // 4 = a fallible store enumerated through the DEFAULT Graph::triples_matching; 0 iterator, 1 N-Triples parser, 2 store (no source fault possible), 3 Turtle parser with ONE statement holding all items (object list: one parser step yields several triples)
            let sink_kind = r.below(6); // 0 insert_all capped, 1 remove_all, 2 collect into capped store, 3 serializer with failing writer, 4 closure failing on its j-th item, 5 remove_all on a DATASET (quads in the default graph)
            let init: Vec<u64> = (0..r.below(4)).map(|_| r.below(9) as u64).collect();
            let k_fault = if source_kind == 2 { None } else { k_fault };
            let src_model: Vec<Result<u64, u64>> = { let mut v: Vec<Result<u64, u64>> = items.iter().map(|x| Ok(*x)).collect(); if let Some(k) = k_fault { v.insert(k, Err(7)); if source_kind == 1 || source_kind == 3 { v.truncate(k + 1) } } v };
            // store sources enumerate a set: dedupe + we canonicalise by sorting the model source too
            let store_items: Vec<u64> = { let mut v = items.clone(); v.sort(); v.dedup(); v };
            let src_model = if source_kind == 2 { store_items.iter().map(|x| Ok(*x)).collect() } else { src_model };
            macro_rules! with_source { ($s:ident => $body:expr) => { match source_kind {
                0 => { let v: Vec<Result<[ST; 3], MyErr>> = src_model.iter().map(|x| x.map(tr).map_err(MyErr)).collect(); let $s = v.into_iter(); $body }
                1 => { let mut text = String::new(); for x in &src_model { match x { Ok(n) => text.push_str(&format!("<http://e/s> <http://e/p> \"{n}\"^^<{XSD}integer> .\n")), Err(_) => text.push_str("<http://e/s> <http://e/p> oops .\n") } }
                       let $s = sophia_turtle::parser::nt::parse_str(&text).map_triples(|t| [t.s().into_term::<ST>(), t.p().into_term(), t.o().into_term()]).map_items(|x| x).into_iter().map(|r| r.map_err(|_| MyErr(7))); $body }
                4 => { let fg = FallibleGraph(src_model.iter().map(|x| x.map(tr).map_err(MyErr)).collect());
                       let v: Vec<Result<[ST; 3], MyErr>> = if r.chance(1, 2) { fg.triples_matching(Any, Any, Any).collect() } else { fg.triples_matching(Any, [iri("http://e/p")], |t: SimpleTerm| t.is_literal()).collect() };
                       let $s = v.into_iter(); $body }
                3 => { let oks: Vec<u64> = src_model.iter().filter_map(|x| x.ok()).collect(); let mut text = String::from("@prefix e: <http://e/> .\n");
                       if !oks.is_empty() { text.push_str(&format!("e:s e:p {} .\n", oks.iter().map(|n| format!("\"{n}\"^^<{XSD}integer>")).collect::<Vec<_>>().join(" , "))); }
                       if src_model.iter().any(|x| x.is_err()) { text.push_str("e:s e:p oops oops .\n"); }
                       let $s = sophia_turtle::parser::turtle::parse_str(&text).map_triples(|t| [t.s().into_term::<ST>(), t.p().into_term(), t.o().into_term()]).map_items(|x| x).into_iter().map(|r| r.map_err(|_| MyErr(7))); $body }
                _ => { let mut g = FastGraph::new(); for n in &store_items { g.insert_triple(tr(*n)).unwrap(); }
                       let mut v: Vec<[ST; 3]> = g.triples().map(|t| { let t = t.unwrap(); [t.s().into_term(), t.p().into_term(), t.o().into_term()] }).collect(); v.sort_by_key(num);
                       let $s = v.into_iter().map(Ok::<_, MyErr>); $body }
            } }; }
            macro_rules! chained { ($s:expr) => {{ let c = chain.clone(); let c2 = chain.clone();
                $s.filter_triples(move |t: &[ST; 3]| through(&c, num(t)).is_some()).map_triples(move |t: [ST; 3]| tr(through(&c2, num(&t)).unwrap())) }}; }
            let cap: u8 = 2 + 3; // s, p + 3 distinct objects
            type Capped = GenericFastGraph<SimpleTermIndex<SmallIdx<5>>>;
            type CappedLight = GenericLightGraph<SimpleTermIndex<SmallIdx<5>>>;
            let text = format!("triple-level source={} sink={} items={items:?} source_fault_at={k_fault:?} chain={chain:?} init={init:?}", ["iterator", "nt-parser", "store", "turtle-parser(object list)", "fallible store through the default triples_matching"][source_kind], ["insert_all(capped)", "remove_all", "collect(capped)", "nt-serializer(failing writer)", "closure failing at item j", "dataset remove_all"][sink_kind]);
            let (content, count, out): (Vec<u64>, u64, Outc) = match sink_kind {
                0 | 2 => {
                    let mut g = Capped::new();
                    let init_eff: Vec<u64> = if sink_kind == 0 { init.iter().take(2).cloned().collect() } else { vec![] };
                    for n in &init_eff { g.insert_triple(tr(*n)).unwrap(); }
                    let before = g.triples().count();
                    let res = if sink_kind == 0 { with_source!(s => g.insert_all(chained!(s))) } else {
                        let r2: Result<CappedLight, _> = with_source!(s => chained!(s).collect_triples());
                        match r2 { Ok(g2) => { let n = g2.triples().count(); for t in g2.triples() { g.insert_triple(t.unwrap()).unwrap(); } Ok(n) } Err(e) => Err(match e { StreamError::SourceError(e) => StreamError::SourceError(e), StreamError::SinkError(e) => StreamError::SinkError(e) }) }
                    };
                    let content: Vec<u64> = g.triples().map(|t| tr_through(t.unwrap())).collect();
                    match res { Ok(n) => (content, n as u64, Outc::Done), Err(StreamError::SourceError(e)) => (content.clone(), (content.len() - before) as u64, Outc::Source(e.0)), Err(StreamError::SinkError(_)) => (content.clone(), (content.len() - before) as u64, Outc::Sink(999)) }
                }
                1 => {
                    let mut g = FastGraph::new();
                    for n in &init { g.insert_triple(tr(*n)).unwrap(); }
                    let before = g.triples().count();
                    let res = with_source!(s => g.remove_all(chained!(s)));
                    let content: Vec<u64> = g.triples().map(|t| tr_through(t.unwrap())).collect();
                    match res { Ok(n) => (content, n as u64, Outc::Done), Err(StreamError::SourceError(e)) => (content.clone(), (before - content.len()) as u64, Outc::Source(e.0)), Err(StreamError::SinkError(_)) => (content, 0, Outc::Sink(998)) }
                }
                4 => {
                    // a consumer closure that fails on its j-th item: it must see exactly the items up to and including that one
                    let j = r.below(5);
                    let produced: Vec<u64> = src_model.iter().take_while(|x| x.is_ok()).filter_map(|x| through(&chain, x.unwrap())).collect();
                    let step_wise = r.chance(1, 2);
                    let mut seen_items: Vec<u64> = vec![];
                    // parser sources: the consumer is driven by the parser adapter ITSELF (rio/src/parser.rs), without any
                    // intermediate iterator, so that a consumer failing in the middle of a parser step is exercised
                    let direct_parser = (source_kind == 1 || source_kind == 3) && r.chance(2, 3);
                    let produced: Vec<u64> = if direct_parser { src_model.iter().take_while(|x| x.is_ok()).map(|x| x.unwrap()).collect() } else { produced };
                    let res: Result<(), StreamError<MyErr, MyErr>> = if direct_parser {
                        let oks: Vec<u64> = src_model.iter().filter_map(|x| x.ok()).collect(); let bad = src_model.iter().any(|x| x.is_err());
                        let mut f = |n: u64| -> Result<(), MyErr> { seen_items.push(n); if seen_items.len() - 1 == j { Err(MyErr(5)) } else { Ok(()) } };
                        macro_rules! drive { ($p:expr) => {{ let mut src = $p; let r0 = if step_wise { loop { match src.try_for_some_triple(|t| f(tr_through(t))) { Ok(true) => {} Ok(false) => break Ok(()), Err(e) => break Err(e) } } } else { src.try_for_each_triple(|t| f(tr_through(t))) };
                            r0.map_err(|e| match e { StreamError::SourceError(_) => StreamError::SourceError(MyErr(7)), StreamError::SinkError(e) => StreamError::SinkError(e) }) }}; }
                        if source_kind == 1 {
                            let mut text = String::new(); for n in &oks { text.push_str(&format!("<http://e/s> <http://e/p> \"{n}\"^^<{XSD}integer> .\n")); } if bad { text.push_str("<http://e/s> <http://e/p> oops .\n"); }
                            drive!(sophia_turtle::parser::nt::parse_str(&text))
                        } else {
                            let mut text = String::from("@prefix e: <http://e/> .\n");
                            if !oks.is_empty() { text.push_str(&format!("e:s e:p {} .\n", oks.iter().map(|n| format!("\"{n}\"^^<{XSD}integer>")).collect::<Vec<_>>().join(" , "))); }
                            if bad { text.push_str("e:s e:p oops oops .\n"); }
                            drive!(sophia_turtle::parser::turtle::parse_str(&text))
                        }
                    } else { with_source!(s => {
                        let mut src = chained!(s);
                        let mut f = |t: [ST; 3]| -> Result<(), MyErr> { seen_items.push(num(&t)); if seen_items.len() - 1 == j { Err(MyErr(5)) } else { Ok(()) } };
                        if step_wise { loop { match src.try_for_some_triple(&mut f) { Ok(true) => {} Ok(false) => break Ok(()), Err(e) => break Err(e) } } } else { src.try_for_each_triple(&mut f) }
                    }) };
                    let out = match res { Ok(()) => Outc::Done, Err(StreamError::SourceError(e)) => Outc::Source(e.0), Err(StreamError::SinkError(e)) => Outc::Sink(e.0) };
                    let exp_seen: Vec<u64> = produced.iter().take(j + 1).cloned().collect();
                    let exp_out = if produced.len() > j { Outc::Sink(5) } else if let Some(Err(e)) = src_model.iter().find(|x| x.is_err()) { Outc::Source(*e) } else { Outc::Done };
                    if seen_items != exp_seen || out != exp_out { sum.oracle_failures.push((idx.to_string(), format!("{text}{} closure fails at its item #{j} ({}): the closure saw {seen_items:?}, outcome {out:?}; expected {exp_seen:?} {exp_out:?}", if direct_parser { " [consumer driven by the parser adapter directly, no adapter chain]" } else { "" }, if step_wise { "driven step-wise" } else { "whole stream" }))); }
                    sum.bump("sink:closure"); sum.bump(&format!("source:{}", ["iterator", "nt-parser", "store", "turtle-object-list", "fallible-store-default-matching"][source_kind])); sum.evaluations += 1;
                    if seen.insert(format!("{text} j={j}")) && exp_out != Outc::Done && !exp_seen.is_empty() { sum.distinct_nontrivial += 1; }
                    continue;
                }
                5 => {
                    // MutableDataset::remove_all (a default method of the trait) over quads in the default graph, on three dataset types
                    use sophia_api::source::QuadSource as _;
                    let which = r.below(3);
                    fn go<D: MutableDataset + Dataset + Default>(init: &[u64], src: impl TripleSource<Error = MyErr>) -> (Vec<u64>, Result<usize, StreamError<MyErr, MyErr>>) where D::MutationError: std::fmt::Debug {
                        let mut d = D::default(); for n in init { d.insert_quad((tr(*n), None::<ST>)).ok().unwrap(); }
                        let res = d.remove_all(src.to_quads()).map_err(|e| match e { StreamError::SourceError(e) => StreamError::SourceError(e), StreamError::SinkError(_) => StreamError::SinkError(MyErr(996)) });
                        let content: Vec<u64> = d.quads().map(|q| { let q = q.ok().unwrap(); q.o().lexical_form().unwrap().parse().unwrap() }).collect();
                        (content, res)
                    }
                    let (content, res) = match which {
                        0 => with_source!(s => go::<sophia_inmem::dataset::FastDataset>(&init, chained!(s))),
                        1 => with_source!(s => go::<Vec<sophia_api::quad::Spog<ST>>>(&init, chained!(s))),
                        _ => with_source!(s => go::<std::collections::BTreeSet<sophia_api::quad::Spog<ST>>>(&init, chained!(s))),
                    };
                    let mut set: Vec<u64> = vec![]; for n in &init { if !set.contains(n) { set.push(*n) } }
                    let mut cnt = 0usize; let mut exp_out = Outc::Done;
                    for x in &src_model { match x { Err(e) => { exp_out = Outc::Source(*e); break } Ok(v) => if let Some(y) = through(&chain, *v) { if set.contains(&y) { set.retain(|z| *z != y); cnt += 1 } } } }
                    let out = match &res { Ok(_) => Outc::Done, Err(StreamError::SourceError(e)) => Outc::Source(e.0), Err(StreamError::SinkError(_)) => Outc::Sink(996) };
                    // Vec is not a SetDataset: it keeps duplicates and its removal count is documented as not significant
                    let mut c_sorted = content.clone(); c_sorted.sort(); if which == 1 { c_sorted.dedup(); } set.sort();
                    let count_ok = match &res { Ok(n) => which == 1 || *n == cnt, Err(_) => true };
                    if c_sorted != set || out != exp_out || !count_ok { sum.oracle_failures.push((idx.to_string(), format!("{text} (dataset type #{which}): implementation content={c_sorted:?} result={res:?}; expected content={set:?} count={cnt} outcome={exp_out:?}"))); }
                    sum.bump("sink:dataset-remove_all"); sum.bump(&format!("source:{}", ["iterator", "nt-parser", "store", "turtle-object-list", "fallible-store-default-matching"][source_kind])); sum.evaluations += 1;
                    if seen.insert(format!("{text} d={which}")) && (exp_out != Outc::Done || cnt > 0) { sum.distinct_nontrivial += 1; }
                    continue;
                }
                _ => {
                    // each statement is exactly one line; a writer that accepts `budget` whole lines then fails
                    let line_len = |n: u64| format!("<http://e/s> <http://e/p> \"{n}\"^^<{XSD}integer>.\n").len();
                    let j = r.below(4);
                    let produced: Vec<u64> = src_model.iter().take_while(|x| x.is_ok()).filter_map(|x| through(&chain, x.unwrap())).collect();
                    let budget: usize = produced.iter().take(j).map(|n| line_len(*n)).sum::<usize>() + 3;
                    let mut fw = FailingWriter { budget, written: vec![], failed: false, calls_after_failure: 0 };
                    let res = { let mut ser = NtSerializer::new(&mut fw); with_source!(s => ser.serialize_triples(chained!(s)).map(|_| ())) };
                    if fw.calls_after_failure > 0 { sum.oracle_failures.push((idx.to_string(), format!("{text} writer budget {j} lines: the serializer called the writer {} more time(s) after the writer had reported an error", fw.calls_after_failure))); }
                    let text_out = String::from_utf8(fw.written).unwrap();
                    let lines: Vec<u64> = text_out.split_inclusive('\n').filter(|l| l.ends_with(">.\n")).map(|l| l.split('"').nth(1).unwrap().parse().unwrap()).collect();
                    let out = match res { Ok(()) => Outc::Done, Err(StreamError::SourceError(e)) => Outc::Source(e.0), Err(StreamError::SinkError(_)) => Outc::Sink(997) };
                    // oracle for this sink: complete lines written = first min(j, produced) items, error iff produced.len() > j
                    let exp_out = if produced.len() > j { Outc::Sink(997) } else if let Some(Err(e)) = src_model.iter().find(|x| x.is_err()) { Outc::Source(*e) } else { Outc::Done };
                    let exp_lines: Vec<u64> = produced.iter().take(j).cloned().collect();
                    if lines != exp_lines || out != exp_out { sum.oracle_failures.push((idx.to_string(), format!("{text} writer budget {j} lines: wrote complete lines {lines:?} outcome {out:?}, expected {exp_lines:?} {exp_out:?}"))); }
                    sum.bump("sink:serializer"); sum.evaluations += 1;
                    if seen.insert(text.clone()) && !lines.is_empty() && out != Outc::Done { sum.distinct_nontrivial += 1; }
                    let _ = cap;
                    continue;
                }
            };
            // oracle (naive) for store sinks
            let init_eff: Vec<u64> = match sink_kind { 0 => init.iter().take(2).cloned().collect(), 1 => init.clone(), _ => vec![] };
            let mut set: Vec<u64> = vec![]; for n in &init_eff { if !set.contains(n) { set.push(*n) } }
            let mut cnt = 0u64; let mut exp_out = Outc::Done;
            let mut interned: Vec<u64> = set.clone();
            for x in &src_model { match x {
                Err(e) => { exp_out = Outc::Source(*e); break }
                Ok(v) => if let Some(y) = through(&chain, *v) {
                    if sink_kind == 1 { if set.contains(&y) { set.retain(|z| *z != y); cnt += 1 } }
                    else if !set.contains(&y) { if !interned.contains(&y) && interned.len() >= 3 - if sink_kind == 2 { 0 } else { 0 } { exp_out = Outc::Sink(999); break } if !interned.contains(&y) { interned.push(y) } set.push(y); cnt += 1 }
                }
            } }
            // a failed collect returns only the error: no content is observable
            let collect_failed = sink_kind == 2 && exp_out != Outc::Done;
            if collect_failed { set.clear(); cnt = 0; }
            let mut c_sorted = content.clone(); c_sorted.sort(); let mut s_sorted = set.clone(); s_sorted.sort();
            if a.only.is_some() { println!("CASE {idx}: {text}\nIMPL content={c_sorted:?} count={count} out={out:?}\nORACLE content={s_sorted:?} count={cnt} out={exp_out:?}"); }
            if c_sorted != s_sorted || count != cnt || out != exp_out { sum.oracle_failures.push((idx.to_string(), format!("{text}: implementation content={c_sorted:?} count={count} outcome={out:?}; expected content={s_sorted:?} count={cnt} outcome={exp_out:?}"))); }
            if seen.insert(text.clone()) && (exp_out != Outc::Done || cnt > 0) { sum.distinct_nontrivial += 1; }
            sum.bump(&format!("source:{}", ["iterator", "nt-parser", "store", "turtle-object-list", "fallible-store-default-matching"][source_kind])); sum.bump(&format!("sink:{}", ["insert_all", "remove_all", "collect", "serializer", "closure", "dataset-remove_all"][sink_kind]));
            if sum.samples.len() < 5 && exp_out != Outc::Done { sum.samples.push(format!("case {idx}: {text} => content={c_sorted:?} count={count} {out:?}")); }
            let c_src = format!("(of_results {})", coq_list(src_model.iter().map(|x| match x { Ok(v) => format!("inl {v}"), Err(e) => format!("inr {e}") })));
            let c_chain = coq_list(chain.iter().map(c_ad));
            let c_init = coq_list(init_eff.iter().map(|x| x.to_string()));
            let c_content = coq_list(content.iter().map(|x| x.to_string()));
            if collect_failed { sum.evaluations += 1; continue; }
            match sink_kind {
                1 => cases.push((idx, format!("run_remove_ok {c_init} {c_src} {c_chain} {c_content} {count} {}", c_outc(&out)))),
                _ => cases.push((idx, format!("run_insert_ok {c_init} {c_src} {c_chain} (Some 3%nat) {c_content} {count} {}", c_outc(&out)))),
            }
        }
        sum.evaluations += 1;
    }
    if a.only.is_none() {
        sum.shards = write_shards(&a.out, "From Sophia.Common Require Import Prelude Term.\nFrom Sophia.C03 Require Import Model.\nFrom Sophia.C15 Require Import Model Generic ParserSource SerializerSink EndToEnd.", &cases, a.shards);
        sum.extra.push(("coq_cases".into(), cases.len().to_string()));
        std::fs::write(format!("{}/summary.json", a.out), sum.to_json()).unwrap();
    }
    println!("c15: {} cases, {} distinct non-trivial, {} oracle failures", sum.evaluations, sum.distinct_nontrivial, sum.oracle_failures.len());
}


/// The concrete ends of a stream: N-Triples / N-Quads documents through the real Rio-based parsers, adapter chains
/// over statements, and consumers including the real serializers over a probe writer.
mod concrete {
    use super::{K, c_outc as _};
    use rio_api::parser::ParseError as _;
    use rio_turtle::TurtleError;
    use sophia_api::prelude::*;
    use sophia_api::quad::Spog;
    use sophia_api::source::{IntoSource, QuadSource, Source, StreamError, StreamResult, TripleSource};
    use sophia_turtle::serializer::nq::NqSerializer;
    use sophia_turtle::serializer::nt::NtSerializer;
    use std::cell::Cell;
    use std::io::{self, Read};
    use std::rc::Rc;
    use verif_harness::*;

    pub type Q = Spog<ST>;
    fn own<T: Quad>(q: T) -> Q { ([q.s().into_term(), q.p().into_term(), q.o().into_term()], q.g().map(|g| g.into_term())) }
    fn own3<T: Triple>(t: T) -> Q { ([t.s().into_term(), t.p().into_term(), t.o().into_term()], None) }

    // ---------- adapters over statements ----------
    #[derive(Clone, Debug, PartialEq)]
    pub enum QA { FilterDefaultGraph, FilterNamedGraph, FilterObjLiteral, FilterPred(&'static str), FilterNone, FilterAll, MapDropGraph, MapSetGraph(&'static str), MapSetObj(&'static str), FmGraphFromObj, FmUnquote }
    fn qkind(a: &QA) -> K { match a { QA::FilterDefaultGraph | QA::FilterNamedGraph | QA::FilterObjLiteral | QA::FilterPred(_) | QA::FilterNone | QA::FilterAll => K::F, QA::MapDropGraph | QA::MapSetGraph(_) | QA::MapSetObj(_) => K::M, _ => K::FM } }
    fn qfilt(a: &QA, q: &Q) -> bool { match a {
        QA::FilterDefaultGraph => q.1.is_none(), QA::FilterNamedGraph => q.1.is_some(), QA::FilterObjLiteral => q.0[2].is_literal(),
        QA::FilterPred(i) => q.0[1].is_iri() && q.0[1].iri().unwrap().as_str() == *i, QA::FilterNone => false, QA::FilterAll => true, _ => unreachable!() } }
    fn qmapf(a: &QA, q: Q) -> Q { let ([s, p, o], g) = q; match a {
        QA::MapDropGraph => ([s, p, o], None), QA::MapSetGraph(i) => ([s, p, o], Some(iri(i))), QA::MapSetObj(l) => ([s, p, lit_dt(l, &format!("{XSD}string"))], g), _ => unreachable!() } }
    fn qfmf(a: &QA, q: Q) -> Option<Q> { let ([s, p, o], g) = q; match a {
        QA::FmGraphFromObj => if o.is_iri() { let gn = o.clone(); Some(([s, p, o], Some(gn))) } else { None },
        QA::FmUnquote => match s { ST::Triple(b) => { let [s2, p2, o2] = *b; Some(([s2, p2, o2], g)) } _ => None },
        _ => unreachable!() } }
    pub fn qthrough(chain: &[QA], q: Q) -> Option<Q> { let mut q = q; for a in chain { match qkind(a) { K::F => if !qfilt(a, &q) { return None }, K::M => q = qmapf(a, q), K::FM => q = qfmf(a, q)? } } Some(q) }
    fn c_qa(a: &QA) -> String { match a {
        QA::FilterDefaultGraph => "QFilterDefaultGraph".into(), QA::FilterNamedGraph => "QFilterNamedGraph".into(), QA::FilterObjLiteral => "QFilterObjLiteral".into(),
        QA::FilterPred(i) => format!("(QFilterPred {})", coq_str(i)), QA::FilterNone => "QFilterNone".into(), QA::FilterAll => "QFilterAll".into(),
        QA::MapDropGraph => "QMapDropGraph".into(), QA::MapSetGraph(i) => format!("(QMapSetGraph {})", coq_str(i)), QA::MapSetObj(l) => format!("(QMapSetObj {})", coq_str(l)),
        QA::FmGraphFromObj => "QFilterMapGraphFromObj".into(), QA::FmUnquote => "QFilterMapUnquote".into() } }
    fn c_quad(q: &Q) -> String { format!("({}, {}, {}, {})", coq_term(&q.0[0]), coq_term(&q.0[1]), coq_term(&q.0[2]), coq_opt(q.1.as_ref().map(|g| coq_term(g)))) }

    // ---------- probes ----------
    /// hands the document over in pieces of at most `chunk` bytes and counts the calls
    struct ReadProbe { data: Vec<u8>, pos: usize, chunk: usize, reads: Rc<Cell<usize>> }
    impl Read for ReadProbe {
        fn read(&mut self, buf: &mut [u8]) -> io::Result<usize> {
            self.reads.set(self.reads.get() + 1);
            let n = self.chunk.min(buf.len()).min(self.data.len() - self.pos);
            buf[..n].copy_from_slice(&self.data[self.pos..self.pos + n]); self.pos += n; Ok(n)
        }
    }
    #[derive(Clone, Copy, Debug, PartialEq)]
    pub enum WD { Budget { budget: usize, cap: usize, code: u64 }, Atomic { budget: usize, code: u64 }, Zero { budget: usize, cap: usize } }
    fn c_wd(w: &WD) -> String { match w { WD::Budget { budget, cap, code } => format!("(WBudget {budget}%nat {cap}%nat {code})"), WD::Atomic { budget, code } => format!("(WAtomic {budget}%nat {code})"), WD::Zero { budget, cap } => format!("(WZero {budget}%nat {cap}%nat)") } }
    /// the io::Write probe: records the accepted bytes, every call, and every call made after a call had failed
    pub struct WriteProbe { wd: WD, pub acc: Vec<u8>, pub calls: usize, failed: bool, pub after: usize }
    impl WriteProbe { fn new(wd: WD) -> Self { WriteProbe { wd, acc: vec![], calls: 0, failed: false, after: 0 } } }
    impl io::Write for WriteProbe {
        fn write(&mut self, buf: &[u8]) -> io::Result<usize> {
            self.calls += 1; if self.failed { self.after += 1; }
            match self.wd {
                WD::Budget { budget, cap, code } => if self.acc.len() < budget { let n = (budget - self.acc.len()).min(cap).min(buf.len()); self.acc.extend_from_slice(&buf[..n]); Ok(n) } else { self.failed = true; Err(io::Error::new(io::ErrorKind::Other, MyErr(code))) },
                WD::Atomic { budget, code } => if self.acc.len() + buf.len() <= budget { self.acc.extend_from_slice(buf); Ok(buf.len()) } else { self.failed = true; Err(io::Error::new(io::ErrorKind::Other, MyErr(code))) },
                WD::Zero { budget, cap } => if self.acc.len() < budget { let n = (budget - self.acc.len()).min(cap).min(buf.len()); self.acc.extend_from_slice(&buf[..n]); Ok(n) } else { Ok(0) },
            }
        }
        fn flush(&mut self) -> io::Result<()> { if self.failed { self.after += 1; } Ok(()) }
    }
    /// pass-through so that a consumer taking its source by value leaves it usable afterwards
    struct ByRef<'a, S>(&'a mut S);
    impl<'a, S: Source> Source for ByRef<'a, S> {
        type Item<'x> = S::Item<'x>;
        type Error = S::Error;
        fn try_for_some_item<E, F>(&mut self, f: F) -> StreamResult<bool, S::Error, E> where E: std::error::Error + Send + Sync + 'static, F: FnMut(Self::Item<'_>) -> Result<(), E> { self.0.try_for_some_item(f) }
    }

    // ---------- observations ----------
    #[derive(Clone, Debug, PartialEq)]
    pub enum POut { Done, Source(u64), Sink(u64), SinkWriteZero, SinkOther(String) }
    fn c_pkind(o: &POut) -> String { match o { POut::Done => "PDone".into(), POut::Source(l) => format!("(PSource {l})"), POut::Sink(e) => format!("(PSink {e})"), _ => "PMore".into() } }
    fn c_skind(o: &POut) -> String { match o { POut::Done => "SDone".into(), POut::Source(l) => format!("(SSource {l})"), POut::Sink(e) => format!("(SSinkDev {e})"), POut::SinkWriteZero => "SSinkWriteZero".into(), _ => "SMore".into() } }
    fn line_of(e: &TurtleError) -> u64 { e.textual_position().map(|p| p.line_number()).unwrap_or(u64::MAX) }
    /// the writer's error value as it arrives in the SinkError.  In the serializers' closure the `?` after every write
    /// but the last returns the writer's io::Error as it is; only the error of the final `w.write_all(b".\n")` goes
    /// through `.map_err(|e| io::Error::new(Other, e))` and arrives wrapped once.  Both shapes carry the original value.
    fn io_payload(e: &io::Error) -> POut {
        if e.kind() == io::ErrorKind::WriteZero { return POut::SinkWriteZero; }
        match e.get_ref() {
            Some(x) => { if let Some(m) = x.downcast_ref::<MyErr>() { POut::Sink(m.0) } else if let Some(i) = x.downcast_ref::<io::Error>() { io_payload(i) } else { POut::SinkOther(format!("{e:?}")) } }
            None => POut::SinkOther(format!("{e:?}")),
        }
    }
    #[derive(Clone, Debug)]
    pub enum Cons { Rec { fault: Option<(usize, u64)>, stepwise: bool }, Insert { init: Vec<Q>, which: usize }, Ser { nt_out: bool, wd: WD } }
    #[derive(Clone, Debug, Default)]
    pub struct Obs { trace: Vec<Q>, out: Option<POut>, resumed: Vec<Result<Q, u64>>, bytes: Vec<u8>, calls: usize, after: usize, content: Vec<Q>, count: usize, sink_calls_after_failure: usize, reads_at_failure: usize, reads_total: usize }

    fn run<S>(mut s: S, c: &Cons, reads: &Rc<Cell<usize>>) -> Obs where S: QuadSource<Error = TurtleError> {
        let mut o = Obs::default();
        match c {
            Cons::Rec { fault, stepwise } => {
                let mut failed = false; let mut after = 0usize; let mut trace: Vec<Q> = vec![];
                let mut f = |q: Q| -> Result<(), MyErr> { if failed { after += 1; } trace.push(q); match fault { Some((j, e)) if trace.len() == *j + 1 => { failed = true; Err(MyErr(*e)) } _ => Ok(()) } };
                let res: Result<(), StreamError<TurtleError, MyErr>> = if *stepwise { loop { match s.try_for_some_quad(|q| f(own(q))) { Ok(true) => {} Ok(false) => break Ok(()), Err(e) => break Err(e) } } } else { s.try_for_each_quad(|q| f(own(q))) };
                o.out = Some(match res { Ok(()) => POut::Done, Err(StreamError::SourceError(e)) => POut::Source(line_of(&e)), Err(StreamError::SinkError(e)) => POut::Sink(e.0) });
                o.sink_calls_after_failure = after; o.trace = trace;
            }
            Cons::Insert { init, which } => {
                fn go<D: MutableDataset + Dataset + Default, S2: QuadSource<Error = TurtleError>>(init: &[Q], src: S2) -> (Vec<Q>, Result<usize, (POut, usize)>) {
                    let mut d = D::default(); for q in init { d.insert_quad(q.clone()).ok().unwrap(); }
                    let before = d.quads().count();
                    let res = d.insert_all(src).map_err(|e| match e { StreamError::SourceError(e) => POut::Source(line_of(&e)), StreamError::SinkError(_) => POut::SinkOther("store error".into()) });
                    let content: Vec<Q> = d.quads().map(|q| own(q.ok().unwrap())).collect();
                    // a failed insert_all returns only the error: the number of statements added so far is read off the store
                    let added = content.len() - before;
                    (content, res.map_err(|e| (e, added)))
                }
                let (content, res) = match which { 0 => go::<sophia_inmem::dataset::FastDataset, _>(init, ByRef(&mut s)), 1 => go::<std::collections::BTreeSet<Q>, _>(init, ByRef(&mut s)), _ => go::<std::collections::HashSet<Q>, _>(init, ByRef(&mut s)) };
                o.content = content;
                match res { Ok(n) => { o.count = n; o.out = Some(POut::Done) } Err((e, added)) => { o.count = added; o.out = Some(e) } }
            }
            Cons::Ser { nt_out, wd } => {
                let mut probe = WriteProbe::new(*wd);
                let res: Result<(), StreamError<TurtleError, io::Error>> = if *nt_out { NtSerializer::new(&mut probe).serialize_triples(ByRef(&mut s).to_triples()).map(|_| ()) } else { NqSerializer::new(&mut probe).serialize_quads(ByRef(&mut s)).map(|_| ()) };
                o.out = Some(match res { Ok(()) => POut::Done, Err(StreamError::SourceError(e)) => POut::Source(line_of(&e)), Err(StreamError::SinkError(e)) => io_payload(&e) });
                o.bytes = probe.acc; o.calls = probe.calls; o.after = probe.after;
            }
        }
        o.reads_at_failure = reads.get();
        // pull on: what the source still delivers tells where the parser stopped
        let mut guard = 0;
        loop {
            guard += 1; if guard > 10_000 { o.resumed.push(Err(u64::MAX)); break; }
            let mut got: Vec<Q> = vec![];
            let r = s.try_for_some_quad(|q| -> Result<(), MyErr> { got.push(own(q)); Ok(()) });
            o.resumed.extend(got.into_iter().map(Ok));
            match r { Ok(true) => {} Ok(false) => break, Err(StreamError::SourceError(e)) => o.resumed.push(Err(line_of(&e))), Err(StreamError::SinkError(_)) => unreachable!() }
        }
        o.reads_total = reads.get();
        o
    }
    fn l0<S>(s: S, chain: &[QA], c: &Cons, reads: &Rc<Cell<usize>>) -> Obs where S: Source<Error = TurtleError>, for<'x> S: Source<Item<'x> = Q> { assert!(chain.is_empty()); run(s, c, reads) }
    macro_rules! qlevel { ($name:ident, $next:ident) => {
        fn $name<S>(s: S, chain: &[QA], c: &Cons, reads: &Rc<Cell<usize>>) -> Obs where S: Source<Error = TurtleError>, for<'x> S: Source<Item<'x> = Q> {
            match chain.split_first() {
                None => run(s, c, reads),
                Some((a, rest)) => { let a = a.clone(); match qkind(&a) {
                    K::F => $next(s.filter_quads(move |q: &Q| qfilt(&a, q)), rest, c, reads),
                    K::M => $next(s.map_quads(move |q: Q| qmapf(&a, q)), rest, c, reads),
                    K::FM => $next(s.filter_map_quads(move |q: Q| qfmf(&a, q)), rest, c, reads),
                } }
            }
        }
    }; }
    qlevel!(l1, l0); qlevel!(l2, l1); qlevel!(l3, l2);

    // ---------- documents ----------
    #[derive(Clone, Debug)]
    pub enum LK { Stmt(Q), Blank, Bad }
    fn pick_iri(r: &mut Rng) -> (String, ST) { let (t, v) = *r.pick(&[("<http://e/s>", "http://e/s"), ("<http://e/p>", "http://e/p"), ("<http://e/o>", "http://e/o"), ("<tag:x>", "tag:x"), ("<urn:a:b>", "urn:a:b"), ("<http://e/\u{e9}>", "http://e/\u{e9}"), ("<http://e/\\u00E9>", "http://e/\u{e9}"), ("<http://e/\\U0001F600>", "http://e/\u{1F600}")]); (t.to_string(), iri(v)) }
    fn pick_bnode(r: &mut Rng) -> (String, ST) { let (t, v) = *r.pick(&[("_:b1", "b1"), ("_:x-y", "x-y"), ("_:a.b", "a.b"), ("_:0", "0")]); (t.to_string(), bnode(v)) }
    fn pick_lit(r: &mut Rng) -> (String, ST) {
        let xs = format!("{XSD}string");
        let v: Vec<(&str, ST)> = vec![("\"x\"", lit_dt("x", &xs)), ("\"\"", lit_dt("", &xs)), ("\"a b\"", lit_dt("a b", &xs)), ("\"l\\nb\"", lit_dt("l\nb", &xs)), ("\"q\\\"t\\\\\"", lit_dt("q\"t\\", &xs)),
            ("\"\u{e9}\"", lit_dt("\u{e9}", &xs)), ("\"\\u00E9\\t\"", lit_dt("\u{e9}\t", &xs)), ("\"x\"@en", lit_lang("x", "en")), ("\"x\"@fr-be", lit_lang("x", "fr-be")),
            ("\"7\"^^<http://www.w3.org/2001/XMLSchema#integer>", lit_dt("7", &format!("{XSD}integer"))), ("\"x\"^^<http://www.w3.org/2001/XMLSchema#string>", lit_dt("x", &xs)), ("\"# not a comment\"", lit_dt("# not a comment", &xs))];
        let (t, v) = r.pick(&v).clone(); (t.to_string(), v)
    }
    fn pick_subject(r: &mut Rng, depth: usize) -> (String, ST) { match r.below(if depth == 0 { 7 } else { 6 }) { 0..=3 => pick_iri(r), 4 | 5 => pick_bnode(r), _ => pick_quoted(r, depth + 1) } }
    fn pick_object(r: &mut Rng, depth: usize) -> (String, ST) { match r.below(if depth == 0 { 9 } else { 8 }) { 0..=2 => pick_iri(r), 3 => pick_bnode(r), 4..=7 => pick_lit(r), _ => pick_quoted(r, depth + 1) } }
    fn pick_quoted(r: &mut Rng, depth: usize) -> (String, ST) {
        let (ts, s) = pick_subject(r, depth); let (tp, p) = pick_iri(r); let (to, o) = pick_object(r, depth);
        let sp = |r: &mut Rng| r.ps(&[" ", " ", "", "\t"]).to_string();
        (format!("<<{}{ts} {tp} {to}{}>>", sp(r), sp(r)), triple(s, p, o))
    }
    fn gen_stmt(r: &mut Rng, nq: bool) -> (String, Q) {
        let (ts, s) = pick_subject(r, 0); let (tp, p) = pick_iri(r); let (to, o) = pick_object(r, 0);
        let g = if nq && r.chance(1, 2) { Some(if r.chance(3, 4) { pick_iri(r) } else { pick_bnode(r) }) } else { None };
        let sep = |r: &mut Rng| r.ps(&[" ", " ", " ", "  ", "\t", " \t "]).to_string();
        let mut t = String::new();
        t.push_str(r.ps(&["", "", "", " ", "\t "])); t.push_str(&ts); t.push_str(&sep(r)); t.push_str(&tp); t.push_str(&sep(r)); t.push_str(&to);
        if let Some((tg, _)) = &g { t.push_str(&sep(r)); t.push_str(tg); }
        t.push_str(r.ps(&[" ", " ", "", "  "])); t.push('.');
        t.push_str(r.ps(&["", "", "", " ", " # c", "# <http://e/x> .", "\r", " \r", " \r<http://e/s> <http://e/p> <http://e/lost-after-CR> ."]));
        (t, ([s, p, o], g.map(|x| x.1)))
    }
    fn gen_blank(r: &mut Rng) -> String { r.ps(&["", "", " ", "\t", "# comment", "  # <http://e/s> <http://e/p> <http://e/o> .", "\r", " \r", "#"]).to_string() }
    fn gen_bad(r: &mut Rng, nq: bool) -> String {
        let v = ["oops", "<http://e/s> <http://e/p> .", "<http://e/s> <http://e/p> \"unterminated .", "<http://e/s> \"lit\" <http://e/o> .", "<http://e/s> <http://e/p> <http://e/o> . junk",
            "<http://e/s> <http://e/p> <http://e/o>", "<http://e/s> <http://e/p> <http://e/o> <http://e/g> <http://e/h> .", "<http://e/s> <http://e/p> \"x\"@ .", "<http://e/s> <http://e/p> \"\\q\" .",
            "\"lit\" <http://e/p> <http://e/o> .", "<http://e/s> _:b <http://e/o> .", "<http://e/s> <http://e/p> <http://e/o> ;", "<< <http://e/s> <http://e/p> <http://e/o> <http://e/p> <http://e/o> .", "<http://e/s> <http://e/p> <http://e/o .",
            "<http://e/s> <http://e/p> \"x\"^^ .", "<http://e/s> <http://e/p> <http://e/o> \"g\" .", "<http://e/s> <http://e/p> \"\\u12\" .", "<http://e/s> <http://e/p> <http://e/o> .."];
        if !nq && r.chance(1, 4) { return "<http://e/s> <http://e/p> <http://e/o> <http://e/g> .".to_string(); }
        r.ps(&v).to_string()
    }
    /// canonical N-Quads line, written here independently of sophia (the oracle's writer)
    fn canon_term(t: &ST, out: &mut Vec<u8>) {
        match t {
            ST::Iri(i) => { out.push(b'<'); out.extend_from_slice(i.as_str().as_bytes()); out.push(b'>'); }
            ST::BlankNode(b) => { out.extend_from_slice(b"_:"); out.extend_from_slice(b.as_str().as_bytes()); }
            ST::Variable(v) => { out.push(b'?'); out.extend_from_slice(v.as_str().as_bytes()); }
            ST::LiteralDatatype(l, d) => { canon_lex(l, out); if d.as_str() != format!("{XSD}string") { out.extend_from_slice(b"^^<"); out.extend_from_slice(d.as_str().as_bytes()); out.push(b'>'); } }
            ST::LiteralLanguage(l, tag) => { canon_lex(l, out); out.push(b'@'); out.extend_from_slice(tag.as_str().as_bytes()); }
            ST::Triple(b) => { out.extend_from_slice(b"<<"); canon_term(&b[0], out); out.push(b' '); canon_term(&b[1], out); out.push(b' '); canon_term(&b[2], out); out.extend_from_slice(b">>"); }
        }
    }
    fn canon_lex(l: &str, out: &mut Vec<u8>) { out.push(b'"'); for c in l.bytes() { match c { b'\n' => out.extend_from_slice(b"\\n"), b'\r' => out.extend_from_slice(b"\\r"), b'"' => out.extend_from_slice(b"\\\""), b'\\' => out.extend_from_slice(b"\\\\"), c => out.push(c) } } out.push(b'"'); }
    pub fn canon_quad(q: &Q) -> Vec<u8> { let mut o = vec![]; canon_term(&q.0[0], &mut o); o.push(b' '); canon_term(&q.0[1], &mut o); o.push(b' '); canon_term(&q.0[2], &mut o); if let Some(g) = &q.1 { o.push(b' '); canon_term(g, &mut o); } o.extend_from_slice(b".\n"); o }

    fn fold_q(q: &Q) -> String { format!("{q:?}") }

    pub fn case(idx: usize, r: &mut Rng, flavour: usize, verbose: bool, sum: &mut Summary, cases: &mut Vec<(usize, String)>, seen: &mut std::collections::HashSet<String>) {
        sum.evaluations += 1;
        let xs = format!("{XSD}string");
        // ----- the serializer alone over arbitrary statements (1 case in 6 of flavour 5) -----
        if flavour == 5 && r.chance(1, 6) {
            let pool: Vec<ST> = vec![iri("http://e/s"), iri("rel"), iri(""), bnode("b"), var("v"), lit_dt("", &xs), lit_dt("\n\n\"\\\r", &xs), lit_dt("a\nb\"c", &xs), lit_dt("ends with backslash\\", &xs), lit_lang("h\u{e9}llo\n", "en-GB"),
                lit_dt("1", &format!("{XSD}integer")), triple(bnode("b"), iri("http://e/p"), triple(iri("http://e/s"), iri("http://e/p"), lit_dt("\"", &xs)))];
            let qs: Vec<Q> = (0..r.below(4)).map(|_| ([r.pick(&pool).clone(), r.pick(&pool).clone(), r.pick(&pool).clone()], if r.chance(1, 2) { Some(r.pick(&pool).clone()) } else { None })).collect();
            let total: Vec<u8> = qs.iter().flat_map(|q| canon_quad(q)).collect();
            let wd = gen_wd(r, total.len());
            let mut probe = WriteProbe::new(wd);
            let res = NqSerializer::new(&mut probe).serialize_quads(qs.clone().into_iter().into_source()).map(|_| ());
            let out = match res { Ok(()) => POut::Done, Err(StreamError::SinkError(e)) => io_payload(&e), Err(StreamError::SourceError(_)) => unreachable!() };
            let text = format!("serializer alone: statements={} writer={wd:?}", qs.iter().map(fold_q).collect::<Vec<_>>().join(" | "));
            check_writer(idx, &text, &wd, &total, &probe.acc, probe.after, &out, sum);
            sum.bump("concrete:serializer-alone"); if seen.insert(text.clone()) && out != POut::Done && !probe.acc.is_empty() { sum.distinct_nontrivial += 1; }
            if verbose { println!("CASE {idx}: {text}\nIMPL bytes={:?} calls={} after={} out={out:?}", String::from_utf8_lossy(&probe.acc), probe.calls, probe.after); }
            let c_err = match &out { POut::Done => "None".to_string(), POut::Sink(c) => format!("(Some (EDev {c}))"), POut::SinkWriteZero => "(Some EWriteZero)".into(), _ => "(Some (EDev 0))".into() };
            cases.push((idx, format!("run_ser_ok {} {} {} {}%nat {}%nat {c_err}", coq_list(qs.iter().map(c_quad)), c_wd(&wd), coq_bytes(&probe.acc), probe.calls, probe.after)));
            return;
        }
        // ----- a document -----
        let nq = r.chance(1, 2);
        let n_lines = r.below(8);
        let mut lines: Vec<(String, LK)> = (0..n_lines).map(|_| match r.below(10) { 0..=6 => { let (t, q) = gen_stmt(r, nq); (t, LK::Stmt(q)) } _ => (gen_blank(r), LK::Blank) }).collect();
        let n_bad = *r.pick(&[0usize, 0, 1, 1, 1, 2]);
        for _ in 0..n_bad { let k = r.below(lines.len() + 1); lines.insert(k, (gen_bad(r, nq), LK::Bad)); }
        let mut doc = String::new();
        for (i, (t, _)) in lines.iter().enumerate() { doc.push_str(t); if i + 1 < lines.len() || r.chance(3, 4) { doc.push('\n'); } }
        // an empty last line without LF is not a line at all
        if let Some((t, k)) = lines.last() { if t.is_empty() && !doc.ends_with('\n') && matches!(k, LK::Blank) { lines.pop(); } }
        let depth = r.below(4);
        let all_qa = [QA::FilterDefaultGraph, QA::FilterNamedGraph, QA::FilterObjLiteral, QA::FilterPred("http://e/p"), QA::FilterNone, QA::FilterAll, QA::MapDropGraph, QA::MapSetGraph("http://e/g2"), QA::MapSetObj("same"), QA::FmGraphFromObj, QA::FmUnquote];
        let chain: Vec<QA> = (0..depth).map(|_| r.pick(&all_qa).clone()).collect();
        // what the statements become, line by line (the oracle knows the statements because it generated them)
        let images: Vec<Option<Q>> = lines.iter().map(|(_, k)| match k { LK::Stmt(q) => qthrough(&chain, q.clone()), _ => None }).collect();
        let first_bad = lines.iter().position(|(_, k)| matches!(k, LK::Bad));
        let good_end = first_bad.unwrap_or(lines.len());
        let produced: Vec<(usize, Q)> = (0..good_end).filter_map(|i| images[i].clone().map(|q| (i, q))).collect();
        let total: Vec<u8> = produced.iter().flat_map(|(_, q)| canon_quad(q)).collect();
        let cons = if flavour == 4 {
            if r.chance(2, 3) { Cons::Rec { fault: if r.chance(1, 2) { Some((r.below(produced.len() + 2), 200 + r.below(50) as u64)) } else { None }, stepwise: r.chance(1, 2) } }
            else { let mut init: Vec<Q> = vec![]; for _ in 0..r.below(3) { if let Some((_, q)) = produced.get(r.below(produced.len().max(1))) { init.push(q.clone()) } else { init.push(gen_stmt(r, nq).1) } } Cons::Insert { init, which: r.below(3) } }
        } else { Cons::Ser { nt_out: r.chance(1, 2), wd: gen_wd(r, total.len()) } };
        // the NT serializer writes the triple part only: the oracle's expectation drops the graph names
        let total: Vec<u8> = if let Cons::Ser { nt_out: true, .. } = &cons { produced.iter().flat_map(|(_, q)| canon_quad(&(q.0.clone(), None))).collect() } else { total };
        // the consumer sits directly on the parser adapter: no adapter, not even the owning map layer
        let direct = depth == 0 && r.chance(1, 2) && (nq || matches!(&cons, Cons::Rec { .. } | Cons::Ser { nt_out: true, .. }));
        let reads = Rc::new(Cell::new(0usize));
        let chunk = *r.pick(&[1usize, 2, 5, 17, 4096]); let bufcap = *r.pick(&[1usize, 3, 16, 8192]);
        let probe = ReadProbe { data: doc.clone().into_bytes(), pos: 0, chunk, reads: reads.clone() };
        let rd = io::BufReader::with_capacity(bufcap, probe);
        let obs = match (nq, direct) {
            (true, true) => run(sophia_turtle::parser::nq::parse_bufread(rd), &cons, &reads),
            (true, false) => l3(sophia_turtle::parser::nq::parse_bufread(rd).map_quads(|q| own(q)), &chain, &cons, &reads),
            (false, true) => run_t(sophia_turtle::parser::nt::parse_bufread(rd), &cons, &reads),
            (false, false) => l3(sophia_turtle::parser::nt::parse_bufread(rd).to_quads().map_quads(|q| own(q)), &chain, &cons, &reads),
        };
        let out = obs.out.clone().unwrap();
        let text = format!("document({})={doc:?} chain={chain:?}{} consumer={cons:?} read-chunk={chunk} bufreader={bufcap}", if nq { "N-Quads" } else { "N-Triples" }, if direct { " [consumer directly on the parser adapter]" } else { "" });
        // ----- the oracle: the property, computed from the generated lines -----
        // where does the run stop?  after line `stop` (0-based), or at the end
        let line_no = |i: usize| (i + 1) as u64;
        let (exp_out, stop, exp_consumed): (POut, Option<usize>, Vec<Q>) = match &cons {
            Cons::Rec { fault: Some((j, e)), .. } if *j < produced.len() => (POut::Sink(*e), Some(produced[*j].0), produced[..=*j].iter().map(|x| x.1.clone()).collect()),
            Cons::Ser { wd, .. } if writer_fails(wd, &total) => {
                let failing = failing_statement(wd, &produced, &total, matches!(&cons, Cons::Ser { nt_out: true, .. }));
                (match wd { WD::Zero { .. } => POut::SinkWriteZero, WD::Budget { code, .. } | WD::Atomic { code, .. } => POut::Sink(*code) }, Some(produced[failing].0), produced[..=failing].iter().map(|x| x.1.clone()).collect())
            }
            _ => match first_bad { Some(k) => (POut::Source(line_no(k)), Some(k), produced.iter().map(|x| x.1.clone()).collect()), None => (POut::Done, None, produced.iter().map(|x| x.1.clone()).collect()) },
        };
        let exp_resumed: Vec<Result<Q, u64>> = match stop { None => vec![], Some(k) => (k + 1..lines.len()).filter_map(|i| match &lines[i].1 { LK::Bad => Some(Err(line_no(i))), LK::Stmt(_) => images[i].clone().map(Ok), LK::Blank => None }).collect() };
        let mut problems: Vec<String> = vec![];
        if out != exp_out { problems.push(format!("outcome {out:?}, expected {exp_out:?}")); }
        if obs.resumed != exp_resumed { problems.push(format!("after the run the source still delivers {:?}, expected {:?} (the lines after the one at which the run stopped)", obs.resumed, exp_resumed)); }
        if obs.reads_total > doc.len() + 3 { problems.push(format!("{} read calls for {} bytes", obs.reads_total, doc.len())); }
        match &cons {
            Cons::Rec { .. } => { if obs.trace != exp_consumed { problems.push(format!("the consumer received {:?}, expected {:?}", obs.trace, exp_consumed)); } if obs.sink_calls_after_failure > 0 { problems.push(format!("the consumer was called {} more time(s) after it had failed", obs.sink_calls_after_failure)); } }
            Cons::Insert { init, .. } => {
                let mut set: Vec<Q> = vec![]; for q in init { if !set.iter().any(|x| x == q) { set.push(q.clone()) } } let before = set.len();
                for q in &exp_consumed { if !set.iter().any(|x| x == q) { set.push(q.clone()) } }
                let mut a: Vec<String> = obs.content.iter().map(fold_q).collect(); a.sort(); let mut b: Vec<String> = set.iter().map(fold_q).collect(); b.sort();
                if a != b { problems.push(format!("store content {a:?}, expected {b:?}")); }
                if out == POut::Done && obs.count != set.len() - before { problems.push(format!("insert_all returned {}, but {} new statements were added", obs.count, set.len() - before)); }
            }
            Cons::Ser { wd, .. } => check_writer_into(&mut problems, wd, &total, &obs.bytes, obs.after, &out),
        }
        for p in &problems { sum.oracle_failures.push((idx.to_string(), format!("{text}: {p}"))); }
        if verbose { println!("CASE {idx}: {text}\nIMPL   {obs:?}\nORACLE out={exp_out:?} consumed={exp_consumed:?} resumed={exp_resumed:?} total={:?}", String::from_utf8_lossy(&total)); }
        sum.bump(&format!("concrete:{}:{}", if nq { "nq" } else { "nt" }, match &cons { Cons::Rec { .. } => "closure", Cons::Insert { .. } => "insert_all", Cons::Ser { nt_out: true, .. } => "nt-serializer", Cons::Ser { .. } => "nq-serializer" }));
        sum.bump(&format!("concrete-outcome:{}", match exp_out { POut::Done => "done", POut::Source(_) => "source-error", _ => "sink-error" }));
        if direct { sum.bump("concrete:direct"); }
        if seen.insert(text.clone()) && exp_out != POut::Done && !exp_consumed.is_empty() { sum.distinct_nontrivial += 1; }
        if sum.samples.len() < 8 && exp_out != POut::Done && !exp_consumed.is_empty() && idx % 6 >= 4 && sum.samples.iter().filter(|s| s.contains("document(")).count() < 3 { sum.samples.push(format!("case {idx}: {text} => {out:?}, {} statement(s) consumed, source then still delivers {} item(s)/error(s)", exp_consumed.len(), obs.resumed.len())); }
        // ----- the Coq case -----
        let mut c_chain: Vec<String> = if direct { vec![] } else { vec!["QMapId".to_string()] };
        c_chain.extend(chain.iter().map(c_qa));
        let c_doc = coq_str(&doc);
        let c_res = coq_list(obs.resumed.iter().map(|x| match x { Ok(q) => format!("inl {}", c_quad(q)), Err(l) => format!("inr {l}") }));
        match &cons {
            Cons::Rec { fault, .. } => { let c_fault = match fault { None => "None".to_string(), Some((j, e)) => format!("(Some ({j}%nat, {e}))") };
                cases.push((idx, format!("run_parse_rec_ok {nq} {c_doc} {} {c_fault} {} {} {c_res}", coq_list(c_chain), coq_list(obs.trace.iter().map(c_quad)), c_pkind(&out)))); }
            Cons::Insert { init, .. } => cases.push((idx, format!("run_parse_insert_ok {nq} {c_doc} {} {} {} {} {}", coq_list(c_chain), coq_list(init.iter().map(c_quad)), coq_list(obs.content.iter().map(c_quad)), obs.count, c_pkind(&out)))),
            Cons::Ser { nt_out, wd } => cases.push((idx, format!("run_parse_ser_ok {nq} {c_doc} {} {} {} {} {}%nat {}%nat {} {c_res}", coq_list(c_chain), *nt_out && !(direct && !nq), c_wd(wd), coq_bytes(&obs.bytes), obs.calls, obs.after, c_skind(&out)))),
        }
    }

    /// N-Triples, no adapter at all between the parser and the consumer (closure or NtSerializer)
    fn run_t<S>(mut s: S, c: &Cons, reads: &Rc<Cell<usize>>) -> Obs where S: TripleSource<Error = TurtleError> {
        let mut o = Obs::default();
        match c {
            Cons::Rec { fault, stepwise } => {
                let mut failed = false; let mut after = 0usize; let mut trace: Vec<Q> = vec![];
                let mut f = |q: Q| -> Result<(), MyErr> { if failed { after += 1; } trace.push(q); match fault { Some((j, e)) if trace.len() == *j + 1 => { failed = true; Err(MyErr(*e)) } _ => Ok(()) } };
                let res: Result<(), StreamError<TurtleError, MyErr>> = if *stepwise { loop { match s.try_for_some_triple(|t| f(own3(t))) { Ok(true) => {} Ok(false) => break Ok(()), Err(e) => break Err(e) } } } else { s.try_for_each_triple(|t| f(own3(t))) };
                o.out = Some(match res { Ok(()) => POut::Done, Err(StreamError::SourceError(e)) => POut::Source(line_of(&e)), Err(StreamError::SinkError(e)) => POut::Sink(e.0) });
                o.sink_calls_after_failure = after; o.trace = trace;
            }
            Cons::Ser { nt_out: true, wd } => {
                let mut probe = WriteProbe::new(*wd);
                let res: Result<(), StreamError<TurtleError, io::Error>> = NtSerializer::new(&mut probe).serialize_triples(ByRef(&mut s)).map(|_| ());
                o.out = Some(match res { Ok(()) => POut::Done, Err(StreamError::SourceError(e)) => POut::Source(line_of(&e)), Err(StreamError::SinkError(e)) => io_payload(&e) });
                o.bytes = probe.acc; o.calls = probe.calls; o.after = probe.after;
            }
            _ => unreachable!(),
        }
        o.reads_at_failure = reads.get();
        let mut guard = 0;
        loop {
            guard += 1; if guard > 10_000 { o.resumed.push(Err(u64::MAX)); break; }
            let mut got: Vec<Q> = vec![];
            let r = s.try_for_some_triple(|t| -> Result<(), MyErr> { got.push(own3(t)); Ok(()) });
            o.resumed.extend(got.into_iter().map(Ok));
            match r { Ok(true) => {} Ok(false) => break, Err(StreamError::SourceError(e)) => o.resumed.push(Err(line_of(&e))), Err(StreamError::SinkError(_)) => unreachable!() }
        }
        o.reads_total = reads.get();
        o
    }

    fn gen_wd(r: &mut Rng, total: usize) -> WD {
        let budget = match r.below(4) { 0 => r.below(total + 20), 1 => total, 2 => total.saturating_sub(r.below(3)), _ => r.below(total.max(1)) };
        match r.below(6) { 0 | 1 | 2 => WD::Budget { budget, cap: *r.pick(&[1usize, 2, 3, 7, 1000]), code: 300 + r.below(50) as u64 }, 3 | 4 => WD::Atomic { budget, code: 400 + r.below(50) as u64 }, _ => WD::Zero { budget, cap: *r.pick(&[1usize, 4, 1000]) } }
    }
    /// does this writer refuse something when the serializer writes `total`?  (Budget / Zero: as soon as there are more
    /// bytes than the budget; Atomic: decided by replaying whole statements is not possible without the chunking, so the
    /// oracle only uses the two general facts below for it)
    fn writer_fails(wd: &WD, total: &[u8]) -> bool { match wd { WD::Budget { budget, .. } | WD::Zero { budget, .. } => total.len() > *budget, WD::Atomic { budget, .. } => total.len() > *budget } }
    /// index (in `produced`) of the statement during which the writer fails
    fn failing_statement(wd: &WD, produced: &[(usize, Q)], _total: &[u8], nt: bool) -> usize {
        let budget = match wd { WD::Budget { budget, .. } | WD::Zero { budget, .. } | WD::Atomic { budget, .. } => *budget };
        let mut end = 0usize;
        for (i, (_, q)) in produced.iter().enumerate() { end += if nt { canon_quad(&(q.0.clone(), None)).len() } else { canon_quad(q).len() }; if end > budget { return i; } }
        produced.len() - 1
    }
    fn check_writer_into(problems: &mut Vec<String>, wd: &WD, total: &[u8], acc: &[u8], after: usize, out: &POut) {
        if !total.starts_with(acc) { problems.push(format!("the writer accepted {:?}, which is not a prefix of the serialisation {:?}", String::from_utf8_lossy(acc), String::from_utf8_lossy(total))); }
        if after > 0 { problems.push(format!("{after} call(s) of write/flush after a call had failed")); }
        match wd {
            WD::Budget { budget, .. } | WD::Zero { budget, .. } => { if acc.len() != (*budget).min(total.len()) { problems.push(format!("the writer accepted {} bytes, expected min(budget {budget}, {})", acc.len(), total.len())); } }
            WD::Atomic { budget, .. } => { if acc.len() > *budget { problems.push("more bytes than the budget".into()); } if total.len() <= *budget && acc.len() != total.len() { problems.push("everything fits but not everything was written".into()); } }
        }
        let fails = writer_fails(wd, total);
        let is_sink = matches!(out, POut::Sink(_) | POut::SinkWriteZero);
        if fails && !is_sink { problems.push(format!("the writer had to refuse bytes but the outcome is {out:?}")); }
        if let POut::SinkOther(s) = out { problems.push(format!("the sink error does not carry the writer's error value: {s}")); }
    }
    fn check_writer(idx: usize, text: &str, wd: &WD, total: &[u8], acc: &[u8], after: usize, out: &POut, sum: &mut Summary) {
        let mut problems = vec![]; check_writer_into(&mut problems, wd, total, acc, after, out);
        let exp = if writer_fails(wd, total) { match wd { WD::Zero { .. } => POut::SinkWriteZero, WD::Budget { code, .. } | WD::Atomic { code, .. } => POut::Sink(*code) } } else { POut::Done };
        if *out != exp { problems.push(format!("outcome {out:?}, expected {exp:?}")); }
        for p in problems { sum.oracle_failures.push((idx.to_string(), format!("{text}: {p}"))); }
    }
}
