(* C17/Properties.v -- pinned statements of property C17.
   Strings are lists of UTF-8 bytes; [resolve] is the model of BaseIri::resolve (oxiri). *)
From Sophia.C17 Require Import Model Proofs Rfc Deep DeepProofs.
Local Open Scope nat_scope.

(* (1) whenever relativize returns a reference, resolving it against the base gives back the IRI
       exactly, and it starts with at most [n] "../".  No hypothesis on b, i (any byte strings; an
       invalid base gives [Ret None]) nor on n. *)
Check (relativize_sound : forall b n i r,
  relativize b n i = Ret (Some r) -> resolve b r = Some i /\ parents_of r <= n).

(* (2) the IRI equals the base up to the fragment: the reference is the fragment part *)
Check (relativize_same_document : forall b n p i f,
  positions_of b = Some p -> i = firstn (query_end p) b ++ f ->
  (f = [] \/ hd_is (N.eqb c_hash) f = true) ->
  relativize b n i = Ret (Some f)).
(* same path, the IRI has a query: never "nothing" *)
Check (relativize_same_path_query : forall b n p i q,
  positions_of b = Some p -> i = firstn (path_end p) b ++ c_qm :: q ->
  relativize b n i <> Ret None).

(* same path, no query on the IRI (the base may have one): the last path segment is emitted, unless
   that segment is "." or ".." or the base has an authority and an empty path -- in those two
   situations no path/query/fragment reference resolves to the IRI, see ex_no_reference_* below *)
Check (relativize_same_path_noquery : forall b n p i f,
  positions_of b = Some p -> i = firstn (path_end p) b ++ f ->
  (f = [] \/ hd_is (N.eqb c_hash) f = true) ->
  is_dot_seg (last_seg (ox_path b p)) = false ->
  (scheme_end p < authority_end p -> ox_path b p <> []) ->
  relativize b n i <> Ret None).
(* no slice off a character boundary: for well-formed UTF-8 inputs the result is never a panic,
   although the longest common BYTE prefix may end inside a character (ex_lcp_mid_char) *)
Check (relativize_no_panic : forall b n i,
  utf8_ok b = true -> utf8_ok i = true -> relativize b n i <> Panic).
Check (relativize_same_path_query_some : forall b n p i q,
  utf8_ok b = true -> utf8_ok i = true ->
  positions_of b = Some p -> i = firstn (path_end p) b ++ c_qm :: q ->
  exists r, relativize b n i = Ret (Some r)).

(* (3) the resolver model is a total function; with an authority in the base it never reports an
       error unless the reference starts with ':' *)
Check (resolve : str -> str -> option str).
Check (resolve_defined : forall b p r,
  positions_of b = Some p -> scheme_end p < authority_end p -> hd_is (N.eqb c_colon) r = false ->
  exists o, resolve b r = Some o).

(* RFC 3986 section 5.2 as the specification.  The oxiri model and the RFC agree on every reference
   without scheme and authority when the base has an authority and a path free of dot segments *)
Check (oxiri_agrees_with_rfc : forall b p r,
  positions_of b = Some p -> scheme_end p < authority_end p -> has_dot_seg (ox_path b p) = false ->
  scheme_len r = None -> hd_is (N.eqb c_colon) r = false -> starts_with [c_slash; c_slash] r = false ->
  resolve b r = Some (resolve_rfc b r)).
(* hence (1) also holds for the RFC resolver on that class: the _partial form of the RFC statement *)
Check (relativize_sound_rfc_partial : forall b n i r p,
  relativize b n i = Ret (Some r) ->
  positions_of b = Some p -> scheme_end p < authority_end p -> has_dot_seg (ox_path b p) = false ->
  resolve_rfc b r = i).
(* the unrestricted RFC statement is false (dot segments in the base, rootless bases): relativize
   inverts the resolver sophia uses, which deviates from the RFC there *)
Check (relativize_sound_rfc_refuted_dot_base : ~ relativize_sound_rfc).
Check (relativize_sound_rfc_refuted_rootless : ~ relativize_sound_rfc).
Check (relativize_ref_kind : forall b n i r, relativize b n i = Ret (Some r) ->
  scheme_len r = None /\ hd_is (N.eqb c_colon) r = false /\ starts_with [c_slash; c_slash] r = false).

(* the offsets computed by Relativizer::new are those of the parsed base *)
Check (new_inv : forall b n z, new b n = Some z ->
  exists p, positions_of b = Some p /\ pos_ok b p /\ z_base z = b /\ z_query_end z = query_end p
    /\ z_path_end z = path_end p /\ z_path_begin z = authority_end p
    /\ z_has_authority z = (scheme_end p <? authority_end p)
    /\ (z_slashes z, z_pseudoroot z) =
       (let sl := slashes_loop (S n) b (authority_end p) (path_end p) in
        if n <? length sl then (removelast sl, last sl 0 + 1)
        else if hd_is is_slash (skipn (authority_end p) b) then (sl, authority_end p + 1)
        else (sl, authority_end p))).

(* (4) round 4: relativize compares bytes.  Whenever a reference is returned the IRI starts with the
       scheme and the authority of the base byte for byte; an IRI whose scheme (or authority) differs
       from the base's in ANY way -- letter case included, although such IRIs are equivalent under
       RFC 3986 section 6.2.2.1 -- gets nothing (never a reference resolving to a merely equivalent IRI) *)
Check (relativize_some_shares_root : forall b n i r, relativize b n i = Ret (Some r) -> shares_root b i = true).
Check (relativize_root_differs_none : forall b n i, shares_root b i = false -> relativize b n i = Ret None).
Check (relativize_scheme_differs_none : forall b n i p,
  positions_of b = Some p -> firstn (scheme_end p) i <> firstn (scheme_end p) b -> relativize b n i = Ret None).
Check (relativize_authority_differs_none : forall b n i p,
  positions_of b = Some p -> firstn (authority_end p) i <> firstn (authority_end p) b -> relativize b n i = Ret None).
(* the components oxiri reports for the base (read by Relativizer::new) recompose to the base *)
Check (components_recompose : forall b p, positions_of b = Some p -> ox_recompose b p = b).

(* (5) round 8: limits vs depth.  [steps_needed b i] counts, on the text of the base alone, the '/' of its path
       (the leading one excepted) at or after the end of the longest common prefix with the IRI: the directories
       a reference has to climb out of.  Whatever the limit (0 .. 255 and beyond) and however deep the base, a
       limit below that number gives NOTHING -- never a reference with fewer steps that resolves elsewhere *)
Check (relativize_beyond_reach : forall b n i, n < steps_needed b i -> relativize b n i = Ret None).
Check (relativize_some_within_reach : forall b n i r, relativize b n i = Ret (Some r) -> steps_needed b i <= n).
Check (reach_ok_model : forall b i n, reach_ok b i n (fst (res_code (relativize b (N.to_nat n) i))) = true).
(* the collecting loop of Relativizer::new skips no slash *)
Check (rel_loop_complete : forall P lo fuel k, k <= length P ->
  let L := rel_loop fuel P k in
  count_slashes_from (firstn k P) 0 lo <= length (filter (fun x => lo <=? x) L)
  \/ (length L = fuel /\ forall x, In x L -> lo <= x)).

(* (6) round 8: values with a history (new / clone / clone_from, nested at will).  The state is that of `new` on
       the (base, limit) of the LAST source, so relativize answers as a fresh Relativizer would and (1) holds *)
Check (history_irrelevant : forall h z, state h = Some z -> new (fst (origin h)) (snd (origin h)) = Some z).
Check (relativize_hist_eq : forall h iri, hist_valid h = true ->
  relativize_hist h iri = relativize (fst (origin h)) (snd (origin h)) iri).
Check (relativize_hist_sound : forall h iri r, hist_valid h = true -> relativize_hist h iri = Ret (Some r) ->
  resolve (fst (origin h)) r = Some iri /\ parents_of r <= snd (origin h)).

(* non-vacuity: validity predicate and the unit-test table of relativize.rs *)
Definition s_base1 : str := [104; 116; 116; 112; 58; 47; 47; 97; 47; 98; 47; 99; 47; 100; 63; 101; 35; 102; 63; 103]%N.  (* http://a/b/c/d?e#f?g *)
Example ex_abs_iri : abs_iri s_base1 = true. Proof. reflexivity. Qed.
Example ex_not_abs : abs_iri [47; 97]%N = false. Proof. reflexivity. Qed.
Example ex_new : option_map (fun z => (z_query_end z, z_path_end z, z_slashes z, z_pseudoroot z)) (new s_base1 3)
  = Some (16, 14, [12; 10], 9).
Proof. vm_compute. reflexivity. Qed.
Example ex_new1 : option_map (fun z => (z_query_end z, z_path_end z, z_slashes z, z_pseudoroot z)) (new s_base1 1)
  = Some (16, 14, [12], 11).
Proof. vm_compute. reflexivity. Qed.
(* http://a/b/c/d?e#f?g -> http://a/b/P1 with one "../" allowed: "../P1"; with none: nothing *)
Example ex_rel1 : relativize s_base1 1 [104; 116; 116; 112; 58; 47; 47; 97; 47; 98; 47; 80; 49]%N
  = Ret (Some [46; 46; 47; 80; 49]%N).
Proof. vm_compute. reflexivity. Qed.
Example ex_rel0 : relativize s_base1 0 [104; 116; 116; 112; 58; 47; 47; 97; 47; 98; 47; 80; 49]%N = Ret None.
Proof. vm_compute. reflexivity. Qed.
Example ex_resolve : resolve s_base1 [46; 46; 47; 80; 49]%N = Some [104; 116; 116; 112; 58; 47; 47; 97; 47; 98; 47; 80; 49]%N.
Proof. vm_compute. reflexivity. Qed.
(* the common prefix of "http://a/<e-acute>" and "http://a/<e-grave>" ends inside a character *)
Example ex_lcp_mid_char : lcp [104; 116; 116; 112; 58; 47; 47; 97; 47; 195; 169]%N [104; 116; 116; 112; 58; 47; 47; 97; 47; 195; 168]%N = 10
  /\ is_char_boundary [104; 116; 116; 112; 58; 47; 47; 97; 47; 195; 168]%N 10 = false.
Proof. split; reflexivity. Qed.

Example ex_utf8_ok : utf8_ok [104; 116; 116; 112; 58; 47; 47; 97; 47; 195; 168]%N = true /\ utf8_ok [47; 195]%N = false /\ utf8_ok [168; 47]%N = false.
Proof. repeat split; reflexivity. Qed.
(* http://a/b/..?q -> http://a/b/.. : nothing is returned (any path reference would lose the "..") *)
Example ex_no_reference_dot :
  relativize [104; 116; 116; 112; 58; 47; 47; 97; 47; 98; 47; 46; 46; 63; 113]%N 2 [104; 116; 116; 112; 58; 47; 47; 97; 47; 98; 47; 46; 46]%N = Ret None.
Proof. vm_compute. reflexivity. Qed.
(* http://a?q -> http://a : nothing is returned (every path reference resolves to a path starting with '/') *)
Example ex_no_reference_empty_path :
  relativize [104; 116; 116; 112; 58; 47; 47; 97; 63; 113]%N 2 [104; 116; 116; 112; 58; 47; 47; 97]%N = Ret None.
Proof. vm_compute. reflexivity. Qed.
(* http://a/b?q -> http://a/b : "b" *)
Example ex_last_segment :
  relativize [104; 116; 116; 112; 58; 47; 47; 97; 47; 98; 63; 113]%N 0 [104; 116; 116; 112; 58; 47; 47; 97; 47; 98]%N = Ret (Some [98]%N).
Proof. vm_compute. reflexivity. Qed.

Example ex_rfc_class : rfc_class s_base1 [46; 46; 47; 80; 49]%N = true
  /\ resolve_rfc s_base1 [46; 46; 47; 80; 49]%N = [104; 116; 116; 112; 58; 47; 47; 97; 47; 98; 47; 80; 49]%N.
Proof. split; vm_compute; reflexivity. Qed.

(* http://example.org/a/b vs HTTP://example.org/a/c: equal schemes up to letter case, nothing returned *)
Example ex_scheme_case :
  case_variant [104; 116; 116; 112; 58]%N [72; 84; 84; 80; 58]%N = true
  /\ shares_root [104; 116; 116; 112; 58; 47; 47; 101; 120; 97; 109; 112; 108; 101; 46; 111; 114; 103; 47; 97; 47; 98]%N [72; 84; 84; 80; 58; 47; 47; 101; 120; 97; 109; 112; 108; 101; 46; 111; 114; 103; 47; 97; 47; 99]%N = false
  /\ relativize [104; 116; 116; 112; 58; 47; 47; 101; 120; 97; 109; 112; 108; 101; 46; 111; 114; 103; 47; 97; 47; 98]%N 1 [72; 84; 84; 80; 58; 47; 47; 101; 120; 97; 109; 112; 108; 101; 46; 111; 114; 103; 47; 97; 47; 99]%N = Ret None
  /\ relativize [104; 116; 116; 112; 58; 47; 47; 101; 120; 97; 109; 112; 108; 101; 46; 111; 114; 103; 47; 97; 47; 98]%N 1 [104; 116; 116; 112; 58; 47; 47; 101; 120; 97; 109; 112; 108; 101; 46; 111; 114; 103; 47; 97; 47; 99]%N = Ret (Some [99]%N).
Proof. repeat split; vm_compute; reflexivity. Qed.
Example ex_components : components_ok s_base1 [104; 116; 116; 112]%N (Some [97]%N) [47; 98; 47; 99; 47; 100]%N (Some [101]%N) (Some [102; 63; 103]%N) = true
  /\ shares_root_ok s_base1 [104; 116; 116; 112; 58; 47; 47; 97; 47; 98; 47; 80; 49]%N 1 = true.
Proof. split; vm_compute; reflexivity. Qed.

(* s:/a/a/a/.../a/a (300 directories + document) against s:/a/x : 299 steps are needed; 255 give nothing *)
Definition s_deep : str := [115; 58]%N ++ repeat_str [47; 97]%N 301.
Example ex_deep_needed : steps_needed s_deep [115; 58; 47; 97; 47; 120]%N = 299.
Proof. vm_compute. reflexivity. Qed.
Example ex_deep_255 : relativize s_deep 255 [115; 58; 47; 97; 47; 120]%N = Ret None
  /\ option_map (fun z => (length (z_slashes z), z_pseudoroot z)) (new s_deep 255) = Some (255, 93).
Proof. split; vm_compute; reflexivity. Qed.
(* the same base against an IRI 255 directories up: exactly 255 "../" *)
Example ex_deep_exact : relativize s_deep 255 ([115; 58]%N ++ repeat_str [47; 97]%N 45 ++ [47; 120]%N)
  = Ret (Some (repeat_str dotdot_slash 255 ++ [120]%N))
  /\ steps_needed s_deep ([115; 58]%N ++ repeat_str [47; 97]%N 45 ++ [47; 120]%N) = 255.
Proof. split; vm_compute; reflexivity. Qed.
(* a value built for urn:x (no authority), re-targeted to http://a (authority, empty path): http://ab gets nothing *)
Example ex_history :
  let h := HCloneFrom (HNew [117; 114; 110; 58; 120]%N 0) (HClone (HNew [104; 116; 116; 112; 58; 47; 47; 97]%N 2)) in
  hist_valid h = true /\ origin h = ([104; 116; 116; 112; 58; 47; 47; 97]%N, 2)
  /\ relativize_hist h [104; 116; 116; 112; 58; 47; 47; 97; 98]%N = Ret None
  /\ history_ok h [104; 116; 116; 112; 58; 47; 47; 97; 98]%N 0 [] = true
  /\ reach_ok s_base1 [104; 116; 116; 112; 58; 47; 47; 97; 47; 98; 47; 80; 49]%N 0 0 = true
  /\ reach_ok s_base1 [104; 116; 116; 112; 58; 47; 47; 97; 47; 98; 47; 80; 49]%N 0 1 = false.
Proof. repeat split; vm_compute; reflexivity. Qed.

Print Assumptions relativize_sound.
Print Assumptions relativize_beyond_reach.
Print Assumptions relativize_some_within_reach.
Print Assumptions reach_ok_model.
Print Assumptions rel_loop_complete.
Print Assumptions history_irrelevant.
Print Assumptions relativize_hist_eq.
Print Assumptions relativize_hist_sound.
Print Assumptions relativize_same_path_noquery.
Print Assumptions relativize_no_panic.
Print Assumptions relativize_same_path_query_some.
Print Assumptions relativize_same_document.
Print Assumptions relativize_same_path_query.
Print Assumptions resolve_defined.
Print Assumptions oxiri_agrees_with_rfc.
Print Assumptions relativize_sound_rfc_partial.
Print Assumptions relativize_sound_rfc_refuted_dot_base.
Print Assumptions relativize_sound_rfc_refuted_rootless.
Print Assumptions relativize_ref_kind.
Print Assumptions new_inv.
Print Assumptions relativize_prefix_refuted_colon.
Print Assumptions relativize_prefix_refuted_empty_segment.
Print Assumptions relativize_prefix_refuted_dot_segments.
Print Assumptions relativize_prefix_refuted_rootless.
Print Assumptions relativize_prefix_refuted_base_is_prefix.
Print Assumptions relativize_prefix_refuted_query_dropped.
Print Assumptions relativize_prefix_refuted_authority_prefix.
Print Assumptions relativize_prefix_refuted_panic.
Print Assumptions relativize_some_shares_root.
Print Assumptions relativize_root_differs_none.
Print Assumptions relativize_scheme_differs_none.
Print Assumptions relativize_authority_differs_none.
Print Assumptions components_recompose.
