(* C12/Wide.v -- what the directed streams of the C12 harness add to the model.  Definitions only.

   1. Node identifiers as they are WRITTEN by the serializer (jsonld/src/serializer/engine.rs: the identifier of a node,
      the IRI of a node reference, an '@type' value and a property key are the text of the term, whatever
      `base` and `compact_to_relative` say) and as they are READ by JSON-LD (JSON-LD 1.1 API 5.2.2, IRI expansion,
      for a document without context): a string of the form of a keyword is ignored, a blank node identifier and
      a string with a scheme are kept, anything else needs the base IRI.
   2. The BufRead entry point of the parser (jsonld/src/parser.rs, QuadParser::parse): `read_to_end`, then
      `String::from_utf8` on the WHOLE input, then `parse_str`.  A reader is modelled by the pieces in which it hands
      the bytes over; UTF-8 well-formedness is Unicode 15.0 table 3-7.
   3. VecUtil::push_if_new on values that carry their text (serializer/rdf_object.rs): equality is on the
      whole value, not on its text. *)
From Sophia.Common Require Import Prelude.

(* ---------- 1. identifiers ---------- *)
Definition is_alpha (c : N) : bool := ((65 <=? c) && (c <=? 90)) || ((97 <=? c) && (c <=? 122)).
Definition is_digit (c : N) : bool := (48 <=? c) && (c <=? 57).
(* "@" 1*ALPHA *)
Definition keyword_form (s : str) : bool :=
  match s with
  | c :: ((_ :: _) as r) => (c =? 64) && forallb is_alpha r
  | _ => false
  end.
(* "_:" ... *)
Definition blank_form (s : str) : bool :=
  match s with
  | a :: b :: _ => (a =? 95) && (b =? 58)
  | _ => false
  end.
(* RFC 3986: scheme = ALPHA *( ALPHA / DIGIT / "+" / "-" / "." ), followed by ":" *)
Definition scheme_char (c : N) : bool := is_alpha c || is_digit c || (c =? 43) || (c =? 45) || (c =? 46).
Fixpoint scheme_tail (s : str) : bool :=
  match s with
  | [] => false
  | c :: r => if c =? 58 then true else scheme_char c && scheme_tail r
  end.
Definition has_scheme (s : str) : bool :=
  match s with
  | c :: r => is_alpha c && scheme_tail r
  | [] => false
  end.

(* engine.rs: `push_entry(&mut obj, "@id", id.into())`, `"@id": JsonValue::from(id.as_ref())`: the options are not consulted *)
Definition id_written (base : option str) (compact_to_relative : bool) (i : str) : str := i.

Inductive expanded := EIri (s : str) | EBlank (s : str) | EIgnored | ENeedsBase.
Definition expand_id (s : str) : expanded :=
  if keyword_form s then EIgnored
  else if blank_form s then EBlank s
  else if has_scheme s then EIri s
  else ENeedsBase.
Definition is_EIri (e : expanded) : bool := match e with EIri _ => true | _ => false end.

(* NOT what the code does: the simplest writer that shortens the IRIs under a directory *)
Fixpoint strip_prefix (p s : str) : option str :=
  match p, s with
  | [], _ => Some s
  | a :: p', b :: s' => if a =? b then strip_prefix p' s' else None
  | _ :: _, [] => None
  end.
Definition id_written_relative (dir : str) (i : str) : str :=
  match strip_prefix dir i with Some r => r | None => i end.

(* harness-facing: every string the document has in identifier / property position is the text of an IRI of the
   dataset as the model writes it, and JSON-LD reads it as that IRI *)
Definition ids_ok (base : option str) (ctr : bool) (input observed : list str) : bool :=
  forallb (fun s => existsb (str_eqb s) (map (id_written base ctr) input) && is_EIri (expand_id s)) observed.

(* ---------- 2. the BufRead entry point ---------- *)
Definition in_rng (lo hi b : N) : bool := (lo <=? b) && (b <=? hi).
Definition cont (b : N) : bool := in_rng 128 191 b.
(* the second byte after a lead byte of a 3- or 4-byte sequence (table 3-7) *)
Definition second_ok (b0 b1 : N) : bool :=
  if b0 =? 224 then in_rng 160 191 b1
  else if b0 =? 237 then in_rng 128 159 b1
  else if b0 =? 240 then in_rng 144 191 b1
  else if b0 =? 244 then in_rng 128 143 b1
  else cont b1.
Fixpoint utf8_valid (l : list N) : bool :=
  match l with
  | [] => true
  | b0 :: r0 =>
    if b0 <? 128 then utf8_valid r0
    else if in_rng 194 223 b0 then
      match r0 with
      | b1 :: r1 => if cont b1 then utf8_valid r1 else false
      | _ => false
      end
    else if in_rng 224 239 b0 then
      match r0 with
      | b1 :: b2 :: r2 => if second_ok b0 b1 && cont b2 then utf8_valid r2 else false
      | _ => false
      end
    else if in_rng 240 244 b0 then
      match r0 with
      | b1 :: b2 :: b3 :: r3 => if second_ok b0 b1 && cont b2 && cont b3 then utf8_valid r3 else false
      | _ => false
      end
    else false
  end.

(* the encoding of a text (code points) *)
Definition scalar (c : N) : bool := (c <? 55296) || ((57343 <? c) && (c <=? 1114111)).
Definition enc1 (c : N) : list N :=
  if c <? 128 then [c]
  else if c <? 2048 then [192 + c / 64; 128 + c mod 64]
  else if c <? 65536 then [224 + c / 4096; 128 + (c / 64) mod 64; 128 + c mod 64]
  else [240 + c / 262144; 128 + (c / 4096) mod 64; 128 + (c / 64) mod 64; 128 + c mod 64].
Definition utf8_encode (s : str) : list N := flat_map enc1 s.

(* a reader: the pieces in which it hands the bytes over *)
Inductive policy := Every (k : N) | At (cuts : list N).
Fixpoint chunks_every (fuel : nat) (k : nat) (l : list N) : list (list N) :=
  match fuel with
  | O => [l]
  | S f => match l with [] => [] | _ :: _ => firstn k l :: chunks_every f k (skipn k l) end
  end.
Fixpoint chunks_at (cuts : list N) (l : list N) : list (list N) :=
  match cuts with
  | [] => [l]
  | c :: r => firstn (N.to_nat c) l :: chunks_at r (skipn (N.to_nat c) l)
  end.
Definition chunks_of (p : policy) (l : list N) : list (list N) :=
  match p with
  | Every k => chunks_every (length l) (N.to_nat k) l
  | At cuts => chunks_at cuts l
  end.

(* parser.rs: data.read_to_end(&mut bytes); String::from_utf8(bytes); self.parse_str(&txt) *)
Definition read_to_end (chunks : list (list N)) : list N := concat chunks.
Definition parse_entry (chunks : list (list N)) : option (list N) :=
  let b := read_to_end chunks in if utf8_valid b then Some b else None.
(* NOT what the code does: decoding every piece on its own *)
Definition parse_chunkwise (chunks : list (list N)) : option (list N) :=
  if forallb utf8_valid chunks then Some (concat chunks) else None.

(* the bytes of a document, given as (pattern, repetitions) segments *)
Fixpoint repeat_app (c : list N) (n : nat) : list N :=
  match n with O => [] | S m => c ++ repeat_app c m end.
Definition expand_segs (segs : list (list N * N)) : list N :=
  flat_map (fun sg => repeat_app (fst sg) (N.to_nat (snd sg))) segs.

(* harness-facing: for every reader, the text reaches parse_str (whole) exactly when the implementation did not
   report a UTF-8 error *)
Definition entry_ok (doc : list N) (obs : list (policy * bool)) : bool :=
  forallb (fun pa =>
    Bool.eqb (match parse_entry (chunks_of (fst pa) doc) with Some b => list_eqb N.eqb b doc | None => false end)
             (snd pa)) obs.

(* ---------- 3. values that carry their text ---------- *)
(* serializer/rdf_object.rs: enum RdfObject { LangString(lex, tag), TypedLiteral(lex, datatype), Node(index, id) } *)
Inductive rdfobject :=
| LangString (lex tag : str)
| TypedLiteral (lex dt : str)
| Node (idx : N) (id : str).
Definition as_str (o : rdfobject) : str :=
  match o with LangString l _ => l | TypedLiteral l _ => l | Node _ i => i end.
(* #[derive(PartialEq)]; LanguageTag's PartialEq is eq_ignore_ascii_case (api/src/term/language_tag.rs) *)
Definition rdfobject_eqb (a b : rdfobject) : bool :=
  match a, b with
  | LangString l t, LangString l' t' => str_eqb l l' && str_eqb (lower t) (lower t')
  | TypedLiteral l d, TypedLiteral l' d' => str_eqb l l' && str_eqb d d'
  | Node i s, Node i' s' => (i =? i') && str_eqb s s'
  | _, _ => false
  end.
(* VecUtil::push_if_new *)
Definition push_if_new (v : list rdfobject) (x : rdfobject) : list rdfobject :=
  if existsb (rdfobject_eqb x) v then v else v ++ [x].
Definition push_all (xs : list rdfobject) : list rdfobject := fold_left push_if_new xs [].
(* NOT what the code does: deciding "already there" on the text alone *)
Definition push_if_new_text (v : list rdfobject) (x : rdfobject) : list rdfobject :=
  if existsb (fun y => str_eqb (as_str x) (as_str y)) v then v else v ++ [x].
Fixpoint distinctb (xs : list rdfobject) : bool :=
  match xs with
  | [] => true
  | x :: r => negb (existsb (rdfobject_eqb x) r) && distinctb r
  end.
(* harness-facing: the number of values one (subject, predicate) of the document has, for the objects in their order of arrival *)
Definition values_ok (xs : list rdfobject) (observed : N) : bool := N.of_nat (length (push_all xs)) =? observed.
