//! C02: Term::eq / cmp / hash across every constructible Term implementation, against the Coq
//! model (Common/Term.v) and against the laws themselves (oracle).
use rio_api::model as rio;
use sophia_api::ns::NsTerm;
use sophia_api::term::{BnodeId, CmpTerm, FromTerm, IriRef, SimpleTerm, Term, TermKind, TryFromTerm, VarName};
use sophia_iri::Iri;
use sophia_rio::model::Trusted;
use sophia_sparql::ResultTerm;
use sophia_term::{ArcStrStash, ArcTerm, GenericLiteral, RcStrStash, RcTerm};
use std::cmp::Ordering;
use std::hash::Hasher;
use verif_harness::*;

#[derive(Default)]
struct Rec(Vec<u8>);
impl Hasher for Rec {
    fn finish(&self) -> u64 { 0 }
    fn write(&mut self, b: &[u8]) { self.0.extend_from_slice(b) }
}
fn rec<T: Term>(t: T) -> Vec<u8> { let mut h = Rec::default(); Term::hash(&t, &mut h); h.0 }

/// one value in one representation
enum Rep<'a> {
    Simple(SimpleTerm<'static>), SimpleRef(&'a SimpleTerm<'static>), Borrowed(SimpleTerm<'a>),
    Arc(ArcTerm), Rc(RcTerm), ArcStashed(ArcTerm), RcStashed(RcTerm), Cmp(CmpTerm<SimpleTerm<'static>>), CmpArc(CmpTerm<ArcTerm>),
    GenLit(GenericLiteral<String>), Ns(NsTerm<'a>), IriW(Iri<String>), IriRefW(IriRef<&'a str>), BnodeW(BnodeId<String>), VarW(VarName<Box<str>>),
    I32(i32), Isize(isize), Usize(usize), F64(f64), Bool(bool), Str(&'a str),
    RioNamed(Trusted<rio::NamedNode<'a>>), RioBlank(Trusted<rio::BlankNode<'a>>), RioVar(Trusted<rio::Variable<'a>>), RioLit(Trusted<rio::Literal<'a>>),
    RioTerm(Trusted<rio::Term<'a>>), RioGen(Trusted<rio::GeneralizedTerm<'a>>), RioGName(Trusted<rio::GraphName<'a>>),
    Result(ResultTerm), ResultCached(ResultTerm), JBn(sophia_jsonld::vocabulary::ArcBnode),
}
macro_rules! with_rep {
    ($r:expr, $x:ident => $body:expr) => {
        match $r {
            Rep::Simple($x) => $body, Rep::SimpleRef($x) => $body, Rep::Borrowed($x) => $body, Rep::Arc($x) => $body, Rep::Rc($x) => $body,
            Rep::ArcStashed($x) => $body, Rep::RcStashed($x) => $body, Rep::Cmp($x) => $body, Rep::CmpArc($x) => $body,
            Rep::GenLit($x) => $body, Rep::Ns($x) => $body, Rep::IriW($x) => $body, Rep::IriRefW($x) => $body, Rep::BnodeW($x) => $body, Rep::VarW($x) => $body,
            Rep::I32($x) => $body, Rep::Isize($x) => $body, Rep::Usize($x) => $body, Rep::F64($x) => $body, Rep::Bool($x) => $body, Rep::Str($x) => $body,
            Rep::RioNamed($x) => $body, Rep::RioBlank($x) => $body, Rep::RioVar($x) => $body, Rep::RioLit($x) => $body,
            Rep::RioTerm($x) => $body, Rep::RioGen($x) => $body, Rep::RioGName($x) => $body, Rep::Result($x) => $body, Rep::ResultCached($x) => $body, Rep::JBn($x) => $body,
        }
    };
}
fn rep_name(r: &Rep) -> &'static str {
    match r {
        Rep::Simple(_) => "SimpleTerm(owned)", Rep::SimpleRef(_) => "&SimpleTerm", Rep::Borrowed(_) => "SimpleTerm(borrowed)", Rep::Arc(_) => "ArcTerm", Rep::Rc(_) => "RcTerm",
        Rep::ArcStashed(_) => "ArcTerm(stash)", Rep::RcStashed(_) => "RcTerm(stash)", Rep::Cmp(_) => "CmpTerm<SimpleTerm>", Rep::CmpArc(_) => "CmpTerm<ArcTerm>",
        Rep::GenLit(_) => "GenericLiteral", Rep::Ns(_) => "NsTerm", Rep::IriW(_) => "Iri<String>", Rep::IriRefW(_) => "IriRef<&str>", Rep::BnodeW(_) => "BnodeId", Rep::VarW(_) => "VarName",
        Rep::I32(_) => "i32", Rep::Isize(_) => "isize", Rep::Usize(_) => "usize", Rep::F64(_) => "f64", Rep::Bool(_) => "bool", Rep::Str(_) => "str",
        Rep::RioNamed(_) => "rio::NamedNode", Rep::RioBlank(_) => "rio::BlankNode", Rep::RioVar(_) => "rio::Variable", Rep::RioLit(_) => "rio::Literal",
        Rep::RioTerm(_) => "rio::Term", Rep::RioGen(_) => "rio::GeneralizedTerm", Rep::RioGName(_) => "rio::GraphName", Rep::Result(_) => "ResultTerm", Rep::ResultCached(_) => "ResultTerm(value cached)", Rep::JBn(_) => "jsonld::vocabulary::ArcBnode",
    }
}

/// native value attached to an abstract term (so that the native representation is exercised)
#[derive(Clone, Copy, Debug)]
enum Native { None, I32(i32), Isize(isize), Usize(usize), F64(f64), Bool(bool), Str }

struct Abs { st: ST, native: Native, ns_split: Vec<usize> }

fn rio_lit<'a>(st: &'a ST) -> Option<rio::Literal<'a>> {
    match st {
        SimpleTerm::LiteralDatatype(lex, dt) => Some(if dt.as_str() == "http://www.w3.org/2001/XMLSchema#string" { rio::Literal::Simple { value: lex } } else { rio::Literal::Typed { value: lex, datatype: rio::NamedNode { iri: dt.as_str() } } }),
        SimpleTerm::LiteralLanguage(lex, tag) => Some(rio::Literal::LanguageTaggedString { value: lex, language: tag.as_str() }),
        _ => None,
    }
}

fn reps<'a>(a: &'a Abs, arc_stash: &mut ArcStrStash, rc_stash: &mut RcStrStash) -> Vec<Rep<'a>> {
    let st = &a.st;
    let mut v: Vec<Rep<'a>> = vec![
        Rep::Simple(st.clone()), Rep::SimpleRef(st), Rep::Borrowed(st.as_simple()),
        Rep::Arc(ArcTerm::from_term(st.borrow_term())), Rep::Rc(st.borrow_term().into_term()),
        Rep::ArcStashed(arc_stash.copy_term(st.borrow_term())), Rep::RcStashed(rc_stash.copy_term(st.borrow_term())),
        Rep::Cmp(CmpTerm(st.clone())), Rep::CmpArc(CmpTerm(ArcTerm::from_term(st.borrow_term()))),
        Rep::Result(ResultTerm::from(ArcTerm::from_term(st.borrow_term()))),
        // the same with its SPARQL value already computed and cached inside the term
        Rep::ResultCached({ let rt = ResultTerm::from(ArcTerm::from_term(st.borrow_term())); let _ = rt.value(); rt }),
    ];
    match st {
        SimpleTerm::Iri(i) => {
            v.push(Rep::IriRefW(IriRef::new_unchecked(i.as_str())));
            v.push(Rep::IriW(Iri::new_unchecked(i.as_str().to_string())));
            for k in &a.ns_split { v.push(Rep::Ns(NsTerm::new_unchecked(IriRef::new_unchecked(&i.as_str()[..*k]), &i.as_str()[*k..]))); }
            v.push(Rep::RioNamed(Trusted(rio::NamedNode { iri: i.as_str() })));
            v.push(Rep::RioTerm(Trusted(rio::Term::NamedNode(rio::NamedNode { iri: i.as_str() }))));
            v.push(Rep::RioGen(Trusted(rio::GeneralizedTerm::NamedNode(rio::NamedNode { iri: i.as_str() }))));
            v.push(Rep::RioGName(Trusted(rio::GraphName::NamedNode(rio::NamedNode { iri: i.as_str() }))));
        }
        SimpleTerm::BlankNode(b) => {
            v.push(Rep::BnodeW(BnodeId::new_unchecked(b.as_str().to_string())));
            { use rdf_types::vocabulary::BlankIdVocabulary; let full = format!("_:{}", b.as_str()); if let Ok(id) = rdf_types::BlankId::new(&full) { if let Some(x) = sophia_jsonld::vocabulary::ArcVoc::default().get_blank_id(id) { v.push(Rep::JBn(x)); } } }
            v.push(Rep::RioBlank(Trusted(rio::BlankNode { id: b.as_str() })));
            v.push(Rep::RioTerm(Trusted(rio::Term::BlankNode(rio::BlankNode { id: b.as_str() }))));
            v.push(Rep::RioGen(Trusted(rio::GeneralizedTerm::BlankNode(rio::BlankNode { id: b.as_str() }))));
            v.push(Rep::RioGName(Trusted(rio::GraphName::BlankNode(rio::BlankNode { id: b.as_str() }))));
        }
        SimpleTerm::Variable(x) => {
            v.push(Rep::VarW(VarName::new_unchecked(x.as_str().into())));
            v.push(Rep::RioVar(Trusted(rio::Variable { name: x.as_str() })));
            v.push(Rep::RioGen(Trusted(rio::GeneralizedTerm::Variable(rio::Variable { name: x.as_str() }))));
        }
        SimpleTerm::LiteralDatatype(..) | SimpleTerm::LiteralLanguage(..) => {
            v.push(Rep::GenLit(GenericLiteral::try_from_term(st.borrow_term()).unwrap()));
            let l = rio_lit(st).unwrap();
            v.push(Rep::RioLit(Trusted(l))); v.push(Rep::RioTerm(Trusted(rio::Term::Literal(l)))); v.push(Rep::RioGen(Trusted(rio::GeneralizedTerm::Literal(l))));
            match a.native {
                Native::I32(x) => v.push(Rep::I32(x)), Native::Isize(x) => v.push(Rep::Isize(x)), Native::Usize(x) => v.push(Rep::Usize(x)),
                Native::F64(x) => v.push(Rep::F64(x)), Native::Bool(x) => v.push(Rep::Bool(x)),
                Native::Str => if let SimpleTerm::LiteralDatatype(lex, _) = st { v.push(Rep::Str(lex)) },
                Native::None => {}
            }
        }
        SimpleTerm::Triple(_) => {}
    }
    v
}

// ---------- generation ----------
const STRS: [&str; 12] = ["", "a", "b", "ab", "aa", "A", "a\u{e9}", "a\u{ff}", "\u{10000}", "\u{ffff}", "z", "a b"];
const TAGS: [&str; 7] = ["en", "EN", "En", "en-US", "en-us", "fr", "FR"];
fn gen_abs(r: &mut Rng, depth: usize) -> Abs {
    let k = r.below(if depth > 0 { 12 } else { 10 });
    let s = *r.pick(&STRS[..]);
    let (st, native) = match k {
        0 | 1 => (iri(&format!("http://e/{}", s.replace(' ', "_").replace('\u{ffff}', "\u{ffef}"))), Native::None),
        2 => (bnode(&format!("{}{}", r.ps(&["b", "b", "_", "__", "_b"]), s.replace(' ', "_").replace('\u{ffff}', "\u{ffef}"))), Native::None),
        3 => (var(&format!("v{}", s.replace(' ', "_").replace('\u{ffff}', "\u{ffef}"))), Native::None),
        4 => (lit_dt(s, &format!("{XSD}string")), Native::Str),
        5 => (lit_lang(s, *r.pick(&TAGS[..])), Native::None),
        6 => (lit_dt(s, *r.pick(&["http://e/dt", "http://e/", "http://www.w3.org/2001/XMLSchema#integer", "http://www.w3.org/1999/02/22-rdf-syntax-ns#langStrinG"])), Native::None),
        7 => { let x = *r.pick(&[0i32, 1, -1, 42, i32::MAX, i32::MIN]); (lit_dt(&x.to_string(), &format!("{XSD}integer")), Native::I32(x)) }
        8 => match r.below(3) {
            0 => { let x = *r.pick(&[0isize, 42, -7, isize::MAX, isize::MIN]); (lit_dt(&x.to_string(), &format!("{XSD}integer")), Native::Isize(x)) }
            1 => { let x = *r.pick(&[0usize, 42, usize::MAX]); (lit_dt(&x.to_string(), &format!("{XSD}integer")), Native::Usize(x)) }
            _ => { let x = r.chance(1, 2); (lit_dt(if x { "true" } else { "false" }, &format!("{XSD}boolean")), Native::Bool(x)) }
        },
        9 => { let x = *r.pick(&[0.0f64, 1.5, -2.0, 1e21, 1e-7, 42.0]); let t: SimpleTerm = x.into_term(); (t.into_term(), Native::F64(x)) }
        _ => {
            let (s_, p_, o_) = (gen_abs(r, depth - 1).st, gen_abs(r, depth - 1).st, gen_abs(r, depth - 1).st);
            (triple(s_, p_, o_), Native::None)
        }
    };
    let ns_split = match &st { SimpleTerm::Iri(i) => { let n = i.as_str().len(); let mut v = vec![0, n]; for _ in 0..2 { let k = r.below(n + 1); if i.as_str().is_char_boundary(k) { v.push(k) } } v } _ => vec![] };
    Abs { st, native, ns_split }
}

/// the same term with the ASCII case of every language tag swapped (None if it has no tag)
fn flip_case(st: &ST) -> Option<ST> {
    match st {
        SimpleTerm::LiteralLanguage(lex, tag) => { let t: String = tag.as_str().chars().map(|c| if c.is_ascii_lowercase() { c.to_ascii_uppercase() } else { c.to_ascii_lowercase() }).collect(); Some(lit_lang(lex, &t)) }
        SimpleTerm::Triple(tr) => {
            let f: Vec<Option<ST>> = tr.iter().map(flip_case).collect();
            if f.iter().all(|x| x.is_none()) { None } else { let mut it = f.into_iter().zip(tr.iter()).map(|(x, o)| x.unwrap_or_else(|| o.clone())); Some(triple(it.next().unwrap(), it.next().unwrap(), it.next().unwrap())) }
        }
        _ => None,
    }
}
/// terms that differ from `st` in ONE respect (a tag / IRI / label that extends or is a prefix of the original, another
/// lexical form or datatype, a quoted triple with the same atoms bracketed differently or with two components swapped)
fn chop(s: &str) -> &str { let mut c = s.chars(); c.next_back(); c.as_str() }
fn near_variants(st: &ST, r: &mut Rng) -> Vec<ST> {
    let ext = |x: &str| format!("{x}a");
    match st {
        SimpleTerm::LiteralLanguage(l, tag) => { let t = tag.as_str(); let mut v = vec![lit_lang(l, &format!("{t}-GB")), lit_lang(&ext(l), t), lit_dt(l, &format!("{XSD}string"))]; /* (NOT an untagged literal typed rdf:langString: that term is ill-formed, and the property quantifies over well-formed terms) */ if let Some(k) = t.find('-') { v.push(lit_lang(l, &t[..k])); } v }
        SimpleTerm::LiteralDatatype(l, d) if l.chars().next().is_some_and(|c| c.is_ascii_digit() || c == '-') && r.chance(2, 3) => {
            // other spellings of the same number (not the same TERM): leading zero, plus sign, -0, decimal point
            let digits = l.trim_start_matches('-'); let neg = l.starts_with('-');
            vec![lit_dt(&format!("{}0{digits}", if neg { "-" } else { "" }), d.as_str()), lit_dt(&if neg { l.to_string() } else { format!("+{l}") }, d.as_str()), lit_dt(&if digits == "0" { "-0".to_string() } else { format!("{l}.0") }, d.as_str())] }
        SimpleTerm::LiteralDatatype(l, d) => vec![lit_dt(l, &ext(d.as_str())), lit_dt(&ext(l), d.as_str()), lit_lang(l, "en"), lit_dt(l, chop(d.as_str()))],
        SimpleTerm::Iri(i) => vec![iri(&ext(i.as_str())), iri(chop(i.as_str())), lit_dt(i.as_str(), &format!("{XSD}string")), lit_dt("", i.as_str())],
        SimpleTerm::BlankNode(b) => vec![bnode(&ext(b.as_str())), var(b.as_str()), iri(&format!("x:{}", b.as_str()))],
        SimpleTerm::Variable(x) => vec![var(&ext(x.as_str())), bnode(x.as_str())],
        SimpleTerm::Triple(tr) => {
            let (a, b, c) = (tr[0].clone(), tr[1].clone(), tr[2].clone());
            let mut v = vec![triple(c.clone(), b.clone(), a.clone()), triple(a.clone(), c.clone(), b.clone())];
            if let SimpleTerm::Triple(x) = &a { v.push(triple(x[0].clone(), x[1].clone(), triple(x[2].clone(), b.clone(), c.clone()))); }
            if let SimpleTerm::Triple(x) = &c { v.push(triple(triple(a.clone(), b.clone(), x[0].clone()), x[1].clone(), x[2].clone())); }
            let k = r.below(3); let inner = near_variants(&tr[k], r); if !inner.is_empty() { let w = inner[r.below(inner.len())].clone(); let mut parts = [a, b, c]; parts[k] = w; v.push(triple(parts[0].clone(), parts[1].clone(), parts[2].clone())); }
            v
        }
    }
}
/// the std traits of a type holding terms must tell the same story as the Term methods
fn std_traits_agree<T: Term + Ord + Eq + std::hash::Hash>(x: &T, y: &T) -> Option<String> {
    let (te, tc) = (Term::eq(x, y.borrow_term()), Term::cmp(x, y.borrow_term()));
    if (x == y) != te { return Some(format!("== gives {} but Term::eq gives {te}", x == y)); }
    if Ord::cmp(x, y) != tc { return Some(format!("Ord::cmp gives {:?} but Term::cmp gives {tc:?}", Ord::cmp(x, y))); }
    if x.partial_cmp(y) != Some(tc) { return Some(format!("partial_cmp gives {:?} but Term::cmp gives {tc:?}", x.partial_cmp(y))); }
    if (x < y) != (tc == Ordering::Less) || (x > y) != (tc == Ordering::Greater) || (x <= y) != (tc != Ordering::Greater) { return Some(format!("the operators <, >, <= disagree with Term::cmp = {tc:?}")); }
    let h = |t: &T| { let mut r = Rec::default(); std::hash::Hash::hash(t, &mut r); r.0 };
    if te && h(x) != h(y) { return Some("equal values have different std hashes".into()); }
    None
}
fn c_cmp(o: Ordering) -> &'static str { match o { Ordering::Less => "Lt", Ordering::Equal => "Eq", Ordering::Greater => "Gt" } }

fn main() {
    let a = parse_args();
    let mut sum = Summary::default();
    sum.rule = "batches of abstract terms (all kinds, nesting <= 2, case-variant language tags, non-BMP strings, native-valued literals); each term is instantiated in every Term type that can hold it; \
evaluation = one ordered pair of abstract terms compared in ALL pairs of representations (eq, cmp) or one term hashed in all representations or converted along every conversion path; \
non-trivial pair = equal-but-differently-spelled terms, or same-kind unequal terms; distinct = distinct printed pair".into();
    let base = Rng::new(a.seed);
    let batches: Vec<usize> = match a.only { Some(i) => vec![i], None => (0..a.n).collect() };
    let mut cases: Vec<(usize, String)> = vec![];
    let mut header = String::from("From Sophia.C02 Require Import Model.\n");
    let mut seen = std::collections::HashSet::new();
    let mut case_no = 0usize;
    let pool_size = 14;
    for b in batches {
        let mut r = base.fork(b as u64);
        let mut pool: Vec<Abs> = (0..pool_size).map(|_| gen_abs(&mut r, 2)).collect();
        // equal-but-differently-spelled twins: every tagged term also appears with its tag case swapped
        let twins: Vec<Abs> = pool.iter().filter_map(|x| flip_case(&x.st)).map(|st| Abs { st, native: Native::None, ns_split: vec![] }).collect();
        pool.extend(twins.into_iter().take(4));
        // near misses: for a few terms of the pool, terms differing from them in one respect only
        for _ in 0..3 { let k = r.below(pool_size); let nv = near_variants(&pool[k].st.clone(), &mut r); for st in nv.into_iter().take(3) { pool.push(Abs { st, native: Native::None, ns_split: vec![] }); } }
        let mut arc_stash = ArcStrStash::new(); let mut rc_stash = RcStrStash::new();
        let all: Vec<Vec<Rep>> = pool.iter().map(|x| reps(x, &mut arc_stash, &mut rc_stash)).collect();
        for (i, x) in pool.iter().enumerate() { header.push_str(&format!("Definition t{b}_{i} : term := {}.\n", coq_term(&x.st))); }
        // hashing: all representations write the same bytes
        for (i, x) in pool.iter().enumerate() {
            let h0 = rec(&x.st);
            for rp in &all[i] {
                let h = with_rep!(rp, t => rec(t.borrow_term()));
                if h != h0 { sum.oracle_failures.push((format!("{b}"), format!("hash differs between representations of {:?}: {} writes {:?}, SimpleTerm writes {:?}", x.st, rep_name(rp), h, h0))); }
                sum.bump(&format!("rep:{}", rep_name(rp)));
            }
            cases.push((case_no, format!("hash_ok t{b}_{i} {}", coq_bytes(&h0)))); case_no += 1; sum.evaluations += 1;
            // conversions along every path yield an equal term
            for rp in &all[i] {
                macro_rules! conv { ($ty:ty, $name:expr) => {{
                    let c: $ty = with_rep!(rp, t => t.borrow_term().into_term());
                    if !Term::eq(&c, x.st.borrow_term()) || Term::cmp(&c, x.st.borrow_term()) != Ordering::Equal || rec(&c) != h0 {
                        sum.oracle_failures.push((format!("{b}"), format!("conversion {} -> {} of {:?} is not an equal term", rep_name(rp), $name, x.st)));
                    }
                    sum.bump("conversion");
                }}; }
                conv!(SimpleTerm<'static>, "SimpleTerm"); conv!(ArcTerm, "ArcTerm"); conv!(RcTerm, "RcTerm");
                let c = with_rep!(rp, t => arc_stash.copy_term(t.borrow_term()));
                if !Term::eq(&c, x.st.borrow_term()) { sum.oracle_failures.push((format!("{b}"), format!("stash copy of {} {:?} differs", rep_name(rp), x.st))); }
                if x.st.is_literal() {
                    let c: GenericLiteral<String> = with_rep!(rp, t => t.borrow_term().try_into_term().unwrap());
                    if !Term::eq(&c, x.st.borrow_term()) { sum.oracle_failures.push((format!("{b}"), format!("conversion {} -> GenericLiteral of {:?} is not an equal term", rep_name(rp), x.st))); }
                }
                let c = with_rep!(rp, t => t.as_simple());
                if !Term::eq(&c, x.st.borrow_term()) { sum.oracle_failures.push((format!("{b}"), format!("as_simple of {} {:?} differs", rep_name(rp), x.st))); }
            }
        }
        // pairs
        let mut eqm = vec![vec![false; pool.len()]; pool.len()];
        let mut cmpm = vec![vec![Ordering::Equal; pool.len()]; pool.len()];
        for i in 0..pool.len() { for j in 0..pool.len() {
            let e0 = Term::eq(&pool[i].st, pool[j].st.borrow_term());
            let c0 = Term::cmp(&pool[i].st, pool[j].st.borrow_term());
            eqm[i][j] = e0; cmpm[i][j] = c0;
            for ra in &all[i] { for rb in &all[j] {
                let (e, c, he) = with_rep!(ra, x => with_rep!(rb, y => (Term::eq(x, y.borrow_term()), Term::cmp(x, y.borrow_term()), rec(x.borrow_term()) == rec(y.borrow_term()))));
                if e != e0 || c != c0 { sum.oracle_failures.push((format!("{b}"), format!("{} vs {}: eq={e} cmp={c:?} but SimpleTerm vs SimpleTerm gives eq={e0} cmp={c0:?} for {:?} / {:?}", rep_name(ra), rep_name(rb), pool[i].st, pool[j].st))); }
                if e && !he { sum.oracle_failures.push((format!("{b}"), format!("equal terms hash differently: {} {:?} / {} {:?}", rep_name(ra), pool[i].st, rep_name(rb), pool[j].st))); }
                if (c == Ordering::Equal) != e { sum.oracle_failures.push((format!("{b}"), format!("cmp Equal <-> eq violated: {} {:?} / {} {:?}", rep_name(ra), pool[i].st, rep_name(rb), pool[j].st))); }
                sum.bump("pair-in-rep-pair");
            } }
            // std traits (PartialEq / Ord / PartialOrd / Hash) of the term types that have them
            for ra in &all[i] { for rb in &all[j] {
                let d = match (ra, rb) {
                    (Rep::Simple(x), Rep::Simple(y)) => std_traits_agree(x, y), (Rep::Arc(x), Rep::Arc(y)) => std_traits_agree(x, y), (Rep::Rc(x), Rep::Rc(y)) => std_traits_agree(x, y),
                    (Rep::ArcStashed(x), Rep::Arc(y)) => std_traits_agree(x, y), (Rep::GenLit(x), Rep::GenLit(y)) => std_traits_agree(x, y),
                    (Rep::Cmp(x), Rep::Cmp(y)) => std_traits_agree(x, y), (Rep::CmpArc(x), Rep::CmpArc(y)) => std_traits_agree(x, y),
                    (Rep::Result(x), Rep::Result(y)) | (Rep::ResultCached(x), Rep::ResultCached(y)) | (Rep::Result(x), Rep::ResultCached(y)) | (Rep::ResultCached(x), Rep::Result(y)) => std_traits_agree(x, y),
                    _ => None };
                if let Some(d) = d { sum.oracle_failures.push((format!("{b}"), format!("std traits of {}: {d}; for {:?} / {:?}", rep_name(ra), pool[i].st, pool[j].st))); }
            } }
            if let (SimpleTerm::LiteralLanguage(_, t1), SimpleTerm::LiteralLanguage(_, t2)) = (&pool[i].st, &pool[j].st) {
                let exp = t1.as_str().to_ascii_lowercase().cmp(&t2.as_str().to_ascii_lowercase());
                let h = |t: &sophia_api::term::LanguageTag<_>| { let mut r = Rec::default(); std::hash::Hash::hash(t, &mut r); r.0 };
                if Ord::cmp(t1, t2) != exp || (t1 == t2) != (exp == Ordering::Equal) || t1.partial_cmp(t2) != Some(exp) || (exp == Ordering::Equal && h(t1) != h(t2)) {
                    sum.oracle_failures.push((format!("{b}"), format!("LanguageTag {:?} vs {:?}: cmp={:?} eq={} but the case-folded tags compare {exp:?}", t1.as_str(), t2.as_str(), Ord::cmp(t1, t2), t1 == t2))); }
            }
            let text = format!("{:?}|{:?}", pool[i].st, pool[j].st);
            let nontrivial = (e0 && format!("{:?}", pool[i].st) != format!("{:?}", pool[j].st)) || (!e0 && pool[i].st.kind() == pool[j].st.kind());
            if seen.insert(text) && nontrivial { sum.distinct_nontrivial += 1; }
            cases.push((case_no, format!("pair_ok t{b}_{i} t{b}_{j} {} {}", coq_bool(e0), c_cmp(c0)))); case_no += 1; sum.evaluations += 1;
            if sum.samples.len() < 4 && nontrivial { sum.samples.push(format!("{:?} vs {:?}: eq={e0} cmp={c0:?}, {}x{} representation pairs agree", pool[i].st, pool[j].st, all[i].len(), all[j].len())); }
        } }
        // laws on triples of values
        let n = pool.len();
        for i in 0..n { for j in 0..n {
            if cmpm[j][i] != cmpm[i][j].reverse() { sum.oracle_failures.push((format!("{b}"), format!("cmp not antisymmetric: {:?} / {:?}", pool[i].st, pool[j].st))); }
            if eqm[i][j] != eqm[j][i] { sum.oracle_failures.push((format!("{b}"), format!("eq not symmetric: {:?} / {:?}", pool[i].st, pool[j].st))); }
            let (ki, kj) = (pool[i].st.kind(), pool[j].st.kind());
            let rank = |k: TermKind| match k { TermKind::BlankNode => 0, TermKind::Iri => 1, TermKind::Literal => 2, TermKind::Triple => 3, TermKind::Variable => 4 };
            if rank(ki) < rank(kj) && cmpm[i][j] != Ordering::Less { sum.oracle_failures.push((format!("{b}"), format!("kind order violated: {:?} / {:?}", pool[i].st, pool[j].st))); }
            for k in 0..n {
                if cmpm[i][j] != Ordering::Greater && cmpm[j][k] != Ordering::Greater && cmpm[i][k] == Ordering::Greater { sum.oracle_failures.push((format!("{b}"), format!("cmp not transitive: {:?} <= {:?} <= {:?}", pool[i].st, pool[j].st, pool[k].st))); }
                if eqm[i][j] && eqm[j][k] && !eqm[i][k] { sum.oracle_failures.push((format!("{b}"), format!("eq not transitive: {:?} {:?} {:?}", pool[i].st, pool[j].st, pool[k].st))); }
            }
        } }
        // NsTerm::eq against every term, vs the model
        for (i, x) in pool.iter().enumerate() { if let SimpleTerm::Iri(iri_) = &x.st { for k in &x.ns_split { for (j, y) in pool.iter().enumerate() {
            let ns = NsTerm::new_unchecked(IriRef::new_unchecked(&iri_.as_str()[..*k]), &iri_.as_str()[*k..]);
            let e = Term::eq(&ns, y.st.borrow_term());
            if e != eqm[i][j] { sum.oracle_failures.push((format!("{b}"), format!("NsTerm({:?}+{:?}) eq {:?} = {e}, default eq gives {}", &iri_.as_str()[..*k], &iri_.as_str()[*k..], y.st, eqm[i][j]))); }
            cases.push((case_no, format!("ns_ok {} {} t{b}_{j} {}", coq_str(&iri_.as_str()[..*k]), coq_str(&iri_.as_str()[*k..]), coq_bool(e)))); case_no += 1; sum.evaluations += 1;
        } } } }
        if a.only.is_some() { for f in &sum.oracle_failures { println!("FAIL {}", f.1); } println!("batch {b}: pool {:?}", pool.iter().map(|x| format!("{:?}", x.st)).collect::<Vec<_>>()); }
    }
    sum.oracle_failures.truncate(50);
    if a.only.is_none() {
        sum.shards = write_shards(&a.out, &header, &cases, a.shards);
        sum.extra.push(("coq_cases".into(), cases.len().to_string()));
        std::fs::write(format!("{}/summary.json", a.out), sum.to_json()).unwrap();
    }
    println!("c02: {} evaluations, {} distinct non-trivial, {} oracle failures", sum.evaluations, sum.distinct_nontrivial, sum.oracle_failures.len());
}
