(* C13/Nested.v -- quoted-triple patterns nested in quoted-triple patterns (any depth).
   The engine matches a triple pattern in TWO phases: matcher.rs builds a SparqlMatcher from the
   pattern and the current binding and the dataset keeps the triples it accepts
   ([Model.m_matches (Model.build p b)]); binding.rs then walks the pattern and the accepted
   triple side by side and records the variables / blank node placeholders
   ([Model.populate], which does NOT compare constants and unwraps the components of a quoted
   triple: it relies on the matcher having checked them).  The specification is ONE walk:
   unification of the pattern with the term under the current binding ([pmatch], the function
   of the Rust oracle `unify`).  Definitions only. *)
From Sophia.C13 Require Import Model.

(* depth of nesting of quoted triples: 0 for an atom *)
Fixpoint tdepth (t : term) : nat :=
  match t with
  | Triple s p o => S (Nat.max (tdepth s) (Nat.max (tdepth p) (tdepth o)))
  | _ => O
  end.
(* depth of the quoted-triple STRUCTURE of a pattern (constants and atoms count 0) *)
Fixpoint sdepth (p : tpat) : nat :=
  match p with
  | PTrip s p o => S (Nat.max (sdepth s) (Nat.max (sdepth p) (sdepth o)))
  | _ => O
  end.
Fixpoint ground (p : tpat) : bool :=
  match p with
  | PConst _ => true
  | PAtom _ => false
  | PTrip s p o => ground s && ground p && ground o
  end.

(* unification of a term pattern with a term, extending the binding (None: no match) *)
Fixpoint pmatch (p : tpat) (t : term) (b : binding) : option binding :=
  match p with
  | PConst c => if teq c t then Some b else None
  | PAtom a =>
      match get a b with
      | Some t' => if teq t' t then Some b else None
      | None => Some (set a t b)
      end
  | PTrip ps pp po =>
      match t with
      | Triple ts tp to =>
          match pmatch ps ts b with
          | Some b1 => match pmatch pp tp b1 with
                       | Some b2 => pmatch po to b2
                       | None => None
                       end
          | None => None
          end
      | _ => None
      end
  end.
Definition pmatch3 (tp : tp3) (m : triple) (b : binding) : option binding :=
  let '(ps, pp, po) := tp in let '(ms, mp, mo) := m in
  match pmatch ps ms b with
  | Some b1 => match pmatch pp mp b1 with
               | Some b2 => pmatch po mo b2
               | None => None
               end
  | None => None
  end.

(* the engine's two phases, for one term and for one triple *)
Definition engine_match (p : tpat) (t : term) (b : binding) : option binding :=
  if m_matches (build p b) t then populate p t b else None.
Definition engine_match3 (tp : tp3) (m : triple) (b : binding) : option binding :=
  if matches3 (build3 tp b) m then populate3 tp m b else None.

(* one step of bgp_rec over the triples G of the active graph, written with unification *)
Definition unify_step (rec : binding -> list binding) (first : tp3) (b : binding) (m : triple)
  : list binding :=
  match pmatch3 first m b with Some b' => rec b' | None => [] end.
